//! History generators: `gen random` (weighted random histories) and
//! `gen builds` (exhaustive small heaps followed by one operation).

use crate::types::Rng;
use std::collections::HashMap;
use std::fmt::Write as _;
use std::io::Write as _;

// ---------------------------------------------------------------------------
// operation weights: THE place to edit profiles
// ---------------------------------------------------------------------------

#[derive(Clone, Copy, PartialEq, Eq, Debug)]
enum OpK {
    Push,
    PushInc,
    PushDec,
    Chg,
    ChgBy,
    ChgAdd,
    Remove,
    Peek,
    PeekMut,
    Pop,
    PopIf,
    Get,
    GetPrio,
    GetMut,
    Len,
    IsEmpty,
    Clear,
    New,
    FromVec,
    FromIter,
    Extend,
    Append,
    Convert,
    Clone,
    Eq,
    Serde,
    Deser,
    Retain,
    RetainMut,
    SortedVec,
    IntoVec,
    IterMut,
    Iter,
    IntoIter,
    Drain,
    SortedIter,
    WithCap,
    Reserve,
    ReserveX,
    TryReserve,
    TryReserveX,
    Shrink,
    Capacity,
    DebugFmt,
    LateWrite,
}
use OpK::*;

/// columns: core, bulk, iter, cap, all, fuse  (`fuse` = `all` without serde / deser)
#[rustfmt::skip]
const WEIGHTS: &[(OpK, [u32; 6])] = &[
    //                 core  bulk  iter   cap   all  fuse
    (Push,           [ 300,  100,  100,  150,  120,  120]),
    (PushInc,        [  50,   15,   10,   15,   20,   20]),
    (PushDec,        [  50,   15,   10,   15,   20,   20]),
    (Chg,            [ 100,   30,   20,   30,   40,   40]),
    (ChgBy,          [  40,   10,   10,   10,   15,   15]),
    (ChgAdd,         [  40,   10,   10,   10,   15,   15]),
    (Remove,         [  80,   25,   20,   25,   30,   30]),
    (Peek,           [  40,   10,   10,   10,   12,   12]),
    (PeekMut,        [  30,   10,   10,   10,   10,   10]),
    (Pop,            [ 100,   30,   25,   30,   40,   40]),
    (PopIf,          [  70,   20,   10,   15,   25,   25]),
    (Get,            [  25,    8,    5,    8,    8,    8]),
    (GetPrio,        [  25,    8,    5,    8,    8,    8]),
    (GetMut,         [  25,    8,    5,    8,    8,    8]),
    (Len,            [  15,    5,    5,    8,    5,    5]),
    (IsEmpty,        [  10,    3,    3,    5,    3,    3]),
    (Clear,          [   3,    2,    1,    2,    2,    2]),
    (New,            [   2,    4,    1,    3,    3,    3]),
    (FromVec,        [   0,   25,    2,    0,   10,   10]),
    (FromIter,       [   0,   25,    2,    0,   10,   10]),
    (Extend,         [   0,   40,    2,    0,   15,   15]),
    (Append,         [   0,   20,    0,    0,    8,    8]),
    (Convert,        [   0,   12,    1,    0,    5,    5]),
    (Clone,          [   0,   12,    1,    0,    5,    5]),
    (Eq,             [   0,   12,    0,    0,    5,    5]),
    (Serde,          [   0,   12,    0,    0,    5,    0]),
    (Deser,          [   0,   15,    0,    0,    6,    0]),
    (Retain,         [   0,   15,    0,    0,    6,    6]),
    (RetainMut,      [   0,   15,    0,    0,    6,    6]),
    (SortedVec,      [   0,   12,    0,    0,    5,    5]),
    (IntoVec,        [   0,    8,    0,    0,    3,    3]),
    (IterMut,        [   0,    0,   60,    0,   15,   15]),
    (Iter,           [   0,    0,   30,    0,    8,    8]),
    (IntoIter,       [   0,    0,   25,    0,    6,    6]),
    (Drain,          [   0,    0,   15,    0,    4,    4]),
    (SortedIter,     [   0,    0,   30,    0,    8,    8]),
    (WithCap,        [   0,    0,    0,   10,    2,    2]),
    (Reserve,        [   0,    0,    0,   25,    4,    4]),
    (ReserveX,       [   0,    0,    0,   20,    3,    3]),
    (TryReserve,     [   0,    0,    0,   25,    4,    4]),
    (TryReserveX,    [   0,    0,    0,   20,    3,    3]),
    (Shrink,         [   0,    0,    0,   20,    3,    3]),
    (Capacity,       [   0,    0,    0,   20,    3,    3]),
    (DebugFmt,       [   6,    4,    2,    4,    4,    4]),
    (LateWrite,      [   0,    0,    6,    0,    3,    2]),
];

/// probability (percent) that an op of the `fuse` profile is prefixed `fuse k`
const FUSE_PCT: u64 = 30;
/// k of `fuse k` is drawn from 0..FUSE_MAX
const FUSE_MAX: u64 = 6;
/// probability (percent) of an iterator script with a call the type does not offer
const INVALID_SCRIPT_PCT: u64 = 2;
/// probability (percent) of an op on an empty register / a side the kind does not have
const INVALID_OP_PCT: u64 = 1;

fn opk_of_name(n: &str) -> Option<OpK> {
    Some(match n {
        "push" => Push,
        "pushinc" => PushInc,
        "pushdec" => PushDec,
        "chg" => Chg,
        "chgby" => ChgBy,
        "chgadd" => ChgAdd,
        "remove" => Remove,
        "peek" => Peek,
        "peekmut" => PeekMut,
        "pop" => Pop,
        "popif" => PopIf,
        "get" => Get,
        "getprio" => GetPrio,
        "getmut" => GetMut,
        "len" => Len,
        "isempty" => IsEmpty,
        "clear" => Clear,
        "new" => New,
        "fromvec" => FromVec,
        "fromiter" => FromIter,
        "extend" => Extend,
        "append" => Append,
        "convert" => Convert,
        "clone" => Clone,
        "eq" => Eq,
        "serde" => Serde,
        "deser" => Deser,
        "retain" => Retain,
        "retainmut" => RetainMut,
        "sortedvec" => SortedVec,
        "intovec" => IntoVec,
        "itermut" => IterMut,
        "iter" => Iter,
        "intoiter" => IntoIter,
        "drain" => Drain,
        "sortediter" => SortedIter,
        "withcap" => WithCap,
        "reserve" => Reserve,
        "reservex" => ReserveX,
        "tryreserve" => TryReserve,
        "tryreservex" => TryReserveX,
        "shrink" => Shrink,
        "capacity" => Capacity,
        "debug" => DebugFmt,
        "latewrite" => LateWrite,
        _ => return None,
    })
}

fn profile_column(name: &str) -> Option<(usize, bool)> {
    Some(match name {
        "core" => (0, false),
        "bulk" => (1, false),
        "iter" => (2, false),
        "cap" => (3, false),
        "all" => (4, false),
        "fuse" => (5, true),
        "hfuse" => (5, true),
        _ => return None,
    })
}

// ---------------------------------------------------------------------------
// parameters
// ---------------------------------------------------------------------------

#[derive(Clone, Copy, PartialEq, Eq, Debug)]
enum Kind {
    Pq,
    Dpq,
}
impl Kind {
    fn s(self) -> &'static str {
        match self {
            Kind::Pq => "pq",
            Kind::Dpq => "dpq",
        }
    }
    fn other(self) -> Kind {
        match self {
            Kind::Pq => Kind::Dpq,
            Kind::Dpq => Kind::Pq,
        }
    }
}
#[derive(Clone, Copy, PartialEq, Eq)]
enum Prios {
    Small,
    Wide,
    Extreme,
}

struct Flags(HashMap<String, String>);
impl Flags {
    fn parse(args: &[String]) -> Result<Flags, String> {
        let mut m = HashMap::new();
        let mut i = 0;
        while i < args.len() {
            let k = args[i]
                .strip_prefix("--")
                .ok_or_else(|| format!("unexpected argument `{}`", args[i]))?;
            let v = args.get(i + 1).ok_or_else(|| format!("--{k} needs a value"))?;
            m.insert(k.to_string(), v.clone());
            i += 2;
        }
        Ok(Flags(m))
    }
    fn get<T: std::str::FromStr>(&mut self, k: &str, dflt: T) -> Result<T, String> {
        match self.0.remove(k) {
            None => Ok(dflt),
            Some(v) => v.parse().map_err(|_| format!("bad value for --{k}: `{v}`")),
        }
    }
    fn shard(&mut self) -> Result<(u64, u64), String> {
        match self.0.remove("shard") {
            None => Ok((0, 1)),
            Some(v) => {
                let (a, b) = v.split_once('/').ok_or("--shard wants i/n")?;
                let (a, b): (u64, u64) = (
                    a.parse().map_err(|_| "--shard wants i/n")?,
                    b.parse().map_err(|_| "--shard wants i/n")?,
                );
                if b == 0 || a >= b {
                    return Err("--shard i/n needs i < n".into());
                }
                Ok((a, b))
            }
        }
    }
    fn done(self) -> Result<(), String> {
        match self.0.keys().next() {
            None => Ok(()),
            Some(k) => Err(format!("unknown option --{k}")),
        }
    }
}

fn open_out(path: &str) -> Result<Box<dyn std::io::Write>, String> {
    if path == "-" {
        Ok(Box::new(std::io::BufWriter::new(std::io::stdout())))
    } else {
        let f = std::fs::File::create(path).map_err(|e| format!("{path}: {e}"))?;
        Ok(Box::new(std::io::BufWriter::with_capacity(1 << 20, f)))
    }
}

pub fn main(sub: &str, args: &[String]) -> Result<(), String> {
    match sub {
        "random" => gen_random(args),
        "builds" => gen_builds(args),
        _ => Err(format!("unknown generator `{sub}`")),
    }
}

// ---------------------------------------------------------------------------
// gen random
// ---------------------------------------------------------------------------

struct Params {
    len: u64,
    kind: Option<Kind>,
    col: usize,
    fuse: bool,
    keys: u64,
    prios: Prios,
    hashmode: u32,
    disputed: bool,
    hfuse: bool,
    /// per-op weight multipliers (--exclude a,b = x0; --boost a:k = xk)
    mult: Vec<(OpK, u32)>,
}

/// light shadow of a register: which keys are probably present, with what priority
#[derive(Clone, Default)]
struct Shadow {
    kind: Option<Kind>,
    ents: Vec<(i64, i64)>,
}
impl Shadow {
    fn find(&self, k: i64) -> Option<usize> {
        self.ents.iter().position(|e| e.0 == k)
    }
    fn set(&mut self, k: i64, p: i64) {
        match self.find(k) {
            Some(i) => self.ents[i].1 = p,
            None => self.ents.push((k, p)),
        }
    }
    fn del(&mut self, k: i64) {
        if let Some(i) = self.find(k) {
            self.ents.swap_remove(i);
        }
    }
    fn extreme(&self, max: bool) -> Option<usize> {
        let it = self.ents.iter().enumerate();
        if max {
            it.max_by_key(|(_, e)| e.1).map(|(i, _)| i)
        } else {
            it.min_by_key(|(_, e)| e.1).map(|(i, _)| i)
        }
    }
    fn len(&self) -> usize {
        self.ents.len()
    }
}

struct Gen<'a> {
    p: &'a Params,
    rng: Rng,
    regs: Vec<Shadow>,
    kind: Kind,
    signed_keys: bool,
    payload: i64,
    alt: bool,
}

fn log2(x: usize) -> usize {
    (usize::BITS - x.leading_zeros() - 1) as usize
}
/// the crate's `better_to_rebuild`
fn better_to_rebuild(len1: usize, len2: usize) -> bool {
    len1 > 1 && (len1 + len2) * 2 < len2 * log2(len1)
}

impl<'a> Gen<'a> {
    fn key_at(&self, j: u64) -> i64 {
        if self.signed_keys {
            if j % 2 == 1 {
                -(((j + 1) / 2) as i64)
            } else {
                (j / 2) as i64
            }
        } else {
            j as i64
        }
    }
    fn any_key(&mut self) -> i64 {
        let j = self.rng.below(self.p.keys);
        self.key_at(j)
    }
    fn absent_key(&mut self, r: usize) -> i64 {
        for _ in 0..6 {
            let k = self.any_key();
            if self.regs[r].find(k).is_none() {
                return k;
            }
        }
        // outside the universe: never pushed
        self.p.keys as i64 + self.rng.below(4) as i64
    }
    fn present_key(&mut self, r: usize) -> Option<i64> {
        let n = self.regs[r].len();
        if n == 0 {
            None
        } else {
            Some(self.regs[r].ents[self.rng.below(n as u64) as usize].0)
        }
    }
    /// ~70% a key that is present (78% from the shadow, which drifts a little)
    fn lookup_key(&mut self, r: usize) -> i64 {
        if self.rng.pct(78) {
            if let Some(k) = self.present_key(r) {
                return k;
            }
        }
        self.absent_key(r)
    }
    fn push_key(&mut self, r: usize) -> i64 {
        if self.rng.pct(30) {
            if let Some(k) = self.present_key(r) {
                return k;
            }
        }
        self.absent_key(r)
    }
    fn prio(&mut self) -> i64 {
        match self.p.prios {
            Prios::Small => self.rng.range(0, 3),
            Prios::Wide => self.rng.range(-50, 50),
            Prios::Extreme => {
                if self.rng.pct(50) {
                    *self.rng.pick(&[i64::MIN, -1, 0, 1, i64::MAX])
                } else {
                    self.rng.range(0, 3)
                }
            }
        }
    }
    /// the token of a priority: now and then with a tag (`v/t`), which Ord
    /// ignores, so that priorities that tie stay distinguishable
    fn ptok(&mut self, p: i64) -> String {
        if self.rng.pct(15) {
            format!("{p}/{}", self.rng.range(1, 3))
        } else {
            p.to_string()
        }
    }
    fn pl(&mut self) -> i64 {
        self.payload += 1;
        self.payload
    }
    fn opt_prio(&mut self, none_pct: u64) -> String {
        if self.rng.pct(none_pct) {
            "-".into()
        } else {
            let p = self.prio();
            self.ptok(p)
        }
    }
    fn opt_pl(&mut self, none_pct: u64) -> String {
        if self.rng.pct(none_pct) {
            "-".into()
        } else {
            self.pl().to_string()
        }
    }
    fn gen_kind(&mut self) -> Kind {
        match self.p.kind {
            Some(k) => k,
            None => {
                if self.rng.pct(85) {
                    self.kind
                } else {
                    self.kind.other()
                }
            }
        }
    }
    fn nonempty(&self) -> Vec<usize> {
        (0..self.regs.len()).filter(|r| self.regs[*r].kind.is_some()).collect()
    }
    /// register the next op works on: mostly 0
    fn target(&mut self) -> Option<usize> {
        let ne = self.nonempty();
        if ne.is_empty() {
            return None;
        }
        if ne[0] == 0 && self.rng.pct(70) {
            return Some(0);
        }
        Some(*self.rng.pick(&ne))
    }
    fn any_reg(&mut self) -> usize {
        self.rng.below(self.regs.len() as u64) as usize
    }
    fn side(&mut self, r: usize, drain_phase: bool) -> &'static str {
        match self.regs[r].kind {
            Some(Kind::Dpq) => {
                let max = if drain_phase {
                    self.alt = !self.alt;
                    self.alt
                } else {
                    self.rng.pct(50)
                };
                if max {
                    "max"
                } else {
                    "min"
                }
            }
            _ => {
                if self.rng.pct(INVALID_OP_PCT) {
                    "min"
                } else {
                    "max"
                }
            }
        }
    }

    /// `n (k pl p)*n`; `dups`: probability (percent) of repeating an earlier key
    fn elems(&mut self, r_for_keys: Option<usize>, n: usize, dups: u64) -> (String, Vec<(i64, i64)>) {
        let mut s = n.to_string();
        let mut l: Vec<(i64, i64)> = Vec::with_capacity(n);
        for _ in 0..n {
            let k = if !l.is_empty() && self.rng.pct(dups) {
                l[self.rng.below(l.len() as u64) as usize].0
            } else {
                match r_for_keys {
                    Some(r) if self.rng.pct(75) => self.absent_key(r),
                    _ => self.any_key(),
                }
            };
            let p = self.prio();
            let pl = self.pl();
            let pt = self.ptok(p);
            let _ = write!(s, " {k} {pl} {pt}");
            l.push((k, p));
        }
        (s, l)
    }
    fn list_size(&mut self) -> usize {
        let x = self.rng.below(100);
        (if x < 50 {
            self.rng.range(0, 8)
        } else if x < 80 {
            self.rng.range(9, 20)
        } else {
            self.rng.range(25, 45)
        }) as usize
    }
    /// size of an extend: small, or on either side of the rebuild threshold
    fn extend_size(&mut self, cur: usize) -> usize {
        let x = self.rng.below(100);
        if x < 40 {
            return self.rng.range(0, 6) as usize;
        }
        if x < 80 {
            // smallest n with better_to_rebuild(cur, n)
            if let Some(t) = (1..=64).find(|n| better_to_rebuild(cur, *n)) {
                let lo = t.saturating_sub(3).max(1) as i64;
                return self.rng.range(lo, t as i64 + 3) as usize;
            }
        }
        self.rng.range(7, 40) as usize
    }
    fn hint(&mut self, n: usize) -> (String, String) {
        match self.rng.below(6) {
            0 | 1 => (n.to_string(), n.to_string()),
            2 => ("0".into(), "-".into()),
            3 => {
                // a huge upper bound, saturating the cost estimate or not
                let his = [
                    "18446744073709551615", "9223372036854775807", "4611686018427387903",
                    "1152921504606846975", "281474976710656", "4611686018427387904",
                ];
                let lo = if self.rng.pct(50) { 0 } else { self.rng.range(0, n as i64) };
                (lo.to_string(), his[self.rng.below(his.len() as u64) as usize].into())
            }
            4 => (n.to_string(), "-".into()),
            _ => {
                let lo = self.rng.range(0, n as i64);
                let hi = n as i64 + self.rng.range(0, 40);
                (lo.to_string(), hi.to_string())
            }
        }
    }

    /// iterator script `A E n step*n` for an iterator over `len` elements
    fn script(&mut self, full: bool, itermut: bool, len: usize) -> String {
        let nsteps = self.rng.below(len as u64 + 4) as usize;
        let cnt = |g: &mut Gen| g.rng.below(len as u64 + 3);
        // adaptor
        let mut ad = if full {
            match self.rng.below(4) {
                0 | 1 => "direct".to_string(),
                2 => "rev".to_string(),
                _ => format!("take:{}", cnt(self)),
            }
        } else if self.rng.pct(60) {
            "direct".to_string()
        } else {
            format!("take:{}", cnt(self))
        };
        let take = ad.starts_with("take");
        // end
        let mut end = if full && ad == "direct" && self.rng.pct(45) {
            match self.rng.below(6) {
                0 => format!("len:take:{}", cnt(self)),
                1 => format!("len:skip:{}", cnt(self)),
                2 => format!("len:zip:{}", cnt(self)),
                3 => "len:rev".to_string(),
                4 => "len:enum".to_string(),
                _ => "len:peek".to_string(),
            }
        } else if self.rng.pct(18) {
            // consuming methods (std defaults in terms of next)
            ["count", "last", "collect"][self.rng.below(3) as usize].to_string()
        } else if self.rng.pct(70) {
            "drop".to_string()
        } else if self.rng.pct(60) {
            "forget".to_string()
        } else {
            // the caller's loop body panics: the iterator is dropped while unwinding
            "panic".to_string()
        };
        // steps
        let mut steps: Vec<String> = Vec::with_capacity(nsteps);
        for _ in 0..nsteps {
            let x = self.rng.below(100);
            let mut st = if full {
                if x < 40 {
                    "n"
                } else if x < 70 {
                    if take {
                        "n"
                    } else {
                        "b"
                    }
                } else if x < 85 {
                    "l"
                } else {
                    "s"
                }
            } else if x < 75 {
                "n"
            } else {
                "s"
            }
            .to_string();
            if (st == "n" || st == "b") && self.rng.pct(12) {
                // nth / nth_back: k mostly small, sometimes beyond what is left
                let k = if self.rng.pct(70) {
                    self.rng.below(3)
                } else if self.rng.pct(85) {
                    self.rng.below(len as u64 + 3)
                } else {
                    // far beyond the end, up to usize::MAX
                    [u64::MAX, u64::MAX - 1, 1 << 40][self.rng.below(3) as usize]
                };
                st = if st == "n" { format!("nth:{k}") } else { format!("nthb:{k}") };
            } else if itermut && (st == "n" || st == "b") && self.rng.pct(70) {
                let w = self.opt_prio(40);
                let pl = self.opt_pl(50);
                st = format!("{st}:{w}:{pl}");
            }
            steps.push(st);
        }
        // a call the type does not offer: the whole op is `invalid`.
        // Classes 6..=8 were once accepted by the model's lazy rule; they can
        // be switched off with --disputed 0.
        if self.rng.pct(INVALID_SCRIPT_PCT) {
            let classes = if self.p.disputed { 9 } else { 6 };
            let has_n = steps.iter().any(|s| s.starts_with('n'));
            match self.rng.below(classes) {
                // a call through skip(N)
                0 => {
                    ad = format!("skip:{}", cnt(self));
                    if steps.is_empty() {
                        steps.push("s".into());
                    }
                    if end.starts_with("len") {
                        end = "drop".into();
                    }
                }
                // next_back through take(N) / on a forward-only iterator
                1 if take || (!full && ad == "direct") => steps.push("b".into()),
                // len:* behind an adaptor
                2 if full && ad != "direct" => end = "len:enum".into(),
                // len() on a forward-only iterator
                3 if !full && ad == "direct" => steps.push("l".into()),
                // rev() of a forward-only iterator, with a next
                4 if !full => {
                    ad = "rev".into();
                    if !has_n {
                        steps.push("n".into());
                    }
                }
                // len:rev / len:enum of a forward-only iterator
                5 if !full && ad == "direct" => {
                    end = if self.rng.pct(50) { "len:rev".into() } else { "len:enum".into() }
                }
                // disputed: rev() of a forward-only iterator without next/next_back
                6 if !full => {
                    ad = "rev".into();
                    steps.retain(|s| s == "s");
                }
                // disputed: take(N).len() of a forward-only iterator
                7 if !full && take => steps.push("l".into()),
                // disputed: len:take/skip/zip/peek of a forward-only iterator
                8 if !full && ad == "direct" => {
                    end = match self.rng.below(4) {
                        0 => format!("len:take:{}", cnt(self)),
                        1 => format!("len:skip:{}", cnt(self)),
                        2 => format!("len:zip:{}", cnt(self)),
                        _ => "len:peek".to_string(),
                    }
                }
                _ => {}
            }
        } else if self.rng.pct(1) {
            // skip(N) around the iterator without any call: offered
            ad = format!("skip:{}", cnt(self));
            steps.clear();
            if end.starts_with("len") {
                end = "forget".into();
            }
        }
        let mut s = format!("{ad} {end} {}", steps.len());
        for st in steps {
            s.push(' ');
            s.push_str(&st);
        }
        s
    }

    fn weights(&self, frac: f64, style: u64) -> Vec<(OpK, u32)> {
        // style 0: uniform; 1: grow then drain; 2: grow, plateau, drain
        let (grow_until, drain_from) = match style {
            0 => (0.0, 2.0),
            1 => (0.55, 0.8),
            _ => (0.35, 0.85),
        };
        WEIGHTS
            .iter()
            .map(|(k, w)| {
                let mut w = w[self.p.col] * 4;
                for (mk, mm) in &self.p.mult {
                    if mk == k {
                        w *= *mm;
                    }
                }
                if frac < grow_until {
                    match k {
                        Push => w *= 4,
                        Pop | PopIf | Remove | Clear | Drain | Retain | RetainMut => w /= 4,
                        _ => {}
                    }
                } else if frac >= drain_from {
                    match k {
                        Pop => w *= 8,
                        PopIf => w *= 3,
                        Remove => w *= 2,
                        Push | PushInc | PushDec | Extend | FromVec | FromIter => w /= 4,
                        _ => {}
                    }
                }
                if self.p.kind.is_some() && *k == Convert {
                    w = 0;
                }
                (*k, w)
            })
            .collect()
    }

    fn pick_op(&mut self, ws: &[(OpK, u32)]) -> OpK {
        let total: u64 = ws.iter().map(|w| w.1 as u64).sum();
        let mut x = self.rng.below(total.max(1));
        for (k, w) in ws {
            if x < *w as u64 {
                return *k;
            }
            x -= *w as u64;
        }
        Push
    }

    /// one op line (without a fuse prefix); updates the shadow
    fn op(&mut self, k: OpK, drain_phase: bool) -> String {
        // constructors do not need a live register
        match k {
            New => {
                let (kd, r) = (self.gen_kind(), self.any_reg());
                self.regs[r] = Shadow { kind: Some(kd), ents: vec![] };
                return format!("new {} {r}", kd.s());
            }
            WithCap => {
                let (kd, r) = (self.gen_kind(), self.any_reg());
                let c = if self.rng.pct(70) { self.rng.range(0, 16) } else { self.rng.range(17, 1000) };
                self.regs[r] = Shadow { kind: Some(kd), ents: vec![] };
                return format!("withcap {} {r} {c}", kd.s());
            }
            FromVec => {
                let (kd, r) = (self.gen_kind(), self.any_reg());
                let n = self.list_size();
                let (s, l) = self.elems(None, n, 20);
                let mut sh = Shadow { kind: Some(kd), ents: vec![] };
                for (k, p) in l {
                    if sh.find(k).is_none() {
                        sh.set(k, p);
                    }
                }
                self.regs[r] = sh;
                return format!("fromvec {} {r} {s}", kd.s());
            }
            FromIter => {
                let (kd, r) = (self.gen_kind(), self.any_reg());
                let n = self.list_size();
                let (s, l) = self.elems(None, n, 20);
                let (lo, hi) = self.hint(n);
                let mut sh = Shadow { kind: Some(kd), ents: vec![] };
                for (k, p) in l {
                    sh.set(k, p);
                }
                self.regs[r] = sh;
                return format!("fromiter {} {r} {lo} {hi} {s}", kd.s());
            }
            Deser => {
                let (kd, r) = (self.gen_kind(), self.any_reg());
                let n = self.list_size();
                let (s, l) = self.elems(None, n, 25);
                let mut sh = Shadow { kind: Some(kd), ents: vec![] };
                for (k, p) in l {
                    sh.set(k, p);
                }
                self.regs[r] = sh;
                return format!("deser {} {r} {s}", kd.s());
            }
            _ => {}
        }
        let r = match self.target() {
            Some(r) => r,
            None => {
                let kd = self.gen_kind();
                self.regs[0] = Shadow { kind: Some(kd), ents: vec![] };
                return format!("new {} 0", kd.s());
            }
        };
        // now and then: the same op on an empty register
        if self.rng.pct(INVALID_OP_PCT) {
            if let Some(e) = (0..self.regs.len()).find(|i| self.regs[*i].kind.is_none()) {
                return match k {
                    Push => format!("push {e} 1 1 1"),
                    Pop => format!("pop {e} max"),
                    Remove => format!("remove {e} 1"),
                    _ => format!("len {e}"),
                };
            }
        }
        match k {
            Push | PushInc | PushDec => {
                let key = self.push_key(r);
                let (pl, p) = (self.pl(), self.prio());
                let old = self.regs[r].find(key).map(|i| self.regs[r].ents[i].1);
                let name = match k {
                    Push => {
                        self.regs[r].set(key, p);
                        "push"
                    }
                    PushInc => {
                        if old.map_or(true, |o| p > o) {
                            self.regs[r].set(key, p);
                        }
                        "pushinc"
                    }
                    _ => {
                        if old.map_or(true, |o| p < o) {
                            self.regs[r].set(key, p);
                        }
                        "pushdec"
                    }
                };
                format!("{name} {r} {key} {pl} {}", self.ptok(p))
            }
            Chg | ChgBy => {
                let key = self.lookup_key(r);
                let p = self.prio();
                if self.regs[r].find(key).is_some() {
                    self.regs[r].set(key, p);
                }
                format!("{} {r} {key} {}", if k == Chg { "chg" } else { "chgby" }, self.ptok(p))
            }
            ChgAdd => {
                let key = self.lookup_key(r);
                if self.p.prios == Prios::Extreme {
                    // i64::MAX + 1 would wrap in the crate but not in the model
                    let p = self.prio();
                    if self.regs[r].find(key).is_some() {
                        self.regs[r].set(key, p);
                    }
                    return format!("chgby {r} {key} {}", self.ptok(p));
                }
                let d = *self.rng.pick(&[-2i64, -1, -1, 1, 1, 2, 0]);
                if let Some(i) = self.regs[r].find(key) {
                    self.regs[r].ents[i].1 += d;
                }
                format!("chgadd {r} {key} {d}")
            }
            Remove => {
                let key = self.lookup_key(r);
                self.regs[r].del(key);
                format!("remove {r} {key}")
            }
            Peek => format!("peek {r} {}", self.side(r, false)),
            PeekMut => {
                let s = self.side(r, false);
                format!("peekmut {r} {s} {}", self.pl())
            }
            Pop => {
                let s = self.side(r, drain_phase);
                if let Some(i) = self.regs[r].extreme(s == "max") {
                    self.regs[r].ents.swap_remove(i);
                }
                format!("pop {r} {s}")
            }
            PopIf => {
                let s = self.side(r, drain_phase);
                let w = self.opt_prio(40);
                let pl = self.opt_pl(50);
                let b = self.rng.pct(50);
                if let Some(i) = self.regs[r].extreme(s == "max") {
                    if b {
                        self.regs[r].ents.swap_remove(i);
                    } else if let Ok(w) = w.parse::<i64>() {
                        self.regs[r].ents[i].1 = w;
                    }
                }
                format!("popif {r} {s} {w} {pl} {}", b as u8)
            }
            Get => format!("get {r} {}", self.lookup_key(r)),
            GetPrio => format!("getprio {r} {}", self.lookup_key(r)),
            GetMut => {
                let key = self.lookup_key(r);
                format!("getmut {r} {key} {}", self.pl())
            }
            Len => format!("len {r}"),
            IsEmpty => format!("isempty {r}"),
            Clear => {
                self.regs[r].ents.clear();
                format!("clear {r}")
            }
            Retain | RetainMut => {
                let d = self.rng.pct(70);
                let n = self.rng.below(self.regs[r].len() as u64 / 2 + 3) as usize;
                let mut tbl: Vec<(i64, Option<i64>, bool)> = Vec::new();
                for _ in 0..n {
                    let key = self.lookup_key(r);
                    let w = if k == RetainMut && self.rng.pct(60) { Some(self.prio()) } else { None };
                    tbl.push((key, w, self.rng.pct(50)));
                }
                let mut s = format!(
                    "{} {r} {} {n}",
                    if k == Retain { "retain" } else { "retainmut" },
                    d as u8
                );
                for (key, w, keep) in &tbl {
                    if k == Retain {
                        let _ = write!(s, " {key} {}", *keep as u8);
                    } else {
                        let w = match w {
                            None => "-".to_string(),
                            Some(w) => self.ptok(*w),
                        };
                        let _ = write!(s, " {key} {w} {}", *keep as u8);
                    }
                }
                let sh = &mut self.regs[r];
                sh.ents.retain_mut(|e| match tbl.iter().find(|t| t.0 == e.0) {
                    Some(t) => {
                        if let Some(w) = t.1 {
                            e.1 = w;
                        }
                        t.2
                    }
                    None => d,
                });
                s
            }
            IterMut | Iter | IntoIter | Drain | SortedIter => {
                let pq = self.regs[r].kind == Some(Kind::Pq);
                let full = !(pq && (k == IterMut || k == SortedIter));
                let len = self.regs[r].len();
                let sc = self.script(full, k == IterMut, len);
                let name = match k {
                    IterMut => "itermut",
                    Iter => "iter",
                    IntoIter => "intoiter",
                    Drain => "drain",
                    _ => "sortediter",
                };
                if k == Drain && !sc.starts_with("skip") {
                    self.regs[r].ents.clear();
                }
                format!("{name} {r} {sc}")
            }
            SortedVec => format!("sortedvec {r} {}", self.side(r, false)),
            IntoVec => format!("intovec {r}"),
            Extend => {
                let cur = self.regs[r].len();
                let n = self.extend_size(cur);
                let (s, l) = self.elems(Some(r), n, 15);
                let (lo, hi) = self.hint(n);
                for (key, p) in l {
                    self.regs[r].set(key, p);
                }
                format!("extend {r} {lo} {hi} {s}")
            }
            Append => {
                // needs a second register of the same kind
                let kd = self.regs[r].kind;
                let others: Vec<usize> =
                    (0..self.regs.len()).filter(|o| *o != r && self.regs[*o].kind == kd).collect();
                if others.is_empty() || self.rng.pct(INVALID_OP_PCT) {
                    // make one (or, rarely, an invalid append)
                    if self.regs.len() < 2 {
                        return format!("append {r} {r}");
                    }
                    let d = (r + 1 + self.rng.below(self.regs.len() as u64 - 1) as usize) % self.regs.len();
                    if self.rng.pct(50) {
                        self.regs[d] = self.regs[r].clone();
                        return format!("clone {r} {d}");
                    }
                    let n = self.list_size();
                    let (s, l) = self.elems(Some(r), n, 10);
                    let mut sh = Shadow { kind: kd, ents: vec![] };
                    for (key, p) in l {
                        if sh.find(key).is_none() {
                            sh.set(key, p);
                        }
                    }
                    self.regs[d] = sh;
                    return format!("fromvec {} {d} {s}", kd.unwrap().s());
                }
                let o = *self.rng.pick(&others);
                let (d, s) = if self.rng.pct(50) { (r, o) } else { (o, r) };
                let src = std::mem::take(&mut self.regs[s].ents);
                for (key, p) in src {
                    if self.regs[d].find(key).is_none() {
                        self.regs[d].set(key, p);
                    }
                }
                format!("append {d} {s}")
            }
            Convert => {
                self.regs[r].kind = self.regs[r].kind.map(Kind::other);
                format!("convert {r}")
            }
            Clone => {
                let d = self.any_reg();
                // Clone::clone_from into a live queue of the same kind, otherwise clone()
                if d != r && self.regs[d].kind == self.regs[r].kind && self.rng.pct(50) {
                    self.regs[d] = self.regs[r].clone();
                    return format!("clonefrom {r} {d}");
                }
                self.regs[d] = self.regs[r].clone();
                format!("clone {r} {d}")
            }
            Eq => {
                let kd = self.regs[r].kind;
                let cross = self.rng.pct(INVALID_OP_PCT);
                let others: Vec<usize> = (0..self.regs.len())
                    .filter(|o| self.regs[*o].kind == kd || (cross && self.regs[*o].kind.is_some()))
                    .collect();
                let o = *self.rng.pick(&others);
                format!("eq {r} {o}")
            }
            Serde => {
                let kd = self.gen_kind();
                let d = self.any_reg();
                let mut sh = self.regs[r].clone();
                sh.kind = Some(kd);
                self.regs[d] = sh;
                format!("serde {r} {} {d}", kd.s())
            }
            Reserve | ReserveX => {
                let n = if self.rng.pct(70) { self.rng.range(0, 40) } else { self.rng.range(41, 1000) };
                format!("{} {r} {n}", if k == Reserve { "reserve" } else { "reservex" })
            }
            TryReserve | TryReserveX => {
                // small, or so large that it must fail; NEVER in between
                let n = if self.rng.pct(75) {
                    self.rng.range(0, 1000).to_string()
                } else {
                    self.rng
                        .pick(&[
                            "4611686018427387904",
                            "9223372036854775807",
                            "9223372036854775808",
                            "18446744073709551615",
                            "6917529027641081856",
                        ])
                        .to_string()
                };
                format!("{} {r} {n}", if k == TryReserve { "tryreserve" } else { "tryreservex" })
            }
            Shrink => format!("shrink {r}"),
            Capacity => format!("capacity {r}"),
            DebugFmt => format!("debug {r}"),
            LateWrite => {
                let p = self.prio();
                format!("latewrite {r} {}", self.ptok(p))
            }
            New | WithCap | FromVec | FromIter | Deser => unreachable!(),
        }
    }

    fn history(&mut self, id: u64, out: &mut String) {
        let nregs = if self.p.col == 0 { 2 } else { 3 };
        let _ = writeln!(out, "H {id} {} {nregs}", self.p.hashmode);
        self.regs = vec![Shadow::default(); nregs];
        self.regs[0] = Shadow { kind: Some(self.kind), ents: vec![] };
        let _ = writeln!(out, "new {} 0", self.kind.s());
        let style = self.rng.below(3);
        // about L ops: 0.75 L .. 1.25 L
        let n = (self.p.len * 3 / 4 + self.rng.below(self.p.len / 2 + 1)).max(1);
        for i in 1..n {
            let frac = i as f64 / n as f64;
            let ws = self.weights(frac, style);
            let k = self.pick_op(&ws);
            let drain_phase = style != 0 && frac >= 0.8;
            let line = self.op(k, drain_phase);
            // (never a fused callback under an iterator that is dropped while unwinding:
            // a second panic inside its Drop is an abort by the language's rules)
            // the line is run from a destructor while an unrelated panic unwinds
            if self.rng.pct(4) {
                out.push_str("unwinding ");
            }
            if self.p.fuse && !line.contains(" panic ") && self.rng.pct(FUSE_PCT) {
                let _ = write!(out, "{} {} ", if self.p.hfuse { "hfuse" } else { "fuse" }, self.rng.below(if self.p.hfuse { 3 * FUSE_MAX } else { FUSE_MAX }));
            }
            out.push_str(&line);
            out.push('\n');
        }
    }
}

fn gen_random(args: &[String]) -> Result<(), String> {
    let mut f = Flags::parse(args)?;
    let seed: u64 = f.get("seed", 1)?;
    let count: u64 = f.get("count", 100)?;
    let len: u64 = f.get("len", 60)?;
    let kind = match f.get("kind", "both".to_string())?.as_str() {
        "pq" => Some(Kind::Pq),
        "dpq" => Some(Kind::Dpq),
        "both" => None,
        k => return Err(format!("--kind `{k}`")),
    };
    let prof = f.get("profile", "all".to_string())?;
    let (col, fuse) = profile_column(&prof).ok_or_else(|| format!("--profile `{prof}`"))?;
    let keys: u64 = f.get("keys", 64)?;
    if keys == 0 {
        return Err("--keys must be positive".into());
    }
    let prios = match f.get("prios", "small".to_string())?.as_str() {
        "small" => Prios::Small,
        "wide" => Prios::Wide,
        "extreme" => Prios::Extreme,
        p => return Err(format!("--prios `{p}`")),
    };
    let hashmode: u32 = f.get("hashmode", 0)?;
    if hashmode > 4 {
        return Err("--hashmode is 0..4".into());
    }
    let disputed = f.get("disputed", 1u32)? != 0;
    let mut mult: Vec<(OpK, u32)> = vec![];
    for n in f.get("exclude", String::new())?.split(',').filter(|x| !x.is_empty()) {
        mult.push((opk_of_name(n).ok_or_else(|| format!("--exclude `{n}`"))?, 0));
    }
    for nb in f.get("boost", String::new())?.split(',').filter(|x| !x.is_empty()) {
        let (n, b) = nb.split_once(':').ok_or_else(|| format!("--boost `{nb}`"))?;
        let b: u32 = b.parse().map_err(|_| format!("--boost `{nb}`"))?;
        mult.push((opk_of_name(n).ok_or_else(|| format!("--boost `{nb}`"))?, b));
    }
    // the per-history PRNG depends on (seed, id) only, and --hashmode is only
    // written into the H header: accepted for compatibility, nothing to switch
    let _fixseed = f.get("fixseed", 1u32)?;
    let (si, sn) = f.shard()?;
    let outp: String = f.get("out", "-".to_string())?;
    f.done()?;
    let mut w = open_out(&outp)?;
    let hfuse = prof == "hfuse";
    let p = Params { len, kind, col, fuse, keys, prios, hashmode, disputed, hfuse, mult };
    let mut buf = String::new();
    for id in 0..count {
        if id % sn != si {
            continue;
        }
        // everything about history `id` derives from (seed, id)
        let mut rng = Rng::new(seed, id);
        let kind = p.kind.unwrap_or(if rng.pct(50) { Kind::Pq } else { Kind::Dpq });
        let signed_keys = rng.pct(25);
        let mut g = Gen { p: &p, rng, regs: vec![], kind, signed_keys, payload: 100, alt: false };
        buf.clear();
        g.history(id, &mut buf);
        w.write_all(buf.as_bytes()).map_err(|e| e.to_string())?;
    }
    w.flush().map_err(|e| e.to_string())
}

// ---------------------------------------------------------------------------
// gen builds: every heap of n <= N elements with priorities in 0..P, followed
// by one operation and a full drain
// ---------------------------------------------------------------------------

fn gen_builds(args: &[String]) -> Result<(), String> {
    let mut f = Flags::parse(args)?;
    let kind = match f.get("kind", "pq".to_string())?.as_str() {
        "pq" => Kind::Pq,
        "dpq" => Kind::Dpq,
        k => return Err(format!("--kind `{k}` (pq or dpq)")),
    };
    let maxn: usize = f.get("maxn", 4)?;
    let np: i64 = f.get("prios", 3)?;
    if np < 1 {
        return Err("--prios must be positive".into());
    }
    let hashmode: u32 = f.get("hashmode", 0)?;
    let (si, sn) = f.shard()?;
    let outp: String = f.get("out", "-".to_string())?;
    f.done()?;
    let mut w = open_out(&outp)?;

    let sides: &[&str] = match kind {
        Kind::Pq => &["max"],
        Kind::Dpq => &["min", "max"],
    };
    let tail: String = sides.iter().map(|s| format!("sortedvec 0 {s}\n")).collect();
    let mut id = 0u64;
    let mut buf = String::new();
    for n in 0..=maxn {
        // the follow-up ops only depend on n
        let mut ops: Vec<String> = vec![String::new()];
        for s in sides {
            ops.push(format!("pop 0 {s}"));
            for wv in ["-".to_string(), "-1".to_string(), "1".to_string(), np.to_string()] {
                for b in [0, 1] {
                    ops.push(format!("popif 0 {s} {wv} - {b}"));
                }
            }
        }
        for i in 0..n {
            ops.push(format!("remove 0 {i}"));
            for p in -1..=np {
                ops.push(format!("chg 0 {i} {p}"));
            }
            for p in -1..=np {
                ops.push(format!("pushinc 0 {i} 5 {p}"));
                ops.push(format!("pushdec 0 {i} 5 {p}"));
            }
            ops.push(format!("chgadd 0 {i} 1"));
            ops.push(format!("chgadd 0 {i} -1"));
        }
        for p in -1..=np {
            ops.push(format!("push 0 {n} 0 {p}"));
        }
        // every priority sequence in {0..P-1}^n
        let mut ps = vec![0i64; n];
        loop {
            let mut prefix = format!("new {} 0\n", kind.s());
            for (i, p) in ps.iter().enumerate() {
                let _ = writeln!(prefix, "push 0 {i} 0 {p}");
            }
            for op in &ops {
                if id % sn == si {
                    let _ = writeln!(buf, "H {id} {hashmode} 1");
                    buf.push_str(&prefix);
                    if !op.is_empty() {
                        buf.push_str(op);
                        buf.push('\n');
                    }
                    buf.push_str(&tail);
                }
                id += 1;
            }
            if buf.len() > 1 << 20 {
                w.write_all(buf.as_bytes()).map_err(|e| e.to_string())?;
                buf.clear();
            }
            // next sequence
            let mut i = 0;
            while i < n {
                ps[i] += 1;
                if ps[i] < np {
                    break;
                }
                ps[i] = 0;
                i += 1;
            }
            if i == n {
                break;
            }
        }
    }
    w.write_all(buf.as_bytes()).map_err(|e| e.to_string())?;
    w.flush().map_err(|e| e.to_string())
}
