pub fn main(_sub: &str, _args: &[String]) -> Result<(), String> { Err("todo".into()) }
