mod borrow;
mod drops;
mod exec;
mod gen;
mod huge;
mod types;
mod zst;

fn usage() -> ! {
    eprintln!(
        "usage:
  pqharness exec <hist-file> <trace-file> [--timeout SECS]
  pqharness gen random --seed S --count N --len L --kind pq|dpq|both --profile P
                       --keys K --prios small|wide|extreme --hashmode M [--shard i/n] --out FILE
  pqharness gen builds --kind pq|dpq --maxn N --prios P [--hashmode M] [--shard i/n] --out FILE
profiles: core bulk iter cap all fuse"
    );
    std::process::exit(2)
}

fn main() {
    let args: Vec<String> = std::env::args().collect();
    if args.len() < 2 {
        usage();
    }
    match args[1].as_str() {
        "exec" => {
            if args.len() < 4 {
                usage();
            }
            let mut timeout = 20u64;
            let mut i = 4;
            while i < args.len() {
                match args[i].as_str() {
                    "--timeout" if i + 1 < args.len() => {
                        timeout = args[i + 1].parse().unwrap_or_else(|_| usage());
                        i += 2;
                    }
                    _ => usage(),
                }
            }
            std::process::exit(exec::exec_parent(&args[2], &args[3], timeout));
        }
        "exec-child" => {
            if args.len() != 6 {
                usage();
            }
            let off: u64 = args[4].parse().unwrap_or_else(|_| usage());
            exec::exec_child(&args[2], &args[3], off, args[5] == "1");
        }
        "huge" => {
            std::process::exit(huge::main(&args[2..]));
        }
        "zst" => {
            std::process::exit(zst::main(&args[2..]));
        }
        "drops" => {
            std::process::exit(drops::main(&args[2..]));
        }
        "borrow" => {
            std::process::exit(borrow::main(&args[2..]));
        }
        "gen" => {
            if args.len() < 3 {
                usage();
            }
            if let Err(e) = gen::main(&args[2], &args[3..]) {
                eprintln!("pqharness gen: {e}");
                std::process::exit(2);
            }
        }
        _ => usage(),
    }
}
