//! Drop balance (C10: "no item or priority value is dropped twice, and none is
//! leaked"; C16: "clear drops them all").  Every value of the instrumented
//! types carries a serial number; a registry of live serials detects a value
//! dropped twice (the serial is no longer live) and, at the end of a history
//! when every queue and every returned value is gone, a leaked one (a serial
//! still live).  Item / priority types with and without drop glue are
//! combined, since code may (wrongly) specialise on `needs_drop` of one of
//! them.  Implementation only: the model has no notion of ownership.

use priority_queue::{DoublePriorityQueue, PriorityQueue};
use std::cell::RefCell;
use std::collections::HashSet;
use std::hash::{Hash, Hasher};

thread_local! {
    static LIVE: RefCell<HashSet<u64>> = RefCell::new(HashSet::new());
    static NEXT: RefCell<u64> = const { RefCell::new(1) };
    static DOUBLE: RefCell<Vec<u64>> = const { RefCell::new(Vec::new()) };
}

fn fresh() -> u64 {
    let s = NEXT.with(|n| {
        let mut n = n.borrow_mut();
        *n += 1;
        *n
    });
    LIVE.with(|l| l.borrow_mut().insert(s));
    s
}
fn gone(s: u64) {
    if !LIVE.with(|l| l.borrow_mut().remove(&s)) {
        DOUBLE.with(|d| d.borrow_mut().push(s));
    }
}

/// a value with drop glue: `v` is what Eq / Hash / Ord look at
#[derive(Debug)]
struct D {
    v: i64,
    serial: u64,
}
impl D {
    fn new(v: i64) -> D {
        D { v, serial: fresh() }
    }
}
impl Clone for D {
    fn clone(&self) -> D {
        D::new(self.v)
    }
}
impl Drop for D {
    fn drop(&mut self) {
        gone(self.serial);
    }
}
impl PartialEq for D {
    fn eq(&self, o: &D) -> bool {
        self.v == o.v
    }
}
impl Eq for D {}
impl Hash for D {
    fn hash<H: Hasher>(&self, h: &mut H) {
        self.v.hash(h)
    }
}
impl PartialOrd for D {
    fn partial_cmp(&self, o: &D) -> Option<std::cmp::Ordering> {
        Some(self.cmp(o))
    }
}
impl Ord for D {
    fn cmp(&self, o: &D) -> std::cmp::Ordering {
        self.v.cmp(&o.v)
    }
}

struct Rng(u64);
impl Rng {
    fn next(&mut self) -> u64 {
        self.0 = self.0.wrapping_add(0x9e3779b97f4a7c15);
        let mut z = self.0;
        z = (z ^ (z >> 30)).wrapping_mul(0xbf58476d1ce4e5b9);
        z = (z ^ (z >> 27)).wrapping_mul(0x94d049bb133111eb);
        z ^ (z >> 31)
    }
    fn below(&mut self, n: u64) -> u64 {
        self.next() % n
    }
}

/// one random history on a queue type; `mi` / `mp` build an item / a priority
macro_rules! history {
    ($Q:ident, $I:ty, $P:ty, $mi:expr, $mp:expr, $rng:expr, $len:expr, $log:expr) => {{
        let mi: fn(i64) -> $I = $mi;
        let mp: fn(i64) -> $P = $mp;
        let mut q: $Q<$I, $P> = $Q::new();
        let mut other: $Q<$I, $P> = $Q::new();
        for _ in 0..$len {
            let k = $rng.below(14) as i64;
            let p = $rng.below(5) as i64;
            match $rng.below(22) {
                0..=4 => {
                    $log.push(format!("push {k} {p}"));
                    let _ = q.push(mi(k), mp(p));
                }
                5 => {
                    $log.push(format!("push_increase {k} {p}"));
                    let _ = q.push_increase(mi(k), mp(p));
                }
                6 => {
                    $log.push(format!("push_decrease {k} {p}"));
                    let _ = q.push_decrease(mi(k), mp(p));
                }
                7 => {
                    $log.push(format!("change_priority {k} {p}"));
                    let key = mi(k);
                    let _ = q.change_priority(&key, mp(p));
                }
                8 => {
                    $log.push(format!("remove {k}"));
                    let key = mi(k);
                    let _ = q.remove(&key);
                }
                9 => {
                    $log.push("pop".into());
                    let _ = history!(@pop $Q, q, $rng);
                }
                10 => {
                    $log.push("clear".into());
                    q.clear();
                }
                11 => {
                    let f = $rng.below(3) as usize;
                    let b = $rng.below(3) as usize;
                    $log.push(format!("drain: {f} from the front, {b} from the back, dropped"));
                    let mut d = q.drain();
                    for _ in 0..f {
                        let _ = d.next();
                    }
                    for _ in 0..b {
                        let _ = d.next_back();
                    }
                }
                12 => {
                    $log.push("retain (every other element)".into());
                    let mut n = 0;
                    q.retain(|_, _| {
                        n += 1;
                        n % 2 == 0
                    });
                }
                13 => {
                    $log.push(format!("retain_mut (priorities replaced by {p})"));
                    let mut n = 0;
                    q.retain_mut(|_, pr| {
                        n += 1;
                        *pr = mp(p);
                        n % 3 != 0
                    });
                }
                14 => {
                    $log.push(format!("extend with 6 pairs from {k}"));
                    q.extend((0..6).map(|j| (mi((k + j) % 14), mp(p))));
                }
                15 => {
                    $log.push("other.push x3; append".into());
                    for j in 0..3 {
                        other.push(mi((k + 2 * j) % 14), mp(p + j));
                    }
                    q.append(&mut other);
                }
                16 => {
                    $log.push("clone, consume the clone through into_iter (2 taken)".into());
                    let c = q.clone();
                    let mut it = c.into_iter();
                    let _ = it.next();
                    let _ = it.next_back();
                }
                17 => {
                    $log.push("clone().into_sorted_iter(), 2 taken".into());
                    let mut it = q.clone().into_sorted_iter();
                    let _ = it.next();
                    let _ = it.next();
                }
                18 => {
                    $log.push("clone_from / into_vec / sorted vec of clones".into());
                    other.clone_from(&q);
                    let _ = other.clone().into_vec();
                    let _ = history!(@sorted $Q, other);
                    other = $Q::new();
                }
                19 => {
                    $log.push(format!("iter_mut: priorities of the first 2 elements := {p}"));
                    for (_, pr) in q.iter_mut().take(2) {
                        *pr = mp(p);
                    }
                }
                20 => {
                    $log.push("conversion to the other kind and back; from Vec; collect".into());
                    q = history!(@round $Q, q);
                    let v: Vec<($I, $P)> = (0..4).map(|j| (mi(j % 3), mp(j))).collect();
                    let a: $Q<$I, $P> = $Q::from(v);
                    let b: $Q<$I, $P> = (0..4).map(|j| (mi(j % 3), mp(j))).collect();
                    drop((a, b));
                }
                _ => {
                    $log.push(format!("change_priority_by {k}; pop_if; peek_mut"));
                    let key = mi(k);
                    let _ = q.change_priority_by(&key, |x| *x = mp(p));
                    let _ = history!(@popif $Q, q);
                }
            }
            let dbl = DOUBLE.with(|d| d.borrow().len());
            if dbl > 0 {
                return Err("a value was dropped twice".to_string());
            }
        }
        drop(q);
        drop(other);
        Ok(())
    }};
    (@pop PriorityQueue, $q:ident, $rng:expr) => { $q.pop() };
    (@pop DoublePriorityQueue, $q:ident, $rng:expr) => { if $rng.below(2) == 0 { $q.pop_min() } else { $q.pop_max() } };
    (@popif PriorityQueue, $q:ident) => { $q.pop_if(|_, _| true) };
    (@popif DoublePriorityQueue, $q:ident) => { $q.pop_max_if(|_, _| true).or_else(|| $q.pop_min_if(|_, _| false)) };
    (@sorted PriorityQueue, $q:ident) => { $q.clone().into_sorted_vec() };
    (@sorted DoublePriorityQueue, $q:ident) => { ($q.clone().into_ascending_sorted_vec(), $q.clone().into_descending_sorted_vec()) };
    (@round PriorityQueue, $q:ident) => {{ let d: DoublePriorityQueue<_, _> = $q.into(); let b: PriorityQueue<_, _> = d.into(); b }};
    (@round DoublePriorityQueue, $q:ident) => {{ let d: PriorityQueue<_, _> = $q.into(); let b: DoublePriorityQueue<_, _> = d.into(); b }};
}

fn one(seed: u64, id: u64, len: u64, log: &mut Vec<String>) -> Result<(), String> {
    let mut rng = Rng(seed.wrapping_mul(0x2545f4914f6cdd1d) ^ id.wrapping_mul(0x9e37));
    LIVE.with(|l| l.borrow_mut().clear());
    DOUBLE.with(|d| d.borrow_mut().clear());
    let r: Result<(), String> = (|| match id % 6 {
        0 => {
            log.push("PriorityQueue<i64, D>: items without, priorities with drop glue".into());
            history!(PriorityQueue, i64, D, |k| k, D::new, rng, len, log)
        }
        1 => {
            log.push("DoublePriorityQueue<i64, D>".into());
            history!(DoublePriorityQueue, i64, D, |k| k, D::new, rng, len, log)
        }
        2 => {
            log.push("PriorityQueue<D, i64>: items with, priorities without drop glue".into());
            history!(PriorityQueue, D, i64, D::new, |p| p, rng, len, log)
        }
        3 => {
            log.push("DoublePriorityQueue<D, i64>".into());
            history!(DoublePriorityQueue, D, i64, D::new, |p| p, rng, len, log)
        }
        4 => {
            log.push("PriorityQueue<D, D>".into());
            history!(PriorityQueue, D, D, D::new, D::new, rng, len, log)
        }
        _ => {
            log.push("DoublePriorityQueue<D, D>".into());
            history!(DoublePriorityQueue, D, D, D::new, D::new, rng, len, log)
        }
    })();
    r?;
    if DOUBLE.with(|d| d.borrow().len()) > 0 {
        return Err("a value was dropped twice".into());
    }
    let leaked = LIVE.with(|l| l.borrow().len());
    if leaked > 0 {
        return Err(format!("{leaked} value(s) were never dropped although every queue and every returned value is gone"));
    }
    Ok(())
}

/// `pqharness drops <seed> <count> <len>`: prints `ok <count> <ops>` or the failing history
pub fn main(args: &[String]) -> i32 {
    let seed: u64 = args.first().and_then(|s| s.parse().ok()).unwrap_or(1);
    let count: u64 = args.get(1).and_then(|s| s.parse().ok()).unwrap_or(1000);
    let len: u64 = args.get(2).and_then(|s| s.parse().ok()).unwrap_or(60);
    for id in 0..count {
        let mut log = vec![];
        let r = std::panic::catch_unwind(std::panic::AssertUnwindSafe(|| one(seed, id, len, &mut log)));
        let err = match r {
            Ok(Ok(())) => continue,
            Ok(Err(e)) => e,
            Err(_) => "panic".to_string(),
        };
        println!("FAIL history {id}: {err}");
        for l in &log {
            println!("  {l}");
        }
        return 1;
    }
    println!("ok {} {}", count, count * len);
    0
}
