//! Large queues, checked natively (implementation only).
//!
//! The model extracted from Coq runs on lists and is far too slow for
//! queues of 10^5 elements, so the correspondence check stops at a few
//! thousand.  What the theorems prove for every size is checked here on the
//! implementation *at* large sizes, in particular around the powers of two
//! 2^16 .. 2^20 (heap depths 16 .. 20), against a reference (ordered set +
//! map) and against the invariants themselves, read from the raw tables:
//!  * tables well-formed, heap / min-max order of the stored priorities (C01, C02),
//!  * contents and return values = the reference map (C03),
//!  * peek / pop return a stored extreme (C01, C02),
//!  * sorted vectors / sorted iterators (C06),
//!  * bulk operations and mutation in place re-establish the order (C07, C08).
//! Every check names the operation log that led to it.

use priority_queue::{DoublePriorityQueue, PriorityQueue};
use std::collections::{BTreeSet, HashMap};

struct Rng(u64);
impl Rng {
    fn next(&mut self) -> u64 {
        self.0 = self.0.wrapping_add(0x9e3779b97f4a7c15);
        let mut z = self.0;
        z = (z ^ (z >> 30)).wrapping_mul(0xbf58476d1ce4e5b9);
        z = (z ^ (z >> 27)).wrapping_mul(0x94d049bb133111eb);
        z ^ (z >> 31)
    }
    fn below(&mut self, n: u64) -> u64 {
        self.next() % n
    }
}

type K = u32;
type P = i64;

/// what the battery needs from either queue kind
trait HQ: Sized + Clone {
    const DOUBLE: bool;
    fn new() -> Self;
    fn from_vec(v: Vec<(K, P)>) -> Self;
    fn collect<I: Iterator<Item = (K, P)>>(i: I) -> Self;
    fn len(&self) -> usize;
    fn push(&mut self, k: K, p: P) -> Option<P>;
    fn push_increase(&mut self, k: K, p: P) -> Option<P>;
    fn push_decrease(&mut self, k: K, p: P) -> Option<P>;
    fn change_priority(&mut self, k: &K, p: P) -> Option<P>;
    fn change_priority_by(&mut self, k: &K, d: P) -> bool;
    fn get_priority(&self, k: &K) -> Option<P>;
    fn remove(&mut self, k: &K) -> Option<(K, P)>;
    fn peek_max(&self) -> Option<(K, P)>;
    fn peek_min(&self) -> Option<(K, P)>;
    fn pop_max(&mut self) -> Option<(K, P)>;
    fn pop_min(&mut self) -> Option<(K, P)>;
    fn entries(&self) -> Vec<(K, P)>;
    fn snapshot(&self) -> (Vec<usize>, Vec<usize>, usize, usize);
    fn extend_hint(&mut self, v: Vec<(K, P)>, lo: usize, hi: Option<usize>);
    fn append(&mut self, o: &mut Self);
    fn retain(&mut self, f: impl FnMut(&K, &P) -> bool);
    fn retain_mut(&mut self, f: impl FnMut(&mut K, &mut P) -> bool);
    fn for_each_mut(&mut self, stop_after: usize, f: impl FnMut(&K, &mut P));
    fn clear(&mut self);
    fn with_capacity(c: usize) -> Self;
    /// `drain()`: take `front` elements from the front and `back` from the back, then drop or leak the iterator
    fn drain_some(&mut self, front: usize, back: usize, leak: bool) -> Vec<(K, P)>;
    fn is_empty(&self) -> bool;
    type Other: HQ;
    fn ser_text(&self) -> String;
    fn ser_value(&self) -> serde_json::Value;
    fn de_text(s: &str) -> Result<Self, String>;
    fn de_value(v: serde_json::Value) -> Result<Self, String>;
    /// serde's own MapDeserializer over the pairs (it announces its length)
    fn de_map(v: Vec<(K, P)>) -> Result<Self, String>;
    /// a sequence deserializer that announces `hint` elements (a hint, not a promise:
    /// it may be smaller or larger than what is delivered)
    fn de_hinted(v: Vec<(K, P)>, hint: usize) -> Result<Self, String>;
    /// `Deserialize::deserialize_in_place` into an existing queue
    fn de_in_place(&mut self, v: serde_json::Value) -> Result<(), String>;
    fn roundtrip(self) -> Self;
    /// priorities of the sorted outputs: (descending vec, ascending vec if offered)
    fn sorted_desc(self) -> Vec<(K, P)>;
    fn sorted_asc(self) -> Option<Vec<(K, P)>>;
    /// `front` elements from the front and `back` from the back of the sorted iterator, alternating
    fn sorted_iter_ends(self, front: usize, back: usize) -> (Vec<(K, P)>, Vec<(K, P)>, usize);
}

struct Hinted {
    it: std::vec::IntoIter<(K, P)>,
    lo: usize,
    hi: Option<usize>,
}
impl Iterator for Hinted {
    type Item = (K, P);
    fn next(&mut self) -> Option<(K, P)> {
        self.it.next()
    }
    fn size_hint(&self) -> (usize, Option<usize>) {
        (self.lo, self.hi)
    }
}

struct HintedValues {
    it: std::vec::IntoIter<serde_json::Value>,
    hint: usize,
}
impl Iterator for HintedValues {
    type Item = serde_json::Value;
    fn next(&mut self) -> Option<serde_json::Value> {
        self.it.next()
    }
    fn size_hint(&self) -> (usize, Option<usize>) {
        (self.hint, Some(self.hint))
    }
}

macro_rules! common {
    () => {
        fn new() -> Self {
            Self::new()
        }
        fn from_vec(v: Vec<(K, P)>) -> Self {
            Self::from(v)
        }
        fn collect<I: Iterator<Item = (K, P)>>(i: I) -> Self {
            i.collect()
        }
        fn len(&self) -> usize {
            self.len()
        }
        fn push(&mut self, k: K, p: P) -> Option<P> {
            self.push(k, p)
        }
        fn push_increase(&mut self, k: K, p: P) -> Option<P> {
            self.push_increase(k, p)
        }
        fn push_decrease(&mut self, k: K, p: P) -> Option<P> {
            self.push_decrease(k, p)
        }
        fn change_priority(&mut self, k: &K, p: P) -> Option<P> {
            self.change_priority(k, p)
        }
        fn change_priority_by(&mut self, k: &K, d: P) -> bool {
            self.change_priority_by(k, |x| *x += d)
        }
        fn get_priority(&self, k: &K) -> Option<P> {
            self.get_priority(k).copied()
        }
        fn remove(&mut self, k: &K) -> Option<(K, P)> {
            self.remove(k)
        }
        fn entries(&self) -> Vec<(K, P)> {
            self.iter().map(|(k, p)| (*k, *p)).collect()
        }
        fn snapshot(&self) -> (Vec<usize>, Vec<usize>, usize, usize) {
            self.verif_snapshot()
        }
        fn extend_hint(&mut self, v: Vec<(K, P)>, lo: usize, hi: Option<usize>) {
            self.extend(Hinted { it: v.into_iter(), lo, hi })
        }
        fn append(&mut self, o: &mut Self) {
            self.append(o)
        }
        fn retain(&mut self, f: impl FnMut(&K, &P) -> bool) {
            self.retain(f)
        }
        fn retain_mut(&mut self, f: impl FnMut(&mut K, &mut P) -> bool) {
            self.retain_mut(f)
        }
        fn for_each_mut(&mut self, stop_after: usize, mut f: impl FnMut(&K, &mut P)) {
            for (n, (k, p)) in self.iter_mut().enumerate() {
                if n >= stop_after {
                    break;
                }
                f(k, p);
            }
        }
        fn clear(&mut self) {
            self.clear()
        }
        fn with_capacity(c: usize) -> Self {
            Self::with_capacity(c)
        }
        fn is_empty(&self) -> bool {
            self.is_empty()
        }
        fn drain_some(&mut self, front: usize, back: usize, leak: bool) -> Vec<(K, P)> {
            let mut d = self.drain();
            let mut out = vec![];
            for _ in 0..front {
                match d.next() {
                    Some(e) => out.push(e),
                    None => break,
                }
            }
            for _ in 0..back {
                match d.next_back() {
                    Some(e) => out.push(e),
                    None => break,
                }
            }
            if leak {
                std::mem::forget(d);
            }
            out
        }
        fn ser_text(&self) -> String {
            serde_json::to_string(self).unwrap()
        }
        fn ser_value(&self) -> serde_json::Value {
            serde_json::to_value(self).unwrap()
        }
        fn de_text(s: &str) -> Result<Self, String> {
            serde_json::from_str(s).map_err(|e| e.to_string())
        }
        fn de_value(v: serde_json::Value) -> Result<Self, String> {
            serde_json::from_value(v).map_err(|e| e.to_string())
        }
        fn de_in_place(&mut self, v: serde_json::Value) -> Result<(), String> {
            use serde::Deserialize;
            Self::deserialize_in_place(v, self).map_err(|e| e.to_string())
        }
        fn de_hinted(v: Vec<(K, P)>, hint: usize) -> Result<Self, String> {
            use serde::de::value::SeqDeserializer;
            use serde::Deserialize;
            let vals: Vec<serde_json::Value> = v.iter().map(|e| serde_json::to_value(e).unwrap()).collect();
            let it = HintedValues { it: vals.into_iter(), hint };
            let d: SeqDeserializer<_, serde_json::Error> = SeqDeserializer::new(it);
            Self::deserialize(d).map_err(|e| e.to_string())
        }
        fn de_map(v: Vec<(K, P)>) -> Result<Self, String> {
            use serde::de::value::{Error, MapDeserializer};
            use serde::Deserialize;
            let d: MapDeserializer<'_, _, Error> = MapDeserializer::new(v.into_iter());
            Self::deserialize(d).map_err(|e| e.to_string())
        }
    };
}

impl HQ for PriorityQueue<K, P> {
    const DOUBLE: bool = false;
    type Other = DoublePriorityQueue<K, P>;
    common!();
    fn peek_max(&self) -> Option<(K, P)> {
        self.peek().map(|(k, p)| (*k, *p))
    }
    fn peek_min(&self) -> Option<(K, P)> {
        None
    }
    fn pop_max(&mut self) -> Option<(K, P)> {
        self.pop()
    }
    fn pop_min(&mut self) -> Option<(K, P)> {
        None
    }
    fn roundtrip(self) -> Self {
        let d: DoublePriorityQueue<K, P> = self.into();
        d.into()
    }
    fn sorted_desc(self) -> Vec<(K, P)> {
        let m: HashMap<K, P> = self.iter().map(|(k, p)| (*k, *p)).collect();
        self.into_sorted_vec().into_iter().map(|k| (k, m[&k])).collect()
    }
    fn sorted_asc(self) -> Option<Vec<(K, P)>> {
        None
    }
    fn sorted_iter_ends(self, front: usize, _back: usize) -> (Vec<(K, P)>, Vec<(K, P)>, usize) {
        // PriorityQueue's sorted iterator goes from the maximum down: its "front" is the top end
        let mut it = self.into_sorted_iter();
        let mut b = vec![];
        for _ in 0..front {
            match it.next() {
                Some(e) => b.push(e),
                None => break,
            }
        }
        let rest = it.count();
        (vec![], b, rest)
    }
}

impl HQ for DoublePriorityQueue<K, P> {
    const DOUBLE: bool = true;
    type Other = PriorityQueue<K, P>;
    common!();
    fn peek_max(&self) -> Option<(K, P)> {
        self.peek_max().map(|(k, p)| (*k, *p))
    }
    fn peek_min(&self) -> Option<(K, P)> {
        self.peek_min().map(|(k, p)| (*k, *p))
    }
    fn pop_max(&mut self) -> Option<(K, P)> {
        self.pop_max()
    }
    fn pop_min(&mut self) -> Option<(K, P)> {
        self.pop_min()
    }
    fn roundtrip(self) -> Self {
        let d: PriorityQueue<K, P> = self.into();
        d.into()
    }
    fn sorted_desc(self) -> Vec<(K, P)> {
        let m: HashMap<K, P> = self.iter().map(|(k, p)| (*k, *p)).collect();
        self.into_descending_sorted_vec().into_iter().map(|k| (k, m[&k])).collect()
    }
    fn sorted_asc(self) -> Option<Vec<(K, P)>> {
        let m: HashMap<K, P> = self.iter().map(|(k, p)| (*k, *p)).collect();
        Some(self.into_ascending_sorted_vec().into_iter().map(|k| (k, m[&k])).collect())
    }
    fn sorted_iter_ends(self, front: usize, back: usize) -> (Vec<(K, P)>, Vec<(K, P)>, usize) {
        let mut it = self.into_sorted_iter();
        let (mut f, mut b) = (vec![], vec![]);
        let mut i = 0;
        while f.len() < front || b.len() < back {
            if i % 2 == 0 && f.len() < front || b.len() >= back {
                match it.next() {
                    Some(e) => f.push(e),
                    None => break,
                }
            } else {
                match it.next_back() {
                    Some(e) => b.push(e),
                    None => break,
                }
            }
            i += 1;
        }
        let rest = it.len();
        (f, b, rest)
    }
}

/// reference: item -> priority, and the priorities in order
#[derive(Clone, Default)]
struct Ref {
    m: HashMap<K, P>,
    s: BTreeSet<(P, K)>,
}
impl Ref {
    fn set(&mut self, k: K, p: P) -> Option<P> {
        let old = self.m.insert(k, p);
        if let Some(o) = old {
            self.s.remove(&(o, k));
        }
        self.s.insert((p, k));
        old
    }
    fn del(&mut self, k: K) -> Option<P> {
        let old = self.m.remove(&k);
        if let Some(o) = old {
            self.s.remove(&(o, k));
        }
        old
    }
    fn max(&self) -> Option<P> {
        self.s.iter().next_back().map(|e| e.0)
    }
    fn min(&self) -> Option<P> {
        self.s.iter().next().map(|e| e.0)
    }
}

/// which clauses a run decides.  The reference only accelerates: with
/// `content` off every verdict is taken against the queue's own entries and
/// the reference is re-synchronised when it has drifted, so that a defect in
/// what is stored (another property's business) is not reported as a defect
/// of the order, the extremes or the sorted outputs.
#[derive(Clone, Copy)]
struct Cfg {
    order: bool,
    extreme: bool,
    content: bool,
    sorted: bool,
    bulk: bool,
    reuse: bool,
    serde: bool,
    /// the phase of single-element operations (and the incremental builds)
    ops: bool,
    /// retain / retain_mut / iter_mut
    inplace: bool,
    /// single-element phase restricted to push_increase / push_decrease
    incdec: bool,
}

fn resync<Q: HQ>(q: &Q, r: &mut Ref) {
    *r = Ref::default();
    for (k, p) in q.entries() {
        r.set(k, p);
    }
}

fn level(i: usize) -> u32 {
    usize::BITS - 1 - (i + 1).leading_zeros()
}

/// tables well-formed, order of the stored priorities, contents = reference
fn check_all<Q: HQ>(q: &Q, r: &mut Ref, cfg: Cfg) -> Result<(), String> {
    let ordered = cfg.order;
    let ents = q.entries();
    let (heap, qp, size, maplen) = q.snapshot();
    let n = ents.len();
    if !(heap.len() == n && qp.len() == n && size == n && maplen == n && q.len() == n) {
        return Err(format!(
            "tables disagree: iter {} heap {} qp {} size {} map {} len() {}",
            n,
            heap.len(),
            qp.len(),
            size,
            maplen,
            q.len()
        ));
    }
    for (pos, &slot) in heap.iter().enumerate() {
        if slot >= n || qp[slot] != pos {
            return Err(format!("heap / qp are not inverse at heap position {pos}"));
        }
    }
    if cfg.content {
        if n != r.m.len() {
            return Err(format!("{} elements stored, {} expected", n, r.m.len()));
        }
        for (k, p) in &ents {
            if r.m.get(k) != Some(p) {
                return Err(format!("item {k} stored with priority {p}, expected {:?}", r.m.get(k)));
            }
        }
    } else if n != r.m.len() || ents.iter().any(|(k, p)| r.m.get(k) != Some(p)) {
        resync(q, r);
    }
    if ordered {
        let pr = |pos: usize| ents[heap[pos]].1;
        for c in 1..n {
            let par = (c - 1) / 2;
            if !Q::DOUBLE {
                if pr(c) > pr(par) {
                    return Err(format!(
                        "max-heap order broken at heap position {c} (depth {}): {} above its parent's {}",
                        level(c),
                        pr(c),
                        pr(par)
                    ));
                }
            } else {
                let mut anc = vec![par];
                if par > 0 {
                    anc.push((par - 1) / 2);
                }
                for a in anc {
                    let bad = if level(a) % 2 == 0 { pr(a) > pr(c) } else { pr(a) < pr(c) };
                    if bad {
                        return Err(format!(
                            "min-max order broken between heap positions {a} (level {}) and {c}: {} vs {}",
                            level(a),
                            pr(a),
                            pr(c)
                        ));
                    }
                }
            }
        }
    }
    Ok(())
}

fn check_peeks<Q: HQ>(q: &Q, r: &mut Ref, cfg: Cfg) -> Result<(), String> {
    if !cfg.extreme {
        return Ok(());
    }
    for attempt in 0..2 {
        let mut why = None;
        let got = q.peek_max();
        match (got, r.max()) {
            (None, None) => {}
            (Some((k, p)), Some(m)) if p == m && r.m.get(&k) == Some(&p) => {}
            (g, m) => why = Some(format!("peek (max) returned {g:?}; the stored maximum is {m:?} (len {})", r.m.len())),
        }
        if Q::DOUBLE && why.is_none() {
            let got = q.peek_min();
            match (got, r.min()) {
                (None, None) => {}
                (Some((k, p)), Some(m)) if p == m && r.m.get(&k) == Some(&p) => {}
                (g, m) => why = Some(format!("peek_min returned {g:?}; the stored minimum is {m:?} (len {})", r.m.len())),
            }
        }
        match why {
            None => return Ok(()),
            // the verdict is taken against the queue's own entries
            Some(w) if cfg.content || attempt == 1 => return Err(w),
            Some(_) => resync(q, r),
        }
    }
    Ok(())
}

/// a pop returned `got`: was it a stored extreme?  (`r` still holds it)
fn check_pop<Q: HQ>(q: &Q, r: &mut Ref, cfg: Cfg, got: Option<(K, P)>, max: bool) -> Result<(), String> {
    let name = if max { "pop (max)" } else { "pop_min" };
    let ext = |r: &Ref| if max { r.max() } else { r.min() };
    let ok = |r: &Ref| match got {
        Some((k, p)) => (!cfg.extreme || Some(p) == ext(r)) && (!cfg.content || r.m.get(&k) == Some(&p)),
        None => r.m.is_empty() || !(cfg.extreme || cfg.content),
    };
    if ok(r) {
        if let Some((k, _)) = got {
            r.del(k);
        }
        return Ok(());
    }
    if cfg.content {
        return Err(format!("{name} returned {got:?}; stored extreme {:?}, stored for that item {:?}", ext(r), got.map(|g| r.m.get(&g.0).copied())));
    }
    // own entries (after the pop) decide: the popped priority must bound what remains
    resync(q, r);
    match got {
        Some((_, p)) if ext(r).map_or(true, |e| if max { p >= e } else { p <= e }) => Ok(()),
        None if r.m.is_empty() => Ok(()),
        g => Err(format!("{name} returned {g:?} but {:?} is still stored", ext(r))),
    }
}

fn near_pow2(n: usize) -> bool {
    n >= 1000 && ((n + 2).is_power_of_two() || (n + 1).is_power_of_two() || n.is_power_of_two() || (n - 1).is_power_of_two())
}

fn sorted_checks<Q: HQ>(q: &Q, r: &mut Ref, cfg: Cfg, log: &mut Vec<String>) -> Result<(), String> {
    if !cfg.sorted {
        return Ok(());
    }
    if !cfg.content {
        resync(q, r);
    }
    let r: &Ref = r;
    let want_desc: Vec<P> = r.s.iter().rev().map(|e| e.0).collect();
    log.push(format!("clone().into_sorted_vec / descending (len {})", q.len()));
    let d = q.clone().sorted_desc();
    if d.iter().map(|e| e.1).collect::<Vec<_>>() != want_desc {
        let bad = d.iter().zip(&want_desc).position(|(a, b)| a.1 != *b);
        return Err(format!(
            "descending sorted vector differs from the sorted contents (len {} vs {}, first difference at {:?}; it starts {:?})",
            d.len(),
            want_desc.len(),
            bad,
            d.iter().take(4).collect::<Vec<_>>()
        ));
    }
    let mut ks: Vec<K> = d.iter().map(|e| e.0).collect();
    ks.sort_unstable();
    ks.dedup();
    if ks.len() != r.m.len() {
        return Err("descending sorted vector repeats or loses items".into());
    }
    if let Some(a) = q.clone().sorted_asc() {
        log.push("clone().into_ascending_sorted_vec".into());
        let want: Vec<P> = r.s.iter().map(|e| e.0).collect();
        if a.iter().map(|e| e.1).collect::<Vec<_>>() != want {
            return Err(format!(
                "ascending sorted vector differs from the sorted contents (it starts {:?})",
                a.iter().take(4).collect::<Vec<_>>()
            ));
        }
    }
    log.push("clone().into_sorted_iter(), 1500 from each end".into());
    let (f, b, rest) = q.clone().sorted_iter_ends(1500, 1500);
    let asc: Vec<P> = r.s.iter().map(|e| e.0).collect();
    for (i, e) in f.iter().enumerate() {
        if e.1 != asc[i] || r.m.get(&e.0) != Some(&e.1) {
            return Err(format!("sorted iterator: {i}-th next() yielded {e:?}, the {i}-th smallest priority is {}", asc[i]));
        }
    }
    for (i, e) in b.iter().enumerate() {
        if e.1 != want_desc[i] || r.m.get(&e.0) != Some(&e.1) {
            return Err(format!(
                "sorted iterator: {i}-th element from the top end is {e:?}, the {i}-th largest priority is {}",
                want_desc[i]
            ));
        }
    }
    if f.len() + b.len() + rest != r.m.len() {
        return Err(format!("sorted iterator: {} + {} yielded, {} remain, of {}", f.len(), b.len(), rest, r.m.len()));
    }
    Ok(())
}

/// an emptied queue: reads as empty and behaves like a fresh one when refilled
fn fresh_checks<Q: HQ>(q: &mut Q, cfg: Cfg, what: &str) -> Result<(), String> {
    let c = Cfg { order: true, extreme: true, content: true, ..cfg };
    let mut r = Ref::default();
    if !(q.len() == 0 && q.is_empty() && q.peek_max().is_none() && q.entries().is_empty()) {
        return Err(format!("{what}: the queue does not read as empty (len {}, iter yields {})", q.len(), q.entries().len()));
    }
    check_all(q, &mut r, c).map_err(|e| format!("{what}: {e}"))?;
    if q.pop_max().is_some() || (Q::DOUBLE && (q.pop_min().is_some() || q.peek_min().is_some())) {
        return Err(format!("{what}: pop on the emptied queue returned an element"));
    }
    for i in 0..300u32 {
        let p = ((i * 37) % 101) as P;
        if q.push(i, p).is_some() {
            return Err(format!("{what}: push into the emptied queue found item {i} present"));
        }
        r.set(i, p);
    }
    check_all(q, &mut r, c).map_err(|e| format!("{what}, refilled: {e}"))?;
    for j in 0..300 {
        check_peeks(q, &mut r, c).map_err(|e| format!("{what}, refilled, after {j} pops: {e}"))?;
        let got = if Q::DOUBLE && j % 2 == 1 { q.pop_min() } else { q.pop_max() };
        check_pop(q, &mut r, c, got, !(Q::DOUBLE && j % 2 == 1)).map_err(|e| format!("{what}, refilled: {e}"))?;
    }
    if q.len() != 0 || q.pop_max().is_some() {
        return Err(format!("{what}: refilled queue not empty after popping everything"));
    }
    Ok(())
}

fn reuse_checks<Q: HQ>(q: &Q, r: &Ref, cfg: Cfg, log: &mut Vec<String>) -> Result<(), String> {
    let n = q.len();
    // clear() / drain() at full size, and on a big table that is mostly unused
    for shrink in [false, true] {
        let mut base = q.clone();
        if shrink {
            base.retain(|k, _| k % 16 == 0);
        }
        let len = base.len();
        let tag = if shrink { "after shrinking to 1/16 of the elements, " } else { "" };
        log.push(format!("{tag}clear() on {len} elements, refill"));
        let mut a = base.clone();
        a.clear();
        fresh_checks(&mut a, cfg, &format!("{tag}clear() on {len} elements"))?;
        for (front, back, leak) in [(usize::MAX, 0, false), (0, 0, false), (5, 7, false), (0, 0, true), (3, 2, true), (len / 2, len / 4, true)] {
            let what = format!(
                "{tag}drain() on {len} elements: {} from the front, {} from the back, then {}",
                if front == usize::MAX { "everything".to_string() } else { front.to_string() },
                back,
                if leak { "leaked" } else { "dropped" }
            );
            log.push(what.clone());
            let mut a = base.clone();
            let got = a.drain_some(front, back, leak);
            let mut ks: Vec<K> = got.iter().map(|e| e.0).collect();
            ks.sort_unstable();
            ks.dedup();
            let all_stored = got.iter().all(|(k, p)| r.m.get(k) == Some(p) || !cfg.content);
            if ks.len() != got.len() || !all_stored || (front == usize::MAX && got.len() != len) {
                return Err(format!("{what}: the drained elements are not distinct stored elements ({} yielded)", got.len()));
            }
            fresh_checks(&mut a, cfg, &what)?;
        }
    }
    log.push(format!("with_capacity({}), 3 pushes, clear(), refill", 2 * n));
    let mut a = Q::with_capacity(2 * n);
    for i in 0..3 {
        a.push(i, i as P);
    }
    a.clear();
    fresh_checks(&mut a, cfg, "clear() on a roomy queue")?;
    let mut a = Q::with_capacity(2 * n);
    for i in 0..3 {
        a.push(i, i as P);
    }
    a.drain_some(1, 0, false);
    fresh_checks(&mut a, cfg, "drain() on a roomy queue")?;
    Ok(())
}

/// what deserializing the pair sequence `v` may give: every distinct item once,
/// with one of the priorities given for it; ordered; tables consistent
fn de_result_ok<Q: HQ>(res: Result<Q, String>, v: &[(K, P)], cfg: Cfg, what: &str) -> Result<(), String> {
    let q = match res {
        Err(_) => return Ok(()), // an error is allowed
        Ok(q) => q,
    };
    let mut own = Ref::default();
    resync(&q, &mut own);
    check_all(&q, &mut own, Cfg { order: true, content: true, ..cfg }).map_err(|e| format!("{what}: {e}"))?;
    check_peeks(&q, &mut own, Cfg { extreme: true, ..cfg }).map_err(|e| format!("{what}: {e}"))?;
    let mut given: HashMap<K, Vec<P>> = HashMap::new();
    for (k, p) in v {
        given.entry(*k).or_default().push(*p);
    }
    if own.m.len() != given.len() {
        return Err(format!("{what}: {} items stored, the sequence names {} distinct items", own.m.len(), given.len()));
    }
    for (k, p) in &own.m {
        if !given.get(k).map_or(false, |ps| ps.contains(p)) {
            return Err(format!("{what}: item {k} stored with priority {p}, which the sequence never gave it"));
        }
    }
    Ok(())
}

fn serde_checks<Q: HQ>(q: &Q, r: &mut Ref, cfg: Cfg, seed: u64, log: &mut Vec<String>) -> Result<(), String> {
    let c = Cfg { order: true, content: true, ..cfg };
    resync(q, r);
    let n = q.len();
    log.push(format!("serde round trips of {n} elements: text and Value, as the same and as the other kind"));
    let t = q.ser_text();
    let same = Q::de_text(&t).map_err(|e| format!("round trip (text) failed: {e}"))?;
    check_all(&same, r, c).map_err(|e| format!("round trip through JSON text: {e}"))?;
    check_peeks(&same, r, Cfg { extreme: true, ..c })?;
    let other = <Q::Other as HQ>::de_text(&t).map_err(|e| format!("round trip (text, other kind) failed: {e}"))?;
    check_all(&other, r, c).map_err(|e| format!("round trip through JSON text as the other kind: {e}"))?;
    check_peeks(&other, r, Cfg { extreme: true, ..c })?;
    let same = Q::de_value(q.ser_value()).map_err(|e| format!("round trip (Value) failed: {e}"))?;
    check_all(&same, r, c).map_err(|e| format!("round trip through serde_json::Value (announces its length): {e}"))?;
    check_peeks(&same, r, Cfg { extreme: true, ..c })?;
    let back = Q::de_value(other.ser_value()).map_err(|e| format!("round trip (Value, back from the other kind) failed: {e}"))?;
    check_all(&back, r, c).map_err(|e| format!("round trip back from the other kind through Value: {e}"))?;
    // in place, over a queue that already holds something else
    let mut place = Q::new();
    for i in 0..50u32 {
        place.push(1_000_000 + i, i as P);
    }
    place.de_in_place(q.ser_value()).map_err(|e| format!("deserialize_in_place failed: {e}"))?;
    check_all(&place, r, c).map_err(|e| format!("deserialize_in_place over a non-empty queue: {e}"))?;
    check_peeks(&place, r, Cfg { extreme: true, ..c })?;
    let mut place = <Q::Other as HQ>::new();
    place.push(7, 7);
    place.de_in_place(q.ser_value()).map_err(|e| format!("deserialize_in_place (other kind) failed: {e}"))?;
    check_all(&place, r, c).map_err(|e| format!("deserialize_in_place as the other kind: {e}"))?;
    check_peeks(&place, r, Cfg { extreme: true, ..c })?;
    let mut popper = back;
    let mut rr = r.clone();
    for _ in 0..500 {
        let got = popper.pop_max();
        check_pop(&popper, &mut rr, Cfg { extreme: true, ..c }, got, true).map_err(|e| format!("deserialized queue: {e}"))?;
    }
    // pair sequences with repeats, through every deserializer shape; sizes 0 .. and one long one
    let mut rng = Rng(seed ^ 0x5e4de);
    let ents = q.entries();
    let mut long: Vec<(K, P)> = ents.clone();
    for i in 0..(n / 3) {
        let (k, p) = ents[(i * 7) % n];
        long.push((k, p + 1 + (i % 3) as P)); // every third item named again with another priority
    }
    // the same with the repeats early and new items late
    let mut early: Vec<(K, P)> = Vec::with_capacity(long.len());
    for (i, (k, p)) in ents.iter().enumerate() {
        early.push((*k, *p));
        if i % 3 == 0 && i < n / 2 {
            early.push((*k, p + 1));
            if i % 9 == 0 {
                early.push((ents[i / 2].0, p - 1));
            }
        }
    }
    de_result_ok(Q::de_value(serde_json::to_value(&early).unwrap()), &early, cfg, "pair sequence with early repeats (Value)")?;
    de_result_ok(Q::de_map(early.clone()), &early, cfg, "pair sequence with early repeats (MapDeserializer)")?;
    de_result_ok(<Q::Other as HQ>::de_text(&serde_json::to_string(&early).unwrap()), &early, cfg, "pair sequence with early repeats (JSON text, other kind)")?;
    log.push(format!("deserializing {} pairs naming {} distinct items, three deserializer shapes, both kinds", long.len(), n));
    let tv = serde_json::to_string(&long).unwrap();
    de_result_ok(Q::de_text(&tv), &long, cfg, "long pair sequence with repeats (JSON text)")?;
    de_result_ok(Q::de_value(serde_json::to_value(&long).unwrap()), &long, cfg, "long pair sequence with repeats (Value)")?;
    de_result_ok(Q::de_map(long.clone()), &long, cfg, "long pair sequence with repeats (MapDeserializer)")?;
    de_result_ok(<Q::Other as HQ>::de_map(long.clone()), &long, cfg, "long pair sequence with repeats (MapDeserializer, other kind)")?;
    for round in 0..400 {
        let len = rng.below(if round % 10 == 0 { 40 } else { 9 }) as usize;
        let keys = 1 + rng.below(6);
        let v: Vec<(K, P)> = (0..len).map(|_| (rng.below(keys) as K, rng.below(5) as P)).collect();
        let what = format!("pair sequence {v:?}");
        de_result_ok(Q::de_text(&serde_json::to_string(&v).unwrap()), &v, cfg, &format!("{what} (JSON text)"))?;
        de_result_ok(Q::de_value(serde_json::to_value(&v).unwrap()), &v, cfg, &format!("{what} (Value)"))?;
        de_result_ok(Q::de_map(v.clone()), &v, cfg, &format!("{what} (MapDeserializer)"))?;
        for hint in [0usize, 1, len / 2, len + 3] {
            de_result_ok(Q::de_hinted(v.clone(), hint), &v, cfg, &format!("{what} (sequence announcing {hint} elements)"))?;
        }
    }
    for hint in [0usize, 2, long.len() / 2, long.len() + 1000] {
        de_result_ok(Q::de_hinted(long.clone(), hint), &long, cfg, &format!("long pair sequence with repeats (sequence announcing {hint} elements)"))?;
    }
    Ok(())
}

fn scenario<Q: HQ>(n: usize, build: &str, seed: u64, cfg: Cfg, log: &mut Vec<String>) -> Result<u64, String> {
    let mut rng = Rng(seed ^ (n as u64).wrapping_mul(0x9e37) ^ build.len() as u64);
    let mut r = Ref::default();
    let mut steps = 0u64;
    let prio_of = |i: usize, rng: &mut Rng| -> P {
        match build {
            "push-asc" | "vec-asc" => i as P,
            "push-desc" | "collect-desc" => -(i as P),
            "push-ties" => (i % 7) as P,
            _ => rng.below(4 * n as u64) as P,
        }
    };
    let mut q: Q;
    if build.starts_with("push") {
        log.push(format!("{build}: {n} pushes of new items, peeks compared near every power of two"));
        q = Q::new();
        for i in 0..n {
            let p = prio_of(i, &mut rng);
            let old = q.push(i as K, p);
            if cfg.content && old.is_some() {
                return Err(format!("push of the new item {i} returned {old:?}"));
            }
            r.set(i as K, p);
            steps += 1;
            if near_pow2(i + 1) || i % 4099 == 0 {
                check_peeks(&q, &mut r, cfg).map_err(|e| format!("after push #{i} (priority {p}): {e}"))?;
            }
            if i + 1 >= 1000 && ((i + 1).is_power_of_two() || (i + 2).is_power_of_two()) {
                check_all(&q, &mut r, cfg).map_err(|e| format!("after push #{i}: {e}"))?;
            }
        }
    } else {
        let v: Vec<(K, P)> = (0..n).map(|i| (i as K, prio_of(i, &mut rng))).collect();
        for (k, p) in &v {
            r.set(*k, *p);
        }
        if build.starts_with("vec") {
            log.push(format!("{build}: From<Vec> of {n} elements"));
            q = Q::from_vec(v);
        } else {
            log.push(format!("{build}: collect() of {n} elements"));
            q = Q::collect(v.into_iter());
        }
        steps += n as u64;
    }
    check_all(&q, &mut r, cfg).map_err(|e| format!("after the build: {e}"))?;
    check_peeks(&q, &mut r, cfg)?;

    // single-element operations all over a deep heap
    let mut next_key = n as K;
    let ops = if cfg.ops { 2500 } else { 0 };
    for j in 0..ops {
        let hi = r.max().unwrap_or(0);
        let lo = r.min().unwrap_or(0);
        let present = |rng: &mut Rng, r: &Ref| -> K {
            loop {
                let k = rng.below(next_key as u64) as K;
                if r.m.contains_key(&k) {
                    return k;
                }
            }
        };
        let newp = |rng: &mut Rng| -> P {
            match rng.below(4) {
                0 => hi + 1 + rng.below(3) as P,
                1 => lo - 1 - rng.below(3) as P,
                2 => hi,
                _ => lo + rng.below((hi - lo + 1) as u64) as P,
            }
        };
        let choice = if cfg.incdec { 5 + rng.below(2) } else { rng.below(10) };
        let absent = cfg.incdec && rng.below(10) < 3;
        match choice {
            0 | 1 => {
                let (k, p) = (next_key, newp(&mut rng));
                next_key += 1;
                log.push(format!("push new {k} {p}"));
                if q.push(k, p).is_some() && cfg.content {
                    return Err("push of a new item returned Some".into());
                }
                r.set(k, p);
            }
            2 => {
                let (k, p) = (present(&mut rng, &r), newp(&mut rng));
                log.push(format!("push present {k} {p}"));
                let old = q.push(k, p);
                if old != r.set(k, p) && cfg.content {
                    return Err(format!("push of the queued item {k} returned {old:?}"));
                }
            }
            3 => {
                let (k, p) = (present(&mut rng, &r), newp(&mut rng));
                log.push(format!("change_priority {k} {p}"));
                let old = q.change_priority(&k, p);
                if old != r.set(k, p) && cfg.content {
                    return Err(format!("change_priority returned {old:?}"));
                }
            }
            4 => {
                let k = present(&mut rng, &r);
                let cur = r.m[&k];
                let d = [hi + 1 - cur, lo - 1 - cur, 1, -1][rng.below(4) as usize];
                log.push(format!("change_priority_by {k} += {d}"));
                if !q.change_priority_by(&k, d) && cfg.content {
                    return Err("change_priority_by returned false for a queued item".into());
                }
                let p = r.m[&k] + d;
                r.set(k, p);
            }
            5 | 6 if absent => {
                let (k, p) = (next_key, newp(&mut rng));
                next_key += 1;
                log.push(format!("{} of the absent item {k} {p}", if choice == 5 { "push_increase" } else { "push_decrease" }));
                let got = if choice == 5 { q.push_increase(k, p) } else { q.push_decrease(k, p) };
                r.set(k, p);
                if got.is_some() && cfg.content {
                    return Err(format!("returned {got:?} for an absent item"));
                }
            }
            5 => {
                let (k, p) = (present(&mut rng, &r), newp(&mut rng));
                let cur = r.m[&k];
                log.push(format!("push_increase {k} {p} (stored {cur})"));
                let got = q.push_increase(k, p);
                let want = if p > cur {
                    r.set(k, p);
                    Some(cur)
                } else {
                    Some(p)
                };
                if got != want && cfg.content {
                    return Err(format!("push_increase returned {got:?}, expected {want:?}"));
                }
            }
            6 => {
                let (k, p) = (present(&mut rng, &r), newp(&mut rng));
                let cur = r.m[&k];
                log.push(format!("push_decrease {k} {p} (stored {cur})"));
                let got = q.push_decrease(k, p);
                let want = if p < cur {
                    r.set(k, p);
                    Some(cur)
                } else {
                    Some(p)
                };
                if got != want && cfg.content {
                    return Err(format!("push_decrease returned {got:?}, expected {want:?}"));
                }
            }
            7 => {
                let k = present(&mut rng, &r);
                log.push(format!("remove {k}"));
                let got = q.remove(&k);
                let want = r.del(k).map(|p| (k, p));
                if got != want && cfg.content {
                    return Err(format!("remove returned {got:?}, expected {want:?}"));
                }
            }
            8 => {
                log.push("pop (max)".into());
                let got = q.pop_max();
                check_pop(&q, &mut r, cfg, got, true)?;
            }
            _ => {
                if Q::DOUBLE {
                    log.push("pop_min".into());
                    let got = q.pop_min();
                    check_pop(&q, &mut r, cfg, got, false)?;
                } else {
                    let k = present(&mut rng, &r);
                    log.push(format!("get_priority {k}"));
                    if q.get_priority(&k) != r.m.get(&k).copied() && cfg.content {
                        return Err("get_priority differs from the reference".into());
                    }
                }
            }
        }
        steps += 1;
        check_peeks(&q, &mut r, cfg)?;
        if q.len() != r.m.len() {
            if cfg.content {
                return Err(format!("len() = {}, {} expected", q.len(), r.m.len()));
            }
            resync(&q, &mut r);
        }
        if j % 500 == 499 {
            check_all(&q, &mut r, cfg)?;
        }
    }
    check_all(&q, &mut r, cfg)?;

    // sorted outputs
    sorted_checks(&q, &mut r, cfg, log)?;
    steps += 3 * q.len() as u64;

    if cfg.bulk {
    // bulk operations
    let len = q.len();
    let present: Vec<K> = r.m.keys().copied().take(len).collect();
    {
        // only queued items, on the rebuild path (huge lower hint would reserve: use the upper bound-free form)
        let batch: Vec<(K, P)> = present.iter().map(|k| (*k, -r.m[k] + (rng.below(5) as P))).collect();
        log.push(format!("extend with {} items, all of them already queued, new priorities", batch.len()));
        for (k, p) in &batch {
            r.set(*k, *p);
        }
        let bl = batch.len();
        q.extend_hint(batch, bl, Some(bl));
        check_all(&q, &mut r, cfg)?;
        check_peeks(&q, &mut r, cfg)?;
    }
    {
        let k0 = next_key;
        let batch: Vec<(K, P)> = (0..len / 2).map(|i| (k0 + i as K, rng.below(1000) as P - 500)).collect();
        next_key += (len / 2) as K;
        log.push(format!("extend with {} new items", batch.len()));
        for (k, p) in &batch {
            r.set(*k, *p);
        }
        let bl = batch.len();
        q.extend_hint(batch, bl, None);
        check_all(&q, &mut r, cfg)?;
        check_peeks(&q, &mut r, cfg)?;
    }
    }
    if cfg.inplace {
    {
        log.push("retain(k % 3 != 0)".into());
        q.retain(|k, _| k % 3 != 0);
        let gone: Vec<K> = r.m.keys().copied().filter(|k| k % 3 == 0).collect();
        for k in gone {
            r.del(k);
        }
        check_all(&q, &mut r, cfg)?;
        check_peeks(&q, &mut r, cfg)?;
        log.push("retain_mut(negate every priority, keep k % 5 != 1)".into());
        q.retain_mut(|k, p| {
            *p = -*p;
            *k % 5 != 1
        });
        let all: Vec<(K, P)> = r.m.iter().map(|(k, p)| (*k, *p)).collect();
        for (k, p) in all {
            if k % 5 == 1 {
                r.del(k);
            } else {
                r.set(k, -p);
            }
        }
        check_all(&q, &mut r, cfg)?;
        check_peeks(&q, &mut r, cfg)?;
    }
    {
        let stop = q.len() - q.len() / 3;
        log.push(format!("iter_mut: priorities of the first {stop} elements replaced, then dropped"));
        let mut writes = vec![];
        q.for_each_mut(stop, |k, p| {
            *p = (*k as P * 7919) % 1001 - 500;
            writes.push((*k, *p));
        });
        for (k, p) in writes {
            r.set(k, p);
        }
        check_all(&q, &mut r, cfg)?;
        check_peeks(&q, &mut r, cfg)?;
    }
    }
    if cfg.bulk {
    {
        log.push("append of a queue of the same size sharing half of the items".into());
        let k0 = next_key;
        let half: Vec<K> = r.m.keys().copied().take(q.len() / 2).collect();
        let mut other_v: Vec<(K, P)> = half.iter().map(|k| (*k, 100_000 + *k as P)).collect();
        let extra = q.len() - other_v.len() + 1; // other is the longer one: its priorities win the clashes
        other_v.extend((0..extra).map(|i| (k0 + i as K, i as P)));
        let mut other = Q::from_vec(other_v.clone());
        q.append(&mut other);
        if other.len() != 0 && cfg.content {
            return Err("append left the other queue non-empty".into());
        }
        for (k, p) in other_v {
            r.set(k, p);
        }
        check_all(&q, &mut r, cfg)?;
        check_peeks(&q, &mut r, cfg)?;
        log.push("conversion to the other kind and back".into());
        q = q.roundtrip();
        check_all(&q, &mut r, cfg)?;
        check_peeks(&q, &mut r, cfg)?;
    }
    }
    sorted_checks(&q, &mut r, cfg, log)?;
    steps += 8 * q.len() as u64;

    if cfg.serde {
        serde_checks(&q, &mut r, cfg, seed, log)?;
        steps += 6 * q.len() as u64;
    }
    if cfg.reuse {
        reuse_checks(&q, &r, cfg, log)?;
        steps += 8 * q.len() as u64;
    }

    // drain from the extremes
    log.push("2000 pops from each offered end".into());
    for _ in 0..2000 {
        let got = q.pop_max();
        check_pop(&q, &mut r, cfg, got, true)?;
        if Q::DOUBLE {
            let got = q.pop_min();
            check_pop(&q, &mut r, cfg, got, false)?;
        }
        steps += 1;
    }
    check_all(&q, &mut r, cfg)?;
    log.push("clear, then reuse".into());
    q.clear();
    r = Ref::default();
    check_all(&q, &mut r, cfg)?;
    for i in 0..100u32 {
        q.push(i, (i % 10) as P);
        r.set(i, (i % 10) as P);
    }
    check_all(&q, &mut r, cfg)?;
    check_peeks(&q, &mut r, cfg)?;
    Ok(steps)
}

/// `pqharness huge <pq|dpq|both> <seed> <quick|thorough> [aspects]`: prints
/// `ok <scenarios> <steps> <max size>` or the failing log.  `aspects` is a
/// comma-separated subset of order,extreme,content,sorted,ops,bulk,inplace,reuse,serde (default: all) and incdec.
pub fn main(args: &[String]) -> i32 {
    let kinds = args.first().map(|s| s.as_str()).unwrap_or("both").to_string();
    let seed: u64 = args.get(1).and_then(|s| s.parse().ok()).unwrap_or(1);
    let tier = args.get(2).map(|s| s.as_str()).unwrap_or("quick").to_string();
    let asp = args.get(3).map(|s| s.as_str()).unwrap_or("order,extreme,content,sorted,ops,bulk,inplace,reuse,serde").to_string();
    let has = |a: &str| asp.split(',').any(|x| x == a);
    let cfg = Cfg { order: has("order"), extreme: has("extreme"), content: has("content"), sorted: has("sorted"), bulk: has("bulk"), reuse: has("reuse"), serde: has("serde"),
        ops: has("ops"), inplace: has("inplace"), incdec: has("incdec") };
    // sizes straddle 2^16 / 2^17 (quick) .. 2^20 (thorough): heap depths 16 .. 20
    let sizes: Vec<usize> = if tier == "quick" { vec![66_000, 133_000] } else { vec![66_000, 133_000, 264_000, 530_000, 1_050_000] };
    let builds: &[&str] = if tier == "quick" {
        &["push-asc", "push-random", "vec-random", "collect-desc"]
    } else {
        &["push-asc", "push-desc", "push-ties", "push-random", "vec-asc", "vec-random", "collect-desc", "collect-random"]
    };
    let mut jobs: Vec<(bool, usize, &str)> = vec![];
    for &n in &sizes {
        for &b in builds {
            // incremental builds belong to the single-element operations; the bulk constructors to `bulk`
            if (b.starts_with("push") && (!cfg.ops || cfg.incdec)) || (!b.starts_with("push") && !cfg.bulk && cfg.ops && !cfg.incdec) {
                continue;
            }
            if kinds != "dpq" {
                jobs.push((false, n, b));
            }
            if kinds != "pq" {
                jobs.push((true, n, b));
            }
        }
    }
    let njobs = jobs.len();
    let handles: Vec<_> = jobs
        .into_iter()
        .map(|(double, n, b)| {
            let b = b.to_string();
            std::thread::Builder::new()
                .stack_size(64 << 20)
                .spawn(move || {
                    let mut log = vec![format!(
                        "{}<u32, i64>, {} elements, build {}",
                        if double { "DoublePriorityQueue" } else { "PriorityQueue" },
                        n,
                        b
                    )];
                    let r = std::panic::catch_unwind(std::panic::AssertUnwindSafe(|| {
                        if double {
                            scenario::<DoublePriorityQueue<K, P>>(n, &b, seed, cfg, &mut log)
                        } else {
                            scenario::<PriorityQueue<K, P>>(n, &b, seed, cfg, &mut log)
                        }
                    }));
                    match r {
                        Ok(Ok(steps)) => Ok(steps),
                        Ok(Err(e)) => Err((e, log)),
                        Err(_) => Err(("panic".to_string(), log)),
                    }
                })
                .unwrap()
        })
        .collect();
    let mut total = 0u64;
    let mut fail: Option<(String, Vec<String>)> = None;
    for h in handles {
        match h.join() {
            Ok(Ok(s)) => total += s,
            Ok(Err(f)) => {
                if fail.is_none() {
                    fail = Some(f)
                }
            }
            Err(_) => {
                if fail.is_none() {
                    fail = Some(("thread panicked".into(), vec![]))
                }
            }
        }
    }
    if let Some((e, log)) = fail {
        println!("FAIL {e}");
        // the log can be long (one line per operation): the head and the tail tell the story
        let n = log.len();
        for (i, l) in log.iter().enumerate() {
            if i < 3 || i + 40 >= n {
                println!("  {l}");
            } else if i == 3 {
                println!("  ... ({} operations)", n - 43);
            }
        }
        return 1;
    }
    println!("ok {} {} {}", njobs, total, sizes.iter().max().unwrap());
    0
}
