//! C12, last clause: lookups through a borrowed form of the key (`&str` for a
//! `String` item) address the same element as the owned key.  The model
//! abstracts items to their Eq class, so this clause is checked directly on
//! the implementation: random histories on queues with `String` items where
//! every keyed operation is issued through `&str`, compared with a reference
//! map and with the same lookup through `&String`.

use priority_queue::{DoublePriorityQueue, PriorityQueue};
use std::collections::HashMap;

struct Rng(u64);
impl Rng {
    fn next(&mut self) -> u64 {
        self.0 = self.0.wrapping_add(0x9e3779b97f4a7c15);
        let mut z = self.0;
        z = (z ^ (z >> 30)).wrapping_mul(0xbf58476d1ce4e5b9);
        z = (z ^ (z >> 27)).wrapping_mul(0x94d049bb133111eb);
        z ^ (z >> 31)
    }
    fn below(&mut self, n: u64) -> u64 {
        self.next() % n
    }
}

macro_rules! run_kind {
    ($q:expr, $rng:expr, $len:expr, $log:expr) => {{
        let mut q = $q;
        let mut reference: HashMap<String, i64> = HashMap::new();
        for _ in 0..$len {
            // the universe includes the empty string: the borrowed form `""` is zero bytes long
            let k = match $rng.below(13) {
                12 => String::new(),
                n => format!("k{}", n),
            };
            let ks: &str = k.as_str();
            let p = $rng.below(7) as i64 - 3;
            match $rng.below(9) {
                0 | 1 | 2 => {
                    $log.push(format!("push {k} {p}"));
                    let old = q.push(k.clone(), p);
                    if old != reference.insert(k.clone(), p) {
                        return Err(format!("push returned {old:?}"));
                    }
                }
                3 => {
                    $log.push(format!("change_priority(&str {k}, {p})"));
                    let old = q.change_priority(ks, p);
                    let exp = reference.get_mut(ks).map(|v| std::mem::replace(v, p));
                    if old != exp {
                        return Err(format!("change_priority through &str returned {old:?}, expected {exp:?}"));
                    }
                }
                4 => {
                    $log.push(format!("change_priority_by(&str {k}, +1)"));
                    let ok = q.change_priority_by(ks, |x| *x += 1);
                    let exp = reference.get_mut(ks).map(|v| *v += 1).is_some();
                    if ok != exp {
                        return Err(format!("change_priority_by through &str returned {ok}"));
                    }
                }
                5 => {
                    $log.push(format!("remove(&str {k})"));
                    let r = q.remove(ks);
                    let exp = reference.remove_entry(ks);
                    if r != exp {
                        return Err(format!("remove through &str returned {r:?}, expected {exp:?}"));
                    }
                }
                6 => {
                    $log.push(format!("get_mut(&str {k})"));
                    let r = q.get_mut(ks).map(|(i, p)| (i.clone(), *p));
                    let exp = reference.get_key_value(ks).map(|(i, p)| (i.clone(), *p));
                    if r != exp {
                        return Err(format!("get_mut through &str returned {r:?}, expected {exp:?}"));
                    }
                }
                _ => {
                    $log.push(format!("get/get_priority(&str {k})"));
                    let a = q.get_priority(ks).copied();
                    let b = q.get_priority(&k).copied();
                    let c = q.get(ks).map(|(i, p)| (i.clone(), *p));
                    let exp = reference.get(ks).copied();
                    if a != exp || b != exp || c != exp.map(|p| (k.clone(), p)) {
                        return Err(format!("lookups disagree: &str {a:?}, &String {b:?}, get {c:?}, expected {exp:?}"));
                    }
                }
            }
            if q.len() != reference.len() {
                return Err(format!("len {} but {} items expected", q.len(), reference.len()));
            }
        }
        Ok(())
    }};
}

fn one(seed: u64, id: u64, len: u64, log: &mut Vec<String>) -> Result<(), String> {
    let mut rng = Rng(seed.wrapping_mul(0x2545f4914f6cdd1d) ^ id);
    if id % 2 == 0 {
        log.push("PriorityQueue<String, i64>".into());
        run_kind!(PriorityQueue::<String, i64>::new(), rng, len, log)
    } else {
        log.push("DoublePriorityQueue<String, i64>".into());
        run_kind!(DoublePriorityQueue::<String, i64>::new(), rng, len, log)
    }
}

/// `pqharness borrow <seed> <count> <len>`: prints `ok <count> <ops>` or the failing history
pub fn main(args: &[String]) -> i32 {
    let seed: u64 = args.first().and_then(|s| s.parse().ok()).unwrap_or(1);
    let count: u64 = args.get(1).and_then(|s| s.parse().ok()).unwrap_or(1000);
    let len: u64 = args.get(2).and_then(|s| s.parse().ok()).unwrap_or(60);
    for id in 0..count {
        let mut log = vec![];
        let r = std::panic::catch_unwind(std::panic::AssertUnwindSafe(|| one(seed, id, len, &mut log)));
        let err = match r {
            Ok(Ok(())) => continue,
            Ok(Err(e)) => e,
            Err(_) => "panic".to_string(),
        };
        println!("FAIL history {id}: {err}");
        for l in &log {
            println!("  {l}");
        }
        return 1;
    }
    println!("ok {} {}", count, count * len);
    0
}
