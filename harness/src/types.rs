//! Item / priority types, the comparison counter, the fuse and the hashers.

use serde::{Deserialize, Serialize};
use std::cell::Cell;
use std::cmp::Ordering;
use std::hash::{BuildHasher, BuildHasherDefault, Hash, Hasher};

// ---------------------------------------------------------------------------
// counter and fuse
// ---------------------------------------------------------------------------

thread_local! {
    static CMPS: Cell<u64> = const { Cell::new(0) };
    static FUSE: Cell<Option<u64>> = const { Cell::new(None) };
    /// `Clone` of items / priorities counts as a user callback only inside the
    /// `clone` / `clonefrom` operations (the harness itself clones queues for
    /// the consuming operations, which the model does not count)
    static CLONE_CB: Cell<bool> = const { Cell::new(false) };
    static HASH_CB: Cell<bool> = const { Cell::new(false) };
    /// `Drop` of items / priorities counts as a user callback inside `clear`
    /// (the model: Machine.v, OClear) and, under `hfuse`, everywhere
    static DROP_CB: Cell<bool> = const { Cell::new(false) };
}
pub fn drop_callbacks(on: bool) {
    DROP_CB.with(|c| c.set(on));
}
#[inline]
fn drop_tick() {
    if HASH_CB.with(|c| c.get()) || DROP_CB.with(|c| c.get()) {
        fuse_tick();
    }
}

/// `hfuse`: Hash::hash and Eq::eq of items are user callbacks too (the model
/// does not count them: implementation-only runs)
pub fn hash_callbacks(on: bool) {
    HASH_CB.with(|c| c.set(on));
}
#[inline]
pub(crate) fn hash_tick() {
    if HASH_CB.with(|c| c.get()) {
        fuse_tick();
    }
}

pub fn clone_callbacks(on: bool) {
    CLONE_CB.with(|c| c.set(on));
}
#[inline]
fn clone_tick() {
    if CLONE_CB.with(|c| c.get()) {
        fuse_tick();
    }
}

/// Payload of the panic raised by the fuse.
pub struct FusePanic;

thread_local! {
    static USER_PANIC: Cell<bool> = const { Cell::new(false) };
}
/// the caller's own code panics (e.g. the body of a loop over an iterator);
/// the harness catches it like a fused callback
pub fn user_panic() -> ! {
    USER_PANIC.with(|c| c.set(true));
    std::panic::panic_any(FusePanic)
}
pub fn user_panic_take() -> bool {
    USER_PANIC.with(|c| c.replace(false))
}

#[inline]
pub fn cmps_reset() {
    CMPS.with(|c| c.set(0));
}
#[inline]
pub fn cmps_get() -> u64 {
    CMPS.with(|c| c.get())
}
#[inline]
pub fn cmps_set(v: u64) {
    CMPS.with(|c| c.set(v));
}
#[inline]
pub fn fuse_arm(k: u64) {
    FUSE.with(|f| f.set(Some(k)));
}
#[inline]
pub fn fuse_disarm() {
    FUSE.with(|f| f.set(None));
}

/// One call into user code.  When the fuse is armed and at zero it is
/// disarmed and the call unwinds.
#[inline]
pub fn fuse_tick() {
    FUSE.with(|f| match f.get() {
        None => {}
        Some(0) => {
            f.set(None);
            std::panic::panic_any(FusePanic);
        }
        Some(k) => f.set(Some(k - 1)),
    });
}

// ---------------------------------------------------------------------------
// items and priorities
// ---------------------------------------------------------------------------

/// Eq / Hash on `key` only: `payload` makes item overwrites visible.
#[derive(Debug, Serialize, Deserialize)]
pub struct It {
    pub key: i64,
    pub payload: i64,
}
impl Clone for It {
    fn clone(&self) -> It {
        clone_tick();
        It { key: self.key, payload: self.payload }
    }
}
impl PartialEq for It {
    #[inline]
    fn eq(&self, o: &It) -> bool {
        hash_tick();
        self.key == o.key
    }
}
impl Eq for It {}
/// under `hfuse` dropping an item is a user callback as well (`Drop::drop` may panic)
impl Drop for It {
    #[inline]
    fn drop(&mut self) {
        drop_tick();
    }
}
impl Hash for It {
    #[inline]
    fn hash<S: Hasher>(&self, state: &mut S) {
        hash_tick();
        self.key.hash(state)
    }
}

/// Priority (value, tag) with a counting, fused `Ord` on the value.  The tag
/// takes no part in `Ord` / `PartialEq` (not counted): priorities that tie
/// stay distinguishable, so which of two tied priorities an operation
/// returns or keeps is visible.
#[derive(Debug, Serialize, Deserialize)]
pub struct Pr(pub i64, pub i64);
impl PartialEq for Pr {
    #[inline]
    fn eq(&self, o: &Pr) -> bool {
        self.0 == o.0
    }
}
impl Eq for Pr {}
/// under `hfuse` dropping a priority is a user callback as well
impl Drop for Pr {
    #[inline]
    fn drop(&mut self) {
        drop_tick();
    }
}
impl Clone for Pr {
    fn clone(&self) -> Pr {
        clone_tick();
        Pr(self.0, self.1)
    }
}

impl Ord for Pr {
    #[inline]
    fn cmp(&self, o: &Pr) -> Ordering {
        // Convention of the model (Store.v, cmp_lt): the callback that fires
        // the fuse unwinds *before* it is counted.
        fuse_tick();
        CMPS.with(|c| c.set(c.get() + 1));
        self.0.cmp(&o.0)
    }
}
impl PartialOrd for Pr {
    #[inline]
    fn partial_cmp(&self, o: &Pr) -> Option<Ordering> {
        Some(self.cmp(o))
    }
}

// ---------------------------------------------------------------------------
// hashers
// ---------------------------------------------------------------------------

/// hash mode 0
pub type H0 = BuildHasherDefault<std::collections::hash_map::DefaultHasher>;
/// hash mode 2
pub type H2 = std::collections::hash_map::RandomState;
/// hash mode 3
pub type H3 = hashbrown::hash_map::DefaultHashBuilder;

/// hash mode 4: an identity-style hasher whose values lie at both ends of the
/// u64 range (even keys map to u64::MAX - k/2, odd keys to k/2): u64::MAX, 0
/// and their neighbours are ordinary hash values
#[derive(Clone, Copy, Default, Debug)]
pub struct EdgeHasher(u64);
impl Hasher for EdgeHasher {
    #[inline]
    fn finish(&self) -> u64 {
        self.0
    }
    #[inline]
    fn write(&mut self, bytes: &[u8]) {
        let mut b = [0u8; 8];
        let n = bytes.len().min(8);
        b[..n].copy_from_slice(&bytes[..n]);
        self.write_u64(u64::from_le_bytes(b));
    }
    #[inline]
    fn write_u64(&mut self, k: u64) {
        self.0 = if k % 2 == 0 { u64::MAX - k / 2 } else { k / 2 };
    }
    #[inline]
    fn write_i64(&mut self, k: i64) {
        self.write_u64(k as u64)
    }
}
#[derive(Clone, Copy, Default, Debug)]
pub struct H4;
impl BuildHasher for H4 {
    type Hasher = EdgeHasher;
    #[inline]
    fn build_hasher(&self) -> EdgeHasher {
        EdgeHasher(0)
    }
}

/// hash mode 1: every item collides
#[derive(Clone, Copy, Default, Debug)]
pub struct ConstHasher;
impl Hasher for ConstHasher {
    #[inline]
    fn finish(&self) -> u64 {
        0
    }
    #[inline]
    fn write(&mut self, _bytes: &[u8]) {}
}
#[derive(Clone, Copy, Default, Debug)]
pub struct H1;
impl BuildHasher for H1 {
    type Hasher = ConstHasher;
    #[inline]
    fn build_hasher(&self) -> ConstHasher {
        ConstHasher
    }
}

// ---------------------------------------------------------------------------
// feeding iterator with a scripted size_hint
// ---------------------------------------------------------------------------

pub struct HintIter {
    pub items: std::vec::IntoIter<(It, Pr)>,
    pub lo: usize,
    pub hi: Option<usize>,
    /// the iterator is NOT fused: polled again after it has returned `None`, it
    /// yields this many more (poison) pairs.  `extend` / `collect` must stop at
    /// the first `None`, as `Vec` and `HashMap` do; nothing correct ever sees them.
    pub after_end: u32,
    pub ended: bool,
}
pub const POISON_KEY: i64 = 987_654_321;
impl HintIter {
    pub fn new(items: Vec<(It, Pr)>, lo: usize, hi: Option<usize>) -> HintIter {
        HintIter { items: items.into_iter(), lo, hi, after_end: 3, ended: false }
    }
}
impl Iterator for HintIter {
    type Item = (It, Pr);
    #[inline]
    fn next(&mut self) -> Option<(It, Pr)> {
        fuse_tick();
        match self.items.next() {
            Some(x) => Some(x),
            None if !self.ended => {
                self.ended = true;
                None
            }
            None if self.after_end > 0 => {
                self.after_end -= 1;
                Some((It { key: POISON_KEY + self.after_end as i64, payload: 0 }, Pr(i64::MAX, 7)))
            }
            None => None,
        }
    }
    fn size_hint(&self) -> (usize, Option<usize>) {
        // under `hfuse` asking for the hint is a user callback as well
        hash_tick();
        (self.lo, self.hi)
    }
}

// ---------------------------------------------------------------------------
// small PRNG (splitmix64)
// ---------------------------------------------------------------------------

#[derive(Clone)]
pub struct Rng(pub u64);
impl Rng {
    pub fn new(seed: u64, stream: u64) -> Rng {
        let mut r = Rng(seed ^ stream.wrapping_mul(0x9E37_79B9_7F4A_7C15).rotate_left(17));
        r.next();
        r.next();
        r
    }
    #[inline]
    pub fn next(&mut self) -> u64 {
        self.0 = self.0.wrapping_add(0x9E37_79B9_7F4A_7C15);
        let mut z = self.0;
        z = (z ^ (z >> 30)).wrapping_mul(0xBF58_476D_1CE4_E5B9);
        z = (z ^ (z >> 27)).wrapping_mul(0x94D0_49BB_1331_11EB);
        z ^ (z >> 31)
    }
    /// uniform in 0..n (n > 0)
    #[inline]
    pub fn below(&mut self, n: u64) -> u64 {
        self.next() % n
    }
    /// uniform in lo..=hi
    #[inline]
    pub fn range(&mut self, lo: i64, hi: i64) -> i64 {
        lo + self.below((hi - lo + 1) as u64) as i64
    }
    /// true with probability pct/100
    #[inline]
    pub fn pct(&mut self, pct: u64) -> bool {
        self.below(100) < pct
    }
    pub fn pick<'a, T>(&mut self, xs: &'a [T]) -> &'a T {
        &xs[self.below(xs.len() as u64) as usize]
    }
}
