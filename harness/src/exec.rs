//! Executes history files against the real crate and prints trace files
//! (format: /verif/FORMAT.md, reference printer: /verif/ocaml/driver.ml).

use crate::types::*;
use priority_queue::{DoublePriorityQueue, PriorityQueue};
use std::any::Any;
use std::hash::BuildHasher;
use std::io::{BufRead, BufReader, Read, Seek, SeekFrom, Write};
use std::panic::{catch_unwind, resume_unwind, AssertUnwindSafe};

type PQ<H> = PriorityQueue<It, Pr, H>;
type DPQ<H> = DoublePriorityQueue<It, Pr, H>;

pub enum Reg<H> {
    Empty,
    Pq(PQ<H>),
    Dpq(DPQ<H>),
}

#[derive(Clone, Copy, PartialEq, Eq)]
enum Kind {
    Pq,
    Dpq,
}
#[derive(Clone, Copy, PartialEq, Eq)]
enum Side {
    Min,
    Max,
}

// ---------------------------------------------------------------------------
// parsing helpers: a malformed history is an error of the caller, not a fault
// ---------------------------------------------------------------------------

fn bad(what: &str) -> ! {
    eprintln!("pqharness: malformed history: {what}");
    std::process::exit(2)
}
fn num<T: std::str::FromStr>(s: &str) -> T {
    match s.parse::<T>() {
        Ok(v) => v,
        Err(_) => bad(&format!("number `{s}`")),
    }
}
fn tok<'a>(t: &[&'a str], i: usize) -> &'a str {
    match t.get(i) {
        Some(s) => s,
        None => bad(&format!("missing token {i} in `{}`", t.join(" "))),
    }
}
fn kind_of(s: &str) -> Kind {
    match s {
        "pq" => Kind::Pq,
        "dpq" => Kind::Dpq,
        _ => bad(&format!("kind `{s}`")),
    }
}
fn side_of(s: &str) -> Side {
    match s {
        "min" => Side::Min,
        "max" => Side::Max,
        _ => bad(&format!("side `{s}`")),
    }
}
fn opt_i64(s: &str) -> Option<i64> {
    if s == "-" {
        None
    } else {
        Some(num(s))
    }
}
/// a priority token `v` or `v/t`
fn prio_of(s: &str) -> Pr {
    match s.split_once('/') {
        Some((v, t)) => Pr(num(v), num(t)),
        None => Pr(num(s), 0),
    }
}
fn opt_prio(s: &str) -> Option<(i64, i64)> {
    if s == "-" {
        None
    } else {
        let p = prio_of(s);
        Some((p.0, p.1))
    }
}
fn p_prio(s: &mut String, p: &Pr) {
    p_i64(s, p.0);
    if p.1 != 0 {
        s.push('/');
        p_i64(s, p.1);
    }
}
fn flag(s: &str) -> bool {
    s == "1"
}
/// `n (k pl p)*n` starting at `t[0]`
fn triples(t: &[&str]) -> Vec<(It, Pr)> {
    let n: usize = num(tok(t, 0));
    if t.len() < 1 + 3 * n {
        bad("triples");
    }
    (0..n)
        .map(|i| {
            (
                It {
                    key: num(t[1 + 3 * i]),
                    payload: num(t[2 + 3 * i]),
                },
                prio_of(t[3 + 3 * i]),
            )
        })
        .collect()
}
fn hint(lo: &str, hi: &str) -> (usize, Option<usize>) {
    (num(lo), if hi == "-" { None } else { Some(num(hi)) })
}
fn lookup(key: i64) -> It {
    It { key, payload: -1 }
}

// ---------------------------------------------------------------------------
// printing helpers
// ---------------------------------------------------------------------------

#[inline]
fn p_u64(s: &mut String, mut u: u64) {
    let mut b = [0u8; 20];
    let mut i = 20;
    loop {
        i -= 1;
        b[i] = b'0' + (u % 10) as u8;
        u /= 10;
        if u == 0 {
            break;
        }
    }
    s.push_str(std::str::from_utf8(&b[i..]).unwrap());
}
#[inline]
fn p_i64(s: &mut String, v: i64) {
    if v < 0 {
        s.push('-');
    }
    p_u64(s, v.unsigned_abs());
}
#[inline]
fn p_elem(s: &mut String, i: &It, p: &Pr) {
    p_i64(s, i.key);
    s.push(':');
    p_i64(s, i.payload);
    s.push(':');
    p_prio(s, p);
}
fn p_optp(s: &mut String, o: Option<&Pr>) {
    s.push_str("optp ");
    match o {
        None => s.push('-'),
        Some(p) => p_prio(s, p),
    }
}
fn p_opte(s: &mut String, o: Option<(&It, &Pr)>) {
    s.push_str("opte ");
    match o {
        None => s.push('-'),
        Some((i, p)) => p_elem(s, i, p),
    }
}
fn p_bool(s: &mut String, b: bool) {
    s.push_str(if b { "bool 1" } else { "bool 0" });
}
fn p_usizes(s: &mut String, v: &[usize]) {
    s.push('[');
    for (i, x) in v.iter().enumerate() {
        if i > 0 {
            s.push(',');
        }
        p_u64(s, *x as u64);
    }
    s.push(']');
}
fn p_reg<H>(s: &mut String, idx: usize, r: &Reg<H>) {
    let (kind, snap) = match r {
        Reg::Empty => return,
        Reg::Pq(q) => ("pq", q.verif_snapshot()),
        Reg::Dpq(q) => ("dpq", q.verif_snapshot()),
    };
    s.push_str(" ; r");
    p_u64(s, idx as u64);
    s.push('=');
    s.push_str(kind);
    // big-n cost runs: only the size is of interest (and the lines would be huge)
    if std::env::var_os("PQH_NOSTATE").is_some() {
        s.push_str(" m=[] h=[] q=[] s=");
        p_u64(s, snap.2 as u64);
        return;
    }
    s.push_str(" m=[");
    let mut first = true;
    let mut elem = |s: &mut String, i: &It, p: &Pr| {
        if !first {
            s.push(',');
        }
        first = false;
        p_elem(s, i, p);
    };
    match r {
        Reg::Pq(q) => q.iter().for_each(|(i, p)| elem(s, i, p)),
        Reg::Dpq(q) => q.iter().for_each(|(i, p)| elem(s, i, p)),
        Reg::Empty => {}
    }
    s.push_str("] h=");
    p_usizes(s, &snap.0);
    s.push_str(" q=");
    p_usizes(s, &snap.1);
    s.push_str(" s=");
    p_u64(s, snap.2 as u64);
}

// ---------------------------------------------------------------------------
// iterator scripts
// ---------------------------------------------------------------------------

#[derive(Clone, Copy)]
enum Step {
    N(Option<(i64, i64)>, Option<i64>),
    B(Option<(i64, i64)>, Option<i64>),
    L,
    S,
    /// `nth(k)` / `nth_back(k)`: std's defaults are k+1 calls of next / next_back
    Nth(usize),
    NthB(usize),
}
#[derive(Clone, Copy)]
enum Ad {
    Direct,
    Rev,
    Take(usize),
    Skip(usize),
}
#[derive(Clone, Copy)]
enum LenAd {
    Take(usize),
    Skip(usize),
    Zip(usize),
    Rev,
    Enum,
    Peek,
}
#[derive(Clone, Copy)]
enum End {
    Drop,
    Forget,
    /// the caller's loop body panics (caught by the harness) while the iterator
    /// is alive: the iterator is dropped during the unwinding
    Panic,
    Len(LenAd),
    /// consuming methods with default implementations in terms of `next`
    Count,
    Last,
    Collect,
}
struct Script {
    ad: Ad,
    end: End,
    steps: Vec<Step>,
}

/// `A E n step*n`
fn parse_script(t: &[&str]) -> Script {
    let a: Vec<&str> = tok(t, 0).split(':').collect();
    let ad = match a.as_slice() {
        ["direct"] => Ad::Direct,
        ["rev"] => Ad::Rev,
        ["take", n] => Ad::Take(num(n)),
        ["skip", n] => Ad::Skip(num(n)),
        _ => bad(&format!("adaptor `{}`", t[0])),
    };
    let e: Vec<&str> = tok(t, 1).split(':').collect();
    let end = match e.as_slice() {
        ["drop"] => End::Drop,
        ["forget"] => End::Forget,
        ["panic"] => End::Panic,
        ["len", "take", n] => End::Len(LenAd::Take(num(n))),
        ["len", "skip", n] => End::Len(LenAd::Skip(num(n))),
        ["len", "zip", n] => End::Len(LenAd::Zip(num(n))),
        ["len", "rev"] => End::Len(LenAd::Rev),
        ["len", "enum"] => End::Len(LenAd::Enum),
        ["len", "peek"] => End::Len(LenAd::Peek),
        ["count"] => End::Count,
        ["last"] => End::Last,
        ["collect"] => End::Collect,
        _ => bad(&format!("iend `{}`", t[1])),
    };
    let n: usize = num(tok(t, 2));
    if t.len() != 3 + n {
        bad("script length");
    }
    let steps = t[3..]
        .iter()
        .map(|s| {
            let p: Vec<&str> = s.split(':').collect();
            match p.as_slice() {
                ["n"] => Step::N(None, None),
                ["b"] => Step::B(None, None),
                ["n", w, pl] => Step::N(opt_prio(w), opt_i64(pl)),
                ["b", w, pl] => Step::B(opt_prio(w), opt_i64(pl)),
                ["l"] => Step::L,
                ["s"] => Step::S,
                ["nth", k] => Step::Nth(num(k)),
                ["nthb", k] => Step::NthB(num(k)),
                _ => bad(&format!("istep `{s}`")),
            }
        })
        .collect();
    Script { ad, end, steps }
}

/// Is every call of the script offered by the iterator type?  `full`: the
/// type is DoubleEnded + ExactSize (Iter, IntoIter, Drain, the dpq's IterMut
/// and IntoSortedIter); otherwise it only has next() and size_hint() (the
/// pq's IterMut and IntoSortedIter).  Decided before anything is executed.
fn script_ok(full: bool, sc: &Script) -> bool {
    let has = |f: fn(&Step) -> bool| sc.steps.iter().any(f);
    let has_b = has(|s| matches!(s, Step::B(..) | Step::NthB(_)));
    let has_l = has(|s| matches!(s, Step::L));
    let len_end = matches!(sc.end, End::Len(_));
    match sc.ad {
        // `it.skip(n)` exists for every iterator, but no call is ever issued
        // through it (Iter.v, ad_step): only the empty script is offered
        Ad::Skip(_) => sc.steps.is_empty() && matches!(sc.end, End::Drop | End::Forget | End::Panic),
        Ad::Direct => full || !(has_b || has_l || len_end),
        Ad::Rev => full && !len_end,
        Ad::Take(_) => !has_b && !len_end && (full || !has_l),
    }
}

/// where the IndexMap keeps its entries: slot = (addr - base) / stride
struct Ctx {
    base: usize,
    stride: usize,
}
fn ctx_of<'a>(mut it: impl Iterator<Item = (&'a It, &'a Pr)>) -> Ctx {
    let a = it.next().map(|(i, _)| i as *const It as usize);
    let b = it.next().map(|(i, _)| i as *const It as usize);
    let base = a.unwrap_or(0);
    let stride = b.map(|b| b.wrapping_sub(base)).filter(|s| *s != 0).unwrap_or(1);
    Ctx { base, stride }
}

trait Yield {
    fn emit(self, w: Option<(i64, i64)>, pl: Option<i64>, ctx: &Ctx, out: &mut String);
}
impl Yield for (It, Pr) {
    fn emit(self, _: Option<(i64, i64)>, _: Option<i64>, _: &Ctx, out: &mut String) {
        out.push_str("e:");
        p_elem(out, &self.0, &self.1);
    }
}
impl<'a> Yield for (&'a It, &'a Pr) {
    fn emit(self, _: Option<(i64, i64)>, _: Option<i64>, _: &Ctx, out: &mut String) {
        out.push_str("e:");
        p_elem(out, self.0, self.1);
    }
}
impl<'a> Yield for (&'a mut It, &'a mut Pr) {
    fn emit(self, w: Option<(i64, i64)>, pl: Option<i64>, ctx: &Ctx, out: &mut String) {
        let (i, p) = self;
        if let Some(w) = w {
            p.0 = w.0;
            p.1 = w.1;
        }
        if let Some(pl) = pl {
            i.payload = pl;
        }
        let addr = i as *const It as usize;
        let off = addr.wrapping_sub(ctx.base);
        out.push_str("m:");
        if off % ctx.stride == 0 {
            p_u64(out, (off / ctx.stride) as u64);
        } else {
            out.push('?');
        }
        out.push(':');
        p_elem(out, i, p);
    }
}

/// the calls a script can make; which ones exist depends on the wrapper
trait Drive {
    type Item: Yield;
    fn n(&mut self) -> Option<Self::Item>;
    fn b(&mut self) -> Option<Self::Item>;
    fn nth(&mut self, k: usize) -> Option<Self::Item>;
    fn nthb(&mut self, k: usize) -> Option<Self::Item>;
    fn l(&self) -> usize;
    fn s(&self) -> (usize, Option<usize>);
}
/// next + size_hint
struct Fwd<T>(T);
/// next + size_hint + len
struct Exact<T>(T);
/// next + next_back + size_hint + len
struct Full<T>(T);

impl<T: Iterator> Drive for Fwd<T>
where
    T::Item: Yield,
{
    type Item = T::Item;
    fn n(&mut self) -> Option<T::Item> {
        self.0.next()
    }
    fn b(&mut self) -> Option<T::Item> {
        unreachable!("next_back not offered")
    }
    fn nth(&mut self, k: usize) -> Option<T::Item> {
        self.0.nth(k)
    }
    fn nthb(&mut self, _k: usize) -> Option<T::Item> {
        unreachable!("nth_back not offered")
    }
    fn l(&self) -> usize {
        unreachable!("len not offered")
    }
    fn s(&self) -> (usize, Option<usize>) {
        self.0.size_hint()
    }
}
impl<T: ExactSizeIterator> Drive for Exact<T>
where
    T::Item: Yield,
{
    type Item = T::Item;
    fn n(&mut self) -> Option<T::Item> {
        self.0.next()
    }
    fn b(&mut self) -> Option<T::Item> {
        unreachable!("next_back not offered")
    }
    fn nth(&mut self, k: usize) -> Option<T::Item> {
        self.0.nth(k)
    }
    fn nthb(&mut self, _k: usize) -> Option<T::Item> {
        unreachable!("nth_back not offered")
    }
    fn l(&self) -> usize {
        self.0.len()
    }
    fn s(&self) -> (usize, Option<usize>) {
        self.0.size_hint()
    }
}
impl<T: DoubleEndedIterator + ExactSizeIterator> Drive for Full<T>
where
    T::Item: Yield,
{
    type Item = T::Item;
    fn n(&mut self) -> Option<T::Item> {
        self.0.next()
    }
    fn b(&mut self) -> Option<T::Item> {
        self.0.next_back()
    }
    fn nth(&mut self, k: usize) -> Option<T::Item> {
        self.0.nth(k)
    }
    fn nthb(&mut self, k: usize) -> Option<T::Item> {
        self.0.nth_back(k)
    }
    fn l(&self) -> usize {
        self.0.len()
    }
    fn s(&self) -> (usize, Option<usize>) {
        self.0.size_hint()
    }
}

fn is_fuse(p: &(dyn Any + Send)) -> bool {
    p.is::<FusePanic>()
}

fn sep(out: &mut String) {
    if !out.ends_with('[') {
        out.push(',');
    }
}

/// `len()` under catch_unwind: None if it panicked (std's default asserts
/// that size_hint is exact)
fn guarded_len(f: impl FnOnce() -> usize) -> Option<usize> {
    match catch_unwind(AssertUnwindSafe(f)) {
        Ok(n) => Some(n),
        Err(p) => {
            if is_fuse(&*p) {
                resume_unwind(p)
            }
            None
        }
    }
}
fn p_len(out: &mut String, r: Option<usize>, bad: &mut bool) {
    sep(out);
    match r {
        Some(n) => {
            out.push_str("len:");
            p_u64(out, n as u64);
        }
        None => {
            out.push_str("len:!");
            *bad = true;
        }
    }
}

fn run_steps<D: Drive>(d: &mut D, steps: &[Step], ctx: &Ctx, out: &mut String, bad: &mut bool) {
    for st in steps {
        match *st {
            Step::N(w, pl) => {
                let x = d.n();
                sep(out);
                match x {
                    Some(x) => x.emit(w, pl, ctx, out),
                    None => out.push_str("e:-"),
                }
            }
            Step::B(w, pl) => {
                let x = d.b();
                sep(out);
                match x {
                    Some(x) => x.emit(w, pl, ctx, out),
                    None => out.push_str("e:-"),
                }
            }
            Step::Nth(k) => {
                let x = d.nth(k);
                sep(out);
                match x {
                    Some(x) => x.emit(None, None, ctx, out),
                    None => out.push_str("e:-"),
                }
            }
            Step::NthB(k) => {
                let x = d.nthb(k);
                sep(out);
                match x {
                    Some(x) => x.emit(None, None, ctx, out),
                    None => out.push_str("e:-"),
                }
            }
            Step::L => {
                let r = guarded_len(|| d.l());
                p_len(out, r, bad);
            }
            Step::S => {
                let (lo, hi) = d.s();
                sep(out);
                out.push_str("hint:");
                p_u64(out, lo as u64);
                out.push(':');
                match hi {
                    Some(h) => p_u64(out, h as u64),
                    None => out.push('-'),
                }
            }
        }
    }
}

thread_local! {
    static CONSUMER: std::cell::Cell<u32> = const { std::cell::Cell::new(0) };
}
fn consumer_rotation() -> u32 {
    CONSUMER.with(|c| {
        let v = c.get();
        c.set(v.wrapping_add(1));
        v % 10
    })
}

/// `count()` / `last()` / `collect()` of the iterator in its current state
fn consume<X: Iterator>(x: X, end: End, ctx: &Ctx, out: &mut String)
where
    X::Item: Yield,
{
    match end {
        End::Count => {
            let n = x.count();
            sep(out);
            out.push_str("count:");
            p_u64(out, n as u64);
        }
        End::Last => {
            let l = x.last();
            sep(out);
            out.push_str("last:");
            match l {
                Some(y) => y.emit(None, None, ctx, out),
                None => out.push_str("e:-"),
            }
        }
        End::Collect => {
            // every consuming method of Iterator that visits the remaining elements once, in
            // order, is the same thing for the model (next() until None); an implementation may
            // override any of them: they are used in rotation
            let mut x = x;
            let mut v: Vec<X::Item> = Vec::new();
            match consumer_rotation() {
                0 => v = x.collect(),
                1 => x.for_each(|y| v.push(y)),
                2 => v = x.fold(Vec::new(), |mut a, y| {
                    a.push(y);
                    a
                }),
                3 => {
                    let _ = x.try_for_each(|y| -> Result<(), ()> {
                        v.push(y);
                        Ok(())
                    });
                }
                4 => {
                    let _ = x.all(|y| {
                        v.push(y);
                        true
                    });
                }
                5 => {
                    let _ = x.any(|y| {
                        v.push(y);
                        false
                    });
                }
                6 => {
                    let _ = x.find_map(|y| -> Option<()> {
                        v.push(y);
                        None
                    });
                }
                7 => {
                    let _ = x.position(|y| {
                        v.push(y);
                        false
                    });
                }
                8 => {
                    let (a, b): (Vec<X::Item>, Vec<X::Item>) = x.partition(|_| true);
                    v = a;
                    v.extend(b);
                }
                _ => v.extend(x.by_ref()),
            }
            sep(out);
            out.push_str("collect:");
            p_u64(out, v.len() as u64);
            for y in v {
                out.push('/');
                y.emit(None, None, ctx, out);
            }
        }
        _ => unreachable!(),
    }
}

/// drop / forget / consumption of whatever the calls were issued on
fn finish_simple<X: Iterator>(x: X, end: End, ctx: &Ctx, out: &mut String)
where
    X::Item: Yield,
{
    match end {
        End::Drop => drop(x),
        End::Forget => std::mem::forget(x),
        End::Panic => {
            let _alive = x;
            user_panic()
        }
        End::Len(_) => unreachable!("len:* only with adaptor direct"),
        End::Count | End::Last | End::Collect => consume(x, end, ctx, out),
    }
}
/// `.len()` of an adaptor wrapped around the iterator in its current state;
/// the adaptor (and the iterator in it) is dropped afterwards
fn len_of<X: ExactSizeIterator>(x: X) -> Option<usize> {
    let r = guarded_len(|| x.len());
    drop(x);
    r
}

fn script_full<T>(it: T, sc: &Script, ctx: &Ctx, out: &mut String, bad: &mut bool)
where
    T: DoubleEndedIterator + ExactSizeIterator,
    T::Item: Yield,
{
    match sc.ad {
        Ad::Direct => {
            let mut d = Full(it);
            run_steps(&mut d, &sc.steps, ctx, out, bad);
            let it = d.0;
            match sc.end {
                End::Drop => drop(it),
                End::Forget => std::mem::forget(it),
                End::Panic => {
                    let _alive = it;
                    user_panic()
                }
                End::Len(la) => {
                    let r = match la {
                        LenAd::Take(n) => len_of(it.take(n)),
                        LenAd::Skip(n) => len_of(it.skip(n)),
                        LenAd::Zip(n) => len_of(it.zip(0..n)),
                        LenAd::Rev => len_of(it.rev()),
                        LenAd::Enum => len_of(it.enumerate()),
                        LenAd::Peek => len_of(it.peekable()),
                    };
                    p_len(out, r, bad);
                }
                End::Count | End::Last | End::Collect => consume(it, sc.end, ctx, out),
            }
        }
        Ad::Rev => {
            let mut d = Full(it.rev());
            run_steps(&mut d, &sc.steps, ctx, out, bad);
            finish_simple(d.0, sc.end, ctx, out);
        }
        Ad::Take(n) => {
            let mut d = Exact(it.take(n));
            run_steps(&mut d, &sc.steps, ctx, out, bad);
            finish_simple(d.0, sc.end, ctx, out);
        }
        Ad::Skip(n) => finish_simple(it.skip(n), sc.end, ctx, out),
    }
}

fn script_fwd<T>(it: T, sc: &Script, ctx: &Ctx, out: &mut String, bad: &mut bool)
where
    T: Iterator,
    T::Item: Yield,
{
    match sc.ad {
        Ad::Direct => {
            let mut d = Fwd(it);
            run_steps(&mut d, &sc.steps, ctx, out, bad);
            finish_simple(d.0, sc.end, ctx, out);
        }
        Ad::Take(n) => {
            let mut d = Fwd(it.take(n));
            run_steps(&mut d, &sc.steps, ctx, out, bad);
            finish_simple(d.0, sc.end, ctx, out);
        }
        Ad::Skip(n) => finish_simple(it.skip(n), sc.end, ctx, out),
        Ad::Rev => unreachable!(),
    }
}

// ---------------------------------------------------------------------------
// the executor
// ---------------------------------------------------------------------------

const NO_CTX: Ctx = Ctx { base: 0, stride: 1 };

/// what `do_op` reports besides the text in `out`
enum Res {
    Done,
    /// a `len()` call panicked, or deserialization failed
    FaultPanic,
}

pub struct Ex<H> {
    regs: Vec<Reg<H>>,
    odd: bool,
    out: String,
    regtxt: String,
    /// set when a panic of the crate's own follows a caught panic (the model
    /// stops at a fault).  The remaining ops are still executed, because an
    /// abort there is a memory-safety finding, but print nothing.
    silent: bool,
    /// a fuse fired earlier in this history
    had_unwound: bool,
    /// rotates through the constructors
    ctor: u32,
}

fn two_mut<T>(v: &mut [T], a: usize, b: usize) -> (&mut T, &mut T) {
    debug_assert!(a != b);
    if a < b {
        let (x, y) = v.split_at_mut(b);
        (&mut x[a], &mut y[0])
    } else {
        let (x, y) = v.split_at_mut(a);
        (&mut y[0], &mut x[b])
    }
}

macro_rules! invalid {
    ($out:expr) => {{
        $out.push_str("invalid");
        return Res::Done;
    }};
}
/// run the same code on whichever queue the register holds
macro_rules! on_q {
    ($reg:expr, $out:expr, $q:ident => $body:expr) => {
        match $reg {
            Some(Reg::Pq($q)) => $body,
            Some(Reg::Dpq($q)) => $body,
            _ => invalid!($out),
        }
    };
}

/// runs one history line from inside a destructor, while the stack unwinds
/// from an unrelated panic of the caller (`unwinding <line>`):
/// `std::thread::panicking()` is true for the whole operation although
/// nothing in it need panic (a fused callback inside it is caught inside the
/// destructor, which the language allows)
struct OnUnwind<'a, 't, H: BuildHasher + Default + Clone + std::fmt::Debug> {
    ex: &'a mut Ex<H>,
    toks: &'a [&'t str],
    line: &'a mut String,
    dead: &'a mut bool,
}
impl<'a, 't, H: BuildHasher + Default + Clone + std::fmt::Debug> Drop for OnUnwind<'a, 't, H> {
    fn drop(&mut self) {
        *self.dead = self.ex.step_plain(self.toks, self.line);
    }
}

impl<H: BuildHasher + Default + Clone + std::fmt::Debug> Ex<H> {
    /// Executes one op line and appends its trace line to `line`.
    /// Returns true when the history is dead (a fault was printed).
    pub fn step(&mut self, toks: &[&str], line: &mut String) -> bool {
        if toks[0] != "unwinding" {
            return self.step_plain(toks, line);
        }
        if toks.len() < 2 {
            bad("empty op");
        }
        let mut dead = false;
        let _ = catch_unwind(AssertUnwindSafe(|| {
            let _g = OnUnwind { ex: self, toks: &toks[1..], line, dead: &mut dead };
            user_panic()
        }));
        user_panic_take();
        dead
    }

    pub fn new(nregs: usize, odd: bool) -> Ex<H> {
        Ex {
            regs: (0..nregs).map(|_| Reg::Empty).collect(),
            odd,
            out: String::new(),
            regtxt: String::new(),
            silent: false,
            had_unwound: false,
            ctor: 0,
        }
    }

    fn set(&mut self, r: usize, v: Reg<H>) {
        if let Some(slot) = self.regs.get_mut(r) {
            *slot = v;
        }
    }

    fn step_plain(&mut self, toks: &[&str], line: &mut String) -> bool {
        let (fuse, toks): (Option<u64>, &[&str]) = if toks[0] == "fuse" || toks[0] == "hfuse" {
            // hfuse: Hash / Eq of items count as callbacks too
            hash_callbacks(toks[0] == "hfuse");
            (Some(num(tok(toks, 1))), &toks[2.min(toks.len())..])
        } else {
            (None, toks)
        };
        if toks.is_empty() {
            bad("empty op");
        }
        if self.silent {
            // keep executing, print nothing, ignore panics (an abort is
            // reported by the parent as `fault ub`)
            let mut out = std::mem::take(&mut self.out);
            out.clear();
            if let Some(k) = fuse {
                fuse_arm(k);
            }
            let _ = catch_unwind(AssertUnwindSafe(|| self.do_op(toks, &mut out)));
            fuse_disarm();
            clone_callbacks(false);
            drop_callbacks(false);
            hash_callbacks(false);
            self.out = out;
            return false;
        }
        let mut out = std::mem::take(&mut self.out);
        out.clear();
        cmps_reset();
        if let Some(k) = fuse {
            fuse_arm(k);
        }
        let r = catch_unwind(AssertUnwindSafe(|| self.do_op(toks, &mut out)));
        fuse_disarm();
        clone_callbacks(false);
        drop_callbacks(false);
        hash_callbacks(false);
        let t = cmps_get();
        let mut dead = false;
        let mut unwound = false;
        match r {
            Ok(Res::Done) => {}
            Ok(Res::FaultPanic) => {
                out.clear();
                out.push_str("fault panic");
                dead = true;
            }
            Err(p) => {
                out.clear();
                let by_caller = user_panic_take();
                if (fuse.is_some() || by_caller) && is_fuse(&*p) {
                    out.push_str("unwound");
                    unwound = true;
                    // (retain's drop guard lets the map finish its bookkeeping:
                    // the model describes the state after an unwound retain)
                } else {
                    out.push_str("fault panic");
                    dead = true;
                }
            }
        }
        let mut regtxt = std::mem::take(&mut self.regtxt);
        regtxt.clear();
        let printed = catch_unwind(AssertUnwindSafe(|| {
            for (i, r) in self.regs.iter().enumerate() {
                p_reg(&mut regtxt, i, r);
            }
        }));
        if printed.is_err() {
            // printing a register panicked: the queue is broken
            regtxt.clear();
            if !dead {
                out.clear();
                out.push_str("fault panic");
                dead = true;
            }
        }
        line.push_str(&out);
        line.push_str(" ; t=");
        if unwound && !dead {
            // ticks of an unwound step are not compared
            line.push('-');
        } else {
            p_u64(line, t);
        }
        line.push_str(&regtxt);
        self.regtxt = regtxt;
        line.push('\n');
        self.out = out;
        if unwound {
            self.had_unwound = true;
        }
        if dead && self.had_unwound {
            // a (safe) panic after a caught one: the printed history ends here,
            // the execution goes on silently
            self.silent = true;
            return false;
        }
        dead
    }

    fn do_op(&mut self, t: &[&str], out: &mut String) -> Res {
        match t[0] {
            // ---- constructors -------------------------------------------
            "new" => {
                let (k, r) = (kind_of(tok(t, 1)), num::<usize>(tok(t, 2)));
                // every way of making an empty queue, in turn
                self.ctor = self.ctor.wrapping_add(1);
                let v = match (k, self.ctor % 4) {
                    (Kind::Pq, 0) => Reg::Pq(PQ::with_hasher(H::default())),
                    (Kind::Pq, 1) => Reg::Pq(PQ::default()),
                    (Kind::Pq, 2) => Reg::Pq(PQ::with_default_hasher()),
                    (Kind::Pq, _) => Reg::Pq(PQ::with_capacity_and_default_hasher(0)),
                    (Kind::Dpq, 0) => Reg::Dpq(DPQ::with_hasher(H::default())),
                    (Kind::Dpq, 1) => Reg::Dpq(DPQ::default()),
                    (Kind::Dpq, 2) => Reg::Dpq(DPQ::with_default_hasher()),
                    (Kind::Dpq, _) => Reg::Dpq(DPQ::with_capacity_and_default_hasher(0)),
                };
                self.set(r, v);
                out.push_str("unit");
            }
            "withcap" => {
                let (k, r, c) = (kind_of(tok(t, 1)), num::<usize>(tok(t, 2)), num::<usize>(tok(t, 3)));
                self.ctor = self.ctor.wrapping_add(1);
                let v = match (k, self.ctor % 2) {
                    (Kind::Pq, 0) => Reg::Pq(PQ::with_capacity_and_hasher(c, H::default())),
                    (Kind::Pq, _) => Reg::Pq(PQ::with_capacity_and_default_hasher(c)),
                    (Kind::Dpq, 0) => Reg::Dpq(DPQ::with_capacity_and_hasher(c, H::default())),
                    (Kind::Dpq, _) => Reg::Dpq(DPQ::with_capacity_and_default_hasher(c)),
                };
                self.set(r, v);
                out.push_str("unit");
            }
            "fromvec" => {
                let (k, r) = (kind_of(tok(t, 1)), num::<usize>(tok(t, 2)));
                let l = triples(&t[3..]);
                let v = match k {
                    Kind::Pq => Reg::Pq(PQ::from(l)),
                    Kind::Dpq => Reg::Dpq(DPQ::from(l)),
                };
                self.set(r, v);
                out.push_str("unit");
            }
            "fromiter" => {
                let (k, r) = (kind_of(tok(t, 1)), num::<usize>(tok(t, 2)));
                let (lo, hi) = hint(tok(t, 3), tok(t, 4));
                let l = triples(&t[5..]);
                let it = HintIter::new(l, lo, hi);
                let v = match k {
                    Kind::Pq => Reg::Pq(it.collect::<PQ<H>>()),
                    Kind::Dpq => Reg::Dpq(it.collect::<DPQ<H>>()),
                };
                self.set(r, v);
                out.push_str("unit");
            }
            "deser" => {
                let (k, r) = (kind_of(tok(t, 1)), num::<usize>(tok(t, 2)));
                let l = triples(&t[3..]);
                let mut js = String::from("[");
                for (n, (i, p)) in l.iter().enumerate() {
                    if n > 0 {
                        js.push(',');
                    }
                    js.push_str("[{\"key\":");
                    p_i64(&mut js, i.key);
                    js.push_str(",\"payload\":");
                    p_i64(&mut js, i.payload);
                    js.push_str("},[");
                    p_i64(&mut js, p.0);
                    js.push(',');
                    p_i64(&mut js, p.1);
                    js.push_str("]]");
                }
                js.push(']');
                return self.from_json(k, r, &js, out);
            }
            "serde" => {
                let (s, k, d) = (num::<usize>(tok(t, 1)), kind_of(tok(t, 2)), num::<usize>(tok(t, 3)));
                let js = match self.regs.get(s) {
                    Some(Reg::Pq(q)) => serde_json::to_string(q),
                    Some(Reg::Dpq(q)) => serde_json::to_string(q),
                    _ => invalid!(out),
                };
                let js = match js {
                    Ok(js) => js,
                    Err(_) => return Res::FaultPanic,
                };
                return self.from_json(k, d, &js, out);
            }
            // ---- insertion / priority changes ---------------------------
            "push" | "pushinc" | "pushdec" => {
                let r: usize = num(tok(t, 1));
                let i = It { key: num(tok(t, 2)), payload: num(tok(t, 3)) };
                let p = prio_of(tok(t, 4));
                let old = on_q!(self.regs.get_mut(r), out, q => match t[0] {
                    "push" => q.push(i, p),
                    "pushinc" => q.push_increase(i, p),
                    _ => q.push_decrease(i, p),
                });
                p_optp(out, old.as_ref());
            }
            "chg" => {
                let r: usize = num(tok(t, 1));
                let k = lookup(num(tok(t, 2)));
                let p = prio_of(tok(t, 3));
                let old = on_q!(self.regs.get_mut(r), out, q => q.change_priority(&k, p));
                p_optp(out, old.as_ref());
            }
            "chgby" => {
                let r: usize = num(tok(t, 1));
                let k = lookup(num(tok(t, 2)));
                let p = prio_of(tok(t, 3));
                let b = on_q!(self.regs.get_mut(r), out, q => q.change_priority_by(&k, |x| {
                    fuse_tick();
                    x.0 = p.0;
                    x.1 = p.1;
                }));
                p_bool(out, b);
            }
            "chgadd" => {
                let r: usize = num(tok(t, 1));
                let k = lookup(num(tok(t, 2)));
                let d: i64 = num(tok(t, 3));
                let b = on_q!(self.regs.get_mut(r), out, q => q.change_priority_by(&k, |x| {
                    fuse_tick();
                    x.0 = x.0.wrapping_add(d);
                }));
                p_bool(out, b);
            }
            "remove" => {
                let r: usize = num(tok(t, 1));
                let k = lookup(num(tok(t, 2)));
                let e = on_q!(self.regs.get_mut(r), out, q => q.remove(&k));
                p_opte(out, e.as_ref().map(|(i, p)| (i, p)));
            }
            // ---- the ends -----------------------------------------------
            "peek" => {
                let (r, s) = (num::<usize>(tok(t, 1)), side_of(tok(t, 2)));
                let e = match (self.regs.get(r), s) {
                    (Some(Reg::Pq(q)), Side::Max) => q.peek(),
                    (Some(Reg::Dpq(q)), Side::Min) => q.peek_min(),
                    (Some(Reg::Dpq(q)), Side::Max) => q.peek_max(),
                    _ => invalid!(out),
                };
                p_opte(out, e);
            }
            "peekmut" => {
                let (r, s) = (num::<usize>(tok(t, 1)), side_of(tok(t, 2)));
                let pl: i64 = num(tok(t, 3));
                let e = match (self.regs.get_mut(r), s) {
                    (Some(Reg::Pq(q)), Side::Max) => q.peek_mut(),
                    (Some(Reg::Dpq(q)), Side::Min) => q.peek_min_mut(),
                    (Some(Reg::Dpq(q)), Side::Max) => q.peek_max_mut(),
                    _ => invalid!(out),
                };
                let e = e.map(|(i, p)| {
                    i.payload = pl;
                    (&*i, p)
                });
                p_opte(out, e);
            }
            "pop" => {
                let (r, s) = (num::<usize>(tok(t, 1)), side_of(tok(t, 2)));
                let e = match (self.regs.get_mut(r), s) {
                    (Some(Reg::Pq(q)), Side::Max) => q.pop(),
                    (Some(Reg::Dpq(q)), Side::Min) => q.pop_min(),
                    (Some(Reg::Dpq(q)), Side::Max) => q.pop_max(),
                    _ => invalid!(out),
                };
                p_opte(out, e.as_ref().map(|(i, p)| (i, p)));
            }
            "popif" => {
                let (r, s) = (num::<usize>(tok(t, 1)), side_of(tok(t, 2)));
                let (w, pl, b) = (opt_prio(tok(t, 3)), opt_i64(tok(t, 4)), flag(tok(t, 5)));
                let f = |i: &mut It, p: &mut Pr| {
                    fuse_tick();
                    if let Some(w) = w {
                        p.0 = w.0;
                        p.1 = w.1;
                    }
                    if let Some(pl) = pl {
                        i.payload = pl;
                    }
                    b
                };
                let e = match (self.regs.get_mut(r), s) {
                    (Some(Reg::Pq(q)), Side::Max) => q.pop_if(f),
                    (Some(Reg::Dpq(q)), Side::Min) => q.pop_min_if(f),
                    (Some(Reg::Dpq(q)), Side::Max) => q.pop_max_if(f),
                    _ => invalid!(out),
                };
                p_opte(out, e.as_ref().map(|(i, p)| (i, p)));
            }
            // ---- lookups ------------------------------------------------
            "get" => {
                let r: usize = num(tok(t, 1));
                let k = lookup(num(tok(t, 2)));
                let e = on_q!(self.regs.get(r), out, q => q.get(&k));
                p_opte(out, e);
            }
            "getprio" => {
                let r: usize = num(tok(t, 1));
                let k = lookup(num(tok(t, 2)));
                let e = on_q!(self.regs.get(r), out, q => q.get_priority(&k));
                p_optp(out, e);
            }
            "getmut" => {
                let r: usize = num(tok(t, 1));
                let k = lookup(num(tok(t, 2)));
                let pl: i64 = num(tok(t, 3));
                let e = on_q!(self.regs.get_mut(r), out, q => q.get_mut(&k));
                let e = e.map(|(i, p)| {
                    i.payload = pl;
                    (&*i, p)
                });
                p_opte(out, e);
            }
            "len" => {
                let r: usize = num(tok(t, 1));
                let n = on_q!(self.regs.get(r), out, q => q.len());
                out.push_str("nat ");
                p_u64(out, n as u64);
            }
            "isempty" => {
                let r: usize = num(tok(t, 1));
                let b = on_q!(self.regs.get(r), out, q => q.is_empty());
                p_bool(out, b);
            }
            // ---- retain -------------------------------------------------
            "retain" => {
                let r: usize = num(tok(t, 1));
                let d = flag(tok(t, 2));
                let n: usize = num(tok(t, 3));
                if t.len() < 4 + 2 * n {
                    bad("retain");
                }
                let tbl: Vec<(i64, bool)> =
                    (0..n).map(|i| (num(t[4 + 2 * i]), flag(t[5 + 2 * i]))).collect();
                let f = |i: &It, _: &Pr| {
                    fuse_tick();
                    match tbl.iter().find(|e| e.0 == i.key) {
                        Some(e) => e.1,
                        None => d,
                    }
                };
                on_q!(self.regs.get_mut(r), out, q => q.retain(f));
                out.push_str("unit");
            }
            "retainmut" => {
                let r: usize = num(tok(t, 1));
                let d = flag(tok(t, 2));
                let n: usize = num(tok(t, 3));
                if t.len() < 4 + 3 * n {
                    bad("retainmut");
                }
                let tbl: Vec<(i64, Option<(i64, i64)>, bool)> = (0..n)
                    .map(|i| (num(t[4 + 3 * i]), opt_prio(t[5 + 3 * i]), flag(t[6 + 3 * i])))
                    .collect();
                let f = |i: &mut It, p: &mut Pr| {
                    fuse_tick();
                    match tbl.iter().find(|e| e.0 == i.key) {
                        Some(e) => {
                            if let Some(w) = e.1 {
                                p.0 = w.0;
                                p.1 = w.1;
                            }
                            e.2
                        }
                        None => d,
                    }
                };
                on_q!(self.regs.get_mut(r), out, q => q.retain_mut(f));
                out.push_str("unit");
            }
            // ---- iterators ----------------------------------------------
            "itermut" | "iter" | "intoiter" | "drain" | "sortediter" => {
                let r: usize = num(tok(t, 1));
                let sc = parse_script(&t[2..]);
                let odd = self.odd;
                let mut bad_len = false;
                let reg = match self.regs.get_mut(r) {
                    None | Some(Reg::Empty) => invalid!(out),
                    Some(reg) => reg,
                };
                let full = match (t[0], &*reg) {
                    ("itermut", Reg::Pq(_)) | ("sortediter", Reg::Pq(_)) => false,
                    _ => true,
                };
                if !script_ok(full, &sc) {
                    invalid!(out);
                }
                out.push_str("script [");
                let b = &mut bad_len;
                match (t[0], reg) {
                    ("itermut", Reg::Pq(q)) => {
                        let ctx = ctx_of(q.iter());
                        let it = if odd { (&mut *q).into_iter() } else { q.iter_mut() };
                        script_fwd(it, &sc, &ctx, out, b);
                    }
                    ("itermut", Reg::Dpq(q)) => {
                        let ctx = ctx_of(q.iter());
                        let it = if odd { (&mut *q).into_iter() } else { q.iter_mut() };
                        script_full(it, &sc, &ctx, out, b);
                    }
                    ("iter", Reg::Pq(q)) => {
                        let it = if odd { (&*q).into_iter() } else { q.iter() };
                        script_full(it, &sc, &NO_CTX, out, b);
                    }
                    ("iter", Reg::Dpq(q)) => {
                        let it = if odd { (&*q).into_iter() } else { q.iter() };
                        script_full(it, &sc, &NO_CTX, out, b);
                    }
                    ("intoiter", Reg::Pq(q)) => script_full(q.clone().into_iter(), &sc, &NO_CTX, out, b),
                    ("intoiter", Reg::Dpq(q)) => script_full(q.clone().into_iter(), &sc, &NO_CTX, out, b),
                    ("drain", Reg::Pq(q)) => script_full(q.drain(), &sc, &NO_CTX, out, b),
                    ("drain", Reg::Dpq(q)) => script_full(q.drain(), &sc, &NO_CTX, out, b),
                    ("sortediter", Reg::Pq(q)) => {
                        script_fwd(q.clone().into_sorted_iter(), &sc, &NO_CTX, out, b)
                    }
                    ("sortediter", Reg::Dpq(q)) => {
                        script_full(q.clone().into_sorted_iter(), &sc, &NO_CTX, out, b)
                    }
                    _ => unreachable!(),
                }
                out.push(']');
                if bad_len {
                    return Res::FaultPanic;
                }
            }
            // the references iter_mut hands out outlive the iterator: a priority
            // written after the iterator was consumed and dropped (heap rebuilt)
            "latewrite" => {
                let r: usize = num(tok(t, 1));
                let w = opt_prio(tok(t, 2));
                on_q!(self.regs.get_mut(r), out, q => {
                    let mut v: Vec<(&mut It, &mut Pr)> = q.iter_mut().collect();
                    if let (Some(e), Some(w)) = (v.first_mut(), w) {
                        e.1 .0 = w.0;
                        e.1 .1 = w.1;
                    }
                    drop(v);
                });
                out.push_str("unit");
            }
            // ---- whole-queue operations ---------------------------------
            "clear" => {
                let r: usize = num(tok(t, 1));
                // dropping the stored items and priorities is user code (Drop::drop)
                on_q!(self.regs.get_mut(r), out, q => {
                    drop_callbacks(true);
                    q.clear();
                    drop_callbacks(false);
                });
                out.push_str("unit");
            }
            "sortedvec" => {
                let (r, s) = (num::<usize>(tok(t, 1)), side_of(tok(t, 2)));
                let v = match (self.regs.get(r), s) {
                    (Some(Reg::Pq(q)), Side::Max) => q.clone().into_sorted_vec(),
                    (Some(Reg::Dpq(q)), Side::Min) => q.clone().into_ascending_sorted_vec(),
                    (Some(Reg::Dpq(q)), Side::Max) => q.clone().into_descending_sorted_vec(),
                    _ => invalid!(out),
                };
                self.p_items(r, &v, out);
            }
            "intovec" => {
                let r: usize = num(tok(t, 1));
                let v = on_q!(self.regs.get(r), out, q => q.clone().into_vec());
                self.p_items(r, &v, out);
            }
            "extend" => {
                let r: usize = num(tok(t, 1));
                let (lo, hi) = hint(tok(t, 2), tok(t, 3));
                let l = triples(&t[4..]);
                let it = HintIter::new(l, lo, hi);
                on_q!(self.regs.get_mut(r), out, q => q.extend(it));
                out.push_str("unit");
            }
            "append" => {
                let (d, s) = (num::<usize>(tok(t, 1)), num::<usize>(tok(t, 2)));
                if d == s || d >= self.regs.len() || s >= self.regs.len() {
                    invalid!(out);
                }
                match two_mut(&mut self.regs, d, s) {
                    (Reg::Pq(a), Reg::Pq(b)) => a.append(b),
                    (Reg::Dpq(a), Reg::Dpq(b)) => a.append(b),
                    _ => invalid!(out),
                }
                out.push_str("unit");
            }
            "convert" => {
                let r: usize = num(tok(t, 1));
                let slot = match self.regs.get_mut(r) {
                    None | Some(Reg::Empty) => invalid!(out),
                    Some(slot) => slot,
                };
                // the queue is moved into the conversion: if that unwinds the
                // register stays empty
                let v = match std::mem::replace(slot, Reg::Empty) {
                    Reg::Pq(q) => Reg::Dpq(DPQ::from(q)),
                    Reg::Dpq(q) => Reg::Pq(PQ::from(q)),
                    Reg::Empty => unreachable!(),
                };
                self.regs[r] = v;
                out.push_str("unit");
            }
            "clone" => {
                let (s, d) = (num::<usize>(tok(t, 1)), num::<usize>(tok(t, 2)));
                if !matches!(self.regs.get(s), Some(Reg::Pq(_)) | Some(Reg::Dpq(_))) {
                    invalid!(out);
                }
                // I::clone / P::clone are user callbacks here (reset by the caller
                // of do_op, also when the fuse unwinds out of the clone)
                clone_callbacks(true);
                let v = match self.regs.get(s) {
                    Some(Reg::Pq(q)) => Reg::Pq(q.clone()),
                    Some(Reg::Dpq(q)) => Reg::Dpq(q.clone()),
                    _ => unreachable!(),
                };
                clone_callbacks(false);
                self.set(d, v);
                out.push_str("unit");
            }
            "clonefrom" => {
                let (s, d) = (num::<usize>(tok(t, 1)), num::<usize>(tok(t, 2)));
                if s == d || s >= self.regs.len() || d >= self.regs.len() {
                    invalid!(out);
                }
                let (src, dst) = two_mut(&mut self.regs, s, d);
                match (&*src, dst) {
                    (Reg::Pq(a), Reg::Pq(b)) => {
                        clone_callbacks(true);
                        b.clone_from(a);
                        clone_callbacks(false);
                    }
                    (Reg::Dpq(a), Reg::Dpq(b)) => {
                        clone_callbacks(true);
                        b.clone_from(a);
                        clone_callbacks(false);
                    }
                    _ => invalid!(out),
                }
                out.push_str("unit");
            }
            "debug" => {
                // fmt::Debug is public API too: format the queue, report how many
                // entries were printed (one `Index(..)` key per heap slot)
                let r: usize = num(tok(t, 1));
                // (plain and alternate form: `{:#?}` is what `dbg!` prints)
                let txt = match self.regs.get(r) {
                    Some(Reg::Pq(q)) => {
                        let _ = format!("{:#?}", q);
                        format!("{:?}", q)
                    }
                    Some(Reg::Dpq(q)) => {
                        let _ = format!("{:#?}", q);
                        format!("{:?}", q)
                    }
                    _ => invalid!(out),
                };
                out.push_str("nat ");
                p_u64(out, txt.matches("Index(").count() as u64);
            }
            "eq" => {
                let (a, b) = (num::<usize>(tok(t, 1)), num::<usize>(tok(t, 2)));
                // `!=` may be overridden separately from `==`: it must be its negation
                let (r, ne) = match (self.regs.get(a), self.regs.get(b)) {
                    (Some(Reg::Pq(x)), Some(Reg::Pq(y))) => (x == y, x != y),
                    (Some(Reg::Dpq(x)), Some(Reg::Dpq(y))) => (x == y, x != y),
                    _ => invalid!(out),
                };
                p_bool(out, r);
                if ne == r {
                    out.push_str(if ne { " and != is true too" } else { " and != is false too" });
                }
            }
            // ---- capacity -----------------------------------------------
            "reserve" | "reservex" => {
                let (r, n) = (num::<usize>(tok(t, 1)), num::<usize>(tok(t, 2)));
                let exact = t[0] == "reservex";
                let ok = on_q!(self.regs.get_mut(r), out, q => {
                    if exact { q.reserve_exact(n) } else { q.reserve(n) }
                    q.len().checked_add(n).map_or(false, |need| q.capacity() >= need)
                });
                out.push_str(if ok { "unit" } else { "capfail" });
            }
            "tryreserve" | "tryreservex" => {
                let (r, n) = (num::<usize>(tok(t, 1)), num::<usize>(tok(t, 2)));
                let exact = t[0] == "tryreservex";
                let (res, ok) = on_q!(self.regs.get_mut(r), out, q => {
                    let res = if exact { q.try_reserve_exact(n).is_ok() } else { q.try_reserve(n).is_ok() };
                    (res, q.len().checked_add(n).map_or(false, |need| q.capacity() >= need))
                });
                if res && !ok {
                    out.push_str("capfail");
                } else {
                    p_bool(out, res);
                }
            }
            "shrink" => {
                let r: usize = num(tok(t, 1));
                let ok = on_q!(self.regs.get_mut(r), out, q => {
                    q.shrink_to_fit();
                    q.capacity() >= q.len()
                });
                out.push_str(if ok { "unit" } else { "capfail" });
            }
            "capacity" => {
                let r: usize = num(tok(t, 1));
                let ok = on_q!(self.regs.get(r), out, q => q.capacity() >= q.len());
                p_bool(out, ok);
            }
            // a nested fuse is not an operation
            "fuse" => invalid!(out),
            other => bad(&format!("unknown op `{other}`")),
        }
        Res::Done
    }

    fn from_json(&mut self, k: Kind, r: usize, js: &str, out: &mut String) -> Res {
        let v = match k {
            Kind::Pq => serde_json::from_str::<PQ<H>>(js).map(Reg::Pq),
            Kind::Dpq => serde_json::from_str::<DPQ<H>>(js).map(Reg::Dpq),
        };
        // second path: through serde_json::Value, a deserializer that reports an
        // exact size_hint (the text one reports none): the with_capacity branch
        // of visit_seq.  Both paths must build the same queue.
        let counted = cmps_get();   // the second path is the harness's own: not counted
        let same = match (&v, serde_json::from_str::<serde_json::Value>(js)) {
            (Ok(Reg::Pq(a)), Ok(val)) => match serde_json::from_value::<PQ<H>>(val) {
                Ok(b) => *a == b && a.verif_snapshot() == b.verif_snapshot(),
                Err(_) => false,
            },
            (Ok(Reg::Dpq(a)), Ok(val)) => match serde_json::from_value::<DPQ<H>>(val) {
                Ok(b) => *a == b && a.verif_snapshot() == b.verif_snapshot(),
                Err(_) => false,
            },
            _ => true,
        };
        cmps_set(counted);
        if !same {
            return Res::FaultPanic;
        }
        match v {
            Ok(v) => {
                self.set(r, v);
                out.push_str("unit");
                Res::Done
            }
            Err(_) => Res::FaultPanic,
        }
    }

    /// `list [k:pl:p,...]` for items returned without their priority: the
    /// priority is looked up in the (unchanged) queue of register `r`; the
    /// lookup uses Hash/Eq on items only, so it is neither counted nor fused
    fn p_items(&self, r: usize, v: &[It], out: &mut String) {
        out.push_str("list [");
        for (n, i) in v.iter().enumerate() {
            if n > 0 {
                out.push(',');
            }
            let p = match &self.regs[r] {
                Reg::Pq(q) => q.get_priority(i),
                Reg::Dpq(q) => q.get_priority(i),
                Reg::Empty => None,
            };
            p_i64(out, i.key);
            out.push(':');
            p_i64(out, i.payload);
            out.push(':');
            match p {
                Some(p) => p_prio(out, p),
                None => out.push('?'),
            }
        }
        out.push(']');
    }
}

// ---------------------------------------------------------------------------
// child: runs histories from a byte offset of the history file, appends to the
// trace file, reports on stdout `D <offset>` whenever everything before
// <offset> is complete in the trace file
// ---------------------------------------------------------------------------

enum AnyEx {
    M0(Ex<H0>),
    M1(Ex<H1>),
    M2(Ex<H2>),
    M3(Ex<H3>),
    M4(Ex<H4>),
}
impl AnyEx {
    fn new(mode: u32, nregs: usize, odd: bool) -> AnyEx {
        match mode {
            0 => AnyEx::M0(Ex::new(nregs, odd)),
            1 => AnyEx::M1(Ex::new(nregs, odd)),
            2 => AnyEx::M2(Ex::new(nregs, odd)),
            3 => AnyEx::M3(Ex::new(nregs, odd)),
            4 => AnyEx::M4(Ex::new(nregs, odd)),
            m => bad(&format!("hashmode {m}")),
        }
    }
    fn step(&mut self, toks: &[&str], line: &mut String) -> bool {
        match self {
            AnyEx::M0(e) => e.step(toks, line),
            AnyEx::M1(e) => e.step(toks, line),
            AnyEx::M2(e) => e.step(toks, line),
            AnyEx::M3(e) => e.step(toks, line),
            AnyEx::M4(e) => e.step(toks, line),
        }
    }
}

const FLUSH_AT: usize = 1 << 16;

fn io_fail(what: &str, e: std::io::Error) -> ! {
    eprintln!("pqharness: {what}: {e}");
    std::process::exit(3)
}

/// `slow`: the first history is run with a flush after every line (so that
/// the parent can tell which op killed the process); afterwards, and always
/// when `slow` is false, output is flushed in blocks of whole histories.
pub fn exec_child(hist: &str, trace: &str, off: u64, slow: bool) {
    if std::env::var_os("PQH_DEBUG").is_some() {
        // say where the crate panicked (the fuse itself stays silent)
        std::panic::set_hook(Box::new(|info| {
            if !info.payload().is::<FusePanic>() {
                eprintln!("pqharness: {info}");
            }
        }));
    } else {
        std::panic::set_hook(Box::new(|_| {}));
    }
    let mut f = std::fs::File::open(hist).unwrap_or_else(|e| io_fail(hist, e));
    f.seek(SeekFrom::Start(off)).unwrap_or_else(|e| io_fail(hist, e));
    let mut rd = BufReader::with_capacity(1 << 20, f);
    let mut tr = std::fs::OpenOptions::new()
        .append(true)
        .create(true)
        .open(trace)
        .unwrap_or_else(|e| io_fail(trace, e));
    let stdout = std::io::stdout();

    let mut pos = off; // offset of the line being read
    let mut line = String::new();
    let mut buf = String::with_capacity(FLUSH_AT * 2);
    let mut ex: Option<AnyEx> = None;
    let mut dead = false;
    let mut slow = slow;
    let mut nhist = 0u64;

    let mut flush = |buf: &mut String| {
        if !buf.is_empty() {
            tr.write_all(buf.as_bytes()).unwrap_or_else(|e| io_fail(trace, e));
            buf.clear();
        }
    };
    let report = |pos: u64| {
        let mut so = stdout.lock();
        let _ = writeln!(so, "D {pos}");
        let _ = so.flush();
    };

    loop {
        line.clear();
        let n = rd.read_line(&mut line).unwrap_or_else(|e| io_fail(hist, e));
        if n == 0 {
            break;
        }
        let here = pos;
        pos += n as u64;
        let toks: Vec<&str> = line.split_ascii_whitespace().collect();
        if toks.is_empty() {
            continue;
        }
        if toks[0] == "H" {
            // everything before this line is complete
            if nhist > 0 && (slow || buf.len() >= FLUSH_AT) {
                flush(&mut buf);
                report(here);
                slow = false;
            }
            nhist += 1;
            let id = tok(&toks, 1);
            let mode: u32 = toks.get(2).map_or(0, |s| num(s));
            let nregs: usize = toks.get(3).map_or(4, |s| num(s));
            let odd = id.as_bytes().last().map_or(false, |c| c.wrapping_sub(b'0') % 2 == 1);
            ex = Some(AnyEx::new(mode, nregs, odd));
            dead = false;
            buf.push_str("H ");
            buf.push_str(id);
            buf.push('\n');
            if slow {
                flush(&mut buf);
            }
        } else {
            let Some(e) = ex.as_mut() else { bad("operation before the first H line") };
            if !dead {
                dead = e.step(&toks, &mut buf);
                if slow {
                    flush(&mut buf);
                }
            }
        }
    }
    flush(&mut buf);
    report(pos);
}

// ---------------------------------------------------------------------------
// parent: supervises children; an abort / signal / hang of the child becomes a
// `fault` line for the op that was executing
// ---------------------------------------------------------------------------

/// offset of the first `H` line after the one at `off`
fn next_history(hist: &str, off: u64) -> u64 {
    let mut f = std::fs::File::open(hist).unwrap_or_else(|e| io_fail(hist, e));
    f.seek(SeekFrom::Start(off)).unwrap_or_else(|e| io_fail(hist, e));
    let mut rd = BufReader::with_capacity(1 << 16, f);
    let mut pos = off;
    let mut line = String::new();
    let mut first = true;
    loop {
        line.clear();
        let n = rd.read_line(&mut line).unwrap_or_else(|e| io_fail(hist, e));
        if n == 0 {
            return pos;
        }
        if !first && line.starts_with("H ") {
            return pos;
        }
        if line.starts_with("H ") {
            first = false;
        }
        pos += n as u64;
    }
}

pub fn exec_parent(hist: &str, trace: &str, timeout_s: u64) -> i32 {
    use std::process::{Command, Stdio};
    use std::sync::mpsc;
    use std::time::Duration;

    std::fs::File::create(trace).unwrap_or_else(|e| io_fail(trace, e));
    let exe = std::env::current_exe().unwrap_or_else(|e| io_fail("current_exe", e));
    let mut off = 0u64;
    let mut slow = false;
    let mut faults = 0u64;
    let debug = std::env::var_os("PQH_DEBUG").is_some();
    loop {
        let total = std::fs::metadata(hist).map(|m| m.len()).unwrap_or_else(|e| io_fail(hist, e));
        if off >= total {
            break;
        }
        let mut child = Command::new(&exe)
            .arg("exec-child")
            .arg(hist)
            .arg(trace)
            .arg(off.to_string())
            .arg(if slow { "1" } else { "0" })
            .stdin(Stdio::null())
            .stdout(Stdio::piped())
            .stderr(Stdio::piped())
            .spawn()
            .unwrap_or_else(|e| io_fail("spawn", e));
        let so = child.stdout.take().unwrap();
        // forward the child's stderr, minus the runtime's abort notice (an
        // abort is reported as `fault ub` in the trace)
        let se = child.stderr.take().unwrap();
        let errs = std::thread::spawn(move || {
            let rd = BufReader::new(se);
            for l in rd.lines().map_while(Result::ok) {
                if debug || !l.contains("non-unwinding panic") {
                    eprintln!("{l}");
                }
            }
        });
        let (tx, rx) = mpsc::channel::<u64>();
        let reader = std::thread::spawn(move || {
            let mut rd = BufReader::new(so);
            let mut l = String::new();
            loop {
                l.clear();
                match rd.read_line(&mut l) {
                    Ok(0) | Err(_) => break,
                    Ok(_) => {
                        if let Some(x) = l.strip_prefix("D ") {
                            if let Ok(v) = x.trim().parse::<u64>() {
                                if tx.send(v).is_err() {
                                    break;
                                }
                            }
                        }
                    }
                }
            }
        });
        let mut last = off;
        let mut hung = false;
        loop {
            match rx.recv_timeout(Duration::from_secs(timeout_s)) {
                Ok(v) => last = v,
                Err(mpsc::RecvTimeoutError::Disconnected) => break,
                Err(mpsc::RecvTimeoutError::Timeout) => {
                    hung = true;
                    let _ = child.kill();
                    break;
                }
            }
        }
        let status = child.wait().unwrap_or_else(|e| io_fail("wait", e));
        let _ = reader.join();
        let _ = errs.join();
        while let Ok(v) = rx.try_recv() {
            last = v;
        }
        if !hung {
            if status.success() {
                break;
            }
            if let Some(c) = status.code() {
                // the harness itself gave up (malformed history, I/O error)
                eprintln!("pqharness: child exited with code {c}");
                return c;
            }
        }
        // killed by a signal (abort, segfault, stack overflow) or hung
        if slow && last == off {
            // it died in the history that was run line by line: every line in
            // the trace file is a completed op, the next op is the culprit
            let mut tr = std::fs::OpenOptions::new()
                .append(true)
                .open(trace)
                .unwrap_or_else(|e| io_fail(trace, e));
            // a torn last line cannot occur (one write per line), but make
            // sure the fault starts on a fresh line
            let mut all = std::fs::File::open(trace).unwrap_or_else(|e| io_fail(trace, e));
            let len = all.metadata().map(|m| m.len()).unwrap_or(0);
            if len > 0 {
                let _ = all.seek(SeekFrom::Start(len - 1));
                let mut b = [0u8; 1];
                if all.read_exact(&mut b).is_ok() && b[0] != b'\n' {
                    let _ = tr.write_all(b"\n");
                }
            }
            let msg: &[u8] = if hung { b"fault fuel ; t=0\n" } else { b"fault ub ; t=0\n" };
            tr.write_all(msg).unwrap_or_else(|e| io_fail(trace, e));
            faults += 1;
            off = next_history(hist, off);
            slow = false;
        } else {
            off = last;
            slow = true;
        }
    }
    if faults > 0 {
        eprintln!("pqharness: {faults} histories ended by an abort/signal/hang of the child");
    }
    0
}
