//! Degenerate item / priority types: zero-sized types (one possible value),
//! single-element and empty queues, through every constructor and through
//! both serde paths.  The model's items and priorities are integers, so this
//! corner of the type space is checked directly on the implementation.

use priority_queue::{DoublePriorityQueue, PriorityQueue};

macro_rules! battery {
    ($Q:ident, $I:ty, $P:ty, $mk:expr, $log:expr) => {{
        let mk: fn(usize) -> ($I, $P) = $mk;
        let log: &mut Vec<String> = $log;
        (move || -> Result<(), String> {
        log.push(format!("{}<{}, {}>", stringify!($Q), stringify!($I), stringify!($P)));
        let mut q: $Q<$I, $P> = $Q::new();
        log.push("push x3".into());
        for k in 0..3 {
            let (i, p) = mk(k);
            q.push(i, p);
        }
        let distinct = {
            let mut v: Vec<$I> = (0..3).map(|k| mk(k).0).collect();
            v.sort();
            v.dedup();
            v.len()
        };
        if q.len() != distinct {
            return Err(format!("len {} after pushing {} distinct items", q.len(), distinct));
        }
        log.push("from vec / collect / extend".into());
        let v: Vec<($I, $P)> = (0..5).map(mk).collect();
        let a: $Q<$I, $P> = $Q::from(v.clone());
        let b: $Q<$I, $P> = v.clone().into_iter().collect();
        let mut c: $Q<$I, $P> = $Q::with_capacity(0);
        c.extend(v.clone());
        let n = {
            let mut ks: Vec<$I> = v.iter().map(|x| x.0.clone()).collect();
            ks.sort();
            ks.dedup();
            ks.len()
        };
        if a.len() != n || b.len() != n || c.len() != n {
            return Err(format!("bulk constructors: lens {} {} {} expected {}", a.len(), b.len(), c.len(), n));
        }
        log.push("serde text".into());
        let js = serde_json::to_string(&a).map_err(|e| e.to_string())?;
        let d: $Q<$I, $P> = serde_json::from_str(&js).map_err(|e| e.to_string())?;
        log.push("serde value (exact size_hint)".into());
        let val = serde_json::to_value(&a).map_err(|e| e.to_string())?;
        let e: $Q<$I, $P> = serde_json::from_value(val).map_err(|e| e.to_string())?;
        log.push("serde value of an empty queue".into());
        let empty: $Q<$I, $P> = $Q::new();
        let val = serde_json::to_value(&empty).map_err(|e| e.to_string())?;
        let f: $Q<$I, $P> = serde_json::from_value(val).map_err(|e| e.to_string())?;
        if d.len() != n || e.len() != n || !f.is_empty() || d != a || e != a {
            return Err("serde round trip differs".into());
        }
        log.push("clone / eq / iter / drain / clear / retain / reserve".into());
        let mut g = a.clone();
        if g != a || g.iter().count() != n || g.clone().into_iter().count() != n {
            return Err("clone / iteration".into());
        }
        g.reserve(3);
        g.shrink_to_fit();
        let _ = g.try_reserve_exact(2);
        g.retain(|_, _| true);
        if g.len() != n || g.drain().count() != n || !g.is_empty() {
            return Err("retain / drain".into());
        }
        g.extend(v.clone());
        g.clear();
        if !g.is_empty() || format!("{:?}", g).is_empty() {
            return Err("clear / debug".into());
        }
        log.push("pops".into());
        let mut cnt = 0;
        while q.len() > 0 {
            if battery!(@pop $Q, q).is_none() {
                return Err("pop returned None on a non-empty queue".into());
            }
            cnt += 1;
        }
        if cnt != distinct {
            return Err("number of pops".into());
        }
        Ok(())
        })()
    }};
    (@pop PriorityQueue, $q:ident) => { $q.pop() };
    (@pop DoublePriorityQueue, $q:ident) => { if $q.len() % 2 == 0 { $q.pop_min() } else { $q.pop_max() } };
}

/// C17 on degenerate types: the reservation post-conditions, and a request that
/// cannot be satisfied (usize::MAX more elements: every entry costs at least
/// its hash and two table slots, whatever the item and priority types are)
macro_rules! capbattery {
    ($Q:ident, $I:ty, $P:ty, $mk:expr, $log:expr) => {{
        let mk: fn(usize) -> ($I, $P) = $mk;
        let log: &mut Vec<String> = $log;
        (move || -> Result<(), String> {
        log.push(format!("{}<{}, {}>", stringify!($Q), stringify!($I), stringify!($P)));
        for fill in [0usize, 1, 3] {
            let mut q: $Q<$I, $P> = $Q::new();
            for k in 0..fill {
                let (i, p) = mk(k);
                q.push(i, p);
            }
            let before: Vec<($I, $P)> = q.clone().into_vec().into_iter().map(|i| { let p = q.get_priority(&i).unwrap().clone(); (i, p) }).collect();
            for n in [1usize, 5, 100] {
                log.push(format!("{fill} pushes, reserve({n})"));
                q.reserve(n);
                if q.capacity() < q.len() + n {
                    return Err(format!("after reserve({n}): capacity() = {} < len() + {n} = {}", q.capacity(), q.len() + n));
                }
                let mut r: $Q<$I, $P> = q.clone();
                r.shrink_to_fit();
                log.push(format!("{fill} pushes, reserve_exact({n}) after shrink_to_fit"));
                if r.capacity() < r.len() {
                    return Err(format!("after shrink_to_fit: capacity() = {} < len() = {}", r.capacity(), r.len()));
                }
                r.reserve_exact(n);
                if r.capacity() < r.len() + n {
                    return Err(format!("after reserve_exact({n}): capacity() = {} < len() + {n}", r.capacity()));
                }
                let mut t: $Q<$I, $P> = $Q::new();
                for k in 0..fill {
                    let (i, p) = mk(k);
                    t.push(i, p);
                }
                log.push(format!("{fill} pushes, try_reserve({n}) / try_reserve_exact({n})"));
                if t.try_reserve(n).is_ok() && t.capacity() < t.len() + n {
                    return Err(format!("try_reserve({n}) succeeded but capacity() = {} < len() + {n}", t.capacity()));
                }
                t.shrink_to_fit();
                if t.try_reserve_exact(n).is_ok() && t.capacity() < t.len() + n {
                    return Err(format!("try_reserve_exact({n}) succeeded but capacity() = {} < len() + {n}", t.capacity()));
                }
            }
            log.push(format!("{fill} pushes, try_reserve(usize::MAX) / try_reserve_exact(usize::MAX)"));
            if q.try_reserve(usize::MAX).is_ok() || q.try_reserve_exact(usize::MAX).is_ok() {
                return Err("a reservation of usize::MAX more elements reported success".into());
            }
            let after: Vec<($I, $P)> = q.clone().into_vec().into_iter().map(|i| { let p = q.get_priority(&i).unwrap().clone(); (i, p) }).collect();
            if before != after || q.len() != before.len() {
                return Err("capacity operations changed the contents".into());
            }
        }
        Ok(())
        })()
    }};
}

fn caps(log: &mut Vec<String>) -> Result<(), String> {
    capbattery!(PriorityQueue, (), (), |_| ((), ()), log)?;
    capbattery!(DoublePriorityQueue, (), (), |_| ((), ()), log)?;
    capbattery!(PriorityQueue, u8, (), |k| (k as u8, ()), log)?;
    capbattery!(DoublePriorityQueue, (), u8, |k| ((), k as u8), log)?;
    capbattery!(PriorityQueue, u64, i64, |k| (k as u64, k as i64), log)?;
    capbattery!(DoublePriorityQueue, u64, i64, |k| (k as u64, k as i64), log)?;
    capbattery!(PriorityQueue, [u64; 32], u8, |k| ([k as u64; 32], k as u8), log)?;
    Ok(())
}

fn all(log: &mut Vec<String>) -> Result<(), String> {
    battery!(PriorityQueue, (), (), |_| ((), ()), log)?;
    battery!(DoublePriorityQueue, (), (), |_| ((), ()), log)?;
    battery!(PriorityQueue, u8, (), |k| (k as u8, ()), log)?;
    battery!(DoublePriorityQueue, u8, (), |k| (k as u8, ()), log)?;
    battery!(PriorityQueue, (), u8, |k| ((), k as u8), log)?;
    battery!(DoublePriorityQueue, (), u8, |k| ((), k as u8), log)?;
    battery!(PriorityQueue, u64, i64, |k| (k as u64, [i64::MIN, i64::MAX, 0, -1, 1][k % 5]), log)?;
    battery!(DoublePriorityQueue, u64, i64, |k| (k as u64, [i64::MIN, i64::MAX, 0, -1, 1][k % 5]), log)?;
    Ok(())
}

/// `pqharness zst [cap]`: prints `ok` or the failing step
pub fn main(args: &[String]) -> i32 {
    let mut log = vec![];
    let cap = args.first().map_or(false, |a| a == "cap");
    let r = std::panic::catch_unwind(std::panic::AssertUnwindSafe(|| if cap { caps(&mut log) } else { all(&mut log) }));
    let err = match r {
        Ok(Ok(())) => {
            println!("ok");
            return 0;
        }
        Ok(Err(e)) => e,
        Err(p) => match p.downcast_ref::<String>() {
            Some(s) => format!("panic: {s}"),
            None => match p.downcast_ref::<&str>() {
                Some(s) => format!("panic: {s}"),
                None => "panic".to_string(),
            },
        },
    };
    println!("FAIL: {err}");
    for l in &log {
        println!("  {l}");
    }
    1
}
