//! Degenerate item / priority types: zero-sized types (one possible value),
//! single-element and empty queues, through every constructor and through
//! both serde paths.  The model's items and priorities are integers, so this
//! corner of the type space is checked directly on the implementation.

use priority_queue::{DoublePriorityQueue, PriorityQueue};

macro_rules! battery {
    ($Q:ident, $I:ty, $P:ty, $mk:expr, $log:expr) => {{
        let mk: fn(usize) -> ($I, $P) = $mk;
        let log: &mut Vec<String> = $log;
        (move || -> Result<(), String> {
        log.push(format!("{}<{}, {}>", stringify!($Q), stringify!($I), stringify!($P)));
        let mut q: $Q<$I, $P> = $Q::new();
        log.push("push x3".into());
        for k in 0..3 {
            let (i, p) = mk(k);
            q.push(i, p);
        }
        let distinct = {
            let mut v: Vec<$I> = (0..3).map(|k| mk(k).0).collect();
            v.sort();
            v.dedup();
            v.len()
        };
        if q.len() != distinct {
            return Err(format!("len {} after pushing {} distinct items", q.len(), distinct));
        }
        log.push("from vec / collect / extend".into());
        let v: Vec<($I, $P)> = (0..5).map(mk).collect();
        let a: $Q<$I, $P> = $Q::from(v.clone());
        let b: $Q<$I, $P> = v.clone().into_iter().collect();
        let mut c: $Q<$I, $P> = $Q::with_capacity(0);
        c.extend(v.clone());
        let n = {
            let mut ks: Vec<$I> = v.iter().map(|x| x.0.clone()).collect();
            ks.sort();
            ks.dedup();
            ks.len()
        };
        if a.len() != n || b.len() != n || c.len() != n {
            return Err(format!("bulk constructors: lens {} {} {} expected {}", a.len(), b.len(), c.len(), n));
        }
        log.push("serde text".into());
        let js = serde_json::to_string(&a).map_err(|e| e.to_string())?;
        let d: $Q<$I, $P> = serde_json::from_str(&js).map_err(|e| e.to_string())?;
        log.push("serde value (exact size_hint)".into());
        let val = serde_json::to_value(&a).map_err(|e| e.to_string())?;
        let e: $Q<$I, $P> = serde_json::from_value(val).map_err(|e| e.to_string())?;
        log.push("serde value of an empty queue".into());
        let empty: $Q<$I, $P> = $Q::new();
        let val = serde_json::to_value(&empty).map_err(|e| e.to_string())?;
        let f: $Q<$I, $P> = serde_json::from_value(val).map_err(|e| e.to_string())?;
        if d.len() != n || e.len() != n || !f.is_empty() || d != a || e != a {
            return Err("serde round trip differs".into());
        }
        log.push("clone / eq / iter / drain / clear / retain / reserve".into());
        let mut g = a.clone();
        if g != a || g.iter().count() != n || g.clone().into_iter().count() != n {
            return Err("clone / iteration".into());
        }
        g.reserve(3);
        g.shrink_to_fit();
        let _ = g.try_reserve_exact(2);
        g.retain(|_, _| true);
        if g.len() != n || g.drain().count() != n || !g.is_empty() {
            return Err("retain / drain".into());
        }
        g.extend(v.clone());
        g.clear();
        if !g.is_empty() || format!("{:?}", g).is_empty() {
            return Err("clear / debug".into());
        }
        log.push("pops".into());
        let mut cnt = 0;
        while q.len() > 0 {
            if battery!(@pop $Q, q).is_none() {
                return Err("pop returned None on a non-empty queue".into());
            }
            cnt += 1;
        }
        if cnt != distinct {
            return Err("number of pops".into());
        }
        Ok(())
        })()
    }};
    (@pop PriorityQueue, $q:ident) => { $q.pop() };
    (@pop DoublePriorityQueue, $q:ident) => { if $q.len() % 2 == 0 { $q.pop_min() } else { $q.pop_max() } };
}

fn all(log: &mut Vec<String>) -> Result<(), String> {
    battery!(PriorityQueue, (), (), |_| ((), ()), log)?;
    battery!(DoublePriorityQueue, (), (), |_| ((), ()), log)?;
    battery!(PriorityQueue, u8, (), |k| (k as u8, ()), log)?;
    battery!(DoublePriorityQueue, u8, (), |k| (k as u8, ()), log)?;
    battery!(PriorityQueue, (), u8, |k| ((), k as u8), log)?;
    battery!(DoublePriorityQueue, (), u8, |k| ((), k as u8), log)?;
    battery!(PriorityQueue, u64, i64, |k| (k as u64, [i64::MIN, i64::MAX, 0, -1, 1][k % 5]), log)?;
    battery!(DoublePriorityQueue, u64, i64, |k| (k as u64, [i64::MIN, i64::MAX, 0, -1, 1][k % 5]), log)?;
    Ok(())
}

/// `pqharness zst`: prints `ok` or the failing step
pub fn main() -> i32 {
    let mut log = vec![];
    let r = std::panic::catch_unwind(std::panic::AssertUnwindSafe(|| all(&mut log)));
    let err = match r {
        Ok(Ok(())) => {
            println!("ok");
            return 0;
        }
        Ok(Err(e)) => e,
        Err(p) => match p.downcast_ref::<String>() {
            Some(s) => format!("panic: {s}"),
            None => match p.downcast_ref::<&str>() {
                Some(s) => format!("panic: {s}"),
                None => "panic".to_string(),
            },
        },
    };
    println!("FAIL: {err}");
    for l in &log {
        println!("  {l}");
    }
    1
}
