From PQV Require Import InstanceT.
From Coq Require Import Extraction ExtrOcamlBasic.
Extraction Language OCaml.
Extraction "model.ml" trun tstep tinit_machine total_ticks is_fault Z.add Z.eqb N.add N.mul.
