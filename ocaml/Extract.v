From PQV Require Import Instance.
From Coq Require Import Extraction ExtrOcamlBasic.
Extraction Language OCaml.
Extraction "model.ml" zrun zstep init_machine total_ticks is_fault Z.add Z.eqb N.add N.mul.
