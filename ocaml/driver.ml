(* Driver for the extracted model: reads history files (format: FORMAT.md),
   runs the Coq-extracted [tstep] and prints one trace line per step, in
   exactly the format the Rust harness prints for the implementation. *)
open Model

(* ---- number conversions -------------------------------------------------- *)
let rec nat_of_int i = if i <= 0 then O else S (nat_of_int (i - 1))
let rec int_of_nat = function O -> 0 | S n -> 1 + int_of_nat n
let int_of_nat n =
  let rec go acc = function O -> acc | S n -> go (acc + 1) n in go 0 n
let rec pos_of_int i =
  if i <= 1 then XH
  else if i land 1 = 0 then XO (pos_of_int (i lsr 1)) else XI (pos_of_int (i lsr 1))
let rec int_of_pos = function
  | XH -> 1 | XO p -> 2 * int_of_pos p | XI p -> 2 * int_of_pos p + 1
let z_of_int i = if i = 0 then Z0 else if i > 0 then Zpos (pos_of_int i) else Zneg (pos_of_int (- i))
let int_of_z = function Z0 -> 0 | Zpos p -> int_of_pos p | Zneg p -> - (int_of_pos p)
let n_of_int i = if i = 0 then N0 else Npos (pos_of_int i)
(* decimal strings up to 2^64-1 for size hints and capacities *)
let n_of_string s =
  let ten = n_of_int 10 in
  let r = ref N0 in
  String.iter (fun c -> r := N.add (N.mul !r ten) (n_of_int (Char.code c - 48))) s;
  !r
(* priorities may be i64::MIN..i64::MAX: OCaml ints are 63 bit, so go through
   decimal strings *)
let z_of_string s =
  if String.length s > 0 && s.[0] = '-' then
    (match n_of_string (String.sub s 1 (String.length s - 1)) with
     | N0 -> Z0 | Npos p -> Zneg p)
  else (match n_of_string s with N0 -> Z0 | Npos p -> Zpos p)
(* decimal printing: small values through OCaml ints, large ones by
   schoolbook doubling on a little-endian digit list *)
let rec pos_bits = function XH -> 1 | XO p | XI p -> 1 + pos_bits p
let string_of_pos p =
  if pos_bits p <= 60 then string_of_int (int_of_pos p) else begin
    let dbl_add ds c =
      let rec go ds c = match ds with
        | [] -> if c = 0 then [] else [c]
        | d :: r -> let v = 2 * d + c in (v mod 10) :: go r (v / 10) in
      go ds c in
    let rec bits acc = function
      | XH -> 1 :: acc | XO p -> bits (0 :: acc) p | XI p -> bits (1 :: acc) p in
    let ds = List.fold_left dbl_add [] (bits [] p) in
    String.concat "" (List.rev_map string_of_int ds)
  end
let string_of_n = function N0 -> "0" | Npos p -> string_of_pos p
let string_of_z = function Z0 -> "0" | Zpos p -> string_of_pos p | Zneg p -> "-" ^ string_of_pos p

(* ---- printing ------------------------------------------------------------ *)
let cur_mask : bool list ref = ref []
(* size of the register the current op names (bound on what an iterator can still yield) *)
let cur_size : int ref = ref 0
(* count / last / collect: how the hidden tail of the script outputs is summarised *)
let cur_post : (string * int) option ref = ref None
let buf = Buffer.create 65536
let pr s = Buffer.add_string buf s
(* a priority is (value, tag): ordered and compared by value; the tag is printed
   only when it is not 0 *)
let pr_prio (v, t) =
  pr (string_of_z v);
  (match t with Z0 -> () | _ -> pr "/"; pr (string_of_z t))
let pr_elem ((k, pl), p) =
  pr (string_of_z k); pr ":"; pr (string_of_z pl); pr ":"; pr_prio p
let pr_list sep f l =
  pr "["; List.iteri (fun i x -> if i > 0 then pr sep; f x) l; pr "]"
let pr_nat n = pr (string_of_int (int_of_nat n))
let pr_fault = function UB -> pr "ub" | Panic -> pr "panic" | OutOfFuel -> pr "fuel"
let pr_sout = function
  | SElem None -> pr "e:-"
  | SElem (Some e) -> pr "e:"; pr_elem e
  | SMut None -> pr "e:-"
  | SMut (Some (slot, e)) -> pr "m:"; pr_nat slot; pr ":"; pr_elem e
  | SLen (Ok n) -> pr "len:"; pr_nat n
  | SLen _ -> pr "len:!"
  | SHint (lo, hi) ->
      pr "hint:"; pr_nat lo; pr ":";
      (match hi with None -> pr "-" | Some h -> pr_nat h)
let pr_out = function
  | OutUnit -> pr "unit"
  | OutBool b -> pr (if b then "bool 1" else "bool 0")
  | OutNat n -> pr "nat "; pr_nat n
  | OutN n -> pr "n "; pr (string_of_n n)
  | OutOptP None -> pr "optp -"
  | OutOptP (Some p) -> pr "optp "; pr_prio p
  | OutOptE None -> pr "opte -"
  | OutOptE (Some e) -> pr "opte "; pr_elem e
  | OutList l -> pr "list "; pr_list "," pr_elem l
  | OutScript l ->
      (* drop the outputs hidden inside nth / nth_back; outputs beyond the mask
         (the final len of a len:* end) are always shown *)
      let rec filt l m = match l, m with
        | [], _ -> []
        | x :: l', [] -> x :: filt l' []
        | x :: l', b :: m' -> if b then x :: filt l' m' else filt l' m' in
      let visible = filt l !cur_mask in
      (match !cur_post with
       | None -> pr "script "; pr_list "," pr_sout visible
       | Some (mode, k) ->
           let n = List.length l in
           let tail = List.filteri (fun i _ -> i >= n - k) l in
           let somes = List.filter (fun o -> match o with SElem (Some _) | SMut (Some _) -> true | _ -> false) tail in
           pr "script [";
           List.iteri (fun i x -> if i > 0 then pr ","; pr_sout x) visible;
           if visible <> [] then pr ",";
           (match mode with
            | "count" -> pr "count:"; pr (string_of_int (List.length somes))
            | "last" -> pr "last:";
                (match List.rev somes with x :: _ -> pr_sout x | [] -> pr "e:-")
            | _ -> pr "collect:"; pr (string_of_int (List.length somes));
                List.iter (fun x -> pr "/"; pr_sout x) somes);
           pr "]")
  | OutInvalid -> pr "invalid"
  | OutUnwound -> pr "unwound"
  | OutFault f -> pr "fault "; pr_fault f
let pr_reg i = function
  | None -> ()
  | Some (k, s) ->
      pr " ; r"; pr (string_of_int i); pr "=";
      pr (match k with KPQ -> "pq" | KDPQ -> "dpq");
      pr " m="; pr_list "," pr_elem s.smap;
      pr " h="; pr_list "," pr_nat s.heap;
      pr " q="; pr_list "," pr_nat s.qp;
      pr " s="; pr_nat s.ssize
let pr_line out ticks m =
  pr_out out; pr " ; t=";
  (* comparison counts are not compared for steps that unwound *)
  (match out with OutUnwound -> pr "-" | _ -> pr (string_of_int ticks));
  List.iteri pr_reg m; pr "\n"

(* ---- parsing ------------------------------------------------------------- *)
exception Bad of string
let kind_of = function "pq" -> KPQ | "dpq" -> KDPQ | s -> raise (Bad ("kind " ^ s))
let side_of = function "min" -> SMin | "max" -> SMax | s -> raise (Bad ("side " ^ s))
let nat_s s = nat_of_int (int_of_string s)
let item k pl = (z_of_string k, z_of_string pl)
let prio_of s = match String.index_opt s '/' with
  | Some i -> (z_of_string (String.sub s 0 i), z_of_string (String.sub s (i + 1) (String.length s - i - 1)))
  | None -> (z_of_string s, Z0)
let lookup_payload = "-1"
let opt_z s = if s = "-" then None else Some (z_of_string s)
let opt_p s = if s = "-" then None else Some (prio_of s)

let rec triples n toks acc =
  if n = 0 then (List.rev acc, toks) else
  match toks with
  | k :: pl :: p :: rest -> triples (n - 1) rest ((item k pl, prio_of p) :: acc)
  | _ -> raise (Bad "triples")

let hint lo hi = (n_of_string lo, (if hi = "-" then None else Some (n_of_string hi)))

let set_payload pl = fun (k, _) -> (k, pl)
let upd_item = function None -> (fun i -> i) | Some pl -> set_payload pl
let upd_prio = function None -> (fun p -> p) | Some w -> (fun _ -> w)

let split_colon s = String.split_on_char ':' s

let adaptor_of s = match split_colon s with
  | ["direct"] -> ADirect | ["rev"] -> ARev
  | ["take"; n] -> ATake (nat_s n) | ["skip"; n] -> ASkip (nat_s n)
  | _ -> raise (Bad ("adaptor " ^ s))
let iend_of s = match split_colon s with
  | ["drop"] -> EDrop | ["forget"] -> EForget
  | ["len"; "take"; n] -> ELen (LTake (nat_s n))
  | ["len"; "skip"; n] -> ELen (LSkip (nat_s n))
  | ["len"; "zip"; n] -> ELen (LZip (nat_s n))
  | ["len"; "rev"] -> ELen LRev
  | ["len"; "enum"] -> ELen LEnumerate
  | ["len"; "peek"] -> ELen LPeekable
  | _ -> raise (Bad ("iend " ^ s))
let istep_of s = match split_colon s with
  | ["n"] -> INext ((fun p -> p), (fun i -> i))
  | ["b"] -> INextBack ((fun p -> p), (fun i -> i))
  | ["n"; w; pl] -> INext (upd_prio (opt_p w), upd_item (opt_z pl))
  | ["b"; w; pl] -> INextBack (upd_prio (opt_p w), upd_item (opt_z pl))
  | ["l"] -> ILen | ["s"] -> ISizeHint
  | _ -> raise (Bad ("istep " ^ s))
(* [nth:K] / [nthb:K]: std's default nth / nth_back are K+1 calls of next /
   next_back of which only the last result is returned: expanded here, with a
   mask telling the printer which script outputs the caller sees *)
let rec rep n x = if n <= 0 then [] else x :: rep (n - 1) x
let id_next = INext ((fun p -> p), (fun i -> i))
let id_back = INextBack ((fun p -> p), (fun i -> i))
(* K may be as large as usize::MAX: an iterator over at most [cur_size] elements is
   exhausted (and, being fused, unchanged) after cur_size + 1 calls *)
(* under take(N) the adaptor's own budget is consumed call by call whether or not the
   inner iterator is exhausted, so the cap must also cover N *)
let cur_cap : int ref = ref 0
(* end [panic]: the caller's loop body panics with the iterator alive; the iterator is
   dropped while unwinding (the model's EDrop) and the harness catches the panic *)
let cur_panic : bool ref = ref false
let small_k k = match int_of_string_opt k with
  | Some k when k >= 0 && k <= !cur_cap -> k
  | _ -> !cur_cap
let expand_step s = match split_colon s with
  | ["nth"; k] -> let k = small_k k in (rep (k + 1) id_next, rep k false @ [true])
  | ["nthb"; k] -> let k = small_k k in (rep (k + 1) id_back, rep k false @ [true])
  | _ -> ([istep_of s], [true])
let script toks = match toks with
  | a :: e :: n :: rest ->
      let n = int_of_string n in
      if List.length rest <> n then raise (Bad "script length");
      cur_cap := (match split_colon a with
                  | ["take"; n] -> max (!cur_size + 1) (int_of_string n)
                  | _ -> !cur_size + 1);
      let ex = List.map expand_step rest in
      (* count() / last() / collect(): std's defaults call next() until None:
         at most (size + 1) further calls; their outputs are summarised *)
      let (tail, e') = match e with
        | "count" | "last" | "collect" ->
            cur_post := Some (e, !cur_size + 1);
            (rep (!cur_size + 1) id_next, "drop")
        | "panic" -> cur_post := None; cur_panic := true; ([], "drop")
        | _ -> cur_post := None; ([], e) in
      cur_mask := List.concat (List.map snd ex) @ rep (List.length tail) false;
      (adaptor_of a, List.concat (List.map fst ex) @ tail, iend_of e')
  | _ -> raise (Bad "script")

(* predicate tables for retain: key -> (write, keep), with a default verdict *)
let pred_of_table (dflt : bool) (tbl : (z * ((z * z) option * bool)) list) =
  fun ((k, pl) : item) (p : z * z) ->
    let rec find = function
      | [] -> (((k, pl), p), dflt)
      | (k', (w, keep)) :: rest ->
          if Z.eqb k k' then (((k, pl), (match w with None -> p | Some w -> w)), keep)
          else find rest in
    find tbl

let rec parse_op toks : top =
  match toks with
  | ["new"; k; r] -> ONew (kind_of k, nat_s r)
  | ["withcap"; k; r; c] -> OWithCap (kind_of k, nat_s r, n_of_string c)
  | "fromvec" :: k :: r :: n :: rest ->
      let (l, _) = triples (int_of_string n) rest [] in OFromVec (kind_of k, nat_s r, l)
  | "fromiter" :: k :: r :: lo :: hi :: n :: rest ->
      let (l, _) = triples (int_of_string n) rest [] in
      OFromIter (kind_of k, nat_s r, l, hint lo hi)
  | ["push"; r; k; pl; p] -> OPush (nat_s r, item k pl, prio_of p)
  | ["pushinc"; r; k; pl; p] -> OPushInc (nat_s r, item k pl, prio_of p)
  | ["pushdec"; r; k; pl; p] -> OPushDec (nat_s r, item k pl, prio_of p)
  | ["chg"; r; k; p] -> OChange (nat_s r, item k lookup_payload, prio_of p)
  | ["chgby"; r; k; p] -> let p = prio_of p in OChangeBy (nat_s r, item k lookup_payload, (fun _ -> p))
  | ["chgadd"; r; k; d] -> let d = z_of_string d in OChangeBy (nat_s r, item k lookup_payload, (fun (v, t) -> (Z.add v d, t)))
  | ["remove"; r; k] -> ORemove (nat_s r, item k lookup_payload)
  | ["peek"; r; s] -> OPeek (nat_s r, side_of s)
  | ["peekmut"; r; s; pl] -> OPeekMut (nat_s r, side_of s, set_payload (z_of_string pl))
  | ["pop"; r; s] -> OPop (nat_s r, side_of s)
  | ["popif"; r; s; w; pl; b] ->
      let w = opt_p w and pl = opt_z pl and b = (b = "1") in
      OPopIf (nat_s r, side_of s, (fun i p -> ((upd_item pl i, upd_prio w p), b)))
  | ["get"; r; k] -> OGet (nat_s r, item k lookup_payload)
  | ["getprio"; r; k] -> OGetPrio (nat_s r, item k lookup_payload)
  | ["getmut"; r; k; pl] -> OGetMut (nat_s r, item k lookup_payload, set_payload (z_of_string pl))
  | ["len"; r] -> OLen (nat_s r)
  | ["isempty"; r] -> OIsEmpty (nat_s r)
  | "retain" :: r :: d :: n :: rest ->
      let rec go n toks acc = if n = 0 then List.rev acc else
        match toks with
        | k :: keep :: rest -> go (n - 1) rest ((z_of_string k, (None, keep = "1")) :: acc)
        | _ -> raise (Bad "retain") in
      ORetain (nat_s r, pred_of_table (d = "1") (go (int_of_string n) rest []))
  | "retainmut" :: r :: d :: n :: rest ->
      let rec go n toks acc = if n = 0 then List.rev acc else
        match toks with
        | k :: w :: keep :: rest -> go (n - 1) rest ((z_of_string k, (opt_p w, keep = "1")) :: acc)
        | _ -> raise (Bad "retainmut") in
      ORetain (nat_s r, pred_of_table (d = "1") (go (int_of_string n) rest []))
  | "itermut" :: r :: rest -> let (a, s, e) = script rest in OIterMut (nat_s r, a, s, e)
  | "iter" :: r :: rest -> let (a, s, e) = script rest in OIter (nat_s r, a, s, e)
  | "intoiter" :: r :: rest -> let (a, s, e) = script rest in OIntoIter (nat_s r, a, s, e)
  | "drain" :: r :: rest -> let (a, s, e) = script rest in ODrain (nat_s r, a, s, e)
  | "sortediter" :: r :: rest -> let (a, s, e) = script rest in OIntoSortedIter (nat_s r, a, s, e)
  | ["clear"; r] -> OClear (nat_s r)
  | ["sortedvec"; r; s] -> OIntoSortedVec (nat_s r, side_of s)
  | ["intovec"; r] -> OIntoVec (nat_s r)
  | "extend" :: r :: lo :: hi :: n :: rest ->
      let (l, _) = triples (int_of_string n) rest [] in OExtend (nat_s r, l, hint lo hi)
  | ["append"; d; s] -> OAppend (nat_s d, nat_s s)
  | ["convert"; r] -> OConvert (nat_s r)
  | ["clone"; s; d] -> OClone (nat_s s, nat_s d)
  | ["clonefrom"; s; d] -> OCloneFrom (nat_s s, nat_s d)
  | ["eq"; a; b] -> OEq (nat_s a, nat_s b)
  | ["serde"; s; k; d] -> OSerDe (nat_s s, kind_of k, nat_s d)
  | "deser" :: k :: r :: n :: rest ->
      let (l, _) = triples (int_of_string n) rest [] in ODeser (kind_of k, nat_s r, l)
  | ["reserve"; r; n] | ["reservex"; r; n] -> OReserve (nat_s r, n_of_string n)
  | ["tryreserve"; r; n] | ["tryreservex"; r; n] -> OTryReserve (nat_s r, n_of_string n)
  | ["shrink"; r] -> OShrink (nat_s r)
  | ["capacity"; r] -> OCapacity (nat_s r)
  | ["debug"; r] -> ODebug (nat_s r)
  | "fuse" :: k :: rest -> OFuse (nat_s k, parse_op rest)
  | _ -> raise (Bad (String.concat " " toks))

(* ---- exhaustive small-scope closure --------------------------------------
   driver --bfs <pq|dpq> <nkeys> <nprios> <maxstates> <out.hist>
   Breadth-first closure of the raw states (contents in slot order + both
   tables) of one queue over a small alphabet: from every state reached, every
   operation of the alphabet is emitted as one history (shortest path to the
   state, then the operation).  Both sides then run those histories. *)
let state_key m =
  Buffer.clear buf; List.iteri pr_reg m; let s = Buffer.contents buf in Buffer.clear buf; s

let bfs kind nkeys nprios maxstates outfile =
  let oc = open_out outfile in
  let sides = if kind = "pq" then ["max"] else ["min"; "max"] in
  let ops = ref [] in
  let add s = ops := s :: !ops in
  for k = 0 to nkeys - 1 do
    for p = 0 to nprios - 1 do
      add (Printf.sprintf "push 0 %d %d %d" k k p);
      add (Printf.sprintf "chg 0 %d %d" k p);
      add (Printf.sprintf "pushinc 0 %d 0 %d" k p);
      add (Printf.sprintf "pushdec 0 %d 0 %d" k p)
    done;
    add (Printf.sprintf "remove 0 %d" k)
  done;
  List.iter (fun sd ->
    add ("pop 0 " ^ sd); add ("peek 0 " ^ sd);
    add (Printf.sprintf "popif 0 %s - - 1" sd);
    for p = 0 to nprios - 1 do
      add (Printf.sprintf "popif 0 %s %d - 0" sd p)
    done) sides;
  add "retainmut 0 1 1 0 - 0"; add "retainmut 0 1 1 1 0 1";
  add (Printf.sprintf "itermut 0 direct drop 1 n:%d:-" (nprios - 1)); add "itermut 0 direct drop 2 n n:0:-";
  let ops = List.rev !ops in
  let m0 = fst (tstep O (tinit_machine (nat_of_int 1)) (parse_op ["new"; kind; "0"])) in
  let seen = Hashtbl.create 100000 in
  Hashtbl.replace seen (state_key m0) ();
  let q = Queue.create () in
  Queue.add (m0, []) q;
  let hid = ref 0 and nstates = ref 1 in
  while not (Queue.is_empty q) do
    let (m, path) = Queue.pop q in
    List.iter (fun o ->
      let toks = String.split_on_char ' ' o in
      let (m', out) = tstep O m (parse_op toks) in
      (* one history per (state, op) *)
      output_string oc (Printf.sprintf "H %d 0 1\nnew %s 0\n" !hid kind);
      List.iter (fun x -> output_string oc x; output_char oc '\n') (List.rev path);
      output_string oc o; output_char oc '\n';
      (* finish with a full drain so that the order is observed *)
      List.iter (fun sd -> output_string oc ("sortedvec 0 " ^ sd ^ "\n")) sides;
      incr hid;
      if not (is_fault out) then begin
        let key = state_key m' in
        if not (Hashtbl.mem seen key) && !nstates < maxstates then begin
          Hashtbl.replace seen key (); incr nstates;
          Queue.add (m', o :: path) q
        end
      end) ops
  done;
  close_out oc;
  Printf.printf "bfs %s keys=%d prios=%d: %d states, %d histories\n" kind nkeys nprios !nstates !hid

(* ---- main loop ----------------------------------------------------------- *)
let () =
  if Array.length Sys.argv > 1 && Sys.argv.(1) = "--bfs" then begin
    bfs Sys.argv.(2) (int_of_string Sys.argv.(3)) (int_of_string Sys.argv.(4))
      (int_of_string Sys.argv.(5)) Sys.argv.(6);
    exit 0
  end;
  let ic = if Array.length Sys.argv > 1 then open_in Sys.argv.(1) else stdin in
  let oc = if Array.length Sys.argv > 2 then open_out Sys.argv.(2) else stdout in
  let m = ref (tinit_machine (nat_of_int 4)) in
  let mode = ref O in
  let dead = ref false in
  (try
    while true do
      let line = input_line ic in
      let toks = List.filter (fun s -> s <> "") (String.split_on_char ' ' line) in
      (* [unwinding <line>]: the harness runs the line from a destructor while an unrelated
         panic unwinds; nothing changes for the model *)
      let toks = (match toks with "unwinding" :: rest -> rest | t -> t) in
      (match toks with
       | [] -> ()
       | "H" :: id :: rest ->
           (* H <id> <hashmode> <nregs> *)
           let hm, nr = (match rest with
             | hm :: nr :: _ -> (int_of_string hm, int_of_string nr)
             | _ -> (0, 4)) in
           mode := nat_of_int hm; m := tinit_machine (nat_of_int nr); dead := false;
           pr "H "; pr id; pr "\n"
       | _ ->
           if not !dead then begin
             (* the register named by the op (second token, after a fuse prefix) *)
             let rtoks = (match toks with "fuse" :: _ :: rest -> rest | _ -> toks) in
             cur_post := None;
             cur_panic := false;
             cur_size := (match rtoks with
               | _ :: r :: _ -> (match int_of_string_opt r with
                   | Some r -> (match List.nth_opt !m r with
                       | Some (Some (_, s)) -> List.length s.smap
                       | _ -> 0)
                   | None -> 0)
               | _ -> 0);
             (match rtoks with
              | ["latewrite"; r; w] ->
                  (* let v: Vec<_> = q.iter_mut().collect(); *v[0].1 = w; drop(v):
                     the iterator is exhausted and dropped (heap rebuilt) and only then is the
                     priority of the first slot written through the reference that outlived it.
                     For the model that is the state transformer of writing through a second
                     iter_mut that is leaked: no rebuild follows the write. *)
                  let pre = (match toks with "fuse" :: k :: _ -> ["fuse"; k] | _ -> []) in
                  let n = !cur_size + 1 in
                  let first = pre @ ["itermut"; r; "direct"; "drop"; string_of_int n] @ rep n "n" in
                  let (m1, out1) = tstep !mode !m (parse_op first) in
                  m := m1;
                  (match out1 with
                   | OutScript _ ->
                       let ticks = int_of_nat (total_ticks m1) in
                       let (m2, _) = tstep !mode m1
                           (parse_op ["itermut"; r; "direct"; "forget"; "1"; "n:" ^ w ^ ":-"]) in
                       m := m2;
                       pr_line OutUnit ticks m2
                   | o -> pr_line o (int_of_nat (total_ticks m1)) m1; if is_fault o then dead := true)
              | _ ->
             let o = parse_op toks in
             let (m', out) = tstep !mode !m o in
             m := m';
             let out = (match out with OutScript _ when !cur_panic -> OutUnwound | o -> o) in
             pr_line out (int_of_nat (total_ticks m')) m';
             if is_fault out then dead := true)
           end);
      if Buffer.length buf > 60000 then (Buffer.output_buffer oc buf; Buffer.clear buf)
    done
  with End_of_file -> ());
  Buffer.output_buffer oc buf; flush oc
