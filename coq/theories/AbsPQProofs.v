(** * AbsPQProofs: the max-heap ORDER theorems of AbsSpec.v, proved on the
    abstract list-level algorithms of Abs.v. *)
From PQV Require Import Abs AbsSpec.
From Coq Require Import Lia.

Arguments Nat.mul : simpl never.
Arguments Nat.add : simpl never.
Arguments Nat.div : simpl never.
Arguments Nat.sub : simpl never.

(** ** heap arithmetic *)

Lemma par_spec c : 0 < c -> c = 2 * par c + 1 \/ c = 2 * par c + 2.
Proof.
  intros Hc. unfold par.
  pose proof (Nat.div_mod_eq (c - 1) 2) as H1.
  pose proof (Nat.mod_upper_bound (c - 1) 2) as H2. lia.
Qed.

Lemma par_left i : par (left i) = i.
Proof.
  unfold par, left. replace (2 * i + 1 - 1) with (i * 2) by lia.
  apply Nat.div_mul. lia.
Qed.

Lemma par_right i : par (right i) = i.
Proof.
  unfold par, right. replace (2 * i + 2 - 1) with (1 + i * 2) by lia.
  rewrite Nat.div_add by lia. reflexivity.
Qed.

Lemma par_lt c : 0 < c -> par c < c.
Proof. intros Hc. destruct (par_spec c Hc); lia. Qed.

Lemma par_child c : 0 < c -> c = left (par c) \/ c = right (par c).
Proof. unfold left, right. apply par_spec. Qed.

Lemma par_mono a b : a <= b -> par a <= par b.
Proof. intros. unfold par. apply Nat.div_le_mono; lia. Qed.

Lemma left_gt i : i < left i.
Proof. unfold left. lia. Qed.
Lemma right_gt i : i < right i.
Proof. unfold right. lia. Qed.
Lemma left_lt_right i : left i < right i.
Proof. unfold left, right. lia. Qed.

(** ** list facts *)

Section ListFacts.
Context {A : Type}.
Implicit Types l : list A.

Lemma insert_Permutation l i x y :
  l !! i = Some x -> <[i:=y]> l ≡ₚ y :: delete i l.
Proof.
  intros Hi. pose proof (lookup_lt_Some _ _ _ Hi) as Hlt.
  rewrite insert_take_drop by done. rewrite delete_take_drop.
  symmetry. apply Permutation_middle.
Qed.

Lemma aswap_lookup l a b x y j :
  l !! a = Some x -> l !! b = Some y ->
  aswap l a b !! j =
    if decide (j = b) then Some x else if decide (j = a) then Some y else l !! j.
Proof.
  intros Ha Hb. unfold aswap. rewrite Ha, Hb.
  pose proof (lookup_lt_Some _ _ _ Ha). pose proof (lookup_lt_Some _ _ _ Hb).
  destruct (decide (j = b)) as [-> | Hjb].
  - apply list_lookup_insert. rewrite insert_length. done.
  - rewrite list_lookup_insert_ne by done.
    destruct (decide (j = a)) as [-> | Hja].
    + apply list_lookup_insert. done.
    + rewrite list_lookup_insert_ne by done. done.
Qed.

Lemma aswap_length l a b : length (aswap l a b) = length l.
Proof.
  unfold aswap. destruct (l !! a), (l !! b); try done.
  by rewrite !insert_length.
Qed.

Lemma aswap_Permutation l a b : aswap l a b ≡ₚ l.
Proof.
  destruct (l !! a) as [x|] eqn:Ha; [|unfold aswap; by rewrite Ha].
  destruct (l !! b) as [y|] eqn:Hb; [|unfold aswap; by rewrite Ha, Hb].
  apply Permutation_inj. split; [apply aswap_length|].
  exists (fun j => if decide (j = b) then a else if decide (j = a) then b else j).
  split.
  - intros j1 j2. repeat case_decide; intros; subst; congruence.
  - intros j. rewrite (aswap_lookup l a b x y j Ha Hb).
    repeat case_decide; subst; congruence.
Qed.

Lemma aswap_remove_snoc l0 y pos :
  aswap_remove (l0 ++ [y]) pos =
    if decide (pos < length l0) then <[pos:=y]> l0 else l0.
Proof.
  unfold aswap_remove. rewrite last_snoc, app_length. cbn [length].
  replace (length l0 + 1 - 1) with (length l0) by lia.
  case_decide.
  - rewrite insert_app_l by done.
    apply take_app_alt. by rewrite insert_length.
  - rewrite take_insert by lia. apply take_app.
Qed.

Lemma aswap_remove_Permutation l0 y pos x :
  (l0 ++ [y]) !! pos = Some x ->
  l0 ++ [y] ≡ₚ x :: aswap_remove (l0 ++ [y]) pos.
Proof.
  intros Hx. rewrite aswap_remove_snoc. case_decide as Hlt.
  - rewrite lookup_app_l in Hx by done.
    rewrite (insert_Permutation l0 pos x y Hx).
    rewrite <- Permutation_cons_append.
    rewrite (delete_Permutation l0 pos x Hx) at 1.
    apply perm_swap.
  - pose proof (lookup_lt_Some _ _ _ Hx) as Hl.
    rewrite app_length in Hl. cbn [length] in Hl.
    assert (pos = length l0) as -> by lia.
    rewrite list_lookup_middle in Hx by done. simplify_eq.
    by rewrite <- Permutation_cons_append.
Qed.

End ListFacts.

Section AbsPQProofs.
Context {E P : Type}.
Variable pr : E -> P.
Variable ple : P -> P -> bool.

Notation heap_ord := (heap_ord pr ple).
Notation alt := (alt ple).
Notation apick := (apick pr ple).
Notation asift_down := (asift_down pr ple).
Notation asift_up := (asift_up pr ple).
Notation aheapify := (aheapify pr ple).
Notation aup_heapify := (aup_heapify pr ple).
Notation abuild_loop := (abuild_loop pr ple).
Notation abuild := (abuild pr ple).
Notation a_push_new := (a_push_new pr ple).
Notation a_update := (a_update pr ple).
Notation a_remove := (a_remove pr ple).
Notation a_pop := (a_pop pr ple).
Notation a_pop_if := (a_pop_if pr ple).
Notation a_pop_all := (a_pop_all pr ple).

(** the element at [c] (if any) is <= the element at [p] (if any) *)
Definition le_at (l : list E) (c p : nat) : Prop :=
  forall xc xp, l !! c = Some xc -> l !! p = Some xp -> ple (pr xc) (pr xp) = true.

(** all parent/child pairs whose parent index is >= k are ordered *)
Definition ord_from (k : nat) (l : list E) : Prop :=
  forall c, 0 < c -> k <= par c -> le_at l c (par c).

(** children of [i] are below [i] *)
Definition kids (l : list E) (i : nat) : Prop :=
  forall c, 0 < c -> par c = i -> le_at l c i.

(** sift-down invariant: ordered (from k) except that [i] may be smaller
    than its children; the parent of [i] dominates the children of [i] *)
Definition down_inv (k : nat) (l : list E) (i : nat) : Prop :=
  (forall c, 0 < c -> k <= par c -> par c <> i -> le_at l c (par c)) /\
  (forall c, 0 < c -> par c = i -> 0 < i -> k <= par i -> le_at l c (par i)).

(** after an arbitrary replacement at [i]: nothing is known about the pairs
    involving [i], but the parent of [i] dominates the children of [i] *)
Definition repl_inv (l : list E) (i : nat) : Prop :=
  (forall c, 0 < c -> c <> i -> par c <> i -> le_at l c (par c)) /\
  (forall c, 0 < c -> par c = i -> 0 < i -> le_at l c (par i)).

Lemma heap_ord_iff l : heap_ord l <-> ord_from 0 l.
Proof.
  unfold Abs.heap_ord, ord_from, le_at. split.
  - intros H c Hc _ xc xp ? ?. eapply H; eauto.
  - intros H c xc xp Hc ? ?. eapply H; eauto. lia.
Qed.

Lemma le_at_None_l l c p : l !! c = None -> le_at l c p.
Proof. intros H xc xp ? ?. congruence. Qed.
Lemma le_at_None_r l c p : l !! p = None -> le_at l c p.
Proof. intros H xc xp ? ?. congruence. Qed.

Lemma ord_from_short k l : length l <= 1 -> ord_from k l.
Proof.
  intros Hl c Hc _. apply le_at_None_l. apply lookup_ge_None. lia.
Qed.

Lemma heap_ord_prefix l0 l1 : heap_ord (l0 ++ l1) -> heap_ord l0.
Proof.
  intros H c xc xp Hc H1 H2. eapply (H c); eauto using lookup_app_l_Some.
Qed.

Section WithOrd.
Hypothesis Hord : ord_ok ple.

Lemma ple_refl a : ple a a = true.
Proof. destruct Hord as [Ht _]. by destruct (Ht a a). Qed.
Lemma ple_trans a b c : ple a b = true -> ple b c = true -> ple a c = true.
Proof. destruct Hord as [_ Ht]. apply Ht. Qed.
Lemma alt_true a b : alt a b = true -> ple a b = true.
Proof.
  unfold Abs.alt. intros H. destruct Hord as [Ht _].
  destruct (Ht a b) as [?|Hba]; [done|]. rewrite Hba in H. done.
Qed.
Lemma alt_false a b : alt a b = false -> ple b a = true.
Proof. unfold Abs.alt. by destruct (ple b a). Qed.

Lemma le_at_refl l i : le_at l i i.
Proof. intros x y ? ?. simplify_eq. apply ple_refl. Qed.

(** *** pick_largest *)
Lemma apick_spec l i lg t :
  apick l i = (lg, t) ->
  (lg = i \/ ((lg = left i \/ lg = right i) /\ is_Some (l !! lg) /\ is_Some (l !! i))) /\
  le_at l i lg /\ le_at l (left i) lg /\ le_at l (right i) lg.
Proof.
  unfold Abs.apick.
  destruct (l !! i) as [x|] eqn:Hi.
  2:{ intros [= <- <-]. split; [by left|].
      split_and!; by apply le_at_None_r. }
  destruct (l !! left i) as [xl|] eqn:Hl.
  2:{ intros [= <- <-]. split; [by left|].
      split_and!; [apply le_at_refl|by apply le_at_None_l|].
      apply le_at_None_l. apply lookup_ge_None in Hl. apply lookup_ge_None.
      pose proof (left_lt_right i). lia. }
  destruct (alt (pr x) (pr xl)) eqn:Ha;
    (destruct (l !! right i) as [xr|] eqn:Hr;
     [match goal with |- context [alt ?a ?b] => destruct (alt a b) eqn:Hb end|]);
    intros [= <- <-];
    (split; [eauto 8|]);
    (split_and!; intros u v Hu Hv; simplify_eq;
     eauto 4 using ple_refl, ple_trans, alt_true, alt_false).
Qed.

(** *** sift-down *)
Lemma kids_of_pick l i : le_at l (left i) i -> le_at l (right i) i -> kids l i.
Proof.
  intros Hl Hr c Hc Hp. destruct (par_child c Hc) as [Hx|Hx]; rewrite Hp in Hx; by subst c.
Qed.

Lemma down_inv_done k l i : down_inv k l i -> kids l i -> ord_from k l.
Proof.
  intros [Ha Hb] Hk c Hc Hkc.
  destruct (decide (par c = i)) as [Hp|Hp].
  - rewrite Hp. by apply Hk.
  - by apply Ha.
Qed.

Lemma kids_leaf l i : length l <= left i -> kids l i.
Proof.
  intros Hl c Hc Hp. apply le_at_None_l, lookup_ge_None.
  destruct (par_child c Hc) as [Hx|Hx]; rewrite Hp in Hx; subst c; [done|].
  pose proof (left_lt_right i). lia.
Qed.

Lemma down_step k l i lg t :
  k <= i -> down_inv k l i -> apick l i = (lg, t) -> lg <> i ->
  down_inv k (aswap l i lg) lg /\ i < lg < length l.
Proof.
  intros Hki [Ha Hb] Hp Hne.
  destruct (apick_spec _ _ _ _ Hp) as [[?|(Hlg & [y Hy] & [x Hx])] (H1 & H2 & H3)]; [done|].
  assert (par lg = i) as Hpar by (destruct Hlg; subst lg; [apply par_left|apply par_right]).
  assert (i < lg) as Hlt.
  { pose proof (left_gt i). pose proof (right_gt i). destruct Hlg; lia. }
  pose proof (lookup_lt_Some _ _ _ Hy) as Hlen.
  split; [|lia]. split.
  - intros c Hc Hkc Hcp xc xp.
    rewrite !(aswap_lookup l i lg x y _ Hx Hy).
    pose proof (par_lt c Hc) as Hpc.
    destruct (decide (c = lg)) as [->|Hc1].
    { rewrite Hpar. rewrite decide_False by lia. rewrite decide_True by done.
      intros; simplify_eq. eapply H1; eauto. }
    rewrite (decide_False (P:=par c = lg)) by done.
    destruct (decide (c = i)) as [->|Hc2].
    { rewrite decide_False by lia. intros; simplify_eq.
      eapply (Hb lg); eauto; lia. }
    destruct (decide (par c = i)) as [Hc3|Hc3].
    { intros; simplify_eq.
      destruct (par_child c Hc) as [Hx'|Hx']; rewrite Hc3 in Hx'; subst c; eauto. }
    intros. eapply (Ha c); eauto.
  - intros c Hc Hpc Hlg0 Hkp xc xp. rewrite Hpar.
    rewrite !(aswap_lookup l i lg x y _ Hx Hy).
    pose proof (par_lt c Hc).
    rewrite (decide_False (P:=c = lg)) by lia.
    rewrite (decide_False (P:=c = i)) by lia.
    rewrite (decide_False (P:=i = lg)) by lia.
    rewrite decide_True by done.
    intros; simplify_eq. eapply (Ha c); eauto; lia.
Qed.

Lemma asift_down_spec fuel : forall k l i l' t,
  k <= i -> length l <= fuel + i -> down_inv k l i ->
  asift_down fuel l i = (l', t) -> ord_from k l' /\ l' ≡ₚ l.
Proof.
  induction fuel as [|fuel IH]; intros k l i l' t Hki Hlen Hinv Hs; cbn [Abs.asift_down] in Hs.
  - simplify_eq. split; [|done]. eapply down_inv_done; eauto.
    apply kids_leaf. pose proof (left_gt i). lia.
  - destruct (apick l i) as [lg t0] eqn:Hp.
    destruct (decide (lg = i)) as [->|Hne].
    + simplify_eq. split; [|done]. eapply down_inv_done; eauto.
      destruct (apick_spec _ _ _ _ Hp) as (_ & _ & ? & ?). by apply kids_of_pick.
    + destruct (asift_down fuel (aswap l i lg) lg) as [l'' t''] eqn:Hs'.
      simplify_eq.
      destruct (down_step k l i lg t0 Hki Hinv Hp Hne) as [Hinv' ?].
      destruct (IH k (aswap l i lg) lg l' t'') as [? Hperm];
        [lia | rewrite aswap_length; lia | done | done |].
      split; [done|]. by rewrite Hperm, aswap_Permutation.
Qed.

Lemma aheapify_spec k l i l' t :
  k <= i -> down_inv k l i -> aheapify l i = (l', t) -> ord_from k l' /\ l' ≡ₚ l.
Proof.
  intros Hki Hinv. unfold Abs.aheapify. case_decide.
  - intros; simplify_eq. split; [by apply ord_from_short|done].
  - intros Hs. eapply asift_down_spec in Hs; eauto. lia.
Qed.

(** *** sift-up *)
Lemma repl_down l i :
  repl_inv l i -> (0 < i -> le_at l i (par i)) -> down_inv 0 l i.
Proof.
  intros [Ha Hb] Hi. split.
  - intros c Hc _ Hp. destruct (decide (c = i)) as [->|]; [by apply Hi|by apply Ha].
  - intros c Hc Hp H0 _. by apply Hb.
Qed.

Lemma up_step l pos xp x :
  0 < pos -> l !! par pos = Some xp -> l !! pos = Some x ->
  ple (pr xp) (pr x) = true -> repl_inv l pos ->
  repl_inv (aswap l pos (par pos)) (par pos) /\
  (kids l pos -> kids (aswap l pos (par pos)) (par pos)).
Proof.
  intros Hpos Hxp Hx Hle [Ha Hb].
  pose proof (par_lt pos Hpos) as Hlt.
  split; [split|].
  - intros c Hc Hc1 Hc2 xc yp.
    rewrite !(aswap_lookup l pos (par pos) x xp _ Hx Hxp).
    rewrite (decide_False (P:=c = par pos)) by done.
    rewrite (decide_False (P:=par c = par pos)) by done.
    rewrite (decide_False (P:=c = pos)) by congruence.
    destruct (decide (par c = pos)) as [Hc3|Hc3].
    + intros; simplify_eq. eapply (Hb c); eauto.
    + intros. eapply (Ha c); eauto; congruence.
  - intros c Hc Hc1 Hp0 xc yp.
    pose proof (par_lt c Hc). pose proof (par_lt (par pos) Hp0).
    rewrite !(aswap_lookup l pos (par pos) x xp _ Hx Hxp).
    rewrite (decide_False (P:=c = par pos)) by lia.
    rewrite (decide_False (P:=par (par pos) = par pos)) by lia.
    rewrite (decide_False (P:=par (par pos) = pos)) by lia.
    assert (forall z, l !! par (par pos) = Some z -> ple (pr xp) (pr z) = true) as Hup.
    { intros z Hz. eapply (Ha (par pos)); eauto; lia. }
    destruct (decide (c = pos)) as [->|Hc2].
    + intros; simplify_eq. eauto.
    + intros. eapply ple_trans; [|eapply Hup; eauto].
      eapply (Ha c); eauto. { lia. } by rewrite Hc1.
  - intros Hk c Hc Hc1 xc yp.
    pose proof (par_lt c Hc).
    rewrite !(aswap_lookup l pos (par pos) x xp _ Hx Hxp).
    rewrite (decide_False (P:=c = par pos)) by lia.
    rewrite (decide_True (P:=par pos = par pos)) by done.
    destruct (decide (c = pos)) as [->|Hc2].
    + intros; simplify_eq. done.
    + intros; simplify_eq. eapply ple_trans; [|exact Hle].
      eapply (Ha c); eauto. { lia. } by rewrite Hc1.
Qed.

Lemma asift_up_spec fuel : forall l pos l' p' t,
  pos < fuel -> repl_inv l pos -> asift_up fuel l pos = (l', p', t) ->
  down_inv 0 l' p' /\ l' ≡ₚ l /\ (kids l pos -> kids l' p').
Proof.
  induction fuel as [|fuel IH]; intros l pos l' p' t Hf Hinv Hs; [lia|].
  cbn [Abs.asift_up] in Hs.
  destruct pos as [|q].
  { simplify_eq. split_and!; [|done..]. apply repl_down; [done|lia]. }
  remember (S q) as pos eqn:Hq.
  assert (0 < pos) as Hpos by lia.
  destruct (l !! par pos) as [xp|] eqn:Hxp.
  2:{ simplify_eq. split_and!; [|done..]. apply repl_down; [done|].
      intros _. by apply le_at_None_r. }
  destruct (l !! pos) as [x|] eqn:Hx.
  2:{ simplify_eq. split_and!; [|done..]. apply repl_down; [done|].
      intros _. by apply le_at_None_l. }
  destruct (alt (pr xp) (pr x)) eqn:Halt.
  2:{ simplify_eq. split_and!; [|done..]. apply repl_down; [done|].
      intros _ u v ? ?. simplify_eq. by apply alt_false. }
  destruct (asift_up fuel (aswap l pos (par pos)) (par pos)) as [[l'' p''] t''] eqn:Hs'.
  simplify_eq.
  destruct (up_step l (S q) xp x Hpos Hxp Hx (alt_true _ _ Halt) Hinv) as [Hinv' Hk'].
  pose proof (par_lt (S q) Hpos).
  destruct (IH (aswap l (S q) (par (S q))) (par (S q)) l' p' t'') as (? & Hperm & ?);
    [lia|done|done|].
  split_and!; [done| |eauto]. by rewrite Hperm, aswap_Permutation.
Qed.

Lemma aup_heapify_spec l i l' t :
  repl_inv l i -> aup_heapify l i = (l', t) -> heap_ord l' /\ l' ≡ₚ l.
Proof.
  intros Hinv. unfold Abs.aup_heapify.
  destruct (asift_up (S i) l i) as [[l1 pos] t1] eqn:Hs1.
  destruct (aheapify l1 pos) as [l2 t2] eqn:Hs2.
  intros; simplify_eq.
  destruct (asift_up_spec (S i) l i l1 pos t1) as (Hd & Hp1 & _); [lia|done|done|].
  destruct (aheapify_spec 0 l1 pos l' t2) as [Ho Hp2]; [lia|done|done|].
  split; [by apply heap_ord_iff|]. by rewrite Hp2.
Qed.

Lemma repl_inv_insert l i e : heap_ord l -> repl_inv (<[i:=e]> l) i.
Proof.
  intros Hh. split.
  - intros c Hc Hc1 Hc2 xc xp.
    rewrite !list_lookup_insert_ne by done. intros. eapply (Hh c); eauto.
  - intros c Hc Hc1 Hi xc xp.
    pose proof (par_lt c Hc). pose proof (par_lt i Hi).
    rewrite !list_lookup_insert_ne by lia. intros Hxc Hxp.
    destruct (lookup_lt_is_Some_2 l i) as [xi Hxi].
    { apply lookup_lt_Some in Hxc. lia. }
    eapply ple_trans; [eapply (Hh c)|eapply (Hh i)]; eauto. by rewrite Hc1.
Qed.

(** *** Floyd's build *)
Lemma abuild_loop_spec n : forall l l' t,
  ord_from n l -> abuild_loop l n = (l', t) -> ord_from 0 l' /\ l' ≡ₚ l.
Proof.
  induction n as [|n IH]; intros l l' t Ho Hs; cbn [Abs.abuild_loop] in Hs.
  - by simplify_eq.
  - destruct (aheapify l n) as [l1 t1] eqn:Hs1.
    destruct (abuild_loop l1 n) as [l2 t2] eqn:Hs2. simplify_eq.
    destruct (aheapify_spec n l n l1 t1) as [Ho1 Hp1]; [lia| |done|].
    { split.
      - intros c Hc Hk Hne. apply Ho; [done|lia].
      - intros c Hc Hp Hn Hk. pose proof (par_lt n Hn). lia. }
    destruct (IH l1 l' t2 Ho1 Hs2) as [? Hp2].
    split; [done|]. by rewrite Hp2.
Qed.

(** *** push *)
Lemma push_inv l e :
  heap_ord l -> repl_inv (l ++ [e]) (length l) /\ kids (l ++ [e]) (length l).
Proof.
  intros Hh. split; [split|].
  - intros c Hc Hc1 Hc2 xc xp Hxc Hxp. pose proof (par_lt c Hc).
    pose proof (lookup_lt_Some _ _ _ Hxc) as Hlt.
    rewrite app_length in Hlt. cbn [length] in Hlt.
    rewrite lookup_app_l in Hxc by lia. rewrite lookup_app_l in Hxp by lia.
    eapply (Hh c); eauto.
  - intros c Hc Hc1 _. pose proof (par_lt c Hc).
    apply le_at_None_l, lookup_ge_None. rewrite app_length. cbn [length]. lia.
  - intros c Hc Hc1. pose proof (par_lt c Hc).
    apply le_at_None_l, lookup_ge_None. rewrite app_length. cbn [length]. lia.
Qed.

End WithOrd.

(** ** the theorems *)

Theorem heap_root_max : heap_root_max_stmt pr ple.
Proof.
  intros Hord l x Hh H0. split.
  - eapply elem_of_list_lookup_2; eauto.
  - intros y Hy. apply elem_of_list_lookup in Hy as [i Hi].
    revert y Hi. induction (lt_wf i) as [i _ IH]. intros y Hi.
    destruct (decide (i = 0)) as [->|Hne].
    { simplify_eq. by apply ple_refl. }
    pose proof (par_lt i ltac:(lia)) as Hlt.
    destruct (lookup_lt_is_Some_2 l (par i)) as [z Hz].
    { apply lookup_lt_Some in Hi. lia. }
    eapply ple_trans; [done| |eapply (IH (par i)); eauto].
    eapply (Hh i); eauto. lia.
Qed.

Theorem abuild_ok : abuild_stmt pr ple.
Proof.
  intros Hord l. unfold Abs.abuild. case_decide as Hl.
  - cbn [fst]. split; [|done]. apply heap_ord_iff, ord_from_short. lia.
  - destruct (abuild_loop l (S (par (length l)))) as [l' t] eqn:Hs. cbn [fst].
    destruct (abuild_loop_spec Hord (S (par (length l))) l l' t) as [Ho Hp]; [|done|].
    + intros c Hc Hk xc xp Hxc _. apply lookup_lt_Some in Hxc.
      pose proof (par_mono c (length l)). lia.
    + split; [by apply heap_ord_iff|done].
Qed.

Theorem a_push_new_ok : a_push_new_stmt pr ple.
Proof.
  intros Hord l e Hh. unfold Abs.a_push_new.
  destruct (asift_up (S (length l)) (l ++ [e]) (length l)) as [[l' p'] t] eqn:Hs.
  cbn [fst].
  destruct (push_inv l e Hh) as [Hinv Hk].
  destruct (asift_up_spec Hord (S (length l)) (l ++ [e]) (length l) l' p' t)
    as (Hd & Hp & Hk'); [lia|done|done|].
  split.
  - apply heap_ord_iff. eapply down_inv_done; eauto.
  - rewrite Hp. symmetry. apply Permutation_cons_append.
Qed.

Theorem a_update_ok : a_update_stmt pr ple.
Proof.
  intros Hord l pos e' Hh Hlt. unfold Abs.a_update.
  destruct (aup_heapify (<[pos:=e']> l) pos) as [l' t] eqn:Hs. cbn [fst].
  eapply aup_heapify_spec; eauto. by apply repl_inv_insert.
Qed.

Theorem a_remove_ok : a_remove_stmt pr ple.
Proof.
  intros Hord l pos x Hh Hx.
  destruct l as [|y l0 _] using rev_ind; [done|].
  pose proof (aswap_remove_Permutation l0 y pos x Hx) as Hperm.
  unfold Abs.a_remove. cbv zeta.
  rewrite aswap_remove_snoc in *. case_decide as Hlt.
  - rewrite insert_length. rewrite decide_True by done.
    destruct (aup_heapify (<[pos:=y]> l0) pos) as [l' t] eqn:Hs. cbn [fst].
    destruct (aup_heapify_spec Hord (<[pos:=y]> l0) pos l' t) as [? Hp]; [|done|].
    { apply repl_inv_insert; [done|]. by eapply heap_ord_prefix. }
    split; [done|]. by rewrite Hp.
  - rewrite decide_False by done. cbn [fst].
    split; [by eapply heap_ord_prefix|done].
Qed.

Theorem a_pop_ok : a_pop_stmt pr ple.
Proof.
  intros Hord l Hh. unfold Abs.a_pop.
  destruct (length l) as [|[|n]] eqn:Hn.
  - apply nil_length_inv in Hn. subst. done.
  - destruct l as [|a [|b l'] ]; simplify_eq/=. split_and!; [|done..].
    apply heap_ord_iff, ord_from_short. vm_compute. lia.
  - destruct l as [|y l0 _] using rev_ind; [done|].
    rewrite app_length in Hn. cbn [length] in Hn.
    rewrite aswap_remove_snoc. rewrite decide_True by lia.
    destruct (aheapify (<[0:=y]> l0) 0) as [l' t] eqn:Hs.
    destruct (aheapify_spec Hord 0 (<[0:=y]> l0) 0 l' t) as [Ho Hp]; [lia| |done|].
    { apply repl_down; [|lia]. apply repl_inv_insert; [done|]. by eapply heap_ord_prefix. }
    split_and!; [by apply heap_ord_iff|done|].
    destruct ((l0 ++ [y]) !! 0) as [x|] eqn:Hx.
    + rewrite (aswap_remove_Permutation l0 y 0 x Hx).
      rewrite aswap_remove_snoc. rewrite decide_True by lia. by rewrite Hp.
    + apply lookup_ge_None in Hx. rewrite app_length in Hx. lia.
Qed.

Theorem a_pop_if_ok : a_pop_if_stmt pr ple.
Proof.
  intros Hord l f Hh. unfold Abs.a_pop_if.
  destruct (l !! 0) as [e|] eqn:H0.
  2:{ destruct l; [|done]. done. }
  destruct (f e) as [e' b]. cbv zeta.
  destruct (length l) as [|[|n]] eqn:Hn.
  - apply nil_length_inv in Hn. subst. done.
  - destruct l as [|a [|b' l'] ]; simplify_eq/=. destruct b.
    + split_and!; [|done..]. apply heap_ord_iff, ord_from_short. vm_compute. lia.
    + split_and!; [|done..]. apply heap_ord_iff, ord_from_short. cbn. lia.
  - destruct b.
    + destruct l as [|y l0 _] using rev_ind; [done|].
      rewrite app_length in Hn. cbn [length] in Hn.
      pose proof (aswap_remove_Permutation l0 y 0 e H0) as Hperm.
      rewrite aswap_remove_snoc in Hperm. rewrite decide_True in Hperm by lia.
      rewrite insert_app_l by lia. rewrite aswap_remove_snoc.
      rewrite insert_length. rewrite decide_True by lia.
      rewrite list_insert_insert.
      destruct (aheapify (<[0:=y]> l0) 0) as [l' t] eqn:Hs.
      destruct (aheapify_spec Hord 0 (<[0:=y]> l0) 0 l' t) as [Ho Hp]; [lia| |done|].
      { apply repl_down; [|lia]. apply repl_inv_insert; [done|]. by eapply heap_ord_prefix. }
      split_and!; [by apply heap_ord_iff|done|]. by rewrite Hp.
    + destruct (aheapify (<[0:=e']> l) 0) as [l' t] eqn:Hs.
      destruct (aheapify_spec Hord 0 (<[0:=e']> l) 0 l' t) as [Ho Hp]; [lia| |done|].
      { apply repl_down; [|lia]. by apply repl_inv_insert. }
      split_and!; [by apply heap_ord_iff|done|done].
Qed.

Lemma a_pop_all_spec (Hord : ord_ok ple) fuel : forall l,
  length l < fuel -> heap_ord l ->
  (a_pop_all fuel l).1 ≡ₚ l /\
  StronglySorted (fun a b => ple (pr b) (pr a) = true) (a_pop_all fuel l).1.
Proof.
  induction fuel as [|fuel IH]; intros l Hf Hh; [lia|].
  cbn [Abs.a_pop_all].
  pose proof (a_pop_ok Hord l Hh) as Hp.
  destruct (a_pop l) as [[r l'] t]. destruct Hp as (Hh' & Hr & Hm).
  destruct r as [x|].
  - assert (length l = S (length l')) as Hlen by (by rewrite Hm).
    destruct (IH l' ltac:(lia) Hh') as [Hp' Hs'].
    destruct (a_pop_all fuel l') as [out t']. cbn [fst] in *.
    split; [by rewrite Hm, Hp'|].
    constructor; [done|]. apply Forall_forall. intros z Hz.
    destruct (heap_root_max Hord l x Hh (eq_sym Hr)) as [_ Hmax].
    apply Hmax. rewrite Hm. right. by rewrite <- Hp'.
  - cbn [fst]. split; [|constructor]. destruct Hm as [-> _]. done.
Qed.

Theorem a_pop_all_ok : a_pop_all_stmt pr ple.
Proof.
  intros Hord l Hh.
  destruct (a_pop_all_spec Hord (S (length l)) l) as [? ?]; [lia|done|].
  split; [done|]. by apply StronglySorted_Sorted.
Qed.

End AbsPQProofs.

Print Assumptions heap_root_max.
Print Assumptions abuild_ok.
Print Assumptions a_push_new_ok.
Print Assumptions a_update_ok.
Print Assumptions a_remove_ok.
Print Assumptions a_pop_ok.
Print Assumptions a_pop_if_ok.
Print Assumptions a_pop_all_ok.
