(** * ListProofs: proofs of the statements pinned in ListSpec.v (and of
    [extend_push_same_stmt] from OpSpec.v). *)
From PQV Require Export ListSpec.

Section ListProofs.
Context {I P : Type}.
Variable keq : I -> I -> bool.
Variable hash : I -> N.
Variable peq : P -> P -> bool.

Notation gio := (get_index_of keq hash).
Notation nodup := (nodup_keys keq).
Notation alk := (alookup keq hash).
Notation E := (I * P)%type.

Section Lemmas.
Hypothesis Hk : keq_ok keq hash.
Implicit Types (m : list (I * P)) (k : I).

(** ** the key equivalence *)
Lemma keq_refl a : keq a a = true.
Proof. destruct Hk as (H1 & H2 & H3 & H4). apply H1. Qed.
Lemma keq_sym a b : keq a b = true -> keq b a = true.
Proof. destruct Hk as (H1 & H2 & H3 & H4). apply H2. Qed.
Lemma keq_trans a b c : keq a b = true -> keq b c = true -> keq a c = true.
Proof. destruct Hk as (H1 & H2 & H3 & H4). apply H3. Qed.
Lemma keq_hash a b : keq a b = true -> hash a = hash b.
Proof. destruct Hk as (H1 & H2 & H3 & H4). apply H4. Qed.

Lemma keq_sym_eq a b : keq a b = keq b a.
Proof.
  destruct (keq a b) eqn:E1, (keq b a) eqn:E2; auto.
  - apply keq_sym in E1. congruence.
  - apply keq_sym in E2. congruence.
Qed.
Lemma keq_congr_l a b k : keq a b = true -> keq a k = keq b k.
Proof.
  intros H. destruct (keq a k) eqn:E1, (keq b k) eqn:E2; auto.
  - rewrite (keq_trans b a k) in E2; auto using keq_sym.
  - rewrite (keq_trans a b k) in E1; auto.
Qed.
Lemma keq_congr_r a b k : keq a b = true -> keq k a = keq k b.
Proof. intros H. rewrite (keq_sym_eq k a), (keq_sym_eq k b). by apply keq_congr_l. Qed.

Lemma key_match_keq k (e : E) : key_match keq hash k e = keq e.1 k.
Proof.
  unfold key_match. destruct (keq e.1 k) eqn:E1.
  - rewrite (keq_hash _ _ E1), N.eqb_refl. done.
  - by rewrite andb_false_r.
Qed.

(** ** [find_idx] *)
Lemma find_idx_ext {A} (f g : A -> bool) l :
  (forall x, f x = g x) -> find_idx f l = find_idx g l.
Proof. intros H. induction l as [|x l IH]; cbn [find_idx]; [done|]. by rewrite H, IH. Qed.

Lemma find_idx_Some {A} (f : A -> bool) l i :
  find_idx f l = Some i <->
  exists x, l !! i = Some x /\ f x = true /\
            forall j y, j < i -> l !! j = Some y -> f y = false.
Proof.
  revert i. induction l as [|x l IH]; intros i; cbn [find_idx].
  - split; [done|]. intros (y & Hy & _). by rewrite lookup_nil in Hy.
  - destruct (f x) eqn:Hx.
    + split.
      * intros [= <-]. exists x. split_and!; auto. intros; lia.
      * intros (y & Hy & Hfy & Hlt). destruct i as [|i]; [done|].
        specialize (Hlt 0 x). cbn in Hlt. rewrite Hlt in Hx; [done|lia|done].
    + destruct (find_idx f l) as [i'|] eqn:Hfi; cbn.
      * split.
        -- intros [= <-]. destruct (proj1 (IH i') eq_refl) as (y & Hy & Hfy & Hlt).
           exists y. split_and!; auto. intros [|j] z Hj Hz; cbn in Hz.
           ++ congruence.
           ++ eapply Hlt; [|done]. lia.
        -- intros (y & Hy & Hfy & Hlt). destruct i as [|i]; cbn in Hy.
           { congruence. }
           f_equal. symmetry. enough (Some i' = Some i) by congruence. apply IH. exists y. split_and!; auto.
           intros j z Hj Hz. apply (Hlt (S j) z); [lia|done].
      * split; [done|]. intros (y & Hy & Hfy & Hlt). destruct i as [|i]; cbn in Hy.
        { congruence. }
        enough (None = Some i) by done. apply IH. exists y. split_and!; auto.
        intros j z Hj Hz. apply (Hlt (S j) z); [lia|done].
Qed.

Lemma find_idx_None {A} (f : A -> bool) l :
  find_idx f l = None <-> forall x, x ∈ l -> f x = false.
Proof.
  induction l as [|x l IH]; cbn [find_idx].
  - split; [|done]. intros _ x Hx. by apply elem_of_nil in Hx.
  - destruct (f x) eqn:Hx.
    + split; [done|]. intros H. rewrite H in Hx; [done|]. by left.
    + destruct (find_idx f l) eqn:Hfi; cbn.
      * split; [done|]. intros H. exfalso. enough (Some n = None) by done.
        apply IH. intros y Hy. apply H. by right.
      * split; [|done]. intros _ y [-> | Hy]%elem_of_cons; [done|]. by apply IH.
Qed.

(** ** [get_index_of] is the plain first-match scan with [keq] *)
Lemma gio_find m k : gio m k = find_idx (fun e : E => keq e.1 k) m.
Proof. unfold get_index_of. apply find_idx_ext. intros e. apply key_match_keq. Qed.

Lemma gio_Some m k i :
  gio m k = Some i <->
  exists e, m !! i = Some e /\ keq e.1 k = true /\
            forall j ej, j < i -> m !! j = Some ej -> keq ej.1 k = false.
Proof. rewrite gio_find. apply (find_idx_Some (fun e : E => keq e.1 k)). Qed.

Lemma gio_None m k :
  gio m k = None <-> forall e, e ∈ m -> keq e.1 k = false.
Proof. rewrite gio_find. apply (find_idx_None (fun e : E => keq e.1 k)). Qed.

Lemma gio_keq m k k' : keq k k' = true -> gio m k = gio m k'.
Proof.
  intros H. rewrite !gio_find. apply find_idx_ext. intros e. by apply keq_congr_r.
Qed.

(** ** [nodup_keys] as a recursive predicate; permutations *)
Lemma nodup_nil : nodup ([] : list E).
Proof. intros i j ei ej Hi. by rewrite lookup_nil in Hi. Qed.

Lemma nodup_cons (e : E) m :
  nodup (e :: m) <-> (forall x, x ∈ m -> keq e.1 x.1 = false) /\ nodup m.
Proof.
  split.
  - intros H. split.
    + intros x [j Hj]%elem_of_list_lookup. destruct (keq e.1 x.1) eqn:E1; [|done].
      specialize (H 0 (S j) e x eq_refl Hj E1). done.
    + intros i j ei ej Hi Hj He. specialize (H (S i) (S j) ei ej Hi Hj He). lia.
  - intros [H1 H2] [|i] [|j] ei ej Hi Hj He; cbn in Hi, Hj; simplify_eq.
    + done.
    + rewrite H1 in He; [done|]. by eapply elem_of_list_lookup_2.
    + apply keq_sym in He. rewrite H1 in He; [done|]. by eapply elem_of_list_lookup_2.
    + f_equal. by eapply H2.
Qed.

Lemma nodup_perm (m m' : list E) : m ≡ₚ m' -> nodup m -> nodup m'.
Proof.
  induction 1 as [|x l l' Hp IH|x y l|l l' l'' Hp1 IH1 Hp2 IH2]; auto.
  - rewrite !nodup_cons. intros [H1 H2]. split; [|auto].
    intros z Hz. apply H1. by rewrite Hp.
  - rewrite !nodup_cons. intros (H1 & H2 & H3). split_and!; auto.
    + intros z [-> | Hz]%elem_of_cons.
      * rewrite keq_sym_eq. apply H1. by left.
      * by apply H2.
    + intros z Hz. apply H1. by right.
Qed.

Lemma nodup_app (a b : list E) :
  nodup (a ++ b) <->
  nodup a /\ nodup b /\ forall x y, x ∈ a -> y ∈ b -> keq x.1 y.1 = false.
Proof.
  induction a as [|e a IH]; cbn [app].
  - split.
    + intros H. split_and!; auto using nodup_nil. intros x y Hx. by apply elem_of_nil in Hx.
    + by intros (_ & H & _).
  - rewrite !nodup_cons, IH. split.
    + intros (H1 & H2 & H3 & H4). split_and!; auto.
      * intros x Hx. apply H1. apply elem_of_app. by left.
      * intros x y [-> | Hx]%elem_of_cons Hy.
        -- apply H1. apply elem_of_app. by right.
        -- by apply H4.
    + intros ([H1 H2] & H3 & H4). split_and!; auto.
      * intros x [Hx | Hx]%elem_of_app; [by apply H1|]. apply H4; [by left|done].
      * intros x y Hx Hy. apply H4; [by right|done].
Qed.

Lemma nodup_unique (m : list E) e e' :
  nodup m -> e ∈ m -> e' ∈ m -> keq e.1 e'.1 = true -> e = e'.
Proof.
  intros Hn [i Hi]%elem_of_list_lookup [j Hj]%elem_of_list_lookup He.
  assert (i = j) by (by eapply Hn). congruence.
Qed.

(** ** [alookup] *)
Lemma alookup_nil k : alk ([] : list E) k = None.
Proof. done. Qed.

Lemma alookup_cons (e : E) m k :
  alk (e :: m) k = if keq e.1 k then Some e else alk m k.
Proof.
  unfold alookup, get_index_of. cbn [find_idx]. rewrite key_match_keq.
  destruct (keq e.1 k); [done|].
  by destruct (find_idx (key_match keq hash k) m).
Qed.

Lemma alookup_first m k : alk m k = first_of keq m k.
Proof.
  induction m as [|e m IH]; [done|].
  rewrite alookup_cons. unfold first_of. cbn [find]. fold (first_of keq m k).
  by rewrite IH.
Qed.

Lemma alookup_Some_1 m k e : alk m k = Some e -> e ∈ m /\ keq e.1 k = true.
Proof.
  induction m as [|x m IH]; [done|]. rewrite alookup_cons.
  destruct (keq x.1 k) eqn:Hx.
  - intros [= <-]. split; [by left|done].
  - intros [H1 H2]%IH. split; [by right|done].
Qed.

Lemma alookup_None m k : alk m k = None <-> forall e, e ∈ m -> keq e.1 k = false.
Proof.
  induction m as [|x m IH].
  - split; [|done]. intros _ e He. by apply elem_of_nil in He.
  - rewrite alookup_cons. destruct (keq x.1 k) eqn:Hx.
    + split; [done|]. intros H. rewrite H in Hx; [done|by left].
    + rewrite IH. split.
      * intros H e [-> | He]%elem_of_cons; auto.
      * intros H e He. apply H. by right.
Qed.

Lemma alookup_Some m k e :
  nodup m -> (alk m k = Some e <-> e ∈ m /\ keq e.1 k = true).
Proof.
  intros Hn. split; [apply alookup_Some_1|]. intros [He Hek].
  destruct (alk m k) as [e'|] eqn:Hl.
  - apply alookup_Some_1 in Hl as [He' Hek']. f_equal.
    eapply nodup_unique; eauto. eapply keq_trans; eauto using keq_sym.
  - rewrite alookup_None in Hl. rewrite Hl in Hek; done.
Qed.

Lemma alookup_keq m k k' : keq k k' = true -> alk m k = alk m k'.
Proof. intros H. unfold alookup. by rewrite (gio_keq m k k' H). Qed.

Lemma gio_None_alookup m k : gio m k = None <-> alk m k = None.
Proof. by rewrite gio_None, alookup_None. Qed.

Lemma gio_Some_alookup m k i :
  gio m k = Some i -> exists e, m !! i = Some e /\ alk m k = Some e /\ keq e.1 k = true.
Proof.
  intros H. destruct (proj1 (gio_Some m k i) H) as (e & He & Hek & _).
  exists e. split_and!; auto. unfold alookup. by rewrite H.
Qed.

Lemma option_ext {A} (o1 o2 : option A) :
  (forall x, o1 = Some x <-> o2 = Some x) -> o1 = o2.
Proof.
  intros H. destruct o1 as [a|], o2 as [b|]; auto.
  - symmetry. by apply H.
  - specialize (H a). destruct H as [H _]. by specialize (H eq_refl).
  - specialize (H b). destruct H as [_ H]. by specialize (H eq_refl).
Qed.

(** ** updates *)
Lemma nodup_insert m i (e e' : E) :
  nodup m -> m !! i = Some e -> keq e'.1 e.1 = true -> nodup (<[i := e']> m).
Proof.
  intros Hn Hi He a b ea eb Ha Hb Hab.
  assert (Hlt : i < length m) by (by eapply lookup_lt_Some).
  destruct (decide (a = i)) as [-> | Hai], (decide (b = i)) as [-> | Hbi]; auto.
  - rewrite list_lookup_insert in Ha by done. rewrite list_lookup_insert_ne in Hb by done.
    simplify_eq. eapply Hn; eauto. rewrite <- Hab. symmetry. by apply keq_congr_l.
  - rewrite list_lookup_insert in Hb by done. rewrite list_lookup_insert_ne in Ha by done.
    simplify_eq. eapply Hn; eauto. rewrite <- Hab. symmetry. by apply keq_congr_r.
  - rewrite list_lookup_insert_ne in Ha, Hb by done. eapply Hn; eauto.
Qed.

Lemma alookup_insert_eq m i (e e' : E) k :
  nodup m -> m !! i = Some e -> keq e'.1 e.1 = true ->
  alk (<[i := e']> m) k = if keq e.1 k then Some e' else alk m k.
Proof.
  revert i. induction m as [|x m IH]; intros i Hn Hi He; [done|].
  apply nodup_cons in Hn as [Hx Hn]. destruct i as [|i]; cbn in Hi.
  - simplify_eq. change (<[0:=e']> (e :: m)) with (e' :: m). rewrite !alookup_cons. rewrite (keq_congr_l _ _ k He). by destruct (keq e.1 k).
  - change (<[S i:=e']> (x :: m)) with (x :: <[i:=e']> m).
    rewrite !alookup_cons, (IH i) by done.
    destruct (keq e.1 k) eqn:E1, (keq x.1 k) eqn:E2; auto.
    assert (keq x.1 e.1 = true) by eauto using keq_trans, keq_sym.
    rewrite Hx in H; [done|]. by eapply elem_of_list_lookup_2.
Qed.

Lemma nodup_snoc m (e : E) :
  nodup m -> (forall x, x ∈ m -> keq x.1 e.1 = false) -> nodup (m ++ [e]).
Proof.
  intros Hn H. apply nodup_app. split_and!; auto.
  - apply nodup_cons. split; [|apply nodup_nil]. intros x Hx. by apply elem_of_nil in Hx.
  - intros x y Hx ->%elem_of_list_singleton. by apply H.
Qed.

Lemma alookup_snoc m (e : E) k :
  (forall x, x ∈ m -> keq x.1 e.1 = false) ->
  alk (m ++ [e]) k = if keq e.1 k then Some e else alk m k.
Proof.
  induction m as [|x m IH]; intros H; cbn [app].
  - by rewrite alookup_cons.
  - rewrite !alookup_cons, IH by (intros y Hy; apply H; by right).
    destruct (keq e.1 k) eqn:E1, (keq x.1 k) eqn:E2; auto.
    assert (keq x.1 e.1 = true) by eauto using keq_trans, keq_sym.
    rewrite H in H0; [done|by left].
Qed.

Lemma swap_remove_shape (m : list E) i e m' :
  map_swap_remove_index m i = Some (e, m') ->
  (m = m' ++ [e] /\ i = length m') \/
  (exists y m0, m = m0 ++ [y] /\ m0 !! i = Some e /\ m' = <[i := y]> m0).
Proof.
  unfold map_swap_remove_index. destruct (m !! i) as [x|] eqn:Hi; [|done].
  destruct (last m) as [y|] eqn:Hl; [|done]. intros [= -> <-].
  apply last_Some in Hl as [m0 ->]. rewrite app_length. cbn [length].
  replace (length m0 + 1 - 1) with (length m0) by lia.
  assert (Hlt : i < length (m0 ++ [y])) by (by eapply lookup_lt_Some).
  rewrite app_length in Hlt. cbn in Hlt.
  destruct (decide (i = length m0)) as [-> | Hne].
  - left. rewrite list_lookup_middle in Hi by done. simplify_eq.
    rewrite list_insert_id by (by apply list_lookup_middle).
    by rewrite take_app.
  - right. exists y, m0. rewrite lookup_app_l in Hi by lia. split_and!; auto.
    rewrite insert_app_l by lia.
    rewrite take_app_alt; [done|]. by rewrite insert_length.
Qed.

Lemma insert_perm (m0 : list E) i e y :
  m0 !! i = Some e -> m0 ++ [y] ≡ₚ e :: <[i := y]> m0.
Proof.
  revert i. induction m0 as [|x m0 IH]; intros [|i] Hi; cbn in Hi; simplify_eq; cbn.
  - constructor. by rewrite Permutation_app_comm.
  - rewrite (IH i Hi). apply perm_swap.
Qed.

(** ** [first_of] / [last_of] *)
Lemma find_app' {A} (f : A -> bool) a b :
  find f (a ++ b) = match find f a with Some x => Some x | None => find f b end.
Proof. induction a as [|x a IH]; cbn [app find]; [done|]. by destruct (f x). Qed.

Lemma first_of_cons (e : E) l k :
  first_of keq (e :: l) k = if keq e.1 k then Some e else first_of keq l k.
Proof. done. Qed.

Lemma last_of_cons (e : E) l k :
  last_of keq (e :: l) k =
  match last_of keq l k with
  | Some x => Some x
  | None => if keq e.1 k then Some e else None
  end.
Proof. unfold last_of. cbn [rev]. rewrite find_app'. done. Qed.

(** ** the steps of the bulk operations *)
Definition app_step (acc : list E) (e : E) : list E :=
  match gio acc e.1 with Some _ => acc | None => acc ++ [e] end.
Definition ext_step (acc : list E) (e : E) : list E :=
  match gio acc e.1 with Some i => <[i := e]> acc | None => acc ++ [e] end.
Definition push_step (acc : list E) (e : E) : list E :=
  match gio acc e.1 with
  | Some i => match acc !! i with
              | Some old => <[i := (old.1, e.2)]> acc
              | None => acc end
  | None => acc ++ [e] end.

Lemma append_list_cons m e l :
  append_list keq hash m (e :: l) = append_list keq hash (app_step m e) l.
Proof. done. Qed.
Lemma extend_list_cons m e l :
  extend_list keq hash m (e :: l) = extend_list keq hash (ext_step m e) l.
Proof. done. Qed.
Lemma push_list_cons m e l :
  push_list keq hash m (e :: l) = push_list keq hash (push_step m e) l.
Proof. done. Qed.

Lemma gio_None_snoc m (e : E) k :
  nodup m -> gio m e.1 = None ->
  nodup (m ++ [e]) /\
  alk (m ++ [e]) k = if keq e.1 k then Some e else alk m k.
Proof.
  intros Hn Hg. rewrite gio_None in Hg. split.
  - by apply nodup_snoc.
  - by apply alookup_snoc.
Qed.

Lemma app_step_ok m e k :
  nodup m ->
  nodup (app_step m e) /\
  alk (app_step m e) k =
    match alk m k with
    | Some x => Some x
    | None => if keq e.1 k then Some e else None
    end.
Proof.
  intros Hn. unfold app_step. destruct (gio m e.1) as [i|] eqn:Hg.
  - split; [done|]. apply gio_Some_alookup in Hg as (x & Hi & Hx & Hxe).
    destruct (keq e.1 k) eqn:Hek.
    + by rewrite <- (alookup_keq m e.1 k Hek), Hx.
    + by destruct (alk m k).
  - destruct (gio_None_snoc m e k Hn Hg) as [H1 H2]. split; [done|]. rewrite H2.
    destruct (keq e.1 k) eqn:Hek.
    + apply gio_None_alookup in Hg. by rewrite <- (alookup_keq m e.1 k Hek), Hg.
    + by destruct (alk m k).
Qed.

Lemma ext_step_ok m e k :
  nodup m ->
  nodup (ext_step m e) /\
  alk (ext_step m e) k = if keq e.1 k then Some e else alk m k.
Proof.
  intros Hn. unfold ext_step. destruct (gio m e.1) as [i|] eqn:Hg.
  - apply gio_Some_alookup in Hg as (x & Hi & Hx & Hxe). split.
    + eapply nodup_insert; eauto using keq_sym.
    + rewrite (alookup_insert_eq m i x e k) by eauto using keq_sym.
      by rewrite (keq_congr_l _ _ k Hxe).
  - by apply gio_None_snoc.
Qed.

Lemma push_step_ok m e k :
  nodup m ->
  nodup (push_step m e) /\
  alk (push_step m e) k =
    if keq e.1 k
    then Some (match alk m e.1 with Some old => (old.1, e.2) | None => e end)
    else alk m k.
Proof.
  intros Hn. unfold push_step. destruct (gio m e.1) as [i|] eqn:Hg.
  - apply gio_Some_alookup in Hg as (x & Hi & Hx & Hxe). rewrite Hi, Hx. split.
    + eapply nodup_insert; eauto using keq_refl.
    + rewrite (alookup_insert_eq m i x (x.1, e.2) k) by eauto using keq_refl.
      by rewrite (keq_congr_l _ _ k Hxe).
  - destruct (gio_None_snoc m e k Hn Hg) as [H1 H2]. split; [done|]. rewrite H2.
    apply gio_None_alookup in Hg. by rewrite Hg.
Qed.

Lemma fold_left_ext' {A B} (f g : A -> B -> A) l a :
  (forall a b, f a b = g a b) -> fold_left f l a = fold_left g l a.
Proof.
  intros H. revert a. induction l as [|x l IH]; intros a; cbn [fold_left]; [done|].
  by rewrite H, IH.
Qed.

Lemma visit_push (l : list E) : visit_list keq hash l = push_list keq hash [] l.
Proof.
  unfold visit_list, push_list. apply fold_left_ext'.
  intros acc e. unfold map_insert. by destruct e.
Qed.

Lemma push_list_nodup_id (acc l : list E) :
  nodup (acc ++ l) -> push_list keq hash acc l = acc ++ l.
Proof.
  revert acc. induction l as [|e l IH]; intros acc Hn.
  - by rewrite app_nil_r.
  - rewrite push_list_cons. unfold push_step.
    assert (Hg : gio acc e.1 = None).
    { apply gio_None. intros x Hx. apply nodup_app in Hn as (_ & _ & Hn).
      apply Hn; [done|by left]. }
    rewrite Hg, IH.
    + by rewrite <- app_assoc.
    + by rewrite <- app_assoc.
Qed.

(** ** retain *)
Lemma retain_list_cons f (e : E) m :
  retain_list f (e :: m) =
  match f e.1 e.2 with
  | (i', p', true) => (i', p') :: retain_list f m
  | (_, _, false) => retain_list f m
  end.
Proof.
  unfold retain_list. cbn [omap list_omap].
  destruct (f e.1 e.2) as [ [i' p'] [|] ]; done.
Qed.

Lemma elem_of_retain_list f m (e' : E) :
  e' ∈ retain_list f m <-> exists e, e ∈ m /\ f e.1 e.2 = (e'.1, e'.2, true).
Proof.
  unfold retain_list. rewrite elem_of_list_omap.
  split; intros (e & He & Hf); exists e; (split; [done|]).
  - destruct (f e.1 e.2) as [ [i' p'] [|] ]; by simplify_eq.
  - rewrite Hf. by destruct e'.
Qed.

Lemma retain_list_nodup f m :
  pred_ok keq f -> nodup m -> nodup (retain_list f m).
Proof.
  intros Hf. induction m as [|e m IH]; intros Hn; [done|].
  apply nodup_cons in Hn as [He Hn]. rewrite retain_list_cons.
  destruct (f e.1 e.2) as [ [i' p'] [|] ] eqn:Hfe; [|auto].
  apply nodup_cons. split; [|auto]. intros x (y & Hy & Hfy)%elem_of_retain_list.
  cbn [fst]. destruct (keq i' x.1) eqn:Hix; [|done].
  pose proof (Hf e.1 e.2) as H1. rewrite Hfe in H1. cbn in H1.
  pose proof (Hf y.1 y.2) as H2. rewrite Hfy in H2. cbn in H2.
  rewrite <- (He y Hy). symmetry.
  eauto using keq_trans, keq_sym.
Qed.

Lemma retain_list_length f (m : list E) : length (retain_list f m) <= length m.
Proof.
  induction m as [|e m IH]; [done|]. rewrite retain_list_cons.
  destruct (f e.1 e.2) as [ [i' p'] [|] ]; cbn [length]; lia.
Qed.

(** ** counting keys *)
Definition keys_incl (a b : list E) : Prop :=
  forall x, x ∈ a -> exists y, y ∈ b /\ keq x.1 y.1 = true.

Lemma keys_incl_split (e : E) a b :
  nodup (e :: a) -> keys_incl (e :: a) b ->
  exists y b', b ≡ₚ y :: b' /\ keq e.1 y.1 = true /\ keys_incl a b'.
Proof.
  intros [He Hn]%nodup_cons Hi.
  destruct (Hi e) as (y & Hy & Hey); [by left|].
  apply elem_of_Permutation in Hy as [b' Hp]. exists y, b'. split_and!; auto.
  intros x Hx. destruct (Hi x) as (z & Hz & Hxz); [by right|].
  rewrite Hp in Hz. apply elem_of_cons in Hz as [-> | Hz]; [|eauto].
  exfalso. assert (Hex : keq e.1 x.1 = true) by eauto using keq_trans, keq_sym.
  rewrite (He x Hx) in Hex. done.
Qed.

Lemma keys_incl_length a b : nodup a -> keys_incl a b -> length a <= length b.
Proof.
  revert b. induction a as [|e a IH]; intros b Hn Hi; cbn [length]; [lia|].
  destruct (keys_incl_split e a b Hn Hi) as (y & b' & Hp & Hey & Hi').
  rewrite Hp. cbn [length]. apply nodup_cons in Hn as [_ Hn].
  specialize (IH b' Hn Hi'). lia.
Qed.

Lemma keys_incl_surj a b :
  nodup a -> nodup b -> keys_incl a b -> length b <= length a -> keys_incl b a.
Proof.
  revert b. induction a as [|e a IH]; intros b Hna Hnb Hi Hlen.
  - destruct b; [|cbn in Hlen; lia]. intros x Hx. by apply elem_of_nil in Hx.
  - destruct (keys_incl_split e a b Hna Hi) as (y & b' & Hp & Hey & Hi').
    apply nodup_cons in Hna as [_ Hna].
    pose proof (nodup_perm _ _ Hp Hnb) as [_ Hnb']%nodup_cons.
    rewrite Hp in Hlen. cbn [length] in Hlen.
    assert (Hs : keys_incl b' a) by (apply IH; auto; lia).
    intros z Hz. rewrite Hp in Hz. apply elem_of_cons in Hz as [-> | Hz].
    + exists e. split; [by left|by apply keq_sym].
    + destruct (Hs z Hz) as (x & Hx & Hzx). exists x. split; [by right|done].
Qed.

Lemma agree_keys_incl ma mb :
  nodup ma -> (forall k, snd <$> alk ma k = snd <$> alk mb k) -> keys_incl ma mb.
Proof.
  intros Hn H x Hx.
  assert (Hl : alk ma x.1 = Some x) by (apply alookup_Some; auto using keq_refl).
  specialize (H x.1). rewrite Hl in H. destruct (alk mb x.1) as [y|] eqn:Hy; [|done].
  apply alookup_Some_1 in Hy as [Hy Hyx]. exists y. split; [done|by apply keq_sym].
Qed.

Lemma gio_same_kp m1 m2 k : same_kp keq m1 m2 -> gio m1 k = gio m2 k.
Proof.
  unfold get_index_of. induction 1 as [|a b m1 m2 [Hab _] _ IH]; [done|].
  cbn [find_idx]. rewrite !key_match_keq, IH. by rewrite (keq_congr_l _ _ k Hab).
Qed.

End Lemmas.

Theorem alookup_spec : alookup_spec_stmt (P:=P) keq hash.
Proof. intros Hk m k e Hn. by apply alookup_Some. Qed.

Theorem alookup_insert : alookup_insert_stmt (P:=P) keq hash.
Proof.
  intros Hk m i e e' k Hn Hi He. split.
  - by eapply nodup_insert.
  - by apply alookup_insert_eq.
Qed.

Theorem alookup_app : alookup_app_stmt (P:=P) keq hash.
Proof.
  intros Hk m e k Hn Hg. rewrite gio_None in Hg by done. split.
  - by apply nodup_snoc.
  - by apply alookup_snoc.
Qed.

Theorem alookup_swap_remove : alookup_swap_remove_stmt (P:=P) keq hash.
Proof.
  intros Hk m i e m' k Hn Hs.
  assert (Hp : m ≡ₚ e :: m').
  { apply swap_remove_shape in Hs as [ [-> _] | (y & m0 & -> & Hi & ->)].
    - by rewrite Permutation_app_comm.
    - by apply insert_perm. }
  pose proof (nodup_perm Hk _ _ Hp Hn) as Hn'.
  apply nodup_cons in Hn' as [He Hn']; [|done]. split_and!; auto.
  destruct (keq e.1 k) eqn:Hek.
  - apply alookup_None; [done|]. intros x Hx.
    rewrite <- (keq_congr_r Hk _ _ x.1 Hek). rewrite keq_sym_eq by done. by apply He.
  - apply option_ext. intros x. rewrite !alookup_Some by done.
    split.
    + intros [Hx Hxk]. split; [|done]. rewrite Hp. by right.
    + intros [Hx Hxk]. split; [|done]. rewrite Hp in Hx.
      apply elem_of_cons in Hx as [-> | Hx]; [congruence|done].
Qed.

Theorem append_list_ok : append_list_stmt (P:=P) keq hash.
Proof.
  intros Hk m l k. revert m. induction l as [|e l IH]; intros m Hn.
  - change (append_list keq hash m []) with m. split; [done|]. by destruct (alk m k).
  - rewrite append_list_cons.
    destruct (app_step_ok Hk m e k Hn) as [Hn1 Hl1].
    destruct (IH _ Hn1) as [Hn2 Hl2]. split; [done|].
    rewrite Hl2, Hl1, first_of_cons.
    destruct (alk m k); [done|]. by destruct (keq e.1 k).
Qed.

Theorem extend_list_ok : extend_list_stmt (P:=P) keq hash.
Proof.
  intros Hk m l k. revert m. induction l as [|e l IH]; intros m Hn.
  - split; done.
  - rewrite extend_list_cons.
    destruct (ext_step_ok Hk m e k Hn) as [Hn1 Hl1].
    destruct (IH _ Hn1) as [Hn2 Hl2]. split; [done|].
    rewrite Hl2, Hl1, last_of_cons.
    destruct (last_of keq l k); [done|]. by destruct (keq e.1 k).
Qed.

Theorem push_list_ok : push_list_stmt (P:=P) keq hash.
Proof.
  intros Hk m l k. revert m. induction l as [|e l IH]; intros m Hn.
  - change (push_list keq hash m []) with m. split_and!; [done|done|]. by destruct (alk m k).
  - rewrite push_list_cons.
    destruct (push_step_ok Hk m e k Hn) as [Hn1 Hl1].
    destruct (IH _ Hn1) as (Hn2 & Hs & Hf). split_and!; [done| |].
    + rewrite Hs, Hl1, last_of_cons.
      destruct (last_of keq l k); [done|].
      destruct (keq e.1 k); [|done]. by destruct (alk m e.1).
    + rewrite Hf, Hl1, first_of_cons.
      destruct (keq e.1 k) eqn:Hek.
      * rewrite (alookup_keq Hk m e.1 k Hek). by destruct (alk m k).
      * done.
Qed.

Theorem visit_list_ok : visit_list_stmt (P:=P) keq hash.
Proof.
  intros Hk l k. rewrite visit_push.
  destruct (push_list_ok Hk [] l k (nodup_nil)) as (Hn & Hs & Hf).
  split_and!; [done| |].
  - rewrite Hs. by destruct (last_of keq l k).
  - by rewrite Hf.
Qed.

Theorem visit_list_id : visit_list_id_stmt (P:=P) keq hash.
Proof. intros Hk m Hn. rewrite visit_push. by apply push_list_nodup_id. Qed.

Theorem retain_list_ok : retain_list_stmt (P:=P) keq hash.
Proof.
  intros Hk f m Hf Hn. split_and!.
  - by apply retain_list_nodup.
  - intros e'. apply elem_of_retain_list.
  - apply retain_list_length.
Qed.

Theorem store_eq_ok : store_eq_stmt keq hash peq.
Proof.
  intros Hk Hpeq a b Hna Hnb. unfold store_eq.
  set (ma := smap a) in *. set (mb := smap b) in *.
  change (fun e : E => match get keq hash b e.1 with
                       | Some e' => peq e.2 e'.2 | None => false end)
    with (fun e : E => match alk mb e.1 with
                       | Some e' => peq e.2 e'.2 | None => false end).
  assert (Hchk : forall e : E,
    match alk mb e.1 with Some e' => peq e.2 e'.2 | None => false end = true <->
    snd <$> alk mb e.1 = Some e.2).
  { intros e. destruct (alk mb e.1) as [e'|]; cbn; [|done].
    rewrite Hpeq. split; congruence. }
  rewrite andb_true_iff, Nat.eqb_eq, forallb_forall. split.
  - intros [Hlen Hall].
    assert (Hall' : forall e, e ∈ ma -> snd <$> alk mb e.1 = Some e.2).
    { intros e He. apply Hchk, Hall. by apply elem_of_list_In. }
    assert (Hi : keys_incl ma mb).
    { intros x Hx. specialize (Hall' x Hx).
      destruct (alk mb x.1) as [y|] eqn:Hy; [|done].
      apply (alookup_Some_1 Hk) in Hy as [Hy Hyx]. exists y.
      split; [done|by apply keq_sym]. }
    assert (Hs : keys_incl mb ma) by (apply keys_incl_surj; auto; lia).
    intros k. destruct (alk ma k) as [e|] eqn:He.
    + apply (alookup_Some_1 Hk) in He as [He Hek].
      rewrite <- (alookup_keq Hk mb e.1 k Hek), (Hall' e He). done.
    + destruct (alk mb k) as [y|] eqn:Hy; [|done].
      apply (alookup_Some_1 Hk) in Hy as [Hy Hyk].
      destruct (Hs y Hy) as (x & Hx & Hyx).
      rewrite (alookup_None Hk) in He. exfalso.
      assert (Hxk : keq x.1 k = true) by eauto using keq_trans, keq_sym.
      rewrite (He x Hx) in Hxk. done.
  - intros H. split.
    + apply Nat.le_antisymm; apply keys_incl_length; auto.
      * by apply agree_keys_incl.
      * by apply agree_keys_incl.
    + intros e He%elem_of_list_In. apply Hchk.
      rewrite <- H.
      assert (Hl : alk ma e.1 = Some e) by (apply alookup_Some; auto using keq_refl).
      by rewrite Hl.
Qed.

Theorem extend_push_same : extend_push_same_stmt (P:=P) keq hash.
Proof.
  intros Hk m l _.
  assert (H : same_kp keq m m).
  { apply Forall_Forall2_diag, Forall_forall. intros x _. split; [by apply keq_refl|done]. }
  revert H. generalize m at 1 3 as m1. generalize m as m2.
  induction l as [|e l IH]; intros m2 m1 H; [done|].
  rewrite extend_list_cons, push_list_cons. apply IH.
  unfold ext_step, push_step. rewrite (gio_same_kp Hk m1 m2 e.1 H).
  destruct (gio m2 e.1) as [i|] eqn:Hg.
  - apply (gio_Some Hk) in Hg as (old & Hi & Hoe & _). rewrite Hi.
    apply Forall2_insert; [done|]. split; [by apply keq_sym|done].
  - apply Forall2_app; [done|]. constructor; [|constructor].
    split; [by apply keq_refl|done].
Qed.

End ListProofs.

Print Assumptions alookup_spec.
Print Assumptions alookup_insert.
Print Assumptions alookup_app.
Print Assumptions alookup_swap_remove.
Print Assumptions append_list_ok.
Print Assumptions extend_list_ok.
Print Assumptions push_list_ok.
Print Assumptions visit_list_ok.
Print Assumptions visit_list_id.
Print Assumptions retain_list_ok.
Print Assumptions store_eq_ok.
Print Assumptions extend_push_same.
