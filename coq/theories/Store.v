(** * Store: the model of src/store.rs (and of the IndexMap operations it uses).

    [map]  : the IndexMap, a list of (item, priority) in slot order;
    [heap] : heap position -> slot;  [qp] : slot -> heap position;  [size].
    Ghost fields: [ticks] counts calls of [Ord::cmp] on priorities, [fuse]
    makes the k-th user callback unwind, [cap] is a lower bound of
    [capacity()]. *)
From PQV Require Export Base.

Section Store.
Context {I P : Type}.
Variable keq : I -> I -> bool.     (* Eq on items (first argument: stored key) *)
Variable hash : I -> N.            (* Hash on items *)
Variable ple : P -> P -> bool.     (* Ord on priorities: a <= b *)
Variable alloc_limit : N.          (* largest element count an allocation can hold *)

Record store := mkStore {
  smap : list (I * P);
  heap : list nat;
  qp : list nat;
  ssize : nat;
  ticks : nat;
  fuse : option nat;
  cap : N;
}.

Notation R := (res store).

Definition set_map (s : store) m := mkStore m (heap s) (qp s) (ssize s) (ticks s) (fuse s) (cap s).
Definition set_heap (s : store) h := mkStore (smap s) h (qp s) (ssize s) (ticks s) (fuse s) (cap s).
Definition set_qp (s : store) q := mkStore (smap s) (heap s) q (ssize s) (ticks s) (fuse s) (cap s).
Definition set_size (s : store) n := mkStore (smap s) (heap s) (qp s) n (ticks s) (fuse s) (cap s).
Definition set_ticks (s : store) t := mkStore (smap s) (heap s) (qp s) (ssize s) t (fuse s) (cap s).
Definition set_fuse (s : store) f := mkStore (smap s) (heap s) (qp s) (ssize s) (ticks s) f (cap s).
Definition set_cap (s : store) c := mkStore (smap s) (heap s) (qp s) (ssize s) (ticks s) (fuse s) c.

Definition empty_store (c : N) : store := mkStore [] [] [] 0 0 None c.

(** ** user callbacks, comparisons *)

(** every call into user code goes through [cb]: it unwinds when the fuse is
    at zero, handing back the state as it is at that instant *)
Definition cb (s : store) : R store :=
  match fuse s with
  | None => Ok s
  | Some (S k) => Ok (set_fuse s (Some k))
  | Some O => Unwound (set_fuse s None)
  end.

Definition plt (a b : P) : bool := negb (ple b a).

(** [a < b] on priorities: exactly one call of [Ord::cmp] *)
Definition cmp_lt (s : store) (a b : P) : R (bool * store) :=
  s' ← cb s; Ok (plt a b, set_ticks s' (S (ticks s'))).

(** ** IndexMap *)

Definition key_match (k : I) (e : I * P) : bool :=
  N.eqb (hash e.1) (hash k) && keq e.1 k.

(** [IndexMap::get_index_of]: hash, then probe with [Eq] *)
Definition get_index_of (m : list (I * P)) (k : I) : option nat :=
  find_idx (key_match k) m.

(** [IndexMap::swap_remove_index] *)
Definition map_swap_remove_index (m : list (I * P)) (i : nat)
  : option ((I * P) * list (I * P)) :=
  match m !! i, last m with
  | Some x, Some y => Some (x, take (length m - 1) (<[i:=y]> m))
  | _, _ => None
  end.

(** [IndexMap::retain2] with a predicate that may rewrite item and priority;
    one callback per entry, in slot order, order preserving.
    (Unwinding out of the predicate is described at the level of the whole
    store in [retain_mut] below.) *)

(** ** Store::swap (store.rs:262) *)
Definition swap (s : store) (a b : nat) : R store :=
  ia ← getu (heap s) a;
  ib ← getu (heap s) b;
  q ← vswap (qp s) ia ib;
  h ← vswap (heap s) a b;
  Ok (set_heap (set_qp s q) h).

(** ** Store::swap_remove (store.rs:275) *)
Definition swap_remove (s : store) (pos : nat) : R (option (I * P) * store) :=
  '(head, heap1) ← vswap_remove (heap s) pos;
  size1 ← sub1 (ssize s);
  qp1 ← (if decide (pos < size1)
         then h ← getu heap1 pos; setu (qp s) h pos
         else Ok (qp s));
  '(_, qp2) ← vswap_remove qp1 head;
  heap2 ← (if decide (head < size1)
           then q ← getu qp2 head; setu heap1 q head
           else Ok heap1);
  match map_swap_remove_index (smap s) head with
  | Some (e, m') =>
      Ok (Some e, set_size (set_qp (set_heap (set_map s m') heap2) qp2) size1)
  | None =>
      Ok (None, set_size (set_qp (set_heap s heap2) qp2) size1)
  end.

(** ** Store::get_priority_from_position (store.rs:305) *)
Definition prio_at (s : store) (pos : nat) : R P :=
  i ← getu (heap s) pos;
  e ← unwrap (smap s !! i);
  Ok e.2.

(** ** Store::swap_remove_if (store.rs:345).
    The predicate is data: [f i p = (i', p', verdict)]. *)
Definition swap_remove_if (s : store) (pos : nat) (f : I -> P -> I * P * bool)
  : R (option (I * P) * store) :=
  head ← getu (heap s) pos;
  e ← unwrap (smap s !! head);
  s1 ← cb s;
  let '(i', p', b) := f e.1 e.2 in
  let s2 := set_map s1 (<[head := (i', p')]> (smap s1)) in
  if b then swap_remove s2 pos else Ok (None, s2).

(** ** Store::change_priority (store.rs:367) *)
Definition change_priority (s : store) (k : I) (p : P)
  : R (option (P * nat) * store) :=
  match get_index_of (smap s) k with
  | None => Ok (None, s)
  | Some i =>
      e ← unwrap (smap s !! i);
      pos ← getu (qp s) i;
      Ok (Some (e.2, pos), set_map s (<[i := (e.1, p)]> (smap s)))
  end.

(** ** Store::change_priority_by (store.rs:383); the setter is [g : P -> P] *)
Definition change_priority_by (s : store) (k : I) (g : P -> P)
  : R (option nat * store) :=
  match get_index_of (smap s) k with
  | None => Ok (None, s)
  | Some i =>
      e ← unwrap (smap s !! i);
      s1 ← cb s;
      let s2 := set_map s1 (<[i := (e.1, g e.2)]> (smap s1)) in
      pos ← getu (qp s2) i;
      Ok (Some pos, s2)
  end.

(** ** lookups (store.rs:397-430) *)
Definition get (s : store) (k : I) : option (I * P) :=
  i ← get_index_of (smap s) k; smap s !! i.
Definition get_priority (s : store) (k : I) : option P :=
  snd <$> get s k.
(** [get_mut]: the caller may rewrite the item through the reference *)
Definition get_mut (s : store) (k : I) (u : I -> I) : option (I * P) * store :=
  match get_index_of (smap s) k with
  | None => (None, s)
  | Some i =>
      match smap s !! i with
      | None => (None, s)
      | Some e => (Some (u e.1, e.2), set_map s (<[i := (u e.1, e.2)]> (smap s)))
      end
  end.

(** ** Store::remove (store.rs:432) *)
Definition remove (s : store) (k : I) : R (option (I * P * nat) * store) :=
  match get_index_of (smap s) k with
  | None => Ok (None, s)
  | Some i =>
      match map_swap_remove_index (smap s) i with
      | None => Ok (None, s)
      | Some (e, m') =>
          size1 ← sub1 (ssize s);
          '(pos, qp1) ← vswap_remove (qp s) i;
          '(_, heap1) ← vswap_remove (heap s) pos;
          '(qp2, heap2) ←
            (if decide (i < size1) then
               qpi ← getu qp1 i;
               if decide (qpi = size1)
               then q ← setu qp1 i pos; Ok (q, heap1)
               else h ← setu heap1 qpi i; Ok (qp1, h)
             else Ok (qp1, heap1));
          '(qp3, heap3) ←
            (if decide (pos < size1) then
               hp ← getu heap2 pos;
               if decide (hp = size1)
               then h ← setu heap2 pos i; Ok (qp2, h)
               else q ← setu qp2 hp pos; Ok (q, heap2)
             else Ok (qp2, heap2));
          Ok (Some (e.1, e.2, pos),
              set_size (set_qp (set_heap (set_map s m') heap3) qp3) size1)
      end
  end.

(** ** Store::retain_mut (store.rs:328); [retain] is the special case of a
    predicate that rewrites nothing.  One callback per entry, in slot order. *)
(** if elements were removed, the tables are reset to the identity *)
Definition realign (s : store) : store :=
  let n := length (smap s) in
  if decide (n = ssize s) then s
  else set_qp (set_heap (set_size s n) (seq 0 n)) (seq 0 n).

Fixpoint retain_entries (f : I -> P -> I * P * bool) (s : store)
  (done todo : list (I * P)) : R (list (I * P) * store) :=
  match todo with
  | [] => Ok (done, s)
  | e :: todo' =>
      match cb s with
      | Ok s1 =>
          let '(i', p', b) := f e.1 e.2 in
          retain_entries f s1 (if b then done ++ [(i', p')] else done) todo'
      | Unwound s1 =>
          (* Vec::retain_mut's drop guard: the processed survivors, then the
             entry being examined and the unprocessed tail, unchanged; then
             the store's own drop guard (Realign) lets the map finish its
             bookkeeping and realigns heap, qp and size with the map *)
          Unwound (realign (set_map s1 (done ++ e :: todo')))
      | Fault x => Fault x
      end
  end.

Definition retain_mut (s : store) (f : I -> P -> I * P * bool) : R store :=
  '(m', s1) ← retain_entries f s [] (smap s);
  Ok (realign (set_map s1 m')).

(** ** Store::drain / clear (store.rs:213, :251): tables and map are emptied
    at the call; the elements belong to the iterator from then on *)
Definition clear (s : store) : store :=
  set_size (set_qp (set_heap (set_map s []) []) []) 0.
Definition drain (s : store) : list (I * P) * store := (smap s, clear s).

(** append one fresh entry to the three collections (the common tail of
    append / from / from_iter / extend / visit_seq) *)
Definition push_entry (s : store) (e : I * P) : store :=
  set_size (set_qp (set_heap (set_map s (smap s ++ [e])) (heap s ++ [ssize s]))
                   (qp s ++ [ssize s])) (S (ssize s)).

(** ** Store::append (store.rs:474).  Returns (self', other').
    [std::mem::swap] exchanges the contents; the ghost fields stay put. *)
Definition with_ghost_of (g c : store) : store :=
  mkStore (smap c) (heap c) (qp c) (ssize c) (ticks g) (fuse g) (cap c).

Fixpoint append_entries (s : store) (l : list (I * P)) : store :=
  match l with
  | [] => s
  | e :: l' =>
      append_entries
        (match get_index_of (smap s) e.1 with
         | Some _ => s
         | None => push_entry s e
         end) l'
  end.

Definition append (s o : store) : store * store :=
  let '(s, o) := if decide (ssize s < ssize o)
                 then (with_ghost_of s o, with_ghost_of o s) else (s, o) in
  if decide (ssize o = 0) then (s, o)
  else (append_entries s (smap o), clear o).

(** ** From<Vec> (store.rs:532): the first occurrence of an item wins *)
Definition from_vec (l : list (I * P)) : store :=
  append_entries (empty_store (N.of_nat (length l))) l.

(** [reserve]: the documented capacity-overflow panic *)
Definition reserve (s : store) (n : N) : R store :=
  if decide (N.of_nat (length (smap s)) + n <= alloc_limit)%N
  then Ok (set_cap s (N.max (cap s) (N.of_nat (length (smap s)) + n)))
  else Fault Panic.
Definition try_reserve (s : store) (n : N) : bool * store :=
  if decide (N.of_nat (length (smap s)) + n <= alloc_limit)%N
  then (true, set_cap s (N.max (cap s) (N.of_nat (length (smap s)) + n)))
  else (false, s).
Definition shrink_to_fit (s : store) : store :=
  set_cap s (N.of_nat (length (smap s))).
Definition with_capacity (c : N) : R store :=
  if decide (c <= alloc_limit)%N then Ok (empty_store c) else Fault Panic.

(** ** Store::extend (store.rs:589) and FromIterator (store.rs:554): the last
    occurrence wins and the stored *item* is overwritten too.  One callback
    per pull from the feeding iterator (the last pull returns None). *)
Definition extend_one (s : store) (e : I * P) : store :=
  match get_index_of (smap s) e.1 with
  | Some i => set_map s (<[i := e]> (smap s))
  | None => push_entry s e
  end.

Fixpoint extend_entries (s : store) (l : list (I * P)) : R store :=
  s1 ← cb s;
  match l with
  | [] => Ok s1
  | e :: l' => extend_entries (extend_one s1 e) l'
  end.

Definition size_hint := (N * option N)%type.

Definition from_iter (fz : option nat) (l : list (I * P)) (h : size_hint) : R store :=
  s0 ← with_capacity h.1;
  extend_entries (set_fuse s0 fz) l.

(** ** serde: Serialize writes the map in slot order; visit_seq (store.rs:696) *)
Definition serialize (s : store) : list (I * P) := smap s.

(** [IndexMap::insert]: a present key keeps its slot and its key, the value
    is replaced *)
Definition map_insert (m : list (I * P)) (k : I) (p : P) : list (I * P) :=
  match get_index_of m k with
  | Some i => match m !! i with
              | Some e => <[i := (e.1, p)]> m
              | None => m
              end
  | None => m ++ [(k, p)]
  end.

Definition visit_one (s : store) (e : I * P) : store :=
  match get_index_of (smap s) e.1 with
  | Some _ => set_map s (map_insert (smap s) e.1 e.2)
  | None => push_entry s e
  end.

Definition visit_seq (l : list (I * P)) : store :=
  fold_left visit_one l (empty_store (N.of_nat (length l))).

(** ** PartialEq (store.rs:517) = IndexMap's: same length and every entry of
    the left has an equal priority on the right.  [peq] is [P: PartialEq]. *)
Definition store_eq (peq : P -> P -> bool) (a b : store) : bool :=
  Nat.eqb (length (smap a)) (length (smap b)) &&
  forallb (fun e => match get b e.1 with
                    | Some e' => peq e.2 e'.2
                    | None => false
                    end) (smap a).

End Store.

Arguments store : clear implicits.
