(** * PropSpec: the remaining property-level statements (C03, C07, C08,
    C11, C12, C14-C18), phrased on the item -> (item, priority) association
    that a store holds.  Proved in PropProofs.v from the per-operation
    theorems. *)
From PQV Require Export Spec ListSpec IterSpec.

Section PropSpec.
Context {I P : Type}.
Variable keq : I -> I -> bool.
Variable hash : I -> N.
Variable ple : P -> P -> bool.
Variable peq : P -> P -> bool.
Variable alloc_limit : N.

Notation store := (store I P).
Notation R := (res store).
Notation al := (alookup keq hash).

(** either queue kind *)
Definition qinv (k : kind) (o : bool) (s : store) : Prop := reg_inv keq ple o (k, s).
Definition q_push (k : kind) := match k with KPQ => push keq hash ple | KDPQ => dpush keq hash ple end.
Definition q_push_dir (k : kind) (dir : bool) :=
  match k, dir with
  | KPQ, true => push_increase keq hash ple | KPQ, false => push_decrease keq hash ple
  | KDPQ, true => dpush_increase keq hash ple | KDPQ, false => dpush_decrease keq hash ple
  end.
Definition q_change (k : kind) :=
  match k with KPQ => pq_change_priority keq hash ple | KDPQ => dpq_change_priority keq hash ple end.
Definition q_change_by (k : kind) :=
  match k with KPQ => pq_change_priority_by keq hash ple | KDPQ => dpq_change_priority_by keq hash ple end.
Definition q_remove (k : kind) :=
  match k with KPQ => pq_remove keq hash ple | KDPQ => dpq_remove keq hash ple end.
(** pop from an end: a PriorityQueue only has the max end *)
Definition q_pop (k : kind) (mx : bool) : store -> R (option (I * P) * store) :=
  match k, mx with
  | KPQ, _ => pop ple
  | KDPQ, true => pop_max ple
  | KDPQ, false => pop_min ple
  end.
Definition q_pop_if (k : kind) (mx : bool)
  : store -> (I -> P -> I * P * bool) -> R (option (I * P) * store) :=
  match k, mx with
  | KPQ, _ => pop_if ple
  | KDPQ, true => pop_max_if ple
  | KDPQ, false => pop_min_if ple
  end.
Definition q_build (k : kind) : store -> R store := match k with KPQ => heap_build ple | KDPQ => dheap_build ple end.
Definition q_retain (k : kind) : store -> (I -> P -> I * P * bool) -> R store :=
  match k with KPQ => pq_retain_mut ple | KDPQ => dpq_retain_mut ple end.
Definition q_from_vec (k : kind) :=
  match k with KPQ => pq_from_vec keq hash ple | KDPQ => dpq_from_vec keq hash ple end.
Definition q_from_iter (k : kind) :=
  match k with KPQ => pq_from_iter keq hash ple alloc_limit | KDPQ => dpq_from_iter keq hash ple alloc_limit end.
Definition q_extend (k : kind) :=
  match k with KPQ => pq_extend keq hash ple alloc_limit | KDPQ => dpq_extend keq hash ple alloc_limit end.
Definition q_append (k : kind) :=
  match k with KPQ => pq_append keq hash ple | KDPQ => dpq_append keq hash ple end.
Definition q_deserialize (k : kind) :=
  match k with KPQ => pq_deserialize keq hash ple | KDPQ => dpq_deserialize keq hash ple end.

(** ** C03: contents and return values match a map from item to priority *)

(** the contents are a function of the key: one entry per Eq class, and
    len is their number *)
Definition C03_contents_stmt : Prop := keq_ok keq hash ->
  forall k o s, qinv k o s ->
    nodup_keys keq (smap s) /\ ssize s = length (smap s) /\
    (forall j, get keq hash s j = al (smap s) j) /\
    (forall j, get_priority keq hash s j = snd <$> al (smap s) j).

Definition C03_push_stmt : Prop := keq_ok keq hash -> ord_ok ple ->
  forall k o s i p, qinv k o s ->
    exists out s', q_push k s i p = Ok (out, s') /\ qinv k o s' /\
      out = snd <$> al (smap s) i /\
      forall j, al (smap s') j =
        if keq i j then Some (match al (smap s) i with Some e => e.1 | None => i end, p)
        else al (smap s) j.

Definition C03_change_stmt : Prop := keq_ok keq hash -> ord_ok ple ->
  forall k o s i p, qinv k o s ->
    exists out s', q_change k s i p = Ok (out, s') /\ qinv k o s' /\
      out = snd <$> al (smap s) i /\
      forall j, al (smap s') j =
        match al (smap s) i with
        | Some e => if keq i j then Some (e.1, p) else al (smap s) j
        | None => al (smap s) j
        end.

Definition C03_change_by_stmt : Prop := keq_ok keq hash -> ord_ok ple ->
  forall k o s i g, qinv k o s ->
    exists out s', q_change_by k s i g = Ok (out, s') /\ qinv k o s' /\
      out = bool_decide (is_Some (al (smap s) i)) /\
      forall j, al (smap s') j =
        match al (smap s) i with
        | Some e => if keq i j then Some (e.1, g e.2) else al (smap s) j
        | None => al (smap s) j
        end.

Definition C03_remove_stmt : Prop := keq_ok keq hash -> ord_ok ple ->
  forall k o s i, qinv k o s ->
    exists out s', q_remove k s i = Ok (out, s') /\ qinv k o s' /\
      out = al (smap s) i /\
      forall j, al (smap s') j =
        match al (smap s) i with
        | Some e => if keq i j then None else al (smap s) j
        | None => al (smap s) j
        end.

Definition C03_pop_stmt : Prop := keq_ok keq hash -> ord_ok ple ->
  forall k mx o s, qinv k o s ->
    exists out s', q_pop k mx s = Ok (out, s') /\ qinv k o s' /\
      match out with
      | Some e => al (smap s) e.1 = Some e /\
                  forall j, al (smap s') j = if keq e.1 j then None else al (smap s) j
      | None => smap s = [] /\ smap s' = []
      end.

(** ** C11: push_increase / push_decrease *)
Definition C11_stmt : Prop := keq_ok keq hash -> ord_ok ple ->
  forall k (dir : bool) o s i p, qinv k o s ->
    exists out s', q_push_dir k dir s i p = Ok (out, s') /\ qinv k o s' /\
      match al (smap s) i with
      | None => out = None /\
                forall j, al (smap s') j = if keq i j then Some (i, p) else al (smap s) j
      | Some e =>
          if (if dir then alt ple e.2 p else alt ple p e.2)
          then out = Some e.2 /\
               forall j, al (smap s') j = if keq i j then Some (e.1, p) else al (smap s) j
          else out = Some p /\ smap s' = smap s /\ heap s' = heap s /\ qp s' = qp s
      end.

(** ** C12: updates never replace the stored item *)
Definition C12_stmt : Prop := keq_ok keq hash -> ord_ok ple ->
  forall k o s i p g (dir : bool), qinv k o s ->
    (forall out s', q_push k s i p = Ok (out, s') ->
       forall j e, al (smap s) j = Some e -> fst <$> al (smap s') j = Some e.1) /\
    (forall out s', q_push_dir k dir s i p = Ok (out, s') ->
       forall j e, al (smap s) j = Some e -> fst <$> al (smap s') j = Some e.1) /\
    (forall out s', q_change k s i p = Ok (out, s') ->
       forall j, fst <$> al (smap s') j = fst <$> al (smap s) j) /\
    (forall out s', q_change_by k s i g = Ok (out, s') ->
       forall j, fst <$> al (smap s') j = fst <$> al (smap s) j) /\
    (forall out s', q_remove k s i = Ok (out, s') ->
       forall j, keq i j = false -> al (smap s') j = al (smap s) j).
(** what get_mut / peek_mut wrote is what is stored afterwards *)
Definition C12_get_mut_stmt : Prop := keq_ok keq hash ->
  forall k o s i u, item_ok keq u -> qinv k o s ->
    let '(out, s') := get_mut keq hash s i u in
    qinv k o s' /\
    match al (smap s) i with
    | None => out = None /\ s' = s
    | Some e => out = Some (u e.1, e.2) /\
                forall j, al (smap s') j = if keq i j then Some (u e.1, e.2) else al (smap s) j
    end.

(** ** C07: bulk construction, extend, append *)
Definition C07_from_vec_stmt : Prop := keq_ok keq hash -> ord_ok ple ->
  forall k l, exists s', q_from_vec k l = Ok s' /\ qinv k true s' /\
    forall j, al (smap s') j = first_of keq l j.

Definition C07_from_iter_stmt : Prop := keq_ok keq hash -> ord_ok ple ->
  forall k l (h : size_hint), (h.1 <= alloc_limit)%N ->
    exists s', q_from_iter k l h = Ok s' /\ qinv k true s' /\
      forall j, al (smap s') j = last_of keq l j.

(** extend: the priorities are the last ones given, whatever the hint and
    whichever strategy; no legal hint makes it fail (only the lower bound is
    reserved) *)
Definition C07_extend_stmt : Prop := keq_ok keq hash -> ord_ok ple ->
  forall k o s l (h : size_hint), qinv k o s ->
    (N.of_nat (length (smap s)) + h.1 <= alloc_limit)%N ->
    exists s', q_extend k s l h = Ok s' /\ qinv k o s' /\
      forall j, snd <$> al (smap s') j =
                match last_of keq l j with Some e => Some e.2 | None => snd <$> al (smap s) j end.

Definition C07_append_stmt : Prop := keq_ok keq hash -> ord_ok ple ->
  forall k s o, qinv k false s -> qinv k false o ->
    exists s' o', q_append k s o = Ok (s', o') /\ qinv k true s' /\ qinv k true o' /\
      smap o' = [] /\
      forall j,
        (* every key of either side is present; a clash keeps the receiver's
           entry unless the other queue was longer *)
        al (smap s') j =
          if decide (ssize s < ssize o)
          then match al (smap o) j with Some e => Some e | None => al (smap s) j end
          else match al (smap s) j with Some e => Some e | None => al (smap o) j end.

Definition C07_convert_stmt : Prop := keq_ok keq hash -> ord_ok ple ->
  forall k k' s, qinv k false s ->
    exists s', q_build k' s = Ok s' /\ qinv k' true s' /\ smap s' = smap s.

(** ** C08: retain / pop_if (iter_mut: IterSpec.itermut_stmt + build) *)
Definition C08_retain_stmt : Prop := keq_ok keq hash -> ord_ok ple ->
  forall k s f, pred_ok keq f -> qinv k false s ->
    exists s', q_retain k s f = Ok s' /\ qinv k true s' /\
      smap s' = retain_list f (smap s).

Definition C08_pop_if_stmt : Prop := keq_ok keq hash -> ord_ok ple ->
  forall k mx o s f, pred_ok keq f -> qinv k o s ->
    exists out s', q_pop_if k mx s f = Ok (out, s') /\ qinv k o s' /\
      (* the element shown to the predicate is the one pop would take *)
      match q_pop k mx s with
      | Ok (None, _) => out = None /\ smap s' = smap s
      | Ok (Some e, _) =>
          let '(i', p', b) := f e.1 e.2 in
          if b : bool
          then out = Some (i', p') /\
               forall j, al (smap s') j = if keq e.1 j then None else al (smap s) j
          else out = None /\
               forall j, al (smap s') j = if keq e.1 j then Some (i', p') else al (smap s) j
      | _ => False
      end.

(** iter_mut followed by the drop of the guard *)
Definition C08_itermut_stmt : Prop := keq_ok keq hash -> ord_ok ple ->
  forall k a left s script s1 st outs,
    qinv k false s ->
    Forall (fun x : istep I P => match x with
                                 | INext _ u | INextBack _ u => item_ok keq u
                                 | _ => True end) script ->
    it_run (im_it k) a left (s, im_new s) script [] = Some (Ok ((s1, st), outs)) ->
    exists s', q_build k s1 = Ok s' /\ qinv k true s' /\ smap s' = smap s1 /\
      (forall slot e, (slot, e) ∈ yields outs -> smap s' !! slot = Some e) /\
      (forall slot, slot ∉ (fst <$> yields outs) -> smap s' !! slot = smap s !! slot).

(** ** C14: equality *)
Definition C14_eq_stmt : Prop := keq_ok keq hash ->
  (forall a b, peq a b = true <-> a = b) ->
  forall k o1 o2 (a b : store), qinv k o1 a -> qinv k o2 b ->
    (store_eq keq hash peq a b = true <->
     forall j, snd <$> al (smap a) j = snd <$> al (smap b) j).

(** C14 for a priority type whose [PartialEq] is coarser than Leibniz
    equality (the tagged priorities of InstanceT.v; any user type comparing
    only part of itself): [peq] is arbitrary for the characterisation and an
    equivalence for the algebraic laws.  Proved in EqRel.v. *)
Definition prio_rel (x y : option P) : Prop :=
  match x, y with
  | Some a, Some b => peq a b = true
  | None, None => True
  | _, _ => False
  end.

Definition C14_eq_rel_stmt : Prop := keq_ok keq hash ->
  forall k o1 o2 (a b : store), qinv k o1 a -> qinv k o2 b ->
    (store_eq keq hash peq a b = true <->
     forall j, prio_rel (snd <$> al (smap a) j) (snd <$> al (smap b) j)).

Definition C14_eq_equivalence_stmt : Prop := keq_ok keq hash ->
  (forall x, peq x x = true) ->
  (forall x y, peq x y = true -> peq y x = true) ->
  (forall x y z, peq x y = true -> peq y z = true -> peq x z = true) ->
  forall k o1 o2 o3 (a b c : store), qinv k o1 a -> qinv k o2 b -> qinv k o3 c ->
    store_eq keq hash peq a a = true /\
    (store_eq keq hash peq a b = true -> store_eq keq hash peq b a = true) /\
    (store_eq keq hash peq a b = true -> store_eq keq hash peq b c = true ->
     store_eq keq hash peq a c = true).

(** ** C15: serde *)
Definition C15_roundtrip_stmt : Prop := keq_ok keq hash -> ord_ok ple ->
  (forall a b, peq a b = true <-> a = b) ->
  forall k k' o s, qinv k o s ->
    exists s', q_deserialize k' (serialize s) = Ok s' /\ qinv k' true s' /\
      smap s' = smap s /\ store_eq keq hash peq s s' = true.
(** the round trip for a [PartialEq] that is merely reflexive *)
Definition C15_roundtrip_rel_stmt : Prop := keq_ok keq hash -> ord_ok ple ->
  (forall x, peq x x = true) ->
  forall k k' o s, qinv k o s ->
    exists s', q_deserialize k' (serialize s) = Ok s' /\ qinv k' true s' /\
      smap s' = smap s /\ store_eq keq hash peq s s' = true.
Definition C15_total_stmt : Prop := keq_ok keq hash -> ord_ok ple ->
  forall k l, exists s', q_deserialize k l = Ok s' /\ qinv k true s' /\
    ssize s' = length (smap s') /\
    forall j, snd <$> al (smap s') j = snd <$> last_of keq l j.

(** ** C16: drain / clear *)
Definition C16_stmt : Prop :=
  forall k o (s : store), qinv k o s ->
    (drain s).1 = smap s /\ (drain s).2 = clear s /\
    qinv k true (clear s) /\
    smap (clear s) = [] /\ heap (clear s) = [] /\ qp (clear s) = [] /\ ssize (clear s) = 0 /\
    clear s = set_cap (set_fuse (set_ticks (empty_store 0) (ticks s)) (fuse s)) (cap s).

(** ** C17: capacity management only touches the ghost capacity *)
Definition same_but_cap (s s' : store) : Prop :=
  smap s' = smap s /\ heap s' = heap s /\ qp s' = qp s /\ ssize s' = ssize s /\
  ticks s' = ticks s /\ fuse s' = fuse s.
Definition C17_stmt : Prop :=
  forall (s : store) n,
    (forall s', reserve alloc_limit s n = Ok s' ->
       same_but_cap s s' /\ (N.of_nat (length (smap s)) + n <= cap s')%N) /\
    (match reserve alloc_limit s n with Fault Panic | Ok _ => True | _ => False end) /\
    (let '(b, s') := try_reserve alloc_limit s n in
     same_but_cap s s' /\
     if b : bool then (N.of_nat (length (smap s)) + n <= cap s')%N else s' = s) /\
    same_but_cap s (shrink_to_fit s).

(** ** C18: the hasher is only used to find the Eq-equal entry *)
Definition C18_lookup_stmt : Prop :=
  forall hash1 hash2 : I -> N, keq_ok keq hash1 -> keq_ok keq hash2 ->
    forall (m : list (I * P)) k, get_index_of keq hash1 m k = get_index_of keq hash2 m k.

(** hence the whole observable behaviour: same trace, whatever the two
    (contract-abiding) hash functions are *)
Definition C18_run_stmt : Prop :=
  forall hash1 hash2 : I -> N, keq_ok keq hash1 -> keq_ok keq hash2 ->
    forall (m : @machine I P) (h : list (@op I P)),
      run keq hash1 ple peq alloc_limit m h = run keq hash2 ple peq alloc_limit m h.

(** [clear] leaves an empty store whatever the [Drop]s of the stored items and
    priorities do (they are callbacks of [OClear]): proved in ClearDrop.v *)
Definition emptied (s : store) : Prop :=
  smap s = [] /\ heap s = [] /\ qp s = [] /\ ssize s = 0.
Definition C16_clear_any_drop_stmt : Prop :=
  forall (fz : option nat) (m : @machine I P) r k s,
    getreg m r = Some (k, s) -> r < length m ->
    let res := step1 keq hash ple peq alloc_limit fz m (OClear r) in
    (res.2 = OutUnit \/ res.2 = OutUnwound) /\
    exists s', getreg res.1 r = Some (k, s') /\ emptied s'.

(** ** C17 / C14: the ghost fields (capacity, comparison counter) never
    influence contents or results.  [erase] forgets them. *)
Definition erase (s : store) : store := set_cap (set_ticks s 0) 0%N.
Definition erase_m (m : @machine I P) : @machine I P :=
  (fun x : option (kind * store) => (fun ks : kind * store => (ks.1, erase ks.2)) <$> x) <$> m.

(** one step: same output, same comparison count, same machine up to ghosts *)
Definition ghost_indep_step_stmt : Prop :=
  forall (m : @machine I P) (o : @op I P),
    (step keq hash ple peq alloc_limit m o).2 = (step keq hash ple peq alloc_limit (erase_m m) o).2 /\
    total_ticks (step keq hash ple peq alloc_limit m o).1 =
      total_ticks (step keq hash ple peq alloc_limit (erase_m m) o).1 /\
    erase_m (step keq hash ple peq alloc_limit m o).1 =
      erase_m (step keq hash ple peq alloc_limit (erase_m m) o).1.
(** hence any later history: whatever capacity operations (or clones, which
    only differ in ghosts) happened before, outputs and counts are the same *)
Definition ghost_indep_run_stmt : Prop :=
  forall (h : list (@op I P)) (m m' : @machine I P), erase_m m = erase_m m' ->
    (fun x : @out I P * nat * @machine I P => (x.1.1, x.1.2, erase_m x.2)) <$> run keq hash ple peq alloc_limit m h =
    (fun x : @out I P * nat * @machine I P => (x.1.1, x.1.2, erase_m x.2)) <$> run keq hash ple peq alloc_limit m' h.
(** the capacity operations themselves (and clone) change nothing but ghosts *)
Definition cap_ops_invisible_stmt : Prop :=
  forall (m : @machine I P) (o : @op I P),
    match o with
    | OReserve _ _ | OTryReserve _ _ | OShrink _ | OCapacity _ =>
        is_fault (step keq hash ple peq alloc_limit m o).2 = false ->
        erase_m (step keq hash ple peq alloc_limit m o).1 = erase_m m
    | OClone src dst | OCloneFrom src dst =>
        (step keq hash ple peq alloc_limit m o).2 = OutUnit ->
        exists ks, getreg (erase_m m) src = Some ks /\
                   erase_m (step keq hash ple peq alloc_limit m o).1 = <[dst := Some ks]> (erase_m m)
    | _ => True
    end.

End PropSpec.
