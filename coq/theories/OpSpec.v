(** * OpSpec: list-level specifications of the store-level effects, the
    per-queue invariants, and the pinned per-operation statements
    (proved in PQOps.v and DPQOps.v). *)
From PQV Require Export AbsSpec Inv PQ DPQ.

Section OpSpec.
Context {I P : Type}.
Variable keq : I -> I -> bool.
Variable hash : I -> N.
Variable ple : P -> P -> bool.
Variable alloc_limit : N.

Notation store := (store I P).
Notation R := (res store).
Notation pr := (snd : I * P -> P).
Notation WF := (WF keq).
Notation gio := (get_index_of keq hash).

(** user closures respect the Eq class of the item they are shown *)
Definition item_ok (u : I -> I) : Prop := forall i, keq (u i) i = true.
Definition pred_ok (f : I -> P -> I * P * bool) : Prop :=
  forall i p, keq (f i p).1.1 i = true.

(** ** what the bulk operations do to the slot-ordered contents *)
Definition retain_list (f : I -> P -> I * P * bool) (m : list (I * P)) : list (I * P) :=
  omap (fun e => let '(i', p', b) := f e.1 e.2 in if b : bool then Some (i', p') else None) m.
(** From<Vec>, append: a present key is skipped (first wins) *)
Definition append_list (m l : list (I * P)) : list (I * P) :=
  fold_left (fun acc e => match gio acc e.1 with Some _ => acc | None => acc ++ [e] end) l m.
(** extend (rebuild path), from_iter: a present key gets the new item and priority *)
Definition extend_list (m l : list (I * P)) : list (I * P) :=
  fold_left (fun acc e => match gio acc e.1 with Some i => <[i := e]> acc | None => acc ++ [e] end) l m.
(** push one by one: a present key keeps its item and gets the new priority *)
Definition push_list (m l : list (I * P)) : list (I * P) :=
  fold_left (fun acc e => match gio acc e.1 with
                          | Some i => match acc !! i with
                                      | Some old => <[i := (old.1, e.2)]> acc
                                      | None => acc end
                          | None => acc ++ [e] end) l m.
(** serde visit_seq *)
Definition visit_list (l : list (I * P)) : list (I * P) :=
  fold_left (fun acc e => map_insert keq hash acc e.1 e.2) l [].
(** same keys (up to Eq) with the same priorities, slot by slot *)
Definition same_kp (m1 m2 : list (I * P)) : Prop :=
  Forall2 (fun a b => keq a.1 b.1 = true /\ a.2 = b.2) m1 m2.

Definition lg (n : nat) : nat := Nat.log2 n.

(** ** PriorityQueue *)
Definition pq_inv (o : bool) (s : store) : Prop :=
  WF s /\ fuse s = None /\ (o = true -> heap_ord pr ple (eview s)).

Definition pq_peek_stmt : Prop := keq_ok keq hash -> ord_ok ple ->
  forall s, pq_inv true s ->
    match peek s with
    | None => smap s = []
    | Some e => is_max pr ple (smap s) e /\ exists i, heap s !! 0 = Some i /\ smap s !! i = Some e
    end.

Definition pq_push_stmt : Prop := keq_ok keq hash -> ord_ok ple ->
  forall o s k p, pq_inv o s ->
    exists out s', push keq hash ple s k p = Ok (out, s') /\ pq_inv o s' /\
      ticks s' <= ticks s + (3 * lg (ssize s + 1) + 4) /\
      match gio (smap s) k with
      | Some i => exists e, smap s !! i = Some e /\ out = Some e.2 /\
                            smap s' = <[i := (e.1, p)]> (smap s)
      | None => out = None /\ smap s' = smap s ++ [(k, p)]
      end.

(** push_increase / push_decrease: [dir = true] is increase *)
Definition pq_push_dir_stmt : Prop := keq_ok keq hash -> ord_ok ple ->
  forall (dir : bool) o s k p, pq_inv o s ->
    exists out s',
      (if dir then push_increase keq hash ple s k p else push_decrease keq hash ple s k p)
        = Ok (out, s') /\ pq_inv o s' /\
      ticks s' <= ticks s + (3 * lg (ssize s + 1) + 5) /\
      match gio (smap s) k with
      | Some i => exists e, smap s !! i = Some e /\
          if (if dir then alt ple e.2 p else alt ple p e.2)
          then out = Some e.2 /\ smap s' = <[i := (e.1, p)]> (smap s)
          else out = Some p /\ smap s' = smap s /\ heap s' = heap s /\ qp s' = qp s
      | None => out = None /\ smap s' = smap s ++ [(k, p)]
      end.

Definition pq_change_priority_stmt : Prop := keq_ok keq hash -> ord_ok ple ->
  forall o s k p, pq_inv o s ->
    exists out s', pq_change_priority keq hash ple s k p = Ok (out, s') /\ pq_inv o s' /\
      ticks s' <= ticks s + (3 * lg (ssize s) + 4) /\
      match gio (smap s) k with
      | Some i => exists e, smap s !! i = Some e /\ out = Some e.2 /\
                            smap s' = <[i := (e.1, p)]> (smap s)
      | None => out = None /\ s' = s
      end.

Definition pq_change_priority_by_stmt : Prop := keq_ok keq hash -> ord_ok ple ->
  forall o s k g, pq_inv o s ->
    exists out s', pq_change_priority_by keq hash ple s k g = Ok (out, s') /\ pq_inv o s' /\
      ticks s' <= ticks s + (3 * lg (ssize s) + 4) /\
      match gio (smap s) k with
      | Some i => exists e, smap s !! i = Some e /\ out = true /\
                            smap s' = <[i := (e.1, g e.2)]> (smap s)
      | None => out = false /\ s' = s
      end.

Definition pq_remove_stmt : Prop := keq_ok keq hash -> ord_ok ple ->
  forall o s k, pq_inv o s ->
    exists out s', pq_remove keq hash ple s k = Ok (out, s') /\ pq_inv o s' /\
      ticks s' <= ticks s + (3 * lg (ssize s) + 4) /\
      match gio (smap s) k with
      | Some i => exists e, smap s !! i = Some e /\ out = Some e /\
                            map_swap_remove_index (smap s) i = Some (e, smap s')
      | None => out = None /\ s' = s
      end.

Definition pq_pop_stmt : Prop := keq_ok keq hash -> ord_ok ple ->
  forall o s, pq_inv o s ->
    exists out s', pop ple s = Ok (out, s') /\ pq_inv o s' /\
      ticks s' <= ticks s + (2 * lg (ssize s) + 2) /\
      out = peek s /\
      match out with
      | Some e => exists i, heap s !! 0 = Some i /\
                            map_swap_remove_index (smap s) i = Some (e, smap s')
      | None => s' = s /\ smap s = []
      end.

Definition pq_pop_if_stmt : Prop := keq_ok keq hash -> ord_ok ple ->
  forall o s f, pred_ok f -> pq_inv o s ->
    exists out s', pop_if ple s f = Ok (out, s') /\ pq_inv o s' /\
      ticks s' <= ticks s + (2 * lg (ssize s) + 2) /\
      match peek s with
      | None => out = None /\ s' = s
      | Some e => exists i, heap s !! 0 = Some i /\ smap s !! i = Some e /\
          let '(i', p', b) := f e.1 e.2 in
          if b : bool
          then out = Some (i', p') /\
               map_swap_remove_index (<[i := (i', p')]> (smap s)) i = Some ((i', p'), smap s')
          else out = None /\ smap s' = <[i := (i', p')]> (smap s)
      end.

Definition pq_peek_mut_stmt : Prop := keq_ok keq hash -> ord_ok ple ->
  forall o s u, item_ok u -> pq_inv o s ->
    exists out s', peek_mut s u = Ok (out, s') /\ pq_inv o s' /\ ticks s' = ticks s /\
      match peek s with
      | None => out = None /\ s' = s
      | Some e => exists i, heap s !! 0 = Some i /\ out = Some (u e.1, e.2) /\
                            smap s' = <[i := (u e.1, e.2)]> (smap s)
      end.

(** the operations that rebuild: from any well-formed state to an ordered one *)
Definition pq_build_stmt : Prop := keq_ok keq hash -> ord_ok ple ->
  forall s, pq_inv false s ->
    exists s', heap_build ple s = Ok s' /\ pq_inv true s' /\ smap s' = smap s /\
      ticks s' <= ticks s + 4 * ssize s.

Definition pq_retain_stmt : Prop := keq_ok keq hash -> ord_ok ple ->
  forall s f, pred_ok f -> pq_inv false s ->
    exists s', pq_retain_mut ple s f = Ok s' /\ pq_inv true s' /\
      smap s' = retain_list f (smap s) /\ ticks s' <= ticks s + 4 * ssize s.

Definition pq_append_stmt : Prop := keq_ok keq hash -> ord_ok ple ->
  forall s o, pq_inv false s -> pq_inv false o ->
    exists s' o', pq_append keq hash ple s o = Ok (s', o') /\
      pq_inv true s' /\ pq_inv true o' /\ smap o' = [] /\
      smap s' = (if decide (ssize s < ssize o) then append_list (smap o) (smap s)
                 else append_list (smap s) (smap o)) /\
      ticks s' <= ticks s + 4 * ssize s' /\ ticks o' = ticks o.

Definition pq_from_vec_stmt : Prop := keq_ok keq hash -> ord_ok ple ->
  forall l, exists s', pq_from_vec keq hash ple l = Ok s' /\ pq_inv true s' /\
      smap s' = append_list [] l /\ ticks s' <= 4 * ssize s'.

Definition pq_from_iter_stmt : Prop := keq_ok keq hash -> ord_ok ple ->
  forall l (h : size_hint), (h.1 <= alloc_limit)%N ->
    exists s', pq_from_iter keq hash ple alloc_limit l h = Ok s' /\ pq_inv true s' /\
      smap s' = extend_list [] l /\ ticks s' <= 4 * ssize s'.

Definition pq_deserialize_stmt : Prop := keq_ok keq hash -> ord_ok ple ->
  forall l, exists s', pq_deserialize keq hash ple l = Ok s' /\ pq_inv true s' /\
      smap s' = visit_list l /\ ticks s' <= 4 * ssize s'.

(** extend: either strategy; they agree on the item -> priority map *)
Definition pq_extend_stmt : Prop := keq_ok keq hash -> ord_ok ple ->
  forall o s l (h : size_hint), pq_inv o s ->
    (N.of_nat (length (smap s)) + h.1 <= alloc_limit)%N ->
    exists s', pq_extend keq hash ple alloc_limit s l h = Ok s' /\
      (pq_inv true s' \/ (pq_inv o s' /\ smap s' = push_list (smap s) l)) /\
      (smap s' = extend_list (smap s) l \/ smap s' = push_list (smap s) l).
Definition extend_push_same_stmt : Prop := keq_ok keq hash ->
  forall m l, nodup_keys keq m -> same_kp (extend_list m l) (push_list m l).

Definition pq_into_sorted_vec_stmt : Prop := keq_ok keq hash -> ord_ok ple ->
  forall s, pq_inv true s ->
    exists l s', into_sorted_vec ple s = Ok (l, s') /\ l ≡ₚ smap s /\
      Sorted (fun a b => ple (pr b) (pr a) = true) l.

(** ** DoublePriorityQueue *)
Definition dpq_inv (o : bool) (s : store) : Prop :=
  WF s /\ fuse s = None /\ (o = true -> minmax_ord pr ple (eview s)).

Definition dpq_peek_stmt : Prop := keq_ok keq hash -> ord_ok ple ->
  forall s, dpq_inv true s ->
    (exists r, peek_min s = Ok r /\
       match r with
       | None => smap s = []
       | Some e => is_min pr ple (smap s) e /\ exists i, heap s !! 0 = Some i /\ smap s !! i = Some e
       end) /\
    (exists r s', peek_max ple s = Ok (r, s') /\ dpq_inv true s' /\
       smap s' = smap s /\ heap s' = heap s /\ qp s' = qp s /\ ticks s' <= ticks s + 1 /\
       match r with
       | None => smap s = []
       | Some e => is_max pr ple (smap s) e
       end).

(** the position find_max reports, as a function of the state (for "pop_max
    addresses the element peek_max reported") *)
Definition dpq_max_entry (s : store) : option (I * P) :=
  match peek_max ple s with Ok (r, _) => r | _ => None end.
Definition dpq_min_entry (s : store) : option (I * P) :=
  match peek_min s with Ok r => r | _ => None end.

Definition dpq_push_stmt : Prop := keq_ok keq hash -> ord_ok ple ->
  forall o s k p, dpq_inv o s ->
    exists out s', dpush keq hash ple s k p = Ok (out, s') /\ dpq_inv o s' /\
      ticks s' <= ticks s + (9 * lg (ssize s + 1) + 20) /\
      match gio (smap s) k with
      | Some i => exists e, smap s !! i = Some e /\ out = Some e.2 /\
                            smap s' = <[i := (e.1, p)]> (smap s)
      | None => out = None /\ smap s' = smap s ++ [(k, p)]
      end.

Definition dpq_push_dir_stmt : Prop := keq_ok keq hash -> ord_ok ple ->
  forall (dir : bool) o s k p, dpq_inv o s ->
    exists out s',
      (if dir then dpush_increase keq hash ple s k p else dpush_decrease keq hash ple s k p)
        = Ok (out, s') /\ dpq_inv o s' /\
      ticks s' <= ticks s + (9 * lg (ssize s + 1) + 21) /\
      match gio (smap s) k with
      | Some i => exists e, smap s !! i = Some e /\
          if (if dir then alt ple e.2 p else alt ple p e.2)
          then out = Some e.2 /\ smap s' = <[i := (e.1, p)]> (smap s)
          else out = Some p /\ smap s' = smap s /\ heap s' = heap s /\ qp s' = qp s
      | None => out = None /\ smap s' = smap s ++ [(k, p)]
      end.

Definition dpq_change_priority_stmt : Prop := keq_ok keq hash -> ord_ok ple ->
  forall o s k p, dpq_inv o s ->
    exists out s', dpq_change_priority keq hash ple s k p = Ok (out, s') /\ dpq_inv o s' /\
      ticks s' <= ticks s + (9 * lg (ssize s) + 20) /\
      match gio (smap s) k with
      | Some i => exists e, smap s !! i = Some e /\ out = Some e.2 /\
                            smap s' = <[i := (e.1, p)]> (smap s)
      | None => out = None /\ s' = s
      end.

Definition dpq_change_priority_by_stmt : Prop := keq_ok keq hash -> ord_ok ple ->
  forall o s k g, dpq_inv o s ->
    exists out s', dpq_change_priority_by keq hash ple s k g = Ok (out, s') /\ dpq_inv o s' /\
      ticks s' <= ticks s + (9 * lg (ssize s) + 20) /\
      match gio (smap s) k with
      | Some i => exists e, smap s !! i = Some e /\ out = true /\
                            smap s' = <[i := (e.1, g e.2)]> (smap s)
      | None => out = false /\ s' = s
      end.

Definition dpq_remove_stmt : Prop := keq_ok keq hash -> ord_ok ple ->
  forall o s k, dpq_inv o s ->
    exists out s', dpq_remove keq hash ple s k = Ok (out, s') /\ dpq_inv o s' /\
      ticks s' <= ticks s + (9 * lg (ssize s) + 20) /\
      match gio (smap s) k with
      | Some i => exists e, smap s !! i = Some e /\ out = Some e /\
                            map_swap_remove_index (smap s) i = Some (e, smap s')
      | None => out = None /\ s' = s
      end.

(** pop_min / pop_max ([mx = true]) remove the element the peek reports *)
Definition dpq_pop_stmt : Prop := keq_ok keq hash -> ord_ok ple ->
  forall (mx : bool) o s, dpq_inv o s ->
    exists out s', (if mx then pop_max ple s else pop_min ple s) = Ok (out, s') /\
      dpq_inv o s' /\
      ticks s' <= ticks s + (4 * lg (ssize s) + 9) /\
      out = (if mx then dpq_max_entry s else dpq_min_entry s) /\
      match out with
      | Some e => exists pos i, heap s !! pos = Some i /\
                    map_swap_remove_index (smap s) i = Some (e, smap s')
      | None => smap s' = smap s /\ heap s' = heap s /\ qp s' = qp s /\ smap s = []
      end.

Definition dpq_pop_if_stmt : Prop := keq_ok keq hash -> ord_ok ple ->
  forall (mx : bool) o s f, pred_ok f -> dpq_inv o s ->
    exists out s', (if mx then pop_max_if ple s f else pop_min_if ple s f) = Ok (out, s') /\
      dpq_inv o s' /\
      ticks s' <= ticks s + (9 * lg (ssize s) + 21) /\
      match (if mx then dpq_max_entry s else dpq_min_entry s) with
      | None => out = None /\ smap s' = smap s /\ heap s' = heap s /\ qp s' = qp s
      | Some e => exists pos i, heap s !! pos = Some i /\ smap s !! i = Some e /\
          let '(i', p', b) := f e.1 e.2 in
          if b : bool
          then out = Some (i', p') /\
               map_swap_remove_index (<[i := (i', p')]> (smap s)) i = Some ((i', p'), smap s')
          else out = None /\ smap s' = <[i := (i', p')]> (smap s)
      end.

Definition dpq_peek_mut_stmt : Prop := keq_ok keq hash -> ord_ok ple ->
  forall (mx : bool) o s u, item_ok u -> dpq_inv o s ->
    exists out s', (if mx then peek_max_mut ple s u else peek_min_mut s u) = Ok (out, s') /\
      dpq_inv o s' /\ ticks s' <= ticks s + 1 /\
      match (if mx then dpq_max_entry s else dpq_min_entry s) with
      | None => out = None /\ smap s' = smap s /\ heap s' = heap s /\ qp s' = qp s
      | Some e => exists pos i, heap s !! pos = Some i /\ smap s !! i = Some e /\
                    out = Some (u e.1, e.2) /\
                    smap s' = <[i := (u e.1, e.2)]> (smap s)
      end.

Definition dpq_build_stmt : Prop := keq_ok keq hash -> ord_ok ple ->
  forall s, dpq_inv false s ->
    exists s', dheap_build ple s = Ok s' /\ dpq_inv true s' /\ smap s' = smap s /\
      ticks s' <= ticks s + 16 * ssize s.

Definition dpq_retain_stmt : Prop := keq_ok keq hash -> ord_ok ple ->
  forall s f, pred_ok f -> dpq_inv false s ->
    exists s', dpq_retain_mut ple s f = Ok s' /\ dpq_inv true s' /\
      smap s' = retain_list f (smap s) /\ ticks s' <= ticks s + 16 * ssize s.

Definition dpq_append_stmt : Prop := keq_ok keq hash -> ord_ok ple ->
  forall s o, dpq_inv false s -> dpq_inv false o ->
    exists s' o', dpq_append keq hash ple s o = Ok (s', o') /\
      dpq_inv true s' /\ dpq_inv true o' /\ smap o' = [] /\
      smap s' = (if decide (ssize s < ssize o) then append_list (smap o) (smap s)
                 else append_list (smap s) (smap o)) /\
      ticks s' <= ticks s + 16 * ssize s' /\ ticks o' = ticks o.

Definition dpq_from_vec_stmt : Prop := keq_ok keq hash -> ord_ok ple ->
  forall l, exists s', dpq_from_vec keq hash ple l = Ok s' /\ dpq_inv true s' /\
      smap s' = append_list [] l /\ ticks s' <= 16 * ssize s'.

Definition dpq_from_iter_stmt : Prop := keq_ok keq hash -> ord_ok ple ->
  forall l (h : size_hint), (h.1 <= alloc_limit)%N ->
    exists s', dpq_from_iter keq hash ple alloc_limit l h = Ok s' /\ dpq_inv true s' /\
      smap s' = extend_list [] l /\ ticks s' <= 16 * ssize s'.

Definition dpq_deserialize_stmt : Prop := keq_ok keq hash -> ord_ok ple ->
  forall l, exists s', dpq_deserialize keq hash ple l = Ok s' /\ dpq_inv true s' /\
      smap s' = visit_list l /\ ticks s' <= 16 * ssize s'.

Definition dpq_extend_stmt : Prop := keq_ok keq hash -> ord_ok ple ->
  forall o s l (h : size_hint), dpq_inv o s ->
    (N.of_nat (length (smap s)) + h.1 <= alloc_limit)%N ->
    exists s', dpq_extend keq hash ple alloc_limit s l h = Ok s' /\
      (dpq_inv true s' \/ (dpq_inv o s' /\ smap s' = push_list (smap s) l)) /\
      (smap s' = extend_list (smap s) l \/ smap s' = push_list (smap s) l).

Definition dpq_into_sorted_vec_stmt : Prop := keq_ok keq hash -> ord_ok ple ->
  forall (mn : bool) s, dpq_inv true s ->
    exists l s', into_sorted_vec_dir ple mn s = Ok (l, s') /\ l ≡ₚ smap s /\
      Sorted (fun a b => if mn then ple (pr a) (pr b) = true else ple (pr b) (pr a) = true) l.

End OpSpec.
