(** * Properties: ONLY the pinned theorems of the properties, each closed by
    [exact] of a lemma proved elsewhere, with [Print Assumptions] beneath.
    (bin/pqv re-checks every statement with [Check (name : statement)] and
    every [Print Assumptions] on each run.) *)
From PQV Require Import AbsPQProofs AbsCostProofs ListProofs IterProofs.
From PQV Require Export PropSpec.

(** ** C05 (abstract layer): comparison counts of the list-level algorithms *)
Theorem C05_pq_cost : forall (E P : Type) (pr : E -> P) (ple : P -> P -> bool),
  pq_cost_stmt pr ple.
Proof. exact @pq_cost. Qed.
Print Assumptions C05_pq_cost.
Theorem C05_dpq_cost : forall (E P : Type) (pr : E -> P) (ple : P -> P -> bool),
  dpq_cost_stmt pr ple.
Proof. exact @dpq_cost. Qed.
Print Assumptions C05_dpq_cost.

(** ** C09: mutable iteration *)
Theorem C09_itermut : forall I P : Type, @itermut_stmt I P.
Proof. exact @itermut_ok. Qed.
Print Assumptions C09_itermut.
Theorem C09_itermut_exact : forall I P : Type, @itermut_exact_stmt I P.
Proof. exact @itermut_exact. Qed.
Print Assumptions C09_itermut_exact.
Theorem C09_itermut_fused : forall I P : Type, @itermut_fused_stmt I P.
Proof. exact @itermut_fused. Qed.
Print Assumptions C09_itermut_fused.
Theorem C09_itermut_adaptor_len : forall I P : Type, @itermut_adaptor_len_stmt I P.
Proof. exact @itermut_adaptor_len. Qed.
Print Assumptions C09_itermut_adaptor_len.

(** ** C13: the non-mutable iterators *)
Theorem C13_dq : forall I P : Type, @dq_stmt I P.
Proof. exact @dq_ok. Qed.
Print Assumptions C13_dq.
Theorem C13_dq_adaptor_len : forall I P : Type, @dq_adaptor_len_stmt I P.
Proof. exact @dq_adaptor_len. Qed.
Print Assumptions C13_dq_adaptor_len.
Theorem C13_sorted_adaptor_len : forall (I P : Type) (ple : P -> P -> bool),
  @sorted_adaptor_len_stmt I P ple.
Proof. exact @sorted_adaptor_len. Qed.
Print Assumptions C13_sorted_adaptor_len.
