(** * Properties: ONLY the pinned theorems of the properties (generated from
    bin/pqv_theorems.json by bin/gen_properties), each closed by applying a
    lemma proved elsewhere, with [Print Assumptions] beneath.  bin/pqv
    re-checks every statement with [Check (name : forall ..., statement)] and
    every [Print Assumptions] on each run. *)
From PQV Require Import AbsPQProofs AbsCostProofs ListProofs IterProofs UnwindProofs HashIndep GhostIndep Final EqRel ClearDrop Refine RefineDet RefineMachine.
From PQV Require Export PropSpec RefineSpec RefineDet RefineMachine.

(* C01 *)
Theorem C01_invariant : forall (I P : Type) (keq : I -> I -> bool) (hash : I -> N) (ple : P -> P -> bool) (peq : P -> P -> bool) (alloc_limit : N), run_good_stmt keq hash ple peq alloc_limit.
Proof. intros; apply F_run_good. Qed.
Print Assumptions C01_invariant.

(* C01 *)
Theorem C01_step : forall (I P : Type) (keq : I -> I -> bool) (hash : I -> N) (ple : P -> P -> bool) (peq : P -> P -> bool) (alloc_limit : N), step_good_stmt keq hash ple peq alloc_limit.
Proof. intros; apply F_step_good. Qed.
Print Assumptions C01_step.

(* C01 *)
Theorem C01_peek_is_max : forall (I P : Type) (keq : I -> I -> bool) (hash : I -> N) (ple : P -> P -> bool), pq_peek_stmt keq hash ple.
Proof. intros; apply F_pq_peek. Qed.
Print Assumptions C01_peek_is_max.

(* C01 *)
Theorem C01_pop_is_peek : forall (I P : Type) (keq : I -> I -> bool) (hash : I -> N) (ple : P -> P -> bool), pq_pop_stmt keq hash ple.
Proof. intros; apply F_pq_pop. Qed.
Print Assumptions C01_pop_is_peek.

(* C01 *)
Theorem C01_pop_if_sees_peek : forall (I P : Type) (keq : I -> I -> bool) (hash : I -> N) (ple : P -> P -> bool), pq_pop_if_stmt keq hash ple.
Proof. intros; apply F_pq_pop_if. Qed.
Print Assumptions C01_pop_if_sees_peek.

(* C01 *)
Theorem C01_peek_mut_is_peek : forall (I P : Type) (keq : I -> I -> bool) (hash : I -> N) (ple : P -> P -> bool), pq_peek_mut_stmt keq hash ple.
Proof. intros; apply F_pq_peek_mut. Qed.
Print Assumptions C01_peek_mut_is_peek.

(* C02 *)
Theorem C02_invariant : forall (I P : Type) (keq : I -> I -> bool) (hash : I -> N) (ple : P -> P -> bool) (peq : P -> P -> bool) (alloc_limit : N), run_good_stmt keq hash ple peq alloc_limit.
Proof. intros; apply F_run_good. Qed.
Print Assumptions C02_invariant.

(* C02 *)
Theorem C02_peek_min_max : forall (I P : Type) (keq : I -> I -> bool) (hash : I -> N) (ple : P -> P -> bool), dpq_peek_stmt keq hash ple.
Proof. intros; apply F_dpq_peek. Qed.
Print Assumptions C02_peek_min_max.

(* C02 *)
Theorem C02_pop_is_peek : forall (I P : Type) (keq : I -> I -> bool) (hash : I -> N) (ple : P -> P -> bool), dpq_pop_stmt keq hash ple.
Proof. intros; apply F_dpq_pop. Qed.
Print Assumptions C02_pop_is_peek.

(* C02 *)
Theorem C02_pop_if_sees_peek : forall (I P : Type) (keq : I -> I -> bool) (hash : I -> N) (ple : P -> P -> bool), dpq_pop_if_stmt keq hash ple.
Proof. intros; apply F_dpq_pop_if. Qed.
Print Assumptions C02_pop_if_sees_peek.

(* C02 *)
Theorem C02_peek_mut_is_peek : forall (I P : Type) (keq : I -> I -> bool) (hash : I -> N) (ple : P -> P -> bool), dpq_peek_mut_stmt keq hash ple.
Proof. intros; apply F_dpq_peek_mut. Qed.
Print Assumptions C02_peek_mut_is_peek.

(* C03 *)
Theorem C03_contents : forall (I P : Type) (keq : I -> I -> bool) (hash : I -> N) (ple : P -> P -> bool), C03_contents_stmt keq hash ple.
Proof. intros; apply F_C03_contents. Qed.
Print Assumptions C03_contents.

(* C03 *)
Theorem C03_push : forall (I P : Type) (keq : I -> I -> bool) (hash : I -> N) (ple : P -> P -> bool), C03_push_stmt keq hash ple.
Proof. intros; apply F_C03_push. Qed.
Print Assumptions C03_push.

(* C03 *)
Theorem C03_change_priority : forall (I P : Type) (keq : I -> I -> bool) (hash : I -> N) (ple : P -> P -> bool), C03_change_stmt keq hash ple.
Proof. intros; apply F_C03_change. Qed.
Print Assumptions C03_change_priority.

(* C03 *)
Theorem C03_change_priority_by : forall (I P : Type) (keq : I -> I -> bool) (hash : I -> N) (ple : P -> P -> bool), C03_change_by_stmt keq hash ple.
Proof. intros; apply F_C03_change_by. Qed.
Print Assumptions C03_change_priority_by.

(* C03 *)
Theorem C03_remove : forall (I P : Type) (keq : I -> I -> bool) (hash : I -> N) (ple : P -> P -> bool), C03_remove_stmt keq hash ple.
Proof. intros; apply F_C03_remove. Qed.
Print Assumptions C03_remove.

(* C03 *)
Theorem C03_pop : forall (I P : Type) (keq : I -> I -> bool) (hash : I -> N) (ple : P -> P -> bool), C03_pop_stmt keq hash ple.
Proof. intros; apply F_C03_pop. Qed.
Print Assumptions C03_pop.

(* C03 *)
Theorem C03_reachable : forall (I P : Type) (keq : I -> I -> bool) (hash : I -> N) (ple : P -> P -> bool) (peq : P -> P -> bool) (alloc_limit : N), run_safe_stmt keq hash ple peq alloc_limit.
Proof. intros; apply F_run_safe. Qed.
Print Assumptions C03_reachable.

(* C04 *)
Theorem C04_step : forall (I P : Type) (keq : I -> I -> bool) (hash : I -> N) (ple : P -> P -> bool) (peq : P -> P -> bool) (alloc_limit : N), step_safe_stmt keq hash ple peq alloc_limit.
Proof. intros; apply F_step_safe. Qed.
Print Assumptions C04_step.

(* C04 *)
Theorem C04_run : forall (I P : Type) (keq : I -> I -> bool) (hash : I -> N) (ple : P -> P -> bool) (peq : P -> P -> bool) (alloc_limit : N), run_safe_stmt keq hash ple peq alloc_limit.
Proof. intros; apply F_run_safe. Qed.
Print Assumptions C04_run.

(* C05 *)
Theorem C05_step_cost : forall (I P : Type) (keq : I -> I -> bool) (hash : I -> N) (ple : P -> P -> bool) (peq : P -> P -> bool) (alloc_limit : N), step_cost_stmt keq hash ple peq alloc_limit.
Proof. intros; apply F_step_cost. Qed.
Print Assumptions C05_step_cost.

(* C05 *)
Theorem C05_pq_cost : forall (E P : Type) (pr : E -> P) (ple : P -> P -> bool), pq_cost_stmt pr ple.
Proof. intros; apply @AbsCostProofs.pq_cost. Qed.
Print Assumptions C05_pq_cost.

(* C05 *)
Theorem C05_dpq_cost : forall (E P : Type) (pr : E -> P) (ple : P -> P -> bool), dpq_cost_stmt pr ple.
Proof. intros; apply @AbsCostProofs.dpq_cost. Qed.
Print Assumptions C05_dpq_cost.

(* C06 *)
Theorem C06_pq_into_sorted_vec : forall (I P : Type) (keq : I -> I -> bool) (hash : I -> N) (ple : P -> P -> bool), pq_into_sorted_vec_stmt keq hash ple.
Proof. intros; apply F_pq_into_sorted_vec. Qed.
Print Assumptions C06_pq_into_sorted_vec.

(* C06 *)
Theorem C06_dpq_into_sorted_vec : forall (I P : Type) (keq : I -> I -> bool) (hash : I -> N) (ple : P -> P -> bool), dpq_into_sorted_vec_stmt keq hash ple.
Proof. intros; apply F_dpq_into_sorted_vec. Qed.
Print Assumptions C06_dpq_into_sorted_vec.

(* C06 *)
Theorem C06_dpq_sorted_iter : forall (I P : Type) (keq : I -> I -> bool) (hash : I -> N) (ple : P -> P -> bool), dpq_sorted_iter_stmt keq hash ple.
Proof. intros; apply F_dpq_sorted_iter. Qed.
Print Assumptions C06_dpq_sorted_iter.

(* C06 *)
Theorem C06_pq_sorted_iter : forall (I P : Type) (keq : I -> I -> bool) (hash : I -> N) (ple : P -> P -> bool), pq_sorted_iter_stmt keq hash ple.
Proof. intros; apply F_pq_sorted_iter. Qed.
Print Assumptions C06_pq_sorted_iter.

(* C07 *)
Theorem C07_from_vec : forall (I P : Type) (keq : I -> I -> bool) (hash : I -> N) (ple : P -> P -> bool), C07_from_vec_stmt keq hash ple.
Proof. intros; apply F_C07_from_vec. Qed.
Print Assumptions C07_from_vec.

(* C07 *)
Theorem C07_from_iter : forall (I P : Type) (keq : I -> I -> bool) (hash : I -> N) (ple : P -> P -> bool) (alloc_limit : N), C07_from_iter_stmt keq hash ple alloc_limit.
Proof. intros; apply F_C07_from_iter. Qed.
Print Assumptions C07_from_iter.

(* C07 *)
Theorem C07_extend : forall (I P : Type) (keq : I -> I -> bool) (hash : I -> N) (ple : P -> P -> bool) (alloc_limit : N), C07_extend_stmt keq hash ple alloc_limit.
Proof. intros; apply F_C07_extend. Qed.
Print Assumptions C07_extend.

(* C07 *)
Theorem C07_append : forall (I P : Type) (keq : I -> I -> bool) (hash : I -> N) (ple : P -> P -> bool), C07_append_stmt keq hash ple.
Proof. intros; apply F_C07_append. Qed.
Print Assumptions C07_append.

(* C07 *)
Theorem C07_convert : forall (I P : Type) (keq : I -> I -> bool) (hash : I -> N) (ple : P -> P -> bool), C07_convert_stmt keq hash ple.
Proof. intros; apply F_C07_convert. Qed.
Print Assumptions C07_convert.

(* C08 *)
Theorem C08_retain : forall (I P : Type) (keq : I -> I -> bool) (hash : I -> N) (ple : P -> P -> bool), C08_retain_stmt keq hash ple.
Proof. intros; apply F_C08_retain. Qed.
Print Assumptions C08_retain.

(* C08 *)
Theorem C08_pop_if : forall (I P : Type) (keq : I -> I -> bool) (hash : I -> N) (ple : P -> P -> bool), C08_pop_if_stmt keq hash ple.
Proof. intros; apply F_C08_pop_if. Qed.
Print Assumptions C08_pop_if.

(* C08 *)
Theorem C08_itermut : forall (I P : Type) (keq : I -> I -> bool) (hash : I -> N) (ple : P -> P -> bool), C08_itermut_stmt keq hash ple.
Proof. intros; apply F_C08_itermut. Qed.
Print Assumptions C08_itermut.

(* C09 *)
Theorem C09_itermut : forall (I P : Type), @itermut_stmt I P.
Proof. intros; apply @IterProofs.itermut_ok. Qed.
Print Assumptions C09_itermut.

(* C09 *)
Theorem C09_itermut_exact : forall (I P : Type), @itermut_exact_stmt I P.
Proof. intros; apply @IterProofs.itermut_exact. Qed.
Print Assumptions C09_itermut_exact.

(* C09 *)
Theorem C09_itermut_fused : forall (I P : Type), @itermut_fused_stmt I P.
Proof. intros; apply @IterProofs.itermut_fused. Qed.
Print Assumptions C09_itermut_fused.

(* C09 *)
Theorem C09_itermut_adaptor_len : forall (I P : Type), @itermut_adaptor_len_stmt I P.
Proof. intros; apply @IterProofs.itermut_adaptor_len. Qed.
Print Assumptions C09_itermut_adaptor_len.

(* C11 *)
Theorem C11_push_increase_decrease : forall (I P : Type) (keq : I -> I -> bool) (hash : I -> N) (ple : P -> P -> bool), C11_stmt keq hash ple.
Proof. intros; apply F_C11. Qed.
Print Assumptions C11_push_increase_decrease.

(* C12 *)
Theorem C12_item_kept : forall (I P : Type) (keq : I -> I -> bool) (hash : I -> N) (ple : P -> P -> bool), C12_stmt keq hash ple.
Proof. intros; apply F_C12. Qed.
Print Assumptions C12_item_kept.

(* C12 *)
Theorem C12_get_mut : forall (I P : Type) (keq : I -> I -> bool) (hash : I -> N) (ple : P -> P -> bool), C12_get_mut_stmt keq hash ple.
Proof. intros; apply F_C12_get_mut. Qed.
Print Assumptions C12_get_mut.

(* C12 *)
Theorem C12_peek_mut_pq : forall (I P : Type) (keq : I -> I -> bool) (hash : I -> N) (ple : P -> P -> bool), pq_peek_mut_stmt keq hash ple.
Proof. intros; apply F_pq_peek_mut. Qed.
Print Assumptions C12_peek_mut_pq.

(* C12 *)
Theorem C12_peek_mut_dpq : forall (I P : Type) (keq : I -> I -> bool) (hash : I -> N) (ple : P -> P -> bool), dpq_peek_mut_stmt keq hash ple.
Proof. intros; apply F_dpq_peek_mut. Qed.
Print Assumptions C12_peek_mut_dpq.

(* C13 *)
Theorem C13_dq : forall (I P : Type), @dq_stmt I P.
Proof. intros; apply @IterProofs.dq_ok. Qed.
Print Assumptions C13_dq.

(* C13 *)
Theorem C13_dq_adaptor_len : forall (I P : Type), @dq_adaptor_len_stmt I P.
Proof. intros; apply @IterProofs.dq_adaptor_len. Qed.
Print Assumptions C13_dq_adaptor_len.

(* C13 *)
Theorem C13_sorted_adaptor_len : forall (I P : Type) (ple : P -> P -> bool), @sorted_adaptor_len_stmt I P ple.
Proof. intros; apply @IterProofs.sorted_adaptor_len. Qed.
Print Assumptions C13_sorted_adaptor_len.

(* C13 *)
Theorem C13_dpq_sorted_iter : forall (I P : Type) (keq : I -> I -> bool) (hash : I -> N) (ple : P -> P -> bool), dpq_sorted_iter_stmt keq hash ple.
Proof. intros; apply F_dpq_sorted_iter. Qed.
Print Assumptions C13_dpq_sorted_iter.

(* C14 *)
Theorem C14_eq : forall (I P : Type) (keq : I -> I -> bool) (hash : I -> N) (ple : P -> P -> bool) (peq : P -> P -> bool), C14_eq_stmt keq hash ple peq.
Proof. intros; apply F_C14_eq. Qed.
Print Assumptions C14_eq.

(* C15 *)
Theorem C15_roundtrip : forall (I P : Type) (keq : I -> I -> bool) (hash : I -> N) (ple : P -> P -> bool) (peq : P -> P -> bool), C15_roundtrip_stmt keq hash ple peq.
Proof. intros; apply F_C15_roundtrip. Qed.
Print Assumptions C15_roundtrip.

(* C15 *)
Theorem C15_total : forall (I P : Type) (keq : I -> I -> bool) (hash : I -> N) (ple : P -> P -> bool), C15_total_stmt keq hash ple.
Proof. intros; apply F_C15_total. Qed.
Print Assumptions C15_total.

(* C16 *)
Theorem C16_drain_clear : forall (I P : Type) (keq : I -> I -> bool) (ple : P -> P -> bool), @C16_stmt I P keq ple.
Proof. intros; apply F_C16. Qed.
Print Assumptions C16_drain_clear.

(* C16 *)
Theorem C16_drain_yields : forall (I P : Type), @dq_stmt I P.
Proof. intros; apply @IterProofs.dq_ok. Qed.
Print Assumptions C16_drain_yields.

(* C17 *)
Theorem C17_capacity : forall (I P : Type) (alloc_limit : N), @C17_stmt I P alloc_limit.
Proof. intros; apply F_C17. Qed.
Print Assumptions C17_capacity.

(* C17 *)
Theorem C17_cap_ops_safe : forall (I P : Type) (keq : I -> I -> bool) (hash : I -> N) (ple : P -> P -> bool) (peq : P -> P -> bool) (alloc_limit : N), step_safe_stmt keq hash ple peq alloc_limit.
Proof. intros; apply F_step_safe. Qed.
Print Assumptions C17_cap_ops_safe.

(* C18 *)
Theorem C18_lookup : forall (I P : Type) (keq : I -> I -> bool), @C18_lookup_stmt I P keq.
Proof. intros; apply F_C18_lookup. Qed.
Print Assumptions C18_lookup.

(* C10 *)
Theorem C10_leaked_iterators_safe : forall (I P : Type) (keq : I -> I -> bool) (hash : I -> N) (ple : P -> P -> bool) (peq : P -> P -> bool) (alloc_limit : N), run_safe_stmt keq hash ple peq alloc_limit.
Proof. intros; apply F_run_safe. Qed.
Print Assumptions C10_leaked_iterators_safe.

(* C10 *)
Theorem C10_drain_leak : forall (I P : Type) (keq : I -> I -> bool) (ple : P -> P -> bool), @C16_stmt I P keq ple.
Proof. intros; apply F_C16. Qed.
Print Assumptions C10_drain_leak.

(* C10 *)
Theorem C10_unwind_step : forall (I P : Type) (keq : I -> I -> bool) (hash : I -> N) (ple : P -> P -> bool) (peq : P -> P -> bool) (alloc_limit : N), step_unwind_safe_stmt keq hash ple peq alloc_limit.
Proof. intros; apply @UnwindProofs.step_unwind_safe. Qed.
Print Assumptions C10_unwind_step.

(* C10 *)
Theorem C10_unwind_run : forall (I P : Type) (keq : I -> I -> bool) (hash : I -> N) (ple : P -> P -> bool) (peq : P -> P -> bool) (alloc_limit : N), run_unwind_safe_stmt keq hash ple peq alloc_limit.
Proof. intros; apply @UnwindProofs.run_unwind_safe. Qed.
Print Assumptions C10_unwind_run.

(* C18 *)
Theorem C18_run : forall (I P : Type) (keq : I -> I -> bool) (ple : P -> P -> bool) (peq : P -> P -> bool) (alloc_limit : N), C18_run_stmt keq ple peq alloc_limit.
Proof. intros; apply @HashIndep.C18_run_thm. Qed.
Print Assumptions C18_run.

(* C17 *)
Theorem C17_ghost_indep_step : forall (I P : Type) (keq : I -> I -> bool) (hash : I -> N) (ple : P -> P -> bool) (peq : P -> P -> bool) (alloc_limit : N), ghost_indep_step_stmt keq hash ple peq alloc_limit.
Proof. intros; apply @GhostIndep.ghost_indep_step. Qed.
Print Assumptions C17_ghost_indep_step.

(* C17 *)
Theorem C17_ghost_indep_run : forall (I P : Type) (keq : I -> I -> bool) (hash : I -> N) (ple : P -> P -> bool) (peq : P -> P -> bool) (alloc_limit : N), ghost_indep_run_stmt keq hash ple peq alloc_limit.
Proof. intros; apply @GhostIndep.ghost_indep_run. Qed.
Print Assumptions C17_ghost_indep_run.

(* C17 *)
Theorem C17_cap_ops_invisible : forall (I P : Type) (keq : I -> I -> bool) (hash : I -> N) (ple : P -> P -> bool) (peq : P -> P -> bool) (alloc_limit : N), cap_ops_invisible_stmt keq hash ple peq alloc_limit.
Proof. intros; apply @GhostIndep.cap_ops_invisible. Qed.
Print Assumptions C17_cap_ops_invisible.

(* C14 *)
Theorem C14_clone_is_copy : forall (I P : Type) (keq : I -> I -> bool) (hash : I -> N) (ple : P -> P -> bool) (peq : P -> P -> bool) (alloc_limit : N), cap_ops_invisible_stmt keq hash ple peq alloc_limit.
Proof. intros; apply @GhostIndep.cap_ops_invisible. Qed.
Print Assumptions C14_clone_is_copy.

(* C14 *)
Theorem C14_clone_behaves_identically : forall (I P : Type) (keq : I -> I -> bool) (hash : I -> N) (ple : P -> P -> bool) (peq : P -> P -> bool) (alloc_limit : N), ghost_indep_run_stmt keq hash ple peq alloc_limit.
Proof. intros; apply @GhostIndep.ghost_indep_run. Qed.
Print Assumptions C14_clone_behaves_identically.

(* C14 *)
Theorem C14_eq_rel : forall (I P : Type) (keq : I -> I -> bool) (hash : I -> N) (ple : P -> P -> bool) (peq : P -> P -> bool), C14_eq_rel_stmt keq hash ple peq.
Proof. intros; apply @EqRel.C14_eq_rel_thm. Qed.
Print Assumptions C14_eq_rel.

(* C14 *)
Theorem C14_eq_equivalence : forall (I P : Type) (keq : I -> I -> bool) (hash : I -> N) (ple : P -> P -> bool) (peq : P -> P -> bool), C14_eq_equivalence_stmt keq hash ple peq.
Proof. intros; apply @EqRel.C14_eq_equivalence_thm. Qed.
Print Assumptions C14_eq_equivalence.

(* C15 *)
Theorem C15_roundtrip_rel : forall (I P : Type) (keq : I -> I -> bool) (hash : I -> N) (ple : P -> P -> bool) (peq : P -> P -> bool), C15_roundtrip_rel_stmt keq hash ple peq.
Proof. intros; apply @EqRel.C15_roundtrip_rel_thm. Qed.
Print Assumptions C15_roundtrip_rel.

(* C16 *)
Theorem C16_clear_any_drop : forall (I P : Type) (keq : I -> I -> bool) (hash : I -> N) (ple : P -> P -> bool) (peq : P -> P -> bool) (alloc_limit : N), C16_clear_any_drop_stmt keq hash ple peq alloc_limit.
Proof. intros; apply @ClearDrop.C16_clear_any_drop. Qed.
Print Assumptions C16_clear_any_drop.

(* C03 *)
Theorem C03_refines_map_step : forall (I P : Type) (keq : I -> I -> bool) (hash : I -> N) (ple : P -> P -> bool), refine_step_stmt keq hash ple.
Proof. intros; apply @Refine.refine_step_closed. Qed.
Print Assumptions C03_refines_map_step.

(* C03 *)
Theorem C03_refines_map_run : forall (I P : Type) (keq : I -> I -> bool) (hash : I -> N) (ple : P -> P -> bool), refine_run_stmt keq hash ple.
Proof. intros; apply @Refine.refine_run_closed. Qed.
Print Assumptions C03_refines_map_run.

(* C01 *)
Theorem C01_history_refines_max_spec : forall (I P : Type) (keq : I -> I -> bool) (hash : I -> N) (ple : P -> P -> bool), refine_run_stmt keq hash ple.
Proof. intros; apply @Refine.refine_run_closed. Qed.
Print Assumptions C01_history_refines_max_spec.

(* C01 *)
Theorem C01_spec_pop_meaning : forall (I P : Type) (keq : I -> I -> bool) (hash : I -> N) (ple : P -> P -> bool), spec_pop_meaning_stmt keq hash ple.
Proof. intros; apply @Refine.spec_pop_meaning_closed. Qed.
Print Assumptions C01_spec_pop_meaning.

(* C02 *)
Theorem C02_history_refines_minmax_spec : forall (I P : Type) (keq : I -> I -> bool) (hash : I -> N) (ple : P -> P -> bool), refine_run_stmt keq hash ple.
Proof. intros; apply @Refine.refine_run_closed. Qed.
Print Assumptions C02_history_refines_minmax_spec.

(* C11 *)
Theorem C11_history_refines_spec : forall (I P : Type) (keq : I -> I -> bool) (hash : I -> N) (ple : P -> P -> bool), refine_run_stmt keq hash ple.
Proof. intros; apply @Refine.refine_run_closed. Qed.
Print Assumptions C11_history_refines_spec.

(* C03 *)
Theorem C03_spec_tight_step : forall (I P : Type) (keq : I -> I -> bool) (hash : I -> N) (ple : P -> P -> bool), spec_step_det_stmt keq hash ple.
Proof. intros; apply @RefineDet.spec_step_det_closed. Qed.
Print Assumptions C03_spec_tight_step.

(* C03 *)
Theorem C03_spec_tight_run : forall (I P : Type) (keq : I -> I -> bool) (hash : I -> N) (ple : P -> P -> bool), spec_run_det_stmt keq hash ple.
Proof. intros; apply @RefineDet.spec_run_det_closed. Qed.
Print Assumptions C03_spec_tight_run.

(* C18 *)
Theorem C18_tie_free_outputs_from_map_alone : forall (I P : Type) (keq : I -> I -> bool) (hash : I -> N) (ple : P -> P -> bool), spec_run_det_stmt keq hash ple.
Proof. intros; apply @RefineDet.spec_run_det_closed. Qed.
Print Assumptions C18_tie_free_outputs_from_map_alone.

(* C03 *)
Theorem C03_machine_step_is_model_call : forall (I P : Type) (keq : I -> I -> bool) (hash : I -> N) (ple : P -> P -> bool) (peq : P -> P -> bool) (alloc_limit : N), machine_step_is_q_step_stmt keq hash ple peq alloc_limit.
Proof. intros; apply @RefineMachine.machine_step_is_q_step_thm. Qed.
Print Assumptions C03_machine_step_is_model_call.

(* C03 *)
Theorem C03_machine_step_refines_map : forall (I P : Type) (keq : I -> I -> bool) (hash : I -> N) (ple : P -> P -> bool) (peq : P -> P -> bool) (alloc_limit : N), machine_step_refines_stmt keq hash ple peq alloc_limit.
Proof. intros; apply @RefineMachine.machine_step_refines_thm. Qed.
Print Assumptions C03_machine_step_refines_map.

(* C01 *)
Theorem C01_machine_step_refines_spec : forall (I P : Type) (keq : I -> I -> bool) (hash : I -> N) (ple : P -> P -> bool) (peq : P -> P -> bool) (alloc_limit : N), machine_step_refines_stmt keq hash ple peq alloc_limit.
Proof. intros; apply @RefineMachine.machine_step_refines_thm. Qed.
Print Assumptions C01_machine_step_refines_spec.

(* C02 *)
Theorem C02_machine_step_refines_spec : forall (I P : Type) (keq : I -> I -> bool) (hash : I -> N) (ple : P -> P -> bool) (peq : P -> P -> bool) (alloc_limit : N), machine_step_refines_stmt keq hash ple peq alloc_limit.
Proof. intros; apply @RefineMachine.machine_step_refines_thm. Qed.
Print Assumptions C02_machine_step_refines_spec.

(* C03 *)
Theorem C03_machine_run_refines_map : forall (I P : Type) (keq : I -> I -> bool) (hash : I -> N) (ple : P -> P -> bool) (peq : P -> P -> bool) (alloc_limit : N), machine_run_refines_stmt keq hash ple peq alloc_limit.
Proof. intros; apply @RefineMachine.machine_run_refines_thm. Qed.
Print Assumptions C03_machine_run_refines_map.

(* C01 *)
Theorem C01_machine_run_refines_spec : forall (I P : Type) (keq : I -> I -> bool) (hash : I -> N) (ple : P -> P -> bool) (peq : P -> P -> bool) (alloc_limit : N), machine_run_refines_stmt keq hash ple peq alloc_limit.
Proof. intros; apply @RefineMachine.machine_run_refines_thm. Qed.
Print Assumptions C01_machine_run_refines_spec.

(* C02 *)
Theorem C02_machine_run_refines_spec : forall (I P : Type) (keq : I -> I -> bool) (hash : I -> N) (ple : P -> P -> bool) (peq : P -> P -> bool) (alloc_limit : N), machine_run_refines_stmt keq hash ple peq alloc_limit.
Proof. intros; apply @RefineMachine.machine_run_refines_thm. Qed.
Print Assumptions C02_machine_run_refines_spec.
