(** * Properties: ONLY the pinned theorems of the properties, each closed by
    [exact] of a lemma proved elsewhere, with [Print Assumptions] beneath. *)
From PQV Require Export AbsPQProofs AbsCostProofs.
