(** * DPQOps: the public operations of DoublePriorityQueue (DPQ.v) meet the
    pinned statements of OpSpec.v. *)
From PQV Require Export SimDPQ OpSpec AbsCostProofs PQOps.

Arguments Nat.mul : simpl never.
Arguments Nat.add : simpl never.
Arguments Nat.div : simpl never.
Arguments Nat.sub : simpl never.
Arguments Nat.log2 : simpl never.

Section DPQOps.
Context {I P : Type}.
Variable keq : I -> I -> bool.
Variable hash : I -> N.
Variable ple : P -> P -> bool.
Variable alloc_limit : N.

Notation store := (store I P).
Notation R := (res store).
Notation pr := (snd : I * P -> P).

(* TEMPORARY: to be replaced by the theorems of StoreProofs.v *)
Hypothesis eview_lookup : @eview_lookup_stmt I P keq.
Hypothesis eview_length : @eview_length_stmt I P keq.
Hypothesis prio_at_ok : @prio_at_ok_stmt I P keq.
Hypothesis swap_ok : @swap_ok_stmt I P keq.
Hypothesis swap_remove_ok : @swap_remove_ok_stmt I P keq.
Hypothesis remove_ok : @remove_ok_stmt I P keq hash.
Hypothesis set_entry_ok : @set_entry_ok_stmt I P keq hash.
Hypothesis push_entry_ok : @push_entry_ok_stmt I P keq hash.
Hypothesis identity_ok : @identity_ok_stmt I P keq.
Hypothesis hole_move_ok : @hole_move_ok_stmt I P keq.
Hypothesis get_index_of_spec : @get_index_of_spec_stmt I P keq hash.
Hypothesis eview_perm : @eview_perm_stmt I P keq.

(* TEMPORARY: to be replaced by the theorems of AbsDPQProofs.v *)
Hypothesis minmax_root_min : minmax_root_min_stmt (snd : I * P -> P) ple.
Hypothesis afind_max_ok : afind_max_stmt (snd : I * P -> P) ple.
Hypothesis adbuild_ok : adbuild_stmt (snd : I * P -> P) ple.
Hypothesis a_dpush_new_ok : a_dpush_new_stmt (snd : I * P -> P) ple.
Hypothesis a_dupdate_ok : a_dupdate_stmt (snd : I * P -> P) ple.
Hypothesis a_dremove_ok : a_dremove_stmt (snd : I * P -> P) ple.
Hypothesis a_pop_min_ok : a_pop_min_stmt (snd : I * P -> P) ple.
Hypothesis a_pop_max_ok : a_pop_max_stmt (snd : I * P -> P) ple.
Hypothesis a_pop_ext_if_ok : a_pop_ext_if_stmt (snd : I * P -> P) ple.
Hypothesis a_dpop_all_ok : a_dpop_all_stmt (snd : I * P -> P) ple.

Notation WF := (WF keq).
Notation gio := (get_index_of keq hash).
Notation dpq_inv := (dpq_inv keq ple).
Notation dpq_max_entry := (dpq_max_entry ple).

Local Notation dheapify_sim' :=
  (dheapify_sim keq hash ple eview_lookup eview_length prio_at_ok swap_ok swap_remove_ok
     remove_ok set_entry_ok push_entry_ok identity_ok hole_move_ok get_index_of_spec).
Local Notation dup_heapify_sim' :=
  (dup_heapify_sim keq hash ple eview_lookup eview_length prio_at_ok swap_ok swap_remove_ok
     remove_ok set_entry_ok push_entry_ok identity_ok hole_move_ok get_index_of_spec).
Local Notation dheap_build_sim' :=
  (dheap_build_sim keq hash ple eview_lookup eview_length prio_at_ok swap_ok swap_remove_ok
     remove_ok set_entry_ok push_entry_ok identity_ok hole_move_ok get_index_of_spec).
Local Notation pop_at_sim' :=
  (pop_at_sim keq hash ple eview_lookup eview_length prio_at_ok swap_ok swap_remove_ok
     remove_ok set_entry_ok push_entry_ok identity_ok hole_move_ok get_index_of_spec).
Local Notation dbubble_up_sim' :=
  (dbubble_up_sim keq ple eview_lookup eview_length prio_at_ok hole_move_ok).
Local Notation find_min_sim' := (find_min_sim keq eview_length).
Local Notation find_max_sim' := (find_max_sim keq ple eview_length prio_at_ok).
Local Notation peek_min_sim' := (peek_min_sim keq eview_lookup eview_length).
Local Notation peek_max_sim' := (peek_max_sim keq ple eview_lookup eview_length prio_at_ok).
Local Notation gio_some' := (gio_some keq hash get_index_of_spec).

Ltac splits := unfold OpSpec.dpq_inv; repeat match goal with |- _ /\ _ => split end.
Ltac bind := cbn [mbind res_bind rbind].

(** ** small facts *)
Lemma minmax_ord_short (l : list (I * P)) : length l <= 1 -> minmax_ord snd ple l.
Proof.
  intros Hl i c xi xc (Hc & _) _ Hxc. apply lookup_lt_Some in Hxc. lia.
Qed.

Lemma afind_max_none (l : list (I * P)) : (afind_max snd ple l).1 = None -> l = [].
Proof.
  unfold afind_max. destruct l as [|x0 [|x1 [|x2 l] ] ]; cbn [length fst]; try done.
  all: cbn [lookup list_lookup fst]; destruct (alt ple x2.2 x1.2); done.
Qed.

Lemma WF_size0 (s : store) : WF s -> ssize s = 0 -> smap s = [].
Proof. intros (Hm & _) Hz. apply nil_length_inv. lia. Qed.

Lemma is_ext_perm (l l' : list (I * P)) x : l ≡ₚ l' ->
  (is_max snd ple l x -> is_max snd ple l' x) /\ (is_min snd ple l x -> is_min snd ple l' x).
Proof.
  intros Hp. split; intros [Hin Hm]; (split; [rewrite <- Hp; done|]);
    intros y Hy; apply Hm; rewrite Hp; done.
Qed.

(** ** peek_min / peek_max *)
Lemma dpq_min_entry_eq (s : store) : WF s -> dpq_min_entry s = eview s !! 0.
Proof. intros HWF. unfold OpSpec.dpq_min_entry. rewrite (peek_min_sim' s HWF). done. Qed.

Lemma dpq_max_entry_eq (s : store) : WF s -> fuse s = None ->
  dpq_max_entry s = (afind_max snd ple (eview s)).1 ≫= (fun pos => eview s !! pos).
Proof.
  intros HWF Hf. unfold OpSpec.dpq_max_entry. rewrite (peek_max_sim' s HWF Hf). done.
Qed.

Theorem dpq_peek_thm : dpq_peek_stmt keq hash ple.
Proof.
  intros Hk Ho s (HWF & Hf & Hord). specialize (Hord eq_refl).
  pose proof (eview_perm s HWF) as Hp. split.
  - rewrite (peek_min_sim' s HWF). eexists. split; [reflexivity|].
    destruct (eview s !! 0) as [e|] eqn:He.
    + split.
      * apply (is_ext_perm _ _ e Hp). exact (minmax_root_min Ho (eview s) e Hord He).
      * rewrite (eview_lookup s 0 HWF) in He.
        destruct (heap s !! 0) as [i|]; [|done]. exists i. done.
    + apply lookup_ge_None in He. rewrite (eview_length s HWF) in He.
      apply (WF_size0 s HWF). lia.
  - rewrite (peek_max_sim' s HWF Hf). eexists _, _. split; [reflexivity|].
    pose proof (afind_max_cost snd ple (eview s)) as Hc.
    pose proof (afind_max_ok Ho (eview s) Hord) as Hm.
    splits; try done.
    + cbn. lia.
    + destruct (afind_max snd ple (eview s)) as [ [pos|] t]; cbn [fst snd mbind option_bind] in *.
      * destruct Hm as (x & -> & Hx). apply (is_ext_perm _ _ x Hp). done.
      * apply (WF_size0 s HWF). rewrite <- (eview_length s HWF), Hm. done.
Qed.

(** ** re-sifting after an in-place rewrite of the entry of slot [i] *)
Lemma dupdate_ok o (s : store) i e e' pos :
  keq_ok keq hash -> ord_ok ple -> dpq_inv o s ->
  smap s !! i = Some e -> qp s !! i = Some pos -> keq e'.1 e.1 = true ->
  exists s', dup_heapify ple (set_map s (<[i := e']> (smap s))) pos = Ok s' /\
    dpq_inv o s' /\ smap s' = <[i := e']> (smap s) /\ ssize s' = ssize s /\
    ticks s' <= ticks s + (9 * lg (ssize s) + 5).
Proof.
  intros Hk Ho (HWF & Hf & Hord) Hi Hq Hke.
  destruct (set_entry_ok Hk s i e e' pos HWF Hi Hq Hke) as [HWF1 Hev1].
  destruct (WF_qp_pos keq s i pos HWF Hq) as (_ & Hpos & _).
  set (s1 := set_map s (<[i := e']> (smap s))) in *.
  destruct (dup_heapify_sim' s1 pos HWF1 Hf)
    as (s2 & Hr & HWF2 & Hev2 & Hm2 & Hsz2 & Htk2 & Hfu2 & Hcp2).
  exists s2. splits; try done.
  - rewrite Hfu2. done.
  - intros ->. rewrite Hev2, Hev1.
    apply (a_dupdate_ok Ho (eview s) pos e'); [by apply Hord|].
    rewrite (eview_length s HWF). done.
  - rewrite Htk2, Hev1. change (ticks s1) with (ticks s).
    pose proof (adup_heapify_cost snd ple (<[pos:=e']> (eview s)) pos) as Hc.
    rewrite insert_length, (eview_length s HWF) in Hc. unfold lg. lia.
Qed.

(** ** change_priority, change_priority_by *)
Theorem dpq_change_priority_thm : dpq_change_priority_stmt keq hash ple.
Proof.
  intros Hk Ho o s k p Hinv. pose proof Hinv as (HWF & Hf & Hord).
  unfold DPQ.dpq_change_priority, change_priority.
  destruct (gio (smap s) k) as [i|] eqn:Hg.
  - destruct (gio_some' Hk _ _ _ Hg) as (e & He & Hke).
    rewrite He. cbn [unwrap mbind res_bind rbind].
    destruct (WF_slot_qp keq s i HWF (WF_smap_lt keq s i e HWF He)) as [pos Hq].
    unfold getu. rewrite Hq. bind.
    destruct (dupdate_ok o s i e (e.1, p) pos Hk Ho Hinv He Hq (keq_refl keq hash Hk _))
      as (s' & Hr & Hinv' & Hm & Hsz & Htk).
    rewrite Hr. bind.
    exists (Some e.2), s'. split; [done|]. split; [done|]. split; [lia|].
    exists e. done.
  - bind. exists None, s. split; [done|]. split; [done|].
    split; [lia|done].
Qed.

Theorem dpq_change_priority_by_thm : dpq_change_priority_by_stmt keq hash ple.
Proof.
  intros Hk Ho o s k g Hinv. pose proof Hinv as (HWF & Hf & Hord).
  unfold DPQ.dpq_change_priority_by, change_priority_by.
  destruct (gio (smap s) k) as [i|] eqn:Hg.
  - destruct (gio_some' Hk _ _ _ Hg) as (e & He & Hke).
    rewrite He. cbn [unwrap mbind res_bind rbind].
    rewrite (cb_nofuse s Hf). bind.
    destruct (WF_slot_qp keq s i HWF (WF_smap_lt keq s i e HWF He)) as [pos Hq].
    change (qp (set_map s (<[i:=(e.1, g e.2)]> (smap s)))) with (qp s).
    unfold getu. rewrite Hq. bind.
    destruct (dupdate_ok o s i e (e.1, g e.2) pos Hk Ho Hinv He Hq (keq_refl keq hash Hk _))
      as (s' & Hr & Hinv' & Hm & Hsz & Htk).
    rewrite Hr. bind.
    exists true, s'. split; [done|]. split; [done|]. split; [lia|].
    exists e. done.
  - bind. exists false, s. split; [done|]. split; [done|].
    split; [lia|done].
Qed.

(** ** push *)
Theorem dpq_push_thm : dpq_push_stmt keq hash ple.
Proof.
  intros Hk Ho o s k p Hinv. pose proof Hinv as (HWF & Hf & Hord).
  unfold dpush.
  destruct (gio (smap s) k) as [i|] eqn:Hg.
  - destruct (gio_some' Hk _ _ _ Hg) as (e & He & Hke).
    rewrite He. cbn [unwrap mbind res_bind rbind]. cbv zeta.
    destruct (WF_slot_qp keq s i HWF (WF_smap_lt keq s i e HWF He)) as [pos Hq].
    change (qp (set_map s (<[i:=(e.1, p)]> (smap s)))) with (qp s).
    unfold getu. rewrite Hq. bind.
    destruct (dupdate_ok o s i e (e.1, p) pos Hk Ho Hinv He Hq (keq_refl keq hash Hk _))
      as (s' & Hr & Hinv' & Hm & Hsz & Htk).
    rewrite Hr. bind.
    exists (Some e.2), s'. split; [done|]. split; [done|]. split.
    + pose proof (lg_mono (ssize s) (ssize s + 1)). lia.
    + exists e. done.
  - cbv zeta.
    destruct (push_entry_ok Hk s (k, p) HWF Hg) as [HWFp Hevp].
    set (n := ssize s).
    set (pe := push_entry s (k, p)) in *.
    change (dbubble_up ple _ _ _) with (dbubble_up ple pe n n).
    pose proof HWF as (Lm & (Lh & Lq & _) & _).
    assert (Hhn : heap pe !! n = Some n) by (apply list_lookup_middle; done).
    assert (Hqn : qp pe !! n = Some n) by (apply list_lookup_middle; done).
    pose proof (fill_id pe n n Hhn Hqn) as Hfill.
    assert (HWFf : WF (fill pe n n)) by (rewrite Hfill; done).
    destruct (dbubble_up_sim' pe n n HWFf Hf) as
      (s' & pos' & l' & t & Hab & Hco & HWF' & Hev' & Hm' & Hsz' & Htk' & Hfu' & Hcp' & Hle).
    { change (ssize pe) with (S n). lia. } { change (ssize pe) with (S n). lia. }
    rewrite Hfill, Hevp in Hab.
    rewrite Hco. bind.
    exists None, s'. split; [reflexivity|]. splits; try done.
    + rewrite Hfu'. exact Hf.
    + intros ->. rewrite Hev'.
      pose proof (a_dpush_new_ok Ho (eview s) (k, p) (Hord eq_refl)) as [H1 _].
      unfold a_dpush_new in H1. rewrite (eview_length s HWF) in H1.
      fold n in H1. rewrite Hab in H1. exact H1.
    + rewrite Htk'. change (ticks pe) with (ticks s).
      pose proof (dpq_cost snd ple (eview s)) as (Hc & _). specialize (Hc (k, p)).
      unfold a_dpush_new in Hc. rewrite (eview_length s HWF) in Hc.
      fold n in Hc. rewrite Hab in Hc. cbn [fst snd] in Hc. unfold lg. fold n. lia.
Qed.

(** ** pop_min / pop_max *)
Lemma dpop_sim (mx : bool) (s : store) : WF s -> fuse s = None ->
  exists out s' t, (if mx then pop_max ple s else pop_min ple s) = Ok (out, s') /\
    WF s' /\ fuse s' = None /\
    (if mx then a_pop_max pr ple (eview s) else a_pop_min pr ple (eview s)) = (out, eview s', t) /\
    ticks s' = ticks s + t /\
    out = (if mx then dpq_max_entry s else dpq_min_entry s) /\
    match out with
    | Some e => ssize s' = ssize s - 1 /\ 0 < ssize s /\
                exists pos i, heap s !! pos = Some i /\
                  map_swap_remove_index (smap s) i = Some (e, smap s')
    | None => smap s' = smap s /\ heap s' = heap s /\ qp s' = qp s /\ smap s = []
    end.
Proof.
  intros HWF Hf. destruct mx.
  - rewrite (dpq_max_entry_eq s HWF Hf).
    unfold pop_max, a_pop_max. rewrite (find_max_sim' s HWF Hf). bind.
    pose proof (afind_max_lt ple (eview s)) as Hlt. rewrite (eview_length s HWF) in Hlt.
    pose proof (afind_max_none (eview s)) as Hnone.
    destruct (afind_max snd ple (eview s)) as [ [pos|] t0]; cbn [fst snd mbind option_bind] in *.
    + set (s0 := set_ticks s (ticks s + t0)).
      assert (HWF0 : WF s0) by exact HWF.
      destruct (pop_at_sim' s0 pos HWF0 Hf (Hlt pos eq_refl))
        as (e & i & s' & t & Hr & Hab & HWF' & Hev & Hh & Hm & Hmsr & Hsz & Htk & Hfu & Hcp).
      change (eview s0) with (eview s) in Hab, Hev. rewrite Hr, Hab, Hev.
      exists (Some e), s', (t0 + t). splits; try done.
      * rewrite Hfu. exact Hf.
      * rewrite Htk. unfold s0. cbn. lia.
      * specialize (Hlt pos eq_refl). lia.
      * exists pos, i. done.
    + specialize (Hnone eq_refl).
      assert (Hz : ssize s = 0) by (rewrite <- (eview_length s HWF), Hnone; done).
      exists None, (set_ticks s (ticks s + t0)), t0. splits; try done.
      apply (WF_size0 s HWF Hz).
  - rewrite (dpq_min_entry_eq s HWF).
    unfold pop_min, a_pop_min. rewrite (find_min_sim' s HWF).
    unfold afind_min. rewrite (eview_length s HWF).
    destruct (ssize s) as [|m] eqn:Hsz0.
    + assert (He : eview s !! 0 = None).
      { apply lookup_ge_None. rewrite (eview_length s HWF). lia. }
      rewrite He. exists None, s, 0. splits; try done; try lia.
      apply (WF_size0 s HWF Hsz0).
    + destruct (pop_at_sim' s 0 HWF Hf ltac:(lia))
        as (e & i & s' & t & Hr & Hab & HWF' & Hev & Hh & Hm & Hmsr & Hsz & Htk & Hfu & Hcp).
      rewrite Hr, Hab, Hev.
      exists (Some e), s', t. splits; try done; try lia.
      * congruence.
      * exists 0, i. done.
Qed.

Theorem dpq_pop_thm : dpq_pop_stmt keq hash ple.
Proof.
  intros Hk Ho mx o s (HWF & Hf & Hord).
  destruct (dpop_sim mx s HWF Hf) as (out & s' & t & Hr & HWF' & Hf' & Hab & Htk & Hpk & Hout).
  exists out, s'. split; [done|]. splits; try done.
  - intros ->. destruct mx.
    + pose proof (a_pop_max_ok Ho (eview s) (Hord eq_refl)) as H.
      rewrite Hab in H. tauto.
    + pose proof (a_pop_min_ok Ho (eview s) (Hord eq_refl)) as H.
      rewrite Hab in H. tauto.
  - pose proof (dpq_cost snd ple (eview s)) as (_ & _ & _ & Hc1 & Hc2 & _).
    rewrite (eview_length s HWF) in Hc1, Hc2.
    destruct mx; rewrite Hab in *; cbn [fst snd] in *; unfold lg; lia.
  - destruct out as [e|]; [|done]. tauto.
Qed.

(** ** remove *)
Theorem dpq_remove_thm : dpq_remove_stmt keq hash ple.
Proof.
  intros Hk Ho o s k Hinv. pose proof Hinv as (HWF & Hf & Hord).
  unfold DPQ.dpq_remove. pose proof (remove_ok Hk s k HWF) as Hrm.
  destruct (gio (smap s) k) as [i|] eqn:Hg.
  - destruct Hrm as (e & pos & s1 & Hr & HWF1 & He & Hq & Hev1 & Hmsr & Hsz1 & (Htk1 & Hfu1 & Hcp1)).
    rewrite Hr. bind.
    destruct (WF_qp_pos keq s i pos HWF Hq) as (Hhp & Hpos & _).
    assert (Hevp : eview s !! pos = Some e).
    { rewrite (eview_lookup s pos HWF), Hhp. done. }
    pose proof (a_dremove_ok Ho (eview s) pos e) as Har.
    pose proof (dpq_cost snd ple (eview s)) as (_ & _ & Hc & _). specialize (Hc pos).
    rewrite (eview_length s HWF) in Hc. specialize (Hc Hpos).
    unfold a_dremove in Har, Hc. cbv zeta in Har, Hc. rewrite <- Hev1 in Har, Hc.
    rewrite (eview_length s1 HWF1) in Har, Hc.
    assert (Hee : (e.1, e.2) = e) by (destruct e; done). rewrite Hee.
    destruct (decide (pos < ssize s1)) as [Hlt|Hge].
    + destruct (dup_heapify_sim' s1 pos HWF1 ltac:(congruence))
        as (s2 & Hr2 & HWF2 & Hev2 & Hm2 & Hsz2 & Htk2 & Hfu2 & Hcp2).
      rewrite Hr2. bind.
      exists (Some e), s2. split; [done|]. splits; try done.
      * congruence.
      * intros ->. rewrite Hev2. apply Har; [by apply Hord|done].
      * rewrite Htk2, Htk1. unfold lg. lia.
      * exists e. rewrite Hm2. done.
    + bind.
      exists (Some e), s1. split; [done|]. splits; try done.
      * congruence.
      * intros ->. apply Har; [by apply Hord|done].
      * lia.
      * exists e. done.
  - rewrite Hrm. bind.
    exists None, s. split; [done|]. split; [done|]. split; [lia|done].
Qed.

(** ** pop_min_if / pop_max_if *)
Lemma swap_remove_if_sim_at (s : store) pos f :
  keq_ok keq hash -> pred_ok keq f -> WF s -> fuse s = None -> pos < ssize s ->
  exists e i, heap s !! pos = Some i /\ smap s !! i = Some e /\ eview s !! pos = Some e /\
    exists out s', swap_remove_if s pos f = Ok (out, s') /\ WF s' /\ fuse s' = None /\
      ticks s' = ticks s /\
      let '(i', p', b) := f e.1 e.2 in
      if b : bool
      then out = Some (i', p') /\
           map_swap_remove_index (<[i := (i', p')]> (smap s)) i = Some ((i', p'), smap s') /\
           eview s' = aswap_remove (<[pos := (i', p')]> (eview s)) pos /\ ssize s' = ssize s - 1
      else out = None /\ smap s' = <[i := (i', p')]> (smap s) /\
           eview s' = <[pos := (i', p')]> (eview s) /\ ssize s' = ssize s.
Proof.
  intros Hk Hpf HWF Hf Hpos.
  destruct (WF_heap_lookup keq s pos HWF Hpos) as (i & Hh & Hq & Hi).
  pose proof HWF as (Lm & _).
  destruct (lookup_lt_is_Some_2 (smap s) i ltac:(lia)) as [e He].
  exists e, i. split; [done|]. split; [done|]. split.
  { rewrite (eview_lookup s pos HWF), Hh. done. }
  unfold swap_remove_if, getu. rewrite Hh. bind.
  rewrite He. cbn [unwrap mbind res_bind rbind].
  rewrite (cb_nofuse s Hf). bind.
  pose proof (Hpf e.1 e.2) as Hke.
  destruct (f e.1 e.2) as [ [i' p'] b]. cbn [fst snd] in Hke.
  destruct (set_entry_ok Hk s i e (i', p') pos HWF He Hq Hke) as [HWF1 Hev1].
  set (s1 := set_map s (<[i := (i', p')]> (smap s))) in *.
  destruct b.
  - destruct (swap_remove_ok s1 pos HWF1 Hpos)
      as (e2 & i2 & s2 & Hr & HWF2 & Hh2 & Hm2 & Hev2 & Hmsr & Hsz2 & (Htk2 & Hfu2 & Hcp2)).
    change (heap s1) with (heap s) in Hh2. rewrite Hh in Hh2. injection Hh2 as <-.
    change (smap s1) with (<[i := (i', p')]> (smap s)) in Hm2, Hmsr.
    rewrite list_lookup_insert in Hm2 by lia. injection Hm2 as <-.
    exists (Some (i', p')), s2. rewrite Hr. splits; try done.
    + rewrite Hfu2. done.
    + rewrite Hev2, Hev1. done.
  - exists None, s1. splits; done.
Qed.

Theorem dpq_pop_if_thm : dpq_pop_if_stmt keq hash ple.
Proof.
  intros Hk Ho mx o s f Hpf Hinv. pose proof Hinv as (HWF & Hf & Hord).
  set (f' := fun e : I * P => let '(i', p', b) := f e.1 e.2 in ((i', p'), b)).
  pose proof (a_pop_ext_if_ok Ho mx (eview s) f') as Hab.
  pose proof (dpq_cost snd ple (eview s)) as (_ & _ & _ & _ & _ & Hc & _). specialize (Hc mx f').
  rewrite (eview_length s HWF) in Hc.
  unfold a_pop_ext_if in Hab, Hc.
  (* the position addressed, the state after locating it, and the comparisons spent *)
  assert (Hloc : exists opos t0,
    (if mx then afind_max snd ple (eview s) else (afind_min (eview s), 0)) = (opos, t0) /\
    (if mx then dpq_max_entry s else dpq_min_entry s) = opos ≫= (fun pos => eview s !! pos) /\
    match opos with Some pos => pos < ssize s | None => ssize s = 0 end /\
    (if mx then pop_max_if ple s f else pop_min_if ple s f) =
      match opos with
      | None => Ok (None, set_ticks s (ticks s + t0))
      | Some pos =>
          '(r, s1) ← swap_remove_if (set_ticks s (ticks s + t0)) pos f;
          s2 ← (if mx then dup_heapify ple s1 pos else dheapify ple s1 pos); Ok (r, s2)
      end).
  { destruct mx.
    - exists (afind_max snd ple (eview s)).1, (afind_max snd ple (eview s)).2.
      split; [destruct (afind_max snd ple (eview s)); done|].
      split; [apply (dpq_max_entry_eq s HWF Hf)|].
      pose proof (afind_max_lt ple (eview s)) as Hlt. rewrite (eview_length s HWF) in Hlt.
      pose proof (afind_max_none (eview s)) as Hnone.
      unfold pop_max_if. rewrite (find_max_sim' s HWF Hf). bind.
      destruct (afind_max snd ple (eview s)) as [ [pos|] t0]; cbn [fst snd] in *.
      + split; [by apply Hlt|done].
      + split; [|done]. rewrite <- (eview_length s HWF), Hnone; done.
    - exists (afind_min (eview s)), 0.
      split; [done|]. rewrite (dpq_min_entry_eq s HWF).
      unfold pop_min_if. rewrite (find_min_sim' s HWF), set_ticks_0.
      unfold afind_min. rewrite (eview_length s HWF).
      destruct (ssize s) as [|m] eqn:Hsz; cbn [mbind option_bind].
      + split; [|done]. apply lookup_ge_None. rewrite (eview_length s HWF). lia.
      + split; [done|]. split; [lia|done]. }
  destruct Hloc as (opos & t0 & Hloc & Hent & Hpos & Hrun).
  rewrite Hloc in Hab, Hc. rewrite Hent, Hrun. clear Hrun Hent.
  assert (Ht0 : t0 <= 1).
  { destruct mx; [|injection Hloc as _ <-; lia].
    pose proof (afind_max_cost snd ple (eview s)) as H. rewrite Hloc in H. done. }
  destruct opos as [pos|]; cbn [mbind option_bind].
  2:{ exists None, (set_ticks s (ticks s + t0)). split; [done|]. splits; try done. cbn. lia. }
  set (s0 := set_ticks s (ticks s + t0)).
  assert (HWF0 : WF s0) by exact HWF.
  destruct (swap_remove_if_sim_at s0 pos f Hk Hpf HWF0 Hf Hpos)
    as (e & i & Hh & Hm & He & out & s1 & Hr & HWF1 & Hf1 & Htk1 & Hcase).
  change (eview s0) with (eview s) in *. change (smap s0) with (smap s) in *.
  change (heap s0) with (heap s) in *. change (ssize s0) with (ssize s) in *.
  rewrite He in Hab, Hc |- *. unfold f' in Hab, Hc. rewrite Hr. bind.
  assert (Hsift : sim keq s1 (if mx then dup_heapify ple s1 pos else dheapify ple s1 pos)
            (if mx then adup_heapify snd ple (eview s1) pos else adheapify snd ple (eview s1) pos).1
            (if mx then adup_heapify snd ple (eview s1) pos else adheapify snd ple (eview s1) pos).2).
  { destruct mx; [apply dup_heapify_sim'|apply dheapify_sim']; done. }
  destruct Hsift as (s2 & Hr2 & HWF2 & Hev2 & Hm2 & Hsz2 & Htk2 & Hfu2 & Hcp2).
  rewrite Hr2. bind.
  destruct (f e.1 e.2) as [ [i' p'] b].
  destruct b; destruct Hcase as (-> & Hms & Hev1 & Hsz1); rewrite <- Hev1 in Hab, Hc;
    (destruct (if mx then adup_heapify snd ple (eview s1) pos else adheapify snd ple (eview s1) pos)
       as [l3 t] eqn:Hh3); cbn [fst snd] in *;
    eexists _, s2; (split; [reflexivity|]); splits; try done.
  all: try congruence.
  all: try (intros ->; rewrite Hev2; apply Hab; by apply Hord).
  all: try (rewrite Htk2, Htk1; unfold s0, lg; cbn; lia).
  all: exists pos, i; rewrite Hm2; done.
Qed.

(** ** push_increase / push_decrease *)
Lemma dpq_inv_set_ticks o (s : store) t : dpq_inv o s -> dpq_inv o (set_ticks s t).
Proof. intros H; exact H. Qed.

Theorem dpq_push_dir_thm : dpq_push_dir_stmt keq hash ple.
Proof.
  intros Hk Ho dir o s k p Hinv. pose proof Hinv as (HWF & Hf & Hord).
  pose proof (dpq_push_thm Hk Ho o s k p Hinv) as Hpush.
  destruct (gio (smap s) k) as [i|] eqn:Hg.
  - destruct (gio_some' Hk _ _ _ Hg) as (e & He & Hke).
    pose proof (dpq_push_thm Hk Ho o (set_ticks s (S (ticks s))) k p
                  (dpq_inv_set_ticks o s _ Hinv)) as Hpush1.
    change (smap (set_ticks s (S (ticks s)))) with (smap s) in Hpush1.
    change (ssize (set_ticks s (S (ticks s)))) with (ssize s) in Hpush1.
    change (ticks (set_ticks s (S (ticks s)))) with (S (ticks s)) in Hpush1.
    rewrite Hg in Hpush1.
    destruct Hpush1 as (out & s' & Hr & Hinv' & Htk & e0 & He0 & -> & Hm').
    rewrite He in He0. injection He0 as <-.
    assert (Hgp : get_priority keq hash s k = Some e.2).
    { rewrite (get_priority_gio keq hash Hk), Hg, He. done. }
    destruct dir; unfold dpush_increase, dpush_decrease; rewrite Hgp;
      rewrite (cmp_lt_nofuse ple s _ _ Hf); bind;
      rewrite plt_alt.
    + destruct (alt ple e.2 p) eqn:Hb.
      * rewrite Hr. exists (Some e.2), s'. split; [done|]. split; [done|].
        split; [lia|]. exists e. rewrite Hb. done.
      * exists (Some p), (set_ticks s (S (ticks s))). split; [done|].
        split; [done|]. split; [cbn; lia|]. exists e. rewrite Hb. done.
    + destruct (alt ple p e.2) eqn:Hb.
      * rewrite Hr. exists (Some e.2), s'. split; [done|]. split; [done|].
        split; [lia|]. exists e. rewrite Hb. done.
      * exists (Some p), (set_ticks s (S (ticks s))). split; [done|].
        split; [done|]. split; [cbn; lia|]. exists e. rewrite Hb. done.
  - assert (Hgp : get_priority keq hash s k = None).
    { rewrite (get_priority_gio keq hash Hk), Hg. done. }
    destruct Hpush as (out & s' & Hr & Hinv' & Htk & Hout).
    exists out, s'.
    destruct dir; unfold dpush_increase, dpush_decrease; rewrite Hgp;
      (split; [done|]); (split; [done|]); (split; [lia|done]).
Qed.

(** ** peek_min_mut / peek_max_mut *)
Lemma minmax_ord_insert_same (l : list (I * P)) pos e e' :
  l !! pos = Some e -> e'.2 = e.2 -> minmax_ord snd ple l -> minmax_ord snd ple (<[pos := e']> l).
Proof.
  intros Hl Hp Hh i c xi xc Hic Hxi Hxc.
  pose proof (lookup_lt_Some _ _ _ Hl) as Hlt.
  assert (Hsame : forall j x, <[pos := e']> l !! j = Some x ->
            exists y, l !! j = Some y /\ y.2 = x.2).
  { intros j x Hx. destruct (decide (j = pos)) as [->|Hne].
    - rewrite list_lookup_insert in Hx by done. injection Hx as <-. eauto.
    - rewrite list_lookup_insert_ne in Hx by done. eauto. }
  destruct (Hsame _ _ Hxi) as (yi & Hyi & Hyi2).
  destruct (Hsame _ _ Hxc) as (yc & Hyc & Hyc2).
  pose proof (Hh i c yi yc Hic Hyi Hyc) as H.
  cbv beta in *. rewrite <- Hyi2, <- Hyc2. exact H.
Qed.

Lemma entry_mut_ok o (s : store) pos u :
  keq_ok keq hash -> item_ok keq u -> dpq_inv o s -> pos < ssize s ->
  exists e i, heap s !! pos = Some i /\ smap s !! i = Some e /\ eview s !! pos = Some e /\
    entry_mut s pos u =
      Ok (Some (u e.1, e.2), set_map s (<[i := (u e.1, e.2)]> (smap s))) /\
    dpq_inv o (set_map s (<[i := (u e.1, e.2)]> (smap s))).
Proof.
  intros Hk Hu (HWF & Hf & Hord) Hpos.
  destruct (WF_heap_lookup keq s pos HWF Hpos) as (i & Hh & Hq & Hi).
  pose proof HWF as (Lm & _).
  destruct (lookup_lt_is_Some_2 (smap s) i ltac:(lia)) as [e He].
  assert (Hev : eview s !! pos = Some e).
  { rewrite (eview_lookup s pos HWF), Hh. done. }
  exists e, i. split; [done|]. split; [done|]. split; [done|].
  unfold entry_mut, getu. rewrite Hh. bind. rewrite He.
  destruct (set_entry_ok Hk s i e (u e.1, e.2) pos HWF He Hq (Hu e.1)) as [HWF1 Hev1].
  split; [done|]. splits; try done.
  intros ->. rewrite Hev1.
  apply (minmax_ord_insert_same (eview s) pos e); [done|done|by apply Hord].
Qed.

Theorem dpq_peek_mut_thm : dpq_peek_mut_stmt keq hash ple.
Proof.
  intros Hk Ho mx o s u Hu Hinv. pose proof Hinv as (HWF & Hf & Hord).
  destruct mx.
  - rewrite (dpq_max_entry_eq s HWF Hf).
    unfold peek_max_mut. rewrite (find_max_sim' s HWF Hf). bind.
    pose proof (afind_max_lt ple (eview s)) as Hlt. rewrite (eview_length s HWF) in Hlt.
    pose proof (afind_max_cost snd ple (eview s)) as Hc.
    destruct (afind_max snd ple (eview s)) as [ [pos|] t0]; cbn [fst snd mbind option_bind] in *.
    + set (s0 := set_ticks s (ticks s + t0)).
      destruct (entry_mut_ok o s0 pos u Hk Hu (dpq_inv_set_ticks o s _ Hinv) (Hlt pos eq_refl))
        as (e & i & Hh & Hm & He & Hr & Hinv').
      change (eview s0) with (eview s) in He. rewrite He, Hr.
      eexists _, _. split; [reflexivity|]. split; [exact Hinv'|].
      split; [cbn; lia|]. exists pos, i. done.
    + eexists _, _. split; [reflexivity|]. split; [exact Hinv|].
      split; [cbn; lia|]. done.
  - rewrite (dpq_min_entry_eq s HWF).
    unfold peek_min_mut, find_min.
    destruct (ssize s) as [|m] eqn:Hsz.
    + assert (He : eview s !! 0 = None).
      { apply lookup_ge_None. rewrite (eview_length s HWF). lia. }
      rewrite He. exists None, s. split; [done|]. split; [done|]. split; [lia|done].
    + destruct (entry_mut_ok o s 0 u Hk Hu Hinv ltac:(lia))
        as (e & i & Hh & Hm & He & Hr & Hinv').
      rewrite He, Hr.
      eexists _, _. split; [reflexivity|]. split; [exact Hinv'|].
      split; [cbn; lia|]. exists 0, i. done.
Qed.

(** ** heap_build and the operations that end with it *)
Theorem dpq_build_thm : dpq_build_stmt keq hash ple.
Proof.
  intros Hk Ho s (HWF & Hf & _).
  destruct (dheap_build_sim' s HWF Hf)
    as (s' & Hr & HWF' & Hev & Hm & Hsz & Htk & Hfu & Hcp).
  exists s'. split; [done|]. splits; try done.
  - congruence.
  - intros _. rewrite Hev. apply (adbuild_ok Ho).
  - rewrite Htk. pose proof (adbuild_cost snd ple (eview s)) as Hc.
    rewrite (eview_length s HWF) in Hc. lia.
Qed.

Lemma dpq_build_size (Hk : keq_ok keq hash) (Ho : ord_ok ple) (s : store) :
  dpq_inv false s ->
  exists s', dheap_build ple s = Ok s' /\ dpq_inv true s' /\ smap s' = smap s /\
    ssize s' = ssize s /\ ticks s' <= ticks s + 16 * ssize s.
Proof.
  intros Hinv. destruct (dpq_build_thm Hk Ho s Hinv) as (s' & Hr & Hinv' & Hm & Htk).
  exists s'. splits; try done; try apply Hinv'.
  destruct Hinv as ((L & _) & _). destruct Hinv' as ((L' & _) & _). congruence.
Qed.

Lemma WF_inv_false (s : store) : WF s -> fuse s = None -> dpq_inv false s.
Proof. intros H1 H2. split; [done|]. split; done. Qed.

(** ** retain *)
Theorem dpq_retain_thm : dpq_retain_stmt keq hash ple.
Proof.
  intros Hk Ho s f Hpf (HWF & Hf & _).
  unfold dpq_retain_mut, retain_mut.
  rewrite (retain_entries_nofuse f s Hf). cbn [app mbind res_bind rbind].
  set (m' := retain_list f (smap s)).
  pose proof HWF as (Lm & Htab & Hnd).
  assert (Hnd' : nodup_keys keq m') by (by apply (retain_list_nodup keq hash Hk)).
  assert (Hlen : length m' <= ssize s).
  { rewrite <- Lm. apply retain_list_length. }
  unfold realign. cbv zeta.
  change (smap (set_map s m')) with m'.
  change (ssize (set_map s m')) with (ssize s).
  destruct (decide (length m' = ssize s)) as [Heq|Hne]; bind.
  - assert (Hinv1 : dpq_inv false (set_map s m')).
    { apply WF_inv_false; [|done]. split; [done|]. split; done. }
    destruct (dpq_build_size Hk Ho _ Hinv1) as (s' & Hr & Hinv' & Hm & Hsz & Htk).
    exists s'. split; [done|]. split; [done|]. split; [done|].
    change (ticks (set_map s m')) with (ticks s) in Htk.
    change (ssize (set_map s m')) with (ssize s) in Htk. lia.
  - destruct (identity_ok s m' Hnd') as [HWF1 _].
    match type of HWF1 with Inv.WF _ ?x => set (s1 := x) in * end.
    assert (Hinv1 : dpq_inv false s1) by (apply WF_inv_false; done).
    destruct (dpq_build_size Hk Ho _ Hinv1) as (s' & Hr & Hinv' & Hm & Hsz & Htk).
    exists s'. split; [exact Hr|]. split; [done|]. split; [done|].
    change (ticks s1) with (ticks s) in Htk.
    change (ssize s1) with (length m') in Htk. lia.
Qed.

(** ** From<Vec>, append *)
Lemma empty_store_WF c : WF (empty_store c : store).
Proof. apply (empty_store_inv keq ple c). Qed.

Theorem dpq_from_vec_thm : dpq_from_vec_stmt keq hash ple.
Proof.
  intros Hk Ho l. unfold DPQ.dpq_from_vec, from_vec.
  set (s0 := empty_store (N.of_nat (length l)) : store).
  destruct (append_entries_ok keq hash push_entry_ok Hk l s0) as (HWF & Hm & Htk & Hfu).
  { apply empty_store_WF. }
  destruct (dpq_build_size Hk Ho (append_entries keq hash s0 l))
    as (s' & Hr & Hinv' & Hm' & Hsz & Htk').
  { apply WF_inv_false; done. }
  exists s'. split; [done|]. split; [done|]. split; [rewrite Hm', Hm; done|].
  rewrite Htk in Htk'. cbn in Htk'. lia.
Qed.

Lemma dclear_inv (s : store) : fuse s = None -> dpq_inv true (clear s).
Proof.
  intros Hf. split; [apply (clear_inv keq ple s Hf)|]. split; [done|].
  intros _. apply minmax_ord_short. cbn. lia.
Qed.

Lemma dempty_inv_true (s : store) : WF s -> fuse s = None -> ssize s = 0 -> dpq_inv true s.
Proof.
  intros HWF Hf Hz. split; [done|]. split; [done|]. intros _.
  apply minmax_ord_short. rewrite (eview_length s HWF). lia.
Qed.

Theorem dpq_append_thm : dpq_append_stmt keq hash ple.
Proof.
  intros Hk Ho s o (HWFs & Hfs & _) (HWFo & Hfo & _).
  unfold DPQ.dpq_append, append.
  pose proof HWFs as (Ls & _). pose proof HWFo as (Lo & _).
  destruct (decide (ssize s < ssize o)) as [Hlt|Hge].
  - change (ssize (with_ghost_of o s)) with (ssize s).
    destruct (decide (ssize s = 0)) as [Hz|Hnz].
    + destruct (dpq_build_size Hk Ho (with_ghost_of s o)) as (s' & Hr & Hinv' & Hm' & Hsz & Htk').
      { split; [exact HWFo|]. split; [exact Hfs|done]. }
      rewrite Hr. bind.
      exists s', (with_ghost_of o s). split; [done|]. split; [done|].
      split; [apply dempty_inv_true; done|].
      assert (smap s = []) as Hnil by (apply nil_length_inv; lia).
      split; [exact Hnil|]. split; [rewrite Hm', Hnil; done|].
      split; [|done]. rewrite Hsz. exact Htk'.
    + destruct (append_entries_ok keq hash push_entry_ok Hk (smap s) (with_ghost_of s o))
        as (HWF1 & Hm1 & Htk1 & Hfu1).
      { exact HWFo. }
      change (smap (with_ghost_of o s)) with (smap s).
      destruct (dpq_build_size Hk Ho (append_entries keq hash (with_ghost_of s o) (smap s)))
        as (s' & Hr & Hinv' & Hm' & Hsz & Htk').
      { split; [done|]. split; [rewrite Hfu1; exact Hfs|done]. }
      rewrite Hr. bind.
      exists s', (clear (with_ghost_of o s)). split; [done|]. split; [done|].
      split; [apply dclear_inv; exact Hfo|]. split; [done|].
      split; [rewrite Hm', Hm1; done|]. split; [|done].
      rewrite Hsz. rewrite Htk1 in Htk'. exact Htk'.
  - destruct (decide (ssize o = 0)) as [Hz|Hnz].
    + destruct (dpq_build_size Hk Ho s) as (s' & Hr & Hinv' & Hm' & Hsz & Htk').
      { apply WF_inv_false; done. }
      rewrite Hr. bind.
      exists s', o. split; [done|]. split; [done|].
      split; [apply dempty_inv_true; done|].
      assert (smap o = []) as Hnil by (apply nil_length_inv; lia).
      split; [exact Hnil|]. split; [rewrite Hm', Hnil; done|].
      split; [|done]. rewrite Hsz. exact Htk'.
    + destruct (append_entries_ok keq hash push_entry_ok Hk (smap o) s HWFs)
        as (HWF1 & Hm1 & Htk1 & Hfu1).
      destruct (dpq_build_size Hk Ho (append_entries keq hash s (smap o)))
        as (s' & Hr & Hinv' & Hm' & Hsz & Htk').
      { split; [done|]. split; [rewrite Hfu1; exact Hfs|done]. }
      rewrite Hr. bind.
      exists s', (clear o). split; [done|]. split; [done|].
      split; [apply dclear_inv; exact Hfo|]. split; [done|].
      split; [rewrite Hm', Hm1; done|]. split; [|done].
      rewrite Hsz. rewrite Htk1 in Htk'. exact Htk'.
Qed.

(** ** serde visit_seq, FromIterator, Extend *)
Theorem dpq_deserialize_thm : dpq_deserialize_stmt keq hash ple.
Proof.
  intros Hk Ho l. unfold DPQ.dpq_deserialize, visit_seq.
  set (s0 := empty_store (N.of_nat (length l)) : store).
  destruct (visit_fold_ok keq hash set_entry_ok push_entry_ok get_index_of_spec Hk l s0)
    as (HWF & Hm & Htk & Hfu).
  { apply empty_store_WF. }
  destruct (dpq_build_size Hk Ho (fold_left (visit_one keq hash) l s0))
    as (s' & Hr & Hinv' & Hm' & Hsz & Htk').
  { apply WF_inv_false; done. }
  exists s'. split; [done|]. split; [done|]. split; [rewrite Hm', Hm; done|].
  rewrite Htk in Htk'. cbn in Htk'. lia.
Qed.

Local Notation extend_entries_ok' :=
  (extend_entries_ok keq hash set_entry_ok push_entry_ok get_index_of_spec).

Theorem dpq_from_iter_thm : dpq_from_iter_stmt keq hash ple alloc_limit.
Proof.
  intros Hk Ho l h Hh. unfold DPQ.dpq_from_iter, from_iter, with_capacity.
  rewrite decide_True by done. bind.
  change (set_fuse (empty_store h.1) None) with (empty_store h.1 : store).
  destruct (extend_entries_ok' Hk l (empty_store h.1)) as (s1 & Hr1 & HWF1 & Hf1 & Hm1 & Htk1).
  { apply empty_store_WF. } { done. }
  rewrite Hr1. bind.
  destruct (dpq_build_size Hk Ho s1) as (s' & Hr & Hinv' & Hm' & Hsz & Htk').
  { apply WF_inv_false; done. }
  exists s'. split; [done|]. split; [done|]. split; [rewrite Hm', Hm1; done|].
  rewrite Htk1 in Htk'. cbn in Htk'. lia.
Qed.

Lemma dpush_all_ok (Hk : keq_ok keq hash) (Ho : ord_ok ple) o l : forall s : store, dpq_inv o s ->
  exists s', dpush_all keq hash ple s l = Ok s' /\ dpq_inv o s' /\
    smap s' = push_list keq hash (smap s) l.
Proof.
  induction l as [|e l IH]; intros s Hinv; cbn [dpush_all];
    pose proof Hinv as (HWF & Hf & _);
    rewrite (cb_nofuse s Hf); bind.
  - exists s. done.
  - destruct (dpq_push_thm Hk Ho o s e.1 e.2 Hinv) as (out & s1 & Hr1 & Hinv1 & _ & Hcase).
    rewrite Hr1. bind.
    destruct (IH s1 Hinv1) as (s' & Hr & Hinv' & Hm').
    exists s'. split; [done|]. split; [done|]. rewrite Hm'.
    unfold push_list. cbn [fold_left]. f_equal.
    destruct (gio (smap s) e.1) as [i|].
    + destruct Hcase as (e0 & He0 & _ & ->). rewrite He0. done.
    + destruct Hcase as (_ & ->). destruct e; done.
Qed.

Theorem dpq_extend_thm : dpq_extend_stmt keq hash ple alloc_limit.
Proof.
  intros Hk Ho o s l h Hinv Hh. pose proof Hinv as (HWF & Hf & Hord).
  unfold DPQ.dpq_extend, extend_with, reserve.
  rewrite decide_True by done. bind.
  set (s1 := set_cap s _).
  assert (Hinv1 : dpq_inv o s1) by exact Hinv.
  assert (Hgen : forall rb : bool, exists s',
    (if rb then s2 ← extend_entries keq hash s1 l; dheap_build ple s2
     else dpush_all keq hash ple s1 l) = Ok s' /\
    (dpq_inv true s' \/ (dpq_inv o s' /\ smap s' = push_list keq hash (smap s) l)) /\
    (smap s' = extend_list keq hash (smap s) l \/ smap s' = push_list keq hash (smap s) l)).
  { intros [|].
    - destruct (extend_entries_ok' Hk l s1 HWF Hf) as (s2 & Hr2 & HWF2 & Hf2 & Hm2 & Htk2).
      rewrite Hr2. bind.
      destruct (dpq_build_size Hk Ho s2) as (s' & Hr & Hinv' & Hm' & Hsz & Htk').
      { apply WF_inv_false; done. }
      exists s'. split; [done|]. split; [left; done|]. left. rewrite Hm', Hm2. done.
    - destruct (dpush_all_ok Hk Ho o l s1 Hinv1) as (s' & Hr & Hinv' & Hm').
      exists s'. split; [done|]. split; right; done. }
  cbv zeta. apply Hgen.
Qed.

(** ** into_ascending_sorted_vec / into_descending_sorted_vec *)
Lemma dpop_all_sim (mn : bool) fuel : forall (s : store) acc,
  WF s -> fuse s = None -> ssize s < fuel ->
  exists s', dpop_all ple mn fuel s acc =
    Ok (acc ++ (a_dpop_all pr ple mn fuel (eview s)).1, s').
Proof.
  induction fuel as [|fuel IH]; intros s acc HWF Hf Hfuel; [lia|].
  cbn [dpop_all a_dpop_all].
  destruct (dpop_sim (negb mn) s HWF Hf)
    as (out & s1 & t & Hr & HWF1 & Hf1 & Hab & Htk & Hpk & Hout).
  assert (Hr' : (if mn then pop_min ple s else pop_max ple s) = Ok (out, s1))
    by (destruct mn; exact Hr).
  assert (Hab' : (if mn then a_pop_min pr ple (eview s) else a_pop_max pr ple (eview s))
                 = (out, eview s1, t)) by (destruct mn; exact Hab).
  rewrite Hr', Hab'. bind.
  destruct out as [e|].
  - destruct Hout as (Hsz & Hpos & _).
    destruct (IH s1 (acc ++ [e]) HWF1 Hf1 ltac:(lia)) as [s' Hs']. rewrite Hs'.
    destruct (a_dpop_all snd ple mn fuel (eview s1)) as [out' t']. cbn [fst snd].
    exists s'. rewrite <- app_assoc. done.
  - exists s1. cbn [fst]. rewrite app_nil_r. done.
Qed.

Theorem dpq_into_sorted_vec_thm : dpq_into_sorted_vec_stmt keq hash ple.
Proof.
  intros Hk Ho mn s (HWF & Hf & Hord). unfold into_sorted_vec_dir.
  destruct (dpop_all_sim mn (S (ssize s)) s [] HWF Hf ltac:(lia)) as [s' Hs'].
  rewrite Hs'. cbn [app]. eexists _, s'. split; [reflexivity|].
  pose proof (a_dpop_all_ok Ho (eview s) (Hord eq_refl)) as H.
  rewrite (eview_length s HWF) in H. cbv zeta in H. destruct H as [ [H1 H2] [H3 H4] ].
  pose proof (eview_perm s HWF) as Hp.
  destruct mn; (split; [|done]); [rewrite H1|rewrite H3]; exact Hp.
Qed.

End DPQOps.

Print Assumptions dpq_peek_thm.
Print Assumptions dpq_push_thm.
Print Assumptions dpq_pop_thm.
Print Assumptions dpq_change_priority_thm.
Print Assumptions dpq_change_priority_by_thm.
Print Assumptions dpq_remove_thm.
Print Assumptions dpq_pop_if_thm.
Print Assumptions dpq_push_dir_thm.
Print Assumptions dpq_peek_mut_thm.
Print Assumptions dpq_build_thm.
Print Assumptions dpq_retain_thm.
Print Assumptions dpq_from_vec_thm.
Print Assumptions dpq_append_thm.
Print Assumptions dpq_deserialize_thm.
Print Assumptions dpq_from_iter_thm.
Print Assumptions dpq_extend_thm.
Print Assumptions dpq_into_sorted_vec_thm.
