(** * IterProofs: proofs of the statements pinned in IterSpec.v about the
    iterator state machines of Iter.v. *)
From PQV Require Export IterSpec.

#[local] Arguments Nat.mul : simpl never.
#[local] Arguments Nat.add : simpl never.
#[local] Arguments Nat.sub : simpl never.
#[local] Arguments Nat.div : simpl never.
#[local] Arguments Nat.min : simpl never.

Section IterProofs.
Context {I P : Type}.
Variable keq : I -> I -> bool.
Variable hash : I -> N.
Variable ple : P -> P -> bool.

Notation store := (store I P).
Notation sout := (sout I P).
Notation istep := (istep I P).
Notation R := (res store).
Notation WF := (WF keq).

(** ** the generic runner *)
Definition rev_step (x : istep) : istep :=
  match x with
  | INext w u => INextBack w u
  | INextBack w u => INext w u
  | y => y
  end.

Section Gen.
Context {T : Type}.
Variable it : T -> istep -> option (R (T * sout)).

Lemma it_run_acc a l : forall left t acc,
  it_run it a left t l acc =
  match it_run it a left t l [] with
  | Some (Ok (t', outs)) => Some (Ok (t', acc ++ outs))
  | r => r
  end.
Proof.
  induction l as [|x l IH]; intros left t acc; cbn [it_run].
  - by rewrite app_nil_r.
  - destruct (ad_step it a left t x) as [[[[t1 left1] o]|u|f]|]; try done.
    rewrite (IH left1 t1 (acc ++ [o])), (IH left1 t1 ([] ++ [o])).
    destruct (it_run it a left1 t1 l []) as [[[t' outs]|u|f]|]; try done.
    by rewrite <- app_assoc.
Qed.

Lemma it_run_cons a left t x l t' outs :
  it_run it a left t (x :: l) [] = Some (Ok (t', outs)) ->
  exists t1 left1 o outs1,
    ad_step it a left t x = Some (Ok (t1, left1, o)) /\
    it_run it a left1 t1 l [] = Some (Ok (t', outs1)) /\ outs = o :: outs1.
Proof.
  cbn [it_run].
  destruct (ad_step it a left t x) as [[[[t1 left1] o]|u|f]|]; try done.
  rewrite it_run_acc.
  destruct (it_run it a left1 t1 l []) as [[[t2 outs1]|u|f]|] eqn:E; try done.
  intros [= <- <-]. eauto 10.
Qed.

Lemma it_run_cons_fwd a left t x l t1 left1 o t' outs1 :
  ad_step it a left t x = Some (Ok (t1, left1, o)) ->
  it_run it a left1 t1 l [] = Some (Ok (t', outs1)) ->
  it_run it a left t (x :: l) [] = Some (Ok (t', o :: outs1)).
Proof.
  intros H1 H2. cbn [it_run]. rewrite H1, it_run_acc, H2. done.
Qed.

Lemma ad_step_direct left t x t1 left1 o :
  ad_step it ADirect left t x = Some (Ok (t1, left1, o)) ->
  it t x = Some (Ok (t1, o)).
Proof.
  cbn [ad_step]. destruct (it t x) as [[[t2 o2]|u|f]|]; cbn; try done.
  by intros [= <- <- <-].
Qed.

Lemma ad_step_direct_fwd left t x t1 o :
  it t x = Some (Ok (t1, o)) ->
  ad_step it ADirect left t x = Some (Ok (t1, left, o)).
Proof. intros H. cbn [ad_step]. rewrite H. done. Qed.

Lemma ad_step_rev left t x t1 left1 o :
  ad_step it ARev left t x = Some (Ok (t1, left1, o)) ->
  it t (rev_step x) = Some (Ok (t1, o)).
Proof.
  cbn [ad_step]. fold (rev_step x).
  destruct (it t (rev_step x)) as [[[t2 o2]|u|f]|]; cbn; try done.
  by intros [= <- <- <-].
Qed.

(** every step through an adaptor is a step of the inner iterator, or
    leaves the inner state alone and hands out no element *)
Lemma ad_step_cases a left t x t1 left1 o :
  ad_step it a left t x = Some (Ok (t1, left1, o)) ->
  (exists x', (x' = x \/ x' = rev_step x) /\ it t x' = Some (Ok (t1, o))) \/
  (t1 = t /\ match o with
             | SMut _ => False
             | SElem (Some _) => False
             | _ => True
             end).
Proof.
  destruct a as [| |n|n].
  - intros H%ad_step_direct. left. eauto.
  - intros H%ad_step_rev. left. eauto.
  - cbn [ad_step]. destruct x as [w u|w u| |].
    + destruct left as [|left'].
      * intros [= <- <- <-]. by right.
      * destruct (it t (INext w u)) as [[[t2 o2]|u'|f]|] eqn:E; cbn; try done.
        intros [= <- <- <-]. left. eauto.
    + done.
    + destruct (inner_hint it t) as [[h|u|f]|]; cbn; try done.
      intros [= <- <- <-]. by right.
    + destruct (inner_hint it t) as [[h|u|f]|]; cbn; try done.
      intros [= <- <- <-]. by right.
  - done.
Qed.
End Gen.

(** ** iter_mut *)
Lemma im_it_step k (s : store) st (x : istep) s1 st1 o :
  im_it k (s, st) x = Some (Ok (s1, st1, o)) <-> im_step k s st x = Some (s1, st1, o).
Proof.
  unfold im_it. cbn [fst snd].
  destruct (im_step k s st x) as [[[s2 st2] o2]|]; cbn; split; try done.
  - by intros [= <- <- <-].
  - by intros [= <- <- <-].
Qed.

(** the slots the cursors have passed *)
Definition covered (k : kind) (st : imstate) (slot : nat) : Prop :=
  slot < im_pos st \/ (k = KDPQ /\ im_end st <= slot).

Ltac solve_cov := intuition (try discriminate; try lia).

Lemma im_step_spec k (s : store) st (x : istep) (s1 : store) st1 (o : sout) :
  im_step k s st x = Some (s1, st1, o) ->
  (forall slot, covered k st slot -> covered k st1 slot) /\
  ((s1 = s /\ match o with SMut (Some _) => False | _ => True end) \/
   (exists slot e w u, (x = INext w u \/ x = INextBack w u) /\
      smap s !! slot = Some e /\ ~ covered k st slot /\ covered k st1 slot /\
      s1 = set_map s (<[slot := (u e.1, w e.2)]> (smap s)) /\
      o = SMut (Some (slot, (u e.1, w e.2))))).
Proof.
  unfold covered.
  destruct k, x as [w u|w u| |]; cbn [im_step]; try done;
    repeat case_decide; unfold im_yield;
    try (intros [= <- <- <-]; split; [done | by left]).
  - destruct (smap s !! im_pos st) as [e|] eqn:E; intros [= <- <- <-]; cbn [im_pos im_end].
    + split; [intros slot; solve_cov|]. right. exists (im_pos st), e, w, u.
      repeat split; eauto; solve_cov.
    + split; [intros slot; solve_cov|]. by left.
  - destruct (smap s !! im_pos st) as [e|] eqn:E; intros [= <- <- <-]; cbn [im_pos im_end].
    + split; [intros slot; solve_cov|]. right. exists (im_pos st), e, w, u.
      repeat split; eauto; solve_cov.
    + split; [intros slot; solve_cov|]. by left.
  - destruct (smap s !! (im_end st - 1)) as [e|] eqn:E; intros [= <- <- <-]; cbn [im_pos im_end].
    + split; [intros slot; solve_cov|]. right. exists (im_end st - 1), e, w, u.
      repeat split; eauto; solve_cov.
    + split; [intros slot; solve_cov|]. by left.
Qed.

Definition im_post (k : kind) (s : store) (st : imstate) (s' : store) (outs : list sout) : Prop :=
  NoDup (fst <$> yields outs) /\
  (forall slot, slot ∈ fst <$> yields outs -> ~ covered k st slot) /\
  (forall slot e, (slot, e) ∈ yields outs -> smap s' !! slot = Some e) /\
  (forall slot, slot ∉ (fst <$> yields outs) -> smap s' !! slot = smap s !! slot) /\
  length (smap s') = length (smap s) /\
  heap s' = heap s /\ qp s' = qp s /\ ssize s' = ssize s /\
  ticks s' = ticks s /\ fuse s' = fuse s /\ cap s' = cap s.

Lemma yields_cons_skip (o : sout) outs :
  match o with SMut (Some _) => False | _ => True end ->
  yields (o :: outs) = yields outs.
Proof. destruct o as [?|[?|]|?|? ?]; done. Qed.

Lemma im_post_skip k s st st1 s' o outs1 :
  (forall slot, covered k st slot -> covered k st1 slot) ->
  match o with SMut (Some _) => False | _ => True end ->
  im_post k s st1 s' outs1 -> im_post k s st s' (o :: outs1).
Proof.
  intros Hc Ho. unfold im_post. rewrite (yields_cons_skip o outs1 Ho).
  intros (H1 & H2 & H3); repeat split; try tauto.
  intros slot Hs Hcov. eapply H2; eauto.
Qed.

Lemma im_post_yield k s st st1 s' slot e0 e outs1 :
  (forall slot, covered k st slot -> covered k st1 slot) ->
  smap s !! slot = Some e0 -> ~ covered k st slot -> covered k st1 slot ->
  im_post k (set_map s (<[slot := e]> (smap s))) st1 s' outs1 ->
  im_post k s st s' (SMut (Some (slot, e)) :: outs1).
Proof.
  intros Hc Hl Hn Hy (H1 & H2 & H3 & H4 & H5 & H6).
  assert (Hlt : slot < length (smap s)) by (eapply lookup_lt_Some; eauto).
  assert (Hni : slot ∉ fst <$> yields outs1) by (intros Hin; eapply H2; eauto).
  unfold im_post.
  change (yields (SMut (Some (slot, e)) :: outs1)) with ((slot, e) :: yields outs1).
  cbn [set_map smap heap qp ssize ticks fuse cap] in *.
  rewrite fmap_cons. cbn [fst].
  split; [|split; [|split; [|split; [|split]]]].
  - by constructor.
  - intros slot' [->|Hin]%elem_of_cons; [done|].
    intros Hcov. eapply H2; eauto.
  - intros slot' e' [[= -> ->]|Hin]%elem_of_cons.
    + rewrite (H4 _ Hni). by apply list_lookup_insert.
    + eauto.
  - intros slot' Hnin. apply not_elem_of_cons in Hnin as [Hne Hnin].
    rewrite (H4 _ Hnin). by apply list_lookup_insert_ne.
  - by rewrite H5, insert_length.
  - done.
Qed.

Lemma im_post_nil k s st : im_post k s st s [].
Proof.
  unfold im_post. cbn. repeat split; try done.
  - constructor.
  - intros slot H. by apply elem_of_nil in H.
  - intros slot e H. by apply elem_of_nil in H.
Qed.

Lemma im_run_gen k a script : forall left (s : store) st (s' : store) st' (outs : list sout),
  it_run (im_it k) a left (s, st) script [] = Some (Ok ((s', st'), outs)) ->
  im_post k s st s' outs.
Proof.
  induction script as [|x script IH]; intros left s st s' st' outs.
  - cbn [it_run]. intros [= <- <- <-]. apply im_post_nil.
  - intros (t1 & left1 & o & outs1 & Hstep & Hrun & ->)%it_run_cons.
    destruct t1 as [s1 st1]. apply IH in Hrun.
    apply ad_step_cases in Hstep as [(x' & _ & Hit)|[[= -> ->] Ho]].
    + apply im_it_step, im_step_spec in Hit as [Hc [[-> Ho]|Hy]].
      * eapply im_post_skip; eauto.
      * destruct Hy as (slot & e & w & u & _ & Hl & Hn & Hcov & -> & ->).
        eapply im_post_yield; eauto.
    + eapply im_post_skip; eauto. destruct o as [[?|]|?|?|? ?]; done.
Qed.

Theorem itermut_ok : @itermut_stmt I P.
Proof.
  intros k a left s script s' st' outs H. apply im_run_gen in H.
  unfold im_post in H. tauto.
Qed.

(** well-formedness *)
Lemma nodup_keys_insert (K : keq_ok keq hash) (m : list (I * P)) slot e e' :
  nodup_keys keq m -> m !! slot = Some e -> keq e'.1 e.1 = true ->
  nodup_keys keq (<[slot := e']> m).
Proof.
  destruct K as (Krefl & Ksym & Ktrans & _).
  intros Hnd Hl Hk i j ei ej Hi Hj Hij.
  assert (Hlt : slot < length m) by (eapply lookup_lt_Some; eauto).
  destruct (decide (i = slot)) as [->|Hi'], (decide (j = slot)) as [->|Hj']; try done.
  - rewrite list_lookup_insert in Hi by done.
    rewrite list_lookup_insert_ne in Hj by done. simplify_eq.
    eapply Hnd; eauto.
  - rewrite list_lookup_insert in Hj by done.
    rewrite list_lookup_insert_ne in Hi by done. simplify_eq.
    eapply Hnd; eauto.
  - rewrite list_lookup_insert_ne in Hi by done.
    rewrite list_lookup_insert_ne in Hj by done. eapply Hnd; eauto.
Qed.

Definition istep_ok (x : istep) : Prop :=
  match x with
  | INext _ u | INextBack _ u => item_ok keq u
  | _ => True
  end.

Lemma istep_ok_rev x : istep_ok x -> istep_ok (rev_step x).
Proof. by destruct x. Qed.

Lemma im_run_wf (K : keq_ok keq hash) k a script : forall left (s : store) st (s' : store) st' (outs : list sout),
  WF s -> Forall istep_ok script ->
  it_run (im_it k) a left (s, st) script [] = Some (Ok ((s', st'), outs)) ->
  WF s'.
Proof.
  induction script as [|x script IH]; intros left s st s' st' outs Hwf Hok.
  - cbn [it_run]. by intros [= <- <- <-].
  - intros (t1 & left1 & o & outs1 & Hstep & Hrun & ->)%it_run_cons.
    destruct t1 as [s1 st1]. apply Forall_cons in Hok as [Hx Hok].
    enough (Hwf1 : WF s1) by (eapply IH; eauto).
    apply ad_step_cases in Hstep as [(x' & Hx' & Hit)|[[= -> ->] Ho]]; [|done].
    assert (Hxo : istep_ok x').
    { destruct Hx' as [->| ->]; [done|by apply istep_ok_rev]. }
    apply im_it_step, im_step_spec in Hit as [Hc [[-> Ho]|Hy]]; [done|].
    destruct Hy as (slot & e & w & u & Hxx & Hl & Hn & Hcov & -> & ->).
    assert (Hu : item_ok keq u) by (destruct Hxx as [->| ->]; exact Hxo).
    destruct Hwf as (Hlen & Htab & Hnd).
    unfold Inv.WF. cbn [set_map smap heap qp ssize].
    split; [by rewrite insert_length|]. split; [done|].
    eapply nodup_keys_insert; eauto.
Qed.

Theorem itermut_wf : @itermut_wf_stmt I P keq hash.
Proof.
  intros K k a left s script s' st' outs Hwf Hok Hrun.
  eapply im_run_wf; eauto.
Qed.

(** exact size (DoublePriorityQueue) *)
Lemma im_step_exact  (s : store) st (x : istep) (s1 : store) st1 (o : sout) :
  im_end st <= length (smap s) ->
  im_step KDPQ s st x = Some (s1, st1, o) ->
  im_end st1 <= length (smap s1) /\
  match o with
  | SMut (Some _) => 0 < im_end st - im_pos st /\
                     im_end st1 - im_pos st1 = im_end st - im_pos st - 1
  | SMut None => im_end st - im_pos st = 0 /\ st1 = st
  | SLen r => r = Ok (im_end st - im_pos st) /\ st1 = st
  | SHint lo hi => lo = im_end st - im_pos st /\ hi = Some (im_end st - im_pos st) /\ st1 = st
  | SElem _ => False
  end.
Proof.
  intros Hle.
  destruct x as [w u|w u| |]; cbn [im_step]; repeat case_decide; unfold im_yield;
    try (intros [= <- <- <-]; split; [done|]; repeat split; lia).
  - destruct (lookup_lt_is_Some_2 (smap s) (im_pos st)) as [e E]; [lia|].
    rewrite E. intros [= <- <- <-]. cbn [set_map smap im_pos im_end].
    rewrite insert_length. repeat split; lia.
  - destruct (lookup_lt_is_Some_2 (smap s) (im_end st - 1)) as [e E]; [lia|].
    rewrite E. intros [= <- <- <-]. cbn [set_map smap im_pos im_end].
    rewrite insert_length. repeat split; lia.
Qed.

Lemma im_exact_gen a script : a = ADirect \/ a = ARev -> forall left (s : store) st (s' : store) st' (outs : list sout),
  im_end st <= length (smap s) ->
  it_run (im_it KDPQ) a left (s, st) script [] = Some (Ok ((s', st'), outs)) ->
  exact_outs (im_end st - im_pos st) outs.
Proof.
  intros Ha. induction script as [|x script IH]; intros left s st s' st' outs Hle.
  - cbn [it_run]. by intros [= <- <- <-].
  - intros (t1 & left1 & o & outs1 & Hstep & Hrun & ->)%it_run_cons.
    destruct t1 as [s1 st1].
    assert (exists x', im_step KDPQ s st x' = Some (s1, st1, o)) as [x' Hx'].
    { destruct Ha as [->| ->].
      - apply ad_step_direct, im_it_step in Hstep. eauto.
      - apply ad_step_rev, im_it_step in Hstep. eauto. }
    apply im_step_exact in Hx' as [Hle1 Ho]; [|done].
    eapply IH in Hrun; [|done].
    destruct o as [?|[?|]|?|? ?]; cbn [exact_outs]; try done.
    + destruct Ho as [? <-]. done.
    + destruct Ho as [? ->]. done.
    + destruct Ho as [? ->]. done.
    + destruct Ho as (? & ? & ->). done.
Qed.

Theorem itermut_exact : @itermut_exact_stmt I P.
Proof.
  intros a s script s' st' outs Ha Hrun.
  eapply im_exact_gen in Hrun; eauto.
  cbn [im_new im_pos im_end] in Hrun. by rewrite Nat.sub_0_r in Hrun.
Qed.

(** fused (PriorityQueue) *)
Lemma im_step_fused  (s : store) st (x : istep) (s1 : store) st1 (o : sout) :
  im_step KPQ s st x = Some (s1, st1, o) ->
  length (smap s1) = length (smap s) /\
  match o with
  | SMut (Some _) => 0 < length (smap s) - im_pos st /\ im_pos st1 = S (im_pos st)
  | SMut None => length (smap s) - im_pos st = 0 /\ im_pos st1 = S (im_pos st)
  | SElem _ => False
  | _ => st1 = st
  end.
Proof.
  destruct x as [w u|w u| |]; cbn [im_step]; try done; unfold im_yield.
  - destruct (smap s !! im_pos st) as [e|] eqn:E; intros [= <- <- <-];
      cbn [set_map smap im_pos im_end].
    + apply lookup_lt_Some in E. rewrite insert_length. repeat split; lia.
    + apply lookup_ge_None in E. repeat split; lia.
  - by intros [= <- <- <-].
Qed.

Lemma im_fused_gen script : forall left (s : store) st (s' : store) st' (outs : list sout),
  it_run (im_it KPQ) ADirect left (s, st) script [] = Some (Ok ((s', st'), outs)) ->
  fused_outs (length (smap s) - im_pos st) outs.
Proof.
  induction script as [|x script IH]; intros left s st s' st' outs.
  - cbn [it_run]. by intros [= <- <- <-].
  - intros (t1 & left1 & o & outs1 & Hstep & Hrun & ->)%it_run_cons.
    destruct t1 as [s1 st1].
    apply ad_step_direct, im_it_step, im_step_fused in Hstep as [Hlen Ho].
    apply IH in Hrun. rewrite Hlen in Hrun.
    destruct o as [?|[?|]|?|? ?]; cbn [fused_outs]; try done.
    + destruct Ho as [? Hp]. rewrite Hp in Hrun. split; [done|].
      by replace (length (smap s) - im_pos st - 1) with (length (smap s) - S (im_pos st)) by lia.
    + destruct Ho as [? Hp]. rewrite Hp in Hrun. split; [done|].
      by replace (length (smap s) - im_pos st) with (length (smap s) - S (im_pos st)) by lia.
    + by subst.
    + by subst.
Qed.

Theorem itermut_fused : @itermut_fused_stmt I P.
Proof.
  intros s script s' st' outs Hrun. apply im_fused_gen in Hrun.
  cbn [im_new im_pos] in Hrun. by rewrite Nat.sub_0_r in Hrun.
Qed.

(** ** iter / into_iter / drain *)
Lemma dq_step_spec (l : list (I * P)) x l1 o :
  dq_step l x = (l1, o) ->
  match o with
  | SElem (Some e) => l = e :: l1 \/ l = l1 ++ [e]
  | SElem None => l = [] /\ l1 = []
  | SLen r => r = Ok (length l) /\ l1 = l
  | SHint lo hi => lo = length l /\ hi = Some (length l) /\ l1 = l
  | SMut _ => False
  end.
Proof.
  destruct x as [w u|w u| |]; cbn [dq_step].
  - destruct l as [|e l]; intros [= <- <-]; auto.
  - destruct (last l) as [e|] eqn:E; intros [= <- <-].
    + apply last_Some in E as [l' ->]. right.
      rewrite app_length. cbn [length].
      replace (length l' + 1 - 1) with (length l') by lia.
      by rewrite take_app.
    + apply last_None in E. by subst.
  - intros [= <- <-]. auto.
  - intros [= <- <-]. auto.
Qed.

Lemma dq_gen a script : a = ADirect \/ a = ARev -> forall left (l : list (I * P)) l' outs,
  it_run (dq_it (I:=I) (P:=P)) a left l script [] = Some (Ok (l', outs)) ->
  exact_outs (length l) outs /\
  exists front back, l = front ++ l' ++ back /\ elems outs ≡ₚ front ++ back.
Proof.
  intros Ha. induction script as [|x script IH]; intros left l l' outs.
  - cbn [it_run]. intros [= <- <-]. split; [done|].
    exists [], []. by rewrite app_nil_r.
  - intros (l1 & left1 & o & outs1 & Hstep & Hrun & ->)%it_run_cons.
    assert (exists x', dq_step l x' = (l1, o)) as [x' Hx'].
    { destruct Ha as [->| ->].
      - apply ad_step_direct in Hstep. unfold dq_it in Hstep. simplify_eq. eauto.
      - apply ad_step_rev in Hstep. unfold dq_it in Hstep. simplify_eq. eauto. }
    apply dq_step_spec in Hx'. apply IH in Hrun as (Hex & front & back & Hl1 & Hperm).
    destruct o as [[e|]|?|?|? ?]; cbn [exact_outs]; try done.
    + destruct Hx' as [->| ->].
      * cbn [length]. split.
        { split; [lia|]. by replace (S (length l1) - 1) with (length l1) by lia. }
        exists (e :: front), back. split; [by rewrite Hl1 at 1|].
        change (elems (SElem (Some e) :: outs1)) with (e :: elems outs1).
        by rewrite Hperm.
      * rewrite app_length. cbn [length]. split.
        { split; [lia|]. by replace (length l1 + 1 - 1) with (length l1) by lia. }
        exists front, (back ++ [e]). split.
        { rewrite Hl1 at 1. by rewrite <- !app_assoc. }
        change (elems (SElem (Some e) :: outs1)) with (e :: elems outs1).
        rewrite Hperm, app_assoc. by rewrite <- Permutation_cons_append.
    + destruct Hx' as [-> ->]. split; [done|]. exists front, back. done.
    + destruct Hx' as [-> ->]. split; [done|]. exists front, back. done.
    + destruct Hx' as (-> & -> & ->). split; [done|]. exists front, back. done.
Qed.

Theorem dq_ok : @dq_stmt I P.
Proof. intros a l script l' outs Ha Hrun. eapply dq_gen; eauto. Qed.

(** ** lengths through the standard adaptors *)
Lemma exact_len_same n : exact_len (n, Some n) = Ok n.
Proof. unfold exact_len. cbn [fst snd]. by rewrite decide_True. Qed.

Lemma exact_len_take m n : exact_len (hint_take n (m, Some m)) = Ok (Nat.min m n).
Proof. unfold hint_take. cbn [fst snd]. apply exact_len_same. Qed.
Lemma exact_len_zip m n : exact_len (hint_zip n (m, Some m)) = Ok (Nat.min m n).
Proof. unfold hint_zip. cbn [fst snd]. apply exact_len_same. Qed.
Lemma exact_len_skip m n : exact_len (hint_skip n (m, Some m)) = Ok (m - n).
Proof. unfold hint_skip. cbn [fst snd fmap option_fmap option_map]. apply exact_len_same. Qed.

Theorem dq_adaptor_len : @dq_adaptor_len_stmt I P.
Proof.
  intros l la. destruct la; unfold adaptor_len, inner_hint, dq_it; cbn [dq_step];
    cbn [mbind option_bind res_bind rbind];
    rewrite ?exact_len_take, ?exact_len_zip, ?exact_len_skip, ?exact_len_same; done.
Qed.

Theorem itermut_adaptor_len : @itermut_adaptor_len_stmt I P.
Proof.
  intros s st la. destruct la; unfold adaptor_len, inner_hint, im_it; cbn [fst snd im_step];
    cbn [mbind option_bind res_bind rbind];
    rewrite ?exact_len_take, ?exact_len_zip, ?exact_len_skip, ?exact_len_same; eauto.
Qed.

Theorem sorted_adaptor_len : @sorted_adaptor_len_stmt I P ple.
Proof.
  intros s la. destruct la; unfold adaptor_len, inner_hint; cbn [sorted_it];
    cbn [mbind option_bind res_bind rbind];
    rewrite ?exact_len_take, ?exact_len_zip, ?exact_len_skip, ?exact_len_same; eauto.
Qed.

(** ** the sorted iterators *)
Lemma map_swap_remove_index_perm (m : list (I * P)) i e m' :
  map_swap_remove_index m i = Some (e, m') -> m ≡ₚ e :: m'.
Proof.
  unfold map_swap_remove_index.
  destruct (m !! i) as [x|] eqn:Hi; [|done].
  destruct (last m) as [y|] eqn:Hl; [|done].
  intros [= -> <-]. apply last_Some in Hl as [l ->].
  rewrite app_length. cbn [length].
  replace (length l + 1 - 1) with (length l) by lia.
  destruct (decide (i < length l)) as [Hlt|Hge].
  - rewrite insert_app_l by done.
    rewrite take_app_alt by (by rewrite insert_length).
    rewrite lookup_app_l in Hi by done.
    rewrite insert_take_drop by done.
    rewrite <- (take_drop_middle l i e Hi) at 1.
    rewrite <- !app_assoc. cbn [app].
    rewrite <- !Permutation_middle. by rewrite app_nil_r.
  - assert (i = length l) as ->.
    { apply lookup_lt_Some in Hi. rewrite app_length in Hi. cbn [length] in Hi. lia. }
    rewrite list_lookup_middle in Hi by done. simplify_eq.
    rewrite list_insert_id by (by apply list_lookup_middle).
    rewrite take_app. by rewrite <- Permutation_cons_append.
Qed.

Section Sorted.
Hypothesis pq_pop : pq_pop_stmt keq hash ple.
Hypothesis pq_peek : pq_peek_stmt keq hash ple.
Hypothesis dpq_pop : dpq_pop_stmt keq hash ple.
Hypothesis dpq_peek : dpq_peek_stmt keq hash ple.

Lemma dpq_sorted_next (K : keq_ok keq hash) (O : ord_ok ple) (mx : bool) s :
  dpq_inv keq ple true s ->
  exists r s1, (if mx then pop_max ple s else pop_min ple s) = Ok (r, s1) /\
    dpq_inv keq ple true s1 /\
    match r with
    | Some e => (if mx then is_max (snd : I * P -> P) ple (smap s) e
                 else is_min (snd : I * P -> P) ple (smap s) e) /\
                smap s ≡ₚ e :: smap s1
    | None => smap s = [] /\ smap s1 = smap s
    end.
Proof.
  intros Hinv.
  destruct (dpq_pop K O mx true s Hinv) as (out & s1 & Hpop & Hinv1 & _ & Hout & Hm).
  destruct (dpq_peek K O s Hinv) as [(rmin & Hpmin & Hrmin) (rmax & smax & Hpmax & _ & _ & _ & _ & _ & Hrmax)].
  exists out, s1. split; [done|]. split; [done|].
  unfold dpq_max_entry, dpq_min_entry in Hout. rewrite Hpmin, Hpmax in Hout.
  destruct mx; subst out.
  - destruct rmax as [e|].
    + destruct Hm as (pos & i & _ & Hrm). split; [done|].
      eapply map_swap_remove_index_perm; eauto.
    + tauto.
  - destruct rmin as [e|].
    + destruct Hm as (pos & i & _ & Hrm). split; [tauto|].
      eapply map_swap_remove_index_perm; eauto.
    + tauto.
Qed.

Theorem dpq_sorted_iter : dpq_sorted_iter_stmt keq hash ple.
Proof.
  intros K O s script. revert s.
  induction script as [|x script IH]; intros s Hinv.
  - exists s, []. by cbn.
  - destruct x as [w u|w u| |].
    + destruct (dpq_sorted_next K O false s Hinv) as (r & s1 & Hpop & Hinv1 & Hr).
      destruct (IH s1 Hinv1) as (s' & outs1 & Hrun & Hinv' & Hso).
      exists s', (SElem r :: outs1). split; [|split; [done|]].
      { eapply it_run_cons_fwd; [|exact Hrun]. apply ad_step_direct_fwd.
        cbn [sorted_it]. by rewrite Hpop. }
      cbn [sorted_outs]. destruct r as [e|].
      * destruct Hr as [Hmin Hperm]. split; [done|]. eauto.
      * destruct Hr as [Hnil Heq]. split; [done|]. by rewrite <- Heq.
    + destruct (dpq_sorted_next K O true s Hinv) as (r & s1 & Hpop & Hinv1 & Hr).
      destruct (IH s1 Hinv1) as (s' & outs1 & Hrun & Hinv' & Hso).
      exists s', (SElem r :: outs1). split; [|split; [done|]].
      { eapply it_run_cons_fwd; [|exact Hrun]. apply ad_step_direct_fwd.
        cbn [sorted_it]. by rewrite Hpop. }
      cbn [sorted_outs]. destruct r as [e|].
      * destruct Hr as [Hmin Hperm]. split; [done|]. eauto.
      * destruct Hr as [Hnil Heq]. split; [done|]. by rewrite <- Heq.
    + destruct (IH s Hinv) as (s' & outs1 & Hrun & Hinv' & Hso).
      exists s', (SLen (Ok (ssize s)) :: outs1). split; [|split; [done|]].
      { eapply it_run_cons_fwd; [|exact Hrun]. by apply ad_step_direct_fwd. }
      cbn [sorted_outs]. split; [|done].
      destruct Hinv as ((Hlen & _) & _). by rewrite Hlen.
    + destruct (IH s Hinv) as (s' & outs1 & Hrun & Hinv' & Hso).
      exists s', (SHint (ssize s) (Some (ssize s)) :: outs1). split; [|split; [done|]].
      { eapply it_run_cons_fwd; [|exact Hrun]. by apply ad_step_direct_fwd. }
      cbn [sorted_outs].
      destruct Hinv as ((Hlen & _) & _). by rewrite Hlen.
Qed.

Theorem pq_sorted_iter : pq_sorted_iter_stmt keq hash ple.
Proof.
  intros K O s script. revert s.
  induction script as [|x script IH]; intros s Hinv Hsc.
  - exists s, []. by cbn.
  - apply Forall_cons in Hsc as [Hx Hsc].
    destruct x as [w u|w u| |]; try done.
    + destruct (pq_pop K O true s Hinv) as (out & s1 & Hpop & Hinv1 & _ & Hout & Hm).
      pose proof (pq_peek K O s Hinv) as Hpk. rewrite <- Hout in Hpk.
      destruct (IH s1 Hinv1 Hsc) as (s' & outs1 & Hrun & Hinv' & Hso).
      exists s', (SElem out :: outs1). split; [|split; [done|]].
      { eapply it_run_cons_fwd; [|exact Hrun]. apply ad_step_direct_fwd.
        cbn [sorted_it]. by rewrite Hpop. }
      cbn [pq_sorted_outs]. destruct out as [e|].
      * destruct Hm as (i & _ & Hrm). split; [tauto|].
        exists (smap s1). split; [|done]. eapply map_swap_remove_index_perm; eauto.
      * destruct Hm as [-> _]. done.
    + destruct (IH s Hinv Hsc) as (s' & outs1 & Hrun & Hinv' & Hso).
      exists s', (SHint 0 None :: outs1). split; [|split; [done|]].
      { eapply it_run_cons_fwd; [|exact Hrun]. by apply ad_step_direct_fwd. }
      cbn [pq_sorted_outs]. done.
Qed.
End Sorted.

End IterProofs.
