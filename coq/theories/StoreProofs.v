(** * StoreProofs: proofs of the pinned statements of Inv.v about the store
    primitives. *)
From PQV Require Export Inv.

Arguments Nat.mul : simpl never.
Arguments Nat.add : simpl never.
Arguments Nat.div : simpl never.
Arguments Nat.sub : simpl never.

(** ** generic list facts *)
Section ListFacts.
Context {A B : Type}.

Lemma bind_ok {S X Y} (a : X) (f : X -> res S Y) : (x ← Ok a; f x) = f a.
Proof. reflexivity. Qed.

Lemma omap_all_Some_lookup (f : A -> option B) (l : list A) p :
  (forall x, x ∈ l -> is_Some (f x)) -> omap f l !! p = l !! p ≫= f.
Proof.
  revert p. induction l as [|a l IH]; intros p H; [done|].
  destruct (H a) as [b Hb]; [left|].
  cbn [omap list_omap]. rewrite Hb.
  destruct p as [|p]; cbn; [by rewrite Hb|].
  apply IH. intros x Hx. apply H. by right.
Qed.

Lemma omap_all_Some_length (f : A -> option B) (l : list A) :
  (forall x, x ∈ l -> is_Some (f x)) -> length (omap f l) = length l.
Proof.
  induction l as [|a l IH]; intros H; [done|].
  destruct (H a) as [b Hb]; [left|].
  cbn [omap list_omap]. rewrite Hb. cbn. f_equal.
  apply IH. intros x Hx. apply H. by right.
Qed.

End ListFacts.

Section ListFacts2.
Context {A : Type}.

Lemma omap_lookup_seq (m : list A) : omap (fun i => m !! i) (seq 0 (length m)) = m.
Proof.
  apply list_eq. intros p. rewrite omap_all_Some_lookup.
  - destruct (decide (p < length m)).
    + rewrite lookup_seq_lt by done. done.
    + rewrite lookup_seq_ge by lia. cbn. symmetry. apply lookup_ge_None. lia.
  - intros x [_ Hx]%elem_of_seq. apply lookup_lt_is_Some. lia.
Qed.

Lemma lookup_aswap_remove (l : list A) i p :
  aswap_remove l i !! p =
  if decide (p < length l - 1) then (if decide (p = i) then last l else l !! p) else None.
Proof.
  unfold aswap_remove. destruct (last l) as [y|] eqn:Hl.
  - case_decide.
    + rewrite lookup_take by done. case_decide as Hpi.
      * subst. apply list_lookup_insert. lia.
      * apply list_lookup_insert_ne. done.
    + apply lookup_take_ge. lia.
  - apply last_None in Hl. subst. rewrite decide_False by (cbn; lia). by destruct p.
Qed.

Lemma aswap_remove_length (l : list A) i : length (aswap_remove l i) = length l - 1.
Proof.
  unfold aswap_remove. destruct (last l) eqn:Hl.
  - rewrite take_length, insert_length. lia.
  - apply last_None in Hl. by subst.
Qed.

Lemma lookup_aswap (l : list A) a b p : a < length l -> b < length l ->
  aswap l a b !! p = if decide (p = b) then l !! a else if decide (p = a) then l !! b else l !! p.
Proof.
  intros Ha Hb. unfold aswap.
  destruct (lookup_lt_is_Some_2 l a Ha) as [x Hx].
  destruct (lookup_lt_is_Some_2 l b Hb) as [y Hy].
  rewrite Hx, Hy. case_decide.
  - subst. rewrite list_lookup_insert; [done|]. by rewrite insert_length.
  - rewrite list_lookup_insert_ne by done. case_decide.
    + subst. by rewrite list_lookup_insert.
    + by rewrite list_lookup_insert_ne.
Qed.

Lemma aswap_length (l : list A) a b : length (aswap l a b) = length l.
Proof. unfold aswap. repeat case_match; by rewrite ?insert_length. Qed.

End ListFacts2.

(** ** inverse tables *)
Definition ren (a b x : nat) : nat := if decide (x = a) then b else x.

Section Tables.
Implicit Types h q : list nat.

Lemma tables_inv_sym h q n : tables_inv h q n -> tables_inv q h n.
Proof. intros (?&?&?&?). done. Qed.

Lemma tables_inv_h_lt h q n p i : tables_inv h q n -> h !! p = Some i -> p < n /\ i < n.
Proof.
  intros (Hh&Hq&H1&H2) Hp. split.
  - rewrite <-Hh. by eapply lookup_lt_Some.
  - rewrite <-Hq. eapply lookup_lt_Some. by apply H1.
Qed.

Lemma tables_inv_q_lt h q n i p : tables_inv h q n -> q !! i = Some p -> i < n /\ p < n.
Proof. intros H%tables_inv_sym ?. eapply tables_inv_h_lt; eauto. Qed.

Lemma tables_inv_h_inj h q n p p' i :
  tables_inv h q n -> h !! p = Some i -> h !! p' = Some i -> p = p'.
Proof. intros (Hh&Hq&H1&H2) Hp Hp'. apply H1 in Hp, Hp'. congruence. Qed.

Lemma tables_inv_q_inj h q n i i' p :
  tables_inv h q n -> q !! i = Some p -> q !! i' = Some p -> i = i'.
Proof. intros H%tables_inv_sym ??. eapply tables_inv_h_inj; eauto. Qed.

Lemma tables_inv_NoDup h q n : tables_inv h q n -> NoDup h.
Proof.
  intros H. apply NoDup_alt. intros i j x Hi Hj. eapply tables_inv_h_inj; eauto.
Qed.

Lemma tables_inv_perm h q n : tables_inv h q n -> h ≡ₚ seq 0 n.
Proof.
  intros H. apply submseteq_Permutation_length_le.
  - rewrite seq_length. destruct H as (->&_). done.
  - apply NoDup_submseteq; [by eapply tables_inv_NoDup|].
    intros x [p Hp]%elem_of_list_lookup. apply elem_of_seq.
    eapply tables_inv_h_lt in Hp; [|done]. lia.
Qed.

Lemma tables_inv_seq n : tables_inv (seq 0 n) (seq 0 n) n.
Proof.
  split_and!; [apply seq_length..| |]; intros a b [-> ?]%lookup_seq;
    apply lookup_seq; done.
Qed.

Lemma tables_inv_snoc h q n : tables_inv h q n -> tables_inv (h ++ [n]) (q ++ [n]) (S n).
Proof.
  intros H. pose proof H as (Hh&Hq&H1&H2).
  split_and!; [rewrite app_length; cbn; lia..| |].
  - intros p i [Hp|[Hp Hi] ]%lookup_app_Some.
    + destruct (tables_inv_h_lt _ _ _ _ _ H Hp). rewrite lookup_app_l by lia. auto.
    + apply list_lookup_singleton_Some in Hi as [Hi <-].
      assert (p = n) as -> by lia. rewrite lookup_app_r by lia.
      rewrite Hq, Nat.sub_diag. done.
  - intros p i [Hp|[Hp Hi] ]%lookup_app_Some.
    + destruct (tables_inv_q_lt _ _ _ _ _ H Hp). rewrite lookup_app_l by lia. auto.
    + apply list_lookup_singleton_Some in Hi as [Hi <-].
      assert (p = n) as -> by lia. rewrite lookup_app_r by lia.
      rewrite Hh, Nat.sub_diag. done.
Qed.

End Tables.

(** ** a normalising tactic for goals about inverse tables

    [tab H Hh Hq H1 H2] expects [H : tables_inv h q n], its two length
    components [Hh], [Hq] (any hypothesis [length l = _] of the context is
    used for rewriting), and its two pointwise components [H1], [H2].  It
    rewrites every lookup in [<[_:=_]> _], [aswap_remove _ _], [_ <$> _],
    [last _] into [if decide ...] form, splits the [decide]s, saturates the
    context with the images of the known lookups under [H1]/[H2] (which
    gives injectivity through [simplify_eq]) and with their bounds, and
    closes the leaves with [done]/[lia].  Name the value of every lookup the
    goal depends on ([destruct (lookup_lt_is_Some_2 ...)]) before calling it. *)
Lemma lookup_insert_if {A} (l : list A) i j x :
  <[i:=x]> l !! j =
  if decide (i = j) then (if decide (i < length l) then Some x else None) else l !! j.
Proof.
  case_decide; [subst; case_decide|].
  - by apply list_lookup_insert.
  - rewrite list_insert_ge by lia. apply lookup_ge_None. lia.
  - by apply list_lookup_insert_ne.
Qed.

(* learn [H1 _ _ Hx] for a known lookup [Hx], once *)
Ltac sat1 H1 :=
  match goal with
  | Hx : _ !! _ = Some _ |- _ =>
      let T := type of (H1 _ _ Hx) in
      lazymatch goal with
      | _ : T |- _ => fail
      | _ => pose proof (H1 _ _ Hx)
      end
  end.
(* rewrite with the known lookups *)
Ltac rw_known :=
  match goal with
  | H : ?l !! ?i = Some _ |- context [?l !! ?i] => rewrite H
  | H : ?l !! ?i = Some _, H' : context [?l !! ?i] |- _ =>
      lazymatch type of H' with
      | l !! i = Some _ => fail
      | _ => rewrite H in H'
      end
  end.
(* learn the bounds of a known lookup of one of the two tables, once *)
Ltac bnd H :=
  match goal with
  | Hx : _ !! _ = Some _ |- _ =>
      first [ let T := type of (tables_inv_h_lt _ _ _ _ _ H Hx) in
              lazymatch goal with
              | _ : T |- _ => fail
              | _ => pose proof (tables_inv_h_lt _ _ _ _ _ H Hx)
              end
            | let T := type of (tables_inv_q_lt _ _ _ _ _ H Hx) in
              lazymatch goal with
              | _ : T |- _ => fail
              | _ => pose proof (tables_inv_q_lt _ _ _ _ _ H Hx)
              end ]
  end.
Lemma S_sub1 m : S m - 1 = m.
Proof. lia. Qed.
Ltac tab_rw Hh Hq :=
  first [ rewrite lookup_aswap_remove | rewrite list_lookup_fmap
        | rewrite lookup_insert_if | rewrite aswap_remove_length
        | rewrite insert_length | rewrite fmap_length
        | rewrite last_lookup
        | match goal with Hl : length ?l = _ |- context [length ?l] => rewrite Hl end
        | rewrite S_sub1
        | rewrite Nat.pred_succ ].
Ltac hyp_rw Hh Hq :=
  match goal with
  | Hc : context [length (<[_:=_]> _)] |- _ => rewrite insert_length in Hc
  | Hc : context [length (aswap_remove _ _)] |- _ => rewrite aswap_remove_length in Hc
  | Hc : context [length (_ <$> _)] |- _ => rewrite fmap_length in Hc
  | Hc : context [S _ - 1] |- _ => rewrite S_sub1 in Hc
  | Hc : context [Nat.pred (S _)] |- _ => rewrite Nat.pred_succ in Hc
  | Hc : context [(_ <$> _) !! _] |- _ => rewrite list_lookup_fmap in Hc
  | Hc : context [aswap_remove _ _ !! _] |- _ => rewrite lookup_aswap_remove in Hc
  | Hc : context [<[_:=_]> _ !! _] |- _ => rewrite lookup_insert_if in Hc
  | Hc : context [last _] |- _ => rewrite last_lookup in Hc
  | Hl : length ?l = _, Hc : context [length ?l] |- _ =>
      lazymatch type of Hc with
      | length _ = _ => fail
      | _ => rewrite Hl in Hc
      end
  end.
Ltac tab H Hh Hq H1 H2 :=
  repeat first
    [ done
    | progress simplify_eq/=
    | rw_known
    | tab_rw Hh Hq
    | hyp_rw Hh Hq
    | case_decide; try lia
    | sat1 H1 | sat1 H2 | bnd H
    | match goal with
      | Hn : ¬ (?a < ?b) |- _ =>
          let E := fresh in assert (a = b) as E by lia; clear Hn
      end
    | lia | f_equal; lia ].

Lemma remove_half h q m pos head :
  tables_inv h q (S m) -> h !! pos = Some head ->
  forall p i, (ren m head <$> aswap_remove h pos) !! p = Some i ->
              (ren m pos <$> aswap_remove q head) !! i = Some p.
Proof.
  intros H Hpos p i. pose proof H as (Hh&Hq&H1&H2).
  rewrite !list_lookup_fmap, !lookup_aswap_remove, !last_lookup, Hh, Hq.
  replace (S m - 1) with m by lia. cbn [pred].
  destruct (lookup_lt_is_Some_2 h m) as [el Hel]; [lia|].
  destruct (lookup_lt_is_Some_2 q m) as [ql Hql]; [lia|].
  unfold ren. intros Hp.
  destruct (decide (p < m)); [|done].
  destruct (lookup_lt_is_Some_2 h p) as [x Hx]; [lia|].
  tab H Hh Hq H1 H2.
Qed.

Lemma tables_inv_remove h q m pos head :
  tables_inv h q (S m) -> h !! pos = Some head ->
  tables_inv (ren m head <$> aswap_remove h pos) (ren m pos <$> aswap_remove q head) m.
Proof.
  intros H Hpos. pose proof H as (Hh&Hq&H1&H2).
  split_and!.
  - rewrite fmap_length, aswap_remove_length. lia.
  - rewrite fmap_length, aswap_remove_length. lia.
  - by apply remove_half.
  - apply remove_half; [by apply tables_inv_sym|auto].
Qed.

Lemma swap_remove_tables h q m pos head el :
  tables_inv h q (S m) -> h !! pos = Some head -> h !! m = Some el ->
  let heap1 := aswap_remove h pos in
  let qp1 := if decide (pos < m) then <[el := pos]> q else q in
  let qp2 := aswap_remove qp1 head in
  qp2 = ren m pos <$> aswap_remove q head /\
  (forall qq, qp2 !! head = Some qq ->
     (if decide (head < m) then <[qq := head]> heap1 else heap1)
     = ren m head <$> aswap_remove h pos).
Proof.
  intros H Hpos Hel. pose proof H as (Hh&Hq&H1&H2). cbn zeta.
  destruct (lookup_lt_is_Some_2 q m) as [ql Hql]; [lia|].
  assert (aswap_remove (if decide (pos < m) then <[el:=pos]> q else q) head =
          ren m pos <$> aswap_remove q head) as ->.
  { apply list_eq. intros i. unfold ren.
    destruct (decide (pos < m)); (destruct (decide (i < m));
      [destruct (lookup_lt_is_Some_2 q i) as [x Hx]; [lia|] |]).
    all: tab H Hh Hq H1 H2. }
  split; [done|]. intros qq Hqq.
  apply list_eq. intros p. unfold ren in *.
  destruct (decide (head < m)); (destruct (decide (p < m));
      [destruct (lookup_lt_is_Some_2 h p) as [x Hx]; [lia|] |]).
  all: tab H Hh Hq H1 H2.
Qed.

Lemma swap_half h q n a b ia ib :
  tables_inv h q n -> h !! a = Some ia -> h !! b = Some ib ->
  forall p i, <[b:=ia]> (<[a:=ib]> h) !! p = Some i -> <[ib:=a]> (<[ia:=b]> q) !! i = Some p.
Proof.
  intros Ht Ha Hb p i Hp. pose proof Ht as (Hh&Hq&H1&H2).
  destruct (decide (p < n)).
  2:{ apply lookup_lt_Some in Hp. rewrite !insert_length in Hp. lia. }
  destruct (lookup_lt_is_Some_2 h p) as [x Hx]; [lia|].
  tab Ht Hh Hq H1 H2.
Qed.

Lemma tables_inv_swap h q n a b ia ib :
  tables_inv h q n -> h !! a = Some ia -> h !! b = Some ib ->
  tables_inv (<[b:=ia]> (<[a:=ib]> h)) (<[ib:=a]> (<[ia:=b]> q)) n.
Proof.
  intros Ht Ha Hb. pose proof Ht as (Hh&Hq&H1&H2).
  split_and!; [by rewrite !insert_length..| |].
  - by eapply swap_half.
  - eapply swap_half; [by apply tables_inv_sym|auto..].
Qed.

Lemma omap_aswap {A B} (f : A -> option B) (l : list A) a b x y :
  (forall x, x ∈ l -> is_Some (f x)) -> l !! a = Some x -> l !! b = Some y ->
  omap f (<[b:=x]> (<[a:=y]> l)) = aswap (omap f l) a b.
Proof.
  intros Hf Ha Hb. apply list_eq. intros p.
  assert (forall z, z ∈ <[b:=x]> (<[a:=y]> l) -> is_Some (f z)) as Hf'.
  { intros z [i Hi]%elem_of_list_lookup. rewrite !lookup_insert_if in Hi.
    repeat case_decide; simplify_eq; eauto using elem_of_list_lookup_2. }
  rewrite omap_all_Some_lookup by done.
  pose proof (lookup_lt_Some _ _ _ Ha). pose proof (lookup_lt_Some _ _ _ Hb).
  rewrite lookup_aswap by by rewrite omap_all_Some_length.
  rewrite !omap_all_Some_lookup by done.
  rewrite !lookup_insert_if, !insert_length.
  repeat case_decide; simplify_eq; try done; try lia.
  all: by rewrite ?Ha, ?Hb.
Qed.

(** the entries seen through the tables after a removal *)
Lemma omap_remove {E} (m : list E) h q n1 pos head :
  tables_inv h q (S n1) -> length m = S n1 -> h !! pos = Some head ->
  omap (fun i => aswap_remove m head !! i) (ren n1 head <$> aswap_remove h pos)
  = aswap_remove (omap (fun i => m !! i) h) pos.
Proof.
  intros H Hm Hpos. pose proof H as (Hh&Hq&H1&H2).
  pose proof (tables_inv_remove _ _ _ _ _ H Hpos) as H'.
  assert (forall i, i ∈ h -> is_Some (m !! i)) as Hall.
  { intros i [p Hp]%elem_of_list_lookup. apply lookup_lt_is_Some. rewrite Hm.
    by eapply tables_inv_h_lt. }
  apply list_eq. intros p.
  rewrite omap_all_Some_lookup.
  2:{ intros i [p' Hp]%elem_of_list_lookup. apply lookup_lt_is_Some.
      rewrite aswap_remove_length, Hm, S_sub1. by eapply tables_inv_h_lt. }
  rewrite (lookup_aswap_remove (omap _ _)), last_lookup.
  rewrite !omap_all_Some_lookup, omap_all_Some_length by done.
  destruct (lookup_lt_is_Some_2 h n1) as [el Hel]; [lia|].
  unfold ren.
  destruct (decide (p < n1)).
  - destruct (lookup_lt_is_Some_2 h p) as [x Hx]; [lia|]. tab H Hh Hq H1 H2.
  - tab H Hh Hq H1 H2.
Qed.

(** ** the store *)
Section StoreProofs.
Context {I P : Type}.
Variable keq : I -> I -> bool.
Variable hash : I -> N.

Notation store := (store I P).
Implicit Types s : store.

(** *** small evaluation lemmas *)
Lemma getu_ok {S A} (l : list A) i x : l !! i = Some x -> getu (S:=S) l i = Ok x.
Proof. unfold getu. by intros ->. Qed.
Lemma getc_ok {S A} (l : list A) i x : l !! i = Some x -> getc (S:=S) l i = Ok x.
Proof. unfold getc. by intros ->. Qed.
Lemma setu_ok {S A} (l : list A) i x : i < length l -> setu (S:=S) l i x = Ok (<[i:=x]> l).
Proof. unfold setu. intros. by rewrite decide_True. Qed.
Lemma sub1_ok {S} n : sub1 (S:=S) (Datatypes.S n) = Ok n.
Proof. done. Qed.
Lemma vswap_remove_ok {S A} (l : list A) i x :
  l !! i = Some x -> vswap_remove (S:=S) l i = Ok (x, aswap_remove l i).
Proof.
  intros Hx. unfold vswap_remove, aswap_remove. rewrite Hx.
  destruct (last l) eqn:Hl; [done|]. apply last_None in Hl. by subst.
Qed.
Lemma vswap_ok {S A} (l : list A) a b x y :
  l !! a = Some x -> l !! b = Some y ->
  vswap (S:=S) l a b = Ok (<[b:=x]> (<[a:=y]> l)).
Proof. intros Ha Hb. unfold vswap. by rewrite (getc_ok _ _ _ Ha), (getc_ok _ _ _ Hb). Qed.
Lemma map_swap_remove_index_ok (m : list (I * P)) i e :
  m !! i = Some e -> map_swap_remove_index m i = Some (e, aswap_remove m i).
Proof.
  intros Hx. unfold map_swap_remove_index, aswap_remove. rewrite Hx.
  destruct (last m) eqn:Hl; [done|]. apply last_None in Hl. by subst.
Qed.

(** *** consequences of [WF] *)
Lemma WF_heap_lt s p i : WF keq s -> heap s !! p = Some i -> p < ssize s /\ i < ssize s.
Proof. intros (_&H&_). by eapply tables_inv_h_lt. Qed.
Lemma WF_qp_lt s i p : WF keq s -> qp s !! i = Some p -> i < ssize s /\ p < ssize s.
Proof. intros (_&H&_). by eapply tables_inv_q_lt. Qed.
Lemma WF_heap_qp s p i : WF keq s -> heap s !! p = Some i -> qp s !! i = Some p.
Proof. intros (_&(_&_&H&_)&_). apply H. Qed.
Lemma WF_qp_heap s i p : WF keq s -> qp s !! i = Some p -> heap s !! p = Some i.
Proof. intros (_&(_&_&_&H)&_). apply H. Qed.
Lemma WF_heap_inj s p p' i :
  WF keq s -> heap s !! p = Some i -> heap s !! p' = Some i -> p = p'.
Proof. intros (_&H&_). by eapply tables_inv_h_inj. Qed.
Lemma WF_qp_inj s i i' p :
  WF keq s -> qp s !! i = Some p -> qp s !! i' = Some p -> i = i'.
Proof. intros (_&H&_). by eapply tables_inv_q_inj. Qed.
Lemma WF_length_smap s : WF keq s -> length (smap s) = ssize s.
Proof. by intros (?&_). Qed.
Lemma WF_length_heap s : WF keq s -> length (heap s) = ssize s.
Proof. by intros (_&(?&_)&_). Qed.
Lemma WF_length_qp s : WF keq s -> length (qp s) = ssize s.
Proof. by intros (_&(_&?&_)&_). Qed.
Lemma WF_heap_is_Some s p : WF keq s -> p < ssize s -> is_Some (heap s !! p).
Proof. intros H ?. apply lookup_lt_is_Some. by rewrite WF_length_heap. Qed.
Lemma WF_qp_is_Some s i : WF keq s -> i < ssize s -> is_Some (qp s !! i).
Proof. intros H ?. apply lookup_lt_is_Some. by rewrite WF_length_qp. Qed.
Lemma WF_smap_is_Some s i : WF keq s -> i < ssize s -> is_Some (smap s !! i).
Proof. intros H ?. apply lookup_lt_is_Some. by rewrite WF_length_smap. Qed.
Lemma WF_heap_all_Some s :
  WF keq s -> forall i, i ∈ heap s -> is_Some (smap s !! i).
Proof.
  intros H i [p Hp]%elem_of_list_lookup. apply WF_smap_is_Some; [done|].
  by eapply WF_heap_lt.
Qed.

(** the ghost setters do not touch what [WF] and [eview] look at *)
Lemma WF_set_ticks s t : WF keq (set_ticks s t) <-> WF keq s.
Proof. done. Qed.
Lemma WF_set_fuse s f : WF keq (set_fuse s f) <-> WF keq s.
Proof. done. Qed.
Lemma WF_set_cap s c : WF keq (set_cap s c) <-> WF keq s.
Proof. done. Qed.
Lemma eview_set_ticks s t : eview (set_ticks s t) = eview s.
Proof. done. Qed.
Lemma eview_set_fuse s f : eview (set_fuse s f) = eview s.
Proof. done. Qed.
Lemma eview_set_cap s c : eview (set_cap s c) = eview s.
Proof. done. Qed.
Lemma eview_set_size s n : eview (set_size s n) = eview s.
Proof. done. Qed.
Lemma WF_empty_store c : WF keq (empty_store (I:=I) (P:=P) c).
Proof.
  split_and!; [done| |intros i j ei ej Hi; cbn in Hi; by rewrite lookup_nil in Hi].
  apply (tables_inv_seq 0).
Qed.

(** *** the view *)
Theorem eview_lookup : eview_lookup_stmt keq (P:=P).
Proof. intros s p H. apply omap_all_Some_lookup, WF_heap_all_Some, H. Qed.

Theorem eview_length : eview_length_stmt keq (P:=P).
Proof.
  intros s H. unfold eview. rewrite omap_all_Some_length by by apply WF_heap_all_Some.
  by apply WF_length_heap.
Qed.

Theorem eview_perm : eview_perm_stmt keq (P:=P).
Proof.
  intros s H. unfold eview. destruct H as (Hl&Ht&_).
  rewrite (tables_inv_perm _ _ _ Ht), <-Hl. by rewrite omap_lookup_seq.
Qed.

Lemma eview_lookup_Some s p e :
  WF keq s -> eview s !! p = Some e <->
  exists i, heap s !! p = Some i /\ smap s !! i = Some e.
Proof. intros H. rewrite eview_lookup by done. apply bind_Some. Qed.

Theorem prio_at_ok : prio_at_ok_stmt keq (P:=P).
Proof.
  intros s pos e H (i&Hi&He)%eview_lookup_Some; [|done].
  unfold prio_at. rewrite (getu_ok _ _ _ Hi). cbn. by rewrite He.
Qed.


Theorem swap_ok : swap_ok_stmt keq (P:=P).
Proof.
  intros s a b H Ha Hb.
  destruct (WF_heap_is_Some s a H Ha) as [ia Hia].
  destruct (WF_heap_is_Some s b H Hb) as [ib Hib].
  pose proof (WF_heap_qp _ _ _ H Hia) as Hqa.
  pose proof (WF_heap_qp _ _ _ H Hib) as Hqb.
  eexists. split.
  { unfold swap. rewrite (getu_ok _ _ _ Hia), (getu_ok _ _ _ Hib). cbn [mbind res_bind rbind].
    rewrite (vswap_ok _ _ _ _ _ Hqa Hqb), (vswap_ok _ _ _ _ _ Hia Hib). done. }
  pose proof (WF_heap_all_Some _ H) as Hall.
  destruct s as [m h q n t f c]. destruct H as (Hm&Ht&Hnd). cbn in *.
  split_and!; try done.
  - split_and!; try done. cbn. by apply tables_inv_swap.
  - by apply omap_aswap.
Qed.

Theorem hole_move_ok : hole_move_ok_stmt keq (P:=P).
Proof.
  intros s pos from idx fidx H Hpos Hfrom Hne Hf s1.
  destruct (swap_ok (fill s pos idx) pos from H) as (s'&Hs'&HWF&Hfr&Hev); [done..|].
  assert (fill s1 from idx = s') as ->; [|done].
  assert (pos < length (heap s)).
  { pose proof (WF_length_heap _ H) as Hl. cbn in Hl. rewrite insert_length in Hl. lia. }
  assert (heap (fill s pos idx) !! pos = Some idx) as Hp.
  { cbn. by apply list_lookup_insert. }
  assert (heap (fill s pos idx) !! from = Some fidx) as Hfi.
  { cbn. by rewrite list_lookup_insert_ne. }
  pose proof (WF_heap_qp _ _ _ H Hp) as Hqp.
  pose proof (WF_heap_qp _ _ _ H Hfi) as Hqf.
  assert (idx <> fidx).
  { intros ->. by pose proof (WF_heap_inj _ _ _ _ H Hp Hfi). }
  unfold swap in Hs'. rewrite (getu_ok _ _ _ Hp), (getu_ok _ _ _ Hfi) in Hs'.
  cbn [mbind res_bind rbind] in Hs'.
  rewrite (vswap_ok _ _ _ _ _ Hqp Hqf), (vswap_ok _ _ _ _ _ Hp Hfi) in Hs'.
  cbn [mbind res_bind rbind] in Hs'. injection Hs' as <-.
  unfold fill, s1, hole_move. destruct s as [m h q n t f c]. cbn.
  unfold set_heap, set_qp. cbn. f_equal.
  - by rewrite list_insert_insert.
  - rewrite list_insert_insert. by apply list_insert_commute.
Qed.

(** *** lookups *)
Lemma find_idx_spec {A} (f : A -> bool) (l : list A) :
  match find_idx f l with
  | Some i => exists x, l !! i = Some x /\ f x = true /\
                        forall j y, j < i -> l !! j = Some y -> f y = false
  | None => forall j y, l !! j = Some y -> f y = false
  end.
Proof.
  induction l as [|a l IH]; cbn [find_idx].
  - intros j y Hj. by rewrite lookup_nil in Hj.
  - destruct (f a) eqn:Hfa.
    + exists a. split_and!; [done..|]. intros; lia.
    + destruct (find_idx f l) as [i|]; cbn.
      * destruct IH as (x&Hx&Hfx&Hlt). exists x. split_and!; [done..|].
        intros [|j] y Hj Hy; cbn in Hy; [by simplify_eq|]. apply (Hlt j); [lia|done].
      * intros [|j] y Hy; cbn in Hy; [by simplify_eq|]. by apply (IH j).
Qed.

Lemma key_match_keq k (e : I * P) :
  keq_ok keq hash -> key_match keq hash k e = keq e.1 k.
Proof.
  intros (_&_&_&Hh). unfold key_match. destruct (keq e.1 k) eqn:E.
  - rewrite (Hh _ _ E), N.eqb_refl. done.
  - by rewrite andb_false_r.
Qed.

Theorem get_index_of_spec : get_index_of_spec_stmt keq hash (P:=P).
Proof.
  intros Hk m k. unfold get_index_of.
  pose proof (find_idx_spec (key_match keq hash k) m) as Hs.
  destruct (find_idx _ m) as [i|].
  - destruct Hs as (x&Hx&Hfx&Hlt). exists x. rewrite <-key_match_keq by done.
    split_and!; [done..|]. intros j ej Hj Hej. rewrite <-key_match_keq by done. eauto.
  - intros j ej Hej. rewrite <-key_match_keq by done. eauto.
Qed.

Lemma get_index_of_Some m k i :
  keq_ok keq hash -> get_index_of keq hash m k = Some i ->
  exists e : I * P, m !! i = Some e /\ keq e.1 k = true.
Proof.
  intros Hk Hi. pose proof (get_index_of_spec Hk m k) as Hs. rewrite Hi in Hs.
  destruct Hs as (e&?&?&_). eauto.
Qed.
Lemma get_index_of_None m k j (ej : I * P) :
  keq_ok keq hash -> get_index_of keq hash m k = None ->
  m !! j = Some ej -> keq ej.1 k = false.
Proof.
  intros Hk Hi. pose proof (get_index_of_spec Hk m k) as Hs. rewrite Hi in Hs. apply Hs.
Qed.

(** *** updates that keep the tables *)
Lemma nodup_keys_insert (m : list (I * P)) i e e' :
  keq_ok keq hash -> nodup_keys keq m -> m !! i = Some e -> keq e'.1 e.1 = true ->
  nodup_keys keq (<[i:=e']> m).
Proof.
  intros (Hr&Hsy&Htr&_) Hnd Hi He a b ea eb.
  rewrite !lookup_insert_if. pose proof (lookup_lt_Some _ _ _ Hi).
  repeat case_decide; try done; intros; simplify_eq; try done.
  - apply (Hnd _ _ e eb); [done..|]. eapply Htr; [|done]. auto.
  - apply (Hnd _ _ ea e); [done..|]. eapply Htr; [done|]. auto.
  - by eapply Hnd.
Qed.

Theorem set_entry_ok : set_entry_ok_stmt keq hash (P:=P).
Proof.
  intros Hk s i e e' pos H Hi Hq He s'.
  assert (WF keq s') as H'.
  { destruct H as (Hl&Ht&Hnd). split_and!; cbn.
    - by rewrite insert_length.
    - done.
    - by eapply nodup_keys_insert. }
  split; [done|]. apply list_eq. intros p.
  rewrite eview_lookup by done. cbn [heap s' smap set_map].
  pose proof (WF_qp_lt _ _ _ H Hq) as [? ?].
  rewrite lookup_insert_if, eview_length by done.
  rewrite eview_lookup by done.
  destruct (heap s !! p) as [j|] eqn:Hp; cbn.
  - rewrite lookup_insert_if. pose proof (lookup_lt_Some _ _ _ Hi).
    pose proof (WF_heap_qp _ _ _ H Hp).
    repeat case_decide; simplify_eq; try done; try lia.
    pose proof (WF_qp_heap _ _ _ H Hq). simplify_eq.
  - case_decide; [|done]. subst. pose proof (WF_qp_heap _ _ _ H Hq). simplify_eq.
Qed.

Lemma nodup_keys_snoc (m : list (I * P)) e :
  keq_ok keq hash -> nodup_keys keq m -> get_index_of keq hash m e.1 = None ->
  nodup_keys keq (m ++ [e]).
Proof.
  intros Hk Hnd Hn a b ea eb Ha Hb Hab. pose proof Hk as (Hr&Hsy&Htr&_).
  apply lookup_app_Some in Ha as [Ha|[Hla Ha] ]; apply lookup_app_Some in Hb as [Hb|[Hlb Hb] ].
  - by eapply Hnd.
  - apply list_lookup_singleton_Some in Hb as [Hb <-].
    by rewrite (get_index_of_None _ _ _ _ Hk Hn Ha) in Hab.
  - apply list_lookup_singleton_Some in Ha as [Ha <-]. apply Hsy in Hab.
    by rewrite (get_index_of_None _ _ _ _ Hk Hn Hb) in Hab.
  - apply list_lookup_singleton_Some in Ha as [Ha _].
    apply list_lookup_singleton_Some in Hb as [Hb _]. lia.
Qed.

Theorem push_entry_ok : push_entry_ok_stmt keq hash (P:=P).
Proof.
  intros Hk s e H Hn.
  assert (WF keq (push_entry s e)) as H'.
  { destruct H as (Hl&Ht&Hnd). split_and!; cbn.
    - rewrite app_length. cbn. lia.
    - by apply tables_inv_snoc.
    - by apply nodup_keys_snoc. }
  split; [done|]. unfold eview. cbn [push_entry heap smap set_size set_qp set_heap set_map].
  rewrite omap_app. cbn [omap list_omap].
  rewrite <-(WF_length_smap _ H), lookup_app_r, Nat.sub_diag by done. cbn. f_equal.
  apply list_eq. intros p. rewrite !omap_all_Some_lookup.
  - destruct (heap s !! p) as [i|] eqn:Hp; [cbn|done].
    destruct (WF_heap_all_Some s H i) as [x Hx]; [by eapply elem_of_list_lookup_2|].
    rewrite Hx. by apply lookup_app_l_Some.
  - by apply WF_heap_all_Some.
  - intros i Hi. destruct (WF_heap_all_Some s H i Hi) as [x Hx].
    exists x. by apply lookup_app_l_Some.
Qed.

Theorem identity_ok : identity_ok_stmt keq (P:=P).
Proof.
  intros s m Hnd n s'. split.
  - split_and!; [done| |done]. apply tables_inv_seq.
  - apply omap_lookup_seq.
Qed.

(** *** removals *)
Lemma nodup_keys_aswap_remove (m : list (I * P)) i :
  nodup_keys keq m -> nodup_keys keq (aswap_remove m i).
Proof.
  intros Hnd a b ea eb. rewrite !lookup_aswap_remove, last_lookup.
  repeat case_decide; try done; intros Ha Hb Hk;
    pose proof (Hnd _ _ _ _ Ha Hb Hk); lia.
Qed.

Lemma swap_remove_eval s pos head n1 :
  WF keq s -> ssize s = S n1 -> heap s !! pos = Some head ->
  exists e, smap s !! head = Some e /\
  swap_remove s pos =
  Ok (Some e, set_size (set_qp (set_heap (set_map s (aswap_remove (smap s) head))
         (ren n1 head <$> aswap_remove (heap s) pos))
         (ren n1 pos <$> aswap_remove (qp s) head)) n1).
Proof.
  intros H Hn Hpos.
  destruct (WF_heap_lt _ _ _ H Hpos) as [Hp Hhd].
  destruct (WF_smap_is_Some s head H Hhd) as [e He]. exists e. split; [done|].
  destruct (WF_heap_is_Some s n1 H) as [el Hel]; [lia|].
  pose proof H as (Hm&Ht&_). rewrite Hn in Ht.
  destruct (swap_remove_tables _ _ _ _ _ _ Ht Hpos Hel) as [E1 E2].
  pose proof Ht as (Hh&Hq&H1&H2).
  destruct (lookup_lt_is_Some_2 (qp s) n1) as [ql Hql]; [lia|].
  unfold swap_remove. rewrite (vswap_remove_ok _ _ _ Hpos), Hn, sub1_ok.
  cbn [mbind res_bind rbind].
  assert ((if decide (pos < n1)
           then h ← getu (aswap_remove (heap s) pos) pos; setu (qp s) h pos
           else Ok (qp s)) =
          Ok (S:=store) (if decide (pos < n1) then <[el:=pos]> (qp s) else qp s)) as ->.
  { case_decide; [|done].
    rewrite (getu_ok _ _ el).
    2:{ rewrite lookup_aswap_remove, last_lookup. tab Ht Hh Hq H1 H2. }
    cbn [mbind res_bind rbind]. apply setu_ok. tab Ht Hh Hq H1 H2. }
  cbn [mbind res_bind rbind].
  rewrite (vswap_remove_ok _ _ pos).
  2:{ tab Ht Hh Hq H1 H2. }
  cbn [mbind res_bind rbind]. rewrite E1.
  destruct ((ren n1 pos <$> aswap_remove (qp s) head) !! head) as [qq|] eqn:Hqq.
  - specialize (E2 qq). rewrite E1 in E2. specialize (E2 Hqq).
    assert ((if decide (head < n1)
             then q ← getu (ren n1 pos <$> aswap_remove (qp s) head) head;
                  setu (aswap_remove (heap s) pos) q head
             else Ok (aswap_remove (heap s) pos)) =
            Ok (S:=store) (ren n1 head <$> aswap_remove (heap s) pos)) as ->.
    { rewrite <-E2. case_decide; [|done].
      rewrite (getu_ok _ _ _ Hqq). cbn [mbind res_bind rbind]. apply setu_ok.
      unfold ren in Hqq. tab Ht Hh Hq H1 H2. }
    cbn [mbind res_bind rbind]. rewrite (map_swap_remove_index_ok _ _ _ He). done.
  - assert (~ head < n1) as Hge.
    { intros Hlt. apply lookup_ge_None in Hqq.
      rewrite fmap_length, aswap_remove_length, Hq in Hqq. lia. }
    rewrite decide_False by done.
    assert (aswap_remove (heap s) pos = ren n1 head <$> aswap_remove (heap s) pos) as <-.
    { apply list_eq. intros p. unfold ren.
      destruct (decide (p < n1)).
      - destruct (lookup_lt_is_Some_2 (heap s) p) as [x Hx]; [lia|]. tab Ht Hh Hq H1 H2.
      - tab Ht Hh Hq H1 H2. }
    cbn [mbind res_bind rbind]. rewrite (map_swap_remove_index_ok _ _ _ He). done.
Qed.

Lemma WF_removed s n1 pos head :
  WF keq s -> ssize s = S n1 -> heap s !! pos = Some head ->
  let s' := set_size (set_qp (set_heap (set_map s (aswap_remove (smap s) head))
         (ren n1 head <$> aswap_remove (heap s) pos))
         (ren n1 pos <$> aswap_remove (qp s) head)) n1 in
  WF keq s' /\ eview s' = aswap_remove (eview s) pos.
Proof.
  intros (Hm&Ht&Hnd) Hn Hpos s'. rewrite Hn in Ht. split.
  - split_and!; cbn.
    + rewrite aswap_remove_length, Hm, Hn. lia.
    + by apply tables_inv_remove.
    + by apply nodup_keys_aswap_remove.
  - unfold eview. cbn. eapply omap_remove; [done| |done]. by rewrite Hm.
Qed.

Theorem swap_remove_ok : swap_remove_ok_stmt keq (P:=P).
Proof.
  intros s pos H Hpos.
  destruct (WF_heap_is_Some s pos H Hpos) as [head Hhd].
  destruct (ssize s) as [|n1] eqn:Hn; [lia|].
  destruct (swap_remove_eval s pos head n1 H Hn Hhd) as (e&He&Hev).
  destruct (WF_removed s n1 pos head H Hn Hhd) as [HWF Hview].
  eexists e, head, _. split_and!; [exact Hev|done..| |cbn; lia|done].
  by apply map_swap_remove_index_ok.
Qed.

Lemma store_res_eq {X} (x : X) (s0 : store) h1 h2 q1 q2 n :
  h1 = h2 -> q1 = q2 ->
  Ok (S:=store) (x, set_size (set_qp (set_heap s0 h1) q1) n) =
  Ok (x, set_size (set_qp (set_heap s0 h2) q2) n).
Proof. by intros -> ->. Qed.

Lemma remove_eval s k i pos n1 e :
  WF keq s -> ssize s = S n1 -> get_index_of keq hash (smap s) k = Some i ->
  smap s !! i = Some e -> qp s !! i = Some pos ->
  remove keq hash s k =
  Ok (Some (e.1, e.2, pos),
      set_size (set_qp (set_heap (set_map s (aswap_remove (smap s) i))
         (ren n1 i <$> aswap_remove (heap s) pos))
         (ren n1 pos <$> aswap_remove (qp s) i)) n1).
Proof.
  intros H Hn Hk He Hpos.
  pose proof (WF_qp_heap _ _ _ H Hpos) as Hhp.
  pose proof H as (Hm&Ht&_). rewrite Hn in Ht.
  pose proof Ht as (Hh&Hq&H1&H2).
  destruct (lookup_lt_is_Some_2 (heap s) n1) as [el Hel]; [lia|].
  destruct (lookup_lt_is_Some_2 (qp s) n1) as [ql Hql]; [lia|].
  unfold remove. rewrite Hk, (map_swap_remove_index_ok _ _ _ He), Hn, sub1_ok.
  cbn [mbind res_bind rbind].
  rewrite (vswap_remove_ok _ _ _ Hpos). cbn [mbind res_bind rbind].
  rewrite (vswap_remove_ok _ _ _ Hhp). cbn [mbind res_bind rbind].
  unfold ren.
  destruct (decide (i < n1));
    [ rewrite (getu_ok _ _ ql) by tab Ht Hh Hq H1 H2; cbn [mbind res_bind rbind];
      destruct (decide (ql = n1));
      (rewrite setu_ok by tab Ht Hh Hq H1 H2); cbn [mbind res_bind rbind]
    | cbn [mbind res_bind rbind] ];
  (destruct (decide (pos < n1));
    [ match goal with |- context [getu ?hh pos] =>
        destruct (lookup_lt_is_Some_2 hh pos) as [hp Hp]; [tab Ht Hh Hq H1 H2|];
        rewrite (getu_ok _ _ _ Hp); cbn [mbind res_bind rbind]
      end;
      destruct (decide (hp = n1));
      (rewrite setu_ok by tab Ht Hh Hq H1 H2); cbn [mbind res_bind rbind]
    | cbn [mbind res_bind rbind] ]);
  apply store_res_eq; apply list_eq; intros p;
  (destruct (decide (p < n1));
     [ destruct (lookup_lt_is_Some_2 (heap s) p) as [xh Hxh]; [lia|];
       destruct (lookup_lt_is_Some_2 (qp s) p) as [xq Hxq]; [lia|] | ]);
  tab Ht Hh Hq H1 H2.
Qed.

Theorem remove_ok : remove_ok_stmt keq hash (P:=P).
Proof.
  intros Hk s k H. destruct (get_index_of keq hash (smap s) k) as [i|] eqn:Hi.
  - destruct (get_index_of_Some _ _ _ Hk Hi) as (e&He&_).
    assert (i < ssize s) as Hlt.
    { rewrite <-(WF_length_smap _ H). by eapply lookup_lt_Some. }
    destruct (WF_qp_is_Some s i H Hlt) as [pos Hpos].
    pose proof (WF_qp_heap _ _ _ H Hpos) as Hhp.
    destruct (ssize s) as [|n1] eqn:Hn; [lia|].
    pose proof (remove_eval s k i pos n1 e H Hn Hi He Hpos) as Hev.
    destruct (WF_removed s n1 pos i H Hn Hhp) as [HWF Hview].
    eexists e, pos, _. split_and!; [exact Hev|done..| |cbn; lia|done].
    by apply map_swap_remove_index_ok.
  - unfold remove. by rewrite Hi.
Qed.

End StoreProofs.
Print Assumptions eview_lookup.
Print Assumptions eview_length.
Print Assumptions eview_perm.
Print Assumptions prio_at_ok.
Print Assumptions swap_ok.
Print Assumptions swap_remove_ok.
Print Assumptions remove_ok.
Print Assumptions set_entry_ok.
Print Assumptions push_entry_ok.
Print Assumptions identity_ok.
Print Assumptions hole_move_ok.
Print Assumptions get_index_of_spec.
