(** * UnwindProofs: C10.  Whichever user callback of whichever operation
    panics (the fuse), every queue stays well-formed and nothing faults.

    Every routine of Store.v / PQ.v / DPQ.v / Iter.v is shown to preserve
    [WF] from [WF] alone, for every value of the fuse: the result is either
    [Ok] in a well-formed state or [Unwound] in a well-formed state, never a
    [Fault].  The flag [q] adds "the fuse stays [None]" (the case of an
    operation that is not wrapped in [OFuse]). *)
From PQV Require Export Spec IterSpec.
From PQV Require Import StoreProofs IterProofs.

#[local] Arguments Nat.mul : simpl never.
#[local] Arguments Nat.add : simpl never.
#[local] Arguments Nat.div : simpl never.
#[local] Arguments Nat.sub : simpl never.
#[local] Arguments Nat.log2 : simpl never.
#[local] Arguments Nat.min : simpl never.

Section Unwind.
Context {I P : Type}.
Variable keq : I -> I -> bool.
Variable hash : I -> N.
Variable ple : P -> P -> bool.
Variable peq : P -> P -> bool.
Variable alloc_limit : N.

Notation store := (store I P).
Notation R := (res store).
Notation sout := (sout I P).
Notation istep := (istep I P).
Notation machine := (@machine I P).
Notation op := (@op I P).
Notation out := (@out I P).
Notation WF := (WF keq).
Notation gio := (get_index_of keq hash).

Ltac stp := cbn [mbind res_bind rbind].
Ltac sf := cbn [heap qp smap ssize fuse ticks cap set_ticks set_fuse set_map set_heap
                set_qp set_size set_cap] in *.

Section Q.
Variable q : bool.
Hypothesis Hk : keq_ok keq hash.

(** the invariant: well-formed, and (when [q]) no armed fuse *)
Definition FI (s : store) : Prop := q = true -> fuse s = None.
Definition inv (s : store) : Prop := WF s /\ FI s.

(** a result that is not a fault and leaves a good state behind *)
Definition wfr {A} (Q : A -> Prop) (r : R A) : Prop :=
  match r with Ok a => Q a | Unwound s' => inv s' | Fault _ => False end.

Lemma wfr_bind {A B} (Q1 : A -> Prop) (Q2 : B -> Prop) (m : R A) (f : A -> R B) :
  wfr Q1 m -> (forall a, Q1 a -> wfr Q2 (f a)) -> wfr Q2 (m ≫= f).
Proof. destruct m; stp; cbn [wfr]; eauto. Qed.

Lemma wfr_mono {A} (Q1 Q2 : A -> Prop) (m : R A) :
  wfr Q1 m -> (forall a, Q1 a -> Q2 a) -> wfr Q2 m.
Proof. destruct m; cbn [wfr]; eauto. Qed.

(** the ghost fields as left by callbacks and comparisons *)
Definition gh (s : store) (f : option nat) (t : nat) : store := set_ticks (set_fuse s f) t.

Lemma set_fuse_same (s : store) : set_fuse s (fuse s) = s.
Proof. by destruct s. Qed.

Lemma cb_cases (s : store) : FI s ->
  (exists f, cb s = Ok (set_fuse s f) /\ (q = true -> f = None)) \/
  cb s = Unwound (set_fuse s None).
Proof.
  intros HF. unfold cb. destruct (fuse s) as [[|k]|] eqn:E.
  - by right.
  - left. exists (Some k). split; [done|]. intros Hq. rewrite (HF Hq) in E. done.
  - left. exists None. split; [|done]. by rewrite <- E, set_fuse_same.
Qed.

Lemma cmp_lt_cases (s : store) a b : FI s ->
  (exists f t, cmp_lt ple s a b = Ok (plt ple a b, gh s f t) /\ (q = true -> f = None)) \/
  cmp_lt ple s a b = Unwound (set_fuse s None).
Proof.
  intros HF. unfold cmp_lt. destruct (cb_cases s HF) as [(f & -> & Hf) | ->]; stp.
  - left. by eexists f, _.
  - by right.
Qed.

Lemma inv_set_fuse (s : store) f : WF s -> (q = true -> f = None) -> inv (set_fuse s f).
Proof. intros H Hf. split; [exact H|exact Hf]. Qed.
Lemma inv_gh (s : store) f t : WF s -> (q = true -> f = None) -> inv (gh s f t).
Proof. intros H Hf. split; [exact H|exact Hf]. Qed.
Lemma inv_unw (s : store) : WF s -> inv (set_fuse s None).
Proof. intros H. by apply inv_set_fuse. Qed.

(** ** pure accesses on a well-formed store *)
Lemma WF_heap_lookup (s : store) pos : WF s -> pos < ssize s ->
  exists i e, heap s !! pos = Some i /\ qp s !! i = Some pos /\ smap s !! i = Some e /\ i < ssize s.
Proof.
  intros H Hp. destruct (WF_heap_is_Some keq s pos H Hp) as [i Hi].
  destruct (WF_heap_lt keq s pos i H Hi) as [_ Hlt].
  destruct (WF_smap_is_Some keq s i H Hlt) as [e He].
  exists i, e. split; [done|]. split; [by apply (WF_heap_qp keq)|]. done.
Qed.
Lemma prio_at_wf (s : store) pos : WF s -> pos < ssize s -> exists p, prio_at s pos = Ok p.
Proof.
  intros H Hp. destruct (WF_heap_lookup s pos H Hp) as (i & e & Hi & _ & He & _).
  unfold prio_at, getu. rewrite Hi. stp. rewrite He. cbn. eauto.
Qed.
Lemma slot_entry_wf (s : store) pos : WF s -> pos < ssize s -> exists e, slot_entry s pos = Ok e.
Proof.
  intros H Hp. destruct (WF_heap_lookup s pos H Hp) as (i & e & Hi & _ & He & _).
  unfold slot_entry, getu. rewrite Hi. stp. eauto.
Qed.
Lemma WF_smap_lt (s : store) i e : WF s -> smap s !! i = Some e -> i < ssize s.
Proof. intros (Hm & _) H. apply lookup_lt_Some in H. lia. Qed.
Lemma WF_slot_qp (s : store) i : WF s -> i < ssize s ->
  exists pos, qp s !! i = Some pos /\ pos < ssize s.
Proof.
  intros H Hi. destruct (WF_qp_is_Some keq s i H Hi) as [pos Hq]. exists pos. split; [done|].
  by destruct (WF_qp_lt keq s i pos H Hq).
Qed.
Lemma gio_some (m : list (I * P)) k i :
  gio m k = Some i -> exists e, m !! i = Some e /\ keq e.1 k = true.
Proof. by apply get_index_of_Some. Qed.
Lemma keq_sym a b : keq a b = true -> keq b a = true.
Proof. destruct Hk as (_ & H & _). apply H. Qed.
Lemma keq_refl a : keq a a = true.
Proof. destruct Hk as (H & _). apply H. Qed.

Lemma WF_set_entry (s : store) i e e' :
  WF s -> smap s !! i = Some e -> keq e'.1 e.1 = true ->
  WF (set_map s (<[i := e']> (smap s))).
Proof.
  intros HWF He Hke.
  destruct (WF_slot_qp s i HWF (WF_smap_lt s i e HWF He)) as (pos & Hq & _).
  apply (set_entry_ok keq hash Hk s i e e' pos HWF He Hq Hke).
Qed.

(** ** Store.v *)
Lemma swap_wfr (s : store) a b : inv s -> a < ssize s -> b < ssize s ->
  exists s', swap s a b = Ok s' /\ inv s' /\ ssize s' = ssize s.
Proof.
  intros [HW HF] Ha Hb.
  destruct (swap_ok keq s a b HW Ha Hb) as (s' & Hs & HW' & (_ & Hsz & _ & Hfu & _) & _).
  exists s'. split; [done|]. split; [|done]. split; [done|]. intros Hq. rewrite Hfu. by apply HF.
Qed.

Lemma swap_remove_wfr (s : store) pos : inv s -> pos < ssize s ->
  exists e s', swap_remove s pos = Ok (Some e, s') /\ inv s' /\ S (ssize s') = ssize s.
Proof.
  intros [HW HF] Hp.
  destruct (swap_remove_ok keq s pos HW Hp)
    as (e & i & s' & Hs & HW' & _ & _ & _ & _ & Hsz & (_ & Hfu & _)).
  exists e, s'. split; [done|]. split; [|lia]. split; [done|]. intros Hq. rewrite Hfu. by apply HF.
Qed.

Lemma swap_remove_if_wfr (s : store) pos f : pred_ok keq f -> inv s -> pos < ssize s ->
  wfr (fun x : option (I * P) * store => inv x.2) (swap_remove_if s pos f).
Proof.
  intros Hpf [HW HF] Hp.
  destruct (WF_heap_lookup s pos HW Hp) as (i & e & Hi & Hq & He & Hlt).
  unfold swap_remove_if, getu. rewrite Hi. stp. rewrite He. cbn [unwrap]. stp.
  destruct (cb_cases s HF) as [(f0 & -> & Hf0) | ->]; stp; [|by apply inv_unw].
  pose proof (Hpf e.1 e.2) as Hke. destruct (f e.1 e.2) as [[i' p'] b]. cbn [fst snd] in Hke.
  sf. cbv zeta.
  assert (inv (set_map (set_fuse s f0) (<[i:=(i', p')]> (smap s)))) as Hinv2.
  { split; [|exact Hf0]. by apply (WF_set_entry s i e (i', p')). }
  destruct b; [|exact Hinv2].
  destruct (swap_remove_wfr _ pos Hinv2 Hp) as (e2 & s' & -> & Hi' & _). exact Hi'.
Qed.

Lemma change_priority_wfr (s : store) k p : inv s ->
  wfr (fun x : option (P * nat) * store => inv x.2 /\
         forall old pos, x.1 = Some (old, pos) -> pos < ssize x.2)
      (change_priority keq hash s k p).
Proof.
  intros [HW HF]. unfold change_priority. destruct (gio (smap s) k) as [i|] eqn:Hg.
  - destruct (gio_some _ _ _ Hg) as (e & He & _). rewrite He. cbn [unwrap]. stp.
    destruct (WF_slot_qp s i HW (WF_smap_lt s i e HW He)) as (pos & Hq & Hpos).
    unfold getu. rewrite Hq. stp. cbn [wfr fst snd]. split.
    + split; [|exact HF]. apply (WF_set_entry s i e (e.1, p)); [done..|apply keq_refl].
    + intros ? ? [= _ <-]. exact Hpos.
  - cbn [wfr]. split; [by split|]. intros ? ? [=].
Qed.

Lemma change_priority_by_wfr (s : store) k g : inv s ->
  wfr (fun x : option nat * store => inv x.2 /\ forall pos, x.1 = Some pos -> pos < ssize x.2)
      (change_priority_by keq hash s k g).
Proof.
  intros [HW HF]. unfold change_priority_by. destruct (gio (smap s) k) as [i|] eqn:Hg.
  - destruct (gio_some _ _ _ Hg) as (e & He & _). rewrite He. cbn [unwrap]. stp.
    destruct (cb_cases s HF) as [(f0 & -> & Hf0) | ->]; stp; [|by apply inv_unw].
    destruct (WF_slot_qp s i HW (WF_smap_lt s i e HW He)) as (pos & Hq & Hpos).
    sf. cbv zeta. sf. unfold getu. rewrite Hq. stp. cbn [wfr fst snd]. split.
    + split; [|exact Hf0]. apply (WF_set_entry s i e (e.1, g e.2)); [done..|apply keq_refl].
    + intros ? [= <-]. exact Hpos.
  - cbn [wfr]. split; [by split|]. intros ? [=].
Qed.

Lemma remove_wfr (s : store) k : inv s ->
  wfr (fun x : option (I * P * nat) * store => inv x.2 /\
         match x.1 with Some _ => S (ssize x.2) = ssize s | None => True end)
      (Store.remove keq hash s k).
Proof.
  intros [HW HF]. pose proof (remove_ok keq hash Hk s k HW) as Hr.
  destruct (gio (smap s) k) as [i|].
  - destruct Hr as (e & pos & s' & -> & HW' & He & _ & _ & _ & Hsz & (_ & Hfu & _)).
    cbn [wfr fst snd]. split; [split; [done|]|].
    + intros Hq. rewrite Hfu. by apply HF.
    + apply (WF_smap_lt s i e HW) in He. lia.
  - rewrite Hr. cbn [wfr]. by split.
Qed.

(** *** retain *)
Definition up (n i : nat) : nat := if decide (i < n) then i else S i.
Lemma lookup_up (d : list (I * P)) e t i : (d ++ e :: t) !! up (length d) i = (d ++ t) !! i.
Proof.
  unfold up. case_decide.
  - by rewrite !lookup_app_l by lia.
  - rewrite !lookup_app_r by lia. by replace (S i - length d) with (S (i - length d)) by lia.
Qed.
Lemma nodup_keys_delete_mid (d : list (I * P)) e t :
  nodup_keys keq (d ++ e :: t) -> nodup_keys keq (d ++ t).
Proof.
  intros H i j ei ej Hi Hj Hij. rewrite <- (lookup_up d e t) in Hi, Hj.
  pose proof (H _ _ _ _ Hi Hj Hij) as Heq. unfold up in Heq. repeat case_decide; lia.
Qed.
Lemma nodup_keys_replace_mid (d : list (I * P)) e e' t : keq e'.1 e.1 = true ->
  nodup_keys keq (d ++ e :: t) -> nodup_keys keq ((d ++ [e']) ++ t).
Proof.
  intros Hke H. rewrite <- app_assoc. cbn [app].
  replace (d ++ e' :: t) with (<[length d := e']> (d ++ e :: t)).
  - apply (StoreProofs.nodup_keys_insert keq hash _ _ e e' Hk H); [|done].
    by apply list_lookup_middle.
  - rewrite insert_app_r_alt by lia. by rewrite Nat.sub_diag.
Qed.

Lemma realign_inv (s : store) m :
  tables_inv (heap s) (qp s) (ssize s) -> nodup_keys keq m -> FI s ->
  inv (realign (set_map s m)).
Proof.
  intros Ht Hn HF. unfold realign. sf. case_decide as E.
  - split; [|exact HF]. split; [exact E|]. split; [exact Ht|exact Hn].
  - destruct (identity_ok keq s m Hn) as [HW _]. split; [exact HW|exact HF].
Qed.

Lemma retain_entries_wfr f : pred_ok keq f -> forall todo done (s : store),
  tables_inv (heap s) (qp s) (ssize s) -> FI s -> nodup_keys keq (done ++ todo) ->
  wfr (fun x : list (I * P) * store => nodup_keys keq x.1 /\
         tables_inv (heap x.2) (qp x.2) (ssize x.2) /\ FI x.2)
      (retain_entries f s done todo).
Proof.
  intros Hpf. induction todo as [|e todo IH]; intros done s Ht HF Hn; cbn [retain_entries].
  - cbn [wfr fst snd]. rewrite app_nil_r in Hn. done.
  - destruct (cb_cases s HF) as [(f0 & -> & Hf0) | ->].
    + pose proof (Hpf e.1 e.2) as Hke. destruct (f e.1 e.2) as [[i' p'] b]. cbn [fst snd] in Hke.
      apply IH; [exact Ht|exact Hf0|]. destruct b.
      * by apply (nodup_keys_replace_mid done e (i', p') todo).
      * by apply (nodup_keys_delete_mid done e todo).
    + cbn [wfr]. by apply realign_inv.
Qed.

Lemma retain_mut_wfr (s : store) f : pred_ok keq f -> inv s -> wfr inv (retain_mut s f).
Proof.
  intros Hpf [HW HF]. unfold retain_mut.
  eapply wfr_bind; [apply (retain_entries_wfr f Hpf (smap s) [] s); [apply HW|exact HF|apply HW]|].
  intros [m' s1] (Hn & Ht & HF1). cbn [fst snd] in *. cbn [wfr]. by apply realign_inv.
Qed.

(** *** bulk construction *)
Lemma push_entry_inv (s : store) e : inv s -> gio (smap s) e.1 = None -> inv (push_entry s e).
Proof.
  intros [HW HF] Hg. split; [|exact HF]. by apply (push_entry_ok keq hash Hk s e HW Hg).
Qed.

Lemma append_entries_inv l : forall s : store, inv s -> inv (append_entries keq hash s l).
Proof.
  induction l as [|e l IH]; intros s Hi; [done|]. cbn [append_entries].
  destruct (gio (smap s) e.1) eqn:Hg; apply IH; [done|by apply push_entry_inv].
Qed.

Lemma inv_empty c : inv (empty_store c : store).
Proof. split; [apply WF_empty_store|done]. Qed.

Lemma inv_emptyish (s : store) :
  smap s = [] -> heap s = [] -> qp s = [] -> ssize s = 0 -> FI s -> inv s.
Proof.
  intros Hm Hh Hq Hs HF. split; [|exact HF].
  unfold Inv.WF, tables_inv, nodup_keys. rewrite Hm, Hh, Hq, Hs.
  split; [done|]. split.
  - split; [done|]. split; [done|]. split; intros ? ? H; by rewrite lookup_nil in H.
  - intros ? ? ? ? H; by rewrite lookup_nil in H.
Qed.
Lemma inv_clear (s : store) : FI s -> inv (clear s).
Proof. intros HF. by apply inv_emptyish. Qed.

Lemma append_inv (s o : store) : inv s -> inv o ->
  inv (append keq hash s o).1 /\ inv (append keq hash s o).2.
Proof.
  intros Hs Ho. unfold append.
  assert (inv (with_ghost_of s o)) as H1 by (split; [apply Ho|apply Hs]).
  assert (inv (with_ghost_of o s)) as H2 by (split; [apply Hs|apply Ho]).
  destruct (decide (ssize s < ssize o)).
  - destruct (decide (ssize (with_ghost_of o s) = 0)); cbn [fst snd]; [done|].
    split; [by apply append_entries_inv|apply inv_clear, H2].
  - destruct (decide (ssize o = 0)); cbn [fst snd]; [done|].
    split; [by apply append_entries_inv|apply inv_clear, Ho].
Qed.

Lemma append_entries_WF l : forall s : store, WF s -> WF (append_entries keq hash s l).
Proof.
  induction l as [|e l IH]; intros s Hi; [done|]. cbn [append_entries].
  destruct (gio (smap s) e.1) eqn:Hg; apply IH; [done|].
  by apply (push_entry_ok keq hash Hk s e Hi Hg).
Qed.
Lemma fuse_append_entries l : forall s : store, fuse (append_entries keq hash s l) = fuse s.
Proof.
  induction l as [|e l IH]; intros s; [done|]. cbn [append_entries]. rewrite IH.
  by destruct (gio (smap s) e.1).
Qed.
Lemma from_vec_WF l : WF (from_vec keq hash l : store).
Proof. unfold from_vec. apply append_entries_WF, WF_empty_store. Qed.

Lemma extend_one_WF (s : store) e : WF s -> WF (extend_one keq hash s e).
Proof.
  intros HW. unfold extend_one. destruct (gio (smap s) e.1) as [i|] eqn:Hg.
  - destruct (gio_some _ _ _ Hg) as (e0 & He0 & Hke).
    apply (WF_set_entry s i e0); [done|done|]. by apply keq_sym.
  - by apply (push_entry_ok keq hash Hk s e HW Hg).
Qed.
Lemma fuse_extend_one (s : store) e : fuse (extend_one keq hash s e) = fuse s.
Proof. unfold extend_one. by destruct (gio (smap s) e.1). Qed.

Lemma extend_entries_wfr l : forall s : store, inv s -> wfr inv (extend_entries keq hash s l).
Proof.
  induction l as [|e l IH]; intros s [HW HF]; cbn [extend_entries];
    (destruct (cb_cases s HF) as [(f0 & -> & Hf0) | ->]; stp; [|by apply inv_unw]).
  - cbn [wfr]. by apply inv_set_fuse.
  - apply IH. split; [by apply extend_one_WF|]. intros Hq. rewrite fuse_extend_one. by apply Hf0.
Qed.

Lemma visit_one_WF (s : store) e : WF s -> WF (visit_one keq hash s e).
Proof.
  intros HW. unfold visit_one, map_insert. destruct (gio (smap s) e.1) as [i|] eqn:Hg.
  - destruct (gio_some _ _ _ Hg) as (e0 & He0 & Hke). rewrite He0.
    apply (WF_set_entry s i e0); [done|done|]. apply keq_refl.
  - by apply (push_entry_ok keq hash Hk s e HW Hg).
Qed.
Lemma visit_fold_WF l : forall s : store, WF s -> WF (fold_left (visit_one keq hash) l s).
Proof.
  induction l as [|e l IH]; intros s HW; [done|]. cbn [fold_left]. by apply IH, visit_one_WF.
Qed.
Lemma visit_seq_WF l : WF (visit_seq keq hash l : store).
Proof. unfold visit_seq. apply visit_fold_WF, WF_empty_store. Qed.

Lemma get_mut_inv (s : store) i u : item_ok keq u -> inv s -> inv (get_mut keq hash s i u).2.
Proof.
  intros Hu [HW HF]. unfold get_mut. destruct (gio (smap s) i) as [j|]; [|done].
  destruct (smap s !! j) as [e|] eqn:He; [|done]. cbn [snd]. split; [|exact HF].
  apply (WF_set_entry s j e (u e.1, e.2)); [done..|apply Hu].
Qed.

(** ** PQ.v *)
Lemma pick_largest_wfr (s : store) i : inv s -> i < ssize s ->
  wfr (fun x : nat * store => inv x.2 /\ ssize x.2 = ssize s /\
         (x.1 = i \/ (i < x.1 /\ x.1 < ssize s)))
      (pick_largest ple s i).
Proof.
  intros [HW HF] Hi. unfold pick_largest.
  destruct (prio_at_wf s i HW Hi) as [pi ->]. stp.
  case_decide as Hl; [|cbn [wfr fst snd]; split; [by split|auto] ].
  destruct (prio_at_wf s (left i) HW Hl) as [pl ->]. stp.
  destruct (cmp_lt_cases s pi pl HF) as [(f & t & -> & Hf) | ->]; stp; [|by apply inv_unw].
  set (s1 := gh s f t). assert (inv s1) as [HW1 HF1] by (by apply inv_gh).
  assert (exists lg lp, (if plt ple pi pl then (left i, pl) else (i, pi)) = (lg, lp) /\
            (lg = i \/ lg = left i)) as (lg & lp & -> & Hlg).
  { destruct (plt ple pi pl); eauto. }
  change (ssize s1) with (ssize s).
  case_decide as Hr.
  - destruct (prio_at_wf s1 (right i) HW1 Hr) as [pr ->]. stp.
    destruct (cmp_lt_cases s1 lp pr HF1) as [(f2 & t2 & -> & Hf2) | ->]; stp; [|by apply inv_unw].
    cbn [wfr fst snd]. split; [by apply inv_gh|]. split; [done|].
    unfold left, right in *. destruct (plt ple lp pr); lia.
  - cbn [wfr fst snd]. split; [done|]. split; [done|]. unfold left in *. lia.
Qed.

Lemma heapify_loop_wfr fuel : forall (s : store) i, inv s -> i < ssize s -> ssize s - i < fuel ->
  wfr (fun s' : store => inv s' /\ ssize s' = ssize s) (heapify_loop ple fuel s i).
Proof.
  induction fuel as [|fuel IH]; intros s i Hi Hlt Hfu; [lia|]. cbn [heapify_loop].
  eapply wfr_bind; [by apply pick_largest_wfr|].
  intros [lg s1] (Hi1 & Hsz1 & Hlg). cbn [fst snd] in *.
  case_decide; [by cbn [wfr]|].
  destruct Hlg as [?|[H1 H2] ]; [done|].
  destruct (swap_wfr s1 i lg Hi1) as (s2 & -> & Hi2 & Hsz2); [lia..|]. stp.
  eapply wfr_mono; [apply IH; [done|lia|lia]|]. intros s3 [? ?]. split; [done|lia].
Qed.

Lemma heapify_wfr (s : store) i : inv s -> (1 < ssize s -> i < ssize s) ->
  wfr (fun s' : store => inv s' /\ ssize s' = ssize s) (heapify ple s i).
Proof.
  intros Hi Hlt. unfold heapify. case_decide; [by cbn [wfr]|].
  apply heapify_loop_wfr; [done|lia|lia].
Qed.

(** *** the moving hole *)
Lemma fill_prio_at (s : store) pos idx p :
  p <> pos -> prio_at (fill s pos idx) p = prio_at s p.
Proof.
  intros Hne. unfold prio_at, fill, getu. cbn.
  rewrite list_lookup_insert_ne by done. done.
Qed.
Lemma WF_fill_facts (s : store) pos idx :
  WF (fill s pos idx) ->
  length (heap s) = ssize s /\ length (qp s) = ssize s /\ length (smap s) = ssize s.
Proof.
  intros (Hm & (Hh & Hq & _) & _). cbn in *.
  rewrite insert_length in Hh, Hq. done.
Qed.
Lemma fill_heap_lookup (s : store) pos idx p i :
  WF (fill s pos idx) -> p <> pos -> p < ssize s ->
  heap (fill s pos idx) !! p = Some i -> heap s !! p = Some i /\ i < ssize s /\ i <> idx.
Proof.
  intros HWF Hne Hp Hl.
  pose proof HWF as (Hm & (Hh & Hq & H1 & H2) & _).
  pose proof (H1 _ _ Hl) as Hqi.
  split; [|split].
  - cbn in Hl. rewrite list_lookup_insert_ne in Hl by done. done.
  - apply lookup_lt_Some in Hqi. rewrite Hq in Hqi. done.
  - intros ->. cbn in Hqi. destruct (WF_fill_facts _ _ _ HWF) as (Lh & Lq & Lm).
    assert (idx < length (qp s)) by (apply lookup_lt_Some in Hqi; rewrite insert_length in Hqi; done).
    rewrite list_lookup_insert in Hqi by done. congruence.
Qed.
Lemma fill_id (s : store) pos idx :
  heap s !! pos = Some idx -> qp s !! idx = Some pos -> fill s pos idx = s.
Proof.
  intros Hh Hq. unfold fill. destruct s. cbn in *.
  rewrite (list_insert_id _ _ _ Hh), (list_insert_id _ _ _ Hq). done.
Qed.
Lemma half_lt k : k / 2 < S k.
Proof. pose proof (Nat.div_lt_upper_bound k 2 (S k)). lia. Qed.

Lemma bubble_up_loop_wfr fuel : forall (s : store) pos idx p,
  WF (fill s pos idx) -> FI s -> pos < ssize s -> pos < fuel ->
  wfr (fun x : nat * store => WF (fill x.2 x.1 idx) /\ FI x.2 /\ ssize x.2 = ssize s /\ x.1 <= pos)
      (bubble_up_loop ple fuel s pos idx p).
Proof.
  induction fuel as [|fuel IH]; intros s pos idx p HW HF Hp Hfu; [lia|]. cbn [bubble_up_loop].
  destruct pos as [|k]; [cbn [wfr fst snd]; auto with lia|].
  cbn [parent]. stp. set (pa := k / 2). assert (pa < S k) as Hpa by apply half_lt.
  destruct (WF_fill_facts _ _ _ HW) as (Lh & Lq & Lm).
  assert (pa < ssize s) as Hpas by lia.
  destruct (prio_at_wf (fill s (S k) idx) pa HW Hpas) as [pp Hpp].
  rewrite fill_prio_at in Hpp by lia. rewrite Hpp. stp.
  unfold cmp_lt_hole.
  destruct (cmp_lt_cases s pp p HF) as [(f & t & -> & Hf) | ->]; stp.
  2:{ cbn [wfr]. split; [exact HW|done]. }
  destruct (plt ple pp p).
  2:{ cbn [wfr fst snd]. split; [exact HW|]. split; [exact Hf|]. split; [done|lia]. }
  set (s1 := gh s f t).
  destruct (WF_heap_is_Some keq (fill s (S k) idx) pa HW Hpas) as [pidx Hpidx].
  destruct (fill_heap_lookup s (S k) idx pa pidx HW ltac:(lia) Hpas Hpidx) as (Hh & Hpi & Hpne).
  change (heap s1) with (heap s). change (qp s1) with (qp s).
  unfold getu. rewrite Hh. stp. unfold setu. rewrite decide_True by lia. stp.
  rewrite decide_True by lia. stp.
  change (set_qp (set_heap s1 (<[S k:=pidx]> (heap s))) (<[pidx:=S k]> (qp s)))
    with (hole_move s1 (S k) pa pidx).
  destruct (hole_move_ok keq s1 (S k) pa idx pidx HW Hp Hpas ltac:(lia) Hh) as (HW2 & _ & _).
  eapply wfr_mono; [apply IH; [exact HW2|exact Hf|exact Hpas|lia]|].
  intros [pos' s'] (? & ? & ? & ?). cbn [fst snd] in *. split; [done|]. split; [done|].
  split; [done|lia].
Qed.

Lemma bubble_up_wfr (s : store) pos idx :
  WF (fill s pos idx) -> FI s -> pos < ssize s -> idx < ssize s ->
  wfr (fun x : nat * store => inv x.2 /\ ssize x.2 = ssize s /\ x.1 <= pos)
      (bubble_up ple s pos idx).
Proof.
  intros HW HF Hp Hi. destruct (WF_fill_facts _ _ _ HW) as (Lh & Lq & Lm).
  destruct (lookup_lt_is_Some_2 (smap s) idx ltac:(lia)) as [e He].
  unfold bubble_up. rewrite He. cbn [unwrap]. stp.
  eapply wfr_bind; [apply (bubble_up_loop_wfr (S pos) s pos idx e.2 HW HF Hp); lia|].
  intros [pos' s1] (HW1 & HF1 & Hsz1 & Hle). cbn [fst snd] in *.
  destruct (WF_fill_facts _ _ _ HW1) as (Lh' & Lq' & Lm').
  unfold setu. rewrite decide_True by lia. stp. rewrite decide_True by lia. stp.
  cbn [wfr fst snd]. split; [split; [exact HW1|exact HF1]|]. done.
Qed.

Lemma up_heapify_wfr (s : store) i : inv s -> i < ssize s ->
  wfr (fun s' : store => inv s' /\ ssize s' = ssize s) (up_heapify ple s i).
Proof.
  intros [HW HF] Hi. destruct (WF_heap_lookup s i HW Hi) as (tmp & e & Hh & Hq & _ & Ht).
  unfold up_heapify, getu. rewrite Hh. stp.
  eapply wfr_bind; [apply (bubble_up_wfr s i tmp); [by rewrite fill_id|done..]|].
  intros [pos s1] (Hi1 & Hsz1 & Hle). cbn [fst snd] in *.
  eapply wfr_mono; [apply heapify_wfr; [done|lia]|]. intros s2 [? ?]. split; [done|congruence].
Qed.

Lemma heap_build_loop_wfr n : forall s : store, inv s -> n <= ssize s ->
  wfr (fun s' : store => inv s' /\ ssize s' = ssize s) (heap_build_loop ple s n).
Proof.
  induction n as [|k IH]; intros s Hi Hn; cbn [heap_build_loop]; [by cbn [wfr]|].
  eapply wfr_bind; [apply (heapify_wfr s k Hi); lia|]. intros s1 [Hi1 Hsz1].
  eapply wfr_mono; [apply IH; [done|lia]|]. intros s2 [? ?]. split; [done|congruence].
Qed.

Lemma heap_build_wfr (s : store) : inv s ->
  wfr (fun s' : store => inv s' /\ ssize s' = ssize s) (heap_build ple s).
Proof.
  intros Hi. unfold heap_build. case_decide; [by cbn [wfr]|].
  destruct (ssize s) as [|k] eqn:Hsz; [done|]. cbn [parent]. stp. rewrite <- Hsz.
  apply heap_build_loop_wfr; [done|]. pose proof (half_lt k). lia.
Qed.

Lemma peek_mut_wfr (s : store) u : item_ok keq u -> inv s ->
  wfr (fun x : option (I * P) * store => inv x.2) (peek_mut s u).
Proof.
  intros Hu [HW HF]. unfold peek_mut. case_decide; [by cbn [wfr]|].
  destruct (WF_heap_lookup s 0 HW ltac:(lia)) as (i & e & Hh & _ & He & _).
  unfold getu. rewrite Hh. stp. rewrite He. cbn [wfr snd]. split; [|exact HF].
  apply (WF_set_entry s i e (u e.1, e.2)); [done..|apply Hu].
Qed.

Lemma pop_wfr (s : store) : inv s ->
  wfr (fun x : option (I * P) * store => inv x.2 /\
         match x.1 with Some _ => ssize x.2 < ssize s | None => True end) (pop ple s).
Proof.
  intros Hi. unfold pop. destruct (ssize s) as [|[|n] ] eqn:Hsz; [by cbn [wfr]|..].
  - destruct (swap_remove_wfr s 0 Hi ltac:(lia)) as (e & s' & -> & Hi' & Hs'). cbn [wfr fst snd].
    split; [done|lia].
  - destruct (swap_remove_wfr s 0 Hi ltac:(lia)) as (e & s' & -> & Hi' & Hs'). stp.
    eapply wfr_bind; [apply (heapify_wfr s' 0 Hi'); lia|]. intros s2 [Hi2 Hs2].
    cbn [wfr fst snd]. split; [done|lia].
Qed.

Lemma pop_if_wfr (s : store) f : pred_ok keq f -> inv s ->
  wfr (fun x : option (I * P) * store => inv x.2) (pop_if ple s f).
Proof.
  intros Hpf Hi. unfold pop_if. destruct (ssize s) as [|[|n] ] eqn:Hsz; [by cbn [wfr]|..].
  - apply swap_remove_if_wfr; [done|done|lia].
  - eapply wfr_bind; [apply (swap_remove_if_wfr s 0 f Hpf Hi); lia|].
    intros [r s1] Hi1. cbn [snd] in Hi1.
    eapply wfr_bind; [apply (heapify_wfr s1 0 Hi1); lia|]. intros s2 [Hi2 _]. exact Hi2.
Qed.

Lemma push_wfr (s : store) k p : inv s ->
  wfr (fun x : option P * store => inv x.2) (push keq hash ple s k p).
Proof.
  intros [HW HF]. unfold push. destruct (gio (smap s) k) as [i|] eqn:Hg.
  - destruct (gio_some _ _ _ Hg) as (e & He & _). rewrite He. cbn [unwrap]. stp. cbv zeta.
    destruct (WF_slot_qp s i HW (WF_smap_lt s i e HW He)) as (pos & Hq & Hpos).
    sf. unfold getu. rewrite Hq. stp.
    eapply wfr_bind; [apply (up_heapify_wfr _ pos); [|exact Hpos] |].
    + split; [|exact HF]. apply (WF_set_entry s i e (e.1, p)); [done..|apply keq_refl].
    + intros s2 [Hi2 _]. exact Hi2.
  - cbv zeta. sf.
    change (set_size _ _) with (push_entry s (k, p)).
    destruct (push_entry_inv s (k, p) (conj HW HF) Hg) as [HWp HFp].
    set (pe := push_entry s (k, p)) in *. set (n := ssize s).
    pose proof HW as (Lm & (Lh & Lq & _) & _).
    assert (Hhn : heap pe !! n = Some n) by (apply list_lookup_middle; done).
    assert (Hqn : qp pe !! n = Some n) by (apply list_lookup_middle; done).
    eapply wfr_bind; [apply (bubble_up_wfr pe n n); [by rewrite fill_id|done|..]|].
    + change (ssize pe) with (S n). lia.
    + change (ssize pe) with (S n). lia.
    + intros [pos s3] (Hi3 & _). exact Hi3.
Qed.

Lemma push_dir_wfr (dir : bool) (s : store) k p : inv s ->
  wfr (fun x : option P * store => inv x.2)
      (if dir then push_increase keq hash ple s k p else push_decrease keq hash ple s k p).
Proof.
  intros [HW HF]. pose proof (push_wfr s k p (conj HW HF)) as Hp.
  destruct dir; unfold push_increase, push_decrease;
    (destruct (get_priority keq hash s k) as [old|]; [|exact Hp]).
  - destruct (cmp_lt_cases s old p HF) as [(f & t & -> & Hf) | ->]; stp; [|by apply inv_unw].
    destruct (plt ple old p); [apply push_wfr|]; by apply inv_gh.
  - destruct (cmp_lt_cases s p old HF) as [(f & t & -> & Hf) | ->]; stp; [|by apply inv_unw].
    destruct (plt ple p old); [apply push_wfr|]; by apply inv_gh.
Qed.

Lemma pq_change_priority_wfr (s : store) k p : inv s ->
  wfr (fun x : option P * store => inv x.2) (pq_change_priority keq hash ple s k p).
Proof.
  intros Hi. unfold pq_change_priority.
  eapply wfr_bind; [by apply change_priority_wfr|]. intros [r s1] [Hi1 Hpos]. cbn [fst snd] in *.
  destruct r as [ [old pos]|]; [|exact Hi1].
  eapply wfr_bind; [apply (up_heapify_wfr s1 pos Hi1); by eapply Hpos|]. intros s2 [Hi2 _]. exact Hi2.
Qed.
Lemma pq_change_priority_by_wfr (s : store) k g : inv s ->
  wfr (fun x : bool * store => inv x.2) (pq_change_priority_by keq hash ple s k g).
Proof.
  intros Hi. unfold pq_change_priority_by.
  eapply wfr_bind; [by apply change_priority_by_wfr|]. intros [r s1] [Hi1 Hpos]. cbn [fst snd] in *.
  destruct r as [pos|]; [|exact Hi1].
  eapply wfr_bind; [apply (up_heapify_wfr s1 pos Hi1); by eapply Hpos|]. intros s2 [Hi2 _]. exact Hi2.
Qed.
Lemma pq_remove_wfr (s : store) k : inv s ->
  wfr (fun x : option (I * P) * store => inv x.2) (pq_remove keq hash ple s k).
Proof.
  intros Hi. unfold pq_remove.
  eapply wfr_bind; [by apply remove_wfr|]. intros [r s1] [Hi1 _]. cbn [fst snd] in *.
  destruct r as [ [ [i p] pos]|]; [|exact Hi1].
  case_decide; stp; [|exact Hi1].
  eapply wfr_bind; [by apply (up_heapify_wfr s1 pos Hi1)|]. intros s2 [Hi2 _]. exact Hi2.
Qed.

Lemma pop_all_wfr fuel : forall (s : store) acc, inv s -> ssize s < fuel ->
  wfr (fun _ : list (I * P) * store => True) (pop_all ple fuel s acc).
Proof.
  induction fuel as [|fuel IH]; intros s acc Hi Hlt; [lia|]. cbn [pop_all].
  eapply wfr_bind; [by apply pop_wfr|]. intros [r s1] [Hi1 Hsz]. cbn [fst snd] in *.
  destruct r as [e|]; [|done]. apply IH; [done|lia].
Qed.

Lemma push_all_wfr l : forall s : store, inv s -> wfr inv (push_all keq hash ple s l).
Proof.
  induction l as [|e l IH]; intros s [HW HF]; cbn [push_all];
    (destruct (cb_cases s HF) as [(f0 & -> & Hf0) | ->]; stp; [|by apply inv_unw]).
  - by apply inv_set_fuse.
  - eapply wfr_bind; [apply push_wfr; by apply inv_set_fuse|]. intros [r s2] Hi2. by apply IH.
Qed.

Lemma extend_with_wfr (bld : store -> R store) (pa : store -> list (I * P) -> R store)
    (s : store) l (h : size_hint) :
  (forall s, inv s -> wfr inv (bld s)) -> (forall l s, inv s -> wfr inv (pa s l)) ->
  (N.of_nat (length (smap s)) + h.1 <= alloc_limit)%N -> inv s ->
  wfr inv (extend_with keq hash alloc_limit bld pa s l h).
Proof.
  intros Hb Hp Hlim Hi. unfold extend_with, reserve. rewrite decide_True by done. stp.
  assert (inv (set_cap s (N.max (cap s) (N.of_nat (length (smap s)) + h.1)))) as Hi1 by exact Hi.
  match goal with |- context [if ?b then _ else _] => destruct b end.
  - eapply wfr_bind; [by apply extend_entries_wfr|]. intros s2 Hi2. by apply Hb.
  - by apply Hp.
Qed.


(** ** DPQ.v *)
Lemma take_present_lt (s : store) l : WF s -> Forall (fun p => p < ssize s) (take_present s l).
Proof.
  intros HW. induction l as [|a l IH]; cbn [take_present]; [constructor|].
  destruct (heap s !! a) eqn:E; [|constructor]. constructor; [|done].
  apply lookup_lt_Some in E. by rewrite (WF_length_heap keq s HW) in E.
Qed.
Lemma take_present_sub (s : store) l : take_present s l ⊆ l.
Proof.
  induction l as [|a l IH]; cbn [take_present]; [done|].
  destruct (heap s !! a); [|apply list_subseteq_nil].
  intros x [->|Hx]%elem_of_cons; [left|right; by apply IH].
Qed.

Lemma pick_min_from_wfr l : forall (s : store) cur curp, inv s -> Forall (fun p => p < ssize s) l ->
  wfr (fun x : nat * store => inv x.2 /\ ssize x.2 = ssize s /\ (x.1 = cur \/ x.1 ∈ l))
      (pick_min_from ple s cur curp l).
Proof.
  induction l as [|y l IH]; intros s cur curp [HW HF] Hl; cbn [pick_min_from].
  { cbn [wfr fst snd]. split; [by split|auto]. }
  apply Forall_cons in Hl as [Hy Hl].
  destruct (prio_at_wf s y HW Hy) as [yp ->]. stp.
  destruct (cmp_lt_cases s yp curp HF) as [(f & t & -> & Hf) | ->]; stp; [|by apply inv_unw].
  destruct (plt ple yp curp);
    (eapply wfr_mono; [apply IH; [by apply inv_gh|exact Hl]|]);
    intros [c s'] (? & ? & Hc); cbn [fst snd] in *; (split; [done|]; split; [done|]).
  - destruct Hc as [->|Hc]; right; [left|by right].
  - destruct Hc as [->|Hc]; [by left|right; by right].
Qed.
Lemma pick_max_from_wfr l : forall (s : store) cur curp, inv s -> Forall (fun p => p < ssize s) l ->
  wfr (fun x : nat * store => inv x.2 /\ ssize x.2 = ssize s /\ (x.1 = cur \/ x.1 ∈ l))
      (pick_max_from ple s cur curp l).
Proof.
  induction l as [|y l IH]; intros s cur curp [HW HF] Hl; cbn [pick_max_from].
  { cbn [wfr fst snd]. split; [by split|auto]. }
  apply Forall_cons in Hl as [Hy Hl].
  destruct (prio_at_wf s y HW Hy) as [yp ->]. stp.
  destruct (cmp_lt_cases s yp curp HF) as [(f & t & -> & Hf) | ->]; stp; [|by apply inv_unw].
  destruct (plt ple yp curp);
    (eapply wfr_mono; [apply IH; [by apply inv_gh|exact Hl]|]);
    intros [c s'] (? & ? & Hc); cbn [fst snd] in *; (split; [done|]; split; [done|]).
  - destruct Hc as [->|Hc]; [by left|right; by right].
  - destruct Hc as [->|Hc]; right; [left|by right].
Qed.

Definition descendants (i : nat) : list nat :=
  [left i; right i; left (left i); right (left i); left (right i); right (right i)].

Lemma pick_extreme_wfr (mn : bool) (s : store) i : inv s -> left i < ssize s ->
  wfr (fun x : nat * store => inv x.2 /\ ssize x.2 = ssize s /\ x.1 < ssize s /\
         x.1 ∈ descendants i)
      (pick_extreme ple mn s i).
Proof.
  intros [HW HF] Hl. unfold pick_extreme, candidates. fold (descendants i).
  pose proof (take_present_lt s (descendants i) HW) as Hlt.
  pose proof (take_present_sub s (descendants i)) as Hsub.
  destruct (take_present s (descendants i)) as [|c cs] eqn:Hc.
  { exfalso. unfold descendants in Hc. cbn [take_present] in Hc.
    destruct (WF_heap_is_Some keq s (left i) HW Hl) as [x Hx]. by rewrite Hx in Hc. }
  apply Forall_cons in Hlt as [H0 Hcs].
  destruct (prio_at_wf s c HW H0) as [cp ->]. stp.
  assert (forall x : nat, x = c \/ x ∈ cs -> x < ssize s /\ x ∈ descendants i) as Hin.
  { intros x Hx. assert (x ∈ c :: cs) as Hx' by (destruct Hx as [->|?]; [left|by right]).
    split; [|by apply Hsub]. rewrite Forall_forall in Hcs.
    destruct Hx as [->|?]; [done|by apply Hcs]. }
  destruct mn.
  - eapply wfr_mono; [apply (pick_min_from_wfr cs s c cp (conj HW HF) Hcs)|].
    intros [x s'] (? & ? & Hx). cbn [fst snd] in *. destruct (Hin x Hx). done.
  - eapply wfr_mono; [apply (pick_max_from_wfr cs s c cp (conj HW HF) Hcs)|].
    intros [x s'] (? & ? & Hx). cbn [fst snd] in *. destruct (Hin x Hx). done.
Qed.

Lemma cmp_dir_cases (mn : bool) (s : store) a b : FI s ->
  (exists r f t, cmp_dir ple mn s a b = Ok (r, gh s f t) /\ (q = true -> f = None)) \/
  cmp_dir ple mn s a b = Unwound (set_fuse s None).
Proof.
  intros HF. unfold cmp_dir. destruct mn.
  - destruct (cmp_lt_cases s a b HF) as [(f & t & -> & Hf) | ->]; [left; eauto 6|by right].
  - destruct (cmp_lt_cases s b a HF) as [(f & t & -> & Hf) | ->]; [left; eauto 6|by right].
Qed.

Lemma trickle_wfr (mn : bool) fuel : forall (s : store) i,
  inv s -> 2 <= ssize s -> ssize s - i < fuel ->
  wfr (fun s' : store => inv s' /\ ssize s' = ssize s) (trickle ple mn fuel s i).
Proof.
  induction fuel as [|fuel IH]; intros s i [HW HF] H2 Hfu; [lia|]. cbn [trickle].
  assert (exists n, ssize s = S (S n)) as [n Hsz] by (destruct (ssize s) as [|[|n] ]; [lia..|eauto]).
  rewrite Hsz. cbn [sub1 parent mbind res_bind rbind].
  case_decide as Hi; [|cbn [wfr]; by rewrite Hsz].
  assert (Hl : left i < ssize s).
  { pose proof (Nat.mul_div_le n 2). unfold left. lia. }
  assert (His : i < ssize s) by (unfold left in Hl; lia).
  eapply wfr_bind; [by apply (pick_extreme_wfr mn s i (conj HW HF))|].
  intros [c s1] ([HW1 HF1] & Hsz1 & Hc & Hcr). cbn [fst snd] in *.
  assert (Hic : i < c).
  { unfold descendants in Hcr. rewrite !elem_of_cons, elem_of_nil in Hcr.
    unfold left, right in Hcr. lia. }
  destruct (prio_at_wf s1 c HW1 ltac:(lia)) as [pc ->]. stp.
  destruct (prio_at_wf s1 i HW1 ltac:(lia)) as [pm ->]. stp.
  destruct (cmp_dir_cases mn s1 pc pm HF1) as [(b & f & t & -> & Hf) | ->]; stp; [|by apply inv_unw].
  set (s2 := gh s1 f t). assert (inv s2) as Hi2 by (by apply inv_gh).
  destruct b; [|cbn [wfr]; split; [done|]; change (ssize s2) with (ssize s1); lia].
  destruct (swap_wfr s2 c i Hi2) as (s3 & -> & [HW3 HF3] & Hsz3);
    [change (ssize s2) with (ssize s1); lia..|]. stp.
  change (ssize s2) with (ssize s1) in Hsz3.
  case_decide as Hgc; [|cbn [wfr]; split; [done|lia] ].
  destruct c as [|k]; [lia|]. cbn [parent]. stp.
  pose proof (half_lt k) as Hp.
  destruct (prio_at_wf s3 (S k) HW3 ltac:(lia)) as [pi' ->]. stp.
  destruct (prio_at_wf s3 (k / 2) HW3 ltac:(lia)) as [pp ->]. stp.
  destruct (cmp_dir_cases mn s3 pp pi' HF3) as [(b2 & f4 & t4 & -> & Hf4) | ->]; stp;
    [|by apply inv_unw].
  set (s4 := gh s3 f4 t4). assert (inv s4) as Hi4 by (by apply inv_gh).
  assert (exists s5, (if b2 then swap s4 (S k) (k / 2) else Ok s4) = Ok s5 /\ inv s5 /\
                     ssize s5 = ssize s3) as (s5 & -> & Hi5 & Hsz5).
  { destruct b2; [|by exists s4].
    destruct (swap_wfr s4 (S k) (k / 2) Hi4) as (s5 & ? & ? & ?);
      [change (ssize s4) with (ssize s3); lia..|]. by exists s5. }
  stp. eapply wfr_mono; [apply (IH s5 (S k) Hi5); lia|].
  intros s6 [? ?]. split; [done|lia].
Qed.

Lemma dheapify_wfr (s : store) i : inv s ->
  wfr (fun s' : store => inv s' /\ ssize s' = ssize s) (dheapify ple s i).
Proof.
  intros Hi. unfold dheapify. case_decide; [by cbn [wfr]|]. apply trickle_wfr; [done|lia|lia].
Qed.

Lemma bubble_chain_wfr (mn : bool) fuel : forall (s : store) pos idx p,
  WF (fill s pos idx) -> FI s -> pos < ssize s -> pos < fuel ->
  wfr (fun x : nat * store => WF (fill x.2 x.1 idx) /\ FI x.2 /\ ssize x.2 = ssize s /\ x.1 <= pos)
      (bubble_chain ple mn fuel s pos idx p).
Proof.
  induction fuel as [|fuel IH]; intros s pos idx p HW HF Hp Hfu; [lia|]. cbn [bubble_chain].
  destruct pos as [|k]; [cbn [wfr fst snd]; auto with lia|].
  cbn [parent]. stp. pose proof (half_lt k) as Hpa.
  destruct (k / 2) as [|k'] eqn:Epar; [cbn [wfr fst snd]; auto with lia|].
  cbn [parent]. stp. set (gp := k' / 2). assert (gp < S k') as Hgp by apply half_lt.
  destruct (WF_fill_facts _ _ _ HW) as (Lh & Lq & Lm).
  assert (gp < ssize s) as Hgps by lia.
  destruct (prio_at_wf (fill s (S k) idx) gp HW Hgps) as [gpp Hgpp].
  rewrite fill_prio_at in Hgpp by lia. rewrite Hgpp. stp.
  destruct (cmp_dir_cases mn s p gpp HF) as [(b & f & t & -> & Hf) | ->]; stp.
  2:{ cbn [wfr]. split; [exact HW|done]. }
  destruct b.
  2:{ cbn [wfr fst snd]. split; [exact HW|]. split; [exact Hf|]. split; [done|lia]. }
  set (s1 := gh s f t).
  destruct (WF_heap_is_Some keq (fill s (S k) idx) gp HW Hgps) as [gidx Hgidx].
  destruct (fill_heap_lookup s (S k) idx gp gidx HW ltac:(lia) Hgps Hgidx) as (Hh & Hgi & Hgne).
  change (heap s1) with (heap s). change (qp s1) with (qp s).
  unfold getu. rewrite Hh. stp. unfold setu. rewrite decide_True by lia. stp.
  rewrite decide_True by lia. stp.
  change (set_qp (set_heap s1 (<[S k:=gidx]> (heap s))) (<[gidx:=S k]> (qp s)))
    with (hole_move s1 (S k) gp gidx).
  destruct (hole_move_ok keq s1 (S k) gp idx gidx HW Hp Hgps ltac:(lia) Hh) as (HW2 & _ & _).
  eapply wfr_mono; [apply IH; [exact HW2|exact Hf|exact Hgps|lia]|].
  intros [pos' s'] (? & ? & ? & ?). cbn [fst snd] in *. split; [done|]. split; [done|].
  split; [done|lia].
Qed.

Lemma dbubble_up_wfr (s : store) pos idx :
  WF (fill s pos idx) -> FI s -> pos < ssize s -> idx < ssize s ->
  wfr (fun x : nat * store => inv x.2 /\ ssize x.2 = ssize s) (dbubble_up ple s pos idx).
Proof.
  intros HW HF Hp Hi. destruct (WF_fill_facts _ _ _ HW) as (Lh & Lq & Lm).
  destruct (lookup_lt_is_Some_2 (smap s) idx ltac:(lia)) as [e He].
  unfold dbubble_up. rewrite He. cbn [unwrap]. stp. cbv zeta.
  eapply (wfr_bind (fun x : nat * store =>
            WF (fill x.2 x.1 idx) /\ FI x.2 /\ ssize x.2 = ssize s /\ x.1 <= pos)).
  2:{ intros [pos' s1] (HW1 & HF1 & Hsz1 & Hle). cbn [fst snd] in *.
      destruct (WF_fill_facts _ _ _ HW1) as (Lh' & Lq' & Lm').
      unfold setu. rewrite decide_True by lia. stp. rewrite decide_True by lia. stp.
      cbn [wfr fst snd]. split; [split; [exact HW1|exact HF1]|]. done. }
  destruct pos as [|k]; [cbn [wfr fst snd]; auto with lia|].
  cbn [parent]. stp. set (pa := k / 2). assert (pa < S k) as Hpa by apply half_lt.
  assert (pa < ssize s) as Hpas by lia.
  destruct (prio_at_wf (fill s (S k) idx) pa HW Hpas) as [pp Hpp].
  rewrite fill_prio_at in Hpp by lia. rewrite Hpp. stp.
  destruct (WF_heap_is_Some keq (fill s (S k) idx) pa HW Hpas) as [pidx Hpidx].
  destruct (fill_heap_lookup s (S k) idx pa pidx HW ltac:(lia) Hpas Hpidx) as (Hh & Hpi & Hpne).
  unfold getu. rewrite Hh. stp.
  unfold cmp_lt_hole.
  destruct (cmp_lt_cases s pp e.2 HF) as [(f & t & -> & Hf) | ->]; stp.
  2:{ cbn [wfr]. split; [exact HW|done]. }
  set (s1 := gh s f t).
  destruct (hole_move_ok keq s1 (S k) pa idx pidx HW Hp Hpas ltac:(lia) Hh) as (HW2 & _ & _).
  change (heap s1) with (heap s). change (qp s1) with (qp s).
  destruct (on_min_level (S k)), (plt ple pp e.2).
  1,4: (unfold setu; rewrite decide_True by lia; stp; rewrite decide_True by lia; stp;
        change (set_qp (set_heap s1 (<[S k:=pidx]> (heap s))) (<[pidx:=S k]> (qp s)))
          with (hole_move s1 (S k) pa pidx);
        eapply wfr_mono; [apply bubble_chain_wfr; [exact HW2|exact Hf|exact Hpas|lia]|];
        intros [pos' s'] (? & ? & ? & ?); cbn [fst snd] in *;
        split; [done|]; split; [done|]; split; [done|lia]).
  all: (eapply wfr_mono; [apply bubble_chain_wfr; [exact HW|exact Hf|exact Hp|lia]|];
        intros [pos' s'] (? & ? & ? & ?); cbn [fst snd] in *;
        split; [done|]; split; [done|]; split; [done|lia]).
Qed.

Lemma dup_heapify_wfr (s : store) i : inv s ->
  wfr (fun s' : store => inv s' /\ ssize s' = ssize s) (dup_heapify ple s i).
Proof.
  intros [HW HF]. unfold dup_heapify. destruct (heap s !! i) as [tmp|] eqn:Hh; [|by cbn [wfr] ].
  destruct (WF_heap_lt keq s i tmp HW Hh) as [Hi Ht].
  pose proof (WF_heap_qp keq s i tmp HW Hh) as Hq.
  eapply wfr_bind; [apply (dbubble_up_wfr s i tmp); [by rewrite fill_id|done..]|].
  intros [pos s1] (Hi1 & Hsz1). cbn [fst snd] in *.
  eapply (wfr_bind (fun s' : store => inv s' /\ ssize s' = ssize s)).
  - case_decide; [by cbn [wfr]|]. eapply wfr_mono; [by apply dheapify_wfr|].
    intros s2 [? ?]. split; [done|congruence].
  - intros s2 [Hi2 Hsz2]. eapply wfr_mono; [by apply dheapify_wfr|].
    intros s3 [? ?]. split; [done|congruence].
Qed.

Lemma dheap_build_loop_wfr n : forall s : store, inv s ->
  wfr (fun s' : store => inv s' /\ ssize s' = ssize s) (dheap_build_loop ple s n).
Proof.
  induction n as [|k IH]; intros s Hi; cbn [dheap_build_loop]; [by cbn [wfr]|].
  eapply wfr_bind; [apply (dheapify_wfr s k Hi)|]. intros s1 [Hi1 Hsz1].
  eapply wfr_mono; [by apply IH|]. intros s2 [? ?]. split; [done|congruence].
Qed.
Lemma dheap_build_wfr (s : store) : inv s ->
  wfr (fun s' : store => inv s' /\ ssize s' = ssize s) (dheap_build ple s).
Proof.
  intros Hi. unfold dheap_build. case_decide; [by cbn [wfr]|].
  destruct (ssize s) as [|k] eqn:Hsz; [done|]. cbn [parent]. stp. rewrite <- Hsz.
  by apply dheap_build_loop_wfr.
Qed.

Lemma find_max_wfr (s : store) : inv s ->
  wfr (fun x : option nat * store => inv x.2 /\ ssize x.2 = ssize s /\
         forall pos, x.1 = Some pos -> pos < ssize s) (find_max ple s).
Proof.
  intros [HW HF]. unfold find_max. destruct (ssize s) as [|[|[|n] ] ] eqn:Hsz.
  - cbn [wfr fst snd]. split; [by split|]. split; [done|]. intros ? [=].
  - cbn [wfr fst snd]. split; [by split|]. split; [done|]. intros ? [= <-]. lia.
  - cbn [wfr fst snd]. split; [by split|]. split; [done|]. intros ? [= <-]. lia.
  - destruct (prio_at_wf s 1 HW ltac:(lia)) as [p1 ->]. stp.
    destruct (prio_at_wf s 2 HW ltac:(lia)) as [p2 ->]. stp.
    destruct (cmp_lt_cases s p2 p1 HF) as [(f & t & -> & Hf) | ->]; stp; [|by apply inv_unw].
    cbn [wfr fst snd]. split; [by apply inv_gh|]. split; [done|].
    intros pos [= <-]. destruct (plt ple p2 p1); lia.
Qed.

Lemma peek_min_wf (s : store) : WF s -> exists e, peek_min s = Ok e.
Proof.
  intros HW. unfold peek_min, find_min. destruct (ssize s) eqn:Hs; [eauto|].
  apply slot_entry_wf; [done|lia].
Qed.
Lemma peek_max_wfr (s : store) : inv s ->
  wfr (fun x : option (I * P) * store => inv x.2) (peek_max ple s).
Proof.
  intros Hi. unfold peek_max. eapply wfr_bind; [by apply find_max_wfr|].
  intros [r s1] (Hi1 & Hsz1 & Hpos). cbn [fst snd] in *. destruct r as [pos|]; [|exact Hi1].
  destruct (slot_entry_wf s1 pos) as (e & ->); [apply Hi1|rewrite Hsz1; by apply Hpos|].
  stp. exact Hi1.
Qed.

Lemma entry_mut_wfr (s : store) pos u : item_ok keq u -> inv s -> pos < ssize s ->
  wfr (fun x : option (I * P) * store => inv x.2) (entry_mut s pos u).
Proof.
  intros Hu [HW HF] Hp. unfold entry_mut.
  destruct (WF_heap_lookup s pos HW Hp) as (i & e & Hh & _ & He & _).
  unfold getu. rewrite Hh. stp. rewrite He. cbn [wfr snd]. split; [|exact HF].
  apply (WF_set_entry s i e (u e.1, e.2)); [done..|apply Hu].
Qed.
Lemma peek_min_mut_wfr (s : store) u : item_ok keq u -> inv s ->
  wfr (fun x : option (I * P) * store => inv x.2) (peek_min_mut s u).
Proof.
  intros Hu Hi. unfold peek_min_mut, find_min. destruct (ssize s) eqn:Hs; [exact Hi|].
  apply entry_mut_wfr; [done|done|lia].
Qed.
Lemma peek_max_mut_wfr (s : store) u : item_ok keq u -> inv s ->
  wfr (fun x : option (I * P) * store => inv x.2) (peek_max_mut ple s u).
Proof.
  intros Hu Hi. unfold peek_max_mut. eapply wfr_bind; [by apply find_max_wfr|].
  intros [r s1] (Hi1 & Hsz1 & Hpos). cbn [fst snd] in *. destruct r as [pos|]; [|exact Hi1].
  apply entry_mut_wfr; [done|done|]. rewrite Hsz1. by apply Hpos.
Qed.

Lemma pop_at_wfr (s : store) pos : inv s -> pos < ssize s ->
  wfr (fun x : option (I * P) * store => inv x.2 /\ ssize x.2 < ssize s) (pop_at ple s pos).
Proof.
  intros Hi Hp. unfold pop_at.
  destruct (swap_remove_wfr s pos Hi Hp) as (e & s' & -> & Hi' & Hs'). stp.
  eapply wfr_bind; [by apply (dheapify_wfr s' pos)|]. intros s2 [Hi2 Hs2].
  cbn [wfr fst snd]. split; [done|lia].
Qed.
Lemma pop_min_wfr (s : store) : inv s ->
  wfr (fun x : option (I * P) * store => inv x.2 /\
         match x.1 with Some _ => ssize x.2 < ssize s | None => True end) (pop_min ple s).
Proof.
  intros Hi. unfold pop_min, find_min. destruct (ssize s) eqn:Hs; [by cbn [wfr]|].
  rewrite <- Hs. eapply wfr_mono; [apply pop_at_wfr; [done|lia]|].
  intros [r s1] [? ?]. cbn [fst snd] in *. split; [done|]. by destruct r.
Qed.
Lemma pop_max_wfr (s : store) : inv s ->
  wfr (fun x : option (I * P) * store => inv x.2 /\
         match x.1 with Some _ => ssize x.2 < ssize s | None => True end) (pop_max ple s).
Proof.
  intros Hi. unfold pop_max. eapply wfr_bind; [by apply find_max_wfr|].
  intros [r s1] (Hi1 & Hsz1 & Hpos). cbn [fst snd] in *. destruct r as [pos|]; [|by cbn [wfr] ].
  eapply wfr_mono; [apply (pop_at_wfr s1 pos Hi1); rewrite Hsz1; by apply Hpos|].
  intros [r s2] [? ?]. cbn [fst snd] in *. split; [done|]. destruct r; [lia|done].
Qed.

Lemma pop_min_if_wfr (s : store) f : pred_ok keq f -> inv s ->
  wfr (fun x : option (I * P) * store => inv x.2) (pop_min_if ple s f).
Proof.
  intros Hpf Hi. unfold pop_min_if, find_min. destruct (ssize s) eqn:Hs; [exact Hi|].
  eapply wfr_bind; [apply (swap_remove_if_wfr s 0 f Hpf Hi); lia|].
  intros [r s1] Hi1. cbn [snd] in Hi1.
  eapply wfr_bind; [by apply (dheapify_wfr s1 0)|]. intros s2 [Hi2 _]. exact Hi2.
Qed.
Lemma pop_max_if_wfr (s : store) f : pred_ok keq f -> inv s ->
  wfr (fun x : option (I * P) * store => inv x.2) (pop_max_if ple s f).
Proof.
  intros Hpf Hi. unfold pop_max_if. eapply wfr_bind; [by apply find_max_wfr|].
  intros [r s0] (Hi0 & Hsz0 & Hpos). cbn [fst snd] in *. destruct r as [pos|]; [|exact Hi0].
  eapply wfr_bind; [apply (swap_remove_if_wfr s0 pos f Hpf Hi0); rewrite Hsz0; by apply Hpos|].
  intros [r s1] Hi1. cbn [snd] in Hi1.
  eapply wfr_bind; [by apply (dup_heapify_wfr s1 pos)|]. intros s2 [Hi2 _]. exact Hi2.
Qed.

Lemma dpush_wfr (s : store) k p : inv s ->
  wfr (fun x : option P * store => inv x.2) (dpush keq hash ple s k p).
Proof.
  intros [HW HF]. unfold dpush. destruct (gio (smap s) k) as [i|] eqn:Hg.
  - destruct (gio_some _ _ _ Hg) as (e & He & _). rewrite He. cbn [unwrap]. stp. cbv zeta.
    destruct (WF_slot_qp s i HW (WF_smap_lt s i e HW He)) as (pos & Hq & Hpos).
    sf. unfold getu. rewrite Hq. stp.
    eapply wfr_bind; [apply (dup_heapify_wfr _ pos)|].
    + split; [|exact HF]. apply (WF_set_entry s i e (e.1, p)); [done..|apply keq_refl].
    + intros s2 [Hi2 _]. exact Hi2.
  - cbv zeta. sf.
    change (set_size _ _) with (push_entry s (k, p)).
    destruct (push_entry_inv s (k, p) (conj HW HF) Hg) as [HWp HFp].
    set (pe := push_entry s (k, p)) in *. set (n := ssize s).
    pose proof HW as (Lm & (Lh & Lq & _) & _).
    assert (Hhn : heap pe !! n = Some n) by (apply list_lookup_middle; done).
    assert (Hqn : qp pe !! n = Some n) by (apply list_lookup_middle; done).
    eapply wfr_bind; [apply (dbubble_up_wfr pe n n); [by rewrite fill_id|done|..]|].
    + change (ssize pe) with (S n). lia.
    + change (ssize pe) with (S n). lia.
    + intros [pos s3] (Hi3 & _). exact Hi3.
Qed.

Lemma dpush_dir_wfr (dir : bool) (s : store) k p : inv s ->
  wfr (fun x : option P * store => inv x.2)
      (if dir then dpush_increase keq hash ple s k p else dpush_decrease keq hash ple s k p).
Proof.
  intros [HW HF]. pose proof (dpush_wfr s k p (conj HW HF)) as Hp.
  destruct dir; unfold dpush_increase, dpush_decrease;
    (destruct (get_priority keq hash s k) as [old|]; [|exact Hp]).
  - destruct (cmp_lt_cases s old p HF) as [(f & t & -> & Hf) | ->]; stp; [|by apply inv_unw].
    destruct (plt ple old p); [apply dpush_wfr|]; by apply inv_gh.
  - destruct (cmp_lt_cases s p old HF) as [(f & t & -> & Hf) | ->]; stp; [|by apply inv_unw].
    destruct (plt ple p old); [apply dpush_wfr|]; by apply inv_gh.
Qed.

Lemma dpq_change_priority_wfr (s : store) k p : inv s ->
  wfr (fun x : option P * store => inv x.2) (dpq_change_priority keq hash ple s k p).
Proof.
  intros Hi. unfold dpq_change_priority.
  eapply wfr_bind; [by apply change_priority_wfr|]. intros [r s1] [Hi1 Hpos]. cbn [fst snd] in *.
  destruct r as [ [old pos]|]; [|exact Hi1].
  eapply wfr_bind; [apply (dup_heapify_wfr s1 pos Hi1)|]. intros s2 [Hi2 _]. exact Hi2.
Qed.
Lemma dpq_change_priority_by_wfr (s : store) k g : inv s ->
  wfr (fun x : bool * store => inv x.2) (dpq_change_priority_by keq hash ple s k g).
Proof.
  intros Hi. unfold dpq_change_priority_by.
  eapply wfr_bind; [by apply change_priority_by_wfr|]. intros [r s1] [Hi1 Hpos]. cbn [fst snd] in *.
  destruct r as [pos|]; [|exact Hi1].
  eapply wfr_bind; [apply (dup_heapify_wfr s1 pos Hi1)|]. intros s2 [Hi2 _]. exact Hi2.
Qed.
Lemma dpq_remove_wfr (s : store) k : inv s ->
  wfr (fun x : option (I * P) * store => inv x.2) (dpq_remove keq hash ple s k).
Proof.
  intros Hi. unfold dpq_remove.
  eapply wfr_bind; [by apply remove_wfr|]. intros [r s1] [Hi1 _]. cbn [fst snd] in *.
  destruct r as [ [ [i p] pos]|]; [|exact Hi1].
  case_decide; stp; [|exact Hi1].
  eapply wfr_bind; [by apply (dup_heapify_wfr s1 pos Hi1)|]. intros s2 [Hi2 _]. exact Hi2.
Qed.

Lemma dpop_all_wfr (mn : bool) fuel : forall (s : store) acc, inv s -> ssize s < fuel ->
  wfr (fun _ : list (I * P) * store => True) (dpop_all ple mn fuel s acc).
Proof.
  induction fuel as [|fuel IH]; intros s acc Hi Hlt; [lia|]. cbn [dpop_all].
  eapply wfr_bind; [destruct mn; [by apply pop_min_wfr|by apply pop_max_wfr]|].
  intros [r s1] [Hi1 Hsz]. cbn [fst snd] in *.
  destruct r as [e|]; [|done]. apply IH; [done|lia].
Qed.

Lemma dpush_all_wfr l : forall s : store, inv s -> wfr inv (dpush_all keq hash ple s l).
Proof.
  induction l as [|e l IH]; intros s [HW HF]; cbn [dpush_all];
    (destruct (cb_cases s HF) as [(f0 & -> & Hf0) | ->]; stp; [|by apply inv_unw]).
  - by apply inv_set_fuse.
  - eapply wfr_bind; [apply dpush_wfr; by apply inv_set_fuse|]. intros [r s2] Hi2. by apply IH.
Qed.


(** ** iterator scripts *)
Definition sout_ok (o : sout) : bool :=
  match o with SLen (Fault _) => false | _ => true end.
Lemma script_fault_snoc (acc : list sout) o :
  script_fault (acc ++ [o]) = script_fault acc || negb (sout_ok o).
Proof.
  unfold script_fault. rewrite existsb_app. cbn [existsb]. rewrite orb_false_r. f_equal.
  destruct o as [?|?|[?|?|?]|? ?]; reflexivity.
Qed.

Definition wfrU {A} (U : store -> Prop) (Q : A -> Prop) (r : R A) : Prop :=
  match r with Ok a => Q a | Unwound s' => U s' | Fault _ => False end.
Lemma ok_wfrU {A} U (Q : A -> Prop) (r : R A) : (exists a, r = Ok a /\ Q a) -> wfrU U Q r.
Proof. intros (a & -> & H). exact H. Qed.

Section GenIt.
Context {T : Type}.
Variable it : T -> istep -> option (R (T * sout)).
Variable Inv : T -> Prop.
Variable U : store -> Prop.
Variable okx : istep -> bool.
Variable a : adaptor.
Hypothesis Hstep : forall left t x r, Inv t -> okx x = true -> ad_step it a left t x = Some r ->
  wfrU U (fun y : T * nat * sout => Inv y.1.1 /\ sout_ok y.2 = true) r.

Lemma it_run_gen script : forall left t acc r,
  Inv t -> forallb okx script = true -> script_fault acc = false ->
  it_run it a left t script acc = Some r ->
  wfrU U (fun y : T * list sout => Inv y.1 /\ script_fault y.2 = false) r.
Proof.
  induction script as [|x script IH]; intros left t acc r Hi Hok Hacc Hr; cbn [it_run] in Hr.
  - injection Hr as <-. by cbn [wfrU fst snd].
  - cbn [forallb] in Hok. apply andb_true_iff in Hok as [Hx Hok].
    destruct (ad_step it a left t x) as [r0|] eqn:Ha; [|done].
    pose proof (Hstep _ _ _ _ Hi Hx Ha) as H0.
    destruct r0 as [ [ [t' left'] o]|u|f]; cbn [wfrU fst snd] in H0.
    + destruct H0 as [Hi' Ho'].
      apply (IH left' t' (acc ++ [o]) r); try done. by rewrite script_fault_snoc, Hacc, Ho'.
    + injection Hr as <-. exact H0.
    + done.
Qed.

Lemma finish_gen script e t x :
  Inv t -> forallb okx script = true ->
  (forall la t' l, e = ELen la -> a = ADirect -> Inv t' ->
     adaptor_len it la t' = Some l -> exists n, l = Ok (Ok n)) ->
  finish_script it a t script e = Some x ->
  wfrU U (fun y : T * list sout => Inv y.1 /\ script_fault y.2 = false /\
         exists outs0, it_run it a (match a with ATake n => n | _ => 0 end) t script []
                         = Some (Ok (y.1, outs0))) x.
Proof.
  intros Hi Hok Hlen. unfold finish_script.
  destruct (it_run it a _ t script []) as [r|] eqn:Hrun; cbn [mbind option_bind]; [|done].
  pose proof (it_run_gen script _ t [] r Hi Hok eq_refl Hrun) as H0.
  destruct r as [ [t' outs]|u|f]; cbn [wfrU fst snd] in H0.
  - destruct H0 as [Hi' Hsf]. destruct e as [| |la].
    + intros [= <-]. cbn [wfrU fst snd]. eauto.
    + intros [= <-]. cbn [wfrU fst snd]. eauto.
    + destruct a; try done.
      destruct (adaptor_len it la t') as [l|] eqn:Hl; cbn [mbind option_bind]; [|done].
      destruct (Hlen la t' l eq_refl eq_refl Hi' Hl) as (n & ->).
      intros [= <-]. stp. cbn [wfrU fst snd]. split; [done|]. split; [|eauto].
      by rewrite script_fault_snoc, Hsf.
  - intros [= <-]. exact H0.
  - done.
Qed.
End GenIt.

Lemma dq_ad_step a left (l : list (I * P)) x r :
  ad_step dq_it a left l x = Some r ->
  exists y : list (I * P) * nat * sout, r = Ok y /\ (True /\ sout_ok y.2 = true).
Proof.
  unfold ad_step, inner_hint, dq_it.
  destruct a, x; cbn [mbind option_bind]; intros H; simplify_eq.
  all: try (destruct left; simplify_eq).
  all: cbn [mbind res_bind rbind dq_step]; rewrite ?exact_len_take.
  all: repeat case_match; simplify_eq; eauto 10.
Qed.

Lemma forallb_const_true {A} (l : list A) : forallb (fun _ => true) l = true.
Proof. induction l; [done|]. cbn [forallb]. by rewrite IHl. Qed.

Lemma dq_adaptor_len_ok la (l : list (I * P)) r :
  adaptor_len dq_it la l = Some r -> exists n, r = Ok (Ok n).
Proof.
  unfold adaptor_len, inner_hint, dq_it.
  destruct la; cbn [mbind option_bind]; intros [= <-]; cbn [mbind res_bind rbind dq_step];
    rewrite ?exact_len_take, ?exact_len_zip, ?exact_len_skip, ?exact_len_same; eauto.
Qed.

Lemma dq_finish a (l : list (I * P)) script e t outs :
  finish_script dq_it a l script e = Some (Ok (t, outs)) -> script_fault outs = false.
Proof.
  intros H.
  pose proof (finish_gen dq_it (fun _ => True) (fun _ => False) (fun _ => true) a
              (fun left t x r _ _ H => ok_wfrU _ _ _ (dq_ad_step a left t x r H)) script e l _ Logic.I
              (forallb_const_true _)
              (fun la t' l' _ _ _ H => dq_adaptor_len_ok la t' l' H) H) as H0.
  cbn [wfrU fst snd] in H0. tauto.
Qed.

Definition dees (k : kind) : bool := match k with KPQ => false | KDPQ => true end.

Lemma im_ad_step k a left (t : store * imstate) x r :
  step_offered (dees k) (dees k) a x = true ->
  ad_step (im_it k) a left t x = Some r ->
  exists y : store * imstate * nat * sout, r = Ok y /\ (True /\ sout_ok y.2 = true).
Proof.
  unfold ad_step, inner_hint, im_it, im_step. intros Hoff.
  destruct k, a, x; try discriminate Hoff; cbn [mbind option_bind]; intros H.
  all: try destruct left.
  all: repeat (cbn [mbind option_bind res_bind rbind fst snd] in H; try case_match; simplify_eq).
  all: rewrite ?exact_len_take; eauto 10.
Qed.

Lemma im_adaptor_len la (t : store * imstate) r :
  adaptor_len (im_it KDPQ) la t = Some r -> exists n, r = Ok (Ok n).
Proof.
  unfold adaptor_len, inner_hint, im_it, im_step.
  destruct la; cbn [mbind option_bind]; intros [= <-]; cbn [mbind res_bind rbind];
    rewrite ?exact_len_take, ?exact_len_zip, ?exact_len_skip, ?exact_len_same; eauto.
Qed.

Lemma script_offered_parts de es a (script : list istep) e :
  script_offered de es a script e = true ->
  forallb (step_offered de es a) script = true /\
  (forall la, e = ELen la -> a = ADirect -> es = true).
Proof.
  unfold script_offered. intros H. apply andb_true_iff in H as [H H2].
  apply andb_true_iff in H as [_ H]. split; [done|].
  intros la -> ->. by apply andb_true_iff in H2 as [H2 _].
Qed.

Lemma im_finish k a (s : store) script e x :
  script_offered (dees k) (dees k) a script e = true ->
  finish_script (im_it k) a (s, im_new s) script e = Some x ->
  exists s' st' outs outs0, x = Ok ((s', st'), outs) /\ script_fault outs = false /\
    it_run (im_it k) a (match a with ATake n => n | _ => 0 end) (s, im_new s) script []
      = Some (Ok ((s', st'), outs0)).
Proof.
  intros Hoff H. apply script_offered_parts in Hoff as [Hall Hlen].
  assert (forall la (t' : store * imstate) l, e = ELen la -> a = ADirect -> True ->
            adaptor_len (im_it k) la t' = Some l -> exists n, l = Ok (Ok n)) as Hal.
  { intros la t' l -> -> _ Hl. specialize (Hlen la eq_refl eq_refl). destruct k; [done|].
    by apply im_adaptor_len in Hl. }
  pose proof (finish_gen (im_it k) (fun _ => True) (fun _ => False)
              (step_offered (dees k) (dees k) a) a
              (fun left t x r _ Hx H => ok_wfrU _ _ _ (im_ad_step k a left t x r Hx H)) script e
              (s, im_new s) x Logic.I Hall Hal H) as H0.
  destruct x as [ [ [s' st'] outs]|u|f]; cbn [wfrU fst snd] in H0; [|done..].
  destruct H0 as (_ & Hsf & outs0 & Hrun). eauto 10.
Qed.

Lemma sorted_ad_step k a left (s : store) x r :
  inv s -> step_offered (dees k) (dees k) a x = true ->
  ad_step (sorted_it ple k) a left s x = Some r ->
  wfrU inv (fun y : store * nat * sout => inv y.1.1 /\ sout_ok y.2 = true) r.
Proof.
  intros Hinv Hoff. change (wfrU inv) with (@wfr (store * nat * sout)).
  unfold ad_step, inner_hint, sorted_it.
  destruct k, a, x; try discriminate Hoff; cbn [mbind option_bind]; intros H.
  all: try destruct left.
  all: simplify_eq; stp; rewrite ?exact_len_take; try (cbn [wfr fst snd]; by split).
  all: (eapply (wfr_bind (fun y : store * sout => inv y.1 /\ sout_ok y.2 = true));
        [eapply wfr_bind;
          [first [by apply pop_wfr|by apply pop_min_wfr|by apply pop_max_wfr]|];
         let r0 := fresh in let s' := fresh in let H0 := fresh in
         intros [r0 s'] [H0 _]; cbn [wfr fst snd]; split; [exact H0|done]
        |let s' := fresh in let o := fresh in
         intros [s' o] [? ?]; cbn [wfr fst snd]; by split]).
Qed.

Lemma sorted_adaptor_len_ok la (s : store) r :
  adaptor_len (sorted_it ple KDPQ) la s = Some r -> exists n, r = Ok (Ok n).
Proof.
  unfold adaptor_len, inner_hint, sorted_it.
  destruct la; cbn [mbind option_bind]; intros [= <-]; cbn [mbind res_bind rbind];
    rewrite ?exact_len_take, ?exact_len_zip, ?exact_len_skip, ?exact_len_same; eauto.
Qed.

Lemma sorted_finish k a (s : store) script e x :
  inv s -> script_offered (dees k) (dees k) a script e = true ->
  finish_script (sorted_it ple k) a s script e = Some x ->
  wfr (fun y : store * list sout => script_fault y.2 = false) x.
Proof.
  intros Hinv Hoff H. apply script_offered_parts in Hoff as [Hall Hlen].
  assert (forall la (t' : store) l, e = ELen la -> a = ADirect -> inv t' ->
            adaptor_len (sorted_it ple k) la t' = Some l -> exists n, l = Ok (Ok n)) as Hal.
  { intros la t' l -> -> _ Hl. specialize (Hlen la eq_refl eq_refl). destruct k; [done|].
    by apply sorted_adaptor_len_ok in Hl. }
  pose proof (finish_gen (sorted_it ple k) inv inv
              (step_offered (dees k) (dees k) a) a
              (fun left t x r Hi Hx H => sorted_ad_step k a left t x r Hi Hx H)
              script e s x Hinv Hall Hal H) as H0.
  destruct x as [ [s' outs]|u|f]; cbn [wfrU wfr fst snd] in *; tauto.
Qed.

(** ** the machine *)
Notation stp1 := (step1 keq hash ple peq alloc_limit).
Notation bld := (build ple).

Definition minv (m : machine) : Prop := forall r k s, getreg m r = Some (k, s) -> inv s.
Definition post (r : machine * out) : Prop := minv r.1 /\ is_fault r.2 = false.

Lemma getreg_insert (m : machine) r x r' ks :
  getreg (<[r := x]> m) r' = Some ks ->
  (r' = r /\ x = Some ks) \/ getreg m r' = Some ks.
Proof.
  unfold getreg, setreg, Machine.machine in *. destruct (decide (r' = r)) as [-> | Hne].
  - destruct (decide (r < length m)).
    + rewrite list_lookup_insert by done. cbn. auto.
    + rewrite list_insert_ge by lia. auto.
  - rewrite list_lookup_insert_ne by done. auto.
Qed.
Lemma minv_insert (m : machine) r x :
  minv m -> (forall k s, x = Some (k, s) -> inv s) -> minv (<[r := x]> m).
Proof.
  intros Hm Hx r' k s H. apply getreg_insert in H as [ [_ H] | H]; [by eapply Hx | by apply (Hm r' k)].
Qed.
Lemma minv_setreg (m : machine) r k s : minv m -> inv s -> minv (setreg m r k s).
Proof. intros Hm Hs. apply minv_insert; [done|]. by intros ? ? [= <- <-]. Qed.

Lemma post_same (m : machine) (x : out) : minv m -> is_fault x = false -> post (m, x).
Proof. by split. Qed.
Lemma post_set (m : machine) r k s (x : out) :
  minv m -> inv s -> is_fault x = false -> post (setreg m r k s, x).
Proof. intros. split; [by apply minv_setreg|done]. Qed.
Lemma post_fin (m : machine) r k (x : R (out * store)) :
  minv m -> wfr (fun y : out * store => inv y.2 /\ is_fault y.1 = false) x ->
  post (Machine.fin m r k x).
Proof.
  intros Hm Hx. destruct x as [ [o s]|u|f]; cbn [wfr fst snd Machine.fin] in *; [|by apply post_set|done].
  destruct Hx. by apply post_set.
Qed.
Lemma post_new (m : machine) r k (x : R store) : minv m -> wfr inv x -> post (fin_new m r k x).
Proof.
  intros Hm Hx. destruct x as [s|u|f]; cbn [wfr fin_new] in *; [by apply post_set|by apply post_same|done].
Qed.

Lemma optE_wfr (x : R (option (I * P) * store)) :
  wfr (fun y : option (I * P) * store => inv y.2) x ->
  wfr (fun y : out * store => inv y.2 /\ is_fault y.1 = false) (optE x).
Proof. intros H. unfold optE. eapply wfr_bind; [exact H|]. intros [r s] Hi. by cbn [wfr fst snd]. Qed.
Lemma optP_wfr (x : R (option P * store)) :
  wfr (fun y : option P * store => inv y.2) x ->
  wfr (fun y : out * store => inv y.2 /\ is_fault y.1 = false) (optP x).
Proof. intros H. unfold optP. eapply wfr_bind; [exact H|]. intros [r s] Hi. by cbn [wfr fst snd]. Qed.
Lemma unitS_wfr (x : R store) :
  wfr inv x -> wfr (fun y : out * store => inv y.2 /\ is_fault y.1 = false) (unitS x).
Proof. intros H. unfold unitS. eapply wfr_bind; [exact H|]. intros s Hi. by cbn [wfr fst snd]. Qed.

Lemma build_wfr k (s : store) : inv s -> wfr inv (bld k s).
Proof.
  intros Hi. destruct k; cbn [build];
    (eapply wfr_mono; [first [by apply heap_build_wfr|by apply dheap_build_wfr]|]); by intros ? [? _].
Qed.

Lemma inv_set_ticks (s : store) t : inv s -> inv (set_ticks s t).
Proof. intros H; exact H. Qed.
Lemma inv_set_cap (s : store) c : inv s -> inv (set_cap s c).
Proof. intros H; exact H. Qed.

Lemma clone_cbs_wfr n : forall s : store, inv s -> wfr (fun _ : store => True) (clone_cbs s n).
Proof.
  induction n as [|n IH]; intros s [HW HF]; cbn [clone_cbs]; [done|].
  destruct (cb_cases s HF) as [(f0 & -> & Hf0) | ->]; stp; [|by apply inv_unw].
  destruct (cb_cases (set_fuse s f0) Hf0) as [(f1 & -> & Hf1) | ->]; stp; [|by apply inv_unw].
  apply IH. split; [exact HW|exact Hf1].
Qed.

Lemma clone_cbs_wfr_inv n : forall s : store, inv s -> wfr (fun s' : store => inv s') (clone_cbs s n).
Proof.
  induction n as [|n IH]; intros s [HW HF]; cbn [clone_cbs]; [by split|].
  destruct (cb_cases s HF) as [(f0 & -> & Hf0) | ->]; stp; [|by apply inv_unw].
  destruct (cb_cases (set_fuse s f0) Hf0) as [(f1 & -> & Hf1) | ->]; stp; [|by apply inv_unw].
  apply IH. split; [exact HW|exact Hf1].
Qed.

Lemma step1_main fz (m : machine) (o : op) :
  (q = true -> fz = None) -> minv m -> closures_ok keq o -> limits_ok alloc_limit m o ->
  post (stp1 fz m o).
Proof.
  intros Hfz Hm Hcl Hlim.
  destruct o as [k r|k r c|k r l|k r l h|r i p|r i p|r i p|r i p|r i g|r i|r sd|r sd u|r sd
                |r sd f|r i|r i|r i u|r|r|r f|r a script e|r a script e|r a script e
                |r a script e|r a script e|r|r sd|r|r l h|dst src|r|src dst|src dst|ra rb|src k dst
                |k r l|r n|r n|r|r|r|n o];
    try destruct sd;
    cbn [Machine.step1 closures_ok limits_ok] in *.
  all: try (destruct (getreg m r) as [ [k s]|] eqn:Hr; [|by apply post_same];
            pose proof (Hm r _ _ Hr) as Hinv).
  - (* ONew *) apply post_set; [done|apply inv_empty|done].
  - (* OWithCap *) unfold with_capacity. rewrite decide_True by done.
    apply post_new; [done|]. apply inv_empty.
  - (* OFromVec *) apply post_new; [done|]. apply build_wfr.
    apply inv_set_fuse; [apply from_vec_WF|done].
  - (* OFromIter *) apply post_new; [done|]. unfold from_iter, with_capacity.
    rewrite decide_True by done. stp.
    eapply wfr_bind; [apply extend_entries_wfr; apply inv_set_fuse; [apply WF_empty_store|done]|].
    intros s Hi. by apply build_wfr.
  - (* OPush *) destruct k; apply post_fin; try done; apply optP_wfr; [by apply push_wfr|by apply dpush_wfr].
  - (* OPushInc *) destruct k; apply post_fin; try done; apply optP_wfr;
      [by apply (push_dir_wfr true)|by apply (dpush_dir_wfr true)].
  - (* OPushDec *) destruct k; apply post_fin; try done; apply optP_wfr;
      [by apply (push_dir_wfr false)|by apply (dpush_dir_wfr false)].
  - (* OChange *) destruct k; apply post_fin; try done; apply optP_wfr;
      [by apply pq_change_priority_wfr|by apply dpq_change_priority_wfr].
  - (* OChangeBy *) apply post_fin; [done|].
    eapply wfr_bind; [destruct k; [by apply pq_change_priority_by_wfr|by apply dpq_change_priority_by_wfr]|].
    intros [b s'] Hi. by cbn [wfr fst snd].
  - (* ORemove *) destruct k; apply post_fin; try done; apply optE_wfr;
      [by apply pq_remove_wfr|by apply dpq_remove_wfr].
  - (* OPeek SMin *) destruct k; [by apply post_same|]. apply post_fin; [done|].
    destruct (peek_min_wf s (proj1 Hinv)) as [e ->]. stp. by cbn [wfr fst snd].
  - (* OPeek SMax *) destruct k; [by apply post_same|]. apply post_fin; [done|].
    apply optE_wfr. by apply peek_max_wfr.
  - (* OPeekMut SMin *) destruct k; [by apply post_same|]. apply post_fin; [done|].
    apply optE_wfr. by apply peek_min_mut_wfr.
  - (* OPeekMut SMax *) destruct k; apply post_fin; try done; apply optE_wfr;
      [by apply peek_mut_wfr|by apply peek_max_mut_wfr].
  - (* OPop SMin *) destruct k; [by apply post_same|]. apply post_fin; [done|].
    apply optE_wfr. eapply wfr_mono; [by apply pop_min_wfr|]. by intros [? ?] [? _].
  - (* OPop SMax *) destruct k; apply post_fin; try done; apply optE_wfr;
      (eapply wfr_mono; [first [by apply pop_wfr|by apply pop_max_wfr]|]); by intros [? ?] [? _].
  - (* OPopIf SMin *) destruct k; [by apply post_same|]. apply post_fin; [done|].
    apply optE_wfr. by apply pop_min_if_wfr.
  - (* OPopIf SMax *) destruct k; apply post_fin; try done; apply optE_wfr;
      [by apply pop_if_wfr|by apply pop_max_if_wfr].
  - (* OGet *) by apply post_same.
  - (* OGetPrio *) by apply post_same.
  - (* OGetMut *) pose proof (get_mut_inv s i u Hcl Hinv) as Hi.
    destruct (get_mut keq hash s i u) as [e s']. cbn [snd] in *. by apply post_set.
  - (* OLen *) by apply post_same.
  - (* OIsEmpty *) by apply post_same.
  - (* ORetain *) apply post_fin; [done|]. apply unitS_wfr.
    eapply wfr_bind; [by apply retain_mut_wfr|]. intros s1 Hi1. by apply build_wfr.
  - (* OIterMut *) change (match k with KPQ => false | KDPQ => true end) with (dees k).
    destruct (script_offered (dees k) (dees k) a script e) eqn:Hoff; cbn [negb];
      [|by apply post_same].
    destruct (finish_script (im_it k) a (s, im_new s) script e) as [x|] eqn:Hfs;
      [|by apply post_same].
    destruct (im_finish k a s script e x Hoff Hfs) as (s' & st' & outs & outs0 & -> & Hsf & Hrun).
    destruct (itermut_ok _ _ _ _ _ _ _ _ Hrun) as (_ & _ & _ & _ & _ & _ & _ & _ & Hfu & _).
    destruct Hinv as [HW HF].
    pose proof (itermut_wf keq hash Hk _ _ _ _ _ _ _ _ HW Hcl Hrun) as HW'.
    assert (inv s') as Hinv' by (split; [exact HW'|]; intros Hq; rewrite Hfu; by apply HF).
    apply post_fin; [done|]. stp. cbn [fst]. rewrite Hsf.
    destruct e as [| |la]; try by cbn [wfr fst snd].
    all: (eapply wfr_bind; [by apply build_wfr|]; intros s2 Hi2; by cbn [wfr fst snd]).
  - (* OIter *) destruct (negb _); [by apply post_same|].
    destruct (finish_script dq_it a (smap s) script e) as [ [ [t outs]| |]|] eqn:Hfs;
      try by apply post_same.
    rewrite (dq_finish _ _ _ _ _ _ Hfs). by apply post_same.
  - (* OIntoIter *) destruct (negb _); [by apply post_same|].
    destruct (finish_script dq_it a (smap s) script e) as [ [ [t outs]| |]|] eqn:Hfs;
      try by apply post_same.
    rewrite (dq_finish _ _ _ _ _ _ Hfs). by apply post_same.
  - (* ODrain *) destruct (negb _); [by apply post_same|]. cbn [drain].
    destruct (finish_script dq_it a (smap s) script e) as [ [ [t outs]| |]|] eqn:Hfs;
      try by apply post_same.
    rewrite (dq_finish _ _ _ _ _ _ Hfs).
    apply post_set; [done|apply inv_clear, Hinv|done].
  - (* OIntoSortedIter *) change (match k with KPQ => false | KDPQ => true end) with (dees k).
    destruct (script_offered (dees k) (dees k) a script e) eqn:Hoff; cbn [negb];
      [|by apply post_same].
    destruct (finish_script (sorted_it ple k) a s script e) as [x|] eqn:Hfs;
      [|by apply post_same].
    pose proof (sorted_finish k a s script e x Hinv Hoff Hfs) as H0.
    destruct x as [ [t outs]|u|f]; cbn [wfr fst snd] in H0; [|by apply post_same|done].
    rewrite H0. apply post_set; [done|by apply inv_set_ticks|done].
  - (* OClear *)
    pose proof (clone_cbs_wfr_inv (length (smap s)) (clear s) (inv_clear s (proj2 Hinv))) as H0.
    destruct (clone_cbs (clear s) (length (smap s))) as [s'|u|f]; cbn [wfr] in H0;
      [by apply post_set|by apply post_set|done].
  - (* OIntoSortedVec SMin *) destruct k; [by apply post_same|].
    pose proof (dpop_all_wfr true _ s [] Hinv (Nat.lt_succ_diag_r _)) as H0.
    unfold into_sorted_vec_dir.
    destruct (dpop_all ple true (S (ssize s)) s []) as [ [l t]|u|f]; cbn [wfr] in H0;
      [|by apply post_same|done].
    apply post_set; [done|by apply inv_set_ticks|done].
  - (* OIntoSortedVec SMax *) destruct k.
    + pose proof (pop_all_wfr _ s [] Hinv (Nat.lt_succ_diag_r _)) as H0.
      unfold into_sorted_vec.
      destruct (pop_all ple (S (ssize s)) s []) as [ [l t]|u|f]; cbn [wfr] in H0;
        [|by apply post_same|done].
      apply post_set; [done|by apply inv_set_ticks|done].
    + pose proof (dpop_all_wfr false _ s [] Hinv (Nat.lt_succ_diag_r _)) as H0.
      unfold into_sorted_vec_dir.
      destruct (dpop_all ple false (S (ssize s)) s []) as [ [l t]|u|f]; cbn [wfr] in H0;
        [|by apply post_same|done].
      apply post_set; [done|by apply inv_set_ticks|done].
  - (* OIntoVec *) by apply post_same.
  - (* OExtend *) destruct k; apply post_fin; try done; apply unitS_wfr.
    + apply extend_with_wfr; [intros; eapply wfr_mono; [by apply heap_build_wfr|by intros ? [? _] ]
                             |intros; by apply push_all_wfr|exact (Hlim _ eq_refl)|done].
    + apply extend_with_wfr; [intros; eapply wfr_mono; [by apply dheap_build_wfr|by intros ? [? _] ]
                             |intros; by apply dpush_all_wfr|exact (Hlim _ eq_refl)|done].
  - (* OAppend *) destruct (decide (dst = src)) as [-> | Hne]; [by apply post_same|].
    destruct (getreg m dst) as [ [k s]|] eqn:Hd; [|by apply post_same].
    destruct (getreg m src) as [ [k' o]|] eqn:Hs; [|by apply post_same].
    destruct (decide (k = k')) as [<- |]; [|by apply post_same].
    destruct (append_inv s o (Hm _ _ _ Hd) (Hm _ _ _ Hs)) as [H1 H2].
    destruct (append keq hash s o) as [s1 o1]. cbn [fst snd] in *.
    apply post_fin; [by apply minv_setreg|]. apply unitS_wfr. by apply build_wfr.
  - (* OConvert *) set (k' := match k with KPQ => KDPQ | KDPQ => KPQ end).
    pose proof (build_wfr k' s Hinv) as H0.
    destruct (bld k' s) as [s'|u|f]; cbn [wfr] in H0; [by apply post_set| |done].
    split; [|done]. cbn [fst]. apply minv_insert; [done|]. intros ? ? [=].
  - (* OClone *) destruct (getreg m src) as [ [k s]|] eqn:Hr; [|by apply post_same].
    pose proof (clone_cbs_wfr (length (smap s)) s (Hm src k s Hr)) as H0.
    destruct (clone_cbs s (length (smap s))) as [s'|u|f]; cbn [wfr] in H0;
      [|by apply post_same|done].
    apply post_set; [done|apply inv_set_ticks; by apply (Hm src k)|done].
  - (* OCloneFrom *) destruct (decide (src = dst)); [by apply post_same|].
    destruct (getreg m src) as [ [k s]|] eqn:Hr; [|by apply post_same].
    destruct (getreg m dst) as [ [k' s0]|] eqn:Hd; [|by apply post_same].
    destruct (decide (k = k')); [|by apply post_same].
    pose proof (clone_cbs_wfr (length (smap s)) s (Hm src k s Hr)) as H0.
    destruct (clone_cbs s (length (smap s))) as [s'|u|f]; cbn [wfr] in H0;
      [|by apply post_same|done].
    apply post_set; [done|apply inv_set_ticks; by apply (Hm src k)|done].
  - (* OEq *) destruct (getreg m ra) as [ [k s]|]; [|by apply post_same].
    destruct (getreg m rb) as [ [k' s']|]; [|by apply post_same].
    destruct (decide (k = k')); by apply post_same.
  - (* OSerDe *) destruct (getreg m src) as [ [k0 s]|] eqn:Hr; [|by apply post_same].
    apply post_new; [done|]. apply build_wfr. apply inv_set_fuse; [apply visit_seq_WF|done].
  - (* ODeser *) apply post_new; [done|]. apply build_wfr.
    apply inv_set_fuse; [apply visit_seq_WF|done].
  - (* OReserve *) unfold reserve. rewrite decide_True by exact (Hlim _ eq_refl).
    apply post_fin; [done|]. by cbn [wfr fst snd unitS mbind res_bind rbind].
  - (* OTryReserve *) unfold try_reserve. destruct (decide _); by apply post_set.
  - (* OShrink *) by apply post_set.
  - (* OCapacity *) by apply post_same.
  - (* ODebug *) destruct (forallb _ _) eqn:Hfa; [by apply post_same|].
    exfalso. apply not_true_iff_false in Hfa. apply Hfa. apply forallb_forall.
    intros i Hi. apply bool_decide_eq_true.
    apply elem_of_list_In, elem_of_list_lookup in Hi as [p Hp].
    destruct Hinv as ((Hm' & (Hh & Hq & H1 & H2) & _) & _).
    pose proof (H1 _ _ Hp) as Hqi. apply lookup_lt_Some in Hqi. lia.
  - (* OFuse *) by apply post_same.
Qed.

End Q.

(** ** from [step1] to [step] *)
Notation stp1 := (step1 keq hash ple peq alloc_limit).
Notation stp := (step keq hash ple peq alloc_limit).

Definition mapm (g : store -> store) (m : machine) : machine :=
  (fun x : option (kind * store) => (fun ks : kind * store => (ks.1, g ks.2)) <$> x) <$> m.
Lemma getreg_mapm g (m : machine) r :
  getreg (mapm g m) r = (fun ks : kind * store => (ks.1, g ks.2)) <$> getreg m r.
Proof.
  unfold getreg, mapm, Machine.machine in *. rewrite list_lookup_fmap.
  destruct (m !! r) as [ [ks|]|]; reflexivity.
Qed.
Lemma minv_mapm q q' g (m : machine) :
  (forall s, inv q s -> inv q' (g s)) -> minv q m -> minv q' (mapm g m).
Proof.
  intros Hg Hm r k s. rewrite getreg_mapm. destruct (getreg m r) as [ [k0 s0]|] eqn:Hr; [|done].
  intros [= <- <-]. apply Hg. by apply (Hm r k0).
Qed.
Lemma limits_mapm g (m : machine) (o : op) :
  (forall s, smap (g s) = smap s) -> limits_ok alloc_limit m o -> limits_ok alloc_limit (mapm g m) o.
Proof.
  intros Hg H. destruct o; try done; cbn [limits_ok] in *; intros ks; rewrite getreg_mapm;
    (destruct (getreg m r) as [ks0|] eqn:Hr; [|done]); intros [= <-]; cbn [snd]; rewrite Hg;
    by apply H.
Qed.

Lemma safe_minv (m : machine) : safe keq ple m <-> minv true m.
Proof.
  unfold safe, minv, reg_inv, pq_inv, dpq_inv, inv, FI. split.
  - intros H r k s Hr. specialize (H r (k, s) Hr). cbn [fst snd] in H. destruct k; tauto.
  - intros H r [k s] Hr. specialize (H r k s Hr). cbn [fst snd]. destruct k; (split; [tauto|]);
      (split; [tauto|done]).
Qed.

Lemma step_nofuse (m : machine) (o : op) : no_fuse o -> stp m o = stp1 None (reset_ticks m) o.
Proof. destruct o; try reflexivity. intros []. Qed.

Theorem step_unwind_safe : step_unwind_safe_stmt keq hash ple peq alloc_limit.
Proof.
  intros Hk Ho m o Hs [Hcl Hlim]. apply safe_minv in Hs.
  assert (forall o', no_fuse o' -> closures_ok keq o' -> limits_ok alloc_limit m o' ->
            safe keq ple (stp m o').1 /\ is_fault (stp m o').2 = false) as Hnf.
  { intros o' Hn Hc Hl. rewrite step_nofuse by done.
    destruct (step1_main true Hk None (reset_ticks m) o') as [H1 H2]; [done| |done| |].
    - apply (minv_mapm true true (fun s => set_ticks s 0)); [|done]. by intros s.
    - by apply (limits_mapm (fun s => set_ticks s 0)).
    - split; [by apply safe_minv|done]. }
  destruct o; try (by apply Hnf).
  cbn [strip_fuse closures_ok] in *. cbn [Machine.step].
  destruct (step1_main false Hk (Some n) (arm n (reset_ticks m)) o) as [H1 H2]; [done| |done| |].
  - apply (minv_mapm false false (fun s => set_fuse s (Some n))); [by intros s [? ?]|].
    apply (minv_mapm true false (fun s => set_ticks s 0)); [|done]. by intros s [? ?].
  - apply (limits_mapm (fun s => set_fuse s (Some n))); [done|].
    by apply (limits_mapm (fun s => set_ticks s 0)).
  - destruct (stp1 (Some n) (arm n (reset_ticks m)) o) as [m1 x]. cbn [fst snd] in *.
    split; [|done]. apply safe_minv.
    apply (minv_mapm false true (fun s => set_fuse s None)); [|done]. intros s [HW _]. by split.
Qed.

Theorem run_unwind_safe : run_unwind_safe_stmt keq hash ple peq alloc_limit.
Proof.
  intros Hk Ho h. induction h as [|o h IH]; intros m Hs Ha; cbn [run]; [constructor|].
  cbn [adm_fuse_hist] in Ha. destruct Ha as [Ha Hh].
  destruct (step_unwind_safe Hk Ho m o Hs Ha) as [H1 H2].
  destruct (stp m o) as [m' x] eqn:Hst. cbn [fst snd] in *.
  constructor; [done|]. rewrite H2. by apply IH.
Qed.

End Unwind.

Print Assumptions step_unwind_safe.
Print Assumptions run_unwind_safe.
