(** * DPQ: the model of src/double_priority_queue/mod.rs (min-max heap) *)
From PQV Require Export PQ.

Section DPQ.
Context {I P : Type}.
Variable keq : I -> I -> bool.
Variable hash : I -> N.
Variable ple : P -> P -> bool.
Variable alloc_limit : N.

Notation store := (store I P).
Notation R := (res store).
Notation cmp_lt := (cmp_lt ple).

(** level (mod.rs:1189): floor(log2(i+1)) *)
Definition level (i : nat) : nat := Nat.log2 (i + 1).
Definition on_min_level (i : nat) : bool := Nat.even (level i).

(** the existing positions among children and grandchildren of [i], in the
    order of the array literal, cut at the first absent one ([map_while]) *)
Fixpoint take_present (s : store) (l : list nat) : list nat :=
  match l with
  | [] => []
  | p :: l' => match heap s !! p with
               | Some _ => p :: take_present s l'
               | None => []
               end
  end.
Definition candidates (s : store) (i : nat) : list nat :=
  let l := left i in let r := right i in
  take_present s [l; r; left l; right l; left r; right r].

(** [Iterator::min_by_key]: the first minimum; one [cmp] per further element.
    [cur] is the best so far with its key [curp]. *)
Fixpoint pick_min_from (s : store) (cur : nat) (curp : P) (l : list nat)
  : R (nat * store) :=
  match l with
  | [] => Ok (cur, s)
  | y :: l' =>
      yp ← prio_at s y;
      (* compare(x, y) = Greater  <->  y < x : take y *)
      '(b, s1) ← cmp_lt s yp curp;
      if b : bool then pick_min_from s1 y yp l' else pick_min_from s1 cur curp l'
  end.
(** [Iterator::max_by_key]: the last maximum *)
Fixpoint pick_max_from (s : store) (cur : nat) (curp : P) (l : list nat)
  : R (nat * store) :=
  match l with
  | [] => Ok (cur, s)
  | y :: l' =>
      yp ← prio_at s y;
      (* compare(x, y) = Greater  <->  y < x : keep x, otherwise take y *)
      '(b, s1) ← cmp_lt s yp curp;
      if b : bool then pick_max_from s1 cur curp l' else pick_max_from s1 y yp l'
  end.

Definition pick_extreme (mn : bool) (s : store) (i : nat) : R (nat * store) :=
  match candidates s i with
  | [] => Fault Panic                      (* .unwrap() on an empty minimum *)
  | c :: cs =>
      cp ← prio_at s c;
      if mn then pick_min_from s c cp cs else pick_max_from s c cp cs
  end.

(** a < b when [mn], a > b otherwise: one comparison *)
Definition cmp_dir (mn : bool) (s : store) (a b : P) : R (bool * store) :=
  if mn then cmp_lt s a b else cmp_lt s b a.

(** heapify_min / heapify_max (mod.rs:823, :864) *)
Fixpoint trickle (mn : bool) (fuel : nat) (s : store) (i : nat) : R store :=
  match fuel with
  | O => Fault OutOfFuel
  | S fuel' =>
      lenm1 ← sub1 (ssize s);
      top ← parent lenm1;
      if decide (i <= top) then
        let m := i in
        '(i, s1) ← pick_extreme mn s m;
        pi ← prio_at s1 i;
        pm ← prio_at s1 m;
        '(b, s2) ← cmp_dir mn s1 pi pm;
        if b : bool then
          s3 ← swap s2 i m;
          if decide (right m < i) then
            p ← parent i;
            pi' ← prio_at s3 i;
            pp ← prio_at s3 p;
            '(b2, s4) ← cmp_dir mn s3 pp pi';
            s5 ← (if b2 : bool then swap s4 i p else Ok s4);
            trickle mn fuel' s5 i
          else Ok s3
        else Ok s2
      else Ok s
  end.

(** heapify (mod.rs:811) *)
Definition dheapify (s : store) (i : nat) : R store :=
  if decide (ssize s <= 1) then Ok s
  else trickle (on_min_level i) (S (ssize s)) s i.

(** bubble_up_min / bubble_up_max: the grandparent chain (hole guard as in PQ.v) *)
Fixpoint bubble_chain (mn : bool) (fuel : nat) (s : store) (pos idx : nat) (p : P)
  : R (nat * store) :=
  match fuel with
  | O => Fault OutOfFuel
  | S fuel' =>
      match pos with
      | O => Ok (pos, s)
      | S _ =>
          par ← parent pos;
          match par with
          | O => Ok (pos, s)
          | S _ =>
              gp ← parent par;
              gpp ← prio_at s gp;
              (* min chain: grandparent > priority; max chain: grandparent < priority *)
              '(b, s1) ← (match cmp_dir mn s p gpp with
                          | Unwound u => Unwound (fill_hole u pos idx)
                          | r => r end);
              if b : bool then
                gidx ← getu (heap s1) gp;
                h ← setu (heap s1) pos gidx;
                q ← setu (qp s1) gidx pos;
                bubble_chain mn fuel' (set_qp (set_heap s1 h) q) gp idx p
              else Ok (pos, s1)
          end
      end
  end.

(** bubble_up (mod.rs) *)
Definition dbubble_up (s : store) (pos idx : nat) : R (nat * store) :=
  e ← unwrap (smap s !! idx);
  let p := e.2 in
  '(pos', s') ←
    (match pos with
     | O => Ok (pos, s)
     | S _ =>
         par ← parent pos;
         pp ← prio_at s par;
         pidx ← getu (heap s) par;
         '(b, s1) ← cmp_lt_hole ple s pos idx pp p;
         match on_min_level pos, b with
         | true, true =>
             h ← setu (heap s1) pos pidx;
             q ← setu (qp s1) pidx pos;
             bubble_chain false (S pos) (set_qp (set_heap s1 h) q) par idx p
         | true, false =>
             bubble_chain true (S pos) s1 pos idx p
         | false, true =>
             bubble_chain false (S pos) s1 pos idx p
         | false, false =>
             h ← setu (heap s1) pos pidx;
             q ← setu (qp s1) pidx pos;
             bubble_chain true (S pos) (set_qp (set_heap s1 h) q) par idx p
         end
     end);
  h ← setu (heap s') pos' idx;
  q ← setu (qp s') idx pos';
  Ok (pos', set_qp (set_heap s' h) q).

(** up_heapify (mod.rs:983) *)
Definition dup_heapify (s : store) (i : nat) : R store :=
  match heap s !! i with
  | None => Ok s
  | Some tmp =>
      '(pos, s1) ← dbubble_up s i tmp;
      s2 ← (if decide (i = pos) then Ok s1 else dheapify s1 i);
      dheapify s2 pos
  end.

(** heap_build (mod.rs:997) *)
Fixpoint dheap_build_loop (s : store) (n : nat) : R store :=
  match n with
  | O => Ok s
  | S k => s1 ← dheapify s k; dheap_build_loop s1 k
  end.
Definition dheap_build (s : store) : R store :=
  if decide (ssize s = 0) then Ok s
  else top ← parent (ssize s); dheap_build_loop s (S top).

(** find_min (mod.rs:796), find_max (mod.rs:1007) *)
Definition find_min (s : store) : option nat :=
  match ssize s with 0 => None | _ => Some 0 end.
Definition find_max (s : store) : R (option nat * store) :=
  match ssize s with
  | 0 => Ok (None, s)
  | 1 => Ok (Some 0, s)
  | 2 => Ok (Some 1, s)
  | _ =>
      p1 ← prio_at s 1;
      p2 ← prio_at s 2;
      (* max_by_key over [1; 2]: the last maximum *)
      '(b, s1) ← cmp_lt s p2 p1;
      Ok (Some (if b : bool then 1 else 2), s1)
  end.

(** peek_min / peek_max (mod.rs:222, :270) *)
Definition slot_entry (s : store) (pos : nat) : R (option (I * P)) :=
  i ← getu (heap s) pos; Ok (smap s !! i).
Definition peek_min (s : store) : R (option (I * P)) :=
  match find_min s with None => Ok None | Some pos => slot_entry s pos end.
Definition peek_max (s : store) : R (option (I * P) * store) :=
  '(r, s1) ← find_max s;
  match r with
  | None => Ok (None, s1)
  | Some pos => e ← slot_entry s1 pos; Ok (e, s1)
  end.

Definition entry_mut (s : store) (pos : nat) (u : I -> I) : R (option (I * P) * store) :=
  i ← getu (heap s) pos;
  match smap s !! i with
  | None => Ok (None, s)
  | Some e => Ok (Some (u e.1, e.2), set_map s (<[i := (u e.1, e.2)]> (smap s)))
  end.
Definition peek_min_mut (s : store) (u : I -> I) : R (option (I * P) * store) :=
  match find_min s with None => Ok (None, s) | Some pos => entry_mut s pos u end.
Definition peek_max_mut (s : store) (u : I -> I) : R (option (I * P) * store) :=
  '(r, s1) ← find_max s;
  match r with None => Ok (None, s1) | Some pos => entry_mut s1 pos u end.

(** pop_min / pop_max (mod.rs:291, :306) *)
Definition pop_at (s : store) (pos : nat) : R (option (I * P) * store) :=
  '(r, s1) ← swap_remove s pos; s2 ← dheapify s1 pos; Ok (r, s2).
Definition pop_min (s : store) : R (option (I * P) * store) :=
  match find_min s with None => Ok (None, s) | Some pos => pop_at s pos end.
Definition pop_max (s : store) : R (option (I * P) * store) :=
  '(r, s1) ← find_max s;
  match r with None => Ok (None, s1) | Some pos => pop_at s1 pos end.

(** pop_min_if (mod.rs:433): heapify;  pop_max_if (mod.rs:472): up_heapify *)
Definition pop_min_if (s : store) (f : I -> P -> I * P * bool)
  : R (option (I * P) * store) :=
  match find_min s with
  | None => Ok (None, s)
  | Some pos => '(r, s1) ← swap_remove_if s pos f; s2 ← dheapify s1 pos; Ok (r, s2)
  end.
Definition pop_max_if (s : store) (f : I -> P -> I * P * bool)
  : R (option (I * P) * store) :=
  '(r, s0) ← find_max s;
  match r with
  | None => Ok (None, s0)
  | Some pos => '(r, s1) ← swap_remove_if s0 pos f; s2 ← dup_heapify s1 pos; Ok (r, s2)
  end.

(** push (mod.rs:510) *)
Definition dpush (s : store) (k : I) (p : P) : R (option P * store) :=
  match get_index_of keq hash (smap s) k with
  | Some i =>
      e ← unwrap (smap s !! i);
      let s1 := set_map s (<[i := (e.1, p)]> (smap s)) in
      pos ← getu (qp s1) i;
      s2 ← dup_heapify s1 pos;
      Ok (Some e.2, s2)
  | None =>
      let s1 := set_map s (smap s ++ [(k, p)]) in
      let i := ssize s1 in
      let s2 := set_size (set_heap (set_qp s1 (qp s1 ++ [i])) (heap s1 ++ [i])) (S i) in
      '(_, s3) ← dbubble_up s2 i i;
      Ok (None, s3)
  end.

Definition dpush_increase (s : store) (k : I) (p : P) : R (option P * store) :=
  match get_priority keq hash s k with
  | None => dpush s k p
  | Some old =>
      '(b, s1) ← cmp_lt s old p;
      if b : bool then dpush s1 k p else Ok (Some p, s1)
  end.
Definition dpush_decrease (s : store) (k : I) (p : P) : R (option P * store) :=
  match get_priority keq hash s k with
  | None => dpush s k p
  | Some old =>
      '(b, s1) ← cmp_lt s p old;
      if b : bool then dpush s1 k p else Ok (Some p, s1)
  end.

Definition dpq_change_priority (s : store) (k : I) (p : P) : R (option P * store) :=
  '(r, s1) ← change_priority keq hash s k p;
  match r with
  | None => Ok (None, s1)
  | Some (old, pos) => s2 ← dup_heapify s1 pos; Ok (Some old, s2)
  end.
Definition dpq_change_priority_by (s : store) (k : I) (g : P -> P) : R (bool * store) :=
  '(r, s1) ← change_priority_by keq hash s k g;
  match r with
  | None => Ok (false, s1)
  | Some pos => s2 ← dup_heapify s1 pos; Ok (true, s2)
  end.
Definition dpq_remove (s : store) (k : I) : R (option (I * P) * store) :=
  '(r, s1) ← remove keq hash s k;
  match r with
  | None => Ok (None, s1)
  | Some (i, p, pos) =>
      s2 ← (if decide (pos < ssize s1) then dup_heapify s1 pos else Ok s1);
      Ok (Some (i, p), s2)
  end.

Definition dpq_retain_mut (s : store) (f : I -> P -> I * P * bool) : R store :=
  s1 ← retain_mut s f; dheap_build s1.
Definition dpq_append (s o : store) : R (store * store) :=
  let '(s1, o1) := append keq hash s o in
  s2 ← dheap_build s1; Ok (s2, o1).
Definition dpq_from_vec (l : list (I * P)) : R store :=
  dheap_build (from_vec keq hash l).
Definition dpq_from_iter (l : list (I * P)) (h : size_hint) : R store :=
  s ← from_iter keq hash alloc_limit None l h; dheap_build s.
Definition dpq_of_store (s : store) : R store := dheap_build s.
Definition dpq_deserialize (l : list (I * P)) : R store :=
  dheap_build (visit_seq keq hash l).

Fixpoint dpush_all (s : store) (l : list (I * P)) : R store :=
  s1 ← cb s;
  match l with
  | [] => Ok s1
  | e :: l' => '(_, s2) ← dpush s1 e.1 e.2; dpush_all s2 l'
  end.
Definition dpq_extend := extend_with keq hash alloc_limit dheap_build dpush_all.

(** into_ascending_sorted_vec / into_descending_sorted_vec (mod.rs:322, :333) *)
Fixpoint dpop_all (mn : bool) (fuel : nat) (s : store) (acc : list (I * P))
  : R (list (I * P) * store) :=
  match fuel with
  | O => Fault OutOfFuel
  | S fuel' =>
      '(r, s1) ← (if mn then pop_min s else pop_max s);
      match r with
      | None => Ok (acc, s1)
      | Some e => dpop_all mn fuel' s1 (acc ++ [e])
      end
  end.
Definition into_sorted_vec_dir (mn : bool) (s : store) : R (list (I * P) * store) :=
  dpop_all mn (S (ssize s)) s [].

End DPQ.
