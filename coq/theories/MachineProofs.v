(** * MachineProofs: the machine-level statements of Spec.v, from the
    per-operation statements of OpSpec.v / IterSpec.v / Inv.v. *)
From PQV Require Export Spec IterSpec.

Arguments Nat.mul : simpl never.
Arguments Nat.add : simpl never.
Arguments Nat.div : simpl never.
Arguments Nat.sub : simpl never.
Arguments Nat.log2 : simpl never.
Arguments Nat.min : simpl never.

Section MachineProofs.
Context {I P : Type}.
Variable keq : I -> I -> bool.
Variable hash : I -> N.
Variable ple : P -> P -> bool.
Variable peq : P -> P -> bool.
Variable alloc_limit : N.

Notation store := (store I P).
Notation R := (res store).
Notation sout := (sout I P).
Notation istep := (istep I P).
Notation machine := (@machine I P).
Notation op := (@op I P).
Notation out := (@out I P).
Notation pr := (snd : I * P -> P).
Notation WF := (WF keq).
Notation pq_inv := (pq_inv keq ple).
Notation dpq_inv := (dpq_inv keq ple).
Notation reg_inv := (reg_inv keq ple).
Notation stp1 := (step1 keq hash ple peq alloc_limit).
Notation stp := (step keq hash ple peq alloc_limit).
Notation bld := (build ple).

(** ** the per-operation statements this file relies on *)
Hypothesis H_pq_push : pq_push_stmt keq hash ple.
Hypothesis H_pq_push_dir : pq_push_dir_stmt keq hash ple.
Hypothesis H_pq_change_priority : pq_change_priority_stmt keq hash ple.
Hypothesis H_pq_change_priority_by : pq_change_priority_by_stmt keq hash ple.
Hypothesis H_pq_remove : pq_remove_stmt keq hash ple.
Hypothesis H_pq_pop : pq_pop_stmt keq hash ple.
Hypothesis H_pq_pop_if : pq_pop_if_stmt keq hash ple.
Hypothesis H_pq_peek_mut : pq_peek_mut_stmt keq hash ple.
Hypothesis H_pq_build : pq_build_stmt keq hash ple.
Hypothesis H_pq_retain : pq_retain_stmt keq hash ple.
Hypothesis H_pq_append : pq_append_stmt keq hash ple.
Hypothesis H_pq_from_vec : pq_from_vec_stmt keq hash ple.
Hypothesis H_pq_from_iter : pq_from_iter_stmt keq hash ple alloc_limit.
Hypothesis H_pq_deserialize : pq_deserialize_stmt keq hash ple.
Hypothesis H_pq_extend : pq_extend_stmt keq hash ple alloc_limit.
Hypothesis H_dpq_push : dpq_push_stmt keq hash ple.
Hypothesis H_dpq_push_dir : dpq_push_dir_stmt keq hash ple.
Hypothesis H_dpq_change_priority : dpq_change_priority_stmt keq hash ple.
Hypothesis H_dpq_change_priority_by : dpq_change_priority_by_stmt keq hash ple.
Hypothesis H_dpq_remove : dpq_remove_stmt keq hash ple.
Hypothesis H_dpq_pop : dpq_pop_stmt keq hash ple.
Hypothesis H_dpq_pop_if : dpq_pop_if_stmt keq hash ple.
Hypothesis H_dpq_peek_mut : dpq_peek_mut_stmt keq hash ple.
Hypothesis H_dpq_build : dpq_build_stmt keq hash ple.
Hypothesis H_dpq_retain : dpq_retain_stmt keq hash ple.
Hypothesis H_dpq_append : dpq_append_stmt keq hash ple.
Hypothesis H_dpq_from_vec : dpq_from_vec_stmt keq hash ple.
Hypothesis H_dpq_from_iter : dpq_from_iter_stmt keq hash ple alloc_limit.
Hypothesis H_dpq_deserialize : dpq_deserialize_stmt keq hash ple.
Hypothesis H_dpq_extend : dpq_extend_stmt keq hash ple alloc_limit.
Hypothesis H_itermut : @itermut_stmt I P.
Hypothesis H_itermut_wf : @itermut_wf_stmt I P keq hash.
Hypothesis H_set_entry_ok : @set_entry_ok_stmt I P keq hash.

(** ** the invariants, uniformly in the "ordered" flag *)
Definition inv_m (ord : bool) (m : machine) : Prop :=
  forall r ks, getreg m r = Some ks -> reg_inv ord ks.

Lemma safe_inv_m m : safe keq ple m <-> inv_m false m.
Proof. reflexivity. Qed.
Lemma good_inv_m m : good keq ple m <-> inv_m true m.
Proof. reflexivity. Qed.

Lemma pq_inv_mono o (s : store) : pq_inv true s -> pq_inv o s.
Proof. intros (H1 & H2 & H3). split; [done|]. split; [done|]. intros _. by apply H3. Qed.
Lemma dpq_inv_mono o (s : store) : dpq_inv true s -> dpq_inv o s.
Proof. intros (H1 & H2 & H3). split; [done|]. split; [done|]. intros _. by apply H3. Qed.
Lemma reg_inv_mono o k (s : store) : reg_inv true (k, s) -> reg_inv o (k, s).
Proof. destruct k; [apply pq_inv_mono | apply dpq_inv_mono]. Qed.
Lemma reg_inv_weak o k (s : store) : reg_inv o (k, s) -> reg_inv false (k, s).
Proof. destruct k; intros (H1 & H2 & _); (split; [done|]; split; [done|]; intros ?; done). Qed.
(** a well-formed store is well-formed as either kind of queue *)
Lemma reg_inv_conv o k k' (s : store) : reg_inv o (k, s) -> reg_inv false (k', s).
Proof.
  destruct k, k'; intros (H1 & H2 & _); (split; [done|]; split; [done|]; intros ?; done).
Qed.
Lemma reg_inv_parts o k (s : store) : reg_inv o (k, s) -> WF s /\ fuse s = None.
Proof. destruct k; intros (H1 & H2 & _); done. Qed.

(** the ghost fields [ticks] and [cap] are invisible to the invariants *)
Lemma reg_inv_set_ticks o k (s : store) t : reg_inv o (k, s) -> reg_inv o (k, set_ticks s t).
Proof. destruct k; intros H; exact H. Qed.
Lemma reg_inv_set_cap o k (s : store) c : reg_inv o (k, s) -> reg_inv o (k, set_cap s c).
Proof. destruct k; intros H; exact H. Qed.

(** ** order predicates only look at priorities *)
Lemma heap_ord_pr (l l' : list (I * P)) :
  pr <$> l' = pr <$> l -> heap_ord pr ple l -> heap_ord pr ple l'.
Proof.
  intros He H c xc xp Hc H1 H2.
  assert (exists yc, l !! c = Some yc /\ pr yc = pr xc) as (yc & Hy1 & <-).
  { apply (f_equal (fmap pr)) in H1. rewrite <- list_lookup_fmap, He, list_lookup_fmap in H1.
    destruct (l !! c); simplify_eq/=; eauto. }
  assert (exists yp, l !! par c = Some yp /\ pr yp = pr xp) as (yp & Hy2 & <-).
  { apply (f_equal (fmap pr)) in H2. rewrite <- list_lookup_fmap, He, list_lookup_fmap in H2.
    destruct (l !! par c); simplify_eq/=; eauto. }
  by apply (H c yc yp).
Qed.
Lemma minmax_ord_pr (l l' : list (I * P)) :
  pr <$> l' = pr <$> l -> minmax_ord pr ple l -> minmax_ord pr ple l'.
Proof.
  intros He H i c xi xc Hc H1 H2.
  assert (exists yi, l !! i = Some yi /\ pr yi = pr xi) as (yi & Hy1 & <-).
  { apply (f_equal (fmap pr)) in H1. rewrite <- list_lookup_fmap, He, list_lookup_fmap in H1.
    destruct (l !! i); simplify_eq/=; eauto. }
  assert (exists yc, l !! c = Some yc /\ pr yc = pr xc) as (yc & Hy2 & <-).
  { apply (f_equal (fmap pr)) in H2. rewrite <- list_lookup_fmap, He, list_lookup_fmap in H2.
    destruct (l !! c); simplify_eq/=; eauto. }
  by apply (H i c yi yc).
Qed.
Lemma heap_ord_nil : heap_ord pr ple ([] : list (I * P)).
Proof. intros c xc xp _ H. by rewrite lookup_nil in H. Qed.
Lemma minmax_ord_nil : minmax_ord pr ple ([] : list (I * P)).
Proof. intros i c xi xc _ H. by rewrite lookup_nil in H. Qed.

Lemma reg_inv_emptyish o k (s : store) :
  smap s = [] -> heap s = [] -> qp s = [] -> ssize s = 0 -> fuse s = None -> reg_inv o (k, s).
Proof.
  intros Hm Hh Hq Hs Hf.
  assert (WF s) as HW.
  { unfold Inv.WF, tables_inv, nodup_keys. rewrite Hm, Hh, Hq, Hs.
    split; [done|]. split.
    - split; [done|]. split; [done|]. split; intros ? ? H; by rewrite lookup_nil in H.
    - intros ? ? ? ? H; by rewrite lookup_nil in H. }
  assert (eview s = []) as He by (unfold eview; by rewrite Hh).
  destruct k; (split; [done|]; split; [done|]; intros _; cbn [snd]; rewrite He).
  - apply heap_ord_nil.
  - apply minmax_ord_nil.
Qed.
Lemma reg_inv_empty o k c : reg_inv o (k, empty_store c).
Proof. by apply reg_inv_emptyish. Qed.
Lemma reg_inv_clear o k (s : store) : reg_inv o (k, s) -> reg_inv o (k, clear s).
Proof. intros H. apply reg_inv_parts in H as [_ Hf]. by apply reg_inv_emptyish. Qed.

(** ** register bookkeeping *)
Lemma getreg_insert (m : machine) r x r' ks :
  getreg (<[r := x]> m) r' = Some ks ->
  (r' = r /\ x = Some ks) \/ getreg m r' = Some ks.
Proof.
  unfold getreg, setreg, Machine.machine in *. destruct (decide (r' = r)) as [-> | Hne].
  - destruct (decide (r < length m)).
    + rewrite list_lookup_insert by done. cbn. auto.
    + rewrite list_insert_ge by lia. auto.
  - rewrite list_lookup_insert_ne by done. auto.
Qed.

Lemma inv_m_insert ord (m : machine) r x :
  inv_m ord m -> (forall ks, x = Some ks -> reg_inv ord ks) -> inv_m ord (<[r := x]> m).
Proof.
  intros Hm Hx r' ks H. apply getreg_insert in H as [[_ H] | H]; [by apply Hx | by apply (Hm r')].
Qed.
Lemma inv_m_setreg ord (m : machine) r k s :
  inv_m ord m -> reg_inv ord (k, s) -> inv_m ord (setreg m r k s).
Proof. intros Hm Hs. apply inv_m_insert; [done|]. intros ks [= <-]. done. Qed.

Definition tk (x : option (kind * store)) : nat :=
  match x with Some (_, s) => ticks s | None => 0 end.
Lemma total_ticks_cons x (m : machine) : total_ticks (x :: m) = tk x + total_ticks m.
Proof. destruct x as [[k s]|]; reflexivity. Qed.
Lemma total_ticks_insert (m : machine) r x :
  total_ticks (<[r := x]> m) <= total_ticks m + tk x.
Proof.
  revert r. induction m as [|y m IH]; intros r; [destruct r; cbn; lia|].
  destruct r as [|r]; cbn [list_insert insert]; rewrite !total_ticks_cons.
  - lia.
  - specialize (IH r). unfold insert in *. lia.
Qed.
Lemma total_ticks_reg (m : machine) r k s :
  total_ticks m = 0 -> getreg m r = Some (k, s) -> ticks s = 0.
Proof.
  revert r. induction m as [|y m IH]; intros r Hz H; [by destruct r|].
  rewrite total_ticks_cons in Hz. destruct r as [|r].
  - unfold getreg in H. cbn in H. subst y. cbn in Hz. lia.
  - apply (IH r); [lia | exact H].
Qed.

(** ** [reset_ticks] *)
Lemma getreg_reset (m : machine) r :
  getreg (reset_ticks m) r =
    (fun ks : kind * store => (ks.1, set_ticks ks.2 0)) <$> getreg m r.
Proof.
  unfold getreg, reset_ticks, Machine.machine in *. rewrite list_lookup_fmap.
  destruct (m !! r) as [[ks|]|]; reflexivity.
Qed.
Lemma inv_m_reset ord (m : machine) : inv_m ord m -> inv_m ord (reset_ticks m).
Proof.
  intros Hm r ks. rewrite getreg_reset. destruct (getreg m r) as [[k s]|] eqn:Hr; [|done].
  intros [= <-]. apply reg_inv_set_ticks. by apply (Hm r).
Qed.
Lemma total_ticks_reset (m : machine) : total_ticks (reset_ticks m) = 0.
Proof.
  induction m as [|x m IH]; [done|]. unfold reset_ticks in *. rewrite fmap_cons, total_ticks_cons, IH.
  by destruct x as [[k s]|].
Qed.
Lemma reg_size_reset (m : machine) r : reg_size (reset_ticks m) r = reg_size m r.
Proof. unfold reg_size. rewrite getreg_reset. by destruct (getreg m r) as [[k s]|]. Qed.


(** ** what a step must establish: the invariant, no fault, and (when [C])
    the tick bound [b] *)
Definition post (ord : bool) (C : Prop) (b : nat) (r : machine * out) : Prop :=
  inv_m ord r.1 /\ is_fault r.2 = false /\ (C -> total_ticks r.1 <= b).

Lemma post_same ord (C : Prop) b (m : machine) (x : out) :
  inv_m ord m -> total_ticks m = 0 -> is_fault x = false -> post ord C b (m, x).
Proof. intros Hm Hz Hx. split; [done|]. split; [done|]. intros _. cbn [fst]. lia. Qed.

Lemma post_insert ord (C : Prop) b (m : machine) r y (x : out) :
  inv_m ord m -> total_ticks m = 0 -> (forall ks, y = Some ks -> reg_inv ord ks) ->
  is_fault x = false -> (C -> tk y <= b) -> post ord C b (<[r := y]> m, x).
Proof.
  intros Hm Hz Hs Hx Hb. split; [by apply inv_m_insert|]. split; [done|].
  intros HC. cbn [fst]. pose proof (total_ticks_insert m r y) as Hi.
  specialize (Hb HC). lia.
Qed.
Lemma post_set ord (C : Prop) b (m : machine) r k s (x : out) :
  inv_m ord m -> total_ticks m = 0 -> reg_inv ord (k, s) -> is_fault x = false ->
  (C -> ticks s <= b) -> post ord C b (setreg m r k s, x).
Proof.
  intros Hm Hz Hs Hx Hb. apply post_insert; try done. by intros ks [= <-].
Qed.
Lemma post_fin ord (C : Prop) b (m : machine) r k (x : R (out * store)) o s :
  inv_m ord m -> total_ticks m = 0 -> x = Ok (o, s) -> is_fault o = false ->
  reg_inv ord (k, s) -> (C -> ticks s <= b) -> post ord C b (Machine.fin m r k x).
Proof. intros Hm Hz -> ? ? ?. cbn [Machine.fin]. by apply post_set. Qed.
Lemma post_new ord (C : Prop) b (m : machine) r k (x : R store) s :
  inv_m ord m -> total_ticks m = 0 -> x = Ok s ->
  reg_inv ord (k, s) -> (C -> ticks s <= b) -> post ord C b (fin_new m r k x).
Proof. intros Hm Hz -> ? ?. cbn [fin_new]. by apply post_set. Qed.

(** ** small facts about the store-level constructors *)
Lemma set_fuse_id (s : store) : fuse s = None -> set_fuse s None = s.
Proof. destruct s; cbn; intros ->; done. Qed.
Lemma fuse_append_entries l : forall s : store, fuse (append_entries keq hash s l) = fuse s.
Proof.
  induction l as [|e l IH]; intros s; [done|]. cbn [append_entries]. rewrite IH.
  by destruct (get_index_of keq hash (smap s) e.1).
Qed.
Lemma fuse_from_vec l : fuse (from_vec keq hash l : store) = None.
Proof. unfold from_vec. by rewrite fuse_append_entries. Qed.
Lemma fuse_visit_fold l : forall s : store, fuse (fold_left (visit_one keq hash) l s) = fuse s.
Proof.
  induction l as [|e l IH]; intros s; [done|]. cbn [fold_left]. rewrite IH. unfold visit_one.
  by destruct (get_index_of keq hash (smap s) e.1).
Qed.
Lemma fuse_visit_seq l : fuse (visit_seq keq hash l : store) = None.
Proof. unfold visit_seq. by rewrite fuse_visit_fold. Qed.

Lemma append_list_length l : forall m : list (I * P),
  length (append_list keq hash m l) <= length m + length l.
Proof.
  unfold append_list. induction l as [|e l IH]; intros m; cbn [fold_left length]; [lia|].
  etrans; [apply IH|]. destruct (get_index_of keq hash m e.1); rewrite ?app_length; cbn [length]; lia.
Qed.
Lemma extend_list_length l : forall m : list (I * P),
  length (extend_list keq hash m l) <= length m + length l.
Proof.
  unfold extend_list. induction l as [|e l IH]; intros m; cbn [fold_left length]; [lia|].
  etrans; [apply IH|].
  destruct (get_index_of keq hash m e.1); rewrite ?app_length, ?insert_length; cbn [length]; lia.
Qed.
Lemma visit_fold_length l : forall m : list (I * P),
  length (fold_left (fun acc e => map_insert keq hash acc e.1 e.2) l m) <= length m + length l.
Proof.
  induction l as [|e l IH]; intros m; cbn [fold_left length]; [lia|].
  etrans; [apply IH|]. unfold map_insert.
  destruct (get_index_of keq hash m e.1) as [i|]; [destruct (m !! i)|];
    rewrite ?app_length, ?insert_length; cbn [length]; lia.
Qed.
Lemma visit_list_length (l : list (I * P)) : length (visit_list keq hash l) <= length l.
Proof. unfold visit_list. etrans; [apply visit_fold_length|]. cbn [length]. lia. Qed.

Lemma reg_inv_size o k (s : store) : reg_inv o (k, s) -> length (smap s) = ssize s.
Proof. intros H. apply reg_inv_parts in H as [(H & _) _]. exact H. Qed.

Lemma msri_length (m m' : list (I * P)) i e :
  map_swap_remove_index m i = Some (e, m') -> length m = S (length m').
Proof.
  unfold map_swap_remove_index. destruct (m !! i) eqn:Hi; [|done]. destruct (last m); [|done].
  intros [= _ <-]. apply lookup_lt_Some in Hi. rewrite take_length, insert_length. lia.
Qed.

Section WithOk.
Hypothesis Hk : keq_ok keq hash.
Hypothesis Ho : ord_ok ple.

(** ** the rebuilding operations, uniformly in the kind *)
Lemma build_ok k (s : store) : reg_inv false (k, s) ->
  exists s', bld k s = Ok s' /\ reg_inv true (k, s') /\ ticks s' <= ticks s + 16 * ssize s.
Proof.
  destruct k; intros H.
  - destruct (H_pq_build Hk Ho s H) as (s' & ? & ? & ? & ?). exists s'. split; [done|]. split; [done|]. lia.
  - destruct (H_dpq_build Hk Ho s H) as (s' & ? & ? & ? & ?). exists s'. split; [done|]. split; [done|]. lia.
Qed.

Lemma from_vec_ok k l :
  exists s', bld k (set_fuse (from_vec keq hash l) None) = Ok s' /\ reg_inv true (k, s') /\
             ticks s' <= 16 * length l.
Proof.
  rewrite set_fuse_id by apply fuse_from_vec. destruct k.
  - destruct (H_pq_from_vec Hk Ho l) as (s' & Heq & Hinv & Hsm & Ht). exists s'.
    split; [exact Heq|]. split; [exact Hinv|].
    pose proof (reg_inv_size true KPQ s' Hinv) as Hsz. rewrite Hsm in Hsz.
    pose proof (append_list_length l []) as Hl. cbn [length] in Hl. lia.
  - destruct (H_dpq_from_vec Hk Ho l) as (s' & Heq & Hinv & Hsm & Ht). exists s'.
    split; [exact Heq|]. split; [exact Hinv|].
    pose proof (reg_inv_size true KDPQ s' Hinv) as Hsz. rewrite Hsm in Hsz.
    pose proof (append_list_length l []) as Hl. cbn [length] in Hl. lia.
Qed.

Lemma from_iter_ok k l (h : size_hint) : (h.1 <= alloc_limit)%N ->
  exists s', (s ← from_iter keq hash alloc_limit None l h; bld k s) = Ok s' /\
             reg_inv true (k, s') /\ ticks s' <= 16 * length l.
Proof.
  intros Hh. destruct k.
  - destruct (H_pq_from_iter Hk Ho l h Hh) as (s' & Heq & Hinv & Hsm & Ht). exists s'.
    split; [exact Heq|]. split; [exact Hinv|].
    pose proof (reg_inv_size true KPQ s' Hinv) as Hsz. rewrite Hsm in Hsz.
    pose proof (extend_list_length l []) as Hl. cbn [length] in Hl. lia.
  - destruct (H_dpq_from_iter Hk Ho l h Hh) as (s' & Heq & Hinv & Hsm & Ht). exists s'.
    split; [exact Heq|]. split; [exact Hinv|].
    pose proof (reg_inv_size true KDPQ s' Hinv) as Hsz. rewrite Hsm in Hsz.
    pose proof (extend_list_length l []) as Hl. cbn [length] in Hl. lia.
Qed.

Lemma deser_ok k l :
  exists s', bld k (set_fuse (visit_seq keq hash l) None) = Ok s' /\ reg_inv true (k, s') /\
             ticks s' <= 16 * length l.
Proof.
  rewrite set_fuse_id by apply fuse_visit_seq. destruct k.
  - destruct (H_pq_deserialize Hk Ho l) as (s' & Heq & Hinv & Hsm & Ht). exists s'.
    split; [exact Heq|]. split; [exact Hinv|].
    pose proof (reg_inv_size true KPQ s' Hinv) as Hsz. rewrite Hsm in Hsz.
    pose proof (visit_list_length l) as Hl. lia.
  - destruct (H_dpq_deserialize Hk Ho l) as (s' & Heq & Hinv & Hsm & Ht). exists s'.
    split; [exact Heq|]. split; [exact Hinv|].
    pose proof (reg_inv_size true KDPQ s' Hinv) as Hsz. rewrite Hsm in Hsz.
    pose proof (visit_list_length l) as Hl. lia.
Qed.

Lemma retain_ok k (s : store) f : pred_ok keq f -> reg_inv false (k, s) ->
  exists s', (s1 ← retain_mut s f; bld k s1) = Ok s' /\ reg_inv true (k, s') /\
             ticks s' <= ticks s + 16 * ssize s.
Proof.
  intros Hf H. destruct k.
  - destruct (H_pq_retain Hk Ho s f Hf H) as (s' & Heq & Hinv & _ & Ht). exists s'.
    split; [exact Heq|]. split; [exact Hinv|]. lia.
  - destruct (H_dpq_retain Hk Ho s f Hf H) as (s' & Heq & Hinv & _ & Ht). exists s'.
    split; [exact Heq|]. split; [exact Hinv|]. lia.
Qed.

Lemma append_ok k (s o s1 o1 : store) :
  reg_inv false (k, s) -> reg_inv false (k, o) -> append keq hash s o = (s1, o1) ->
  exists s', bld k s1 = Ok s' /\ reg_inv true (k, s') /\ reg_inv true (k, o1) /\
             ticks s' <= ticks s + 16 * (ssize s + ssize o) /\ ticks o1 = ticks o.
Proof.
  intros Hs Hoo Ha.
  pose proof (reg_inv_size _ _ _ Hs) as Hls. pose proof (reg_inv_size _ _ _ Hoo) as Hlo.
  destruct k.
  - destruct (H_pq_append Hk Ho s o Hs Hoo) as (s' & o' & Heq & Hi1 & Hi2 & _ & Hsm & Ht & Hto).
    unfold pq_append in Heq. rewrite Ha in Heq. cbn [bld].
    destruct (heap_build ple s1) as [s2| |]; [|done..]. injection Heq as -> ->.
    exists s'. split; [done|]. split; [done|]. split; [done|]. split; [|done].
    pose proof (reg_inv_size true KPQ s' Hi1) as Hsz. rewrite Hsm in Hsz.
    pose proof (append_list_length (smap s) (smap o)). pose proof (append_list_length (smap o) (smap s)).
    destruct (decide (ssize s < ssize o)); lia.
  - destruct (H_dpq_append Hk Ho s o Hs Hoo) as (s' & o' & Heq & Hi1 & Hi2 & _ & Hsm & Ht & Hto).
    unfold dpq_append in Heq. rewrite Ha in Heq. cbn [bld].
    destruct (dheap_build ple s1) as [s2| |]; [|done..]. injection Heq as -> ->.
    exists s'. split; [done|]. split; [done|]. split; [done|]. split; [|done].
    pose proof (reg_inv_size true KDPQ s' Hi1) as Hsz. rewrite Hsm in Hsz.
    pose proof (append_list_length (smap s) (smap o)). pose proof (append_list_length (smap o) (smap s)).
    destruct (decide (ssize s < ssize o)); lia.
Qed.


(** ** iterator scripts never fault *)
Definition sout_ok (o : sout) : bool :=
  match o with SLen (Fault _) => false | _ => true end.
Lemma script_fault_snoc (acc : list sout) o :
  script_fault (acc ++ [o]) = script_fault acc || negb (sout_ok o).
Proof.
  unfold script_fault. rewrite existsb_app. cbn [existsb]. rewrite orb_false_r. f_equal.
  destruct o as [?|?|[?|?|?]|? ?]; reflexivity.
Qed.

Lemma exact_len_exact n : exact_len (n, Some n) = Ok n.
Proof. unfold exact_len. cbn [fst snd]. by rewrite decide_True. Qed.
Lemma exact_len_take left n : exact_len (hint_take left (n, Some n)) = Ok (Nat.min n left).
Proof. unfold hint_take. cbn [fst snd]. apply exact_len_exact. Qed.
Lemma exact_len_zip left n : exact_len (hint_zip left (n, Some n)) = Ok (Nat.min n left).
Proof. unfold hint_zip. cbn [fst snd]. apply exact_len_exact. Qed.
Lemma exact_len_skip left n : exact_len (hint_skip left (n, Some n)) = Ok (n - left).
Proof. unfold hint_skip. cbn [fst snd fmap option_fmap option_map]. apply exact_len_exact. Qed.

Section GenIt.
Context {T : Type}.
Variable it : T -> istep -> option (R (T * sout)).
Variable Inv : T -> Prop.
Variable okx : istep -> bool.
Variable a : adaptor.
Hypothesis Hstep : forall left t x r, Inv t -> okx x = true -> ad_step it a left t x = Some r ->
  exists t' left' o, r = Ok (t', left', o) /\ Inv t' /\ sout_ok o = true.

Lemma it_run_gen script : forall left t acc r,
  Inv t -> forallb okx script = true -> script_fault acc = false ->
  it_run it a left t script acc = Some r ->
  exists t' outs, r = Ok (t', outs) /\ Inv t' /\ script_fault outs = false.
Proof.
  induction script as [|x script IH]; intros left t acc r Hi Hok Hacc Hr; cbn [it_run] in Hr.
  - injection Hr as <-. eauto.
  - cbn [forallb] in Hok. apply andb_true_iff in Hok as [Hx Hok].
    destruct (ad_step it a left t x) as [r0|] eqn:Ha; [|done].
    destruct (Hstep _ _ _ _ Hi Hx Ha) as (t' & left' & o & -> & Hi' & Ho').
    apply (IH left' t' (acc ++ [o]) r); try done. rewrite script_fault_snoc, Hacc, Ho'. done.
Qed.

Lemma finish_gen script e t x :
  Inv t -> forallb okx script = true ->
  (forall la t' l, e = ELen la -> a = ADirect -> Inv t' ->
     adaptor_len it la t' = Some l -> exists n, l = Ok (Ok n)) ->
  finish_script it a t script e = Some x ->
  exists t' outs outs0, x = Ok (t', outs) /\ Inv t' /\ script_fault outs = false /\
    it_run it a (match a with ATake n => n | _ => 0 end) t script [] = Some (Ok (t', outs0)).
Proof.
  intros Hi Hok Hlen. unfold finish_script.
  destruct (it_run it a _ t script []) as [r|] eqn:Hrun; cbn [mbind option_bind]; [|done].
  destruct (it_run_gen script _ t [] r Hi Hok eq_refl Hrun) as (t' & outs & -> & Hi' & Hsf).
  destruct e as [| |la].
  - intros [= <-]. eauto 10.
  - intros [= <-]. eauto 10.
  - destruct a; try done.
    destruct (adaptor_len it la t') as [l|] eqn:Hl; cbn [mbind option_bind]; [|done].
    destruct (Hlen la t' l eq_refl eq_refl Hi' Hl) as (n & ->).
    intros [= <-]. cbn. exists t', (outs ++ [SLen (Ok n)]), outs.
    split; [done|]. split; [done|]. split; [|done]. by rewrite script_fault_snoc, Hsf.
Qed.
End GenIt.


Lemma dq_ad_step a left (l : list (I * P)) x r :
  ad_step dq_it a left l x = Some r ->
  exists t' left' o, r = Ok (t', left', o) /\ True /\ sout_ok o = true.
Proof.
  unfold ad_step, inner_hint, dq_it.
  destruct a, x; cbn [mbind option_bind]; intros H; simplify_eq.
  all: try (destruct left; simplify_eq).
  all: cbn [mbind res_bind rbind dq_step]; rewrite ?exact_len_take.
  all: repeat case_match; simplify_eq; eauto 10.
Qed.

Lemma forallb_const_true {A} (l : list A) : forallb (fun _ => true) l = true.
Proof. induction l; [done|]. cbn [forallb]. by rewrite IHl. Qed.

Lemma dq_adaptor_len la (l : list (I * P)) r :
  adaptor_len dq_it la l = Some r -> exists n, r = Ok (Ok n).
Proof.
  unfold adaptor_len, inner_hint, dq_it.
  destruct la; cbn [mbind option_bind]; intros [= <-]; cbn [mbind res_bind rbind dq_step];
    rewrite ?exact_len_take, ?exact_len_zip, ?exact_len_skip, ?exact_len_exact; eauto.
Qed.

Lemma dq_finish a (l : list (I * P)) script e t outs :
  finish_script dq_it a l script e = Some (Ok (t, outs)) -> script_fault outs = false.
Proof.
  intros H.
  destruct (finish_gen dq_it (fun _ => True) (fun _ => true) a
              (fun left t x r _ _ H => dq_ad_step a left t x r H) script e l _ Logic.I
              (forallb_const_true _)
              (fun la t' l' _ _ _ H => dq_adaptor_len la t' l' H) H)
    as (t' & outs' & _ & Heq & _ & Hsf & _).
  by injection Heq as <- <-.
Qed.

Definition dees (k : kind) : bool := match k with KPQ => false | KDPQ => true end.

Lemma im_ad_step k a left (t : store * imstate) x r :
  step_offered (dees k) (dees k) a x = true ->
  ad_step (im_it k) a left t x = Some r ->
  exists t' left' o, r = Ok (t', left', o) /\ True /\ sout_ok o = true.
Proof.
  unfold ad_step, inner_hint, im_it, im_step. intros Hoff.
  destruct k, a, x; try discriminate Hoff; cbn [mbind option_bind]; intros H.
  all: try destruct left.
  all: repeat (cbn [mbind option_bind res_bind rbind fst snd] in H; try case_match; simplify_eq).
  all: rewrite ?exact_len_take; eauto 10.
Qed.

Lemma im_adaptor_len la (t : store * imstate) r :
  adaptor_len (im_it KDPQ) la t = Some r -> exists n, r = Ok (Ok n).
Proof.
  unfold adaptor_len, inner_hint, im_it, im_step.
  destruct la; cbn [mbind option_bind]; intros [= <-]; cbn [mbind res_bind rbind];
    rewrite ?exact_len_take, ?exact_len_zip, ?exact_len_skip, ?exact_len_exact; eauto.
Qed.

Lemma script_offered_parts de es a (script : list istep) e :
  script_offered de es a script e = true ->
  forallb (step_offered de es a) script = true /\
  (forall la, e = ELen la -> a = ADirect -> es = true).
Proof.
  unfold script_offered. intros H. apply andb_true_iff in H as [H H2].
  apply andb_true_iff in H as [_ H]. split; [done|].
  intros la -> ->. by apply andb_true_iff in H2 as [H2 _].
Qed.

Lemma im_finish k a (s : store) script e x :
  script_offered (dees k) (dees k) a script e = true ->
  finish_script (im_it k) a (s, im_new s) script e = Some x ->
  exists s' st' outs outs0, x = Ok ((s', st'), outs) /\ script_fault outs = false /\
    it_run (im_it k) a (match a with ATake n => n | _ => 0 end) (s, im_new s) script []
      = Some (Ok ((s', st'), outs0)).
Proof.
  intros Hoff H. apply script_offered_parts in Hoff as [Hall Hlen].
  assert (forall la (t' : store * imstate) l, e = ELen la -> a = ADirect -> True ->
            adaptor_len (im_it k) la t' = Some l -> exists n, l = Ok (Ok n)) as Hal.
  { intros la t' l -> -> _ Hl. specialize (Hlen la eq_refl eq_refl). destruct k; [done|].
    by apply im_adaptor_len in Hl. }
  destruct (finish_gen (im_it k) (fun _ => True) (step_offered (dees k) (dees k) a) a
              (fun left t x r _ Hx H => im_ad_step k a left t x r Hx H) script e
              (s, im_new s) x Logic.I Hall Hal H)
    as ([s' st'] & outs & outs0 & -> & _ & Hsf & Hrun).
  eauto 10.
Qed.

Lemma sorted_ad_step o k a left (s : store) x r :
  reg_inv o (k, s) -> step_offered (dees k) (dees k) a x = true ->
  ad_step (sorted_it ple k) a left s x = Some r ->
  exists s' left' ot, r = Ok (s', left', ot) /\ reg_inv o (k, s') /\ sout_ok ot = true.
Proof.
  intros Hinv Hoff. unfold ad_step, inner_hint, sorted_it. destruct k.
  - destruct (H_pq_pop Hk Ho o s Hinv) as (out & s' & Hpop & Hinv' & _).
    destruct a, x; try discriminate Hoff; cbn [mbind option_bind]; intros H.
    all: try destruct left.
    all: simplify_eq; rewrite ?Hpop; cbn [mbind res_bind rbind]; eauto 10.
  - destruct (H_dpq_pop Hk Ho true o s Hinv) as (out & s' & Hpop & Hinv' & _).
    destruct (H_dpq_pop Hk Ho false o s Hinv) as (out2 & s2 & Hpop2 & Hinv2 & _).
    cbv beta iota in Hpop, Hpop2.
    destruct a, x; try discriminate Hoff; cbn [mbind option_bind]; intros H.
    all: try destruct left.
    all: simplify_eq; rewrite ?Hpop, ?Hpop2; cbn [mbind res_bind rbind];
         rewrite ?exact_len_take; eauto 10.
Qed.

Lemma sorted_adaptor_len la (s : store) r :
  adaptor_len (sorted_it ple KDPQ) la s = Some r -> exists n, r = Ok (Ok n).
Proof.
  unfold adaptor_len, inner_hint, sorted_it.
  destruct la; cbn [mbind option_bind]; intros [= <-]; cbn [mbind res_bind rbind];
    rewrite ?exact_len_take, ?exact_len_zip, ?exact_len_skip, ?exact_len_exact; eauto.
Qed.

Lemma sorted_finish o k a (s : store) script e x :
  reg_inv o (k, s) -> script_offered (dees k) (dees k) a script e = true ->
  finish_script (sorted_it ple k) a s script e = Some x ->
  exists s' outs, x = Ok (s', outs) /\ script_fault outs = false.
Proof.
  intros Hinv Hoff H. apply script_offered_parts in Hoff as [Hall Hlen].
  assert (forall la (t' : store) l, e = ELen la -> a = ADirect -> reg_inv o (k, t') ->
            adaptor_len (sorted_it ple k) la t' = Some l -> exists n, l = Ok (Ok n)) as Hal.
  { intros la t' l -> -> _ Hl. specialize (Hlen la eq_refl eq_refl). destruct k; [done|].
    by apply sorted_adaptor_len in Hl. }
  destruct (finish_gen (sorted_it ple k) (fun s => reg_inv o (k, s))
              (step_offered (dees k) (dees k) a) a
              (fun left t x r Hi Hx H => sorted_ad_step o k a left t x r Hi Hx H)
              script e s x Hinv Hall Hal H)
    as (s' & outs & outs0 & -> & _ & Hsf & Hrun).
  eauto.
Qed.

(** ** store-level operations that need no sifting *)
Lemma WF_heap_lookup (s : store) pos : WF s -> pos < ssize s ->
  exists i e, heap s !! pos = Some i /\ smap s !! i = Some e.
Proof.
  intros (Hm & (Hh & Hq & H1 & H2) & _) Hp.
  destruct (lookup_lt_is_Some_2 (heap s) pos) as [i Hi]; [lia|].
  pose proof (H1 _ _ Hi) as Hqi. apply lookup_lt_Some in Hqi.
  destruct (lookup_lt_is_Some_2 (smap s) i) as [e He]; [lia|]. eauto.
Qed.
Lemma prio_at_wf (s : store) pos : WF s -> pos < ssize s -> exists p, prio_at s pos = Ok p.
Proof.
  intros H Hp. destruct (WF_heap_lookup s pos H Hp) as (i & e & Hi & He).
  unfold prio_at, getu. rewrite Hi. cbn [mbind res_bind rbind]. rewrite He. cbn. eauto.
Qed.
Lemma slot_entry_wf (s : store) pos : WF s -> pos < ssize s -> exists e, slot_entry s pos = Ok e.
Proof.
  intros H Hp. destruct (WF_heap_lookup s pos H Hp) as (i & e & Hi & He).
  unfold slot_entry, getu. rewrite Hi. cbn [mbind res_bind rbind]. eauto.
Qed.
Lemma cmp_lt_nofuse (s : store) a b : fuse s = None ->
  cmp_lt ple s a b = Ok (plt ple a b, set_ticks s (S (ticks s))).
Proof. intros Hf. unfold cmp_lt, cb. rewrite Hf. reflexivity. Qed.

Lemma find_max_ok o (s : store) : dpq_inv o s ->
  exists r s1, find_max ple s = Ok (r, s1) /\ dpq_inv o s1 /\ ticks s1 <= ticks s + 1 /\
    forall pos, r = Some pos -> pos < ssize s1.
Proof.
  intros (HW & Hf & Hord). unfold find_max. destruct (ssize s) as [|[|[|n]]] eqn:Hs.
  - exists None, s. split; [done|]. split; [done|]. split; [lia|]. done.
  - exists (Some 0), s. split; [done|]. split; [done|]. split; [lia|]. intros ? [= <-]. lia.
  - exists (Some 1), s. split; [done|]. split; [done|]. split; [lia|]. intros ? [= <-]. lia.
  - destruct (prio_at_wf s 1 HW ltac:(lia)) as (p1 & ->).
    destruct (prio_at_wf s 2 HW ltac:(lia)) as (p2 & ->).
    cbn [mbind res_bind rbind]. rewrite cmp_lt_nofuse by done. cbn [mbind res_bind rbind].
    eexists _, _. split; [reflexivity|]. split; [exact (conj HW (conj Hf Hord))|].
    cbn [ticks ssize set_ticks]. split; [lia|]. intros pos [= <-]. destruct (plt ple p2 p1); lia.
Qed.

Lemma peek_max_ok o (s : store) : dpq_inv o s ->
  exists e s1, peek_max ple s = Ok (e, s1) /\ dpq_inv o s1 /\ ticks s1 <= ticks s + 1.
Proof.
  intros H. destruct (find_max_ok o s H) as (r & s1 & Hfm & Hinv & Ht & Hpos).
  unfold peek_max. rewrite Hfm. cbn [mbind res_bind rbind]. destruct r as [pos|]; [|eauto].
  destruct (slot_entry_wf s1 pos) as (e & ->); [apply Hinv | by apply Hpos |].
  cbn [mbind res_bind rbind]. eauto.
Qed.
Lemma peek_min_ok o (s : store) : dpq_inv o s -> exists e, peek_min s = Ok e.
Proof.
  intros (HW & _). unfold peek_min, find_min. destruct (ssize s) eqn:Hs; [eauto|].
  apply slot_entry_wf; [done|lia].
Qed.
Lemma peek_min_mut_ticks (s s' : store) u out :
  peek_min_mut s u = Ok (out, s') -> ticks s' = ticks s.
Proof.
  unfold peek_min_mut, find_min, entry_mut, getu. intros H.
  repeat (case_match; simplify_eq/=); done.
Qed.

Lemma eview_set_entry_pr (s : store) i e e' : smap s !! i = Some e -> pr e' = pr e ->
  pr <$> eview (set_map s (<[i := e']> (smap s))) = pr <$> eview s.
Proof.
  intros Hi Hp. unfold eview. cbn [smap heap set_map].
  induction (heap s) as [|j h IH]; [done|]. cbn [omap list_omap].
  destruct (decide (j = i)) as [-> | Hne].
  - rewrite list_lookup_insert by (eapply lookup_lt_Some; done). rewrite Hi.
    rewrite !fmap_cons, IH, Hp. done.
  - rewrite list_lookup_insert_ne by done. destruct (smap s !! j); rewrite ?fmap_cons, IH; done.
Qed.

Lemma get_mut_ok o k (s : store) i u : item_ok keq u -> reg_inv o (k, s) ->
  reg_inv o (k, (get_mut keq hash s i u).2) /\ ticks (get_mut keq hash s i u).2 = ticks s.
Proof.
  intros Hu Hinv. unfold get_mut. destruct (get_index_of keq hash (smap s) i) as [j|]; [|done].
  destruct (smap s !! j) as [e|] eqn:He; [|done]. cbn [snd]. split; [|done].
  pose proof (reg_inv_parts _ _ _ Hinv) as [HW Hf].
  assert (exists pos, qp s !! j = Some pos) as (pos & Hq).
  { destruct HW as (Hm & (Hh & Hq & _) & _). apply lookup_lt_is_Some_2.
    apply lookup_lt_Some in He. lia. }
  destruct (H_set_entry_ok Hk s j e (u e.1, e.2) pos HW He Hq (Hu e.1)) as [HW' _].
  pose proof (eview_set_entry_pr s j e (u e.1, e.2) He eq_refl) as Hpr.
  destruct k; destruct Hinv as (_ & _ & Hord); (split; [exact HW'|]; split; [exact Hf|]; intros ->).
  - eapply heap_ord_pr; [exact Hpr | by apply Hord].
  - eapply minmax_ord_pr; [exact Hpr | by apply Hord].
Qed.

(** ** draining by repeated pops never runs out of fuel *)
Lemma pop_all_ok o fuel : forall (s : store) acc, pq_inv o s -> ssize s < fuel ->
  exists l t, pop_all ple fuel s acc = Ok (l, t).
Proof.
  induction fuel as [|fuel IH]; intros s acc Hinv Hlt; [lia|]. cbn [pop_all].
  destruct (H_pq_pop Hk Ho o s Hinv) as (out & s' & Hpop & Hinv' & _ & _ & Hout).
  rewrite Hpop. cbn [mbind res_bind rbind]. destruct out as [e|]; [|eauto].
  destruct Hout as (i & _ & Hrm). apply IH; [done|]. apply msri_length in Hrm.
  rewrite <- (reg_inv_size o KPQ s' Hinv'), <- (reg_inv_size o KPQ s Hinv) in *. lia.
Qed.
Lemma dpop_all_ok o mn fuel : forall (s : store) acc, dpq_inv o s -> ssize s < fuel ->
  exists l t, dpop_all ple mn fuel s acc = Ok (l, t).
Proof.
  induction fuel as [|fuel IH]; intros s acc Hinv Hlt; [lia|]. cbn [dpop_all].
  destruct (H_dpq_pop Hk Ho (negb mn) o s Hinv) as (out & s' & Hpop & Hinv' & _ & _ & Hout).
  assert ((if mn then pop_min ple s else pop_max ple s) = Ok (out, s')) as -> by (by destruct mn).
  cbn [mbind res_bind rbind]. destruct out as [e|]; [|eauto].
  destruct Hout as (pos & i & _ & Hrm). apply IH; [done|]. apply msri_length in Hrm.
  rewrite <- (reg_inv_size o KDPQ s' Hinv'), <- (reg_inv_size o KDPQ s Hinv) in *. lia.
Qed.

(** ** one step *)
Lemma total_ticks_setreg0 (m : machine) r k (s : store) :
  total_ticks m = 0 -> ticks s = 0 -> total_ticks (setreg m r k s) = 0.
Proof.
  intros Hz Hs. pose proof (total_ticks_insert m r (Some (k, s))) as Hi. cbn [tk] in Hi.
  unfold setreg. lia.
Qed.

Ltac fin_tac Heq Hinv' :=
  eapply post_fin;
  [eassumption | eassumption | rewrite Heq; reflexivity | reflexivity | exact Hinv' | ].
Ltac cost_log Hr :=
  intros _; unfold reg_size; rewrite Hr; unfold lgn, lg in *;
  match goal with
  | |- context [ssize ?s] =>
      pose proof (Nat.log2_le_mono (ssize s) (ssize s + 1) ltac:(lia))
  end; lia.
Ltac cost_lin Hr := intros _; unfold reg_size; rewrite ?Hr; cbn [ticks set_ticks set_cap clear set_size set_qp set_heap set_map empty_store shrink_to_fit]; lia.

Lemma clone_cbs_nofuse (s : store) n : fuse s = None -> clone_cbs s n = Ok s.
Proof.
  intros Hf. induction n as [|n IH]; cbn [clone_cbs]; [done|].
  unfold cb. rewrite Hf. cbn [mbind res_bind rbind]. rewrite Hf. cbn [mbind res_bind rbind]. exact IH.
Qed.
Lemma reg_inv_fuse ord k (s : store) : reg_inv ord (k, s) -> fuse s = None.
Proof. destruct k; intros (_ & Hf & _); exact Hf. Qed.

Lemma debug_ok ord k (s : store) : reg_inv ord (k, s) ->
  forallb (fun i => bool_decide (i < length (smap s))) (heap s) = true.
Proof.
  intros Hinv. assert (HWF : WF s) by (destruct k; apply Hinv).
  apply forallb_forall. intros i Hi. apply bool_decide_eq_true.
  apply elem_of_list_In, elem_of_list_lookup in Hi as [p Hp].
  destruct HWF as (Hm & (Hh & Hq & H1 & H2) & _).
  pose proof (H1 _ _ Hp) as Hqi. apply lookup_lt_Some in Hqi. lia.
Qed.

Lemma step1_main ord (m : machine) (o : op) :
  inv_m ord m -> total_ticks m = 0 -> adm keq alloc_limit m o -> (ord = true -> no_forget o) ->
  post ord (costed o) (cost_bound m o) (stp1 None m o).
Proof.
  intros Hm Hz (Hcl & Hlim & Hnf) Hfg.
  destruct o as [k r|k r c|k r l|k r l h|r i p|r i p|r i p|r i p|r i g|r i|r sd|r sd u|r sd
                |r sd f|r i|r i|r i u|r|r|r f|r a script e|r a script e|r a script e
                |r a script e|r a script e|r|r sd|r|r l h|dst src|r|src dst|src dst|ra rb|src k dst
                |k r l|r n|r n|r|r|r|n o];
    try destruct sd;
    cbn [Machine.step1 closures_ok limits_ok no_fuse no_forget cost_bound costed] in *.
  all: try (destruct (getreg m r) as [[k s]|] eqn:Hr; [|by apply post_same];
            pose proof (Hm r _ Hr) as Hinv; pose proof (total_ticks_reg m r _ _ Hz Hr) as Hs0).
  - (* ONew *) apply post_set; [done|done|apply reg_inv_empty|done|cost_lin I].
  - (* OWithCap *) unfold with_capacity. rewrite decide_True by done.
    eapply post_new; [done|done|reflexivity|apply reg_inv_empty|cost_lin I].
  - (* OFromVec *) destruct (from_vec_ok k l) as (s' & Hb & Hinv' & Ht).
    eapply post_new; [done|done|exact Hb|by apply reg_inv_mono|intros _; lia].
  - (* OFromIter *) destruct (from_iter_ok k l h Hlim) as (s' & Hb & Hinv' & Ht).
    eapply post_new; [done|done|exact Hb|by apply reg_inv_mono|intros _; lia].
  - (* OPush *) destruct k.
    + destruct (H_pq_push Hk Ho ord s i p Hinv) as (out' & s' & Heq & Hinv' & Ht & _).
      fin_tac Heq Hinv'. cost_log Hr.
    + destruct (H_dpq_push Hk Ho ord s i p Hinv) as (out' & s' & Heq & Hinv' & Ht & _).
      fin_tac Heq Hinv'. cost_log Hr.
  - (* OPushInc *) destruct k.
    + destruct (H_pq_push_dir Hk Ho true ord s i p Hinv) as (out' & s' & Heq & Hinv' & Ht & _).
      cbv beta iota in Heq. fin_tac Heq Hinv'. cost_log Hr.
    + destruct (H_dpq_push_dir Hk Ho true ord s i p Hinv) as (out' & s' & Heq & Hinv' & Ht & _).
      cbv beta iota in Heq. fin_tac Heq Hinv'. cost_log Hr.
  - (* OPushDec *) destruct k.
    + destruct (H_pq_push_dir Hk Ho false ord s i p Hinv) as (out' & s' & Heq & Hinv' & Ht & _).
      cbv beta iota in Heq. fin_tac Heq Hinv'. cost_log Hr.
    + destruct (H_dpq_push_dir Hk Ho false ord s i p Hinv) as (out' & s' & Heq & Hinv' & Ht & _).
      cbv beta iota in Heq. fin_tac Heq Hinv'. cost_log Hr.
  - (* OChange *) destruct k.
    + destruct (H_pq_change_priority Hk Ho ord s i p Hinv) as (out' & s' & Heq & Hinv' & Ht & _).
      fin_tac Heq Hinv'. cost_log Hr.
    + destruct (H_dpq_change_priority Hk Ho ord s i p Hinv) as (out' & s' & Heq & Hinv' & Ht & _).
      fin_tac Heq Hinv'. cost_log Hr.
  - (* OChangeBy *) destruct k.
    + destruct (H_pq_change_priority_by Hk Ho ord s i g Hinv) as (out' & s' & Heq & Hinv' & Ht & _).
      fin_tac Heq Hinv'. cost_log Hr.
    + destruct (H_dpq_change_priority_by Hk Ho ord s i g Hinv) as (out' & s' & Heq & Hinv' & Ht & _).
      fin_tac Heq Hinv'. cost_log Hr.
  - (* ORemove *) destruct k.
    + destruct (H_pq_remove Hk Ho ord s i Hinv) as (out' & s' & Heq & Hinv' & Ht & _).
      fin_tac Heq Hinv'. cost_log Hr.
    + destruct (H_dpq_remove Hk Ho ord s i Hinv) as (out' & s' & Heq & Hinv' & Ht & _).
      fin_tac Heq Hinv'. cost_log Hr.
  - (* OPeek SMin *) destruct k; [by apply post_same|].
    destruct (peek_min_ok ord s Hinv) as (e & Heq). fin_tac Heq Hinv. intros _; lia.
  - (* OPeek SMax *) destruct k; [by apply post_same|].
    destruct (peek_max_ok ord s Hinv) as (e & s1 & Heq & Hinv' & Ht).
    fin_tac Heq Hinv'. intros _; lia.
  - (* OPeekMut SMin *) destruct k; [by apply post_same|].
    destruct (H_dpq_peek_mut Hk Ho false ord s u Hcl Hinv) as (out' & s' & Heq & Hinv' & _).
    cbv beta iota in Heq. pose proof (peek_min_mut_ticks _ _ _ _ Heq) as Ht.
    fin_tac Heq Hinv'. intros _; lia.
  - (* OPeekMut SMax *) destruct k.
    + destruct (H_pq_peek_mut Hk Ho ord s u Hcl Hinv) as (out' & s' & Heq & Hinv' & Ht & _).
      fin_tac Heq Hinv'. intros _; lia.
    + destruct (H_dpq_peek_mut Hk Ho true ord s u Hcl Hinv) as (out' & s' & Heq & Hinv' & Ht & _).
      cbv beta iota in Heq. fin_tac Heq Hinv'. intros _; lia.
  - (* OPop SMin *) destruct k; [by apply post_same|].
    destruct (H_dpq_pop Hk Ho false ord s Hinv) as (out' & s' & Heq & Hinv' & Ht & _).
    cbv beta iota in Heq. fin_tac Heq Hinv'. cost_log Hr.
  - (* OPop SMax *) destruct k.
    + destruct (H_pq_pop Hk Ho ord s Hinv) as (out' & s' & Heq & Hinv' & Ht & _).
      fin_tac Heq Hinv'. cost_log Hr.
    + destruct (H_dpq_pop Hk Ho true ord s Hinv) as (out' & s' & Heq & Hinv' & Ht & _).
      cbv beta iota in Heq. fin_tac Heq Hinv'. cost_log Hr.
  - (* OPopIf SMin *) destruct k; [by apply post_same|].
    destruct (H_dpq_pop_if Hk Ho false ord s f Hcl Hinv) as (out' & s' & Heq & Hinv' & Ht & _).
    cbv beta iota in Heq. fin_tac Heq Hinv'. cost_log Hr.
  - (* OPopIf SMax *) destruct k.
    + destruct (H_pq_pop_if Hk Ho ord s f Hcl Hinv) as (out' & s' & Heq & Hinv' & Ht & _).
      fin_tac Heq Hinv'. cost_log Hr.
    + destruct (H_dpq_pop_if Hk Ho true ord s f Hcl Hinv) as (out' & s' & Heq & Hinv' & Ht & _).
      cbv beta iota in Heq. fin_tac Heq Hinv'. cost_log Hr.
  - (* OGet *) by apply post_same.
  - (* OGetPrio *) by apply post_same.
  - (* OGetMut *) pose proof (get_mut_ok ord k s i u Hcl Hinv) as [Hi Ht].
    destruct (get_mut keq hash s i u) as [e s']. cbn [snd] in *.
    apply post_set; [done|done|done|done|intros _; lia].
  - (* OLen *) by apply post_same.
  - (* OIsEmpty *) by apply post_same.
  - (* ORetain *)
    destruct (retain_ok k s f Hcl (reg_inv_weak _ _ _ Hinv)) as (s' & Heq & Hinv' & Ht).
    eapply post_fin; [done|done|rewrite Heq; reflexivity|reflexivity|by apply reg_inv_mono|].
    intros _. unfold reg_size. rewrite Hr. lia.
  - (* OIterMut *) change (match k with KPQ => false | KDPQ => true end) with (dees k).
    destruct (script_offered (dees k) (dees k) a script e) eqn:Hoff; cbn [negb];
      [|by apply post_same].
    destruct (finish_script (im_it k) a (s, im_new s) script e) as [x|] eqn:Hfs;
      [|by apply post_same].
    destruct (im_finish k a s script e x Hoff Hfs) as (s' & st' & outs & outs0 & -> & Hsf & Hrun).
    destruct (H_itermut _ _ _ _ _ _ _ _ Hrun) as (_ & _ & _ & _ & _ & _ & Hsz & Htk & Hfu & _).
    pose proof (reg_inv_parts _ _ _ Hinv) as [HW Hf].
    pose proof (H_itermut_wf Hk _ _ _ _ _ _ _ _ HW Hcl Hrun) as HW'.
    assert (reg_inv false (k, s')) as Hinv'.
    { destruct k; (split; [exact HW'|]; split; [exact (eq_trans Hfu Hf)|]; done). }
    cbn [mbind res_bind rbind fst]. rewrite Hsf.
    destruct (build_ok k s' Hinv') as (s2 & Hb & Hinv2 & Ht2).
    destruct e as [| |la].
    + eapply post_fin; [done|done|rewrite Hb; reflexivity|reflexivity|by apply reg_inv_mono|].
      intros _. unfold reg_size. rewrite Hr. lia.
    + destruct ord; [by destruct (Hfg eq_refl)|].
      eapply post_fin; [done|done|reflexivity|reflexivity|exact Hinv'|]. intros _. lia.
    + eapply post_fin; [done|done|rewrite Hb; reflexivity|reflexivity|by apply reg_inv_mono|].
      intros _. unfold reg_size. rewrite Hr. lia.
  - (* OIter *) destruct (negb _); [by apply post_same|].
    destruct (finish_script dq_it a (smap s) script e) as [[[t outs]| |]|] eqn:Hfs;
      try by apply post_same.
    rewrite (dq_finish _ _ _ _ _ _ Hfs). by apply post_same.
  - (* OIntoIter *) destruct (negb _); [by apply post_same|].
    destruct (finish_script dq_it a (smap s) script e) as [[[t outs]| |]|] eqn:Hfs;
      try by apply post_same.
    rewrite (dq_finish _ _ _ _ _ _ Hfs). by apply post_same.
  - (* ODrain *) destruct (negb _); [by apply post_same|]. cbn [drain].
    destruct (finish_script dq_it a (smap s) script e) as [[[t outs]| |]|] eqn:Hfs;
      try by apply post_same.
    rewrite (dq_finish _ _ _ _ _ _ Hfs).
    apply post_set; [done|done|by apply reg_inv_clear|done|cost_lin Hr].
  - (* OIntoSortedIter *) change (match k with KPQ => false | KDPQ => true end) with (dees k).
    destruct (script_offered (dees k) (dees k) a script e) eqn:Hoff; cbn [negb];
      [|by apply post_same].
    destruct (finish_script (sorted_it ple k) a s script e) as [x|] eqn:Hfs;
      [|by apply post_same].
    destruct (sorted_finish ord k a s script e x Hinv Hoff Hfs) as (t & outs & -> & Hsf).
    rewrite Hsf. apply post_set; [done|done|by apply reg_inv_set_ticks|done|intros []].
  - (* OClear *)
    rewrite (clone_cbs_nofuse (clear s) _ (reg_inv_fuse _ _ _ (reg_inv_clear _ _ _ Hinv))).
    apply post_set; [done|done|by apply reg_inv_clear|done|cost_lin Hr].
  - (* OIntoSortedVec SMin *) destruct k; [by apply post_same|].
    destruct (dpop_all_ok ord true _ s [] Hinv (Nat.lt_succ_diag_r _)) as (l & t & Heq).
    unfold into_sorted_vec_dir. rewrite Heq.
    apply post_set; [done|done|by apply (reg_inv_set_ticks ord KDPQ)|done|intros []].
  - (* OIntoSortedVec SMax *) destruct k.
    + destruct (pop_all_ok ord _ s [] Hinv (Nat.lt_succ_diag_r _)) as (l & t & Heq).
      unfold into_sorted_vec. rewrite Heq.
      apply post_set; [done|done|by apply (reg_inv_set_ticks ord KPQ)|done|intros []].
    + destruct (dpop_all_ok ord false _ s [] Hinv (Nat.lt_succ_diag_r _)) as (l & t & Heq).
      unfold into_sorted_vec_dir. rewrite Heq.
      apply post_set; [done|done|by apply (reg_inv_set_ticks ord KDPQ)|done|intros []].
  - (* OIntoVec *) by apply post_same.
  - (* OExtend *) destruct k.
    + destruct (H_pq_extend Hk Ho ord s l h Hinv (Hlim _ eq_refl)) as (s' & Heq & Hi & _).
      eapply post_fin; [done|done|rewrite Heq; reflexivity|reflexivity| |intros []].
      destruct Hi as [Hi|[Hi _]]; [by apply pq_inv_mono|done].
    + destruct (H_dpq_extend Hk Ho ord s l h Hinv (Hlim _ eq_refl)) as (s' & Heq & Hi & _).
      eapply post_fin; [done|done|rewrite Heq; reflexivity|reflexivity| |intros []].
      destruct Hi as [Hi|[Hi _]]; [by apply dpq_inv_mono|done].
  - (* OAppend *) destruct (decide (dst = src)) as [-> | Hne]; [by apply post_same|].
    destruct (getreg m dst) as [[k s]|] eqn:Hd; [|by apply post_same].
    destruct (getreg m src) as [[k' o]|] eqn:Hs; [|by apply post_same].
    destruct (decide (k = k')) as [<- |]; [|by apply post_same].
    destruct (append keq hash s o) as [s1 o1] eqn:Ha.
    destruct (append_ok k s o s1 o1 (reg_inv_weak _ _ _ (Hm _ _ Hd))
                (reg_inv_weak _ _ _ (Hm _ _ Hs)) Ha) as (s' & Hb & Hi1 & Hi2 & Ht & Hto).
    pose proof (total_ticks_reg m dst _ _ Hz Hd). pose proof (total_ticks_reg m src _ _ Hz Hs).
    eapply post_fin; [apply inv_m_setreg; [done|by apply reg_inv_mono]
                     |apply total_ticks_setreg0; [done|lia]
                     |rewrite Hb; reflexivity|reflexivity|by apply reg_inv_mono|].
    intros _. unfold reg_size. rewrite Hd, Hs. lia.
  - (* OConvert *) set (k' := match k with KPQ => KDPQ | KDPQ => KPQ end).
    destruct (build_ok k' s (reg_inv_conv _ _ k' _ Hinv)) as (s' & Hb & Hinv' & Ht). rewrite Hb.
    apply post_set; [done|done|by apply reg_inv_mono|done|].
    intros _. unfold reg_size. rewrite Hr. lia.
  - (* OClone *) destruct (getreg m src) as [[k s]|] eqn:Hr; [|by apply post_same].
    rewrite (clone_cbs_nofuse s _ (reg_inv_fuse _ _ _ (Hm src _ Hr))).
    apply post_set; [done|done|apply reg_inv_set_ticks; by apply (Hm src)|done|cost_lin Hr].
  - (* OCloneFrom *) destruct (decide (src = dst)); [by apply post_same|].
    destruct (getreg m src) as [[k s]|] eqn:Hr; [|by apply post_same].
    destruct (getreg m dst) as [[k' s']|] eqn:Hd; [|by apply post_same].
    destruct (decide (k = k')); [|by apply post_same].
    rewrite (clone_cbs_nofuse s _ (reg_inv_fuse _ _ _ (Hm src _ Hr))).
    apply post_set; [done|done|apply reg_inv_set_ticks; by apply (Hm src)|done|cost_lin Hr].
  - (* OEq *) destruct (getreg m ra) as [[k s]|]; [|by apply post_same].
    destruct (getreg m rb) as [[k' s']|]; [|by apply post_same].
    destruct (decide (k = k')); by apply post_same.
  - (* OSerDe *) destruct (getreg m src) as [[k0 s]|] eqn:Hr; [|by apply post_same].
    destruct (deser_ok k (serialize s)) as (s' & Hb & Hinv' & Ht).
    eapply post_new; [done|done|exact Hb|by apply reg_inv_mono|].
    intros _. unfold reg_size. rewrite Hr. unfold serialize in Ht.
    rewrite (reg_inv_size _ _ _ (Hm _ _ Hr)) in Ht. lia.
  - (* ODeser *) destruct (deser_ok k l) as (s' & Hb & Hinv' & Ht).
    eapply post_new; [done|done|exact Hb|by apply reg_inv_mono|intros _; lia].
  - (* OReserve *) unfold reserve. rewrite decide_True by exact (Hlim _ eq_refl).
    eapply post_fin; [done|done|reflexivity|reflexivity|by apply reg_inv_set_cap|cost_lin Hr].
  - (* OTryReserve *) unfold try_reserve. destruct (decide _).
    + apply post_set; [done|done|by apply reg_inv_set_cap|done|cost_lin Hr].
    + apply post_set; [done|done|done|done|cost_lin Hr].
  - (* OShrink *) apply post_set; [done|done|by apply (reg_inv_set_cap ord k s)|done|cost_lin Hr].
  - (* OCapacity *) by apply post_same.
  - (* ODebug *) rewrite (debug_ok ord k s Hinv). by apply post_same.
  - (* OFuse *) destruct Hnf.
Qed.

End WithOk.

(** ** from [step1] to [step] *)
Lemma step_unfold (m : machine) (o : op) :
  no_fuse o -> stp m o = stp1 None (reset_ticks m) o.
Proof. destruct o; try reflexivity. intros []. Qed.

Lemma adm_reset (m : machine) (o : op) :
  adm keq alloc_limit m o -> adm keq alloc_limit (reset_ticks m) o.
Proof.
  intros (H1 & H2 & H3). split; [done|]. split; [|done].
  destruct o; try done; cbn [limits_ok] in *; intros ks; rewrite getreg_reset;
    (destruct (getreg m r) as [ks0|] eqn:Hr; [|done]); intros [= <-]; first [exact (H2 _ eq_refl) | exact (H2 _ Hr)].
Qed.

Lemma cost_bound_reset (m : machine) (o : op) : cost_bound (reset_ticks m) o = cost_bound m o.
Proof.
  destruct o; try destruct sd; cbn [cost_bound]; rewrite ?reg_size_reset; reflexivity.
Qed.

Lemma step_main ord (m : machine) (o : op) :
  keq_ok keq hash -> ord_ok ple ->
  inv_m ord m -> adm keq alloc_limit m o -> (ord = true -> no_forget o) ->
  inv_m ord (stp m o).1 /\ is_fault (stp m o).2 = false /\
  (costed o -> total_ticks (stp m o).1 <= cost_bound m o).
Proof.
  intros Hk Ho Hm Ha Hfg. rewrite step_unfold by apply Ha. rewrite <- cost_bound_reset.
  apply (step1_main Hk Ho ord (reset_ticks m) o);
    [by apply inv_m_reset | apply total_ticks_reset | by apply adm_reset | done].
Qed.

(** ** the pinned statements *)
Theorem step_safe : step_safe_stmt keq hash ple peq alloc_limit.
Proof.
  intros Hk Ho m o Hs Ha.
  destruct (step_main false m o Hk Ho Hs Ha) as (H1 & H2 & _); done.
Qed.

Theorem step_good : step_good_stmt keq hash ple peq alloc_limit.
Proof.
  intros Hk Ho m o Hs Ha Hnf.
  destruct (step_main true m o Hk Ho Hs Ha (fun _ => Hnf)) as (H1 & H2 & _); done.
Qed.

Theorem step_cost : step_cost_stmt keq hash ple peq alloc_limit.
Proof.
  intros Hk Ho m o Hs Ha Hnf Hc.
  destruct (step_main true m o Hk Ho Hs Ha (fun _ => Hnf)) as (_ & _ & H3). by apply H3.
Qed.

Theorem run_safe : run_safe_stmt keq hash ple peq alloc_limit.
Proof.
  intros Hk Ho h. induction h as [|o h IH]; intros m Hs Ha; cbn [run]; [constructor|].
  cbn [adm_hist] in Ha. destruct Ha as (Ha & _ & Hh).
  destruct (step_safe Hk Ho m o Hs Ha) as [H1 H2].
  destruct (stp m o) as [m' x] eqn:Hst. cbn [fst snd] in *.
  constructor; [done|]. rewrite H2. by apply IH.
Qed.

Theorem run_good : run_good_stmt keq hash ple peq alloc_limit.
Proof.
  intros Hk Ho h. induction h as [|o h IH]; intros m Hs Ha; cbn [run]; [constructor|].
  cbn [adm_hist] in Ha. destruct Ha as (Ha & Hnf & Hh).
  destruct (step_good Hk Ho m o Hs Ha Hnf) as [H1 H2].
  destruct (stp m o) as [m' x] eqn:Hst. cbn [fst snd] in *.
  constructor; [done|]. rewrite H2. by apply IH.
Qed.

End MachineProofs.
