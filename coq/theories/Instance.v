(** * Instance: the concrete instantiation that is extracted and run.
    Items are (key, payload) with Eq/Hash on the key only; priorities are
    integers under <=. *)
From PQV Require Export Machine.

Definition item := (Z * Z)%type.
Definition ikeq (a b : item) : bool := Z.eqb a.1 b.1.
(** hash mode 0: a key-dependent hash; anything else: everything collides *)
Definition ihash (mode : nat) (a : item) : N :=
  match mode with O => Z.to_N (Z.abs a.1) | _ => 0%N end.
Definition alloc_lim : N := 576460752303423488%N.   (* 2^59 *)

Definition zmachine := @machine item Z.
Definition zop := @op item Z.
Definition zout := @out item Z.

Definition zstep (mode : nat) : zmachine -> zop -> zmachine * zout :=
  step ikeq (ihash mode) Z.leb Z.eqb alloc_lim.
Definition zrun (mode : nat) : zmachine -> list zop -> list (zout * nat * zmachine) :=
  run ikeq (ihash mode) Z.leb Z.eqb alloc_lim.

Definition init_machine (n : nat) : zmachine := replicate n None.
