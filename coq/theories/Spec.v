(** * Spec: machine-level invariants, admissibility of operations, cost
    bounds, and the pinned machine-level statements. *)
From PQV Require Export OpSpec Machine.

Section Spec.
Context {I P : Type}.
Variable keq : I -> I -> bool.
Variable hash : I -> N.
Variable ple : P -> P -> bool.
Variable peq : P -> P -> bool.
Variable alloc_limit : N.

Notation store := (store I P).
Notation machine := (@machine I P).
Notation op := (@op I P).
Notation out := (@out I P).
Notation step := (step keq hash ple peq alloc_limit).
Notation run := (run keq hash ple peq alloc_limit).

(** ** the per-register invariant *)
Definition reg_inv (ordered : bool) (ks : kind * store) : Prop :=
  match ks.1 with
  | KPQ => pq_inv keq ple ordered ks.2
  | KDPQ => dpq_inv keq ple ordered ks.2
  end.

(** every queue is well-formed (what the unchecked accesses trust) *)
Definition safe (m : machine) : Prop :=
  forall r ks, getreg m r = Some ks -> reg_inv false ks.
(** every queue is well-formed and correctly ordered *)
Definition good (m : machine) : Prop :=
  forall r ks, getreg m r = Some ks -> reg_inv true ks.

(** ** well-behaved user code, documented limits *)
Definition istep_ok (x : istep I P) : Prop :=
  match x with
  | INext _ u | INextBack _ u => item_ok keq u
  | _ => True
  end.

Fixpoint closures_ok (o : op) : Prop :=
  match o with
  | OPeekMut _ _ u | OGetMut _ _ u => item_ok keq u
  | OPopIf _ _ f | ORetain _ f => pred_ok keq f
  | OIterMut _ _ script _ => Forall istep_ok script
  | OFuse _ o' => closures_ok o'
  | _ => True
  end.

(** the documented capacity-overflow panics of reserve / with_capacity
    aside: what is asked for (for extend/from_iter: the *lower* bound of a
    legal size_hint, which never exceeds what is really inserted) fits *)
Definition limits_ok (m : machine) (o : op) : Prop :=
  match o with
  | OWithCap _ _ c => (c <= alloc_limit)%N
  | OFromIter _ _ _ h => (h.1 <= alloc_limit)%N
  | OExtend r _ h =>
      forall ks, getreg m r = Some ks ->
        (N.of_nat (length (smap ks.2)) + h.1 <= alloc_limit)%N
  | OReserve r n =>
      forall ks, getreg m r = Some ks ->
        (N.of_nat (length (smap ks.2)) + n <= alloc_limit)%N
  | _ => True
  end.

Definition no_fuse (o : op) : Prop := match o with OFuse _ _ => False | _ => True end.
Definition no_forget (o : op) : Prop :=
  match o with OIterMut _ _ _ EForget => False | _ => True end.

(** fault-free use: closures return and respect Eq classes, no fuse *)
Definition adm (m : machine) (o : op) : Prop :=
  closures_ok o /\ limits_ok m o /\ no_fuse o.

(** a whole history is admissible along its own run *)
Fixpoint adm_hist (q : op -> Prop) (m : machine) (h : list op) : Prop :=
  match h with
  | [] => True
  | o :: h' => adm m o /\ q o /\ adm_hist q (step m o).1 h'
  end.

(** ** caught panics (C10): any operation, with or without an armed fuse *)
Definition strip_fuse (o : op) : op := match o with OFuse _ o' => o' | _ => o end.
Definition adm_fuse (m : machine) (o : op) : Prop :=
  closures_ok o /\ limits_ok m (strip_fuse o).
Fixpoint adm_fuse_hist (m : machine) (h : list op) : Prop :=
  match h with
  | [] => True
  | o :: h' => adm_fuse m o /\ adm_fuse_hist (step m o).1 h'
  end.

(** ** pinned statements *)

(** C04: no fault, tables stay consistent — also across leaked iter_mut guards *)
Definition step_safe_stmt : Prop := keq_ok keq hash -> ord_ok ple ->
  forall m o, safe m -> adm m o ->
    safe (step m o).1 /\ is_fault (step m o).2 = false.

(** C01 / C02 (invariant part): without leaked guards every queue stays ordered *)
Definition step_good_stmt : Prop := keq_ok keq hash -> ord_ok ple ->
  forall m o, good m -> adm m o -> no_forget o ->
    good (step m o).1 /\ is_fault (step m o).2 = false.

(** C10: whichever user callback of whichever operation panics (the k-th
    one, for every k), and whatever is done afterwards, every queue stays
    well-formed - the state every unchecked access relies on - and no
    operation faults (no out-of-range unchecked access, no panic of the
    crate's own, no non-termination).  Order is not promised after a caught
    panic, safety is. *)
Definition step_unwind_safe_stmt : Prop := keq_ok keq hash -> ord_ok ple ->
  forall m o, safe m -> adm_fuse m o ->
    safe (step m o).1 /\ is_fault (step m o).2 = false.
Definition run_unwind_safe_stmt : Prop := keq_ok keq hash -> ord_ok ple ->
  forall h m, safe m -> adm_fuse_hist m h ->
    Forall (fun x : out * nat * machine => is_fault x.1.1 = false /\ safe x.2) (run m h).

Definition run_safe_stmt : Prop := keq_ok keq hash -> ord_ok ple ->
  forall h m, safe m -> adm_hist (fun _ => True) m h ->
    Forall (fun x : out * nat * machine => is_fault x.1.1 = false /\ safe x.2) (run m h).

Definition run_good_stmt : Prop := keq_ok keq hash -> ord_ok ple ->
  forall h m, good m -> adm_hist no_forget m h ->
    Forall (fun x : out * nat * machine => is_fault x.1.1 = false /\ good x.2) (run m h).

(** ** C05: comparison counts per operation *)
Definition lgn (n : nat) : nat := Nat.log2 (n + 1).
Definition reg_size (m : machine) (r : nat) : nat :=
  match getreg m r with Some (_, s) => ssize s | None => 0 end.

(** bound on the number of priority comparisons of one step, as a function
    of the sizes before the step *)
Definition cost_bound (m : machine) (o : op) : nat :=
  match o with
  | OPush r _ _ | OPushInc r _ _ | OPushDec r _ _ | OChange r _ _ | OChangeBy r _ _
  | ORemove r _ | OPop r _ | OPopIf r _ _ => 9 * lgn (reg_size m r) + 21
  | OPeek r SMax | OPeekMut r SMax _ => 1
  | OPeek _ SMin | OPeekMut _ SMin _ => 0
  | OLen _ | OIsEmpty _ | OGet _ _ | OGetPrio _ _ | OGetMut _ _ _ | OCapacity _ | ODebug _
  | OReserve _ _ | OTryReserve _ _ | OShrink _ | OClear _ | OIntoVec _ | OClone _ _ | OCloneFrom _ _
  | OEq _ _ | ONew _ _ | OWithCap _ _ _ | OIter _ _ _ _ | OIntoIter _ _ _ _ | ODrain _ _ _ _ => 0
  | OFromVec _ _ l | OFromIter _ _ l _ | ODeser _ _ l => 16 * length l
  | ORetain r _ | OIterMut r _ _ _ | OConvert r => 16 * reg_size m r
  | OSerDe src _ _ => 16 * reg_size m src
  | OAppend d s => 16 * (reg_size m d + reg_size m s)
  | _ => 0
  end.
(** the operations C05 speaks about *)
Definition costed (o : op) : Prop :=
  match o with
  | OExtend _ _ _ | OIntoSortedIter _ _ _ _ | OIntoSortedVec _ _ | OFuse _ _ => False
  | _ => True
  end.

Definition step_cost_stmt : Prop := keq_ok keq hash -> ord_ok ple ->
  forall m o, good m -> adm m o -> no_forget o -> costed o ->
    total_ticks (step m o).1 <= cost_bound m o.

End Spec.
