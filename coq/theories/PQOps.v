(** * PQOps: the public operations of PriorityQueue (PQ.v) meet the pinned
    statements of OpSpec.v. *)
From PQV Require Export SimPQ OpSpec AbsPQProofs AbsCostProofs.

Arguments Nat.mul : simpl never.
Arguments Nat.add : simpl never.
Arguments Nat.div : simpl never.
Arguments Nat.sub : simpl never.
Arguments Nat.log2 : simpl never.

Section PQOps.
Context {I P : Type}.
Variable keq : I -> I -> bool.
Variable hash : I -> N.
Variable ple : P -> P -> bool.
Variable alloc_limit : N.

Notation store := (store I P).
Notation R := (res store).
Notation pr := (snd : I * P -> P).

(* TEMPORARY: to be replaced by the theorems of StoreProofs.v *)
Hypothesis eview_lookup : @eview_lookup_stmt I P keq.
Hypothesis eview_length : @eview_length_stmt I P keq.
Hypothesis prio_at_ok : @prio_at_ok_stmt I P keq.
Hypothesis swap_ok : @swap_ok_stmt I P keq.
Hypothesis swap_remove_ok : @swap_remove_ok_stmt I P keq.
Hypothesis remove_ok : @remove_ok_stmt I P keq hash.
Hypothesis set_entry_ok : @set_entry_ok_stmt I P keq hash.
Hypothesis push_entry_ok : @push_entry_ok_stmt I P keq hash.
Hypothesis identity_ok : @identity_ok_stmt I P keq.
Hypothesis hole_move_ok : @hole_move_ok_stmt I P keq.
Hypothesis get_index_of_spec : @get_index_of_spec_stmt I P keq hash.
Hypothesis eview_perm : @eview_perm_stmt I P keq.

Notation WF := (WF keq).
Notation gio := (get_index_of keq hash).
Notation pq_inv := (pq_inv keq ple).

Local Notation heapify_sim' := (heapify_sim keq ple eview_length prio_at_ok swap_ok).
Local Notation up_heapify_sim' :=
  (up_heapify_sim keq ple eview_lookup eview_length prio_at_ok swap_ok hole_move_ok).
Local Notation heap_build_sim' := (heap_build_sim keq ple eview_length prio_at_ok swap_ok).
Local Notation bubble_up_sim' :=
  (bubble_up_sim keq ple eview_lookup eview_length prio_at_ok hole_move_ok).

Ltac splits := unfold OpSpec.pq_inv; repeat match goal with |- _ /\ _ => split end.

(** ** small facts *)
Lemma lg_mono a b : a <= b -> lg a <= lg b.
Proof. apply Nat.log2_le_mono. Qed.

Lemma WF_qp_pos (s : store) i pos : WF s -> qp s !! i = Some pos ->
  heap s !! pos = Some i /\ pos < ssize s /\ i < ssize s.
Proof.
  intros (_ & (Hh & Hq & _ & H2) & _) Hqi. pose proof (H2 _ _ Hqi) as Hhp.
  split; [done|]. apply lookup_lt_Some in Hhp, Hqi. lia.
Qed.

Lemma WF_slot_qp (s : store) i : WF s -> i < ssize s -> exists pos, qp s !! i = Some pos.
Proof.
  intros (_ & (Hh & Hq & _ & H2) & _) Hi. apply lookup_lt_is_Some. lia.
Qed.

Lemma gio_some (Hk : keq_ok keq hash) (m : list (I * P)) k i :
  gio m k = Some i -> exists e, m !! i = Some e /\ keq e.1 k = true.
Proof.
  intros H. pose proof (get_index_of_spec Hk m k) as Hs. rewrite H in Hs.
  destruct Hs as (e & ? & ? & _). eauto.
Qed.

Lemma keq_sym (Hk : keq_ok keq hash) a b : keq a b = true -> keq b a = true.
Proof. destruct Hk as (_ & H & _). apply H. Qed.
Lemma keq_refl (Hk : keq_ok keq hash) a : keq a a = true.
Proof. destruct Hk as (H & _). apply H. Qed.
Lemma keq_trans (Hk : keq_ok keq hash) a b c : keq a b = true -> keq b c = true -> keq a c = true.
Proof. destruct Hk as (_ & _ & H & _). apply H. Qed.

(** ** peek *)
Lemma peek_eview (s : store) : WF s -> peek s = eview s !! 0.
Proof. intros H. rewrite (eview_lookup s 0 H). reflexivity. Qed.

Theorem pq_peek : pq_peek_stmt keq hash ple.
Proof.
  intros Hk Ho s (HWF & Hf & Hord). specialize (Hord eq_refl).
  rewrite (peek_eview s HWF).
  destruct (eview s !! 0) as [e|] eqn:He.
  - split.
    + destruct (heap_root_max snd ple Ho (eview s) e Hord He) as [Hin Hmax].
      pose proof (eview_perm s HWF) as Hp. split.
      * rewrite <- Hp. done.
      * intros y Hy. apply Hmax. rewrite Hp. done.
    + rewrite (eview_lookup s 0 HWF) in He.
      destruct (heap s !! 0) as [i|]; [|done]. exists i. done.
  - apply lookup_ge_None in He. rewrite (eview_length s HWF) in He.
    destruct HWF as (Hm & _). apply nil_length_inv. lia.
Qed.

(** ** re-sifting after an in-place rewrite of the entry of slot [i] *)
Lemma update_ok o (s : store) i e e' pos :
  keq_ok keq hash -> ord_ok ple -> pq_inv o s ->
  smap s !! i = Some e -> qp s !! i = Some pos -> keq e'.1 e.1 = true ->
  exists s', up_heapify ple (set_map s (<[i := e']> (smap s))) pos = Ok s' /\
    pq_inv o s' /\ smap s' = <[i := e']> (smap s) /\ ssize s' = ssize s /\
    ticks s' <= ticks s + (3 * lg (ssize s) + 4).
Proof.
  intros Hk Ho (HWF & Hf & Hord) Hi Hq Hke.
  destruct (set_entry_ok Hk s i e e' pos HWF Hi Hq Hke) as [HWF1 Hev1].
  destruct (WF_qp_pos s i pos HWF Hq) as (_ & Hpos & _).
  set (s1 := set_map s (<[i := e']> (smap s))) in *.
  destruct (up_heapify_sim' s1 pos HWF1 Hf Hpos)
    as (s2 & Hr & HWF2 & Hev2 & Hm2 & Hsz2 & Htk2 & Hfu2 & Hcp2).
  exists s2. splits; try done.
  - rewrite Hfu2. done.
  - intros ->. rewrite Hev2, Hev1.
    apply (a_update_ok snd ple Ho (eview s) pos e'); [by apply Hord|].
    rewrite (eview_length s HWF). done.
  - rewrite Htk2, Hev1. change (ticks s1) with (ticks s).
    pose proof (pq_cost snd ple (eview s)) as (_ & Hc & _).
    specialize (Hc pos e'). rewrite (eview_length s HWF) in Hc.
    unfold a_update in Hc. unfold lg. specialize (Hc Hpos). lia.
Qed.

Lemma WF_smap_lt (s : store) i e : WF s -> smap s !! i = Some e -> i < ssize s.
Proof. intros (Hm & _) H. apply lookup_lt_Some in H. lia. Qed.

(** ** change_priority, change_priority_by *)
Theorem pq_change_priority : pq_change_priority_stmt keq hash ple.
Proof.
  intros Hk Ho o s k p Hinv. pose proof Hinv as (HWF & Hf & Hord).
  unfold PQ.pq_change_priority, change_priority.
  destruct (gio (smap s) k) as [i|] eqn:Hg.
  - destruct (gio_some Hk _ _ _ Hg) as (e & He & Hke).
    rewrite He. cbn [unwrap mbind res_bind rbind].
    destruct (WF_slot_qp s i HWF (WF_smap_lt s i e HWF He)) as [pos Hq].
    unfold getu. rewrite Hq. cbn [mbind res_bind rbind].
    destruct (update_ok o s i e (e.1, p) pos Hk Ho Hinv He Hq (keq_refl Hk _))
      as (s' & Hr & Hinv' & Hm & Hsz & Htk).
    rewrite Hr. cbn [mbind res_bind rbind].
    exists (Some e.2), s'. split; [done|]. split; [done|]. split; [done|].
    exists e. done.
  - cbn [mbind res_bind rbind]. exists None, s. split; [done|]. split; [done|].
    split; [lia|done].
Qed.

Theorem pq_change_priority_by : pq_change_priority_by_stmt keq hash ple.
Proof.
  intros Hk Ho o s k g Hinv. pose proof Hinv as (HWF & Hf & Hord).
  unfold PQ.pq_change_priority_by, change_priority_by.
  destruct (gio (smap s) k) as [i|] eqn:Hg.
  - destruct (gio_some Hk _ _ _ Hg) as (e & He & Hke).
    rewrite He. cbn [unwrap mbind res_bind rbind].
    rewrite (cb_nofuse s Hf). cbn [mbind res_bind rbind].
    destruct (WF_slot_qp s i HWF (WF_smap_lt s i e HWF He)) as [pos Hq].
    change (qp (set_map s (<[i:=(e.1, g e.2)]> (smap s)))) with (qp s).
    unfold getu. rewrite Hq. cbn [mbind res_bind rbind].
    destruct (update_ok o s i e (e.1, g e.2) pos Hk Ho Hinv He Hq (keq_refl Hk _))
      as (s' & Hr & Hinv' & Hm & Hsz & Htk).
    rewrite Hr. cbn [mbind res_bind rbind].
    exists true, s'. split; [done|]. split; [done|]. split; [done|].
    exists e. done.
  - cbn [mbind res_bind rbind]. exists false, s. split; [done|]. split; [done|].
    split; [lia|done].
Qed.

(** ** push: [bubble_up] does not look at [ssize] *)
Definition lift_size {A} (n : nat) (r : res store (A * store)) : res store (A * store) :=
  match r with
  | Ok (a, s) => Ok (a, set_size s n)
  | Unwound s => Unwound (set_size s n)
  | Fault f => Fault f
  end.

Lemma cmp_lt_set_size (s : store) n a b :
  cmp_lt ple (set_size s n) a b = lift_size n (cmp_lt ple s a b).
Proof.
  unfold cmp_lt, cb. change (fuse (set_size s n)) with (fuse s).
  destruct (fuse s) as [[|k]|]; reflexivity.
Qed.

Lemma bubble_up_loop_set_size fuel : forall (s : store) n pos p,
  bubble_up_loop ple fuel (set_size s n) pos p = lift_size n (bubble_up_loop ple fuel s pos p).
Proof.
  induction fuel as [|fuel IH]; intros s n pos p; [reflexivity|].
  cbn [bubble_up_loop]. destruct pos as [|k]; [reflexivity|].
  cbn [parent mbind res_bind rbind].
  unfold prio_at, getu. change (heap (set_size s n)) with (heap s).
  change (smap (set_size s n)) with (smap s).
  destruct (heap s !! (k / 2)) as [hi|]; cbn [mbind res_bind rbind]; [|reflexivity].
  destruct (smap s !! hi) as [e|]; cbn [unwrap mbind res_bind rbind]; [|reflexivity].
  rewrite cmp_lt_set_size.
  destruct (cmp_lt ple s e.2 p) as [[b s1]| |]; cbn [lift_size mbind res_bind rbind]; try reflexivity.
  destruct b; [|reflexivity].
  change (heap (set_size s1 n)) with (heap s1). change (qp (set_size s1 n)) with (qp s1).
  destruct (heap s1 !! (k / 2)) as [pidx|]; cbn [mbind res_bind rbind]; [|reflexivity].
  unfold setu.
  destruct (decide (S k < length (heap s1))); cbn [mbind res_bind rbind]; [|reflexivity].
  destruct (decide (pidx < length (qp s1))); cbn [mbind res_bind rbind]; [|reflexivity].
  apply (IH (set_qp (set_heap s1 (<[S k:=pidx]> (heap s1))) (<[pidx:=S k]> (qp s1))) n).
Qed.

Lemma bubble_up_set_size (s : store) n pos idx :
  bubble_up ple (set_size s n) pos idx = lift_size n (bubble_up ple s pos idx).
Proof.
  unfold bubble_up. change (smap (set_size s n)) with (smap s).
  destruct (smap s !! idx) as [e|]; cbn [unwrap mbind res_bind rbind]; [|reflexivity].
  rewrite bubble_up_loop_set_size.
  destruct (bubble_up_loop ple (S pos) s pos e.2) as [[pos' s1]| |];
    cbn [lift_size mbind res_bind rbind]; try reflexivity.
  change (heap (set_size s1 n)) with (heap s1). change (qp (set_size s1 n)) with (qp s1).
  unfold setu.
  destruct (decide (pos' < length (heap s1))); cbn [mbind res_bind rbind]; [|reflexivity].
  destruct (decide (idx < length (qp s1))); cbn [mbind res_bind rbind]; reflexivity.
Qed.

Lemma set_size_id (s : store) n : ssize s = S n -> set_size (set_size s n) (S n) = s.
Proof. destruct s. cbn. intros ->. reflexivity. Qed.

Theorem pq_push : pq_push_stmt keq hash ple.
Proof.
  intros Hk Ho o s k p Hinv. pose proof Hinv as (HWF & Hf & Hord).
  unfold push.
  destruct (gio (smap s) k) as [i|] eqn:Hg.
  - destruct (gio_some Hk _ _ _ Hg) as (e & He & Hke).
    rewrite He. cbn [unwrap mbind res_bind rbind]. cbv zeta.
    destruct (WF_slot_qp s i HWF (WF_smap_lt s i e HWF He)) as [pos Hq].
    change (qp (set_map s (<[i:=(e.1, p)]> (smap s)))) with (qp s).
    unfold getu. rewrite Hq. cbn [mbind res_bind rbind].
    destruct (update_ok o s i e (e.1, p) pos Hk Ho Hinv He Hq (keq_refl Hk _))
      as (s' & Hr & Hinv' & Hm & Hsz & Htk).
    rewrite Hr. cbn [mbind res_bind rbind].
    exists (Some e.2), s'. split; [done|]. split; [done|]. split.
    + pose proof (lg_mono (ssize s) (ssize s + 1)). lia.
    + exists e. done.
  - cbv zeta.
    destruct (push_entry_ok Hk s (k, p) HWF Hg) as [HWFp Hevp].
    set (n := ssize s).
    set (pe := push_entry s (k, p)) in *.
    change (bubble_up ple _ _ _) with (bubble_up ple (set_size pe n) n n).
    rewrite bubble_up_set_size.
    pose proof HWF as (Lm & (Lh & Lq & _) & _).
    assert (Hhn : heap pe !! n = Some n) by (apply list_lookup_middle; done).
    assert (Hqn : qp pe !! n = Some n) by (apply list_lookup_middle; done).
    pose proof (fill_id pe n n Hhn Hqn) as Hfill.
    assert (HWFf : WF (fill pe n n)) by (rewrite Hfill; done).
    destruct (bubble_up_sim' pe n n HWFf Hf) as
      (s' & pos' & l' & t & Hab & Hco & HWF' & Hev' & Hm' & Hsz' & Htk' & Hfu' & Hcp' & Hle).
    { change (ssize pe) with (S n). lia. } { change (ssize pe) with (S n). lia. }
    rewrite Hco. cbn [lift_size mbind res_bind rbind].
    change (ssize (set_size s' n)) with n.
    rewrite (set_size_id s' n Hsz').
    rewrite Hfill, Hevp in Hab.
    exists None, s'. split; [done|]. splits; try done.
    + rewrite Hfu'. done.
    + intros ->. rewrite Hev'.
      pose proof (a_push_new_ok snd ple Ho (eview s) (k, p) (Hord eq_refl)) as [H1 _].
      unfold a_push_new in H1. rewrite (eview_length s HWF) in H1.
      fold n in H1. rewrite Hab in H1. exact H1.
    + rewrite Htk'. change (ticks pe) with (ticks s).
      pose proof (pq_cost snd ple (eview s)) as (Hc & _). specialize (Hc (k, p)).
      unfold a_push_new in Hc. rewrite (eview_length s HWF) in Hc.
      fold n in Hc. rewrite Hab in Hc. cbn [fst snd] in Hc. unfold lg. lia.
Qed.

(** ** pop *)
Lemma peek_none (s : store) : WF s -> ssize s = 0 -> peek s = None /\ smap s = [].
Proof.
  intros HWF Hz. split.
  - rewrite (peek_eview s HWF). apply lookup_ge_None. rewrite (eview_length s HWF). lia.
  - destruct HWF as (Hm & _). apply nil_length_inv. lia.
Qed.

Lemma pop_sim (s : store) : WF s -> fuse s = None ->
  exists out s' t, pop ple s = Ok (out, s') /\ WF s' /\ fuse s' = None /\
    a_pop pr ple (eview s) = (out, eview s', t) /\ ticks s' = ticks s + t /\
    out = peek s /\
    match out with
    | Some e => ssize s' = ssize s - 1 /\ 0 < ssize s /\
                exists i, heap s !! 0 = Some i /\
                          map_swap_remove_index (smap s) i = Some (e, smap s')
    | None => s' = s /\ smap s = []
    end.
Proof.
  intros HWF Hf. unfold pop, a_pop. rewrite (eview_length s HWF).
  destruct (ssize s) as [|m] eqn:Hsz.
  { destruct (peek_none s HWF Hsz) as [Hp Hm].
    exists None, s, 0. splits; try done. }
  destruct (swap_remove_ok s 0 HWF ltac:(lia))
    as (e & i & s1 & Hr & HWF1 & Hh & Hm & Hev & Hmsr & Hsz1 & (Htk1 & Hfu1 & Hcp1)).
  assert (He : eview s !! 0 = Some e).
  { rewrite (eview_lookup s 0 HWF), Hh. done. }
  assert (Hpk : peek s = Some e) by (rewrite (peek_eview s HWF); done).
  destruct m as [|m].
  - exists (Some e), s1, 0. rewrite Hr, He, Hev, Hpk.
    splits; try done; try lia. { congruence. } exists i. done.
  - rewrite Hr. cbn [mbind res_bind rbind].
    destruct (heapify_sim' s1 0 HWF1 ltac:(congruence) ltac:(lia))
      as (s2 & Hr2 & HWF2 & Hev2 & Hm2 & Hsz2 & Htk2 & Hfu2 & Hcp2).
    rewrite Hr2. cbn [mbind res_bind rbind].
    rewrite Hev in Hev2, Htk2.
    destruct (aheapify snd ple (aswap_remove (eview s) 0) 0) as [l' t] eqn:Hah.
    cbn [fst snd] in *.
    exists (Some e), s2, t. rewrite He, Hev2, Hpk.
    splits; try done; try lia; try congruence.
    exists i. rewrite Hm2. done.
Qed.

Theorem pq_pop : pq_pop_stmt keq hash ple.
Proof.
  intros Hk Ho o s (HWF & Hf & Hord).
  destruct (pop_sim s HWF Hf) as (out & s' & t & Hr & HWF' & Hf' & Hab & Htk & Hpk & Hout).
  exists out, s'. split; [done|]. splits; try done.
  - intros ->. pose proof (a_pop_ok snd ple Ho (eview s) (Hord eq_refl)) as H.
    rewrite Hab in H. tauto.
  - pose proof (pq_cost snd ple (eview s)) as (_ & _ & _ & Hc & _).
    rewrite Hab, (eview_length s HWF) in Hc. cbn [fst snd] in Hc. unfold lg. lia.
  - destruct out as [e|]; [|done]. tauto.
Qed.

End PQOps.
