(** * PQOps: the public operations of PriorityQueue (PQ.v) meet the pinned
    statements of OpSpec.v. *)
From PQV Require Export SimPQ OpSpec AbsPQProofs AbsCostProofs.

Arguments Nat.mul : simpl never.
Arguments Nat.add : simpl never.
Arguments Nat.div : simpl never.
Arguments Nat.sub : simpl never.
Arguments Nat.log2 : simpl never.

Section PQOps.
Context {I P : Type}.
Variable keq : I -> I -> bool.
Variable hash : I -> N.
Variable ple : P -> P -> bool.
Variable alloc_limit : N.

Notation store := (store I P).
Notation R := (res store).
Notation pr := (snd : I * P -> P).

(* TEMPORARY: to be replaced by the theorems of StoreProofs.v *)
Hypothesis eview_lookup : @eview_lookup_stmt I P keq.
Hypothesis eview_length : @eview_length_stmt I P keq.
Hypothesis prio_at_ok : @prio_at_ok_stmt I P keq.
Hypothesis swap_ok : @swap_ok_stmt I P keq.
Hypothesis swap_remove_ok : @swap_remove_ok_stmt I P keq.
Hypothesis remove_ok : @remove_ok_stmt I P keq hash.
Hypothesis set_entry_ok : @set_entry_ok_stmt I P keq hash.
Hypothesis push_entry_ok : @push_entry_ok_stmt I P keq hash.
Hypothesis identity_ok : @identity_ok_stmt I P keq.
Hypothesis hole_move_ok : @hole_move_ok_stmt I P keq.
Hypothesis get_index_of_spec : @get_index_of_spec_stmt I P keq hash.
Hypothesis eview_perm : @eview_perm_stmt I P keq.

Notation WF := (WF keq).
Notation gio := (get_index_of keq hash).
Notation pq_inv := (pq_inv keq ple).

Local Notation heapify_sim' := (heapify_sim keq ple eview_length prio_at_ok swap_ok).
Local Notation up_heapify_sim' :=
  (up_heapify_sim keq ple eview_lookup eview_length prio_at_ok swap_ok hole_move_ok).
Local Notation heap_build_sim' := (heap_build_sim keq ple eview_length prio_at_ok swap_ok).
Local Notation bubble_up_sim' :=
  (bubble_up_sim keq ple eview_lookup eview_length prio_at_ok hole_move_ok).

Ltac splits := unfold OpSpec.pq_inv; repeat match goal with |- _ /\ _ => split end.

(** ** small facts *)
Lemma lg_mono a b : a <= b -> lg a <= lg b.
Proof. apply Nat.log2_le_mono. Qed.

Lemma WF_qp_pos (s : store) i pos : WF s -> qp s !! i = Some pos ->
  heap s !! pos = Some i /\ pos < ssize s /\ i < ssize s.
Proof.
  intros (_ & (Hh & Hq & _ & H2) & _) Hqi. pose proof (H2 _ _ Hqi) as Hhp.
  split; [done|]. apply lookup_lt_Some in Hhp, Hqi. lia.
Qed.

Lemma WF_slot_qp (s : store) i : WF s -> i < ssize s -> exists pos, qp s !! i = Some pos.
Proof.
  intros (_ & (Hh & Hq & _ & H2) & _) Hi. apply lookup_lt_is_Some. lia.
Qed.

Lemma gio_some (Hk : keq_ok keq hash) (m : list (I * P)) k i :
  gio m k = Some i -> exists e, m !! i = Some e /\ keq e.1 k = true.
Proof.
  intros H. pose proof (get_index_of_spec Hk m k) as Hs. rewrite H in Hs.
  destruct Hs as (e & ? & ? & _). eauto.
Qed.

Lemma keq_sym (Hk : keq_ok keq hash) a b : keq a b = true -> keq b a = true.
Proof. destruct Hk as (_ & H & _). apply H. Qed.
Lemma keq_refl (Hk : keq_ok keq hash) a : keq a a = true.
Proof. destruct Hk as (H & _). apply H. Qed.
Lemma keq_trans (Hk : keq_ok keq hash) a b c : keq a b = true -> keq b c = true -> keq a c = true.
Proof. destruct Hk as (_ & _ & H & _). apply H. Qed.

(** ** peek *)
Lemma peek_eview (s : store) : WF s -> peek s = eview s !! 0.
Proof. intros H. rewrite (eview_lookup s 0 H). reflexivity. Qed.

Theorem pq_peek_thm : pq_peek_stmt keq hash ple.
Proof.
  intros Hk Ho s (HWF & Hf & Hord). specialize (Hord eq_refl).
  rewrite (peek_eview s HWF).
  destruct (eview s !! 0) as [e|] eqn:He.
  - split.
    + destruct (heap_root_max snd ple Ho (eview s) e Hord He) as [Hin Hmax].
      pose proof (eview_perm s HWF) as Hp. split.
      * rewrite <- Hp. done.
      * intros y Hy. apply Hmax. rewrite Hp. done.
    + rewrite (eview_lookup s 0 HWF) in He.
      destruct (heap s !! 0) as [i|]; [|done]. exists i. done.
  - apply lookup_ge_None in He. rewrite (eview_length s HWF) in He.
    destruct HWF as (Hm & _). apply nil_length_inv. lia.
Qed.

(** ** re-sifting after an in-place rewrite of the entry of slot [i] *)
Lemma update_ok o (s : store) i e e' pos :
  keq_ok keq hash -> ord_ok ple -> pq_inv o s ->
  smap s !! i = Some e -> qp s !! i = Some pos -> keq e'.1 e.1 = true ->
  exists s', up_heapify ple (set_map s (<[i := e']> (smap s))) pos = Ok s' /\
    pq_inv o s' /\ smap s' = <[i := e']> (smap s) /\ ssize s' = ssize s /\
    ticks s' <= ticks s + (3 * lg (ssize s) + 4).
Proof.
  intros Hk Ho (HWF & Hf & Hord) Hi Hq Hke.
  destruct (set_entry_ok Hk s i e e' pos HWF Hi Hq Hke) as [HWF1 Hev1].
  destruct (WF_qp_pos s i pos HWF Hq) as (_ & Hpos & _).
  set (s1 := set_map s (<[i := e']> (smap s))) in *.
  destruct (up_heapify_sim' s1 pos HWF1 Hf Hpos)
    as (s2 & Hr & HWF2 & Hev2 & Hm2 & Hsz2 & Htk2 & Hfu2 & Hcp2).
  exists s2. splits; try done.
  - rewrite Hfu2. done.
  - intros ->. rewrite Hev2, Hev1.
    apply (a_update_ok snd ple Ho (eview s) pos e'); [by apply Hord|].
    rewrite (eview_length s HWF). done.
  - rewrite Htk2, Hev1. change (ticks s1) with (ticks s).
    pose proof (pq_cost snd ple (eview s)) as (_ & Hc & _).
    specialize (Hc pos e'). rewrite (eview_length s HWF) in Hc.
    unfold a_update in Hc. unfold lg. specialize (Hc Hpos). lia.
Qed.

Lemma WF_smap_lt (s : store) i e : WF s -> smap s !! i = Some e -> i < ssize s.
Proof. intros (Hm & _) H. apply lookup_lt_Some in H. lia. Qed.

(** ** change_priority, change_priority_by *)
Theorem pq_change_priority_thm : pq_change_priority_stmt keq hash ple.
Proof.
  intros Hk Ho o s k p Hinv. pose proof Hinv as (HWF & Hf & Hord).
  unfold PQ.pq_change_priority, change_priority.
  destruct (gio (smap s) k) as [i|] eqn:Hg.
  - destruct (gio_some Hk _ _ _ Hg) as (e & He & Hke).
    rewrite He. cbn [unwrap mbind res_bind rbind].
    destruct (WF_slot_qp s i HWF (WF_smap_lt s i e HWF He)) as [pos Hq].
    unfold getu. rewrite Hq. cbn [mbind res_bind rbind].
    destruct (update_ok o s i e (e.1, p) pos Hk Ho Hinv He Hq (keq_refl Hk _))
      as (s' & Hr & Hinv' & Hm & Hsz & Htk).
    rewrite Hr. cbn [mbind res_bind rbind].
    exists (Some e.2), s'. split; [done|]. split; [done|]. split; [done|].
    exists e. done.
  - cbn [mbind res_bind rbind]. exists None, s. split; [done|]. split; [done|].
    split; [lia|done].
Qed.

Theorem pq_change_priority_by_thm : pq_change_priority_by_stmt keq hash ple.
Proof.
  intros Hk Ho o s k g Hinv. pose proof Hinv as (HWF & Hf & Hord).
  unfold PQ.pq_change_priority_by, change_priority_by.
  destruct (gio (smap s) k) as [i|] eqn:Hg.
  - destruct (gio_some Hk _ _ _ Hg) as (e & He & Hke).
    rewrite He. cbn [unwrap mbind res_bind rbind].
    rewrite (cb_nofuse s Hf). cbn [mbind res_bind rbind].
    destruct (WF_slot_qp s i HWF (WF_smap_lt s i e HWF He)) as [pos Hq].
    change (qp (set_map s (<[i:=(e.1, g e.2)]> (smap s)))) with (qp s).
    unfold getu. rewrite Hq. cbn [mbind res_bind rbind].
    destruct (update_ok o s i e (e.1, g e.2) pos Hk Ho Hinv He Hq (keq_refl Hk _))
      as (s' & Hr & Hinv' & Hm & Hsz & Htk).
    rewrite Hr. cbn [mbind res_bind rbind].
    exists true, s'. split; [done|]. split; [done|]. split; [done|].
    exists e. done.
  - cbn [mbind res_bind rbind]. exists false, s. split; [done|]. split; [done|].
    split; [lia|done].
Qed.

(** ** push *)
Theorem pq_push_thm : pq_push_stmt keq hash ple.
Proof.
  intros Hk Ho o s k p Hinv. pose proof Hinv as (HWF & Hf & Hord).
  unfold push.
  destruct (gio (smap s) k) as [i|] eqn:Hg.
  - destruct (gio_some Hk _ _ _ Hg) as (e & He & Hke).
    rewrite He. cbn [unwrap mbind res_bind rbind]. cbv zeta.
    destruct (WF_slot_qp s i HWF (WF_smap_lt s i e HWF He)) as [pos Hq].
    change (qp (set_map s (<[i:=(e.1, p)]> (smap s)))) with (qp s).
    unfold getu. rewrite Hq. cbn [mbind res_bind rbind].
    destruct (update_ok o s i e (e.1, p) pos Hk Ho Hinv He Hq (keq_refl Hk _))
      as (s' & Hr & Hinv' & Hm & Hsz & Htk).
    rewrite Hr. cbn [mbind res_bind rbind].
    exists (Some e.2), s'. split; [done|]. split; [done|]. split.
    + pose proof (lg_mono (ssize s) (ssize s + 1)). lia.
    + exists e. done.
  - cbv zeta.
    destruct (push_entry_ok Hk s (k, p) HWF Hg) as [HWFp Hevp].
    set (n := ssize s).
    set (pe := push_entry s (k, p)) in *.
    change (bubble_up ple _ _ _) with (bubble_up ple pe n n).
    pose proof HWF as (Lm & (Lh & Lq & _) & _).
    assert (Hhn : heap pe !! n = Some n) by (apply list_lookup_middle; done).
    assert (Hqn : qp pe !! n = Some n) by (apply list_lookup_middle; done).
    pose proof (fill_id pe n n Hhn Hqn) as Hfill.
    assert (HWFf : WF (fill pe n n)) by (rewrite Hfill; done).
    destruct (bubble_up_sim' pe n n HWFf Hf) as
      (s' & pos' & l' & t & Hab & Hco & HWF' & Hev' & Hm' & Hsz' & Htk' & Hfu' & Hcp' & Hle).
    { change (ssize pe) with (S n). lia. } { change (ssize pe) with (S n). lia. }
    rewrite Hco. cbn [mbind res_bind rbind].
    rewrite Hfill, Hevp in Hab.
    exists None, s'. split; [done|]. splits; try done.
    + rewrite Hfu'. done.
    + intros ->. rewrite Hev'.
      pose proof (a_push_new_ok snd ple Ho (eview s) (k, p) (Hord eq_refl)) as [H1 _].
      unfold a_push_new in H1. rewrite (eview_length s HWF) in H1.
      fold n in H1. rewrite Hab in H1. exact H1.
    + rewrite Htk'. change (ticks pe) with (ticks s).
      pose proof (pq_cost snd ple (eview s)) as (Hc & _). specialize (Hc (k, p)).
      unfold a_push_new in Hc. rewrite (eview_length s HWF) in Hc.
      fold n in Hc. rewrite Hab in Hc. cbn [fst snd] in Hc. unfold lg. lia.
Qed.

(** ** pop *)
Lemma peek_none (s : store) : WF s -> ssize s = 0 -> peek s = None /\ smap s = [].
Proof.
  intros HWF Hz. split.
  - rewrite (peek_eview s HWF). apply lookup_ge_None. rewrite (eview_length s HWF). lia.
  - destruct HWF as (Hm & _). apply nil_length_inv. lia.
Qed.

Lemma pop_sim (s : store) : WF s -> fuse s = None ->
  exists out s' t, pop ple s = Ok (out, s') /\ WF s' /\ fuse s' = None /\
    a_pop pr ple (eview s) = (out, eview s', t) /\ ticks s' = ticks s + t /\
    out = peek s /\
    match out with
    | Some e => ssize s' = ssize s - 1 /\ 0 < ssize s /\
                exists i, heap s !! 0 = Some i /\
                          map_swap_remove_index (smap s) i = Some (e, smap s')
    | None => s' = s /\ smap s = []
    end.
Proof.
  intros HWF Hf. unfold pop, a_pop. rewrite (eview_length s HWF).
  destruct (ssize s) as [|m] eqn:Hsz.
  { destruct (peek_none s HWF Hsz) as [Hp Hm].
    exists None, s, 0. splits; try done. }
  destruct (swap_remove_ok s 0 HWF ltac:(lia))
    as (e & i & s1 & Hr & HWF1 & Hh & Hm & Hev & Hmsr & Hsz1 & (Htk1 & Hfu1 & Hcp1)).
  assert (He : eview s !! 0 = Some e).
  { rewrite (eview_lookup s 0 HWF), Hh. done. }
  assert (Hpk : peek s = Some e) by (rewrite (peek_eview s HWF); done).
  destruct m as [|m].
  - exists (Some e), s1, 0. rewrite Hr, He, Hev, Hpk.
    splits; try done; try lia. { congruence. } exists i. done.
  - rewrite Hr. cbn [mbind res_bind rbind].
    destruct (heapify_sim' s1 0 HWF1 ltac:(congruence) ltac:(lia))
      as (s2 & Hr2 & HWF2 & Hev2 & Hm2 & Hsz2 & Htk2 & Hfu2 & Hcp2).
    rewrite Hr2. cbn [mbind res_bind rbind].
    rewrite Hev in Hev2, Htk2.
    destruct (aheapify snd ple (aswap_remove (eview s) 0) 0) as [l' t] eqn:Hah.
    cbn [fst snd] in *.
    exists (Some e), s2, t. rewrite He, Hev2, Hpk.
    splits; try done; try lia; try congruence.
    exists i. rewrite Hm2. done.
Qed.

Theorem pq_pop_thm : pq_pop_stmt keq hash ple.
Proof.
  intros Hk Ho o s (HWF & Hf & Hord).
  destruct (pop_sim s HWF Hf) as (out & s' & t & Hr & HWF' & Hf' & Hab & Htk & Hpk & Hout).
  exists out, s'. split; [done|]. splits; try done.
  - intros ->. pose proof (a_pop_ok snd ple Ho (eview s) (Hord eq_refl)) as H.
    rewrite Hab in H. tauto.
  - pose proof (pq_cost snd ple (eview s)) as (_ & _ & _ & Hc & _).
    rewrite Hab, (eview_length s HWF) in Hc. cbn [fst snd] in Hc. unfold lg. lia.
  - destruct out as [e|]; [|done]. tauto.
Qed.

(** ** remove *)
Theorem pq_remove_thm : pq_remove_stmt keq hash ple.
Proof.
  intros Hk Ho o s k Hinv. pose proof Hinv as (HWF & Hf & Hord).
  unfold PQ.pq_remove. pose proof (remove_ok Hk s k HWF) as Hrm.
  destruct (gio (smap s) k) as [i|] eqn:Hg.
  - destruct Hrm as (e & pos & s1 & Hr & HWF1 & He & Hq & Hev1 & Hmsr & Hsz1 & (Htk1 & Hfu1 & Hcp1)).
    rewrite Hr. cbn [mbind res_bind rbind].
    destruct (WF_qp_pos s i pos HWF Hq) as (Hhp & Hpos & _).
    assert (Hevp : eview s !! pos = Some e).
    { rewrite (eview_lookup s pos HWF), Hhp. done. }
    pose proof (a_remove_ok snd ple Ho (eview s) pos e) as Har.
    pose proof (pq_cost snd ple (eview s)) as (_ & _ & Hc & _). specialize (Hc pos).
    rewrite (eview_length s HWF) in Hc. specialize (Hc Hpos).
    unfold a_remove in Har, Hc. cbv zeta in Har, Hc. rewrite <- Hev1 in Har, Hc.
    rewrite (eview_length s1 HWF1) in Har, Hc.
    assert (Hee : (e.1, e.2) = e) by (destruct e; done). rewrite Hee.
    destruct (decide (pos < ssize s1)) as [Hlt|Hge].
    + destruct (up_heapify_sim' s1 pos HWF1 ltac:(congruence) Hlt)
        as (s2 & Hr2 & HWF2 & Hev2 & Hm2 & Hsz2 & Htk2 & Hfu2 & Hcp2).
      rewrite Hr2. cbn [mbind res_bind rbind].
      exists (Some e), s2. split; [done|]. splits; try done.
      * congruence.
      * intros ->. rewrite Hev2. apply Har; [by apply Hord|done].
      * rewrite Htk2, Htk1. unfold lg. lia.
      * exists e. rewrite Hm2. done.
    + cbn [mbind res_bind rbind].
      exists (Some e), s1. split; [done|]. splits; try done.
      * congruence.
      * intros ->. apply Har; [by apply Hord|done].
      * lia.
      * exists e. done.
  - rewrite Hrm. cbn [mbind res_bind rbind].
    exists None, s. split; [done|]. split; [done|]. split; [lia|done].
Qed.

(** ** pop_if *)
Lemma swap_remove_if_sim (s : store) f :
  keq_ok keq hash -> pred_ok keq f -> WF s -> fuse s = None -> 0 < ssize s ->
  exists e i, heap s !! 0 = Some i /\ smap s !! i = Some e /\ eview s !! 0 = Some e /\
    exists out s', swap_remove_if s 0 f = Ok (out, s') /\ WF s' /\ fuse s' = None /\
      ticks s' = ticks s /\
      let '(i', p', b) := f e.1 e.2 in
      if b : bool
      then out = Some (i', p') /\
           map_swap_remove_index (<[i := (i', p')]> (smap s)) i = Some ((i', p'), smap s') /\
           eview s' = aswap_remove (<[0 := (i', p')]> (eview s)) 0 /\ ssize s' = ssize s - 1
      else out = None /\ smap s' = <[i := (i', p')]> (smap s) /\
           eview s' = <[0 := (i', p')]> (eview s) /\ ssize s' = ssize s.
Proof.
  intros Hk Hpf HWF Hf Hpos.
  destruct (WF_heap_lookup keq s 0 HWF Hpos) as (i & Hh & Hq & Hi).
  pose proof HWF as (Lm & _).
  destruct (lookup_lt_is_Some_2 (smap s) i ltac:(lia)) as [e He].
  exists e, i. split; [done|]. split; [done|]. split.
  { rewrite (eview_lookup s 0 HWF), Hh. done. }
  unfold swap_remove_if, getu. rewrite Hh. cbn [mbind res_bind rbind].
  rewrite He. cbn [unwrap mbind res_bind rbind].
  rewrite (cb_nofuse s Hf). cbn [mbind res_bind rbind].
  pose proof (Hpf e.1 e.2) as Hke.
  destruct (f e.1 e.2) as [[i' p'] b]. cbn [fst snd] in Hke.
  destruct (set_entry_ok Hk s i e (i', p') 0 HWF He Hq Hke) as [HWF1 Hev1].
  set (s1 := set_map s (<[i := (i', p')]> (smap s))) in *.
  destruct b.
  - destruct (swap_remove_ok s1 0 HWF1 Hpos)
      as (e2 & i2 & s2 & Hr & HWF2 & Hh2 & Hm2 & Hev2 & Hmsr & Hsz2 & (Htk2 & Hfu2 & Hcp2)).
    change (heap s1) with (heap s) in Hh2. rewrite Hh in Hh2. injection Hh2 as <-.
    change (smap s1) with (<[i := (i', p')]> (smap s)) in Hm2, Hmsr.
    rewrite list_lookup_insert in Hm2 by lia. injection Hm2 as <-.
    exists (Some (i', p')), s2. rewrite Hr. splits; try done.
    + rewrite Hfu2. done.
    + rewrite Hev2, Hev1. done.
  - exists None, s1. splits; done.
Qed.

Theorem pq_pop_if_thm : pq_pop_if_stmt keq hash ple.
Proof.
  intros Hk Ho o s f Hpf Hinv. pose proof Hinv as (HWF & Hf & Hord).
  destruct (decide (ssize s = 0)) as [Hz|Hnz].
  { destruct (peek_none s HWF Hz) as [Hp Hm].
    unfold pop_if. rewrite Hz, Hp. exists None, s.
    split; [done|]. split; [done|]. split; [lia|done]. }
  destruct (swap_remove_if_sim s f Hk Hpf HWF Hf ltac:(lia))
    as (e & i & Hh & Hm & He & out & s1 & Hr & HWF1 & Hf1 & Htk1 & Hcase).
  rewrite (peek_eview s HWF), He.
  set (f' := fun e : I * P => let '(i', p', b) := f e.1 e.2 in ((i', p'), b)).
  pose proof (a_pop_if_ok snd ple Ho (eview s) f') as Hab.
  pose proof (pq_cost snd ple (eview s)) as (_ & _ & _ & _ & Hc & _). specialize (Hc f').
  unfold a_pop_if in Hab, Hc. rewrite He in Hab, Hc. unfold f' in Hab, Hc.
  rewrite (eview_length s HWF) in Hab, Hc.
  unfold pop_if.
  destruct (f e.1 e.2) as [[i' p'] b].
  destruct b; destruct Hcase as (-> & Hms & Hev1 & Hsz1); rewrite <- Hev1 in Hab, Hc;
    (destruct (ssize s) as [|[|m]] eqn:Hsz; [lia| |]).
  1,3: (rewrite Hr; eexists _, s1; split; [reflexivity|]; splits; try done;
         [intros ->; apply Hab; by apply Hord | cbn [fst snd] in Hc; unfold lg; lia | exists i; done]).
  all: rewrite Hr; cbn [mbind res_bind rbind];
     destruct (heapify_sim' s1 0 HWF1 Hf1 ltac:(lia))
       as (s2 & Hr2 & HWF2 & Hev2 & Hm2 & Hsz2 & Htk2 & Hfu2 & Hcp2);
     rewrite Hr2; cbn [mbind res_bind rbind];
     destruct (aheapify snd ple (eview s1) 0) as [l3 t]; cbn [fst snd] in *;
     eexists _, s2; split; [reflexivity|]; splits; try done;
     [congruence | intros ->; rewrite Hev2; apply Hab; by apply Hord | unfold lg; lia
      | exists i; rewrite Hm2; done].
Qed.

(** ** push_increase / push_decrease *)
Lemma get_priority_gio (Hk : keq_ok keq hash) (s : store) k :
  get_priority keq hash s k =
    match gio (smap s) k with
    | Some i => snd <$> smap s !! i
    | None => None
    end.
Proof. unfold get_priority, get. destruct (gio (smap s) k); reflexivity. Qed.

Lemma pq_inv_set_ticks o (s : store) t : pq_inv o s -> pq_inv o (set_ticks s t).
Proof. intros H; exact H. Qed.

Theorem pq_push_dir_thm : pq_push_dir_stmt keq hash ple.
Proof.
  intros Hk Ho dir o s k p Hinv. pose proof Hinv as (HWF & Hf & Hord).
  pose proof (pq_push_thm Hk Ho o s k p Hinv) as Hpush.
  destruct (gio (smap s) k) as [i|] eqn:Hg.
  - destruct (gio_some Hk _ _ _ Hg) as (e & He & Hke).
    pose proof (pq_push_thm Hk Ho o (set_ticks s (S (ticks s))) k p
                  (pq_inv_set_ticks o s _ Hinv)) as Hpush1.
    change (smap (set_ticks s (S (ticks s)))) with (smap s) in Hpush1.
    change (ssize (set_ticks s (S (ticks s)))) with (ssize s) in Hpush1.
    change (ticks (set_ticks s (S (ticks s)))) with (S (ticks s)) in Hpush1.
    rewrite Hg in Hpush1.
    destruct Hpush1 as (out & s' & Hr & Hinv' & Htk & e0 & He0 & -> & Hm').
    rewrite He in He0. injection He0 as <-.
    assert (Hgp : get_priority keq hash s k = Some e.2).
    { rewrite (get_priority_gio Hk), Hg, He. done. }
    destruct dir; unfold push_increase, push_decrease; rewrite Hgp;
      rewrite (cmp_lt_nofuse ple s _ _ Hf); cbn [mbind res_bind rbind];
      rewrite plt_alt.
    + destruct (alt ple e.2 p) eqn:Hb.
      * rewrite Hr. exists (Some e.2), s'. split; [done|]. split; [done|].
        split; [lia|]. exists e. rewrite Hb. done.
      * exists (Some p), (set_ticks s (S (ticks s))). split; [done|].
        split; [done|]. split; [cbn; lia|]. exists e. rewrite Hb. done.
    + destruct (alt ple p e.2) eqn:Hb.
      * rewrite Hr. exists (Some e.2), s'. split; [done|]. split; [done|].
        split; [lia|]. exists e. rewrite Hb. done.
      * exists (Some p), (set_ticks s (S (ticks s))). split; [done|].
        split; [done|]. split; [cbn; lia|]. exists e. rewrite Hb. done.
  - assert (Hgp : get_priority keq hash s k = None).
    { rewrite (get_priority_gio Hk), Hg. done. }
    destruct Hpush as (out & s' & Hr & Hinv' & Htk & Hout).
    exists out, s'.
    destruct dir; unfold push_increase, push_decrease; rewrite Hgp;
      (split; [done|]); (split; [done|]); (split; [lia|done]).
Qed.

(** ** peek_mut *)
Lemma heap_ord_insert_same (l : list (I * P)) pos e e' :
  l !! pos = Some e -> e'.2 = e.2 -> heap_ord snd ple l -> heap_ord snd ple (<[pos := e']> l).
Proof.
  intros Hl Hp Hh c xc xp Hc Hxc Hxp.
  pose proof (lookup_lt_Some _ _ _ Hl) as Hlt.
  assert (exists yc, l !! c = Some yc /\ yc.2 = xc.2) as (yc & Hyc & Hyc2).
  { destruct (decide (c = pos)) as [->|Hne].
    - rewrite list_lookup_insert in Hxc by done. injection Hxc as <-. eauto.
    - rewrite list_lookup_insert_ne in Hxc by done. eauto. }
  assert (exists yp, l !! par c = Some yp /\ yp.2 = xp.2) as (yp & Hyp & Hyp2).
  { destruct (decide (par c = pos)) as [Heq|Hne].
    - rewrite Heq in *. rewrite list_lookup_insert in Hxp by done. injection Hxp as <-. eauto.
    - rewrite list_lookup_insert_ne in Hxp by done. eauto. }
  rewrite <- Hyc2, <- Hyp2. exact (Hh c yc yp Hc Hyc Hyp).
Qed.

Theorem pq_peek_mut_thm : pq_peek_mut_stmt keq hash ple.
Proof.
  intros Hk Ho o s u Hu Hinv. pose proof Hinv as (HWF & Hf & Hord).
  unfold peek_mut.
  destruct (decide (ssize s = 0)) as [Hz|Hnz].
  { destruct (peek_none s HWF Hz) as [Hp Hm]. rewrite Hp.
    exists None, s. done. }
  destruct (WF_heap_lookup keq s 0 HWF ltac:(lia)) as (i & Hh & Hq & Hi).
  pose proof HWF as (Lm & _).
  destruct (lookup_lt_is_Some_2 (smap s) i ltac:(lia)) as [e He].
  unfold peek, getu. rewrite Hh. cbn [mbind option_bind res_bind rbind]. rewrite He.
  destruct (set_entry_ok Hk s i e (u e.1, e.2) 0 HWF He Hq (Hu e.1)) as [HWF1 Hev1].
  eexists _, _. split; [reflexivity|]. splits; try done.
  - intros ->. rewrite Hev1.
    apply (heap_ord_insert_same (eview s) 0 e); [|done|by apply Hord].
    rewrite (eview_lookup s 0 HWF), Hh. done.
  - exists i. done.
Qed.

(** ** heap_build and the operations that end with it *)
Theorem pq_build_thm : pq_build_stmt keq hash ple.
Proof.
  intros Hk Ho s (HWF & Hf & _).
  destruct (heap_build_sim' s HWF Hf)
    as (s' & Hr & HWF' & Hev & Hm & Hsz & Htk & Hfu & Hcp).
  exists s'. split; [done|]. splits; try done.
  - congruence.
  - intros _. rewrite Hev. apply (abuild_ok snd ple Ho).
  - rewrite Htk. pose proof (abuild_cost snd ple (eview s)) as Hc.
    rewrite (eview_length s HWF) in Hc. lia.
Qed.

Lemma pq_build_size (Hk : keq_ok keq hash) (Ho : ord_ok ple) (s : store) :
  pq_inv false s ->
  exists s', heap_build ple s = Ok s' /\ pq_inv true s' /\ smap s' = smap s /\
    ssize s' = ssize s /\ ticks s' <= ticks s + 4 * ssize s.
Proof.
  intros Hinv. destruct (pq_build_thm Hk Ho s Hinv) as (s' & Hr & Hinv' & Hm & Htk).
  exists s'. splits; try done; try apply Hinv'.
  destruct Hinv as ((L & _) & _). destruct Hinv' as ((L' & _) & _). congruence.
Qed.

(** ** key-uniqueness of lists *)
Lemma nodup_keys_cons (Hk : keq_ok keq hash) (e : I * P) m :
  nodup_keys keq (e :: m) <->
  (forall ej, ej ∈ m -> keq e.1 ej.1 = false) /\ nodup_keys keq m.
Proof.
  split.
  - intros H. split.
    + intros ej Hin. apply elem_of_list_lookup in Hin as [j Hj].
      destruct (keq e.1 ej.1) eqn:Hb; [|done].
      specialize (H 0 (S j) e ej eq_refl Hj Hb). done.
    + intros i j ei ej Hi Hj Hb.
      specialize (H (S i) (S j) ei ej Hi Hj Hb). lia.
  - intros [H1 H2] i j ei ej Hi Hj Hb.
    destruct i as [|i], j as [|j]; cbn in Hi, Hj; simplify_eq; try done.
    + rewrite (H1 ej) in Hb; [done|]. eapply elem_of_list_lookup_2; eauto.
    + apply (keq_sym Hk) in Hb. rewrite (H1 ei) in Hb; [done|].
      eapply elem_of_list_lookup_2; eauto.
    + f_equal. eapply H2; eauto.
Qed.

Lemma nodup_keys_nil : nodup_keys keq ([] : list (I * P)).
Proof. intros i j ei ej Hi. done. Qed.

(** ** retain *)
Lemma retain_list_cons f (e : I * P) m :
  retain_list f (e :: m) =
    (let '(i', p', b) := f e.1 e.2 in if b : bool then [(i', p')] else []) ++ retain_list f m.
Proof.
  unfold retain_list. cbn [omap list_omap].
  destruct (f e.1 e.2) as [[i' p'] b]. destruct b; reflexivity.
Qed.

Lemma retain_list_in f (m : list (I * P)) x :
  pred_ok keq f -> x ∈ retain_list f m -> exists e, e ∈ m /\ keq x.1 e.1 = true.
Proof.
  intros Hpf Hin. apply elem_of_list_omap in Hin as (e & He & Hfe).
  exists e. split; [done|]. pose proof (Hpf e.1 e.2) as H.
  destruct (f e.1 e.2) as [[i' p'] b]. destruct b; simplify_eq. done.
Qed.

Lemma retain_list_length f (m : list (I * P)) : length (retain_list f m) <= length m.
Proof.
  induction m as [|e m IH]; [done|]. rewrite retain_list_cons, app_length.
  destruct (f e.1 e.2) as [[i' p'] b]. destruct b; cbn [length]; lia.
Qed.

Lemma retain_list_nodup (Hk : keq_ok keq hash) f (m : list (I * P)) :
  pred_ok keq f -> nodup_keys keq m -> nodup_keys keq (retain_list f m).
Proof.
  intros Hpf. induction m as [|e m IH]; intros Hnd; [apply nodup_keys_nil|].
  apply (nodup_keys_cons Hk) in Hnd as [H1 H2]. rewrite retain_list_cons.
  pose proof (Hpf e.1 e.2) as Hke.
  destruct (f e.1 e.2) as [[i' p'] b]. destruct b; [|by apply IH].
  cbn [app]. apply (nodup_keys_cons Hk). split; [|by apply IH].
  intros ej Hin. destruct (retain_list_in f m ej Hpf Hin) as (e2 & He2 & Hk2).
  cbn [fst snd] in *.
  destruct (keq i' ej.1) eqn:Hb; [|done].
  assert (keq e.1 e2.1 = true).
  { eapply (keq_trans Hk); [apply (keq_sym Hk), Hke|].
    eapply (keq_trans Hk); eauto. }
  rewrite (H1 e2 He2) in H. done.
Qed.

Lemma retain_entries_nofuse f (s : store) : fuse s = None ->
  forall todo done, retain_entries f s done todo = Ok (done ++ retain_list f todo, s).
Proof.
  intros Hf. induction todo as [|e todo IH]; intros done; cbn [retain_entries].
  - unfold retain_list. cbn. rewrite app_nil_r. done.
  - rewrite (cb_nofuse s Hf). rewrite retain_list_cons.
    destruct (f e.1 e.2) as [[i' p'] b]. rewrite IH.
    destruct b; [rewrite <- app_assoc|]; done.
Qed.

Theorem pq_retain_thm : pq_retain_stmt keq hash ple.
Proof.
  intros Hk Ho s f Hpf (HWF & Hf & _).
  unfold pq_retain_mut, retain_mut.
  rewrite (retain_entries_nofuse f s Hf). cbn [app mbind res_bind rbind].
  set (m' := retain_list f (smap s)).
  pose proof HWF as (Lm & Htab & Hnd).
  assert (Hnd' : nodup_keys keq m') by (by apply retain_list_nodup).
  assert (Hlen : length m' <= ssize s).
  { rewrite <- Lm. apply retain_list_length. }
  unfold realign. cbv zeta.
  change (smap (set_map s m')) with m'.
  change (ssize (set_map s m')) with (ssize s).
  destruct (decide (length m' = ssize s)) as [Heq|Hne]; cbn [mbind res_bind rbind].
  - assert (Hinv1 : pq_inv false (set_map s m')).
    { split; [|split; [done|done] ]. split; [done|]. split; done. }
    destruct (pq_build_size Hk Ho _ Hinv1) as (s' & Hr & Hinv' & Hm & Hsz & Htk).
    exists s'. split; [done|]. split; [done|]. split; [done|].
    change (ticks (set_map s m')) with (ticks s) in Htk.
    change (ssize (set_map s m')) with (ssize s) in Htk. lia.
  - destruct (identity_ok s m' Hnd') as [HWF1 _].
    match type of HWF1 with Inv.WF _ ?x => set (s1 := x) in * end.
    assert (Hinv1 : pq_inv false s1) by (split; [done|split; done]).
    destruct (pq_build_size Hk Ho _ Hinv1) as (s' & Hr & Hinv' & Hm & Hsz & Htk).
    exists s'. split; [exact Hr|]. split; [done|]. split; [done|].
    change (ticks s1) with (ticks s) in Htk.
    change (ssize s1) with (length m') in Htk. lia.
Qed.

(** ** From<Vec>, append *)
Lemma empty_store_inv c : pq_inv false (empty_store c : store).
Proof.
  split; [|split; [done|done] ].
  split; [done|]. split; [|apply nodup_keys_nil].
  split; [done|]. split; [done|]. split; intros ? ? H; done.
Qed.

Lemma append_entries_ok (Hk : keq_ok keq hash) l : forall s : store, WF s ->
  WF (append_entries keq hash s l) /\
  smap (append_entries keq hash s l) = append_list keq hash (smap s) l /\
  ticks (append_entries keq hash s l) = ticks s /\
  fuse (append_entries keq hash s l) = fuse s.
Proof.
  induction l as [|e l IH]; intros s HWF; [done|].
  cbn [append_entries]. unfold append_list. cbn [fold_left].
  destruct (gio (smap s) e.1) eqn:Hg.
  - apply IH. done.
  - destruct (push_entry_ok Hk s e HWF Hg) as [HWF1 _].
    destruct (IH _ HWF1) as (H1 & H2 & H3 & H4). done.
Qed.

Theorem pq_from_vec_thm : pq_from_vec_stmt keq hash ple.
Proof.
  intros Hk Ho l. unfold PQ.pq_from_vec, from_vec.
  set (s0 := empty_store (N.of_nat (length l)) : store).
  destruct (append_entries_ok Hk l s0) as (HWF & Hm & Htk & Hfu).
  { apply (empty_store_inv _). }
  destruct (pq_build_size Hk Ho (append_entries keq hash s0 l))
    as (s' & Hr & Hinv' & Hm' & Hsz & Htk').
  { split; [done|]. split; [done|done]. }
  exists s'. split; [done|]. split; [done|]. split; [rewrite Hm', Hm; done|].
  rewrite Htk in Htk'. cbn in Htk'. lia.
Qed.

Lemma WF_with_ghost (g c : store) : WF c -> WF (with_ghost_of g c).
Proof. intros H; exact H. Qed.

Lemma clear_inv (s : store) : fuse s = None -> pq_inv true (clear s).
Proof.
  intros Hf. split; [|split; [done|] ].
  - split; [done|]. split; [|apply nodup_keys_nil].
    split; [done|]. split; [done|]. split; intros ? ? H; done.
  - intros _ c xc xp _ H. done.
Qed.

Lemma empty_inv_true (s : store) : WF s -> fuse s = None -> ssize s = 0 -> pq_inv true s.
Proof.
  intros HWF Hf Hz. split; [done|]. split; [done|]. intros _ c xc xp _ H.
  apply lookup_lt_Some in H. rewrite (eview_length s HWF) in H. lia.
Qed.

Lemma append_list_nil (m : list (I * P)) : append_list keq hash m [] = m.
Proof. reflexivity. Qed.

Theorem pq_append_thm : pq_append_stmt keq hash ple.
Proof.
  intros Hk Ho s o (HWFs & Hfs & _) (HWFo & Hfo & _).
  unfold PQ.pq_append, append.
  pose proof HWFs as (Ls & _). pose proof HWFo as (Lo & _).
  destruct (decide (ssize s < ssize o)) as [Hlt|Hge].
  - change (ssize (with_ghost_of o s)) with (ssize s).
    destruct (decide (ssize s = 0)) as [Hz|Hnz].
    + destruct (pq_build_size Hk Ho (with_ghost_of s o)) as (s' & Hr & Hinv' & Hm' & Hsz & Htk').
      { split; [exact HWFo|]. split; [exact Hfs|done]. }
      rewrite Hr. cbn [mbind res_bind rbind].
      exists s', (with_ghost_of o s). split; [done|]. split; [done|].
      split; [apply empty_inv_true; done|].
      assert (smap s = []) as Hnil by (apply nil_length_inv; lia).
      split; [exact Hnil|]. split; [rewrite Hm', Hnil; done|].
      split; [|done]. rewrite Hsz. exact Htk'.
    + destruct (append_entries_ok Hk (smap s) (with_ghost_of s o)) as (HWF1 & Hm1 & Htk1 & Hfu1).
      { exact HWFo. }
      change (smap (with_ghost_of o s)) with (smap s).
      destruct (pq_build_size Hk Ho (append_entries keq hash (with_ghost_of s o) (smap s)))
        as (s' & Hr & Hinv' & Hm' & Hsz & Htk').
      { split; [done|]. split; [rewrite Hfu1; exact Hfs|done]. }
      rewrite Hr. cbn [mbind res_bind rbind].
      exists s', (clear (with_ghost_of o s)). split; [done|]. split; [done|].
      split; [apply clear_inv; exact Hfo|]. split; [done|].
      split; [rewrite Hm', Hm1; done|]. split; [|done].
      rewrite Hsz. rewrite Htk1 in Htk'. exact Htk'.
  - destruct (decide (ssize o = 0)) as [Hz|Hnz].
    + destruct (pq_build_size Hk Ho s) as (s' & Hr & Hinv' & Hm' & Hsz & Htk').
      { split; [done|]. split; done. }
      rewrite Hr. cbn [mbind res_bind rbind].
      exists s', o. split; [done|]. split; [done|].
      split; [apply empty_inv_true; done|].
      assert (smap o = []) as Hnil by (apply nil_length_inv; lia).
      split; [exact Hnil|]. split; [rewrite Hm', Hnil; done|].
      split; [|done]. rewrite Hsz. exact Htk'.
    + destruct (append_entries_ok Hk (smap o) s HWFs) as (HWF1 & Hm1 & Htk1 & Hfu1).
      destruct (pq_build_size Hk Ho (append_entries keq hash s (smap o)))
        as (s' & Hr & Hinv' & Hm' & Hsz & Htk').
      { split; [done|]. split; [rewrite Hfu1; exact Hfs|done]. }
      rewrite Hr. cbn [mbind res_bind rbind].
      exists s', (clear o). split; [done|]. split; [done|].
      split; [apply clear_inv; exact Hfo|]. split; [done|].
      split; [rewrite Hm', Hm1; done|]. split; [|done].
      rewrite Hsz. rewrite Htk1 in Htk'. exact Htk'.
Qed.

(** ** serde visit_seq, FromIterator, Extend *)
Lemma WF_set_entry (Hk : keq_ok keq hash) (s : store) i e e' :
  WF s -> smap s !! i = Some e -> keq e'.1 e.1 = true ->
  WF (set_map s (<[i := e']> (smap s))).
Proof.
  intros HWF He Hke.
  destruct (WF_slot_qp s i HWF (WF_smap_lt s i e HWF He)) as [pos Hq].
  apply (set_entry_ok Hk s i e e' pos HWF He Hq Hke).
Qed.

Lemma visit_one_ok (Hk : keq_ok keq hash) (s : store) e : WF s ->
  WF (visit_one keq hash s e) /\
  smap (visit_one keq hash s e) = map_insert keq hash (smap s) e.1 e.2 /\
  ticks (visit_one keq hash s e) = ticks s /\ fuse (visit_one keq hash s e) = fuse s.
Proof.
  intros HWF. unfold visit_one, map_insert.
  destruct (gio (smap s) e.1) as [i|] eqn:Hg.
  - destruct (gio_some Hk _ _ _ Hg) as (e0 & He0 & Hke). rewrite He0.
    splits; try done. apply (WF_set_entry Hk s i e0); [done|done|]. apply (keq_refl Hk).
  - destruct (push_entry_ok Hk s e HWF Hg) as [HWF1 _].
    splits; try done. destruct e; done.
Qed.

Lemma visit_fold_ok (Hk : keq_ok keq hash) l : forall s : store, WF s ->
  WF (fold_left (visit_one keq hash) l s) /\
  smap (fold_left (visit_one keq hash) l s) =
    fold_left (fun acc e => map_insert keq hash acc e.1 e.2) l (smap s) /\
  ticks (fold_left (visit_one keq hash) l s) = ticks s /\
  fuse (fold_left (visit_one keq hash) l s) = fuse s.
Proof.
  induction l as [|e l IH]; intros s HWF; [done|]. cbn [fold_left].
  destruct (visit_one_ok Hk s e HWF) as (H1 & H2 & H3 & H4).
  destruct (IH _ H1) as (G1 & G2 & G3 & G4).
  rewrite G2, G3, G4, H2, H3, H4. done.
Qed.

Theorem pq_deserialize_thm : pq_deserialize_stmt keq hash ple.
Proof.
  intros Hk Ho l. unfold PQ.pq_deserialize, visit_seq.
  set (s0 := empty_store (N.of_nat (length l)) : store).
  destruct (visit_fold_ok Hk l s0) as (HWF & Hm & Htk & Hfu).
  { apply (empty_store_inv _). }
  destruct (pq_build_size Hk Ho (fold_left (visit_one keq hash) l s0))
    as (s' & Hr & Hinv' & Hm' & Hsz & Htk').
  { split; [done|]. split; [done|done]. }
  exists s'. split; [done|]. split; [done|]. split; [rewrite Hm', Hm; done|].
  rewrite Htk in Htk'. cbn in Htk'. lia.
Qed.

Lemma extend_one_ok (Hk : keq_ok keq hash) (s : store) e : WF s ->
  WF (extend_one keq hash s e) /\
  smap (extend_one keq hash s e) =
    match gio (smap s) e.1 with Some i => <[i := e]> (smap s) | None => smap s ++ [e] end /\
  ticks (extend_one keq hash s e) = ticks s /\ fuse (extend_one keq hash s e) = fuse s /\
  cap (extend_one keq hash s e) = cap s.
Proof.
  intros HWF. unfold extend_one.
  destruct (gio (smap s) e.1) as [i|] eqn:Hg.
  - destruct (gio_some Hk _ _ _ Hg) as (e0 & He0 & Hke).
    splits; try done. apply (WF_set_entry Hk s i e0); [done|done|]. by apply (keq_sym Hk).
  - destruct (push_entry_ok Hk s e HWF Hg) as [HWF1 _]. done.
Qed.

Lemma extend_entries_ok (Hk : keq_ok keq hash) l : forall s : store, WF s -> fuse s = None ->
  exists s', extend_entries keq hash s l = Ok s' /\ WF s' /\ fuse s' = None /\
    smap s' = extend_list keq hash (smap s) l /\ ticks s' = ticks s.
Proof.
  induction l as [|e l IH]; intros s HWF Hf; cbn [extend_entries];
    rewrite (cb_nofuse s Hf); cbn [mbind res_bind rbind].
  - exists s. done.
  - destruct (extend_one_ok Hk s e HWF) as (H1 & H2 & H3 & H4 & _).
    destruct (IH _ H1 ltac:(congruence)) as (s' & Hr & HWF' & Hf' & Hm' & Htk').
    exists s'. splits; try done; [|congruence].
    rewrite Hm', H2. unfold extend_list. cbn [fold_left]. done.
Qed.

Theorem pq_from_iter_thm : pq_from_iter_stmt keq hash ple alloc_limit.
Proof.
  intros Hk Ho l h Hh. unfold PQ.pq_from_iter, from_iter, with_capacity.
  rewrite decide_True by done. cbn [mbind res_bind rbind].
  change (set_fuse (empty_store h.1) None) with (empty_store h.1 : store).
  destruct (extend_entries_ok Hk l (empty_store h.1)) as (s1 & Hr1 & HWF1 & Hf1 & Hm1 & Htk1).
  { apply (empty_store_inv _). } { done. }
  rewrite Hr1. cbn [mbind res_bind rbind].
  destruct (pq_build_size Hk Ho s1) as (s' & Hr & Hinv' & Hm' & Hsz & Htk').
  { split; [done|]. split; [done|done]. }
  exists s'. split; [done|]. split; [done|]. split; [rewrite Hm', Hm1; done|].
  rewrite Htk1 in Htk'. cbn in Htk'. lia.
Qed.

Lemma push_all_ok (Hk : keq_ok keq hash) (Ho : ord_ok ple) o l : forall s : store, pq_inv o s ->
  exists s', push_all keq hash ple s l = Ok s' /\ pq_inv o s' /\
    smap s' = push_list keq hash (smap s) l.
Proof.
  induction l as [|e l IH]; intros s Hinv; cbn [push_all];
    pose proof Hinv as (HWF & Hf & _);
    rewrite (cb_nofuse s Hf); cbn [mbind res_bind rbind].
  - exists s. done.
  - destruct (pq_push_thm Hk Ho o s e.1 e.2 Hinv) as (out & s1 & Hr1 & Hinv1 & _ & Hcase).
    rewrite Hr1. cbn [mbind res_bind rbind].
    destruct (IH s1 Hinv1) as (s' & Hr & Hinv' & Hm').
    exists s'. split; [done|]. split; [done|]. rewrite Hm'.
    unfold push_list. cbn [fold_left]. f_equal.
    destruct (gio (smap s) e.1) as [i|].
    + destruct Hcase as (e0 & He0 & _ & ->). rewrite He0. done.
    + destruct Hcase as (_ & ->). destruct e; done.
Qed.

Theorem pq_extend_thm : pq_extend_stmt keq hash ple alloc_limit.
Proof.
  intros Hk Ho o s l h Hinv Hh. pose proof Hinv as (HWF & Hf & Hord).
  unfold PQ.pq_extend, extend_with, reserve.
  rewrite decide_True by done. cbn [mbind res_bind rbind].
  set (s1 := set_cap s _).
  assert (Hinv1 : pq_inv o s1) by exact Hinv.
  assert (Hgen : forall rb : bool, exists s',
    (if rb then s2 ← extend_entries keq hash s1 l; heap_build ple s2
     else push_all keq hash ple s1 l) = Ok s' /\
    (pq_inv true s' \/ (pq_inv o s' /\ smap s' = push_list keq hash (smap s) l)) /\
    (smap s' = extend_list keq hash (smap s) l \/ smap s' = push_list keq hash (smap s) l)).
  { intros [|].
    - destruct (extend_entries_ok Hk l s1 HWF Hf) as (s2 & Hr2 & HWF2 & Hf2 & Hm2 & Htk2).
      rewrite Hr2. cbn [mbind res_bind rbind].
      destruct (pq_build_size Hk Ho s2) as (s' & Hr & Hinv' & Hm' & Hsz & Htk').
      { split; [done|]. split; [done|done]. }
      exists s'. split; [done|]. split; [left; done|]. left. rewrite Hm', Hm2. done.
    - destruct (push_all_ok Hk Ho o l s1 Hinv1) as (s' & Hr & Hinv' & Hm').
      exists s'. split; [done|]. split; right; done. }
  cbv zeta. apply Hgen.
Qed.

(** ** the two strategies of extend agree on keys and priorities *)
Lemma key_match_same (Hk : keq_ok keq hash) (k : I) (a b : I * P) :
  keq a.1 b.1 = true -> key_match keq hash k a = key_match keq hash k b.
Proof.
  intros Hab. unfold key_match.
  pose proof Hk as (_ & _ & _ & Hh). rewrite (Hh _ _ Hab). f_equal.
  destruct (keq a.1 k) eqn:H1, (keq b.1 k) eqn:H2; try done.
  - rewrite <- H2. symmetry. eapply (keq_trans Hk); [apply (keq_sym Hk), Hab|done].
  - rewrite <- H1. eapply (keq_trans Hk); eauto.
Qed.

Lemma gio_same_kp (Hk : keq_ok keq hash) (m1 m2 : list (I * P)) k :
  same_kp keq m1 m2 -> gio m1 k = gio m2 k.
Proof.
  unfold get_index_of. induction 1 as [|a b m1 m2 [Hab _] _ IH]; [done|].
  cbn [find_idx]. rewrite (key_match_same Hk k a b Hab), IH. done.
Qed.

Theorem extend_push_same_thm : @extend_push_same_stmt I P keq hash.
Proof.
  intros Hk m l _.
  assert (Hgen : forall m1 m2, same_kp keq m1 m2 ->
            same_kp keq (extend_list keq hash m1 l) (push_list keq hash m2 l)).
  { induction l as [|e l IH]; intros m1 m2 Hs; [done|].
    unfold extend_list, push_list. cbn [fold_left]. apply IH.
    rewrite <- (gio_same_kp Hk m1 m2 e.1 Hs).
    destruct (gio m1 e.1) as [i|] eqn:Hg.
    - destruct (gio_some Hk _ _ _ Hg) as (e0 & He0 & Hke).
      destruct (Forall2_lookup_l _ _ _ _ _ Hs He0) as (old & Hold & Hk0 & _).
      rewrite Hold. apply Forall2_insert; [done|]. split; [|done]. cbn [fst].
      eapply (keq_trans Hk); [apply (keq_sym Hk), Hke|done].
    - apply Forall2_app; [done|]. constructor; [|constructor].
      split; [apply (keq_refl Hk)|done]. }
  apply Hgen. clear Hgen. induction m as [|a m IH]; constructor; [|done].
  split; [apply (keq_refl Hk)|done].
Qed.

(** ** into_sorted_vec *)
Lemma pop_all_sim fuel : forall (s : store) acc, WF s -> fuse s = None -> ssize s < fuel ->
  exists s', pop_all ple fuel s acc = Ok (acc ++ (a_pop_all pr ple fuel (eview s)).1, s').
Proof.
  induction fuel as [|fuel IH]; intros s acc HWF Hf Hfuel; [lia|].
  cbn [pop_all a_pop_all].
  destruct (pop_sim s HWF Hf) as (out & s1 & t & Hr & HWF1 & Hf1 & Hab & Htk & Hpk & Hout).
  rewrite Hr, Hab. cbn [mbind res_bind rbind].
  destruct out as [e|].
  - destruct Hout as (Hsz & Hpos & _).
    destruct (IH s1 (acc ++ [e]) HWF1 Hf1 ltac:(lia)) as [s' Hs']. rewrite Hs'.
    destruct (a_pop_all snd ple fuel (eview s1)) as [out' t']. cbn [fst snd].
    exists s'. rewrite <- app_assoc. done.
  - exists s1. cbn [fst]. rewrite app_nil_r. done.
Qed.

Theorem pq_into_sorted_vec_thm : pq_into_sorted_vec_stmt keq hash ple.
Proof.
  intros Hk Ho s (HWF & Hf & Hord). unfold into_sorted_vec.
  destruct (pop_all_sim (S (ssize s)) s [] HWF Hf ltac:(lia)) as [s' Hs'].
  rewrite Hs'. cbn [app]. eexists _, s'. split; [reflexivity|].
  pose proof (a_pop_all_ok snd ple Ho (eview s) (Hord eq_refl)) as H.
  rewrite (eview_length s HWF) in H. cbv zeta in H. destruct H as [H1 H2].
  split; [|exact H2]. rewrite H1. apply (eview_perm s HWF).
Qed.

End PQOps.

Print Assumptions pq_peek_thm.
Print Assumptions pq_push_thm.
Print Assumptions pq_pop_thm.
Print Assumptions pq_change_priority_thm.
Print Assumptions pq_change_priority_by_thm.
Print Assumptions pq_remove_thm.
Print Assumptions pq_pop_if_thm.
Print Assumptions pq_push_dir_thm.
Print Assumptions pq_peek_mut_thm.
Print Assumptions pq_build_thm.
Print Assumptions pq_retain_thm.
Print Assumptions pq_from_vec_thm.
Print Assumptions pq_append_thm.
Print Assumptions pq_deserialize_thm.
Print Assumptions pq_from_iter_thm.
Print Assumptions pq_extend_thm.
Print Assumptions extend_push_same_thm.
Print Assumptions pq_into_sorted_vec_thm.
