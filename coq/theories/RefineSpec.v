(** * RefineSpec: history-level refinement of either queue to an abstract
    partial map from items to (stored item, priority).

    The per-operation statements of PropSpec.v (C03, C11) and OpSpec.v (C01,
    C02) each speak about one call.  Here they are assembled into ONE statement
    about every history of the single-queue core of the API: the sequence of
    return values the model produces is a sequence the abstract map
    specification allows (the only freedom the specification has is the
    choice among entries of equal extreme priority in pop / peek), and the
    queue's contents follow the specification's map.  This is the
    "any operation sequence behaves like a simple abstract map" form of
    C01 / C02 / C03 / C11. *)
From PQV Require Export PropSpec.

Section RefineSpec.
Context {I P : Type}.
Variable keq : I -> I -> bool.
Variable hash : I -> N.
Variable ple : P -> P -> bool.

Notation store := (store I P).
Notation R := (res store).
Notation al := (alookup keq hash).
Notation E := (I * P)%type.

(** the abstract state: which entry an item (any member of its Eq class) has *)
Definition amap := I -> option E.

Inductive qop :=
  | QPush (i : I) (p : P)
  | QPushDir (dir : bool) (i : I) (p : P)      (* push_increase / push_decrease *)
  | QChange (i : I) (p : P)
  | QChangeBy (i : I) (g : P -> P)
  | QRemove (i : I)
  | QPop (mx : bool)
  | QPeek (mx : bool)
  | QGet (i : I)
  | QGetPrio (i : I).

Inductive qout :=
  | RPrio (o : option P)
  | RBool (b : bool)
  | REntry (o : option E).

(** ** the model side: one call of the queue of kind [k] *)
Definition q_peek (k : kind) (mx : bool) (s : store) : R (option E * store) :=
  match k, mx with
  | KPQ, _ => Ok (peek s, s)
  | KDPQ, true => peek_max ple s
  | KDPQ, false => r ← peek_min s; Ok (r, s)
  end.

Definition q_step (k : kind) (s : store) (o : qop) : R (qout * store) :=
  match o with
  | QPush i p => '(r, s') ← q_push keq hash ple k s i p; Ok (RPrio r, s')
  | QPushDir dir i p => '(r, s') ← q_push_dir keq hash ple k dir s i p; Ok (RPrio r, s')
  | QChange i p => '(r, s') ← q_change keq hash ple k s i p; Ok (RPrio r, s')
  | QChangeBy i g => '(r, s') ← q_change_by keq hash ple k s i g; Ok (RBool r, s')
  | QRemove i => '(r, s') ← q_remove keq hash ple k s i; Ok (REntry r, s')
  | QPop mx => '(r, s') ← q_pop ple k mx s; Ok (REntry r, s')
  | QPeek mx => '(r, s') ← q_peek k mx s; Ok (REntry r, s')
  | QGet i => Ok (REntry (get keq hash s i), s)
  | QGetPrio i => Ok (RPrio (get_priority keq hash s i), s)
  end.

Fixpoint q_run (k : kind) (s : store) (ops : list qop) : R (list qout * store) :=
  match ops with
  | [] => Ok ([], s)
  | o :: ops =>
      '(out, s1) ← q_step k s o;
      '(outs, s2) ← q_run k s1 ops;
      Ok (out :: outs, s2)
  end.

(** ** the specification side *)
(** a PriorityQueue only has the max end *)
Definition end_of (k : kind) (mx : bool) : bool :=
  match k with KPQ => true | KDPQ => mx end.

(** [e] is an extreme of the whole map *)
Definition extreme (mx : bool) (m : amap) (e : E) : Prop :=
  forall j e', m j = Some e' ->
    if mx then ple e'.2 e.2 = true else ple e.2 e'.2 = true.

Definition spec_step (k : kind) (m : amap) (o : qop) (out : qout) (m' : amap) : Prop :=
  match o with
  | QPush i p =>
      out = RPrio (snd <$> m i) /\
      forall j, m' j = if keq i j
                       then Some (match m i with Some e => e.1 | None => i end, p)
                       else m j
  | QPushDir dir i p =>
      match m i with
      | None => out = RPrio None /\
                forall j, m' j = if keq i j then Some (i, p) else m j
      | Some e =>
          if (if dir then alt ple e.2 p else alt ple p e.2)
          then out = RPrio (Some e.2) /\
               forall j, m' j = if keq i j then Some (e.1, p) else m j
          else out = RPrio (Some p) /\ forall j, m' j = m j
      end
  | QChange i p =>
      out = RPrio (snd <$> m i) /\
      forall j, m' j = match m i with
                       | Some e => if keq i j then Some (e.1, p) else m j
                       | None => m j
                       end
  | QChangeBy i g =>
      out = RBool (bool_decide (is_Some (m i))) /\
      forall j, m' j = match m i with
                       | Some e => if keq i j then Some (e.1, g e.2) else m j
                       | None => m j
                       end
  | QRemove i =>
      out = REntry (m i) /\
      forall j, m' j = match m i with
                       | Some e => if keq i j then None else m j
                       | None => m j
                       end
  | QPop mx =>
      exists r, out = REntry r /\
        match r with
        | Some e => m e.1 = Some e /\ extreme (end_of k mx) m e /\
                    forall j, m' j = if keq e.1 j then None else m j
        | None => (forall j, m j = None) /\ forall j, m' j = None
        end
  | QPeek mx =>
      exists r, out = REntry r /\ (forall j, m' j = m j) /\
        match r with
        | Some e => m e.1 = Some e /\ extreme (end_of k mx) m e
        | None => forall j, m j = None
        end
  | QGet i => out = REntry (m i) /\ forall j, m' j = m j
  | QGetPrio i => out = RPrio (snd <$> m i) /\ forall j, m' j = m j
  end.

Inductive spec_run (k : kind) : amap -> list qop -> list qout -> amap -> Prop :=
  | spec_nil m : spec_run k m [] [] m
  | spec_cons m o out m1 ops outs m' :
      spec_step k m o out m1 -> spec_run k m1 ops outs m' ->
      spec_run k m (o :: ops) (out :: outs) m'.

(** ** the statements *)
Definition refine_step_stmt : Prop := keq_ok keq hash -> ord_ok ple ->
  forall k s o, qinv keq ple k true s ->
    exists out s', q_step k s o = Ok (out, s') /\ qinv keq ple k true s' /\
      spec_step k (al (smap s)) o out (al (smap s')).

Definition refine_run_stmt : Prop := keq_ok keq hash -> ord_ok ple ->
  forall k ops s, qinv keq ple k true s ->
    exists outs s', q_run k s ops = Ok (outs, s') /\ qinv keq ple k true s' /\
      length outs = length ops /\
      spec_run k (al (smap s)) ops outs (al (smap s')).

(** what the specification's pop means for the caller: nothing stored beats
    the popped entry, the popped item is gone, every other item is untouched *)
Definition spec_pop_meaning_stmt : Prop := keq_ok keq hash ->
  forall k mx (m m' : amap) e, spec_step k m (QPop mx) (REntry (Some e)) m' ->
    m' e.1 = None /\
    (forall j e', m j = Some e' -> keq e.1 j = false -> m' j = Some e') /\
    (forall j e', m j = Some e' ->
       if end_of k mx then ple e'.2 e.2 = true else ple e.2 e'.2 = true).

End RefineSpec.
