(** * Machine: registers holding queues, the operation alphabet, step, run.

    User closures are data: [I -> I] item rewrites (which must stay in the
    same Eq class), [P -> P] priority rewrites, predicates
    [I -> P -> I * P * bool]. *)
From PQV Require Export Iter.

Section Machine.
Context {I P : Type}.
Variable keq : I -> I -> bool.
Variable hash : I -> N.
Variable ple : P -> P -> bool.
Variable peq : P -> P -> bool.     (* PartialEq on priorities *)
Variable alloc_limit : N.

Notation store := (store I P).
Notation R := (res store).
Notation sout := (sout I P).
Notation istep := (istep I P).

Definition machine := list (option (kind * store)).

Inductive side := SMin | SMax.

Inductive op :=
  | ONew (k : kind) (r : nat)
  | OWithCap (k : kind) (r : nat) (c : N)
  | OFromVec (k : kind) (r : nat) (l : list (I * P))
  | OFromIter (k : kind) (r : nat) (l : list (I * P)) (h : size_hint)
  | OPush (r : nat) (i : I) (p : P)
  | OPushInc (r : nat) (i : I) (p : P)
  | OPushDec (r : nat) (i : I) (p : P)
  | OChange (r : nat) (i : I) (p : P)
  | OChangeBy (r : nat) (i : I) (g : P -> P)
  | ORemove (r : nat) (i : I)
  | OPeek (r : nat) (sd : side)
  | OPeekMut (r : nat) (sd : side) (u : I -> I)
  | OPop (r : nat) (sd : side)
  | OPopIf (r : nat) (sd : side) (f : I -> P -> I * P * bool)
  | OGet (r : nat) (i : I)
  | OGetPrio (r : nat) (i : I)
  | OGetMut (r : nat) (i : I) (u : I -> I)
  | OLen (r : nat)
  | OIsEmpty (r : nat)
  | ORetain (r : nat) (f : I -> P -> I * P * bool)
  | OIterMut (r : nat) (a : adaptor) (script : list istep) (e : iend)
  | OIter (r : nat) (a : adaptor) (script : list istep) (e : iend)
  | OIntoIter (r : nat) (a : adaptor) (script : list istep) (e : iend)
  | ODrain (r : nat) (a : adaptor) (script : list istep) (e : iend)
  | OIntoSortedIter (r : nat) (a : adaptor) (script : list istep) (e : iend)
  | OClear (r : nat)
  | OIntoSortedVec (r : nat) (sd : side)
  | OIntoVec (r : nat)
  | OExtend (r : nat) (l : list (I * P)) (h : size_hint)
  | OAppend (dst src : nat)
  | OConvert (r : nat)
  | OClone (src dst : nat)
  | OCloneFrom (src dst : nat)
  | OEq (a b : nat)
  | OSerDe (src : nat) (k : kind) (dst : nat)
  | ODeser (k : kind) (r : nat) (l : list (I * P))
  | OReserve (r : nat) (n : N)
  | OTryReserve (r : nat) (n : N)
  | OShrink (r : nat)
  | OCapacity (r : nat)
  | ODebug (r : nat)
  | OFuse (n : nat) (o : op).

Inductive out :=
  | OutUnit
  | OutBool (b : bool)
  | OutNat (n : nat)
  | OutN (n : N)
  | OutOptP (o : option P)
  | OutOptE (o : option (I * P))
  | OutList (l : list (I * P))
  | OutScript (l : list sout)
  | OutInvalid                 (* wrong kind / empty register: not a call the API offers *)
  | OutUnwound                 (* the fuse fired: the caller caught the panic *)
  | OutFault (f : fault).

(** kind dispatch *)
Definition build (k : kind) : store -> R store :=
  match k with KPQ => heap_build ple | KDPQ => dheap_build ple end.

Definition reset_ticks (m : machine) : machine :=
  (fun x : option (kind * store) => (fun ks : kind * store => (ks.1, set_ticks ks.2 0)) <$> x) <$> m.

Definition total_ticks (m : machine) : nat :=
  foldr (fun (x : option (kind * store)) acc =>
           match x with Some (_, s) => ticks s + acc | None => acc end) 0 m.

Definition getreg (m : machine) (r : nat) : option (kind * store) := mjoin (m !! r).
Definition setreg (m : machine) (r : nat) (k : kind) (s : store) : machine :=
  <[r := Some (k, s)]> m.

(** the result of an operation on register [r]: new contents of that
    register (kind may change) and what the caller sees *)
Definition fin (m : machine) (r : nat) (k : kind) (x : R (out * store)) : machine * out :=
  match x with
  | Ok (o, s) => (setreg m r k s, o)
  | Unwound s => (setreg m r k s, OutUnwound)
  | Fault f => (m, OutFault f)
  end.

Definition optE (x : R (option (I * P) * store)) : R (out * store) :=
  '(r, s) ← x; Ok (OutOptE r, s).
Definition optP (x : R (option P * store)) : R (out * store) :=
  '(r, s) ← x; Ok (OutOptP r, s).
Definition unitS (x : R store) : R (out * store) := s ← x; Ok (OutUnit, s).

(** run an iterator script to its end *)
Definition finish_script {T} (it : T -> istep -> option (R (T * sout)))
  (a : adaptor) (t : T) (script : list istep) (e : iend)
  : option (R (T * list sout)) :=
  let left := match a with ATake n => n | _ => 0 end in
  r ← it_run it a left t script [];
  match r with
  | Ok (t', outs) =>
      match e with
      | ELen la =>
          match a with
          | ADirect =>
              l ← adaptor_len it la t';
              Some (n ← l; Ok (t', outs ++ [SLen n]))
          | _ => None
          end
      | _ => Some (Ok (t', outs))
      end
  | Unwound u => Some (Unwound u)
  | Fault f => Some (Fault f)
  end.

(** a script ends the history when one of its [len()] calls panicked *)
Definition script_fault (l : list sout) : bool :=
  existsb (fun o => match o with SLen (Fault _) => true | _ => false end) l.

Definition out_script (l : list sout) : out := OutScript l.

(** cloning a queue clones every item and every priority (user code:
    [I::clone], [P::clone]), entry by entry in slot order *)
Fixpoint clone_cbs (s : store) (n : nat) : R store :=
  match n with
  | O => Ok s
  | S k => s1 ← cb s; s2 ← cb s1; clone_cbs s2 k
  end.

(** a constructor: when it unwinds, the value under construction is dropped
    and the register keeps what it had *)
Definition fin_new (m : machine) (r : nat) (k : kind) (x : R store) : machine * out :=
  match x with
  | Ok s => (setreg m r k s, OutUnit)
  | Unwound _ => (m, OutUnwound)
  | Fault f => (m, OutFault f)
  end.

(** [fz]: the fuse a freshly constructed queue starts with *)
Definition step1 (fz : option nat) (m : machine) (o : op) : machine * out :=
  let inv := (m, OutInvalid) in
  match o with
  | ONew k r => (setreg m r k (empty_store 0), OutUnit)
  | OWithCap k r c => fin_new m r k (with_capacity alloc_limit c)
  | OFromVec k r l => fin_new m r k (build k (set_fuse (from_vec keq hash l) fz))
  | OFromIter k r l h =>
      fin_new m r k (s ← from_iter keq hash alloc_limit fz l h; build k s)
  | OPush r i p =>
      match getreg m r with
      | Some (KPQ, s) => fin m r KPQ (optP (push keq hash ple s i p))
      | Some (KDPQ, s) => fin m r KDPQ (optP (dpush keq hash ple s i p))
      | None => inv end
  | OPushInc r i p =>
      match getreg m r with
      | Some (KPQ, s) => fin m r KPQ (optP (push_increase keq hash ple s i p))
      | Some (KDPQ, s) => fin m r KDPQ (optP (dpush_increase keq hash ple s i p))
      | None => inv end
  | OPushDec r i p =>
      match getreg m r with
      | Some (KPQ, s) => fin m r KPQ (optP (push_decrease keq hash ple s i p))
      | Some (KDPQ, s) => fin m r KDPQ (optP (dpush_decrease keq hash ple s i p))
      | None => inv end
  | OChange r i p =>
      match getreg m r with
      | Some (KPQ, s) => fin m r KPQ (optP (pq_change_priority keq hash ple s i p))
      | Some (KDPQ, s) => fin m r KDPQ (optP (dpq_change_priority keq hash ple s i p))
      | None => inv end
  | OChangeBy r i g =>
      match getreg m r with
      | Some (k, s) =>
          fin m r k ('(b, s') ← (match k with
                                | KPQ => pq_change_priority_by keq hash ple s i g
                                | KDPQ => dpq_change_priority_by keq hash ple s i g end);
                     Ok (OutBool b, s'))
      | None => inv end
  | ORemove r i =>
      match getreg m r with
      | Some (KPQ, s) => fin m r KPQ (optE (pq_remove keq hash ple s i))
      | Some (KDPQ, s) => fin m r KDPQ (optE (dpq_remove keq hash ple s i))
      | None => inv end
  | OPeek r sd =>
      match getreg m r, sd with
      | Some (KPQ, s), SMax => (m, OutOptE (peek s))
      | Some (KDPQ, s), SMin => fin m r KDPQ (e ← peek_min s; Ok (OutOptE e, s))
      | Some (KDPQ, s), SMax => fin m r KDPQ (optE (peek_max ple s))
      | _, _ => inv end
  | OPeekMut r sd u =>
      match getreg m r, sd with
      | Some (KPQ, s), SMax => fin m r KPQ (optE (peek_mut s u))
      | Some (KDPQ, s), SMin => fin m r KDPQ (optE (peek_min_mut s u))
      | Some (KDPQ, s), SMax => fin m r KDPQ (optE (peek_max_mut ple s u))
      | _, _ => inv end
  | OPop r sd =>
      match getreg m r, sd with
      | Some (KPQ, s), SMax => fin m r KPQ (optE (pop ple s))
      | Some (KDPQ, s), SMin => fin m r KDPQ (optE (pop_min ple s))
      | Some (KDPQ, s), SMax => fin m r KDPQ (optE (pop_max ple s))
      | _, _ => inv end
  | OPopIf r sd f =>
      match getreg m r, sd with
      | Some (KPQ, s), SMax => fin m r KPQ (optE (pop_if ple s f))
      | Some (KDPQ, s), SMin => fin m r KDPQ (optE (pop_min_if ple s f))
      | Some (KDPQ, s), SMax => fin m r KDPQ (optE (pop_max_if ple s f))
      | _, _ => inv end
  | OGet r i =>
      match getreg m r with
      | Some (_, s) => (m, OutOptE (get keq hash s i)) | None => inv end
  | OGetPrio r i =>
      match getreg m r with
      | Some (_, s) => (m, OutOptP (get_priority keq hash s i)) | None => inv end
  | OGetMut r i u =>
      match getreg m r with
      | Some (k, s) => let '(e, s') := get_mut keq hash s i u in (setreg m r k s', OutOptE e)
      | None => inv end
  | OLen r =>
      match getreg m r with Some (_, s) => (m, OutNat (ssize s)) | None => inv end
  | OIsEmpty r =>
      match getreg m r with Some (_, s) => (m, OutBool (bool_decide (ssize s = 0))) | None => inv end
  | ORetain r f =>
      match getreg m r with
      | Some (k, s) => fin m r k (unitS (s1 ← retain_mut s f; build k s1))
      | None => inv end
  | OIterMut r a script e =>
      match getreg m r with
      | Some (k, s) =>
          let dees := match k with KPQ => false | KDPQ => true end in
          if negb (script_offered dees dees a script e) then inv else
          match finish_script (im_it k) a (s, im_new s) script e with
          | None => inv
          | Some x =>
              fin m r k ('(t, outs) ← x;
                         if script_fault outs then Fault Panic else
                         match e with
                         | EForget => Ok (out_script outs, t.1)
                         | _ => s' ← build k t.1; Ok (out_script outs, s')
                         end)
          end
      | None => inv end
  | OIter r a script e =>
      match getreg m r with
      | Some (k, s) =>
          if negb (script_offered true true a script e) then inv else
          match finish_script dq_it a (smap s) script e with
          | Some (Ok (_, outs)) =>
              if script_fault outs then (m, OutFault Panic) else (m, out_script outs)
          | _ => inv
          end
      | None => inv end
  | OIntoIter r a script e =>
      match getreg m r with
      | Some (k, s) =>
          if negb (script_offered true true a script e) then inv else
          match finish_script dq_it a (smap s) script e with
          | Some (Ok (_, outs)) =>
              if script_fault outs then (m, OutFault Panic) else (m, out_script outs)
          | _ => inv
          end
      | None => inv end
  | ODrain r a script e =>
      match getreg m r with
      | Some (k, s) =>
          if negb (script_offered true true a script e) then inv else
          let '(l, s') := drain s in
          match finish_script dq_it a l script e with
          | Some (Ok (_, outs)) =>
              if script_fault outs then (m, OutFault Panic)
              else (setreg m r k s', out_script outs)
          | _ => inv
          end
      | None => inv end
  | OIntoSortedIter r a script e =>
      (* consumes a clone *)
      match getreg m r with
      | Some (k, s) =>
          let dees := match k with KPQ => false | KDPQ => true end in
          if negb (script_offered dees dees a script e) then inv else
          match finish_script (sorted_it ple k) a s script e with
          | None => inv
          | Some (Ok (t, outs)) =>
              if script_fault outs then (m, OutFault Panic)
              else (setreg m r k (set_ticks s (ticks t)), out_script outs)
          | Some (Unwound _) => (m, OutUnwound)
          | Some (Fault f) => (m, OutFault f)
          end
      | None => inv end
  | OClear r =>
      (* the tables and the size are reset first, then every item and every
         priority is dropped (user code: [Drop::drop], entry by entry); when
         one of them panics the remaining ones are still dropped while
         unwinding: the queue is empty either way *)
      match getreg m r with
      | Some (k, s) =>
          match clone_cbs (clear s) (length (smap s)) with
          | Ok s' => (setreg m r k s', OutUnit)
          | Unwound s' => (setreg m r k s', OutUnwound)
          | Fault f => (m, OutFault f)
          end
      | None => inv end
  | OIntoSortedVec r sd =>
      (* consumes a clone *)
      match getreg m r, sd with
      | Some (KPQ, s), SMax =>
          match into_sorted_vec ple s with
          | Ok (l, t) => (setreg m r KPQ (set_ticks s (ticks t)), OutList l) | Unwound _ => (m, OutUnwound) | Fault f => (m, OutFault f) end
      | Some (KDPQ, s), _ =>
          match into_sorted_vec_dir ple (match sd with SMin => true | SMax => false end) s with
          | Ok (l, t) => (setreg m r KDPQ (set_ticks s (ticks t)), OutList l) | Unwound _ => (m, OutUnwound) | Fault f => (m, OutFault f) end
      | _, _ => inv end
  | OIntoVec r =>
      match getreg m r with Some (_, s) => (m, OutList (smap s)) | None => inv end
  | OExtend r l h =>
      match getreg m r with
      | Some (KPQ, s) => fin m r KPQ (unitS (pq_extend keq hash ple alloc_limit s l h))
      | Some (KDPQ, s) => fin m r KDPQ (unitS (dpq_extend keq hash ple alloc_limit s l h))
      | None => inv end
  | OAppend dst src =>
      if decide (dst = src) then inv else
      match getreg m dst, getreg m src with
      | Some (k, s), Some (k', o) =>
          if decide (k = k') then
            let '(s1, o1) := append keq hash s o in
            fin (setreg m src k o1) dst k (unitS (build k s1))
          else inv
      | _, _ => inv end
  | OConvert r =>
      match getreg m r with
      | Some (k, s) =>
          let k' := match k with KPQ => KDPQ | KDPQ => KPQ end in
          match build k' s with
          | Ok s' => (setreg m r k' s', OutUnit)
          | Unwound _ => (<[r := None]> m, OutUnwound)   (* the queue was moved into the conversion *)
          | Fault f => (m, OutFault f)
          end
      | None => inv end
  | OClone src dst =>
      match getreg m src with
      | Some (k, s) =>
          match clone_cbs s (length (smap s)) with
          | Ok _ => (setreg m dst k (set_ticks s 0), OutUnit)
          | Unwound _ => (m, OutUnwound)        (* the partial clone is dropped *)
          | Fault f => (m, OutFault f)
          end
      | None => inv end
  | OCloneFrom src dst =>
      (* Clone::clone_from (the default: [*self = source.clone()]) *)
      if decide (src = dst) then inv else
      match getreg m src, getreg m dst with
      | Some (k, s), Some (k', _) =>
          if decide (k = k') then
            match clone_cbs s (length (smap s)) with
            | Ok _ => (setreg m dst k (set_ticks s 0), OutUnit)
            | Unwound _ => (m, OutUnwound)      (* the destination is untouched *)
            | Fault f => (m, OutFault f)
            end
          else inv
      | _, _ => inv end
  | OEq a b =>
      match getreg m a, getreg m b with
      | Some (k, s), Some (k', s') =>
          if decide (k = k') then (m, OutBool (store_eq keq hash peq s s')) else inv
      | _, _ => inv end
  | OSerDe src k dst =>
      match getreg m src with
      | Some (_, s) => fin_new m dst k (build k (set_fuse (visit_seq keq hash (serialize s)) fz))
      | None => inv end
  | ODeser k r l => fin_new m r k (build k (set_fuse (visit_seq keq hash l) fz))
  | OReserve r n =>
      match getreg m r with
      | Some (k, s) => fin m r k (unitS (reserve alloc_limit s n)) | None => inv end
  | OTryReserve r n =>
      match getreg m r with
      | Some (k, s) => let '(b, s') := try_reserve alloc_limit s n in (setreg m r k s', OutBool b)
      | None => inv end
  | OShrink r =>
      match getreg m r with
      | Some (k, s) => (setreg m r k (shrink_to_fit s), OutUnit) | None => inv end
  | OCapacity r =>
      match getreg m r with
      | Some (_, s) =>
          (* capacity() >= len(): the only thing every allocator guarantees *)
          (m, OutBool (bool_decide (N.of_nat (length (smap s))
                                    <= N.max (cap s) (N.of_nat (length (smap s))))%N))
      | None => inv end
  | ODebug r =>
      (* fmt::Debug (store.rs): one map entry per heap slot, [map.get_index(i).unwrap()];
         reported: the number of entries printed *)
      match getreg m r with
      | Some (_, s) =>
          if forallb (fun i => bool_decide (i < length (smap s))) (heap s)
          then (m, OutNat (length (heap s)))
          else (m, OutFault Panic)
      | None => inv end
  | OFuse _ _ => inv
  end.

(** arming the fuse: every queue named by the operation gets it; it is
    disarmed again when the operation returns *)
Definition arm (n : nat) (m : machine) : machine :=
  (fun x : option (kind * store) => (fun ks : kind * store => (ks.1, set_fuse ks.2 (Some n))) <$> x) <$> m.
Definition disarm (m : machine) : machine :=
  (fun x : option (kind * store) => (fun ks : kind * store => (ks.1, set_fuse ks.2 None)) <$> x) <$> m.

Definition step (m : machine) (o : op) : machine * out :=
  let m0 := reset_ticks m in
  match o with
  | OFuse n o' => let '(m1, x) := step1 (Some n) (arm n m0) o' in (disarm m1, x)
  | _ => step1 None m0 o
  end.

Definition is_fault (o : out) : bool := match o with OutFault _ => true | _ => false end.

(** the trace of a history: after every step the output, the number of
    priority comparisons of that step and the whole machine; it stops at the
    first fault (the process is gone) *)
Fixpoint run (m : machine) (h : list op) : list (out * nat * machine) :=
  match h with
  | [] => []
  | o :: h' =>
      let '(m', x) := step m o in
      (x, total_ticks m', m') :: (if is_fault x then [] else run m' h')
  end.

End Machine.
