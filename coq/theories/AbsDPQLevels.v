(** * AbsDPQLevels: position/level arithmetic, subtrees, list-swap facts and
    the global form of the min-max order. *)
From PQV Require Export AbsSpec.
From Coq Require Import Lia.

Arguments Nat.mul : simpl never.
Arguments Nat.add : simpl never.
Arguments Nat.div : simpl never.
Arguments Nat.log2 : simpl never.
Arguments Nat.even : simpl never.
Arguments Nat.sub : simpl never.

(** ** arithmetic *)
Ltac par_tac :=
  unfold par, left, right in *;
  repeat match goal with
  | |- context [ (?c - 1) / 2 ] =>
      lazymatch goal with
      | _ : c - 1 = 2 * ((c - 1) / 2) + (c - 1) mod 2 |- _ => fail
      | _ => pose proof (Nat.div_mod_eq (c - 1) 2); pose proof (Nat.mod_upper_bound (c - 1) 2)
      end
  | H : context [ (?c - 1) / 2 ] |- _ =>
      lazymatch goal with
      | _ : c - 1 = 2 * ((c - 1) / 2) + (c - 1) mod 2 |- _ => fail
      | _ => pose proof (Nat.div_mod_eq (c - 1) 2); pose proof (Nat.mod_upper_bound (c - 1) 2)
      end
  end.

Lemma par_left i : par (left i) = i.
Proof. unfold par, left. replace (2 * i + 1 - 1) with (i * 2) by lia. apply Nat.div_mul. lia. Qed.
Lemma par_right i : par (right i) = i.
Proof.
  unfold par, right. replace (2 * i + 2 - 1) with (1 + i * 2) by lia.
  rewrite Nat.div_add by lia. reflexivity.
Qed.
Lemma par_cases c : 0 < c -> c = left (par c) \/ c = right (par c).
Proof.
  intros. unfold par, left, right.
  pose proof (Nat.div_mod_eq (c - 1) 2). pose proof (Nat.mod_upper_bound (c - 1) 2). lia.
Qed.
Lemma par_lt c : 0 < c -> par c < c.
Proof.
  intros. unfold par.
  pose proof (Nat.div_mod_eq (c - 1) 2). pose proof (Nat.mod_upper_bound (c - 1) 2). lia.
Qed.
Lemma par_le c : par c <= c.
Proof.
  unfold par.
  pose proof (Nat.div_mod_eq (c - 1) 2). pose proof (Nat.mod_upper_bound (c - 1) 2). lia.
Qed.
Lemma par_0 : par 0 = 0.
Proof. reflexivity. Qed.
Lemma par_eq_inv c i : 0 < c -> par c = i -> c = left i \/ c = right i.
Proof. intros Hc <-. by apply par_cases. Qed.
Lemma par_mono a b : a <= b -> par a <= par b.
Proof. intros. unfold par. apply Nat.div_le_mono; lia. Qed.

Lemma alevel_left i : alevel (left i) = S (alevel i).
Proof.
  unfold alevel, left. replace (2 * i + 1 + 1) with (2 * (i + 1)) by lia.
  apply Nat.log2_double. lia.
Qed.
Lemma alevel_right i : alevel (right i) = S (alevel i).
Proof.
  unfold alevel, right. replace (2 * i + 2 + 1) with (2 * (i + 1) + 1) by lia.
  apply Nat.log2_succ_double. lia.
Qed.
Lemma amin_left i : amin_level (left i) = negb (amin_level i).
Proof. unfold amin_level. rewrite alevel_left, Nat.even_succ, <- Nat.negb_even. done. Qed.
Lemma amin_right i : amin_level (right i) = negb (amin_level i).
Proof. unfold amin_level. rewrite alevel_right, Nat.even_succ, <- Nat.negb_even. done. Qed.
Lemma amin_par c : 0 < c -> amin_level c = negb (amin_level (par c)).
Proof.
  intros Hc. destruct (par_cases c Hc) as [Hx | Hx]; rewrite Hx at 1.
  - apply amin_left.
  - apply amin_right.
Qed.
Lemma amin_par' c : 0 < c -> amin_level (par c) = negb (amin_level c).
Proof. intros. rewrite (amin_par c) by done. by rewrite negb_involutive. Qed.
Lemma amin_0 : amin_level 0 = true.
Proof. reflexivity. Qed.

(** ** subtrees *)
Inductive sub (i : nat) : nat -> Prop :=
  | sub_refl : sub i i
  | sub_up j : 0 < j -> sub i (par j) -> sub i j.

Lemma sub_le i j : sub i j -> i <= j.
Proof. induction 1; [lia|]. pose proof (par_lt j). lia. Qed.
Lemma sub_trans a b c : sub a b -> sub b c -> sub a c.
Proof. intros Hab. induction 1; [done|]. apply sub_up; auto. Qed.
Lemma sub_par j : 0 < j -> sub (par j) j.
Proof. intros. apply sub_up; [done|apply sub_refl]. Qed.
Lemma sub_left i : sub i (left i).
Proof. apply sub_up; [unfold left; lia|]. rewrite par_left. apply sub_refl. Qed.
Lemma sub_right i : sub i (right i).
Proof. apply sub_up; [unfold right; lia|]. rewrite par_right. apply sub_refl. Qed.
Lemma sub_0 j : sub 0 j.
Proof.
  induction j as [j IH] using lt_wf_ind.
  destruct (decide (j = 0)) as [-> | ]; [apply sub_refl|].
  apply sub_up; [lia|]. apply IH. apply par_lt. lia.
Qed.
Lemma sub_inv_up k m : sub k m -> k = m \/ (0 < m /\ sub k (par m)).
Proof. destruct 1; auto. Qed.
Lemma sub_inv_down i j : sub i j -> j = i \/ sub (left i) j \/ sub (right i) j.
Proof.
  induction 1 as [|j Hj Hs IH]; [by left|]. right.
  destruct IH as [IH | [IH | IH] ].
  - destruct (par_eq_inv j i Hj IH) as [-> | ->]; [left|right]; apply sub_refl.
  - left. by apply sub_up.
  - right. by apply sub_up.
Qed.
Lemma sub_antisym a b : sub a b -> sub b a -> a = b.
Proof. intros H1%sub_le H2%sub_le. lia. Qed.
Lemma sub_comparable a i d : sub a d -> sub i d -> sub a i \/ sub i a.
Proof.
  induction 1 as [|d Hd Hs IH]; intros Hi; [by right|].
  destruct (sub_inv_up _ _ Hi) as [-> | [_ Hi'] ].
  - left. by apply sub_up.
  - auto.
Qed.
Lemma sub_proper_lower i d : sub i d -> d <> i -> 2 * i + 1 <= d.
Proof.
  intros H Hne. destruct (sub_inv_down _ _ H) as [? | [H'%sub_le | H'%sub_le] ]; [done| |];
    unfold left, right in *; lia.
Qed.
Lemma sub_proper_par i d : sub i d -> d <> i -> 0 < d /\ sub i (par d).
Proof. intros H Hne. destruct (sub_inv_up _ _ H) as [-> | ?]; done. Qed.

Global Instance sub_dec i j : Decision (sub i j).
Proof.
  revert i. induction j as [j IH] using lt_wf_rec. intros i.
  destruct (decide (i = j)) as [-> | Hne]; [left; apply sub_refl|].
  destruct (decide (0 < j)) as [Hj | Hj].
  - destruct (IH (par j) (par_lt j Hj) i) as [Hs | Hs].
    + left. by apply sub_up.
    + right. intros H. destruct (sub_inv_up _ _ H) as [? | [_ ?] ]; done.
  - right. intros H. destruct (sub_inv_up _ _ H) as [? | [? _] ]; done.
Defined.

(** child-or-grandchild pairs *)
Lemma cg_sub i c : is_child_or_grandchild i c -> sub i c /\ i <> c.
Proof.
  intros [Hc [Hp | [Hp Hg] ] ].
  - subst i. split; [by apply sub_par|]. pose proof (par_lt c Hc). lia.
  - subst i. split.
    + apply sub_up; [done|]. by apply sub_par.
    + pose proof (par_lt c Hc). pose proof (par_lt (par c) Hp). lia.
Qed.
Lemma cg_child_l i : is_child_or_grandchild i (left i).
Proof. split; [unfold left; lia|]. left. apply par_left. Qed.
Lemma cg_child_r i : is_child_or_grandchild i (right i).
Proof. split; [unfold right; lia|]. left. apply par_right. Qed.
Lemma cg_child i c : 0 < c -> par c = i -> is_child_or_grandchild i c.
Proof. intros. split; auto. Qed.
Lemma cg_grand i c : 0 < par c -> par (par c) = i -> is_child_or_grandchild i c.
Proof.
  intros H1 H2. split; [|by right].
  destruct (decide (c = 0)) as [-> | ]; [rewrite par_0 in H1|]; lia.
Qed.
Lemma cg_six i c : is_child_or_grandchild i c <->
  c ∈ [left i; right i; left (left i); right (left i); left (right i); right (right i)].
Proof.
  split.
  - intros [Hc [Hp | [Hp Hg] ] ].
    + destruct (par_eq_inv c i Hc Hp) as [-> | ->]; set_solver.
    + destruct (par_eq_inv _ _ Hp Hg) as [Hx | Hx];
        destruct (par_eq_inv c _ Hc eq_refl) as [Hy | Hy]; rewrite Hx in Hy; rewrite Hy; set_solver.
  - intros H. repeat (apply elem_of_cons in H; destruct H as [-> | H]);
      try (apply elem_of_nil in H; done).
    + apply cg_child_l.
    + apply cg_child_r.
    + apply cg_grand; rewrite ?par_right, ?par_left, ?par_right, ?par_left; unfold left, right; lia.
    + apply cg_grand; rewrite ?par_right, ?par_left, ?par_right, ?par_left; unfold left, right; lia.
    + apply cg_grand; rewrite ?par_right, ?par_left, ?par_right, ?par_left; unfold left, right; lia.
    + apply cg_grand; rewrite ?par_right, ?par_left, ?par_right, ?par_left; unfold left, right; lia.
Qed.
(** an ancestor of a node of subtree(i), reached in one or two steps, is in
    subtree(i) or a proper ancestor of i *)
Lemma cg_sub_cases i k c :
  is_child_or_grandchild k c -> sub i c -> sub i k \/ (sub k i /\ k <> i).
Proof.
  intros [Hk Hne]%cg_sub Hi.
  destruct (sub_comparable _ _ _ Hk Hi) as [H | H]; [|by left].
  destruct (decide (k = i)) as [-> | ]; [left; apply sub_refl|by right].
Qed.

(** ** list facts: swap, swap_remove *)
Section ListFacts.
Context {E : Type}.
Implicit Types l : list E.

Lemma swap_head_perm l b (x y : E) :
  l !! b = Some y -> y :: <[b:=x]> l ≡ₚ x :: l.
Proof.
  revert b. induction l as [|w t IH]; intros [|b] H; simplify_eq/=.
  - apply perm_swap.
  - rewrite perm_swap. rewrite (IH b H). apply perm_swap.
Qed.

Lemma insert_insert_perm l a b (x y : E) :
  a <> b -> l !! a = Some x -> l !! b = Some y -> <[b:=x]> (<[a:=y]> l) ≡ₚ l.
Proof.
  revert a b. induction l as [|w t IH]; intros a b Hne Ha Hb; [done|].
  destruct a as [|a], b as [|b]; simplify_eq/=.
  - by apply swap_head_perm.
  - rewrite (swap_head_perm t a y x Ha). done.
  - f_equiv. apply IH; auto.
Qed.

Lemma aswap_length l a b : length (aswap l a b) = length l.
Proof.
  unfold aswap. destruct (l !! a), (l !! b); try done. by rewrite !insert_length.
Qed.
Lemma aswap_perm l a b : aswap l a b ≡ₚ l.
Proof.
  unfold aswap. destruct (l !! a) as [x|] eqn:Ha; [|done].
  destruct (l !! b) as [y|] eqn:Hb; [|done].
  destruct (decide (a = b)) as [-> | Hne].
  - simplify_eq. rewrite list_insert_insert. by rewrite list_insert_id.
  - by apply insert_insert_perm.
Qed.
Lemma aswap_lookup l a b x y k :
  l !! a = Some x -> l !! b = Some y ->
  aswap l a b !! k = if decide (k = b) then Some x else if decide (k = a) then Some y else l !! k.
Proof.
  intros Ha Hb. unfold aswap. rewrite Ha, Hb.
  pose proof (lookup_lt_Some _ _ _ Ha). pose proof (lookup_lt_Some _ _ _ Hb).
  destruct (decide (k = b)) as [-> | ].
  - rewrite list_lookup_insert; [done|]. by rewrite insert_length.
  - rewrite list_lookup_insert_ne by done.
    destruct (decide (k = a)) as [-> | ].
    + by rewrite list_lookup_insert.
    + by rewrite list_lookup_insert_ne.
Qed.
Lemma aswap_lookup_ne l a b k : k <> a -> k <> b -> aswap l a b !! k = l !! k.
Proof.
  intros. unfold aswap. destruct (l !! a), (l !! b); try done.
  by rewrite !list_lookup_insert_ne.
Qed.

Lemma aswap_remove_nil i : aswap_remove (@nil E) i = [].
Proof. done. Qed.
Lemma aswap_remove_length l i : length (aswap_remove l i) = length l - 1.
Proof.
  unfold aswap_remove. destruct (last l) eqn:Hl.
  - rewrite take_length, insert_length. lia.
  - destruct l; [done|]. by rewrite last_cons in Hl; destruct (last l).
Qed.
Lemma aswap_remove_lookup l i y k :
  last l = Some y -> k < length l - 1 ->
  aswap_remove l i !! k = if decide (k = i) then Some y else l !! k.
Proof.
  intros Hl Hk. unfold aswap_remove. rewrite Hl. rewrite lookup_take by done.
  destruct (decide (k = i)) as [-> | ].
  - apply list_lookup_insert. lia.
  - by apply list_lookup_insert_ne.
Qed.
Lemma aswap_remove_lookup_ge l i k : length l - 1 <= k -> aswap_remove l i !! k = None.
Proof. intros. apply lookup_ge_None. rewrite aswap_remove_length. done. Qed.
Lemma aswap_remove_perm l i x : l !! i = Some x -> l ≡ₚ x :: aswap_remove l i.
Proof.
  intros Hi. unfold aswap_remove. destruct (last l) as [y|] eqn:Hl.
  2:{ destruct l; [done|]. by rewrite last_cons in Hl; destruct (last l). }
  apply last_Some in Hl as [t ->]. rewrite app_length. cbn [length].
  replace (length t + 1 - 1) with (length t) by lia.
  pose proof (lookup_lt_Some _ _ _ Hi) as Hlt. rewrite app_length in Hlt. cbn [length] in Hlt.
  destruct (decide (i = length t)) as [-> | Hne].
  - rewrite take_insert by done. rewrite take_app.
    rewrite lookup_app_r, Nat.sub_diag in Hi by done. simplify_eq/=.
    by rewrite Permutation_app_comm.
  - rewrite take_insert_lt by lia. rewrite take_app.
    rewrite lookup_app_l in Hi by lia.
    rewrite Permutation_app_comm. cbn [app]. symmetry. by apply swap_head_perm.
Qed.
Lemma aswap_remove_elem l i z : z ∈ aswap_remove l i -> z ∈ l.
Proof.
  unfold aswap_remove. destruct (last l) as [y|] eqn:Hl; [|done].
  intros [k Hk]%elem_of_list_lookup.
  pose proof (lookup_lt_Some _ _ _ Hk) as Hlt. rewrite take_length, insert_length in Hlt.
  rewrite lookup_take in Hk by lia.
  destruct (decide (k = i)) as [-> | ].
  - rewrite list_lookup_insert in Hk by lia. simplify_eq.
    rewrite last_lookup in Hl. by eapply elem_of_list_lookup_2.
  - rewrite list_lookup_insert_ne in Hk by done. by eapply elem_of_list_lookup_2.
Qed.
End ListFacts.

(** ** the order, by direction *)
Section Order.
Context {E P : Type}.
Variable pr : E -> P.
Variable ple : P -> P -> bool.
Hypothesis Hord : ord_ok ple.

Definition led (mn : bool) (a b : P) : bool := if mn then ple a b else ple b a.

Lemma led_total mn a b : led mn a b = true \/ led mn b a = true.
Proof. destruct Hord as [Ht _]. destruct mn; cbn; apply Ht. Qed.
Lemma led_trans mn a b c : led mn a b = true -> led mn b c = true -> led mn a c = true.
Proof. destruct Hord as [_ Htr]. destruct mn; cbn; eauto. Qed.
Lemma led_refl mn a : led mn a a = true.
Proof. by destruct (led_total mn a a). Qed.
Lemma led_negb mn a b : led (negb mn) a b = led mn b a.
Proof. by destruct mn. Qed.
Lemma alt_dir_led mn a b : alt_dir ple mn a b = negb (led mn b a).
Proof. by destruct mn. Qed.
Lemma alt_dir_true mn a b : alt_dir ple mn a b = true -> led mn a b = true.
Proof.
  rewrite alt_dir_led. intros H%negb_true_iff.
  destruct (led_total mn a b) as [? | H']; [done|congruence].
Qed.
Lemma alt_dir_false mn a b : alt_dir ple mn a b = false -> led mn b a = true.
Proof. rewrite alt_dir_led. by intros H%negb_false_iff. Qed.
Lemma alt_led a b : alt ple a b = negb (led true b a).
Proof. done. Qed.

(** the pair (i, c) is ordered in [l] *)
Definition pair_ok (l : list E) (i c : nat) : Prop :=
  forall xi xc, l !! i = Some xi -> l !! c = Some xc ->
    led (amin_level i) (pr xi) (pr xc) = true.
(** local order at node [i] *)
Definition ord_at (l : list E) (i : nat) : Prop :=
  forall c, is_child_or_grandchild i c -> pair_ok l i c.
(** global order, except for the ancestors in [B] *)
Definition gord_ex (B : nat -> Prop) (l : list E) : Prop :=
  forall a d, sub a d -> a <> d -> ~ B a -> pair_ok l a d.

Lemma minmax_ord_ord_at l : minmax_ord pr ple l <-> forall i, ord_at l i.
Proof.
  unfold minmax_ord, ord_at, pair_ok, led. split.
  - intros H i c Hc xi xc Hi Hxc. specialize (H i c xi xc Hc Hi Hxc).
    by destruct (amin_level i).
  - intros H i c xi xc Hc Hi Hxc. specialize (H i c Hc xi xc Hi Hxc).
    by destruct (amin_level i).
Qed.

(** local => global, inside a subtree *)
Lemma ord_at_dom l i :
  (forall k, sub i k -> ord_at l k) ->
  forall d, sub i d -> i <> d -> pair_ok l i d.
Proof.
  intros Hloc d. revert i Hloc.
  induction d as [d IH] using lt_wf_ind. intros i Hloc Hs Hne xi xd Hi Hd.
  destruct (sub_proper_par _ _ Hs) as [Hd0 Hsp]; [done|].
  destruct (decide (par d = i)) as [Hp | Hp].
  { apply (Hloc i (sub_refl i) d); auto. by apply cg_child. }
  destruct (sub_proper_par _ _ Hsp Hp) as [Hp0 Hsg].
  destruct (decide (par (par d) = i)) as [Hg | Hg].
  { apply (Hloc i (sub_refl i) d); auto. by apply cg_grand. }
  pose proof (par_lt d Hd0) as Hlt1. pose proof (par_lt _ Hp0) as Hlt2.
  pose proof (lookup_lt_Some _ _ _ Hd) as Hdl.
  destruct (lookup_lt_is_Some_2 l (par d)) as [xp Hxp]; [lia|].
  destruct (lookup_lt_is_Some_2 l (par (par d))) as [xg Hxg]; [lia|].
  destruct (decide (amin_level (par (par d)) = amin_level i)) as [Hk | Hk].
  - eapply led_trans.
    + eapply (IH (par (par d))); eauto. lia.
    + rewrite <- Hk. eapply (Hloc (par (par d)) Hsg d); eauto. by apply cg_grand.
  - assert (amin_level (par d) = amin_level i) as Hk'.
    { rewrite (amin_par (par d)) by done. destruct (amin_level (par (par d))), (amin_level i); done. }
    eapply led_trans.
    + eapply (IH (par d)); eauto.
    + rewrite <- Hk'. eapply (Hloc (par d) Hsp d); eauto. by apply cg_child.
Qed.

Lemma gord_ex_ord_at B l k : gord_ex B l -> ~ B k -> ord_at l k.
Proof. intros H Hk c [Hs Hne]%cg_sub. by apply H. Qed.

Lemma gord_ex_minmax l : gord_ex (fun _ => False) l <-> minmax_ord pr ple l.
Proof.
  rewrite minmax_ord_ord_at. split.
  - intros H i. eapply gord_ex_ord_at; eauto.
  - intros H a d Hs Hne _. apply ord_at_dom; auto.
Qed.
Lemma gord_ex_weaken (B B' : nat -> Prop) l :
  (forall a, B a -> B' a) -> gord_ex B l -> gord_ex B' l.
Proof. intros HB H a d Hs Hne Ha. apply H; auto. Qed.

(** subtree frames *)
Definition frame (i : nat) (l l' : list E) : Prop :=
  length l' = length l /\
  (forall k, ~ sub i k -> l' !! k = l !! k) /\
  (forall k x, sub i k -> l' !! k = Some x -> exists k', sub i k' /\ l !! k' = Some x).

Lemma frame_refl i l : frame i l l.
Proof. split; [done|]. split; [done|]. eauto. Qed.
Lemma frame_trans i m l l1 l2 : sub i m -> frame i l l1 -> frame m l1 l2 -> frame i l l2.
Proof.
  intros Him (Hl1 & Ho1 & Hi1) (Hl2 & Ho2 & Hi2). split; [congruence|]. split.
  - intros k Hk. rewrite Ho2; [by apply Ho1|]. intros Hm. apply Hk. exact (sub_trans _ _ _ Him Hm).
  - intros k x Hk Hx. destruct (decide (sub m k)) as [Hmk | Hmk].
    + destruct (Hi2 k x Hmk Hx) as (k' & Hk' & Hx'). apply (Hi1 k'); auto. exact (sub_trans _ _ _ Him Hk').
    + rewrite Ho2 in Hx by done. by apply (Hi1 k).
Qed.
Lemma frame_aswap i l a b : sub i a -> sub i b -> frame i l (aswap l a b).
Proof.
  intros Ha Hb. split; [apply aswap_length|]. split.
  - intros k Hk. apply aswap_lookup_ne; intros ->; done.
  - intros k x Hk Hx. unfold aswap in Hx.
    destruct (l !! a) as [xa|] eqn:Hxa; [|by eauto].
    destruct (l !! b) as [xb|] eqn:Hxb; [|by eauto].
    change (aswap l a b !! k = Some x) in Hx || idtac.
    pose proof (aswap_lookup l a b xa xb k Hxa Hxb) as Hlk. unfold aswap in Hlk.
    rewrite Hxa, Hxb in Hlk. rewrite Hlk in Hx.
    destruct (decide (k = b)); [simplify_eq; eauto|].
    destruct (decide (k = a)); [simplify_eq; eauto|]. eauto.
Qed.
End Order.
