(** * Base: fault monad, checked vector primitives.

    Every Rust [get_unchecked(_mut)] becomes a *checked* access that
    returns [Fault UB] when out of range; every access that panics in Rust
    ([v[i]], [Vec::swap], [Vec::swap_remove], [unwrap], usize underflow in a
    debug build) returns [Fault Panic].  Nothing is totalised by a default. *)
From stdpp Require Export prelude.

Inductive fault := UB | Panic | OutOfFuel.

(** [Unwound s]: a user callback panicked (the fuse fired); [s] is the state
    of the queue at that instant, which is what [catch_unwind] leaves behind. *)
Inductive res (S A : Type) :=
  | Ok (a : A)
  | Unwound (s : S)
  | Fault (f : fault).
Arguments Ok {_ _} _.
Arguments Unwound {_ _} _.
Arguments Fault {_ _} _.

Definition rbind {S A B} (f : A -> res S B) (m : res S A) : res S B :=
  match m with
  | Ok a => f a
  | Unwound s => Unwound s
  | Fault e => Fault e
  end.
Global Instance res_ret S : MRet (res S) := fun A a => Ok a.
Global Instance res_bind S : MBind (res S) := fun A B f m => rbind f m.

Definition is_ok {S A} (m : res S A) : bool :=
  match m with Ok _ => true | _ => false end.

(** [get_unchecked]: out of range is undefined behaviour *)
Definition getu {S A} (l : list A) (i : nat) : res S A :=
  match l !! i with Some a => Ok a | None => Fault UB end.
(** [*get_unchecked_mut(i) = a] *)
Definition setu {S A} (l : list A) (i : nat) (a : A) : res S (list A) :=
  if decide (i < length l) then Ok (<[i:=a]> l) else Fault UB.
(** [v[i]] and friends: out of range panics *)
Definition getc {S A} (l : list A) (i : nat) : res S A :=
  match l !! i with Some a => Ok a | None => Fault Panic end.
(** [Option::unwrap] *)
Definition unwrap {S A} (o : option A) : res S A :=
  match o with Some a => Ok a | None => Fault Panic end.

(** [Vec::swap(a, b)] (panics when out of range) *)
Definition vswap {S A} (l : list A) (a b : nat) : res S (list A) :=
  x ← getc l a; y ← getc l b; Ok (<[b:=x]> (<[a:=y]> l)).

(** [Vec::swap_remove(i)]: the last element takes the place of the removed one *)
Definition vswap_remove {S A} (l : list A) (i : nat) : res S (A * list A) :=
  match l !! i, last l with
  | Some x, Some y => Ok (x, take (length l - 1) (<[i:=y]> l))
  | _, _ => Fault Panic
  end.

(** [x - 1] on usize in a debug build *)
Definition sub1 {S} (n : nat) : res S nat :=
  match n with O => Fault Panic | S k => Ok k end.

(** heap arithmetic (identical in both queue kinds) *)
Definition left (i : nat) : nat := 2 * i + 1.
Definition right (i : nat) : nat := 2 * i + 2.
Definition parent {S} (i : nat) : res S nat :=
  match i with O => Fault Panic | S k => Ok (k / 2) end.

(** first index whose element satisfies [f] *)
Fixpoint find_idx {A} (f : A -> bool) (l : list A) : option nat :=
  match l with
  | [] => None
  | x :: l' => if f x then Some 0 else S <$> find_idx f l'
  end.
