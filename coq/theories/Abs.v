(** * Abs: the heap algorithms on a plain list of entries in heap-position order.

    This is the *proof-side abstraction* of PQ.v / DPQ.v: the same control
    flow, the same comparisons in the same order (so the same tie-breaking
    and the same number of comparisons), but on [list E] indexed by heap
    position instead of on the store with its two index tables.  The
    simulation lemmas (SimPQ.v, SimDPQ.v) show that on a well-formed store the
    concrete routine computes exactly the abstract one on [eview s]; the
    order/cost theorems are then proved here on lists.

    Every function returns the new list together with the number of
    priority comparisons it made.  The moving-hole sift-ups of the code are
    swap-based here (the simulation shows the hole filled with the carried
    entry is this list). *)
From PQV Require Export Base.

Section Abs.
Context {E P : Type}.
Variable pr : E -> P.
Variable ple : P -> P -> bool.

Definition alt (a b : P) : bool := negb (ple b a).

Definition aswap (l : list E) (a b : nat) : list E :=
  match l !! a, l !! b with
  | Some x, Some y => <[b:=x]> (<[a:=y]> l)
  | _, _ => l
  end.

(** Vec::swap_remove *)
Definition aswap_remove (l : list E) (i : nat) : list E :=
  match last l with
  | Some y => take (length l - 1) (<[i:=y]> l)
  | None => l
  end.

Definition par (i : nat) : nat := (i - 1) / 2.

(** ** max-heap (PQ.v) *)

(** pick_largest: (largest, comparisons) *)
Definition apick (l : list E) (i : nat) : nat * nat :=
  match l !! i with
  | None => (i, 0)
  | Some x =>
      match l !! left i with
      | None => (i, 0)
      | Some xl =>
          let '(lg, xg) := if alt (pr x) (pr xl) then (left i, xl) else (i, x) in
          match l !! right i with
          | None => (lg, 1)
          | Some xr => (if alt (pr xg) (pr xr) then right i else lg, 2)
          end
      end
  end.

Fixpoint asift_down (fuel : nat) (l : list E) (i : nat) : list E * nat :=
  match fuel with
  | O => (l, 0)
  | S fuel' =>
      let '(lg, t) := apick l i in
      if decide (lg = i) then (l, t)
      else let '(l', t') := asift_down fuel' (aswap l i lg) lg in (l', t + t')
  end.

Definition aheapify (l : list E) (i : nat) : list E * nat :=
  if decide (length l <= 1) then (l, 0) else asift_down (S (length l)) l i.

(** bubble_up: (list, final position, comparisons) *)
Fixpoint asift_up (fuel : nat) (l : list E) (pos : nat) : list E * nat * nat :=
  match fuel with
  | O => (l, pos, 0)
  | S fuel' =>
      match pos with
      | O => (l, pos, 0)
      | S _ =>
          match l !! par pos, l !! pos with
          | Some xp, Some x =>
              if alt (pr xp) (pr x)
              then let '(l', p', t) := asift_up fuel' (aswap l pos (par pos)) (par pos) in
                   (l', p', S t)
              else (l, pos, 1)
          | _, _ => (l, pos, 0)
          end
      end
  end.

Definition aup_heapify (l : list E) (i : nat) : list E * nat :=
  let '(l1, pos, t1) := asift_up (S i) l i in
  let '(l2, t2) := aheapify l1 pos in
  (l2, t1 + t2).

(** heapify n-1, ..., 0 *)
Fixpoint abuild_loop (l : list E) (n : nat) : list E * nat :=
  match n with
  | O => (l, 0)
  | S k => let '(l1, t1) := aheapify l k in
           let '(l2, t2) := abuild_loop l1 k in (l2, t1 + t2)
  end.
Definition abuild (l : list E) : list E * nat :=
  if decide (length l = 0) then (l, 0) else abuild_loop l (S (par (length l))).

(** public operations, at the level of heap positions *)
Definition a_push_new (l : list E) (e : E) : list E * nat :=
  let '(l', _, t) := asift_up (S (length l)) (l ++ [e]) (length l) in (l', t).
Definition a_update (l : list E) (pos : nat) (e' : E) : list E * nat :=
  aup_heapify (<[pos := e']> l) pos.
Definition a_remove (l : list E) (pos : nat) : list E * nat :=
  let l1 := aswap_remove l pos in
  if decide (pos < length l1) then aup_heapify l1 pos else (l1, 0).
Definition a_pop (l : list E) : option E * list E * nat :=
  match length l with
  | 0 => (None, l, 0)
  | 1 => (l !! 0, aswap_remove l 0, 0)
  | _ => let '(l', t) := aheapify (aswap_remove l 0) 0 in (l !! 0, l', t)
  end.
(** pop_if: the predicate [f e = (e', verdict)] *)
Definition a_pop_if (l : list E) (f : E -> E * bool) : option E * list E * nat :=
  match l !! 0 with
  | None => (None, l, 0)
  | Some e =>
      let '(e', b) := f e in
      let l1 := <[0 := e']> l in
      let '(r, l2) := if b : bool then (Some e', aswap_remove l1 0) else (None, l1) in
      match length l with
      | 1 => (r, l2, 0)
      | _ => let '(l3, t) := aheapify l2 0 in (r, l3, t)
      end
  end.
(** repeated pop *)
Fixpoint a_pop_all (fuel : nat) (l : list E) : list E * nat :=
  match fuel with
  | O => ([], 0)
  | S fuel' =>
      match a_pop l with
      | (None, _, _) => ([], 0)
      | (Some e, l', t) => let '(out, t') := a_pop_all fuel' l' in (e :: out, t + t')
      end
  end.

(** ** min-max heap (DPQ.v) *)

Definition alevel (i : nat) : nat := Nat.log2 (i + 1).
Definition amin_level (i : nat) : bool := Nat.even (alevel i).

Fixpoint atake_present (l : list E) (ps : list nat) : list nat :=
  match ps with
  | [] => []
  | p :: ps' => match l !! p with
                | Some _ => p :: atake_present l ps'
                | None => []
                end
  end.
Definition acands (l : list E) (i : nat) : list nat :=
  let a := left i in let b := right i in
  atake_present l [a; b; left a; right a; left b; right b].

(** min_by_key (first minimum) / max_by_key (last maximum): (position, comparisons) *)
Fixpoint apick_min_from (l : list E) (cur : nat) (xc : E) (ps : list nat) : nat * nat :=
  match ps with
  | [] => (cur, 0)
  | y :: ps' =>
      match l !! y with
      | None => (cur, 0)
      | Some xy =>
          let '(r, t) := if alt (pr xy) (pr xc) then apick_min_from l y xy ps'
                         else apick_min_from l cur xc ps' in (r, S t)
      end
  end.
Fixpoint apick_max_from (l : list E) (cur : nat) (xc : E) (ps : list nat) : nat * nat :=
  match ps with
  | [] => (cur, 0)
  | y :: ps' =>
      match l !! y with
      | None => (cur, 0)
      | Some xy =>
          let '(r, t) := if alt (pr xy) (pr xc) then apick_max_from l cur xc ps'
                         else apick_max_from l y xy ps' in (r, S t)
      end
  end.
Definition apick_extreme (mn : bool) (l : list E) (i : nat) : option (nat * nat) :=
  match acands l i with
  | [] => None
  | c :: cs =>
      xc ← l !! c;
      Some (if mn then apick_min_from l c xc cs else apick_max_from l c xc cs)
  end.

(** a < b when [mn], a > b otherwise *)
Definition alt_dir (mn : bool) (a b : P) : bool := if mn then alt a b else alt b a.

Fixpoint atrickle (mn : bool) (fuel : nat) (l : list E) (i : nat) : list E * nat :=
  match fuel with
  | O => (l, 0)
  | S fuel' =>
      if decide (i <= par (length l - 1)) then
        match apick_extreme mn l i with
        | None => (l, 0)
        | Some (c, t0) =>
            match l !! c, l !! i with
            | Some xc, Some xi =>
                if alt_dir mn (pr xc) (pr xi) then
                  let l1 := aswap l c i in
                  if decide (right i < c) then
                    let p := par c in
                    match l1 !! c, l1 !! p with
                    | Some yc, Some yp =>
                        let l2 := if alt_dir mn (pr yp) (pr yc) then aswap l1 c p else l1 in
                        let '(l3, t3) := atrickle mn fuel' l2 c in
                        (l3, t0 + 2 + t3)
                    | _, _ => (l1, t0 + 1)
                    end
                  else (l1, t0 + 1)
                else (l, t0 + 1)
            | _, _ => (l, t0)
            end
        end
      else (l, 0)
  end.

Definition adheapify (l : list E) (i : nat) : list E * nat :=
  if decide (length l <= 1) then (l, 0)
  else atrickle (amin_level i) (S (length l)) l i.

(** the grandparent chain; [x] is the carried entry, sitting at [pos] *)
Fixpoint achain (mn : bool) (fuel : nat) (l : list E) (pos : nat) : list E * nat * nat :=
  match fuel with
  | O => (l, pos, 0)
  | S fuel' =>
      match pos with
      | O => (l, pos, 0)
      | S _ =>
          match par pos with
          | O => (l, pos, 0)
          | S _ =>
              let gp := par (par pos) in
              match l !! gp, l !! pos with
              | Some xg, Some x =>
                  if alt_dir mn (pr x) (pr xg)
                  then let '(l', p', t) := achain mn fuel' (aswap l pos gp) gp in (l', p', S t)
                  else (l, pos, 1)
              | _, _ => (l, pos, 0)
              end
          end
      end
  end.

Definition adbubble_up (l : list E) (pos : nat) : list E * nat * nat :=
  match pos with
  | O => (l, pos, 0)
  | S _ =>
      match l !! par pos, l !! pos with
      | Some xp, Some x =>
          let b := alt (pr xp) (pr x) in
          let '(l', p', t) :=
            match amin_level pos, b with
            | true, true => achain false (S pos) (aswap l pos (par pos)) (par pos)
            | true, false => achain true (S pos) l pos
            | false, true => achain false (S pos) l pos
            | false, false => achain true (S pos) (aswap l pos (par pos)) (par pos)
            end in
          (l', p', S t)
      | _, _ => (l, pos, 0)
      end
  end.

Definition adup_heapify (l : list E) (i : nat) : list E * nat :=
  match l !! i with
  | None => (l, 0)
  | Some _ =>
      let '(l1, pos, t1) := adbubble_up l i in
      let '(l2, t2) := if decide (i = pos) then (l1, 0) else adheapify l1 i in
      let '(l3, t3) := adheapify l2 pos in
      (l3, t1 + t2 + t3)
  end.

Fixpoint adbuild_loop (l : list E) (n : nat) : list E * nat :=
  match n with
  | O => (l, 0)
  | S k => let '(l1, t1) := adheapify l k in
           let '(l2, t2) := adbuild_loop l1 k in (l2, t1 + t2)
  end.
Definition adbuild (l : list E) : list E * nat :=
  if decide (length l = 0) then (l, 0) else adbuild_loop l (S (par (length l))).

(** find_max: (position, comparisons) *)
Definition afind_max (l : list E) : option nat * nat :=
  match length l with
  | 0 => (None, 0)
  | 1 => (Some 0, 0)
  | 2 => (Some 1, 0)
  | _ => match l !! 1, l !! 2 with
         | Some x1, Some x2 => (Some (if alt (pr x2) (pr x1) then 1 else 2), 1)
         | _, _ => (None, 0)
         end
  end.
Definition afind_min (l : list E) : option nat :=
  match length l with 0 => None | _ => Some 0 end.

Definition a_dpush_new (l : list E) (e : E) : list E * nat :=
  let '(l', _, t) := adbubble_up (l ++ [e]) (length l) in (l', t).
Definition a_dupdate (l : list E) (pos : nat) (e' : E) : list E * nat :=
  adup_heapify (<[pos := e']> l) pos.
Definition a_dremove (l : list E) (pos : nat) : list E * nat :=
  let l1 := aswap_remove l pos in
  if decide (pos < length l1) then adup_heapify l1 pos else (l1, 0).
Definition a_pop_at (l : list E) (pos : nat) : option E * list E * nat :=
  let '(l', t) := adheapify (aswap_remove l pos) pos in (l !! pos, l', t).
Definition a_pop_min (l : list E) : option E * list E * nat :=
  match afind_min l with None => (None, l, 0) | Some pos => a_pop_at l pos end.
Definition a_pop_max (l : list E) : option E * list E * nat :=
  match afind_max l with
  | (None, t) => (None, l, t)
  | (Some pos, t) => let '(r, l', t') := a_pop_at l pos in (r, l', t + t')
  end.
(** pop_min_if re-sifts with heapify, pop_max_if with up_heapify *)
Definition a_pop_ext_if (mx : bool) (l : list E) (f : E -> E * bool) : option E * list E * nat :=
  let '(opos, t0) := if mx then afind_max l else (afind_min l, 0) in
  match opos with
  | None => (None, l, t0)
  | Some pos =>
      match l !! pos with
      | None => (None, l, t0)
      | Some e =>
          let '(e', b) := f e in
          let l1 := <[pos := e']> l in
          let '(r, l2) := if b : bool then (Some e', aswap_remove l1 pos) else (None, l1) in
          let '(l3, t) := if mx then adup_heapify l2 pos else adheapify l2 pos in
          (r, l3, t0 + t)
      end
  end.
Fixpoint a_dpop_all (mn : bool) (fuel : nat) (l : list E) : list E * nat :=
  match fuel with
  | O => ([], 0)
  | S fuel' =>
      match (if mn then a_pop_min l else a_pop_max l) with
      | (None, _, _) => ([], 0)
      | (Some e, l', t) => let '(out, t') := a_dpop_all mn fuel' l' in (e :: out, t + t')
      end
  end.

(** ** the order invariants *)

(** max-heap: every node is <= its parent *)
Definition heap_ord (l : list E) : Prop :=
  forall c xc xp, 0 < c -> l !! c = Some xc -> l !! par c = Some xp ->
    ple (pr xc) (pr xp) = true.

(** min-max heap: a node on a min (even) level is <= its children and
    grandchildren; a node on a max (odd) level is >= them *)
Definition is_child_or_grandchild (i c : nat) : Prop :=
  0 < c /\ (par c = i \/ (0 < par c /\ par (par c) = i)).
Definition minmax_ord (l : list E) : Prop :=
  forall i c xi xc, is_child_or_grandchild i c ->
    l !! i = Some xi -> l !! c = Some xc ->
    if amin_level i then ple (pr xi) (pr xc) = true else ple (pr xc) (pr xi) = true.

End Abs.
