(** * EqRel: C14 for a priority type whose [PartialEq] is coarser than
    Leibniz equality (for instance the tagged priorities of InstanceT.v, or
    any user type comparing a key field only).

    [C14_eq] assumes [peq a b = true <-> a = b].  Here [peq] is arbitrary for
    the characterisation, and an equivalence relation for the algebraic laws:
    two queues compare equal iff they hold the same items and every item's
    priorities are [peq]-related; [==] on queues is then reflexive, symmetric
    and transitive, whatever their internal arrangement. *)
From PQV Require Export PropSpec.
From PQV Require Import ListProofs PropProofs Final.

Section EqRel.
Context {I P : Type}.
Variable keq : I -> I -> bool.
Variable hash : I -> N.
Variable ple : P -> P -> bool.
Variable peq : P -> P -> bool.

Notation store := (store I P).
Notation alk := (alookup keq hash).
Notation nodup := (nodup_keys keq).
Notation E := (I * P)%type.
Notation qinv := (qinv keq ple).
Notation prio_rel := (prio_rel peq).

Section Proofs.
Hypothesis Hk : keq_ok keq hash.

Lemma rel_keys_incl_l ma mb :
  nodup ma ->
  (forall k, prio_rel (snd <$> alk ma k) (snd <$> alk mb k)) -> keys_incl keq ma mb.
Proof.
  intros Hn H x Hx.
  assert (Hl : alk ma x.1 = Some x) by (apply (alookup_Some keq hash Hk); auto using (keq_refl keq hash Hk)).
  specialize (H x.1). rewrite Hl in H. destruct (alk mb x.1) as [y|] eqn:Hy; [|done].
  apply (alookup_Some_1 keq hash Hk) in Hy as [Hy Hyx]. exists y.
  split; [done|by apply (keq_sym keq hash Hk)].
Qed.

Lemma rel_keys_incl_r ma mb :
  nodup mb ->
  (forall k, prio_rel (snd <$> alk ma k) (snd <$> alk mb k)) -> keys_incl keq mb ma.
Proof.
  intros Hn H y Hy.
  assert (Hl : alk mb y.1 = Some y) by (apply (alookup_Some keq hash Hk); auto using (keq_refl keq hash Hk)).
  specialize (H y.1). rewrite Hl in H. destruct (alk ma y.1) as [x|] eqn:Hx; [|done].
  apply (alookup_Some_1 keq hash Hk) in Hx as [Hx Hxy]. exists x.
  split; [done|by apply (keq_sym keq hash Hk)].
Qed.

Lemma store_eq_rel (a b : store) :
  nodup (smap a) -> nodup (smap b) ->
  (store_eq keq hash peq a b = true <->
   forall k, prio_rel (snd <$> alk (smap a) k) (snd <$> alk (smap b) k)).
Proof.
  intros Hna Hnb. unfold store_eq.
  set (ma := smap a) in *. set (mb := smap b) in *.
  change (fun e : E => match get keq hash b e.1 with
                       | Some e' => peq e.2 e'.2 | None => false end)
    with (fun e : E => match alk mb e.1 with
                       | Some e' => peq e.2 e'.2 | None => false end).
  assert (Hchk : forall e : E,
    match alk mb e.1 with Some e' => peq e.2 e'.2 | None => false end = true <->
    prio_rel (Some e.2) (snd <$> alk mb e.1)).
  { intros e. destruct (alk mb e.1) as [e'|]; cbn; [done|]. split; [done|intros []]. }
  rewrite andb_true_iff, Nat.eqb_eq, forallb_forall. split.
  - intros [Hlen Hall].
    assert (Hall' : forall e, e ∈ ma -> prio_rel (Some e.2) (snd <$> alk mb e.1)).
    { intros e He. apply Hchk, Hall. by apply elem_of_list_In. }
    assert (Hi : keys_incl keq ma mb).
    { intros x Hx. specialize (Hall' x Hx).
      destruct (alk mb x.1) as [y|] eqn:Hy; [|done].
      apply (alookup_Some_1 keq hash Hk) in Hy as [Hy Hyx]. exists y.
      split; [done|by apply (keq_sym keq hash Hk)]. }
    assert (Hs : keys_incl keq mb ma) by (apply (keys_incl_surj keq hash Hk); auto; lia).
    intros k. destruct (alk ma k) as [e|] eqn:He.
    + apply (alookup_Some_1 keq hash Hk) in He as [He Hek].
      rewrite <- (alookup_keq keq hash Hk mb e.1 k Hek). cbn. by apply Hall'.
    + destruct (alk mb k) as [y|] eqn:Hy; [|done].
      apply (alookup_Some_1 keq hash Hk) in Hy as [Hy Hyk].
      destruct (Hs y Hy) as (x & Hx & Hyx).
      rewrite (alookup_None keq hash Hk) in He. exfalso.
      assert (Hxk : keq x.1 k = true).
      { apply (keq_trans keq hash Hk _ y.1); [by apply (keq_sym keq hash Hk)|done]. }
      rewrite (He x Hx) in Hxk. done.
  - intros H. split.
    + apply Nat.le_antisymm; apply (keys_incl_length keq hash Hk); auto.
      * by apply rel_keys_incl_l.
      * by apply rel_keys_incl_r.
    + intros e He%elem_of_list_In. apply Hchk.
      assert (Hl : alk ma e.1 = Some e) by (apply (alookup_Some keq hash Hk); auto using (keq_refl keq hash Hk)).
      specialize (H e.1). by rewrite Hl in H.
Qed.

End Proofs.

Theorem C14_eq_rel_thm : C14_eq_rel_stmt keq hash ple peq.
Proof.
  intros Hk k o1 o2 a b Ha Hb.
  apply (store_eq_rel Hk); by eapply (qinv_nodup keq ple).
Qed.

Theorem C14_eq_equivalence_thm : C14_eq_equivalence_stmt keq hash ple peq.
Proof.
  intros Hk Hr Hs Ht k o1 o2 o3 a b c Ha Hb Hc.
  pose proof (qinv_nodup keq ple _ _ _ Ha) as Hna.
  pose proof (qinv_nodup keq ple _ _ _ Hb) as Hnb.
  pose proof (qinv_nodup keq ple _ _ _ Hc) as Hnc.
  split_and!.
  - apply (store_eq_rel Hk); [done..|]. intros j. destruct (alk (smap a) j); cbn; [apply Hr|done].
  - rewrite !(store_eq_rel Hk) by done. intros H j. specialize (H j).
    destruct (alk (smap a) j), (alk (smap b) j); cbn in *; auto.
  - rewrite !(store_eq_rel Hk) by done. intros H1 H2 j. specialize (H1 j). specialize (H2 j).
    destruct (alk (smap a) j), (alk (smap b) j), (alk (smap c) j); cbn in *; eauto; done.
Qed.

Theorem C15_roundtrip_rel_thm : C15_roundtrip_rel_stmt keq hash ple peq.
Proof.
  intros Hk Ho Hr k k' o s Hq. pose proof (qinv_nodup keq ple _ _ _ Hq) as Hn.
  assert (Hl : forall s' : store, nodup (smap s') -> smap s' = visit_list keq hash (serialize s) ->
            smap s' = smap s /\ store_eq keq hash peq s s' = true).
  { intros s' Hn' Hm. unfold serialize in Hm.
    rewrite (visit_list_id keq hash Hk (smap s) Hn) in Hm. split; [done|].
    apply (store_eq_rel Hk); [done..|]. intros j. rewrite Hm.
    destruct (alk (smap s) j); cbn; [apply Hr|done]. }
  destruct k'.
  - destruct (F_pq_deserialize keq hash ple Hk Ho (serialize s)) as (s' & Hd & Hi & Hm & _).
    exists s'.
    assert (Hq' : PropSpec.qinv keq ple KPQ true s') by exact Hi.
    destruct (Hl s' (qinv_nodup keq ple _ _ _ Hq') Hm). done.
  - destruct (F_dpq_deserialize keq hash ple Hk Ho (serialize s)) as (s' & Hd & Hi & Hm & _).
    exists s'.
    assert (Hq' : PropSpec.qinv keq ple KDPQ true s') by exact Hi.
    destruct (Hl s' (qinv_nodup keq ple _ _ _ Hq') Hm). done.
Qed.

End EqRel.

Print Assumptions C14_eq_rel_thm.
Print Assumptions C14_eq_equivalence_thm.
Print Assumptions C15_roundtrip_rel_thm.
