(** * AbsCostProofs: comparison counts of the abstract heap algorithms.

    Pure counting arguments: no hypothesis on [ple] whatsoever.

    The measure is [hh n i = log2 (n / (i+1))], the exact height of node [i]
    in the complete binary tree on [n] nodes (number of times [i := 2i+1]
    stays below [n]).  One step down to a child lowers it by >= 1, a step to
    a grandchild by >= 2; [sum_{k<m} hh n k <= n] (Floyd). *)
From PQV Require Import AbsSpec.

Arguments Nat.mul : simpl never.
Arguments Nat.add : simpl never.
Arguments Nat.div : simpl never.
Arguments Nat.log2 : simpl never.
Arguments Nat.sub : simpl never.

(** ** arithmetic *)

Lemma log2_half q : 2 <= q -> Nat.log2 (q / 2) + 1 = Nat.log2 q.
Proof.
  intros Hq.
  pose proof (Nat.div_mod_eq q 2) as H1. pose proof (Nat.mod_upper_bound q 2) as H2.
  remember (q / 2) as h eqn:Hh.
  assert (0 < h) by lia.
  destruct (decide (q mod 2 = 0)).
  - assert (q = 2 * h) as Hq' by lia. rewrite Hq'. rewrite Nat.log2_double by lia. lia.
  - assert (q = 2 * h + 1) as Hq' by lia. rewrite Hq'. rewrite Nat.log2_succ_double by lia. lia.
Qed.

Lemma log2_small q : q < 2 -> Nat.log2 q = 0.
Proof. intros. destruct q as [|[|]]; [reflexivity|reflexivity|lia]. Qed.

Definition hh (n i : nat) : nat := Nat.log2 (n / (i + 1)).

Lemma hh_step n i c : 2 * i + 1 <= c -> c < n -> hh n c + 1 <= hh n i.
Proof.
  intros H1 H2. unfold hh.
  assert (n / (c + 1) <= n / (i + 1) / 2) as H.
  { rewrite Nat.div_div by lia. apply Nat.div_le_compat_l. lia. }
  assert (2 <= n / (i + 1)).
  { apply Nat.div_le_lower_bound; lia. }
  rewrite <- (log2_half (n / (i + 1))) by done.
  pose proof (Nat.log2_le_mono _ _ H). lia.
Qed.

Lemma hh_step2 n i c : 4 * i + 3 <= c -> c < n -> hh n c + 2 <= hh n i.
Proof.
  intros H1 H2.
  pose proof (hh_step n (2 * i + 1) c). pose proof (hh_step n i (2 * i + 1)). lia.
Qed.

Lemma hh_le_log n i : hh n i <= Nat.log2 n.
Proof.
  unfold hh. apply Nat.log2_le_mono. apply Nat.div_le_upper_bound; [lia|].
  nia.
Qed.

Lemma hh_half n k :
  hh n k <= (if decide (k + 1 <= n / 2) then 1 else 0) + hh (n / 2) k.
Proof.
  unfold hh.
  assert ((n / 2) / (k + 1) = n / (k + 1) / 2) as ->.
  { rewrite !Nat.div_div by lia. f_equal. lia. }
  pose proof (Nat.div_mod_eq n 2). pose proof (Nat.mod_upper_bound n 2).
  destruct (decide _).
  - rewrite <- (log2_half (n / (k + 1))); [lia|].
    apply Nat.div_le_lower_bound; lia.
  - assert (n / (k + 1) < 2) by (apply Nat.div_lt_upper_bound; lia).
    rewrite (log2_small (n / (k + 1))) by done. lia.
Qed.

Fixpoint sumh (n m : nat) : nat :=
  match m with 0 => 0 | S k => hh n k + sumh n k end.

Lemma sumh_half n m : sumh n m <= Nat.min m (n / 2) + sumh (n / 2) m.
Proof.
  induction m as [|k IH]; cbn [sumh]; [lia|].
  pose proof (hh_half n k). destruct (decide _); lia.
Qed.

Lemma sumh_0 m : sumh 0 m = 0.
Proof.
  induction m as [|k IH]; cbn [sumh]; [done|].
  rewrite IH. unfold hh. rewrite Nat.div_0_l by lia. reflexivity.
Qed.

(** Floyd: the heights of all nodes sum to at most [n] *)
Lemma sumh_le n : forall m, sumh n m <= n.
Proof.
  induction n as [n IH] using lt_wf_ind. intros m.
  destruct (decide (n = 0)) as [->|]; [rewrite sumh_0; lia|].
  pose proof (sumh_half n m).
  pose proof (Nat.div_mod_eq n 2). pose proof (Nat.mod_upper_bound n 2).
  pose proof (IH (n / 2) ltac:(lia) m). lia.
Qed.

Lemma par_log pos : 0 < pos -> Nat.log2 (par pos + 1) + 1 <= Nat.log2 (pos + 1).
Proof.
  intros. unfold par.
  pose proof (Nat.div_mod_eq (pos - 1) 2). pose proof (Nat.mod_upper_bound (pos - 1) 2).
  assert (2 * ((pos - 1) / 2 + 1) <= pos + 1) as H2 by lia.
  apply Nat.log2_le_mono in H2. rewrite Nat.log2_double in H2 by lia. lia.
Qed.

Ltac lk :=
  repeat match goal with H : _ !! _ = Some _ |- _ => apply lookup_lt_Some in H end.

Section AbsCostProofs.
Context {E P : Type}.
Variable pr : E -> P.
Variable ple : P -> P -> bool.

(** ** lengths *)

Lemma aswap_length (l : list E) a b : length (aswap l a b) = length l.
Proof. unfold aswap. repeat case_match; rewrite ?insert_length; done. Qed.

Lemma aswap_remove_length (l : list E) i : length (aswap_remove l i) = length l - 1.
Proof.
  unfold aswap_remove. destruct (last l) eqn:Hl.
  - rewrite take_length, insert_length. lia.
  - apply last_None in Hl. subst. done.
Qed.

(** ** max-heap *)

Lemma apick_spec l i lg t : apick pr ple l i = (lg, t) ->
  t <= 2 /\ (t = 0 \/ 2 * i + 1 < length l) /\
  (lg = i \/ (2 * i + 1 <= lg /\ lg < length l)).
Proof.
  unfold apick, left, right. intros H.
  repeat case_match; simplify_eq; lk; lia.
Qed.

Lemma asift_down_length fuel : forall l i,
  length (asift_down pr ple fuel l i).1 = length l.
Proof.
  induction fuel as [|fuel IH]; intros l i; cbn [asift_down]; [done|].
  destruct (apick pr ple l i) as [lg t] eqn:Hp.
  destruct (decide (lg = i)); [done|].
  specialize (IH (aswap l i lg) lg).
  destruct (asift_down pr ple fuel (aswap l i lg) lg) as [l' t'].
  cbn in *. rewrite IH, aswap_length. done.
Qed.

Lemma asift_down_cost fuel : forall l i,
  (asift_down pr ple fuel l i).2 <= 2 * hh (length l) i.
Proof.
  induction fuel as [|fuel IH]; intros l i; cbn [asift_down]; [cbn; lia|].
  destruct (apick pr ple l i) as [lg t] eqn:Hp.
  apply apick_spec in Hp as (Ht & Ht0 & Hlg).
  destruct (decide (lg = i)).
  - cbn. destruct Ht0 as [->|Ht0]; [lia|].
    pose proof (hh_step (length l) i (2 * i + 1)). lia.
  - specialize (IH (aswap l i lg) lg). rewrite aswap_length in IH.
    destruct (asift_down pr ple fuel (aswap l i lg) lg) as [l' t'].
    cbn in *. pose proof (hh_step (length l) i lg). lia.
Qed.

Lemma aheapify_length l i : length (aheapify pr ple l i).1 = length l.
Proof. unfold aheapify. case_decide; [done|]. apply asift_down_length. Qed.

Lemma aheapify_cost l i : (aheapify pr ple l i).2 <= 2 * hh (length l) i.
Proof. unfold aheapify. case_decide; [cbn; lia|]. apply asift_down_cost. Qed.

Lemma aheapify_cost_log l i : (aheapify pr ple l i).2 <= 2 * Nat.log2 (length l).
Proof. pose proof (aheapify_cost l i). pose proof (hh_le_log (length l) i). lia. Qed.

Lemma asift_up_spec fuel : forall l pos,
  length (asift_up pr ple fuel l pos).1.1 = length l /\
  (asift_up pr ple fuel l pos).2 <= Nat.log2 (pos + 1).
Proof.
  induction fuel as [|fuel IH]; intros l pos; cbn [asift_up]; [cbn; lia|].
  destruct pos as [|k]; [cbn; lia|].
  destruct (l !! par (S k)) as [xp|]; [|cbn; lia].
  destruct (l !! S k) as [x|]; [|cbn; lia].
  pose proof (par_log (S k) ltac:(lia)).
  destruct (alt ple (pr xp) (pr x)); [|cbn; lia].
  specialize (IH (aswap l (S k) (par (S k))) (par (S k))).
  rewrite aswap_length in IH.
  destruct (asift_up pr ple fuel (aswap l (S k) (par (S k))) (par (S k))) as [[l' p'] t].
  cbn in *. lia.
Qed.

Lemma aup_heapify_cost l i : i < length l ->
  (aup_heapify pr ple l i).2 <= 3 * Nat.log2 (length l).
Proof.
  intros Hi. unfold aup_heapify.
  pose proof (asift_up_spec (S i) l i) as [Hlen Hc].
  destruct (asift_up pr ple (S i) l i) as [[l1 pos] t1].
  pose proof (aheapify_cost_log l1 pos) as Hh.
  destruct (aheapify pr ple l1 pos) as [l2 t2].
  cbn in *. rewrite Hlen in Hh.
  assert (Nat.log2 (i + 1) <= Nat.log2 (length l)) by (apply Nat.log2_le_mono; lia).
  lia.
Qed.

Lemma abuild_loop_spec m : forall l,
  (abuild_loop pr ple l m).2 <= 2 * sumh (length l) m.
Proof.
  induction m as [|k abuild_loop_spec]; intros l; cbn [abuild_loop sumh]; [cbn; lia|].
  pose proof (aheapify_cost l k). pose proof (aheapify_length l k) as Hlen.
  destruct (aheapify pr ple l k) as [l1 t1].
  pose proof (abuild_loop_spec l1) as IH.
  destruct (abuild_loop pr ple l1 k) as [l2 t2].
  cbn in *. rewrite Hlen in IH. lia.
Qed.

Lemma abuild_cost l : (abuild pr ple l).2 <= 2 * length l.
Proof.
  unfold abuild. case_decide; [cbn; lia|].
  pose proof (abuild_loop_spec (S (par (length l))) l).
  pose proof (sumh_le (length l) (S (par (length l)))). lia.
Qed.

Theorem pq_cost : pq_cost_stmt pr ple.
Proof.
  intros l n. subst n. repeat split.
  - intros e. unfold a_push_new.
    pose proof (asift_up_spec (S (length l)) (l ++ [e]) (length l)) as [_ Hc].
    destruct (asift_up pr ple (S (length l)) (l ++ [e]) (length l)) as [[l' p'] t].
    cbn in *. lia.
  - intros pos e' Hpos. unfold a_update.
    pose proof (aup_heapify_cost (<[pos:=e']> l) pos) as H.
    rewrite insert_length in H. specialize (H Hpos). lia.
  - intros pos Hpos. unfold a_remove. cbn zeta.
    case_decide as Hd; [|cbn; lia].
    pose proof (aup_heapify_cost _ pos Hd) as H.
    rewrite aswap_remove_length in *.
    assert (Nat.log2 (length l - 1) <= Nat.log2 (length l)) by (apply Nat.log2_le_mono; lia).
    lia.
  - unfold a_pop. destruct (length l) as [|[|m]] eqn:Hlen; [cbn; lia|cbn; lia|].
    pose proof (aheapify_cost_log (aswap_remove l 0) 0) as H.
    destruct (aheapify pr ple (aswap_remove l 0) 0) as [l' t].
    rewrite aswap_remove_length, Hlen in H. cbn in *.
    assert (Nat.log2 (S (S m) - 1) <= Nat.log2 (S (S m))) by (apply Nat.log2_le_mono; lia).
    lia.
  - intros f. unfold a_pop_if.
    destruct (l !! 0) as [e|]; [|cbn; lia].
    destruct (f e) as [e' b].
    assert (Nat.log2 (length l - 1) <= Nat.log2 (length l)) by (apply Nat.log2_le_mono; lia).
    destruct b.
    + destruct (length l) as [|[|m]] eqn:Hlen; [| cbn; lia|].
      all: pose proof (aheapify_cost_log (aswap_remove (<[0:=e']> l) 0) 0) as Hh;
        destruct (aheapify pr ple (aswap_remove (<[0:=e']> l) 0) 0) as [l3 t];
        rewrite aswap_remove_length, insert_length, Hlen in Hh; cbn in *; lia.
    + destruct (length l) as [|[|m]] eqn:Hlen; [| cbn; lia|].
      all: pose proof (aheapify_cost_log (<[0:=e']> l) 0) as Hh;
        destruct (aheapify pr ple (<[0:=e']> l) 0) as [l3 t];
        rewrite insert_length, Hlen in Hh; cbn in *; lia.
  - pose proof (abuild_cost l). lia.
Qed.

(** ** min-max heap *)

Lemma atake_present_spec (l : list E) ps :
  length (atake_present l ps) <= length ps /\
  forall x, x ∈ atake_present l ps -> x ∈ ps /\ x < length l.
Proof.
  induction ps as [|p ps [IH1 IH2]]; cbn [atake_present length].
  { split; [lia|]. intros x Hx. by apply elem_of_nil in Hx. }
  destruct (l !! p) eqn:Hp; cbn [length]; split; try lia.
  - lk. intros x [->|Hx]%elem_of_cons; [split; [left|done]|].
    destruct (IH2 x Hx). split; [right|]; done.
  - intros x Hx. by apply elem_of_nil in Hx.
Qed.

Lemma apick_min_from_spec l ps : forall cur xc,
  (apick_min_from pr ple l cur xc ps).1 ∈ cur :: ps /\
  (apick_min_from pr ple l cur xc ps).2 <= length ps.
Proof.
  induction ps as [|y ps IH]; intros cur xc; cbn [apick_min_from length].
  { cbn. split; [left|lia]. }
  destruct (l !! y) as [xy|]; [|cbn; split; [left|lia]].
  destruct (alt ple (pr xy) (pr xc)).
  - destruct (IH y xy) as [H1 H2].
    destruct (apick_min_from pr ple l y xy ps) as [r t]. cbn in *.
    split; [right; done|lia].
  - destruct (IH cur xc) as [H1 H2].
    destruct (apick_min_from pr ple l cur xc ps) as [r t]. cbn in *.
    split; [|lia]. apply elem_of_cons in H1 as [->|H1]; [left|right; right; done].
Qed.

Lemma apick_max_from_spec l ps : forall cur xc,
  (apick_max_from pr ple l cur xc ps).1 ∈ cur :: ps /\
  (apick_max_from pr ple l cur xc ps).2 <= length ps.
Proof.
  induction ps as [|y ps IH]; intros cur xc; cbn [apick_max_from length].
  { cbn. split; [left|lia]. }
  destruct (l !! y) as [xy|]; [|cbn; split; [left|lia]].
  destruct (alt ple (pr xy) (pr xc)).
  - destruct (IH cur xc) as [H1 H2].
    destruct (apick_max_from pr ple l cur xc ps) as [r t]. cbn in *.
    split; [|lia]. apply elem_of_cons in H1 as [->|H1]; [left|right; right; done].
  - destruct (IH y xy) as [H1 H2].
    destruct (apick_max_from pr ple l y xy ps) as [r t]. cbn in *.
    split; [right; done|lia].
Qed.

Lemma apick_extreme_spec mn l i c t0 :
  apick_extreme pr ple mn l i = Some (c, t0) ->
  t0 <= 5 /\ c < length l /\ (c = 2 * i + 1 \/ c = 2 * i + 2 \/ 4 * i + 3 <= c).
Proof.
  unfold apick_extreme, acands. intros H.
  match type of H with context [atake_present l ?ps] =>
    destruct (atake_present_spec l ps) as [Hlen Hsub] end.
  destruct (atake_present l _) as [|c0 cs]; [done|].
  destruct (l !! c0) as [xc|]; [|done]. cbn in H. cbn [length] in Hlen.
  assert (c ∈ c0 :: cs /\ t0 <= length cs) as [Hc Ht].
  { destruct mn; simplify_eq.
    - destruct (apick_min_from_spec l cs c0 xc) as [H1 H2].
      destruct (apick_min_from pr ple l c0 xc cs); simplify_eq. done.
    - destruct (apick_max_from_spec l cs c0 xc) as [H1 H2].
      destruct (apick_max_from pr ple l c0 xc cs); simplify_eq. done. }
  apply Hsub in Hc as [Hc Hlt]. rewrite !elem_of_cons, elem_of_nil in Hc.
  unfold left, right in Hc. lia.
Qed.

Lemma atrickle_spec fuel : forall mn l i,
  length (atrickle pr ple mn fuel l i).1 = length l /\
  (atrickle pr ple mn fuel l i).2 <= 6 * hh (length l) i /\
  (atrickle pr ple mn fuel l i).2 <= 4 * hh (length l) i + 2.
Proof.
  induction fuel as [|fuel IH]; intros mn l i; cbn [atrickle]; [cbn; lia|].
  case_decide as Hd; [|cbn; lia].
  destruct (apick_extreme pr ple mn l i) as [[c t0]|] eqn:Hpe; [|cbn; lia].
  apply apick_extreme_spec in Hpe as (Ht0 & Hlc & Hc).
  pose proof (hh_step (length l) i c ltac:(lia) Hlc) as Hs.
  destruct (l !! c) as [xc|]; [|cbn; lia].
  destruct (l !! i) as [xi|]; [|cbn; lia].
  destruct (alt_dir ple mn (pr xc) (pr xi)); [|cbn; lia].
  case_decide as Hr; [|cbn; rewrite aswap_length; lia].
  unfold right in Hr.
  destruct (aswap l c i !! c) as [yc|]; [|cbn; rewrite aswap_length; lia].
  destruct (aswap l c i !! par c) as [yp|]; [|cbn; rewrite aswap_length; lia].
  match goal with |- context [atrickle pr ple mn fuel ?l2 c] =>
    specialize (IH mn l2 c); assert (length l2 = length l) as Hl2;
    [|destruct (atrickle pr ple mn fuel l2 c) as [l3 t3]] end.
  { destruct (alt_dir _ _ _ _); rewrite ?aswap_length; done. }
  rewrite Hl2 in IH. cbn in *.
  pose proof (hh_step2 (length l) i c ltac:(lia) Hlc). lia.
Qed.

Lemma adheapify_spec l i :
  length (adheapify pr ple l i).1 = length l /\
  (adheapify pr ple l i).2 <= 6 * hh (length l) i /\
  (adheapify pr ple l i).2 <= 4 * hh (length l) i + 2.
Proof. unfold adheapify. case_decide; [cbn; lia|]. apply atrickle_spec. Qed.

Lemma adheapify_cost_log l i :
  (adheapify pr ple l i).2 <= 4 * Nat.log2 (length l) + 2.
Proof.
  pose proof (adheapify_spec l i) as (_ & _ & H).
  pose proof (hh_le_log (length l) i). lia.
Qed.

(** the grandparent chain: one comparison per two levels *)
Lemma achain_spec fuel : forall mn l pos,
  length (achain pr ple mn fuel l pos).1.1 = length l /\
  2 * (achain pr ple mn fuel l pos).2 <= Nat.log2 (pos + 1).
Proof.
  induction fuel as [|fuel IH]; intros mn l pos; cbn [achain]; [cbn; lia|].
  destruct pos as [|k]; [cbn; lia|].
  pose proof (par_log (S k) ltac:(lia)) as Hp1.
  destruct (par (S k)) as [|k'] eqn:Hpar; [cbn; lia|].
  cbn zeta.
  pose proof (par_log (S k') ltac:(lia)) as Hp2.
  destruct (l !! par (S k')) as [xg|]; [|cbn; lia].
  destruct (l !! S k) as [x|]; [|cbn; lia].
  destruct (alt_dir ple mn (pr x) (pr xg)); [|cbn; lia].
  specialize (IH mn (aswap l (S k) (par (S k'))) (par (S k'))).
  rewrite aswap_length in IH.
  destruct (achain pr ple mn fuel (aswap l (S k) (par (S k'))) (par (S k'))) as [[l' p'] t].
  cbn in *. lia.
Qed.

Lemma adbubble_up_spec l pos :
  length (adbubble_up pr ple l pos).1.1 = length l /\
  2 * (adbubble_up pr ple l pos).2 <= Nat.log2 (pos + 1) + 2.
Proof.
  unfold adbubble_up. destruct pos as [|k]; [cbn; lia|].
  destruct (l !! par (S k)) as [xp|]; [|cbn; lia].
  destruct (l !! S k) as [x|]; [|cbn; lia].
  pose proof (par_log (S k) ltac:(lia)) as Hp1.
  cbn zeta.
  destruct (amin_level (S k)), (alt ple (pr xp) (pr x)).
  all: match goal with |- context [achain pr ple ?mn ?f ?l1 ?p] =>
         pose proof (achain_spec f mn l1 p) as [H1 H2];
         destruct (achain pr ple mn f l1 p) as [[l' p'] t] end.
  all: cbn in *; rewrite ?aswap_length in H1; lia.
Qed.

Lemma adup_heapify_cost l i :
  (adup_heapify pr ple l i).2 <= 9 * Nat.log2 (length l) + 5.
Proof.
  unfold adup_heapify. destruct (l !! i) as [x|] eqn:Hi; [|cbn; lia]. lk.
  pose proof (adbubble_up_spec l i) as [Hlen Hc].
  destruct (adbubble_up pr ple l i) as [[l1 pos] t1]. cbn in Hlen, Hc.
  assert (Nat.log2 (i + 1) <= Nat.log2 (length l)) by (apply Nat.log2_le_mono; lia).
  assert (exists l2 t2, (if decide (i = pos) then (l1, 0) else adheapify pr ple l1 i) = (l2, t2)
            /\ length l2 = length l /\ t2 <= 4 * Nat.log2 (length l) + 2)
    as (l2 & t2 & -> & Hl2 & Ht2).
  { case_decide.
    - eexists _, _. split; [done|]. split; [done|lia].
    - pose proof (adheapify_spec l1 i) as [H1 _].
      pose proof (adheapify_cost_log l1 i) as H2.
      destruct (adheapify pr ple l1 i) as [l2 t2]. cbn in *.
      eexists _, _. split; [done|]. rewrite <- Hlen. done. }
  pose proof (adheapify_cost_log l2 pos) as H3.
  destruct (adheapify pr ple l2 pos) as [l3 t3]. cbn in *.
  rewrite Hl2 in H3. lia.
Qed.

Lemma adbuild_loop_spec m : forall l,
  (adbuild_loop pr ple l m).2 <= 6 * sumh (length l) m.
Proof.
  induction m as [|k IHk]; intros l; cbn [adbuild_loop sumh]; [cbn; lia|].
  pose proof (adheapify_spec l k) as (Hlen & Hc & _).
  destruct (adheapify pr ple l k) as [l1 t1].
  pose proof (IHk l1) as IH.
  destruct (adbuild_loop pr ple l1 k) as [l2 t2].
  cbn in *. rewrite Hlen in IH. lia.
Qed.

Lemma adbuild_cost l : (adbuild pr ple l).2 <= 6 * length l.
Proof.
  unfold adbuild. case_decide; [cbn; lia|].
  pose proof (adbuild_loop_spec (S (par (length l))) l).
  pose proof (sumh_le (length l) (S (par (length l)))). lia.
Qed.

Lemma afind_max_cost l : (afind_max pr ple l).2 <= 1.
Proof.
  unfold afind_max. destruct (length l) as [|[|[|m]]]; try (cbn; lia).
  repeat case_match; cbn; lia.
Qed.

Lemma log2_pred_le n : Nat.log2 (n - 1) <= Nat.log2 n.
Proof. apply Nat.log2_le_mono. lia. Qed.

Lemma a_pop_at_cost l pos :
  (a_pop_at pr ple l pos).2 <= 4 * Nat.log2 (length l) + 2.
Proof.
  unfold a_pop_at.
  pose proof (adheapify_cost_log (aswap_remove l pos) pos) as H.
  destruct (adheapify pr ple (aswap_remove l pos) pos) as [l' t].
  rewrite aswap_remove_length in H. pose proof (log2_pred_le (length l)).
  cbn in *. lia.
Qed.

Theorem dpq_cost : dpq_cost_stmt pr ple.
Proof.
  intros l n. subst n. repeat split.
  - intros e. unfold a_dpush_new.
    pose proof (adbubble_up_spec (l ++ [e]) (length l)) as [_ Hc].
    destruct (adbubble_up pr ple (l ++ [e]) (length l)) as [[l' p'] t].
    cbn in *. lia.
  - intros pos e' Hpos. unfold a_dupdate.
    pose proof (adup_heapify_cost (<[pos:=e']> l) pos) as H.
    rewrite insert_length in H. lia.
  - intros pos Hpos. unfold a_dremove. cbn zeta.
    case_decide as Hd; [|cbn; lia].
    pose proof (adup_heapify_cost (aswap_remove l pos) pos) as H.
    rewrite aswap_remove_length in H. pose proof (log2_pred_le (length l)). lia.
  - unfold a_pop_min. destruct (afind_min l); [|cbn; lia].
    pose proof (a_pop_at_cost l n). lia.
  - unfold a_pop_max. pose proof (afind_max_cost l) as Hm.
    destruct (afind_max pr ple l) as [[pos|] t]; [|cbn in *; lia].
    pose proof (a_pop_at_cost l pos) as Hp.
    destruct (a_pop_at pr ple l pos) as [[r l'] t']. cbn in *. lia.
  - intros mx f. unfold a_pop_ext_if.
    assert (exists opos t0, (if mx then afind_max pr ple l else (afind_min l, 0)) = (opos, t0)
              /\ t0 <= 1) as (opos & t0 & -> & Ht0).
    { destruct mx.
      - pose proof (afind_max_cost l). destruct (afind_max pr ple l) as [o t].
        eexists _, _. split; done.
      - eexists _, _. split; [done|lia]. }
    destruct opos as [pos|]; [|cbn; lia].
    destruct (l !! pos) as [e|]; [|cbn; lia].
    destruct (f e) as [e' b].
    pose proof (log2_pred_le (length l)).
    destruct b, mx.
    + pose proof (adup_heapify_cost (aswap_remove (<[pos:=e']> l) pos) pos) as Hh.
      destruct (adup_heapify pr ple (aswap_remove (<[pos:=e']> l) pos) pos) as [l3 t].
      rewrite aswap_remove_length, insert_length in Hh. cbn in *. lia.
    + pose proof (adheapify_cost_log (aswap_remove (<[pos:=e']> l) pos) pos) as Hh.
      destruct (adheapify pr ple (aswap_remove (<[pos:=e']> l) pos) pos) as [l3 t].
      rewrite aswap_remove_length, insert_length in Hh. cbn in *. lia.
    + pose proof (adup_heapify_cost (<[pos:=e']> l) pos) as Hh.
      destruct (adup_heapify pr ple (<[pos:=e']> l) pos) as [l3 t].
      rewrite insert_length in Hh. cbn in *. lia.
    + pose proof (adheapify_cost_log (<[pos:=e']> l) pos) as Hh.
      destruct (adheapify pr ple (<[pos:=e']> l) pos) as [l3 t].
      rewrite insert_length in Hh. cbn in *. lia.
  - apply afind_max_cost.
  - pose proof (adbuild_cost l). lia.
Qed.

End AbsCostProofs.

Print Assumptions pq_cost.
Print Assumptions dpq_cost.
