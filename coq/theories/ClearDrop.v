(** * ClearDrop: [clear] leaves an empty store whatever the [Drop]s of the
    stored items and priorities do (C16 "clear drops them all; afterwards the
    queue is empty ..." and C10, for the user code that runs inside [clear]):
    the tables and the size are reset before the first destructor runs, so a
    destructor that panics (the fuse, at any position) finds and leaves the
    queue empty and consistent.  (Defect D7 of the pinned tree was the
    opposite order.) *)
From PQV Require Export PropSpec.

Section ClearDrop.
Context {I P : Type}.
Variable keq : I -> I -> bool.
Variable hash : I -> N.
Variable ple : P -> P -> bool.
Variable peq : P -> P -> bool.
Variable alloc_limit : N.

Notation store := (store I P).
Notation machine := (@machine I P).

(** the callbacks only consume the fuse *)
Lemma cb_keeps (s : store) :
  match cb s with
  | Ok s' | Unwound s' => smap s' = smap s /\ heap s' = heap s /\ qp s' = qp s /\ ssize s' = ssize s
  | Fault _ => False
  end.
Proof. unfold cb. destruct (fuse s) as [ [|k]|]; cbn; auto. Qed.

Lemma clone_cbs_keeps n : forall s : store,
  match clone_cbs s n with
  | Ok s' | Unwound s' => smap s' = smap s /\ heap s' = heap s /\ qp s' = qp s /\ ssize s' = ssize s
  | Fault _ => False
  end.
Proof.
  induction n as [|n IH]; intros s; cbn [clone_cbs]; [auto|].
  pose proof (cb_keeps s) as H1. destruct (cb s) as [s1|u|f]; cbn; [|exact H1|exact H1].
  pose proof (cb_keeps s1) as H2. destruct (cb s1) as [s2|u|f]; cbn; [| |exact H2].
  - specialize (IH s2). destruct (clone_cbs s2 n) as [s3|u|f]; [| |exact IH];
      destruct H1 as (A1 & B1 & C1 & D1), H2 as (A2 & B2 & C2 & D2), IH as (A3 & B3 & C3 & D3);
      repeat split; congruence.
  - destruct H1 as (A1 & B1 & C1 & D1), H2 as (A2 & B2 & C2 & D2). repeat split; congruence.
Qed.

Theorem C16_clear_any_drop : C16_clear_any_drop_stmt keq hash ple peq alloc_limit.
Proof.
  intros fz m r k s Hr Hlt. cbn [step1]. rewrite Hr.
  pose proof (clone_cbs_keeps (length (smap s)) (clear s)) as H.
  assert (Hg : forall s' : store, getreg (setreg m r k s') r = Some (k, s')).
  { intros s'. unfold getreg, setreg, Machine.machine in *.
    rewrite (list_lookup_insert m r (Some (k, s')) Hlt). reflexivity. }
  destruct (clone_cbs (clear s) (length (smap s))) as [s'|s'|f]; [| |destruct H].
  - split; [by left|]. exists s'. split; [apply Hg|]. exact H.
  - split; [by right|]. exists s'. split; [apply Hg|]. exact H.
Qed.

End ClearDrop.

Print Assumptions C16_clear_any_drop.
