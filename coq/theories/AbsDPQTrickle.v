(** * AbsDPQTrickle: the picks and trickle-down of the min-max heap. *)
From PQV Require Export AbsDPQLevels.
From Coq Require Import Lia.

Section Trickle.
Context {E P : Type}.
Variable pr : E -> P.
Variable ple : P -> P -> bool.
Hypothesis Hord : ord_ok ple.

Notation led := (led ple).
Notation ord_at := (ord_at pr ple).
Notation pair_ok := (pair_ok pr ple).
Notation gord_ex := (gord_ex pr ple).
Notation led_trans := (led_trans ple Hord).
Notation led_total := (led_total ple Hord).

(** ** candidates *)
Fixpoint incr (ps : list nat) : Prop :=
  match ps with [] => True | p :: ps' => Forall (lt p) ps' /\ incr ps' end.

Lemma atake_present_sub (l : list E) ps p :
  p ∈ atake_present l ps -> p ∈ ps /\ is_Some (l !! p).
Proof.
  induction ps as [|q ps IH]; cbn [atake_present]; [by intros ?%elem_of_nil|].
  destruct (l !! q) eqn:Hq; [|by intros ?%elem_of_nil].
  intros [-> | H]%elem_of_cons.
  - split; [left|by eexists].
  - destruct (IH H). split; [by right|done].
Qed.
Lemma atake_present_in (l : list E) ps p :
  incr ps -> p ∈ ps -> is_Some (l !! p) -> p ∈ atake_present l ps.
Proof.
  induction ps as [|q ps IH]; cbn [atake_present incr]; [done|].
  intros [Hq Hinc] Hp Hs.
  destruct (l !! q) eqn:Hlq.
  - apply elem_of_cons in Hp as [-> | Hp]; [left|right; auto].
  - apply elem_of_cons in Hp as [-> | Hp].
    + rewrite Hlq in Hs. by destruct Hs.
    + rewrite Forall_forall in Hq. specialize (Hq p Hp).
      apply lookup_ge_None in Hlq. apply lookup_lt_is_Some in Hs. lia.
Qed.
Lemma acands_spec (l : list E) i c :
  c ∈ acands l i <-> is_child_or_grandchild i c /\ is_Some (l !! c).
Proof.
  unfold acands. rewrite cg_six. split.
  - apply atake_present_sub.
  - intros [H1 H2]. apply atake_present_in; auto.
    cbn [incr]. repeat split; repeat constructor; unfold left, right; lia.
Qed.

(** ** picks *)
Lemma apick_min_from_spec (l : list E) ps : forall cur xc,
  l !! cur = Some xc -> Forall (fun y => is_Some (l !! y)) ps ->
  exists xr, l !! (apick_min_from pr ple l cur xc ps).1 = Some xr /\
    ((apick_min_from pr ple l cur xc ps).1 = cur \/ (apick_min_from pr ple l cur xc ps).1 ∈ ps) /\
    led true (pr xr) (pr xc) = true /\
    forall y xy, y ∈ ps -> l !! y = Some xy -> led true (pr xr) (pr xy) = true.
Proof.
  induction ps as [|y ps IH]; intros cur xc Hcur Hall; cbn [apick_min_from].
  { exists xc. cbn [fst]. split; [done|]. split; [by left|]. split; [apply (led_refl ple Hord)|].
    by intros ?? ?%elem_of_nil. }
  apply Forall_cons in Hall as [ [xy Hy] Hall]. rewrite Hy.
  destruct (alt ple (pr xy) (pr xc)) eqn:Halt.
  - destruct (IH y xy Hy Hall) as (xr & Hr & Hin & Hle & Hmin).
    destruct (apick_min_from pr ple l y xy ps) as [r t]. cbn [fst] in *.
    assert (led true (pr xy) (pr xc) = true) as Hyc by (by apply (alt_dir_true ple Hord true)).
    exists xr. split; [done|]. split; [right; destruct Hin as [-> | ?]; [left|by right]|].
    split; [by eapply led_trans|].
    intros z xz [-> | Hz]%elem_of_cons Hxz; [by simplify_eq|eauto].
  - destruct (IH cur xc Hcur Hall) as (xr & Hr & Hin & Hle & Hmin).
    destruct (apick_min_from pr ple l cur xc ps) as [r t]. cbn [fst] in *.
    assert (led true (pr xc) (pr xy) = true) as Hyc by (by apply (alt_dir_false ple true)).
    exists xr. split; [done|]. split; [destruct Hin as [-> | ?]; [by left|by right; right]|].
    split; [done|].
    intros z xz [-> | Hz]%elem_of_cons Hxz; [simplify_eq; by eapply led_trans|eauto].
Qed.
Lemma apick_max_from_spec (l : list E) ps : forall cur xc,
  l !! cur = Some xc -> Forall (fun y => is_Some (l !! y)) ps ->
  exists xr, l !! (apick_max_from pr ple l cur xc ps).1 = Some xr /\
    ((apick_max_from pr ple l cur xc ps).1 = cur \/ (apick_max_from pr ple l cur xc ps).1 ∈ ps) /\
    led false (pr xr) (pr xc) = true /\
    forall y xy, y ∈ ps -> l !! y = Some xy -> led false (pr xr) (pr xy) = true.
Proof.
  induction ps as [|y ps IH]; intros cur xc Hcur Hall; cbn [apick_max_from].
  { exists xc. cbn [fst]. split; [done|]. split; [by left|]. split; [apply (led_refl ple Hord)|].
    by intros ?? ?%elem_of_nil. }
  apply Forall_cons in Hall as [ [xy Hy] Hall]. rewrite Hy.
  destruct (alt ple (pr xy) (pr xc)) eqn:Halt.
  - destruct (IH cur xc Hcur Hall) as (xr & Hr & Hin & Hle & Hmin).
    destruct (apick_max_from pr ple l cur xc ps) as [r t]. cbn [fst] in *.
    assert (led false (pr xc) (pr xy) = true) as Hyc by (by apply (alt_dir_true ple Hord true)).
    exists xr. split; [done|]. split; [destruct Hin as [-> | ?]; [by left|by right; right]|].
    split; [done|].
    intros z xz [-> | Hz]%elem_of_cons Hxz; [simplify_eq; by eapply led_trans|eauto].
  - destruct (IH y xy Hy Hall) as (xr & Hr & Hin & Hle & Hmin).
    destruct (apick_max_from pr ple l y xy ps) as [r t]. cbn [fst] in *.
    assert (led false (pr xy) (pr xc) = true) as Hyc by (by apply (alt_dir_false ple true)).
    exists xr. split; [done|]. split; [right; destruct Hin as [-> | ?]; [left|by right]|].
    split; [by eapply led_trans|].
    intros z xz [-> | Hz]%elem_of_cons Hxz; [by simplify_eq|eauto].
Qed.

Lemma apick_extreme_none mn (l : list E) i :
  apick_extreme pr ple mn l i = None -> l !! left i = None.
Proof.
  unfold apick_extreme. destruct (acands l i) as [|c cs] eqn:Hc.
  - intros _. destruct (l !! left i) eqn:Hl; [|done].
    assert (left i ∈ acands l i) as Hin.
    { apply acands_spec. split; [apply cg_child_l|by eexists]. }
    rewrite Hc in Hin. by apply elem_of_nil in Hin.
  - assert (c ∈ acands l i) as [_ [xc Hxc] ]%acands_spec by (rewrite Hc; left).
    rewrite Hxc. done.
Qed.
Lemma apick_extreme_some mn (l : list E) i c t :
  apick_extreme pr ple mn l i = Some (c, t) ->
  exists xc, l !! c = Some xc /\ is_child_or_grandchild i c /\
    forall c' xc', is_child_or_grandchild i c' -> l !! c' = Some xc' ->
      led mn (pr xc) (pr xc') = true.
Proof.
  unfold apick_extreme. destruct (acands l i) as [|c0 cs] eqn:Hc; [done|].
  assert (forall z, z ∈ c0 :: cs <-> is_child_or_grandchild i z /\ is_Some (l !! z)) as Hspec.
  { intros z. rewrite <- Hc. apply acands_spec. }
  destruct (proj1 (Hspec c0)) as [Hcg0 [x0 Hx0] ]; [left|].
  rewrite Hx0. cbn.
  assert (Forall (fun y => is_Some (l !! y)) cs) as Hall.
  { apply Forall_forall. intros z Hz. apply Hspec. by right. }
  intros Heq.
  assert (exists xr, l !! c = Some xr /\ (c = c0 \/ c ∈ cs) /\
     led mn (pr xr) (pr x0) = true /\
     forall y xy, y ∈ cs -> l !! y = Some xy -> led mn (pr xr) (pr xy) = true)
    as (xr & Hr & Hin & Hle & Hmin).
  { destruct mn.
    - destruct (apick_min_from_spec l cs c0 x0 Hx0 Hall) as (xr & ?).
      destruct (apick_min_from pr ple l c0 x0 cs); simplify_eq/=. by exists xr.
    - destruct (apick_max_from_spec l cs c0 x0 Hx0 Hall) as (xr & ?).
      destruct (apick_max_from pr ple l c0 x0 cs); simplify_eq/=. by exists xr. }
  exists xr. split; [done|]. split.
  { apply Hspec. destruct Hin as [-> | ?]; [left|by right]. }
  intros c' xc' Hcg' Hxc'.
  assert (c' ∈ c0 :: cs) as [-> | Hin']%elem_of_cons by (apply Hspec; split; [done|by eexists]).
  - by simplify_eq.
  - eauto.
Qed.

(** ** one trickle step *)
Lemma ord_at_oob (l : list E) k : length l <= k -> ord_at l k.
Proof. intros Hk c _ xi xc Hi. apply lookup_lt_Some in Hi. lia. Qed.
Lemma ord_at_no_child (l : list E) i : l !! left i = None -> ord_at l i.
Proof.
  intros Hn c [Hs Hne]%cg_sub xi xc _ Hc.
  apply lookup_ge_None in Hn. apply lookup_lt_Some in Hc.
  pose proof (sub_proper_lower _ _ Hs). unfold left in *. lia.
Qed.
Lemma no_child_cond (l : list E) i : ~ i <= par (length l - 1) -> l !! left i = None.
Proof.
  intros Hn. apply lookup_ge_None. unfold left.
  assert (par (length l - 1) < i) as Hlt by lia. clear Hn. par_tac. lia.
Qed.

Section Step.
Variable mn : bool.
Variables (l : list E) (i c : nat) (xi xc : E).
Hypothesis Hkind : amin_level i = mn.
Hypothesis Hpre : forall k, sub i k -> k <> i -> ord_at l k.
Hypothesis Hxi : l !! i = Some xi.
Hypothesis Hxc : l !! c = Some xc.
Hypothesis Hcg : is_child_or_grandchild i c.
Hypothesis Hext : forall c' xc', is_child_or_grandchild i c' -> l !! c' = Some xc' ->
  led mn (pr xc) (pr xc') = true.

Lemma step_stop : led mn (pr xi) (pr xc) = true -> ord_at l i.
Proof.
  intros Hle c' Hcg' yi yc Hyi Hyc. rewrite Hkind. rewrite Hxi in Hyi. injection Hyi as <-.
  eapply led_trans; eauto.
Qed.

Hypothesis Hlt : led mn (pr xc) (pr xi) = true.

Lemma step_child : par c = i -> forall k, sub i k -> ord_at (aswap l c i) k.
Proof.
  intros Hpar k Hk.
  destruct Hcg as [Hc0 _].
  assert (i < c) as Hic by (pose proof (par_lt c Hc0); lia).
  assert (amin_level c = negb mn) as Hkc by (rewrite (amin_par c), Hpar, Hkind; done).
  pose proof (aswap_lookup l c i xc xi) as Hlk. specialize (fun k => Hlk k Hxc Hxi).
  destruct (decide (k = i)) as [-> | Hki]; [|destruct (decide (k = c)) as [-> | Hkc'] ].
  - intros c' Hcg' yi yc. rewrite !Hlk. rewrite decide_True by done. rewrite Hkind.
    destruct (cg_sub _ _ Hcg') as [_ Hne']. rewrite (decide_False (P := c' = i)) by done.
    destruct (decide (c' = c)); intros; simplify_eq; eauto.
  - intros c' Hcg' yi yc. rewrite !Hlk.
    destruct (cg_sub _ _ Hcg') as [Hs' Hne']. apply sub_le in Hs'.
    rewrite (decide_False (P := c = i)) by lia. rewrite decide_True by done.
    rewrite (decide_False (P := c' = i)) by lia. rewrite (decide_False (P := c' = c)) by done.
    intros ? Hyc; simplify_eq. rewrite Hkc, led_negb.
    eapply led_trans; [|exact Hlt].
    rewrite <- led_negb, <- Hkc. eapply (Hpre c); eauto; lia.
  - intros c' Hcg' yi yc. rewrite !Hlk.
    destruct (cg_sub _ _ Hcg') as [Hs' Hne']. pose proof (sub_le _ _ Hk). pose proof (sub_le _ _ Hs').
    rewrite (decide_False (P := k = i)) by lia. rewrite (decide_False (P := k = c)) by done.
    rewrite (decide_False (P := c' = i)) by lia.
    rewrite (decide_False (P := c' = c)).
    + by apply (Hpre k).
    + intros ->. destruct (sub_proper_par _ _ Hs') as [_ Hs'']; [done|].
      rewrite Hpar in Hs''. apply sub_le in Hs''. lia.
Qed.

(** the grandchild case: [l2] is [l] with [xc] at [i], and [vp], [vc] at
    [p = par c] and [c] *)
Variables (p : nat) (xp vp vc : E) (l2 l3 : list E).
Hypothesis Hp : p = par c.
Hypothesis Hp0 : 0 < p.
Hypothesis Hpi : par p = i.
Hypothesis Hxp : l !! p = Some xp.
Hypothesis Hl2 : forall k, l2 !! k =
  if decide (k = i) then Some xc else if decide (k = p) then Some vp
  else if decide (k = c) then Some vc else l !! k.
Hypothesis Hvcp : led mn (pr vc) (pr vp) = true.
Hypothesis Hxvp : led mn (pr xp) (pr vp) = true.
Hypothesis Hcvc : led mn (pr xc) (pr vc) = true.
Hypothesis Hcvp : led mn (pr xc) (pr vp) = true.

Lemma grand_geom : i < p /\ p < c /\ amin_level p = negb mn /\ amin_level c = mn.
Proof.
  destruct Hcg as [Hc0 _]. pose proof (par_lt c Hc0). pose proof (par_lt p Hp0).
  split; [lia|]. split; [lia|]. split.
  - rewrite (amin_par p), Hpi, Hkind; done.
  - rewrite (amin_par c), <- Hp, (amin_par p), Hpi, Hkind, ?negb_involutive; done.
Qed.

Lemma grand_pre : forall k, sub c k -> k <> c -> ord_at l2 k.
Proof.
  destruct grand_geom as (Hip & Hpc & _ & _).
  intros k Hk Hne c' Hcg' yi yc. rewrite !Hl2.
  destruct (cg_sub _ _ Hcg') as [Hs' Hne']. pose proof (sub_le _ _ Hk). pose proof (sub_le _ _ Hs').
  rewrite !decide_False by lia.
  apply (Hpre k); auto; [|lia].
  eapply sub_trans; [|exact Hk]. by apply cg_sub.
Qed.

Hypothesis Hfr : frame c l2 l3.
Hypothesis Hpost : forall k, sub c k -> ord_at l3 k.

Lemma sub_c_vals k x : sub c k -> l3 !! k = Some x ->
  x = vc \/ exists k', sub c k' /\ k' <> c /\ l !! k' = Some x.
Proof.
  destruct grand_geom as (Hip & Hpc & _ & _).
  intros Hk Hx. destruct Hfr as (_ & _ & Hin).
  destruct (Hin k x Hk Hx) as (k' & Hk' & Hx'). rewrite Hl2 in Hx'.
  pose proof (sub_le _ _ Hk').
  rewrite !(decide_False (P := k' = i)), !(decide_False (P := k' = p)) in Hx' by lia.
  destruct (decide (k' = c)); [left; congruence|right; eauto].
Qed.
Lemma not_sub_c_vals k : ~ sub c k -> l3 !! k = l2 !! k.
Proof. destruct Hfr as (_ & Ho & _). apply Ho. Qed.

Lemma grand_post : forall k, sub i k -> ord_at l3 k.
Proof.
  destruct grand_geom as (Hip & Hpc & Hkp & Hkc).
  assert (sub i p) as Hsip by (rewrite <- Hpi; by apply sub_par).
  assert (sub p c) as Hspc by (rewrite Hp; apply sub_par; lia).
  assert (sub i c) as Hsic by (by eapply sub_trans).
  assert (~ sub c i) as Hnci by (intros ?%sub_le; lia).
  assert (~ sub c p) as Hncp by (intros ?%sub_le; lia).
  assert (forall k, sub c k -> ord_at l k) as Hlc.
  { intros k Hk. apply Hpre; [exact (sub_trans _ _ _ Hsic Hk)|]. apply sub_le in Hk. lia. }
  assert (forall k, sub p k -> ord_at l k) as Hlp.
  { intros k Hk. apply Hpre; [exact (sub_trans _ _ _ Hsip Hk)|]. apply sub_le in Hk. lia. }
  intros k Hk.
  destruct (decide (sub c k)) as [Hck | Hck]; [by apply Hpost|].
  destruct (decide (k = i)) as [-> | Hki]; [|destruct (decide (k = p)) as [-> | Hkp'] ].
  - (* the node i *)
    intros c' Hcg' yi yc. rewrite (not_sub_c_vals i), Hl2, decide_True, Hkind by done.
    intros [= <-] Hyc.
    destruct (cg_sub _ _ Hcg') as [Hs' Hne'].
    destruct (decide (sub c c')) as [Hcc | Hcc].
    + destruct (sub_c_vals _ _ Hcc Hyc) as [-> | (k' & Hk' & Hne & Hx')]; [done|].
      rewrite <- Hkc. apply (ord_at_dom pr ple Hord l c Hlc k'); auto.
    + rewrite (not_sub_c_vals c'), Hl2 in Hyc by done.
      rewrite (decide_False (P := c' = i)) in Hyc by done.
      destruct (decide (c' = p)); [by simplify_eq|].
      destruct (decide (c' = c)); [by simplify_eq|]. eauto.
  - (* the node p *)
    intros c' Hcg' yi yc. rewrite (not_sub_c_vals p), Hl2 by done.
    rewrite (decide_False (P := p = i)), decide_True, Hkp, led_negb by (done || lia).
    intros [= <-] Hyc.
    destruct (cg_sub _ _ Hcg') as [Hs' Hne']. pose proof (sub_le _ _ Hs').
    destruct (decide (sub c c')) as [Hcc | Hcc].
    + destruct (sub_c_vals _ _ Hcc Hyc) as [-> | (k' & Hk' & Hne & Hx')]; [done|].
      eapply led_trans; [|exact Hxvp].
      rewrite <- led_negb, <- Hkp. apply (ord_at_dom pr ple Hord l p Hlp k'); auto.
      * exact (sub_trans _ _ _ Hspc Hk').
      * apply sub_le in Hk'. lia.
    + rewrite (not_sub_c_vals c'), Hl2 in Hyc by done.
      rewrite !(decide_False (P := c' = i)), !(decide_False (P := c' = p)) in Hyc by lia.
      rewrite decide_False in Hyc by (intros ->; apply Hcc, sub_refl).
      eapply led_trans; [|exact Hxvp].
      rewrite <- led_negb, <- Hkp. eapply (Hlp p); eauto. apply sub_refl.
  - (* other nodes: untouched *)
    assert (k <> c) as Hkc' by (intros ->; apply Hck, sub_refl).
    pose proof (sub_le _ _ Hk).
    assert (forall z, sub k z -> k <> z -> z <> i /\ z <> p /\ ~ sub c z) as Hgeo.
    { intros z Hz Hnz. pose proof (sub_le _ _ Hz). split; [lia|].
      assert (~ sub k p) as Hnkp.
      { intros Hkp2. destruct (sub_proper_par _ _ Hkp2) as [_ Hx]; [done|].
        rewrite Hpi in Hx. apply sub_le in Hx. lia. }
      split; [by intros ->|].
      intros Hcz. destruct (sub_comparable _ _ _ Hz Hcz) as [Hx | Hx]; [|done].
      destruct (sub_proper_par _ _ Hx) as [_ Hx']; [done|]. by rewrite <- Hp in Hx'. }
    intros c' Hcg' yi yc.
    destruct (cg_sub _ _ Hcg') as [Hs' Hne'].
    destruct (Hgeo c' Hs' Hne') as (H1 & H2 & H3).
    rewrite (not_sub_c_vals k), (not_sub_c_vals c'), !Hl2 by done.
    rewrite !(decide_False (P := k = i)), !(decide_False (P := k = p)),
      !(decide_False (P := k = c)), !(decide_False (P := c' = i)), !(decide_False (P := c' = p)) by done.
    rewrite decide_False by (intros ->; apply H3, sub_refl).
    by apply (Hpre k).
Qed.
End Step.

(** ** the trickle-down loop *)
Lemma trickle_stop (l : list E) i :
  (forall k, sub i k -> k <> i -> ord_at l k) -> ord_at l i ->
  frame i l l /\ l ≡ₚ l /\ forall k, sub i k -> ord_at l k.
Proof.
  intros Hpre Hi. split; [apply frame_refl|]. split; [done|].
  intros k Hk. destruct (decide (k = i)) as [-> | ]; auto.
Qed.

Lemma trickle_ok mn fuel : forall (l : list E) i,
  length l < fuel + i -> amin_level i = mn ->
  (forall k, sub i k -> k <> i -> ord_at l k) ->
  frame i l (atrickle pr ple mn fuel l i).1 /\
  (atrickle pr ple mn fuel l i).1 ≡ₚ l /\
  forall k, sub i k -> ord_at (atrickle pr ple mn fuel l i).1 k.
Proof.
  induction fuel as [|fuel IH]; intros l i Hfuel Hkind Hpre.
  { cbn [atrickle fst]. apply trickle_stop; [done|]. apply ord_at_oob. lia. }
  cbn [atrickle].
  destruct (decide (i <= par (length l - 1))) as [Hle | Hnle]; cbn [fst].
  2:{ apply trickle_stop; [done|]. by apply ord_at_no_child, no_child_cond. }
  destruct (apick_extreme pr ple mn l i) as [ [c t0]|] eqn:Hpick; cbn [fst].
  2:{ apply trickle_stop; [done|]. eapply ord_at_no_child, apick_extreme_none; eauto. }
  destruct (apick_extreme_some _ _ _ _ _ Hpick) as (xc & Hxc & Hcg & Hext).
  rewrite Hxc. destruct (l !! i) as [xi|] eqn:Hxi; cbn [fst].
  2:{ apply trickle_stop; [done|]. intros c' _ yi yc Hyi. congruence. }
  destruct (alt_dir ple mn (pr xc) (pr xi)) eqn:Halt; cbn [fst].
  2:{ apply trickle_stop; [done|]. eapply step_stop; eauto. by apply alt_dir_false. }
  apply (alt_dir_true ple Hord) in Halt.
  destruct (cg_sub _ _ Hcg) as [Hsic Hnic].
  assert (frame i l (aswap l c i)) as Hfr1 by (apply frame_aswap; [done|apply sub_refl]).
  destruct (decide (right i < c)) as [Hgc | Hch].
  2:{ (* a child *)
    cbn [fst]. split; [done|]. split; [apply aswap_perm|].
    eapply step_child; eauto.
    destruct Hcg as [Hc0 [? | [Hp0 Hpp] ] ]; [done|].
    exfalso. destruct (par_eq_inv _ _ Hp0 Hpp) as [Hx | Hx];
      destruct (par_eq_inv c _ Hc0 eq_refl) as [Hy | Hy]; rewrite Hx in Hy;
      unfold left, right in *; lia. }
  (* a grandchild *)
  assert (0 < par c /\ par (par c) = i) as [Hp0 Hpi].
  { destruct Hcg as [Hc0 [Hp | ?] ]; [|done]. exfalso.
    destruct (par_eq_inv _ _ Hc0 Hp); unfold left, right in *; lia. }
  destruct (grand_geom mn i c Hkind Hcg (par c) eq_refl Hp0 Hpi) as (Hip & Hpc & Hkp & Hkc).
  pose proof (lookup_lt_Some _ _ _ Hxc) as Hclen.
  destruct (lookup_lt_is_Some_2 l (par c)) as [xp Hxp]; [lia|].
  pose proof (aswap_lookup l c i xc xi) as Hlk1. specialize (fun k => Hlk1 k Hxc Hxi).
  rewrite (Hlk1 c), (Hlk1 (par c)).
  rewrite (decide_False (P := c = i)), (decide_True (P := c = c)) by (done || lia).
  rewrite (decide_False (P := par c = i)), (decide_False (P := par c = c)), Hxp by lia.
  set (l1 := aswap l c i) in *.
  assert (l1 !! c = Some xi) as H1c.
  { rewrite Hlk1, decide_False, decide_True by (done || lia). done. }
  assert (l1 !! par c = Some xp) as H1p.
  { rewrite Hlk1, !decide_False by lia. done. }
  assert (sub i (par c)) as Hsip by (rewrite <- Hpi; by apply sub_par).
  set (l2 := if alt_dir ple mn (pr xp) (pr xi) then aswap l1 c (par c) else l1).
  assert (frame i l1 l2) as Hfr2.
  { unfold l2. destruct (alt_dir ple mn (pr xp) (pr xi)); [|apply frame_refl].
    by apply frame_aswap. }
  assert (l2 ≡ₚ l) as Hperm2.
  { unfold l2. destruct (alt_dir ple mn (pr xp) (pr xi)); rewrite ?aswap_perm; apply aswap_perm. }
  assert (exists vp vc, (forall k, l2 !! k =
      if decide (k = i) then Some xc else if decide (k = par c) then Some vp
      else if decide (k = c) then Some vc else l !! k) /\
      led mn (pr vc) (pr vp) = true /\ led mn (pr xp) (pr vp) = true /\
      led mn (pr xc) (pr vc) = true /\ led mn (pr xc) (pr vp) = true)
    as (vp & vc & Hl2 & Hvcp & Hxvp & Hcvc & Hcvp).
  { assert (led mn (pr xc) (pr xp) = true) as Hcp.
    { apply (Hext (par c)); [|done]. by apply cg_child. }
    unfold l2. destruct (alt_dir ple mn (pr xp) (pr xi)) eqn:Halt2.
    - apply (alt_dir_true ple Hord) in Halt2.
      exists xi, xp. split; [|split_and!; auto using (led_refl ple Hord)].
      intros k. rewrite (aswap_lookup l1 c (par c) xi xp k H1c H1p), Hlk1.
      destruct (decide (k = i)) as [-> | ].
      + rewrite !decide_False by lia. done.
      + destruct (decide (k = par c)); [done|]. destruct (decide (k = c)); done.
    - apply alt_dir_false in Halt2.
      exists xp, xi. split; [|split_and!; auto using (led_refl ple Hord)].
      intros k. rewrite Hlk1.
      destruct (decide (k = i)) as [-> | ]; [done|].
      destruct (decide (k = par c)) as [-> | ].
      + rewrite decide_False by lia. done.
      + destruct (decide (k = c)); done. }
  assert (length l2 = length l) as Hlen2.
  { destruct Hfr1 as [? _], Hfr2 as [? _]. congruence. }
  assert (forall k, sub c k -> k <> c -> ord_at l2 k) as Hpre2.
  { eapply (grand_pre mn l i c xc Hkind Hpre Hcg (par c) vp vc l2); eauto. }
  destruct (IH l2 c) as (Hfr3 & Hperm3 & Hpost3); [lia|done|done|].
  destruct (atrickle pr ple mn fuel l2 c) as [l3 t3]. cbn [fst] in *.
  split; [|split].
  - eapply (frame_trans i c); [done| |exact Hfr3].
    eapply (frame_trans i i); [apply sub_refl|exact Hfr1|exact Hfr2].
  - by rewrite Hperm3.
  - eapply (grand_post mn l i c xi xc Hkind Hpre Hxi Hxc Hcg Hext Halt
      (par c) xp vp vc l2 l3); eauto.
Qed.

Lemma adheapify_ok (l : list E) i :
  (forall k, sub i k -> k <> i -> ord_at l k) ->
  frame i l (adheapify pr ple l i).1 /\
  (adheapify pr ple l i).1 ≡ₚ l /\
  forall k, sub i k -> ord_at (adheapify pr ple l i).1 k.
Proof.
  intros Hpre. unfold adheapify. destruct (decide (length l <= 1)) as [Hl | Hl]; cbn [fst].
  - apply trickle_stop; [done|].
    intros c [Hs Hne]%cg_sub xi xc Hxi Hxc.
    apply lookup_lt_Some in Hxi, Hxc. apply sub_le in Hs. lia.
  - apply trickle_ok; auto. lia.
Qed.

(** heapify at [i] repairs all pairs whose ancestor is [i] *)
Lemma heapify_fix (B : nat -> Prop) (l : list E) i :
  gord_ex (fun a => B a \/ a = i) l -> (forall b, B b -> ~ sub i b) ->
  gord_ex B (adheapify pr ple l i).1 /\ (adheapify pr ple l i).1 ≡ₚ l /\
  length (adheapify pr ple l i).1 = length l.
Proof.
  intros Hg HB.
  assert (forall k, sub i k -> k <> i -> ord_at l k) as Hpre.
  { intros k Hk Hne. eapply gord_ex_ord_at; [exact Hg|]. intros [Hb | ?]; [|done]. by apply (HB k). }
  destruct (adheapify_ok l i Hpre) as (Hfr & Hperm & Hpost).
  set (l' := (adheapify pr ple l i).1) in *.
  split; [|split; [done|by destruct Hfr] ].
  destruct Hfr as (Hlen & Hout & Hin).
  intros a d Hs Hne HBa xa xd Hxa Hxd.
  destruct (decide (sub i a)) as [Hia | Hia].
  - assert (forall k, sub a k -> ord_at l' k) as Hloc.
    { intros k Hk. apply Hpost. exact (sub_trans _ _ _ Hia Hk). }
    exact (ord_at_dom pr ple Hord l' a Hloc d Hs Hne xa xd Hxa Hxd).
  - rewrite Hout in Hxa by done.
    assert (a <> i) as Hai by (intros ->; apply Hia, sub_refl).
    destruct (decide (sub i d)) as [Hid | Hid].
    + destruct (Hin d xd Hid Hxd) as (k' & Hk' & Hxk').
      destruct (sub_comparable _ _ _ Hs Hid) as [Hx | Hx]; [|done].
      apply (Hg a k'); auto.
      * exact (sub_trans _ _ _ Hx Hk').
      * apply sub_le in Hx, Hk'. lia.
      * intros [? | ?]; done.
    + rewrite Hout in Hxd by done. apply (Hg a d); auto. intros [? | ?]; done.
Qed.
End Trickle.

(** ** consequences: root, build, pop_at *)
Section Ops.
Context {E P : Type}.
Variable pr : E -> P.
Variable ple : P -> P -> bool.
Hypothesis Hord : ord_ok ple.

Notation led := (led ple).
Notation pair_ok := (pair_ok pr ple).
Notation gord_ex := (gord_ex pr ple).
Notation gord := (gord_ex (fun _ => False)).
Notation led_trans := (led_trans ple Hord).

(** all pairs not touching position [i] are ordered *)
Definition gord_but (i : nat) (l : list E) : Prop :=
  forall a d, sub a d -> a <> d -> a <> i -> d <> i -> pair_ok l a d.

Lemma gord_pair (l : list E) a d xa xd :
  gord l -> sub a d -> l !! a = Some xa -> l !! d = Some xd ->
  led (amin_level a) (pr xa) (pr xd) = true.
Proof.
  intros Hg Hs Ha Hd. destruct (decide (a = d)) as [-> | Hne].
  - simplify_eq. apply (led_refl ple Hord).
  - exact (Hg a d Hs Hne (fun x => x) xa xd Ha Hd).
Qed.

Lemma root_min (l : list E) x y :
  gord l -> l !! 0 = Some x -> y ∈ l -> ple (pr x) (pr y) = true.
Proof.
  intros Hg Hx [k Hk]%elem_of_list_lookup.
  apply (gord_pair l 0 k x y Hg (sub_0 k) Hx Hk).
Qed.

Lemma gord_but_insert (l : list E) i e : gord l -> gord_but i (<[i:=e]> l).
Proof.
  intros Hg a d Hs Hne Ha Hd xa xd. rewrite !list_lookup_insert_ne by done. intros. by eapply gord_pair.
Qed.
Lemma gord_but_swap_remove (l : list E) i : gord l -> gord_but i (aswap_remove l i).
Proof.
  intros Hg a d Hs Hne Ha Hd xa xd Hxa Hxd.
  pose proof (lookup_lt_Some _ _ _ Hxa) as Hla. pose proof (lookup_lt_Some _ _ _ Hxd) as Hld.
  rewrite aswap_remove_length in Hla, Hld.
  destruct (last l) as [y|] eqn:Hlast.
  2:{ unfold aswap_remove in Hxa, Hxd. rewrite Hlast in Hxa, Hxd. by eapply gord_pair. }
  rewrite (aswap_remove_lookup l i y) in Hxa, Hxd by done.
  rewrite decide_False in Hxa by done. rewrite decide_False in Hxd by done. by eapply gord_pair.
Qed.
Lemma gord_but_ex (l : list E) i :
  gord_but i l -> (forall a, sub a i -> a <> i -> pair_ok l a i) -> gord_ex (fun a => a = i) l.
Proof.
  intros Hb Hi a d Hs Hne Ha. destruct (decide (d = i)) as [-> | Hd]; [by apply Hi|by apply Hb].
Qed.
Lemma gord_ex_or (l : list E) i : gord_ex (fun a => a = i) l -> gord_ex (fun a => False \/ a = i) l.
Proof. apply gord_ex_weaken. intros a ?. by right. Qed.

Lemma heapify_fix1 (l : list E) i :
  gord_ex (fun a => a = i) l ->
  gord (adheapify pr ple l i).1 /\ (adheapify pr ple l i).1 ≡ₚ l /\
  length (adheapify pr ple l i).1 = length l.
Proof. intros H. apply heapify_fix; [done|by apply gord_ex_or|done]. Qed.

(** Floyd's construction *)
Lemma adbuild_loop_ok n : forall l : list E,
  gord_ex (fun a => a < n) l ->
  gord (adbuild_loop pr ple l n).1 /\ (adbuild_loop pr ple l n).1 ≡ₚ l.
Proof.
  induction n as [|k IH]; intros l Hg; cbn [adbuild_loop].
  { cbn [fst]. split; [|done]. eapply gord_ex_weaken; [|exact Hg]. cbn. lia. }
  destruct (heapify_fix pr ple Hord (fun a => a < k) l k) as (Hg1 & Hp1 & _).
  { eapply gord_ex_weaken; [|exact Hg]. cbn. lia. }
  { intros b Hb Hs%sub_le. lia. }
  destruct (adheapify pr ple l k) as [l1 t1]. cbn [fst] in *.
  destruct (IH l1 Hg1) as (Hg2 & Hp2).
  destruct (adbuild_loop pr ple l1 k) as [l2 t2]. cbn [fst] in *.
  split; [done|]. by rewrite Hp2.
Qed.
Lemma gord_ex_leaves (l : list E) : gord_ex (fun a => a < S (par (length l))) l.
Proof.
  intros a d Hs Hne Ha xa xd _ Hd. exfalso.
  apply lookup_lt_Some in Hd. pose proof (sub_proper_lower _ _ Hs).
  assert (S (par (length l)) <= a) as Hle by lia. clear Ha. par_tac. lia.
Qed.
Lemma adbuild_ok_aux (l : list E) : gord (adbuild pr ple l).1 /\ (adbuild pr ple l).1 ≡ₚ l.
Proof.
  unfold adbuild. destruct (decide (length l = 0)) as [Hl | Hl]; cbn [fst].
  - split; [|done]. apply nil_length_inv in Hl as ->. intros a d _ _ _ xa xd Hx. done.
  - apply adbuild_loop_ok, gord_ex_leaves.
Qed.

(** removing the entry at a position at most 2 (the min or the max) *)
Lemma pop_at_ok (l : list E) pos x :
  gord l -> l !! pos = Some x -> pos <= 2 ->
  gord (adheapify pr ple (aswap_remove l pos) pos).1 /\
  l ≡ₚ x :: (adheapify pr ple (aswap_remove l pos) pos).1.
Proof.
  intros Hg Hx Hpos.
  destruct (heapify_fix1 (aswap_remove l pos) pos) as (Hg1 & Hp1 & _).
  - apply gord_but_ex; [by apply gord_but_swap_remove|].
    intros a Hs Hne xa xd Hxa Hxd.
    assert (a = 0) as ->.
    { destruct (sub_proper_par _ _ Hs) as [Hp0 Hs']; [done|]. apply sub_le in Hs'.
      assert (par pos = 0) as Hpp; [|lia].
      unfold par. destruct pos as [|[|[|?] ] ]; try lia; reflexivity. }
    rewrite amin_0.
    pose proof (lookup_lt_Some _ _ _ Hxd) as Hld. rewrite aswap_remove_length in Hld.
    assert (xd ∈ l) as Hin.
    { eapply aswap_remove_elem, elem_of_list_lookup_2; eauto. }
    destruct (last l) as [y|] eqn:Hlast.
    2:{ apply last_None in Hlast. by subst. }
    rewrite (aswap_remove_lookup l pos y) in Hxa by (done || lia).
    rewrite decide_False in Hxa by done.
    by apply (root_min l).
  - split; [done|]. rewrite Hp1. by apply aswap_remove_perm.
Qed.

(** a max-level node dominates its subtree *)
Lemma afind_max_aux (l : list E) :
  gord l ->
  match (afind_max pr ple l).1 with
  | None => l = []
  | Some pos => pos <= 2 /\ exists x, l !! pos = Some x /\ is_max pr ple l x
  end.
Proof.
  intros Hg. unfold afind_max.
  destruct l as [|x0 [|x1 [|x2 l'] ] ] eqn:Hl; cbn [length fst]; [done| | |].
  - split; [lia|]. exists x0. split; [done|]. split; [left|].
    intros y ->%elem_of_list_singleton. apply (led_refl ple Hord true).
  - split; [lia|]. exists x1. split; [done|]. split; [right; left|].
    intros y [k Hk]%elem_of_list_lookup.
    destruct k as [|[|k] ]; simplify_eq/=.
    + apply (gord_pair [y; x1] 0 1 y x1 Hg (sub_0 1)); done.
    + apply (led_refl ple Hord true).
  - rewrite <- Hl in *.
    assert (l !! 0 = Some x0 /\ l !! 1 = Some x1 /\ l !! 2 = Some x2) as (H0 & H1 & H2)
      by (by subst l).
    rewrite H1, H2. cbn [fst].
    assert (forall m xm k y, (m = 1 \/ m = 2) -> l !! m = Some xm -> sub m k ->
       l !! k = Some y -> ple (pr y) (pr xm) = true) as Hdom.
    { intros m xm k y Hm Hxm Hs Hy.
      assert (amin_level m = false) as Hk by (destruct Hm as [-> | ->]; reflexivity).
      pose proof (gord_pair l m k xm y Hg Hs Hxm Hy) as Hle. by rewrite Hk in Hle. }
    assert (forall m xm xo, (m = 1 \/ m = 2) -> l !! m = Some xm -> l !! (3 - m) = Some xo ->
       ple (pr xo) (pr xm) = true -> is_max pr ple l xm) as Hmax.
    { intros m xm xo Hm Hxm Hxo Hle. split; [by eapply elem_of_list_lookup_2|].
      intros y [k Hk]%elem_of_list_lookup.
      destruct (sub_inv_down 0 k (sub_0 k)) as [-> | [Hs | Hs] ].
      - pose proof (gord_pair l 0 m x0 xm Hg (sub_0 m) H0 Hxm) as Hle'.
        rewrite amin_0 in Hle'. by simplify_eq.
      - change (left 0) with 1 in Hs. destruct Hm as [-> | ->].
        + eapply (Hdom 1); eauto.
        + eapply (led_trans true); [|exact Hle]. eapply (Hdom 1); eauto.
      - change (right 0) with 2 in Hs. destruct Hm as [-> | ->].
        + eapply (led_trans true); [|exact Hle]. eapply (Hdom 2); eauto.
        + eapply (Hdom 2); eauto. }
    destruct (alt ple (pr x2) (pr x1)) eqn:Halt.
    + split; [lia|]. exists x1. split; [done|]. apply (Hmax 1 x1 x2); auto.
      by apply (alt_dir_true ple Hord true).
    + split; [lia|]. exists x2. split; [done|]. apply (Hmax 2 x2 x1); auto.
      by apply (alt_dir_false ple true).
Qed.
End Ops.
