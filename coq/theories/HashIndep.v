(** * HashIndep: C18 at the level of whole runs.

    The model uses [hash] only through [get_index_of]; two hash functions
    that both respect the Eq/Hash contract find the same slot
    ([C18_lookup_thm]).  Going function by function through everything that
    takes [hash], every operation - and hence [step] and [run] - computes
    the same result under both.  No functional extensionality: higher-order
    arguments are handled by pointwise-agreement hypotheses. *)
From PQV Require Export PropSpec PropProofs.

Section HashIndep.
Context {I P : Type}.
Variable keq : I -> I -> bool.
Variable ple : P -> P -> bool.
Variable peq : P -> P -> bool.
Variable alloc_limit : N.

Section Two.
Variable hash1 hash2 : I -> N.
Hypothesis Hk1 : keq_ok keq hash1.
Hypothesis Hk2 : keq_ok keq hash2.

Notation store := (store I P).
Notation R := (res store).

Lemma gio_eq (m : list (I * P)) k :
  get_index_of keq hash1 m k = get_index_of keq hash2 m k.
Proof. by apply C18_lookup_thm. Qed.

(** ** Store.v *)
Lemma get_eq (s : store) k : Store.get keq hash1 s k = Store.get keq hash2 s k.
Proof. unfold Store.get. by rewrite gio_eq. Qed.

Lemma get_priority_eq (s : store) k :
  get_priority keq hash1 s k = get_priority keq hash2 s k.
Proof. unfold get_priority. by rewrite get_eq. Qed.

Lemma get_mut_eq (s : store) k u : get_mut keq hash1 s k u = get_mut keq hash2 s k u.
Proof. unfold get_mut. by rewrite gio_eq. Qed.

Lemma change_priority_eq (s : store) k p :
  change_priority keq hash1 s k p = change_priority keq hash2 s k p.
Proof. unfold change_priority. by rewrite gio_eq. Qed.

Lemma change_priority_by_eq (s : store) k g :
  change_priority_by keq hash1 s k g = change_priority_by keq hash2 s k g.
Proof. unfold change_priority_by. by rewrite gio_eq. Qed.

Lemma remove_eq (s : store) k : Store.remove keq hash1 s k = Store.remove keq hash2 s k.
Proof. unfold Store.remove. by rewrite gio_eq. Qed.

Lemma append_entries_eq l : forall s : store,
  append_entries keq hash1 s l = append_entries keq hash2 s l.
Proof.
  induction l as [|e l IH]; intros s; cbn [append_entries]; [done|].
  by rewrite gio_eq, IH.
Qed.

Lemma append_eq (s o : store) : append keq hash1 s o = append keq hash2 s o.
Proof.
  unfold append. destruct (decide (ssize s < ssize o));
    destruct (decide _); by rewrite ?append_entries_eq.
Qed.

Lemma from_vec_eq (l : list (I * P)) : from_vec keq hash1 l = from_vec keq hash2 l.
Proof. unfold from_vec. by rewrite append_entries_eq. Qed.

Lemma extend_one_eq (s : store) e : extend_one keq hash1 s e = extend_one keq hash2 s e.
Proof. unfold extend_one. by rewrite gio_eq. Qed.

Lemma extend_entries_eq l : forall s : store,
  extend_entries keq hash1 s l = extend_entries keq hash2 s l.
Proof.
  induction l as [|e l IH]; intros s; cbn [extend_entries]; [done|].
  destruct (cb s) as [s1|s1|f]; cbn [mbind res_bind rbind]; [|done|done].
  by rewrite extend_one_eq, IH.
Qed.

Lemma from_iter_eq fz (l : list (I * P)) h :
  from_iter keq hash1 alloc_limit fz l h = from_iter keq hash2 alloc_limit fz l h.
Proof.
  unfold from_iter. destruct (with_capacity alloc_limit h.1) as [s0|s0|f];
    cbn [mbind res_bind rbind]; [|done|done].
  by rewrite extend_entries_eq.
Qed.

Lemma map_insert_eq (m : list (I * P)) k p :
  map_insert keq hash1 m k p = map_insert keq hash2 m k p.
Proof. unfold map_insert. by rewrite gio_eq. Qed.

Lemma visit_one_eq (s : store) e : visit_one keq hash1 s e = visit_one keq hash2 s e.
Proof. unfold visit_one. by rewrite gio_eq, map_insert_eq. Qed.

Lemma visit_fold_eq l : forall s : store,
  fold_left (visit_one keq hash1) l s = fold_left (visit_one keq hash2) l s.
Proof.
  induction l as [|e l IH]; intros s; cbn [fold_left]; [done|].
  by rewrite visit_one_eq, IH.
Qed.

Lemma visit_seq_eq (l : list (I * P)) : visit_seq keq hash1 l = visit_seq keq hash2 l.
Proof. unfold visit_seq. apply visit_fold_eq. Qed.

Lemma forallb_pointwise {A} (f g : A -> bool) l :
  (forall x, f x = g x) -> forallb f l = forallb g l.
Proof.
  intros Hfg. induction l as [|x l IH]; cbn [forallb]; [done|]. by rewrite Hfg, IH.
Qed.

Lemma store_eq_eq (a b : store) : store_eq keq hash1 peq a b = store_eq keq hash2 peq a b.
Proof.
  unfold store_eq. f_equal. apply forallb_pointwise. intros e. by rewrite get_eq.
Qed.

(** ** PQ.v *)
Lemma push_eq (s : store) k p : push keq hash1 ple s k p = push keq hash2 ple s k p.
Proof. unfold push. by rewrite gio_eq. Qed.

Lemma push_increase_eq (s : store) k p :
  push_increase keq hash1 ple s k p = push_increase keq hash2 ple s k p.
Proof.
  unfold push_increase. rewrite get_priority_eq.
  destruct (get_priority keq hash2 s k); [|apply push_eq].
  destruct (cmp_lt ple s p0 p) as [ [ [] s1]|s1|f]; cbn [mbind res_bind rbind]; try done.
  apply push_eq.
Qed.

Lemma push_decrease_eq (s : store) k p :
  push_decrease keq hash1 ple s k p = push_decrease keq hash2 ple s k p.
Proof.
  unfold push_decrease. rewrite get_priority_eq.
  destruct (get_priority keq hash2 s k); [|apply push_eq].
  destruct (cmp_lt ple s p p0) as [ [ [] s1]|s1|f]; cbn [mbind res_bind rbind]; try done.
  apply push_eq.
Qed.

Lemma pq_change_priority_eq (s : store) k p :
  pq_change_priority keq hash1 ple s k p = pq_change_priority keq hash2 ple s k p.
Proof. unfold pq_change_priority. by rewrite change_priority_eq. Qed.

Lemma pq_change_priority_by_eq (s : store) k g :
  pq_change_priority_by keq hash1 ple s k g = pq_change_priority_by keq hash2 ple s k g.
Proof. unfold pq_change_priority_by. by rewrite change_priority_by_eq. Qed.

Lemma pq_remove_eq (s : store) k : pq_remove keq hash1 ple s k = pq_remove keq hash2 ple s k.
Proof. unfold pq_remove. by rewrite remove_eq. Qed.

Lemma pq_append_eq (s o : store) : pq_append keq hash1 ple s o = pq_append keq hash2 ple s o.
Proof. unfold pq_append. by rewrite append_eq. Qed.

Lemma pq_from_vec_eq (l : list (I * P)) : pq_from_vec keq hash1 ple l = pq_from_vec keq hash2 ple l.
Proof. unfold pq_from_vec. by rewrite from_vec_eq. Qed.

Lemma pq_from_iter_eq (l : list (I * P)) h :
  pq_from_iter keq hash1 ple alloc_limit l h = pq_from_iter keq hash2 ple alloc_limit l h.
Proof. unfold pq_from_iter. by rewrite from_iter_eq. Qed.

Lemma pq_deserialize_eq (l : list (I * P)) :
  pq_deserialize keq hash1 ple l = pq_deserialize keq hash2 ple l.
Proof. unfold pq_deserialize. by rewrite visit_seq_eq. Qed.

Lemma push_all_eq l : forall s : store,
  push_all keq hash1 ple s l = push_all keq hash2 ple s l.
Proof.
  induction l as [|e l IH]; intros s; cbn [push_all]; [done|].
  destruct (cb s) as [s1|s1|f]; cbn [mbind res_bind rbind]; [|done|done].
  rewrite push_eq.
  destruct (push keq hash2 ple s1 e.1 e.2) as [ [r s2]|s2|f]; cbn [mbind res_bind rbind];
    [apply IH|done|done].
Qed.

(** the higher-order one: the two strategies agree pointwise *)
Lemma extend_with_eq (build1 build2 : store -> R store)
    (pushall1 pushall2 : store -> list (I * P) -> R store) (s : store) l h :
  (forall s, build1 s = build2 s) ->
  (forall s l, pushall1 s l = pushall2 s l) ->
  extend_with keq hash1 alloc_limit build1 pushall1 s l h =
  extend_with keq hash2 alloc_limit build2 pushall2 s l h.
Proof.
  intros Hb Hp. unfold extend_with.
  destruct (reserve alloc_limit s h.1) as [s1|s1|f]; cbn [mbind res_bind rbind]; [|done|done].
  destruct (match h.2 with Some _ => _ | None => _ end); [|apply Hp].
  rewrite extend_entries_eq.
  destruct (extend_entries keq hash2 s1 l) as [s2|s2|f]; cbn [mbind res_bind rbind];
    [apply Hb|done|done].
Qed.

Lemma pq_extend_eq (s : store) l h :
  pq_extend keq hash1 ple alloc_limit s l h = pq_extend keq hash2 ple alloc_limit s l h.
Proof. unfold pq_extend. apply extend_with_eq; [done|]. intros; apply push_all_eq. Qed.

(** ** DPQ.v *)
Lemma dpush_eq (s : store) k p : dpush keq hash1 ple s k p = dpush keq hash2 ple s k p.
Proof. unfold dpush. by rewrite gio_eq. Qed.

Lemma dpush_increase_eq (s : store) k p :
  dpush_increase keq hash1 ple s k p = dpush_increase keq hash2 ple s k p.
Proof.
  unfold dpush_increase. rewrite get_priority_eq.
  destruct (get_priority keq hash2 s k); [|apply dpush_eq].
  destruct (cmp_lt ple s p0 p) as [ [ [] s1]|s1|f]; cbn [mbind res_bind rbind]; try done.
  apply dpush_eq.
Qed.

Lemma dpush_decrease_eq (s : store) k p :
  dpush_decrease keq hash1 ple s k p = dpush_decrease keq hash2 ple s k p.
Proof.
  unfold dpush_decrease. rewrite get_priority_eq.
  destruct (get_priority keq hash2 s k); [|apply dpush_eq].
  destruct (cmp_lt ple s p p0) as [ [ [] s1]|s1|f]; cbn [mbind res_bind rbind]; try done.
  apply dpush_eq.
Qed.

Lemma dpq_change_priority_eq (s : store) k p :
  dpq_change_priority keq hash1 ple s k p = dpq_change_priority keq hash2 ple s k p.
Proof. unfold dpq_change_priority. by rewrite change_priority_eq. Qed.

Lemma dpq_change_priority_by_eq (s : store) k g :
  dpq_change_priority_by keq hash1 ple s k g = dpq_change_priority_by keq hash2 ple s k g.
Proof. unfold dpq_change_priority_by. by rewrite change_priority_by_eq. Qed.

Lemma dpq_remove_eq (s : store) k : dpq_remove keq hash1 ple s k = dpq_remove keq hash2 ple s k.
Proof. unfold dpq_remove. by rewrite remove_eq. Qed.

Lemma dpq_append_eq (s o : store) : dpq_append keq hash1 ple s o = dpq_append keq hash2 ple s o.
Proof. unfold dpq_append. by rewrite append_eq. Qed.

Lemma dpq_from_vec_eq (l : list (I * P)) :
  dpq_from_vec keq hash1 ple l = dpq_from_vec keq hash2 ple l.
Proof. unfold dpq_from_vec. by rewrite from_vec_eq. Qed.

Lemma dpq_from_iter_eq (l : list (I * P)) h :
  dpq_from_iter keq hash1 ple alloc_limit l h = dpq_from_iter keq hash2 ple alloc_limit l h.
Proof. unfold dpq_from_iter. by rewrite from_iter_eq. Qed.

Lemma dpq_deserialize_eq (l : list (I * P)) :
  dpq_deserialize keq hash1 ple l = dpq_deserialize keq hash2 ple l.
Proof. unfold dpq_deserialize. by rewrite visit_seq_eq. Qed.

Lemma dpush_all_eq l : forall s : store,
  dpush_all keq hash1 ple s l = dpush_all keq hash2 ple s l.
Proof.
  induction l as [|e l IH]; intros s; cbn [dpush_all]; [done|].
  destruct (cb s) as [s1|s1|f]; cbn [mbind res_bind rbind]; [|done|done].
  rewrite dpush_eq.
  destruct (dpush keq hash2 ple s1 e.1 e.2) as [ [r s2]|s2|f]; cbn [mbind res_bind rbind];
    [apply IH|done|done].
Qed.

Lemma dpq_extend_eq (s : store) l h :
  dpq_extend keq hash1 ple alloc_limit s l h = dpq_extend keq hash2 ple alloc_limit s l h.
Proof. unfold dpq_extend. apply extend_with_eq; [done|]. intros; apply dpush_all_eq. Qed.

(** ** Machine.v *)
Ltac dreg :=
  repeat match goal with
         | |- context [getreg ?m ?r] => destruct (getreg m r) as [ [ [|] ?]|]
         end.

Lemma step1_eq fz (m : @machine I P) (o : @op I P) :
  step1 keq hash1 ple peq alloc_limit fz m o = step1 keq hash2 ple peq alloc_limit fz m o.
Proof.
  destruct o; unfold step1; try reflexivity;
    rewrite ?from_vec_eq, ?from_iter_eq, ?visit_seq_eq; try reflexivity;
    try (destruct (decide _); [reflexivity|]);
    dreg; try reflexivity;
    rewrite ?push_eq, ?dpush_eq, ?push_increase_eq, ?dpush_increase_eq,
      ?push_decrease_eq, ?dpush_decrease_eq,
      ?pq_change_priority_eq, ?dpq_change_priority_eq,
      ?pq_change_priority_by_eq, ?dpq_change_priority_by_eq,
      ?pq_remove_eq, ?dpq_remove_eq, ?get_eq, ?get_priority_eq, ?get_mut_eq,
      ?pq_extend_eq, ?dpq_extend_eq, ?append_eq, ?store_eq_eq, ?visit_seq_eq;
    reflexivity.
Qed.

Lemma step_eq (m : @machine I P) (o : @op I P) :
  step keq hash1 ple peq alloc_limit m o = step keq hash2 ple peq alloc_limit m o.
Proof. unfold step. destruct o; by rewrite step1_eq. Qed.

Lemma run_eq (h : list (@op I P)) : forall m : @machine I P,
  run keq hash1 ple peq alloc_limit m h = run keq hash2 ple peq alloc_limit m h.
Proof.
  induction h as [|o h IH]; intros m; cbn [run]; [done|].
  rewrite step_eq. destruct (step keq hash2 ple peq alloc_limit m o) as [m' x].
  by rewrite IH.
Qed.

End Two.

Theorem C18_run_thm : C18_run_stmt keq ple peq alloc_limit.
Proof. intros hash1 hash2 H1 H2 m h. by apply run_eq. Qed.

End HashIndep.

Print Assumptions C18_run_thm.
