(** * AbsDPQBubble: bubble-up of the min-max heap, up_heapify and the
    operations built on it. *)
From PQV Require Export AbsDPQLevels AbsDPQTrickle.
From Coq Require Import Lia.

Section Bubble.
Context {E P : Type}.
Variable pr : E -> P.
Variable ple : P -> P -> bool.
Hypothesis Hord : ord_ok ple.

Notation led := (led ple).
Notation pair_ok := (pair_ok pr ple).
Notation gord_ex := (gord_ex pr ple).
Notation gord := (gord_ex (fun _ => False)).
Notation gord_but := (gord_but pr ple).
Notation led_trans := (led_trans ple Hord).

(** the chain invariant: the carried entry sits at [pos]; [i] is where it started *)
Definition chain_inv (S : list E) (pos i : nat) (mn : bool) : Prop :=
  amin_level pos = mn /\ pos <= i /\
  (forall a d, sub a d -> a <> d -> d <> pos -> a <> i -> pair_ok S a d) /\
  (forall a, sub a pos -> a <> pos -> amin_level a = negb mn -> pair_ok S a pos).

Lemma chain_stop S pos i mn :
  chain_inv S pos i mn ->
  (forall xg x, 0 < pos -> 0 < par pos -> S !! par (par pos) = Some xg -> S !! pos = Some x ->
     led mn (pr xg) (pr x) = true) ->
  gord_ex (fun a => a = i) S.
Proof.
  intros (Hk & Hle & J1 & J2) Hstop a d Hs Hne Hai.
  destruct (decide (d = pos)) as [-> | Hd]; [|by apply J1].
  destruct (decide (amin_level a = negb mn)) as [Hka | Hka]; [by apply J2|].
  assert (amin_level a = mn) as Hka' by (destruct (amin_level a), mn; done).
  destruct (sub_proper_par _ _ Hs) as [Hp0 Hs1]; [done|].
  assert (a <> par pos) as Hap.
  { intros ->. rewrite (amin_par' pos), Hk in Hka by done. done. }
  destruct (sub_proper_par _ _ Hs1) as [Hpp0 Hs2]; [done|].
  intros xa x Hxa Hx.
  pose proof (par_lt _ Hp0). pose proof (par_lt _ Hpp0).
  pose proof (lookup_lt_Some _ _ _ Hx).
  destruct (lookup_lt_is_Some_2 S (par (par pos))) as [xg Hxg]; [lia|].
  specialize (Hstop xg x Hp0 Hpp0 Hxg Hx). rewrite Hka'.
  destruct (decide (a = par (par pos))) as [-> | Hag]; [by simplify_eq|].
  eapply led_trans; [|exact Hstop].
  rewrite <- Hka'. apply (J1 a (par (par pos))); auto; lia.
Qed.

Lemma chain_step S pos i mn xg x :
  chain_inv S pos i mn -> 0 < pos -> 0 < par pos ->
  S !! par (par pos) = Some xg -> S !! pos = Some x ->
  led mn (pr x) (pr xg) = true ->
  chain_inv (aswap S pos (par (par pos))) (par (par pos)) i mn.
Proof.
  intros (Hk & Hle & J1 & J2) Hp0 Hpp0 Hxg Hx Hlt.
  set (gp := par (par pos)) in *.
  pose proof (par_lt _ Hp0). pose proof (par_lt _ Hpp0).
  assert (gp < pos) as Hgp by (unfold gp; lia).
  assert (amin_level gp = mn) as Hkg.
  { unfold gp. rewrite (amin_par' (par pos)), (amin_par' pos), Hk, negb_involutive by done. done. }
  assert (sub gp pos) as Hsgp.
  { apply sub_up; [done|]. by apply sub_par. }
  pose proof (aswap_lookup S pos gp x xg) as Hlk. specialize (fun k => Hlk k Hx Hxg).
  split; [done|]. split; [lia|]. split.
  - intros a d Hs Hne Hd Hai xa xd. rewrite !Hlk.
    rewrite (decide_False (P := d = gp)) by done.
    destruct (decide (a = gp)) as [-> | Hag].
    + (* the carried entry, now at gp *)
      intros [= <-]. rewrite Hkg.
      destruct (decide (d = pos)) as [-> | Hdp]; [by intros [= <-]|].
      intros Hxd. eapply led_trans; [exact Hlt|].
      rewrite <- Hkg. apply (J1 gp d); auto.
    + destruct (decide (a = pos)) as [-> | Hap].
      * (* the displaced grandparent entry, now at pos *)
        intros [= <-]. rewrite Hk.
        assert (d <> pos) as Hdp by done. rewrite (decide_False (P := d = pos)) by done.
        intros Hxd. rewrite <- Hkg. apply (J1 gp d); auto;
          first [exact (sub_trans _ _ _ Hsgp Hs) | (apply sub_le in Hs; lia) | lia].
      * intros Hxa. destruct (decide (d = pos)) as [-> | Hdp].
        -- intros [= <-].
           destruct (sub_proper_par _ _ Hs) as [_ Hs1]; [done|].
           destruct (decide (a = par pos)) as [-> | Hapar].
           ++ rewrite (amin_par' pos), Hk, led_negb by done.
              rewrite <- Hkg. apply (J1 gp (par pos)); auto; first [by apply sub_par | lia].
           ++ destruct (sub_proper_par _ _ Hs1) as [_ Hs2]; [done|].
              apply (J1 a gp); auto; lia.
        -- intros Hxd. apply (J1 a d); auto.
  - intros a Hs Hne Hka xa xd. rewrite !Hlk.
    rewrite (decide_True (P := gp = gp)) by done.
    apply sub_le in Hs as Hle'.
    rewrite (decide_False (P := a = gp)), (decide_False (P := a = pos)) by lia.
    intros Hxa [= <-]. apply (J2 a); auto; first [exact (sub_trans _ _ _ Hs Hsgp) | lia].
Qed.

Lemma achain_ok mn i fuel : forall S pos,
  chain_inv S pos i mn -> pos < fuel -> pos < length S ->
  gord_ex (fun a => a = i) (achain pr ple mn fuel S pos).1.1 /\
  (achain pr ple mn fuel S pos).1.1 ≡ₚ S.
Proof.
  induction fuel as [|fuel IH]; intros S pos HJ Hfuel Hlen; [lia|].
  cbn [achain].
  destruct pos as [|pos'] eqn:Hpos.
  { cbn [fst]. split; [|done]. eapply chain_stop; eauto. intros; lia. }
  rewrite <- Hpos in *. assert (0 < pos) as Hp0 by lia. clear Hpos pos'.
  destruct (par pos) as [|pp] eqn:Hpp.
  { cbn [fst]. split; [|done]. eapply chain_stop; eauto. intros; lia. }
  rewrite <- Hpp in *. assert (0 < par pos) as Hpp0 by lia. clear Hpp pp.
  pose proof (par_lt _ Hp0). pose proof (par_lt _ Hpp0).
  destruct (lookup_lt_is_Some_2 S (par (par pos))) as [xg Hxg]; [lia|].
  destruct (lookup_lt_is_Some_2 S pos) as [x Hx]; [lia|].
  rewrite Hxg, Hx.
  destruct (alt_dir ple mn (pr x) (pr xg)) eqn:Halt.
  - apply (alt_dir_true ple Hord) in Halt.
    destruct (IH (aswap S pos (par (par pos))) (par (par pos))) as [Hg Hp].
    + by eapply chain_step.
    + lia.
    + rewrite aswap_length. lia.
    + destruct (achain pr ple mn fuel (aswap S pos (par (par pos))) (par (par pos)))
        as [ [S' p'] t']. cbn [fst] in *. split; [done|]. by rewrite Hp, aswap_perm.
  - apply alt_dir_false in Halt. cbn [fst]. split; [|done].
    eapply chain_stop; eauto. intros xg' x' _ _ ??. by simplify_eq.
Qed.

(** ** the first step of bubble-up *)
Lemma start_noswap S i x xp :
  gord_but i S -> 0 < i -> S !! i = Some x -> S !! par i = Some xp ->
  led (amin_level i) (pr x) (pr xp) = true ->
  chain_inv S i i (amin_level i).
Proof.
  intros Hb Hi0 Hx Hxp Hle. split; [done|]. split; [done|]. split.
  - intros a d Hs Hne Hd Ha. by apply Hb.
  - intros a Hs Hne Hka xa x' Hxa Hx'. simplify_eq.
    rewrite Hka, led_negb.
    destruct (sub_proper_par _ _ Hs) as [_ Hs1]; [done|].
    destruct (decide (a = par i)) as [-> | Hap]; [by simplify_eq|].
    eapply led_trans; [exact Hle|].
    rewrite <- led_negb, <- Hka. apply (Hb a (par i)); auto.
    pose proof (par_lt _ Hi0). lia.
Qed.

Lemma start_swap S i x xp :
  gord_but i S -> 0 < i -> S !! i = Some x -> S !! par i = Some xp ->
  led (negb (amin_level i)) (pr x) (pr xp) = true ->
  chain_inv (aswap S i (par i)) (par i) i (negb (amin_level i)).
Proof.
  intros Hb Hi0 Hx Hxp Hle.
  pose proof (par_lt _ Hi0) as Hlt.
  pose proof (aswap_lookup S i (par i) x xp) as Hlk. specialize (fun k => Hlk k Hx Hxp).
  assert (amin_level (par i) = negb (amin_level i)) as Hkp by (by apply amin_par').
  split; [done|]. split; [lia|]. split.
  - intros a d Hs Hne Hd Ha xa xd. rewrite !Hlk.
    rewrite (decide_False (P := d = par i)), (decide_False (P := a = i)) by done.
    destruct (decide (a = par i)) as [-> | Hap].
    + intros [= <-]. rewrite Hkp.
      destruct (decide (d = i)) as [-> | Hdi]; [by intros [= <-]|].
      intros Hxd. eapply led_trans; [exact Hle|].
      rewrite <- Hkp. apply (Hb (par i) d); auto; lia.
    + intros Hxa. destruct (decide (d = i)) as [-> | Hdi].
      * intros [= <-]. destruct (sub_proper_par _ _ Hs) as [_ Hs1]; [done|].
        apply (Hb a (par i)); auto; lia.
      * intros Hxd. apply (Hb a d); auto.
  - intros a Hs Hne Hka xa xd. rewrite !Hlk.
    apply sub_le in Hs as Hle'.
    rewrite (decide_True (P := par i = par i)) by done. rewrite (decide_False (P := a = par i)), (decide_False (P := a = i)) by lia.
    intros Hxa [= <-]. rewrite negb_involutive in Hka. rewrite Hka.
    eapply led_trans.
    + rewrite <- Hka. apply (Hb a (par i)); eauto; lia.
    + by rewrite <- led_negb.
Qed.

Lemma adbubble_up_ok S i :
  gord_but i S -> i < length S ->
  gord_ex (fun a => a = i) (adbubble_up pr ple S i).1.1 /\
  (adbubble_up pr ple S i).1.1 ≡ₚ S.
Proof.
  intros Hb Hlen. unfold adbubble_up.
  destruct i as [|i'] eqn:Hi.
  { cbn [fst]. split; [|done]. apply gord_but_ex; [done|].
    intros a Hs%sub_le Hne. lia. }
  rewrite <- Hi in *. assert (0 < i) as Hi0 by lia. clear Hi i'.
  pose proof (par_lt _ Hi0) as Hlt.
  destruct (lookup_lt_is_Some_2 S (par i)) as [xp Hxp]; [lia|].
  destruct (lookup_lt_is_Some_2 S i) as [x Hx]; [lia|].
  rewrite Hxp, Hx.
  assert (forall mn S' pos, chain_inv S' pos i mn -> pos <= i -> length S' = length S -> S' ≡ₚ S ->
    gord_ex (fun a => a = i) (let '(l', p', t) := achain pr ple mn (Datatypes.S i) S' pos in
       (l', p', Datatypes.S t)).1.1 /\
    (let '(l', p', t) := achain pr ple mn (Datatypes.S i) S' pos in
       (l', p', Datatypes.S t)).1.1 ≡ₚ S) as Hchain.
  { intros mn S' pos HJ Hpos Hlen' Hperm.
    destruct (achain_ok mn i (Datatypes.S i) S' pos HJ) as [Hg Hp]; [lia|lia|].
    destruct (achain pr ple mn (Datatypes.S i) S' pos) as [ [l' p'] t]. cbn [fst] in *.
    split; [done|]. by rewrite Hp. }
  destruct (amin_level i) eqn:Hk; destruct (alt ple (pr xp) (pr x)) eqn:Hb0.
  - apply (alt_dir_true ple Hord true) in Hb0.
    apply (Hchain false); [|lia|apply aswap_length|apply aswap_perm].
    replace false with (negb (amin_level i)) by (by rewrite Hk).
    eapply start_swap; eauto. by rewrite Hk.
  - apply (alt_dir_false ple true) in Hb0.
    apply (Hchain true); [|lia|done|done].
    rewrite <- Hk. eapply start_noswap; eauto. by rewrite Hk.
  - apply (alt_dir_true ple Hord true) in Hb0.
    apply (Hchain false); [|lia|done|done].
    rewrite <- Hk. eapply start_noswap; eauto. by rewrite Hk.
  - apply (alt_dir_false ple true) in Hb0.
    apply (Hchain true); [|lia|apply aswap_length|apply aswap_perm].
    replace true with (negb (amin_level i)) by (by rewrite Hk).
    eapply start_swap; eauto. by rewrite Hk.
Qed.

(** ** up_heapify and the operations *)
Lemma gord_but_oob (S : list E) i : gord_but i S -> length S <= i -> gord S.
Proof.
  intros Hb Hlen a d Hs Hne _ xa xd Hxa Hxd.
  apply lookup_lt_Some in Hxa as Ha. apply lookup_lt_Some in Hxd as Hd.
  apply (Hb a d); auto; lia.
Qed.
Lemma gord_weaken1 (S : list E) i : gord S -> gord_ex (fun a => a = i) S.
Proof. apply gord_ex_weaken. done. Qed.

Lemma adup_heapify_ok (S : list E) i :
  gord_but i S ->
  gord (adup_heapify pr ple S i).1 /\ (adup_heapify pr ple S i).1 ≡ₚ S.
Proof.
  intros Hb. unfold adup_heapify.
  destruct (S !! i) as [xi|] eqn:Hxi; cbn [fst].
  2:{ split; [|done]. apply (gord_but_oob S i Hb). by apply lookup_ge_None. }
  apply lookup_lt_Some in Hxi as Hlen.
  destruct (adbubble_up_ok S i Hb Hlen) as [Hg1 Hp1].
  destruct (adbubble_up pr ple S i) as [ [l1 pos] t1]. cbn [fst] in *.
  destruct (decide (i = pos)) as [<- | Hne].
  - destruct (heapify_fix1 pr ple Hord l1 i Hg1) as (Hg3 & Hp3 & _).
    destruct (adheapify pr ple l1 i) as [l3 t3]. cbn [fst] in *.
    split; [done|]. by rewrite Hp3.
  - destruct (heapify_fix1 pr ple Hord l1 i Hg1) as (Hg2 & Hp2 & _).
    destruct (adheapify pr ple l1 i) as [l2 t2]. cbn [fst] in *.
    destruct (heapify_fix1 pr ple Hord l2 pos (gord_weaken1 l2 pos Hg2)) as (Hg3 & Hp3 & _).
    destruct (adheapify pr ple l2 pos) as [l3 t3]. cbn [fst] in *.
    split; [done|]. by rewrite Hp3, Hp2.
Qed.

Lemma a_dpush_new_aux (l : list E) e :
  gord l -> gord (a_dpush_new pr ple l e).1 /\ (a_dpush_new pr ple l e).1 ≡ₚ e :: l.
Proof.
  intros Hg. unfold a_dpush_new.
  destruct (adbubble_up_ok (l ++ [e]) (length l)) as [Hg1 Hp1].
  { intros a d Hs Hne Ha Hd xa xd Hxa Hxd.
    apply lookup_lt_Some in Hxa as Hla. apply lookup_lt_Some in Hxd as Hld.
    rewrite app_length in Hla, Hld. cbn [length] in Hla, Hld.
    rewrite lookup_app_l in Hxa, Hxd by lia. by eapply (gord_pair pr ple Hord l). }
  { rewrite app_length. cbn [length]. lia. }
  destruct (adbubble_up pr ple (l ++ [e]) (length l)) as [ [l1 pos] t1]. cbn [fst] in *.
  split.
  - intros a d Hs Hne _ xa xd Hxa Hxd.
    apply (Hg1 a d); auto. intros ->.
    apply lookup_lt_Some in Hxd. rewrite Hp1, app_length in Hxd. cbn [length] in Hxd.
    apply sub_le in Hs. lia.
  - rewrite Hp1. by rewrite Permutation_app_comm.
Qed.

Lemma a_dupdate_aux (l : list E) pos e' :
  gord l -> gord (a_dupdate pr ple l pos e').1 /\ (a_dupdate pr ple l pos e').1 ≡ₚ <[pos:=e']> l.
Proof. intros Hg. unfold a_dupdate. apply adup_heapify_ok. by apply gord_but_insert. Qed.

Lemma a_dremove_aux (l : list E) pos x :
  gord l -> l !! pos = Some x ->
  gord (a_dremove pr ple l pos).1 /\ l ≡ₚ x :: (a_dremove pr ple l pos).1.
Proof.
  intros Hg Hx. unfold a_dremove.
  pose proof (gord_but_swap_remove pr ple Hord l pos Hg) as Hb.
  pose proof (aswap_remove_perm l pos x Hx) as Hp.
  destruct (decide (pos < length (aswap_remove l pos))) as [Hlt | Hge].
  - destruct (adup_heapify_ok _ _ Hb) as [Hg1 Hp1]. split; [done|]. by rewrite Hp1.
  - cbn [fst]. split; [|done]. apply (gord_but_oob _ pos Hb). lia.
Qed.

Lemma gord_but_swap_remove' (l : list E) i : gord_but i l -> gord_but i (aswap_remove l i).
Proof.
  intros Hg a d Hs Hne Ha Hd xa xd Hxa Hxd.
  pose proof (lookup_lt_Some _ _ _ Hxa) as Hla. pose proof (lookup_lt_Some _ _ _ Hxd) as Hld.
  rewrite aswap_remove_length in Hla, Hld.
  destruct (last l) as [y|] eqn:Hlast.
  2:{ unfold aswap_remove in Hxa, Hxd. rewrite Hlast in Hxa, Hxd. by apply (Hg a d). }
  rewrite (aswap_remove_lookup l i y) in Hxa, Hxd by done.
  rewrite decide_False in Hxa by done. rewrite decide_False in Hxd by done. by apply (Hg a d).
Qed.

Lemma aswap_remove_insert (l : list E) i e : aswap_remove (<[i:=e]> l) i = aswap_remove l i.
Proof.
  destruct (decide (i < length l)) as [Hi | Hi].
  2:{ by rewrite list_insert_ge by lia. }
  apply list_eq. intros k.
  destruct (decide (k < length l - 1)) as [Hk | Hk].
  2:{ rewrite !aswap_remove_lookup_ge; rewrite ?insert_length; auto; lia. }
  destruct (lookup_lt_is_Some_2 l (pred (length l))) as [y Hy]; [lia|].
  assert (last l = Some y) as Hl by (by rewrite last_lookup).
  assert (exists y', last (<[i:=e]> l) = Some y' /\ (i <> pred (length l) -> y' = y)) as (y' & Hl' & Hy').
  { rewrite last_lookup, insert_length.
    destruct (decide (i = pred (length l))) as [-> | Hne].
    - rewrite list_lookup_insert by lia. exists e. split; [done|]. by intros ?.
    - rewrite list_lookup_insert_ne by done. exists y. by split. }
  rewrite (aswap_remove_lookup _ i y') by (rewrite ?insert_length; done).
  rewrite (aswap_remove_lookup l i y) by done.
  destruct (decide (k = i)) as [-> | Hki].
  - rewrite Hy' by lia. done.
  - by rewrite list_lookup_insert_ne.
Qed.

Lemma a_pop_ext_if_aux mx (l : list E) f :
  gord l ->
  let '(r, l', _) := a_pop_ext_if pr ple mx l f in
  gord l' /\
  match (if mx then (afind_max pr ple l).1 else afind_min l) with
  | None => r = None /\ l = [] /\ l' = []
  | Some pos =>
      exists e, l !! pos = Some e /\
      let '(e', b) := f e in
      if b : bool then r = Some e' /\ l ≡ₚ e :: l'
      else r = None /\ l' ≡ₚ <[pos := e']> l
  end.
Proof.
  intros Hg. unfold a_pop_ext_if.
  assert (exists opos t0, (if mx then afind_max pr ple l else (afind_min l, 0)) = (opos, t0) /\
    (if mx then (afind_max pr ple l).1 else afind_min l) = opos /\
    match opos with None => l = []
    | Some pos => (mx = false -> pos = 0) /\ is_Some (l !! pos) end)
    as (opos & t0 & -> & -> & Hopos).
  { destruct mx.
    - pose proof (afind_max_aux pr ple Hord l Hg) as H.
      destruct (afind_max pr ple l) as [opos t0]. cbn [fst] in *.
      exists opos, t0. split; [done|]. split; [done|].
      destruct opos; [|done]. destruct H as (? & x & ? & _). split; [done|]. by eexists.
    - exists (afind_min l), 0. split; [done|]. split; [done|].
      unfold afind_min. destruct l; cbn [length]; [done|]. split; [done|]. by eexists. }
  destruct opos as [pos|]; [|by subst l].
  destruct Hopos as [Hmn [e He] ]. rewrite He.
  destruct (f e) as [e' b] eqn:Hfe.
  set (l1 := <[pos:=e']> l).
  assert (gord_but pos l1) as Hb1 by (by apply gord_but_insert).
  apply lookup_lt_Some in He as Hlen.
  assert (exists r l2, (if b then (Some e', aswap_remove l1 pos) else (None, l1)) = (r, l2) /\
     gord_but pos l2 /\
     (if b then r = Some e' /\ l ≡ₚ e :: l2 else r = None /\ l2 ≡ₚ <[pos:=e']> l))
    as (r & l2 & -> & Hb2 & Hres).
  { destruct b.
    - eexists _, _. split; [done|]. split; [by apply gord_but_swap_remove'|].
      split; [done|]. unfold l1. rewrite aswap_remove_insert. by apply aswap_remove_perm.
    - eexists _, _. split; [done|]. split; [done|]. done. }
  assert (exists l3 t, (if mx then adup_heapify pr ple l2 pos else adheapify pr ple l2 pos) = (l3, t) /\
     gord l3 /\ l3 ≡ₚ l2) as (l3 & t & -> & Hg3 & Hp3).
  { destruct mx.
    - destruct (adup_heapify_ok l2 pos Hb2) as [H1 H2].
      destruct (adup_heapify pr ple l2 pos) as [l3 t]. eauto.
    - assert (pos = 0) as -> by (by apply Hmn).
      destruct (heapify_fix1 pr ple Hord l2 0) as (H1 & H2 & _).
      { apply gord_but_ex; [done|]. intros a Hs%sub_le Hne. lia. }
      destruct (adheapify pr ple l2 0) as [l3 t]. cbn [fst] in *. eauto. }
  split; [done|]. exists e. split; [done|].
  rewrite Hfe. destruct b; destruct Hres as [? Hr]; (split; [done|]); by rewrite ?Hp3.
Qed.
End Bubble.
