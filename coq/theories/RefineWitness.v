(** * RefineWitness: the refinement theorem is not vacuous — a concrete
    history from the empty queue of either kind (run instance of Instance.v,
    items [(key, payload)] compared by key, priorities in Z), the outputs the
    model computes, and the fact that they are a run of the specification. *)
From PQV Require Export Instance RefineSpec.
From PQV Require Import Refine Witnesses.

Local Open Scope Z_scope.

Definition wops : list (@qop item Z) :=
  [ QPush (1, 0) 5; QPush (2, 0) 9; QPush (3, 0) 5; QPush (1, 7) 2;
    QPushDir true (3, 0) 4; QPushDir true (3, 0) 11; QPushDir false (2, 0) 1;
    QPeek true; QPeek false; QChange (4, 0) 3; QChange (1, 0) 12;
    QChangeBy (2, 0) (fun p => p + 20); QGet (1, 99); QGetPrio (2, 0);
    QPop true; QPop false; QRemove (9, 0); QPop true; QPop true; QPop true ].

Definition wrun (k : kind) := q_run ikeq (ihash 0) Z.leb k (empty_store 0) wops.

(** the stored item of key 1 stays (1, 0) throughout; the ends are true extremes *)
Example wrun_dpq :
  (match wrun KDPQ with Ok (outs, s') => Some (outs, smap s') | _ => None end) =
  Some ([ RPrio None; RPrio None; RPrio None; RPrio (Some 5);
          RPrio (Some 4); RPrio (Some 5); RPrio (Some 9);
          REntry (Some ((3, 0), 11)); REntry (Some ((2, 0), 1)); RPrio None; RPrio (Some 2);
          RBool true; REntry (Some ((1, 0), 12)); RPrio (Some 21);
          REntry (Some ((2, 0), 21)); REntry (Some ((3, 0), 11)); REntry None;
          REntry (Some ((1, 0), 12)); REntry None; REntry None ], []).
Proof. vm_compute. reflexivity. Qed.

Example wrun_pq :
  (match wrun KPQ with Ok (outs, s') => Some (outs, smap s') | _ => None end) =
  Some ([ RPrio None; RPrio None; RPrio None; RPrio (Some 5);
          RPrio (Some 4); RPrio (Some 5); RPrio (Some 9);
          REntry (Some ((3, 0), 11)); REntry (Some ((3, 0), 11)); RPrio None; RPrio (Some 2);
          RBool true; REntry (Some ((1, 0), 12)); RPrio (Some 21);
          REntry (Some ((2, 0), 21)); REntry (Some ((1, 0), 12)); REntry None;
          REntry (Some ((3, 0), 11)); REntry None; REntry None ], []).
Proof. vm_compute. reflexivity. Qed.

(** the theorem applies to that history: its outputs are a run of the
    abstract map specification from the everywhere-undefined map *)
Example wrun_refines k :
  exists outs s', wrun k = Ok (outs, s') /\
    spec_run ikeq Z.leb k (alookup ikeq (ihash 0) []) wops outs (alookup ikeq (ihash 0) (smap s')).
Proof.
  destruct (refine_run_closed ikeq (ihash 0) Z.leb (ikeq_ok 0) zle_ord_ok k wops (empty_store 0)
              (empty_qinv ikeq Z.leb k 0)) as (outs & s' & Hrun & _ & _ & Hspec).
  exists outs, s'. split; [exact Hrun|exact Hspec].
Qed.

(** ** a tie-free history exists (RefineDet.spec_run_det is not vacuous) *)
From PQV Require Import RefineDet ListProofs.

Notation zal := (alookup ikeq (ihash 0)).

Lemma no_ties_single (e : item * Z) : no_ties ikeq Z.leb (zal [e]).
Proof.
  intros j j' a b Ha Hb _ _.
  apply (alookup_Some_1 ikeq (ihash 0) (ikeq_ok 0)) in Ha as [Ha _], Hb as [Hb _].
  apply elem_of_list_singleton in Ha, Hb. subst. unfold ikeq. apply Z.eqb_refl.
Qed.

Lemma no_ties_nil : no_ties ikeq Z.leb (zal ([] : list (item * Z))).
Proof. intros j j' a b Ha. done. Qed.

Example tie_free_history k :
  tie_free_run ikeq Z.leb k (zal []) [QPush (1, 0)%Z 5%Z; QPop true; QPop false]
    [RPrio None; REntry (Some ((1, 0), 5)%Z); REntry None] (zal []).
Proof.
  apply (tf_cons ikeq Z.leb k _ _ _ (zal [((1, 0), 5)%Z])).
  - apply (al_amap_ok_closed ikeq (ihash 0) (ikeq_ok 0)).
  - apply no_ties_nil.
  - cbn [spec_step]. split; [done|]. intros j.
    by rewrite (alookup_cons ikeq (ihash 0) (ikeq_ok 0)).
  - apply (tf_cons ikeq Z.leb k _ _ _ (zal [])).
    + apply (al_amap_ok_closed ikeq (ihash 0) (ikeq_ok 0)).
    + apply no_ties_single.
    + cbn [spec_step]. eexists. split; [done|]. split_and!.
      * done.
      * intros j e' Hj.
        apply (alookup_Some_1 ikeq (ihash 0) (ikeq_ok 0)) in Hj as [Hj _].
        apply elem_of_list_singleton in Hj. subst. by destruct (end_of k true).
      * intros j. rewrite (alookup_cons ikeq (ihash 0) (ikeq_ok 0)).
        by destruct (ikeq _ j).
    + apply (tf_cons ikeq Z.leb k _ _ _ (zal [])).
      * apply (al_amap_ok_closed ikeq (ihash 0) (ikeq_ok 0)).
      * apply no_ties_nil.
      * cbn [spec_step]. exists None. done.
      * constructor.
Qed.

(** ** the bridge to the machine applies: on a machine whose register 0 holds
    an empty queue, the step of any core operation is a specification step *)
From PQV Require Import RefineMachine.

Example machine_bridge_applies k (o : @qop item Z) :
  let m : zmachine := setreg (init_machine 1) 0 k (empty_store 0) in
  exists out s',
    step ikeq (ihash 0) Z.leb Z.eqb alloc_lim m (op_of k 0 o)
      = (setreg (reset_ticks m) 0 k s', out_of out) /\
    spec_step ikeq Z.leb k (zal []) o out (zal (smap s')).
Proof.
  intros m.
  destruct (machine_step_refines_thm ikeq (ihash 0) Z.leb Z.eqb alloc_lim (ikeq_ok 0) zle_ord_ok
              m 0%nat k (empty_store 0) o eq_refl (empty_qinv ikeq Z.leb k 0))
    as (out & s' & Hstep & _ & Hspec).
  exists out, s'. split; [exact Hstep|exact Hspec].
Qed.
