(** * RefineWitness: the refinement theorem is not vacuous — a concrete
    history from the empty queue of either kind (run instance of Instance.v,
    items [(key, payload)] compared by key, priorities in Z), the outputs the
    model computes, and the fact that they are a run of the specification. *)
From PQV Require Export Instance RefineSpec.
From PQV Require Import Refine Witnesses.

Local Open Scope Z_scope.

Definition wops : list (@qop item Z) :=
  [ QPush (1, 0) 5; QPush (2, 0) 9; QPush (3, 0) 5; QPush (1, 7) 2;
    QPushDir true (3, 0) 4; QPushDir true (3, 0) 11; QPushDir false (2, 0) 1;
    QPeek true; QPeek false; QChange (4, 0) 3; QChange (1, 0) 12;
    QChangeBy (2, 0) (fun p => p + 20); QGet (1, 99); QGetPrio (2, 0);
    QPop true; QPop false; QRemove (9, 0); QPop true; QPop true; QPop true ].

Definition wrun (k : kind) := q_run ikeq (ihash 0) Z.leb k (empty_store 0) wops.

(** the stored item of key 1 stays (1, 0) throughout; the ends are true extremes *)
Example wrun_dpq :
  (match wrun KDPQ with Ok (outs, s') => Some (outs, smap s') | _ => None end) =
  Some ([ RPrio None; RPrio None; RPrio None; RPrio (Some 5);
          RPrio (Some 4); RPrio (Some 5); RPrio (Some 9);
          REntry (Some ((3, 0), 11)); REntry (Some ((2, 0), 1)); RPrio None; RPrio (Some 2);
          RBool true; REntry (Some ((1, 0), 12)); RPrio (Some 21);
          REntry (Some ((2, 0), 21)); REntry (Some ((3, 0), 11)); REntry None;
          REntry (Some ((1, 0), 12)); REntry None; REntry None ], []).
Proof. vm_compute. reflexivity. Qed.

Example wrun_pq :
  (match wrun KPQ with Ok (outs, s') => Some (outs, smap s') | _ => None end) =
  Some ([ RPrio None; RPrio None; RPrio None; RPrio (Some 5);
          RPrio (Some 4); RPrio (Some 5); RPrio (Some 9);
          REntry (Some ((3, 0), 11)); REntry (Some ((3, 0), 11)); RPrio None; RPrio (Some 2);
          RBool true; REntry (Some ((1, 0), 12)); RPrio (Some 21);
          REntry (Some ((2, 0), 21)); REntry (Some ((1, 0), 12)); REntry None;
          REntry (Some ((3, 0), 11)); REntry None; REntry None ], []).
Proof. vm_compute. reflexivity. Qed.

(** the theorem applies to that history: its outputs are a run of the
    abstract map specification from the everywhere-undefined map *)
Example wrun_refines k :
  exists outs s', wrun k = Ok (outs, s') /\
    spec_run ikeq Z.leb k (alookup ikeq (ihash 0) []) wops outs (alookup ikeq (ihash 0) (smap s')).
Proof.
  destruct (refine_run_closed ikeq (ihash 0) Z.leb (ikeq_ok 0) zle_ord_ok k wops (empty_store 0)
              (empty_qinv ikeq Z.leb k 0)) as (outs & s' & Hrun & _ & _ & Hspec).
  exists outs, s'. split; [exact Hrun|exact Hspec].
Qed.
