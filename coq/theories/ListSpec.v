(** * ListSpec: pinned statements about the slot-ordered contents as an
    association list (lookups, bulk specs, equality): the list-level part
    of C03, C07, C14, C15. *)
From PQV Require Export OpSpec.

Section ListSpec.
Context {I P : Type}.
Variable keq : I -> I -> bool.
Variable hash : I -> N.
Variable peq : P -> P -> bool.

Notation gio := (get_index_of keq hash).
Notation nodup := (nodup_keys keq).

(** the entry stored for a key ([Store.get] on the contents) *)
Definition alookup (m : list (I * P)) (k : I) : option (I * P) :=
  gio m k ≫= (fun i => m !! i).

Definition first_of (l : list (I * P)) (k : I) : option (I * P) :=
  List.find (fun e => keq e.1 k) l.
Definition last_of (l : list (I * P)) (k : I) : option (I * P) :=
  List.find (fun e => keq e.1 k) (rev l).

Definition alookup_spec_stmt : Prop := keq_ok keq hash ->
  forall m k e, nodup m ->
    (alookup m k = Some e <-> e ∈ m /\ keq e.1 k = true).

Definition alookup_insert_stmt : Prop := keq_ok keq hash ->
  forall m i e e' k, nodup m -> m !! i = Some e -> keq e'.1 e.1 = true ->
    nodup (<[i := e']> m) /\
    alookup (<[i := e']> m) k = if keq e.1 k then Some e' else alookup m k.

Definition alookup_app_stmt : Prop := keq_ok keq hash ->
  forall m e k, nodup m -> gio m e.1 = None ->
    nodup (m ++ [e]) /\
    alookup (m ++ [e]) k = if keq e.1 k then Some e else alookup m k.

Definition alookup_swap_remove_stmt : Prop := keq_ok keq hash ->
  forall m i e m' k, nodup m -> map_swap_remove_index m i = Some (e, m') ->
    nodup m' /\ m ≡ₚ e :: m' /\
    alookup m' k = if keq e.1 k then None else alookup m k.

(** From<Vec> / append: the first priority given for a key wins *)
Definition append_list_stmt : Prop := keq_ok keq hash ->
  forall m l k, nodup m ->
    nodup (append_list keq hash m l) /\
    alookup (append_list keq hash m l) k =
      match alookup m k with Some e => Some e | None => first_of l k end.

(** extend (rebuild path), FromIterator: the last one wins, item replaced *)
Definition extend_list_stmt : Prop := keq_ok keq hash ->
  forall m l k, nodup m ->
    nodup (extend_list keq hash m l) /\
    alookup (extend_list keq hash m l) k =
      match last_of l k with Some e => Some e | None => alookup m k end.

(** pushing one by one: the last priority wins, the first item stays *)
Definition push_list_stmt : Prop := keq_ok keq hash ->
  forall m l k, nodup m ->
    nodup (push_list keq hash m l) /\
    snd <$> alookup (push_list keq hash m l) k =
      match last_of l k with Some e => Some e.2 | None => snd <$> alookup m k end /\
    fst <$> alookup (push_list keq hash m l) k =
      match alookup m k with Some e => Some e.1 | None => fst <$> first_of l k end.

(** serde: one entry per distinct key, with the last priority given for it
    (and the first item) *)
Definition visit_list_stmt : Prop := keq_ok keq hash ->
  forall l k,
    nodup (visit_list keq hash l) /\
    snd <$> alookup (visit_list keq hash l) k = snd <$> last_of l k /\
    fst <$> alookup (visit_list keq hash l) k = fst <$> first_of l k.
Definition visit_list_id_stmt : Prop := keq_ok keq hash ->
  forall m : list (I * P), nodup m -> visit_list keq hash m = m.

Definition retain_list_stmt : Prop := keq_ok keq hash ->
  forall (f : I -> P -> I * P * bool) (m : list (I * P)), pred_ok keq f -> nodup m ->
    nodup (retain_list f m) /\
    (forall e', e' ∈ retain_list f m <-> exists e, e ∈ m /\ f e.1 e.2 = (e'.1, e'.2, true)) /\
    length (retain_list f m) <= length m.

(** PartialEq: equal iff the same item -> priority map *)
Definition store_eq_stmt : Prop := keq_ok keq hash ->
  (forall a b, peq a b = true <-> a = b) ->
  forall (a b : store I P), nodup (smap a) -> nodup (smap b) ->
    (store_eq keq hash peq a b = true <->
     forall k, snd <$> alookup (smap a) k = snd <$> alookup (smap b) k).

End ListSpec.
