(** * Iter: the iterator types as small state machines
    (src/core_iterators.rs, src/*/iterators.rs) and the part of std's
    adaptor contract the properties speak about. *)
From PQV Require Export DPQ.

Inductive kind := KPQ | KDPQ.
Global Instance kind_eq_dec : EqDecision kind.
Proof. solve_decision. Defined.

Section Iter.
Context {I P : Type}.
Variable ple : P -> P -> bool.

Notation store := (store I P).
Notation R := (res store).

(** what one call on an iterator reports *)
Inductive sout :=
  | SElem (o : option (I * P))               (* next / next_back of a shared or owning iterator *)
  | SMut (o : option (nat * (I * P)))        (* iter_mut: the slot handed out and its (rewritten) content *)
  | SLen (r : res unit nat)                  (* ExactSizeIterator::len (std's default asserts on the hint) *)
  | SHint (lo : nat) (hi : option nat).      (* size_hint *)

(** one call on an iterator *)
Inductive istep :=
  | INext (w : P -> P) (u : I -> I)          (* next(), then the caller writes through the references *)
  | INextBack (w : P -> P) (u : I -> I)
  | ILen
  | ISizeHint.

(** std adaptors through which the same calls can be issued *)
Inductive adaptor :=
  | ADirect
  | ARev
  | ATake (n : nat)
  | ASkip (n : nat).

(** ** std: ExactSizeIterator::len default: [assert_eq!(upper, Some(lower)); lower] *)
Definition exact_len (h : nat * option nat) : res unit nat :=
  match h.2 with
  | Some hi => if decide (hi = h.1) then Ok h.1 else Fault Panic
  | None => Fault Panic
  end.

(** ** iter_mut (priority_queue/iterators.rs:60, double_priority_queue/iterators.rs:60).
    PriorityQueue: one cursor, forward only, default size_hint.
    DoublePriorityQueue: a front and a back cursor. *)
Record imstate := mkIm { im_pos : nat; im_end : nat }.

Definition im_new (s : store) : imstate := mkIm 0 (length (smap s)).

Definition im_yield (s : store) (slot : nat) (w : P -> P) (u : I -> I)
  : store * option (nat * (I * P)) :=
  match smap s !! slot with
  | Some e => let e' := (u e.1, w e.2) in
              (set_map s (<[slot := e']> (smap s)), Some (slot, e'))
  | None => (s, None)
  end.

(** [None] = the call is not offered by this iterator type *)
Definition im_step (k : kind) (s : store) (st : imstate) (x : istep)
  : option (store * imstate * sout) :=
  match k, x with
  | KPQ, INext w u =>
      let '(s', y) := im_yield s (im_pos st) w u in
      Some (s', mkIm (S (im_pos st)) (im_end st), SMut y)
  | KPQ, ISizeHint => Some (s, st, SHint 0 None)
  | KPQ, _ => None
  | KDPQ, INext w u =>
      if decide (im_end st <= im_pos st) then Some (s, st, SMut None)
      else let '(s', y) := im_yield s (im_pos st) w u in
           Some (s', mkIm (S (im_pos st)) (im_end st), SMut y)
  | KDPQ, INextBack w u =>
      if decide (im_end st <= im_pos st) then Some (s, st, SMut None)
      else let e := im_end st - 1 in
           let '(s', y) := im_yield s e w u in
           Some (s', mkIm (im_pos st) e, SMut y)
  | KDPQ, ILen => Some (s, st, SLen (Ok (im_end st - im_pos st)))
  | KDPQ, ISizeHint =>
      Some (s, st, SHint (im_end st - im_pos st) (Some (im_end st - im_pos st)))
  end.

(** as an iterator object over the state (store, cursors) *)
Definition im_it (k : kind) (t : store * imstate) (x : istep)
  : option (R (store * imstate * sout)) :=
  '(s', st', o) ← im_step k t.1 t.2 x; Some (Ok (s', st', o)).

(** ** Iter / IntoIter / Drain (core_iterators.rs): thin wrappers around the
    IndexMap iterators, which are double-ended deques over the slot order *)
Definition dq_step (l : list (I * P)) (x : istep) : list (I * P) * sout :=
  match x with
  | INext _ _ => match l with [] => ([], SElem None) | e :: l' => (l', SElem (Some e)) end
  | INextBack _ _ =>
      match last l with
      | None => (l, SElem None)
      | Some e => (take (length l - 1) l, SElem (Some e))
      end
  | ILen => (l, SLen (Ok (length l)))
  | ISizeHint => (l, SHint (length l) (Some (length l)))
  end.
Definition dq_it (l : list (I * P)) (x : istep) : option (R (list (I * P) * sout)) :=
  Some (Ok (dq_step l x)).

(** ** IntoSortedIter.  PriorityQueue (iterators.rs:111): [next = pop], nothing
    else.  DoublePriorityQueue (iterators.rs:146): [next = pop_min],
    [next_back = pop_max], [len], [size_hint]. *)
Definition sorted_it (k : kind) (s : store) (x : istep) : option (R (store * sout)) :=
  match k, x with
  | KPQ, INext _ _ => Some ('(r, s') ← pop ple s; Ok (s', SElem r))
  | KPQ, ISizeHint => Some (Ok (s, SHint 0 None))
  | KPQ, _ => None
  | KDPQ, INext _ _ => Some ('(r, s') ← pop_min ple s; Ok (s', SElem r))
  | KDPQ, INextBack _ _ => Some ('(r, s') ← pop_max ple s; Ok (s', SElem r))
  | KDPQ, ILen => Some (Ok (s, SLen (Ok (ssize s))))
  | KDPQ, ISizeHint => Some (Ok (s, SHint (ssize s) (Some (ssize s))))
  end.

(** ** std adaptors: the calls made on the adaptor, translated into calls on
    the underlying iterator.
    [Rev]: next <-> next_back; len and size_hint are the inner ones.
    [Take n]: answers None after n calls without asking the inner iterator;
    size_hint is the inner one capped by what is left; len is std's default
    (it asserts that this hint is exact). *)
Definition hint_take (n : nat) (h : nat * option nat) : nat * option nat :=
  (Nat.min h.1 n, Some (match h.2 with Some x => Nat.min x n | None => n end)).
Definition hint_skip (n : nat) (h : nat * option nat) : nat * option nat :=
  (h.1 - n, (fun x => x - n) <$> h.2).
Definition hint_zip (n : nat) (h : nat * option nat) : nat * option nat :=
  (Nat.min h.1 n, Some (match h.2 with Some x => Nat.min x n | None => n end)).

Section Generic.
Context {T : Type}.
Variable it : T -> istep -> option (R (T * sout)).

Definition none_like (x : istep) : sout := SElem None.

(** the inner size_hint, asked without changing the state *)
Definition inner_hint (t : T) : option (R (nat * option nat)) :=
  r ← it t ISizeHint;
  Some ('(_, o) ← r; match o with SHint lo hi => Ok (lo, hi) | _ => Fault Panic end).

Definition ad_step (a : adaptor) (left : nat) (t : T) (x : istep)
  : option (R (T * nat * sout)) :=
  match a with
  | ADirect => r ← it t x; Some ('(t', o) ← r; Ok (t', left, o))
  | ARev =>
      let x' := match x with
                | INext w u => INextBack w u
                | INextBack w u => INext w u
                | y => y
                end in
      r ← it t x'; Some ('(t', o) ← r; Ok (t', left, o))
  | ATake _ =>
      match x with
      | INext w u =>
          match left with
          | O => (* no call on the inner iterator *)
                 Some (Ok (t, 0, SElem None))
          | S left' => r ← it t x; Some ('(t', o) ← r; Ok (t', left', o))
          end
      | INextBack _ _ => None
      | ISizeHint =>
          r ← inner_hint t;
          Some (h ← r; let h' := hint_take left h in Ok (t, left, SHint h'.1 h'.2))
      | ILen =>
          r ← inner_hint t;
          Some (h ← r; Ok (t, left, SLen (exact_len (hint_take left h))))
      end
  | ASkip _ => None
  end.

Fixpoint it_run (a : adaptor) (left : nat) (t : T) (l : list istep) (acc : list sout)
  : option (R (T * list sout)) :=
  match l with
  | [] => Some (Ok (t, acc))
  | x :: l' =>
      match ad_step a left t x with
      | None => None
      | Some (Ok (t', left', o)) => it_run a left' t' l' (acc ++ [o])
      | Some (Unwound u) => Some (Unwound u)
      | Some (Fault f) => Some (Fault f)
      end
  end.

(** how a script ends: the iterator is dropped, leaked with mem::forget, or
    wrapped in an adaptor whose [len()] is asked *)
Inductive lenad := LTake (n : nat) | LSkip (n : nat) | LZip (n : nat)
                 | LRev | LEnumerate | LPeekable.
Definition adaptor_len (la : lenad) (t : T) : option (R (res unit nat)) :=
  match la with
  | LRev | LEnumerate =>
      (* these forward len() to the inner iterator *)
      r ← it t ILen;
      Some ('(_, o) ← r; match o with SLen n => Ok n | _ => Fault Panic end)
  | LTake n => r ← inner_hint t; Some (h ← r; Ok (exact_len (hint_take n h)))
  | LSkip n => r ← inner_hint t; Some (h ← r; Ok (exact_len (hint_skip n h)))
  | LZip n => r ← inner_hint t; Some (h ← r; Ok (exact_len (hint_zip n h)))
  | LPeekable => r ← inner_hint t; Some (h ← r; Ok (exact_len h))
  end.
End Generic.

Inductive iend := EDrop | EForget | ELen (la : lenad).

(** which calls an iterator type offers at all: [de] = it implements
    DoubleEndedIterator, [es] = ExactSizeIterator.  [Rev] needs [de];
    [Take<I>]/[Skip<I>]/[Zip]/[Peekable]/[Enumerate] are ExactSize only if
    [I] is, [Rev<I>] only if [I] is both. *)
Definition step_offered (de es : bool) (a : adaptor) (x : istep) : bool :=
  match a, x with
  | ASkip _, _ => false
  | ATake _, INextBack _ _ => false
  | _, INextBack _ _ => de
  | _, ILen => es
  | _, _ => true
  end.
Definition script_offered (de es : bool) (a : adaptor) (script : list istep) (e : iend) : bool :=
  (match a with ARev => de | _ => true end) &&
  forallb (step_offered de es a) script &&
  (match e with
   | ELen la =>
       match a with
       | ADirect => es && (match la with LRev => de | _ => true end)
       | _ => false
       end
   | _ => true
   end).

End Iter.

Arguments sout : clear implicits.
Arguments istep : clear implicits.
