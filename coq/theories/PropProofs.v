(** * PropProofs: the property-level statements of PropSpec.v, as corollaries
    of the per-operation statements of OpSpec.v (taken as hypotheses; they
    are proved in PQOps.v / DPQOps.v) and of the closed list-level and
    iterator theorems of ListProofs.v / IterProofs.v. *)
From PQV Require Export PropSpec.
From PQV Require Import ListProofs IterProofs.

Arguments Nat.mul : simpl never.
Arguments Nat.add : simpl never.
Arguments Nat.div : simpl never.

Section PropProofs.
Context {I P : Type}.
Variable keq : I -> I -> bool.
Variable hash : I -> N.
Variable ple : P -> P -> bool.
Variable peq : P -> P -> bool.
Variable alloc_limit : N.

Notation store := (store I P).
Notation al := (alookup keq hash).
Notation gio := (get_index_of keq hash).
Notation nodup := (nodup_keys keq).
Notation E := (I * P)%type.
Notation qinv := (qinv keq ple).

(** ** the per-operation statements used (proved in PQOps.v / DPQOps.v) *)
Hypothesis H_pq_push : pq_push_stmt keq hash ple.
Hypothesis H_pq_push_dir : pq_push_dir_stmt keq hash ple.
Hypothesis H_pq_change_priority : pq_change_priority_stmt keq hash ple.
Hypothesis H_pq_change_priority_by : pq_change_priority_by_stmt keq hash ple.
Hypothesis H_pq_remove : pq_remove_stmt keq hash ple.
Hypothesis H_pq_pop : pq_pop_stmt keq hash ple.
Hypothesis H_pq_pop_if : pq_pop_if_stmt keq hash ple.
Hypothesis H_pq_build : pq_build_stmt keq hash ple.
Hypothesis H_pq_retain : pq_retain_stmt keq hash ple.
Hypothesis H_pq_append : pq_append_stmt keq hash ple.
Hypothesis H_pq_from_vec : pq_from_vec_stmt keq hash ple.
Hypothesis H_pq_from_iter : pq_from_iter_stmt keq hash ple alloc_limit.
Hypothesis H_pq_deserialize : pq_deserialize_stmt keq hash ple.
Hypothesis H_pq_extend : pq_extend_stmt keq hash ple alloc_limit.
Hypothesis H_dpq_push : dpq_push_stmt keq hash ple.
Hypothesis H_dpq_push_dir : dpq_push_dir_stmt keq hash ple.
Hypothesis H_dpq_change_priority : dpq_change_priority_stmt keq hash ple.
Hypothesis H_dpq_change_priority_by : dpq_change_priority_by_stmt keq hash ple.
Hypothesis H_dpq_remove : dpq_remove_stmt keq hash ple.
Hypothesis H_dpq_pop : dpq_pop_stmt keq hash ple.
Hypothesis H_dpq_pop_if : dpq_pop_if_stmt keq hash ple.
Hypothesis H_dpq_build : dpq_build_stmt keq hash ple.
Hypothesis H_dpq_retain : dpq_retain_stmt keq hash ple.
Hypothesis H_dpq_append : dpq_append_stmt keq hash ple.
Hypothesis H_dpq_from_vec : dpq_from_vec_stmt keq hash ple.
Hypothesis H_dpq_from_iter : dpq_from_iter_stmt keq hash ple alloc_limit.
Hypothesis H_dpq_deserialize : dpq_deserialize_stmt keq hash ple.
Hypothesis H_dpq_extend : dpq_extend_stmt keq hash ple alloc_limit.
(** the store primitive behind get_mut (Inv.v) *)
Hypothesis H_set_entry_ok : @set_entry_ok_stmt I P keq hash.

(** ** the invariant of either kind *)
Lemma qinv_pq o s : qinv KPQ o s = pq_inv keq ple o s.
Proof. done. Qed.
Lemma qinv_dpq o s : qinv KDPQ o s = dpq_inv keq ple o s.
Proof. done. Qed.

Lemma qinv_WF k o s : qinv k o s -> WF keq s.
Proof. destruct k; intros (? & ? & ?); done. Qed.
Lemma qinv_nodup k o s : qinv k o s -> nodup (smap s).
Proof. intros (_ & _ & H)%qinv_WF. done. Qed.
Lemma qinv_fuse k o s : qinv k o s -> fuse s = None.
Proof. destruct k; intros (? & ? & ?); done. Qed.
Lemma qinv_size k o s : qinv k o s -> ssize s = length (smap s).
Proof. intros (H & _ & _)%qinv_WF. done. Qed.
(** an ordered queue is in particular a well-formed one *)
Lemma qinv_weaken k o s : qinv k true s -> qinv k o s.
Proof.
  destruct k; intros (H1 & H2 & H3); (split_and!; [done|done|]); intros _; by apply H3.
Qed.
(** without the order, the two kinds have the same invariant *)
Lemma qinv_false_kind k k' s : qinv k false s -> qinv k' false s.
Proof.
  intros H. pose proof (qinv_WF _ _ _ H). pose proof (qinv_fuse _ _ _ H).
  destruct k'; (split_and!; [done|done|]); intros ?; done.
Qed.
Lemma qinv_false_intro k s : WF keq s -> fuse s = None -> qinv k false s.
Proof. intros H1 H2. destruct k; (split_and!; [done|done|]); intros ?; done. Qed.

(** ** from slot-level effects to the association *)
Section Tr.
Hypothesis Hk : keq_ok keq hash.

Lemma gio_Some_e (m : list E) k i e :
  gio m k = Some i -> m !! i = Some e -> al m k = Some e /\ keq e.1 k = true.
Proof.
  intros Hg Hi. destruct (gio_Some_alookup keq hash Hk m k i Hg) as (e' & Hi' & Hal & Hek).
  by simplify_eq.
Qed.

Lemma upd_at (m : list E) k i e e' :
  nodup m -> gio m k = Some i -> m !! i = Some e -> keq e'.1 e.1 = true ->
  nodup (<[i := e']> m) /\
  forall j, al (<[i := e']> m) j = if keq k j then Some e' else al m j.
Proof.
  intros Hn Hg Hi He. destruct (gio_Some_e m k i e Hg Hi) as [_ Hek]. split.
  - by eapply (nodup_insert keq hash Hk).
  - intros j. rewrite (alookup_insert_eq keq hash Hk m i e e' j Hn Hi He).
    by rewrite (keq_congr_l keq hash Hk e.1 k j Hek).
Qed.

Lemma app_at (m : list E) k p :
  nodup m -> gio m k = None ->
  al m k = None /\ nodup (m ++ [(k, p)]) /\
  forall j, al (m ++ [(k, p)]) j = if keq k j then Some (k, p) else al m j.
Proof.
  intros Hn Hg. split; [by apply (gio_None_alookup keq hash Hk)|].
  destruct (alookup_app keq hash Hk m (k, p) k Hn Hg) as [Hn' _]. split; [done|].
  intros j. by destruct (alookup_app keq hash Hk m (k, p) j Hn Hg) as [_ ->].
Qed.

Lemma rem_at (m : list E) i e m' :
  nodup m -> map_swap_remove_index m i = Some (e, m') ->
  m !! i = Some e /\ al m e.1 = Some e /\ nodup m' /\
  forall j, al m' j = if keq e.1 j then None else al m j.
Proof.
  intros Hn Hs.
  assert (Hi : m !! i = Some e).
  { unfold map_swap_remove_index in Hs. destruct (m !! i), (last m); by simplify_eq. }
  split; [done|]. split.
  - apply (alookup_Some keq hash Hk); [done|]. split.
    + by eapply elem_of_list_lookup_2.
    + by apply (keq_refl keq hash Hk).
  - destruct (alookup_swap_remove keq hash Hk m i e m' e.1 Hn Hs) as (Hn' & _ & _).
    split; [done|]. intros j.
    by destruct (alookup_swap_remove keq hash Hk m i e m' j Hn Hs) as (_ & _ & ->).
Qed.

Lemma rem_at_key (m : list E) k i e m' :
  nodup m -> gio m k = Some i -> map_swap_remove_index m i = Some (e, m') ->
  al m k = Some e /\ nodup m' /\
  forall j, al m' j = if keq k j then None else al m j.
Proof.
  intros Hn Hg Hs. destruct (rem_at m i e m' Hn Hs) as (Hi & _ & Hn' & Hal).
  destruct (gio_Some_e m k i e Hg Hi) as [Hl Hek]. split_and!; [done..|].
  intros j. rewrite Hal. by rewrite (keq_congr_l keq hash Hk e.1 k j Hek).
Qed.
End Tr.

(** ** the operations of either kind (the per-operation hypotheses, without
    the comparison counts) *)
Section Ops.
Hypothesis Hk : keq_ok keq hash.
Hypothesis Ho : ord_ok ple.

Lemma q_push_op k o s i p : qinv k o s ->
  exists out s', q_push keq hash ple k s i p = Ok (out, s') /\ qinv k o s' /\
    match gio (smap s) i with
    | Some idx => exists e, smap s !! idx = Some e /\ out = Some e.2 /\
                            smap s' = <[idx := (e.1, p)]> (smap s)
    | None => out = None /\ smap s' = smap s ++ [(i, p)]
    end.
Proof.
  destruct k; intros Hq.
  - destruct (H_pq_push Hk Ho o s i p Hq) as (out & s' & ? & ? & _ & ?); eauto.
  - destruct (H_dpq_push Hk Ho o s i p Hq) as (out & s' & ? & ? & _ & ?); eauto.
Qed.

Lemma q_push_dir_op k (dir : bool) o s i p : qinv k o s ->
  exists out s', q_push_dir keq hash ple k dir s i p = Ok (out, s') /\ qinv k o s' /\
    match gio (smap s) i with
    | Some idx => exists e, smap s !! idx = Some e /\
        if (if dir then alt ple e.2 p else alt ple p e.2)
        then out = Some e.2 /\ smap s' = <[idx := (e.1, p)]> (smap s)
        else out = Some p /\ smap s' = smap s /\ heap s' = heap s /\ qp s' = qp s
    | None => out = None /\ smap s' = smap s ++ [(i, p)]
    end.
Proof.
  destruct k; intros Hq.
  - destruct (H_pq_push_dir Hk Ho dir o s i p Hq) as (out & s' & ? & ? & _ & ?).
    exists out, s'. by destruct dir.
  - destruct (H_dpq_push_dir Hk Ho dir o s i p Hq) as (out & s' & ? & ? & _ & ?).
    exists out, s'. by destruct dir.
Qed.

Lemma q_change_op k o s i p : qinv k o s ->
  exists out s', q_change keq hash ple k s i p = Ok (out, s') /\ qinv k o s' /\
    match gio (smap s) i with
    | Some idx => exists e, smap s !! idx = Some e /\ out = Some e.2 /\
                            smap s' = <[idx := (e.1, p)]> (smap s)
    | None => out = None /\ s' = s
    end.
Proof.
  destruct k; intros Hq.
  - destruct (H_pq_change_priority Hk Ho o s i p Hq) as (out & s' & ? & ? & _ & ?); eauto.
  - destruct (H_dpq_change_priority Hk Ho o s i p Hq) as (out & s' & ? & ? & _ & ?); eauto.
Qed.

Lemma q_change_by_op k o s i g : qinv k o s ->
  exists out s', q_change_by keq hash ple k s i g = Ok (out, s') /\ qinv k o s' /\
    match gio (smap s) i with
    | Some idx => exists e, smap s !! idx = Some e /\ out = true /\
                            smap s' = <[idx := (e.1, g e.2)]> (smap s)
    | None => out = false /\ s' = s
    end.
Proof.
  destruct k; intros Hq.
  - destruct (H_pq_change_priority_by Hk Ho o s i g Hq) as (out & s' & ? & ? & _ & ?); eauto.
  - destruct (H_dpq_change_priority_by Hk Ho o s i g Hq) as (out & s' & ? & ? & _ & ?); eauto.
Qed.

Lemma q_remove_op k o s i : qinv k o s ->
  exists out s', q_remove keq hash ple k s i = Ok (out, s') /\ qinv k o s' /\
    match gio (smap s) i with
    | Some idx => exists e, smap s !! idx = Some e /\ out = Some e /\
                            map_swap_remove_index (smap s) idx = Some (e, smap s')
    | None => out = None /\ s' = s
    end.
Proof.
  destruct k; intros Hq.
  - destruct (H_pq_remove Hk Ho o s i Hq) as (out & s' & ? & ? & _ & ?); eauto.
  - destruct (H_dpq_remove Hk Ho o s i Hq) as (out & s' & ? & ? & _ & ?); eauto.
Qed.

(** the entry the pop of that end takes *)
Definition q_top (k : kind) (mx : bool) (s : store) : option E :=
  match k, mx with
  | KPQ, _ => peek s
  | KDPQ, true => dpq_max_entry ple s
  | KDPQ, false => dpq_min_entry s
  end.

Lemma q_pop_op k mx o s : qinv k o s ->
  exists out s', q_pop ple k mx s = Ok (out, s') /\ qinv k o s' /\
    out = q_top k mx s /\
    match out with
    | Some e => exists idx, map_swap_remove_index (smap s) idx = Some (e, smap s')
    | None => smap s' = smap s /\ smap s = []
    end.
Proof.
  destruct k; intros Hq.
  - destruct (H_pq_pop Hk Ho o s Hq) as (out & s' & ? & ? & _ & ? & Hm).
    exists out, s'. split_and!; [done..|]. destruct out as [e|].
    + destruct Hm as (idx & _ & ?). eauto.
    + by destruct Hm as [-> ?].
  - destruct (H_dpq_pop Hk Ho mx o s Hq) as (out & s' & ? & ? & _ & ? & Hm).
    exists out, s'. split_and!; [by destruct mx|done|by destruct mx|]. destruct out as [e|].
    + destruct Hm as (pos & idx & _ & ?). eauto.
    + by destruct Hm as (? & _ & _ & ?).
Qed.

Lemma q_pop_if_op k mx o s f : pred_ok keq f -> qinv k o s ->
  exists out s', q_pop_if ple k mx s f = Ok (out, s') /\ qinv k o s' /\
    match q_top k mx s with
    | None => out = None /\ smap s' = smap s
    | Some e => exists idx, smap s !! idx = Some e /\
        let '(i', p', b) := f e.1 e.2 in
        if b : bool
        then out = Some (i', p') /\
             map_swap_remove_index (<[idx := (i', p')]> (smap s)) idx = Some ((i', p'), smap s')
        else out = None /\ smap s' = <[idx := (i', p')]> (smap s)
    end.
Proof.
  destruct k; intros Hf Hq.
  - destruct (H_pq_pop_if Hk Ho o s f Hf Hq) as (out & s' & ? & ? & _ & Hm).
    exists out, s'. split_and!; [done..|]. cbn [q_top]. destruct (peek s) as [e|].
    + destruct Hm as (idx & _ & ? & ?). eauto.
    + by destruct Hm as [-> ->].
  - destruct (H_dpq_pop_if Hk Ho mx o s f Hf Hq) as (out & s' & ? & ? & _ & Hm).
    exists out, s'. split_and!; [by destruct mx|done|].
    assert (Hsame : q_top KDPQ mx s = if mx then dpq_max_entry ple s else dpq_min_entry s)
      by (by destruct mx).
    rewrite Hsame. destruct (if mx then dpq_max_entry ple s else dpq_min_entry s) as [e|].
    + destruct Hm as (pos & idx & _ & ? & ?). eauto.
    + by destruct Hm as (-> & -> & _).
Qed.

Lemma q_build_op k s : qinv k false s ->
  exists s', q_build ple k s = Ok s' /\ qinv k true s' /\ smap s' = smap s.
Proof.
  destruct k; intros Hq.
  - destruct (H_pq_build Hk Ho s Hq) as (s' & ? & ? & ? & _); eauto.
  - destruct (H_dpq_build Hk Ho s Hq) as (s' & ? & ? & ? & _); eauto.
Qed.

End Ops.

(** ** C03 *)
Theorem C03_contents_thm : C03_contents_stmt keq hash ple.
Proof.
  intros Hk k o s Hq. split_and!.
  - by eapply qinv_nodup.
  - by eapply qinv_size.
  - done.
  - done.
Qed.

Theorem C03_push_thm : C03_push_stmt keq hash ple.
Proof.
  intros Hk Ho k o s i p Hq.
  destruct (q_push_op Hk Ho k o s i p Hq) as (out & s' & Hrun & Hq' & Heff).
  exists out, s'. split_and!; [done..| |];
    pose proof (qinv_nodup _ _ _ Hq) as Hn;
    destruct (gio (smap s) i) as [idx|] eqn:Hg.
  - destruct Heff as (e & He & -> & _).
    destruct (gio_Some_e Hk _ _ _ _ Hg He) as [-> _]. done.
  - destruct Heff as (-> & _). by destruct (app_at Hk (smap s) i p Hn Hg) as (-> & _).
  - destruct Heff as (e & He & _ & ->).
    destruct (gio_Some_e Hk _ _ _ _ Hg He) as [-> _].
    apply (upd_at Hk (smap s) i idx e (e.1, p) Hn Hg He). by apply (keq_refl keq hash Hk).
  - destruct Heff as (_ & ->). by destruct (app_at Hk (smap s) i p Hn Hg) as (-> & _ & ?).
Qed.

Theorem C03_change_thm : C03_change_stmt keq hash ple.
Proof.
  intros Hk Ho k o s i p Hq.
  destruct (q_change_op Hk Ho k o s i p Hq) as (out & s' & Hrun & Hq' & Heff).
  exists out, s'. split_and!; [done..| |];
    pose proof (qinv_nodup _ _ _ Hq) as Hn;
    destruct (gio (smap s) i) as [idx|] eqn:Hg.
  - destruct Heff as (e & He & -> & _).
    destruct (gio_Some_e Hk _ _ _ _ Hg He) as [-> _]. done.
  - destruct Heff as (-> & _). by apply (gio_None_alookup keq hash Hk) in Hg as ->.
  - destruct Heff as (e & He & _ & ->).
    destruct (gio_Some_e Hk _ _ _ _ Hg He) as [-> _].
    apply (upd_at Hk (smap s) i idx e (e.1, p) Hn Hg He). by apply (keq_refl keq hash Hk).
  - destruct Heff as (_ & ->). by apply (gio_None_alookup keq hash Hk) in Hg as ->.
Qed.

Theorem C03_change_by_thm : C03_change_by_stmt keq hash ple.
Proof.
  intros Hk Ho k o s i g Hq.
  destruct (q_change_by_op Hk Ho k o s i g Hq) as (out & s' & Hrun & Hq' & Heff).
  exists out, s'. split_and!; [done..| |];
    pose proof (qinv_nodup _ _ _ Hq) as Hn;
    destruct (gio (smap s) i) as [idx|] eqn:Hg.
  - destruct Heff as (e & He & -> & _).
    destruct (gio_Some_e Hk _ _ _ _ Hg He) as [-> _].
    symmetry. by apply bool_decide_eq_true.
  - destruct Heff as (-> & _). apply (gio_None_alookup keq hash Hk) in Hg as ->.
    symmetry. apply bool_decide_eq_false. by intros [? ?].
  - destruct Heff as (e & He & _ & ->).
    destruct (gio_Some_e Hk _ _ _ _ Hg He) as [-> _].
    apply (upd_at Hk (smap s) i idx e (e.1, g e.2) Hn Hg He). by apply (keq_refl keq hash Hk).
  - destruct Heff as (_ & ->). by apply (gio_None_alookup keq hash Hk) in Hg as ->.
Qed.

Theorem C03_remove_thm : C03_remove_stmt keq hash ple.
Proof.
  intros Hk Ho k o s i Hq.
  destruct (q_remove_op Hk Ho k o s i Hq) as (out & s' & Hrun & Hq' & Heff).
  exists out, s'. split_and!; [done..| |];
    pose proof (qinv_nodup _ _ _ Hq) as Hn;
    destruct (gio (smap s) i) as [idx|] eqn:Hg.
  - destruct Heff as (e & He & -> & _).
    destruct (gio_Some_e Hk _ _ _ _ Hg He) as [-> _]. done.
  - destruct Heff as (-> & _). by apply (gio_None_alookup keq hash Hk) in Hg as ->.
  - destruct Heff as (e & He & _ & Hs).
    by destruct (rem_at_key Hk (smap s) i idx e (smap s') Hn Hg Hs) as (-> & _ & ?).
  - destruct Heff as (_ & ->). by apply (gio_None_alookup keq hash Hk) in Hg as ->.
Qed.

Theorem C03_pop_thm : C03_pop_stmt keq hash ple.
Proof.
  intros Hk Ho k mx o s Hq.
  destruct (q_pop_op Hk Ho k mx o s Hq) as (out & s' & Hrun & Hq' & _ & Heff).
  exists out, s'. split_and!; [done..|].
  pose proof (qinv_nodup _ _ _ Hq) as Hn. destruct out as [e|].
  - destruct Heff as (idx & Hs).
    by destruct (rem_at Hk (smap s) idx e (smap s') Hn Hs) as (_ & ? & _ & ?).
  - destruct Heff as [-> ->]. done.
Qed.

(** ** C11 *)
Theorem C11_thm : C11_stmt keq hash ple.
Proof.
  intros Hk Ho k dir o s i p Hq.
  destruct (q_push_dir_op Hk Ho k dir o s i p Hq) as (out & s' & Hrun & Hq' & Heff).
  exists out, s'. split_and!; [done..|].
  pose proof (qinv_nodup _ _ _ Hq) as Hn.
  destruct (gio (smap s) i) as [idx|] eqn:Hg.
  - destruct Heff as (e & He & Heff).
    destruct (gio_Some_e Hk _ _ _ _ Hg He) as [-> _].
    destruct (if dir then alt ple e.2 p else alt ple p e.2); [|done].
    destruct Heff as [-> ->]. split; [done|].
    apply (upd_at Hk (smap s) i idx e (e.1, p) Hn Hg He). by apply (keq_refl keq hash Hk).
  - destruct Heff as (-> & ->).
    by destruct (app_at Hk (smap s) i p Hn Hg) as (-> & _ & ?).
Qed.

(** ** C12 *)
Theorem C12_thm : C12_stmt keq hash ple.
Proof.
  intros Hk Ho k o s i p g dir Hq. split_and!.
  - intros out s' Hrun j e Hj.
    destruct (C03_push_thm Hk Ho k o s i p Hq) as (out0 & s0 & Hrun0 & _ & _ & Hal).
    rewrite Hrun in Hrun0. simplify_eq. rewrite Hal.
    destruct (keq i j) eqn:Hij; [|by rewrite Hj].
    rewrite (alookup_keq keq hash Hk _ i j Hij), Hj. done.
  - intros out s' Hrun j e Hj.
    destruct (C11_thm Hk Ho k dir o s i p Hq) as (out0 & s0 & Hrun0 & _ & Hal).
    rewrite Hrun in Hrun0. simplify_eq.
    destruct (keq i j) eqn:Hij.
    + rewrite (alookup_keq keq hash Hk (smap s) i j Hij), Hj in Hal.
      destruct (if dir then alt ple e.2 p else alt ple p e.2).
      * destruct Hal as [_ Hal]. rewrite Hal, Hij. done.
      * destruct Hal as (_ & -> & _). by rewrite Hj.
    + destruct (al (smap s) i) as [e0|].
      * destruct (if dir then alt ple e0.2 p else alt ple p e0.2).
        -- destruct Hal as [_ Hal]. rewrite Hal, Hij, Hj. done.
        -- destruct Hal as (_ & -> & _). by rewrite Hj.
      * destruct Hal as [_ Hal]. rewrite Hal, Hij, Hj. done.
  - intros out s' Hrun j.
    destruct (C03_change_thm Hk Ho k o s i p Hq) as (out0 & s0 & Hrun0 & _ & _ & Hal).
    rewrite Hrun in Hrun0. simplify_eq. rewrite Hal.
    destruct (al (smap s) i) as [e|] eqn:Hi; [|done].
    destruct (keq i j) eqn:Hij; [|done].
    rewrite <- (alookup_keq keq hash Hk (smap s) i j Hij), Hi. done.
  - intros out s' Hrun j.
    destruct (C03_change_by_thm Hk Ho k o s i g Hq) as (out0 & s0 & Hrun0 & _ & _ & Hal).
    rewrite Hrun in Hrun0. simplify_eq. rewrite Hal.
    destruct (al (smap s) i) as [e|] eqn:Hi; [|done].
    destruct (keq i j) eqn:Hij; [|done].
    rewrite <- (alookup_keq keq hash Hk (smap s) i j Hij), Hi. done.
  - intros out s' Hrun j Hij.
    destruct (C03_remove_thm Hk Ho k o s i Hq) as (out0 & s0 & Hrun0 & _ & _ & Hal).
    rewrite Hrun in Hrun0. simplify_eq. rewrite Hal, Hij.
    by destruct (al (smap s) i).
Qed.

(** rewriting one entry without touching its priority keeps either order *)
Lemma heap_ord_same_prio (l : list E) pos e e' :
  l !! pos = Some e -> e'.2 = e.2 ->
  heap_ord snd ple l -> heap_ord snd ple (<[pos := e']> l).
Proof.
  intros Hpos He H c xc xp Hc Hxc Hxp.
  assert (Hsame : forall n x, <[pos := e']> l !! n = Some x ->
            exists y, l !! n = Some y /\ y.2 = x.2).
  { intros n x Hn. destruct (decide (n = pos)) as [-> | Hne].
    - rewrite list_lookup_insert in Hn by (by eapply lookup_lt_Some).
      simplify_eq. eauto.
    - rewrite list_lookup_insert_ne in Hn by done. eauto. }
  destruct (Hsame _ _ Hxc) as (yc & Hyc & <-).
  destruct (Hsame _ _ Hxp) as (yp & Hyp & <-).
  by eapply H.
Qed.
Lemma minmax_ord_same_prio (l : list E) pos e e' :
  l !! pos = Some e -> e'.2 = e.2 ->
  minmax_ord snd ple l -> minmax_ord snd ple (<[pos := e']> l).
Proof.
  intros Hpos He H i c xi xc Hic Hxi Hxc.
  assert (Hsame : forall n x, <[pos := e']> l !! n = Some x ->
            exists y, l !! n = Some y /\ y.2 = x.2).
  { intros n x Hn. destruct (decide (n = pos)) as [-> | Hne].
    - rewrite list_lookup_insert in Hn by (by eapply lookup_lt_Some).
      simplify_eq. eauto.
    - rewrite list_lookup_insert_ne in Hn by done. eauto. }
  destruct (Hsame _ _ Hxi) as (yi & Hyi & <-).
  destruct (Hsame _ _ Hxc) as (yc & Hyc & <-).
  by apply (H i c yi yc Hic Hyi Hyc).
Qed.

(** writing through get_mut inside the Eq class of the entry *)
Lemma set_item_qinv (Hk : keq_ok keq hash) k o s idx e x :
  qinv k o s -> smap s !! idx = Some e -> keq x e.1 = true ->
  qinv k o (set_map s (<[idx := (x, e.2)]> (smap s))).
Proof.
  intros Hq He Hx.
  pose proof (qinv_WF _ _ _ Hq) as Hwf. pose proof (qinv_fuse _ _ _ Hq) as Hfu.
  assert (Hpos : exists pos, qp s !! idx = Some pos).
  { apply lookup_lt_is_Some_2. destruct Hwf as (Hl & (_ & Hlq & _) & _).
    rewrite Hlq, <- Hl. by eapply lookup_lt_Some. }
  destruct Hpos as [pos Hpos].
  destruct (H_set_entry_ok Hk s idx e (x, e.2) pos Hwf He Hpos Hx) as [Hwf' Hev].
  destruct (H_set_entry_ok Hk s idx e e pos Hwf He Hpos (keq_refl keq hash Hk _)) as [_ Hev0].
  rewrite (list_insert_id (smap s) idx e He) in Hev0.
  assert (Hs0 : set_map s (smap s) = s) by (by destruct s). rewrite Hs0 in Hev0.
  set (s' := set_map s (<[idx := (x, e.2)]> (smap s))) in *.
  assert (Hord : forall (ord : list E -> Prop),
     (forall l p0 a a', l !! p0 = Some a -> a'.2 = a.2 -> ord l -> ord (<[p0 := a']> l)) ->
     ord (eview s) -> ord (eview s')).
  { intros ord Hstep H. rewrite Hev.
    destruct (decide (pos < length (eview s))) as [Hlt | Hge].
    - apply (Hstep _ _ e); [|done|done].
      rewrite Hev0. by apply list_lookup_insert.
    - rewrite list_insert_ge by lia. done. }
  destruct k.
  - destruct Hq as (_ & _ & H3). split_and!; [done|done|]. intros Ht.
    apply (Hord (heap_ord snd ple)); [apply heap_ord_same_prio|by apply H3].
  - destruct Hq as (_ & _ & H3). split_and!; [done|done|]. intros Ht.
    apply (Hord (minmax_ord snd ple)); [apply minmax_ord_same_prio|by apply H3].
Qed.

Theorem C12_get_mut_thm : C12_get_mut_stmt keq hash ple.
Proof.
  intros Hk k o s i u Hu Hq. unfold get_mut.
  pose proof (qinv_nodup _ _ _ Hq) as Hn.
  destruct (gio (smap s) i) as [idx|] eqn:Hg.
  - destruct (gio_Some_alookup keq hash Hk _ _ _ Hg) as (e & He & Hal & Hek).
    rewrite He, Hal. split; [by apply set_item_qinv|]. split; [done|].
    cbn [smap set_map].
    apply (upd_at Hk (smap s) i idx e (u e.1, e.2) Hn Hg He). apply Hu.
  - apply (gio_None_alookup keq hash Hk) in Hg. rewrite Hg. done.
Qed.

(** ** C07 *)
Lemma nodup_nil' : nodup ([] : list E).
Proof. intros i j ei ej H. done. Qed.

Theorem C07_from_vec_thm : C07_from_vec_stmt keq hash ple.
Proof.
  intros Hk Ho k l.
  assert (Hl : forall s' : store, smap s' = append_list keq hash [] l ->
            forall j, al (smap s') j = first_of keq l j).
  { intros s' -> j.
    by destruct (append_list_ok keq hash Hk [] l j nodup_nil') as [_ ->]. }
  destruct k.
  - destruct (H_pq_from_vec Hk Ho l) as (s' & ? & ? & ? & _).
    exists s'. split_and!; [done|done|by apply Hl].
  - destruct (H_dpq_from_vec Hk Ho l) as (s' & ? & ? & ? & _).
    exists s'. split_and!; [done|done|by apply Hl].
Qed.

Theorem C07_from_iter_thm : C07_from_iter_stmt keq hash ple alloc_limit.
Proof.
  intros Hk Ho k l h Hh.
  assert (Hl : forall s' : store, smap s' = extend_list keq hash [] l ->
            forall j, al (smap s') j = last_of keq l j).
  { intros s' -> j.
    destruct (extend_list_ok keq hash Hk [] l j nodup_nil') as [_ ->].
    by destruct (last_of keq l j). }
  destruct k.
  - destruct (H_pq_from_iter Hk Ho l h Hh) as (s' & ? & ? & ? & _).
    exists s'. split_and!; [done|done|by apply Hl].
  - destruct (H_dpq_from_iter Hk Ho l h Hh) as (s' & ? & ? & ? & _).
    exists s'. split_and!; [done|done|by apply Hl].
Qed.

Theorem C07_extend_thm : C07_extend_stmt keq hash ple alloc_limit.
Proof.
  intros Hk Ho k o s l h Hq Hlim.
  pose proof (qinv_nodup _ _ _ Hq) as Hn.
  assert (Hl : forall s' : store,
            smap s' = extend_list keq hash (smap s) l \/ smap s' = push_list keq hash (smap s) l ->
            forall j, snd <$> al (smap s') j =
              match last_of keq l j with Some e => Some e.2 | None => snd <$> al (smap s) j end).
  { intros s' [-> | ->] j.
    - destruct (extend_list_ok keq hash Hk (smap s) l j Hn) as [_ ->].
      by destruct (last_of keq l j).
    - by destruct (push_list_ok keq hash Hk (smap s) l j Hn) as (_ & -> & _). }
  destruct k.
  - destruct (H_pq_extend Hk Ho o s l h Hq Hlim) as (s' & Hrun & Hinv & Hm).
    exists s'. split_and!; [done| |by apply Hl].
    destruct Hinv as [H | [H _] ]; [by apply (qinv_weaken KPQ)|done].
  - destruct (H_dpq_extend Hk Ho o s l h Hq Hlim) as (s' & Hrun & Hinv & Hm).
    exists s'. split_and!; [done| |by apply Hl].
    destruct Hinv as [H | [H _] ]; [by apply (qinv_weaken KDPQ)|done].
Qed.

Theorem C07_append_thm : C07_append_stmt keq hash ple.
Proof.
  intros Hk Ho k s o Hs Hoo.
  pose proof (qinv_nodup _ _ _ Hs) as Hns. pose proof (qinv_nodup _ _ _ Hoo) as Hno.
  assert (Hl : forall s' : store,
            smap s' = (if decide (ssize s < ssize o) then append_list keq hash (smap o) (smap s)
                       else append_list keq hash (smap s) (smap o)) ->
            forall j, al (smap s') j =
              if decide (ssize s < ssize o)
              then match al (smap o) j with Some e => Some e | None => al (smap s) j end
              else match al (smap s) j with Some e => Some e | None => al (smap o) j end).
  { intros s' -> j. destruct (decide (ssize s < ssize o)).
    - destruct (append_list_ok keq hash Hk (smap o) (smap s) j Hno) as [_ ->].
      by rewrite (alookup_first keq hash Hk (smap s) j).
    - destruct (append_list_ok keq hash Hk (smap s) (smap o) j Hns) as [_ ->].
      by rewrite (alookup_first keq hash Hk (smap o) j). }
  destruct k.
  - destruct (H_pq_append Hk Ho s o Hs Hoo) as (s' & o' & ? & ? & ? & ? & Hm & _).
    exists s', o'. split_and!; [done..|by apply Hl].
  - destruct (H_dpq_append Hk Ho s o Hs Hoo) as (s' & o' & ? & ? & ? & ? & Hm & _).
    exists s', o'. split_and!; [done..|by apply Hl].
Qed.

Theorem C07_convert_thm : C07_convert_stmt keq hash ple.
Proof.
  intros Hk Ho k k' s Hq. apply (q_build_op Hk Ho). by eapply qinv_false_kind.
Qed.

(** ** C08 *)
Theorem C08_retain_thm : C08_retain_stmt keq hash ple.
Proof.
  intros Hk Ho k s f Hf Hq. destruct k.
  - destruct (H_pq_retain Hk Ho s f Hf Hq) as (s' & ? & ? & ? & _). eauto.
  - destruct (H_dpq_retain Hk Ho s f Hf Hq) as (s' & ? & ? & ? & _). eauto.
Qed.

Theorem C08_pop_if_thm : C08_pop_if_stmt keq hash ple.
Proof.
  intros Hk Ho k mx o s f Hf Hq.
  destruct (q_pop_if_op Hk Ho k mx o s f Hf Hq) as (out & s' & Hrun & Hq' & Heff).
  destruct (q_pop_op Hk Ho k mx o s Hq) as (out0 & s0 & Hrun0 & _ & Htop & _).
  exists out, s'. split_and!; [done..|]. rewrite Hrun0. rewrite <- Htop in Heff.
  destruct out0 as [e|]; [|done].
  destruct Heff as (idx & He & Heff).
  pose proof (qinv_nodup _ _ _ Hq) as Hn.
  assert (Hg : keq (f e.1 e.2).1.1 e.1 = true) by apply Hf.
  destruct (f e.1 e.2) as [ [i' p'] b]. cbn [fst snd] in Hg.
  assert (Hg' : keq (i', p').1 e.1 = true) by done.
  destruct b.
  - destruct Heff as [-> Hs]. split; [done|]. intros j.
    pose proof (nodup_insert keq hash Hk (smap s) idx e (i', p') Hn He Hg') as Hn1.
    destruct (rem_at Hk _ idx (i', p') (smap s') Hn1 Hs) as (_ & _ & _ & ->). cbn [fst].
    rewrite (alookup_insert_eq keq hash Hk (smap s) idx e (i', p') j Hn He Hg').
    rewrite (keq_congr_l keq hash Hk i' e.1 j Hg). by destruct (keq e.1 j).
  - destruct Heff as [-> ->]. split; [done|]. intros j.
    by apply (alookup_insert_eq keq hash Hk).
Qed.

Theorem C08_itermut_thm : C08_itermut_stmt keq hash ple.
Proof.
  intros Hk Ho k a lft s script s1 st outs Hq Hsc Hrun.
  destruct (itermut_ok k a lft s script s1 st outs Hrun)
    as (Hnd & Hy & Hrest & _ & _ & _ & _ & _ & Hfu & _).
  pose proof (itermut_wf keq hash Hk k a lft s script s1 st outs (qinv_WF _ _ _ Hq) Hsc Hrun)
    as Hwf.
  assert (Hq1 : qinv k false s1).
  { apply qinv_false_intro; [done|]. rewrite Hfu. by eapply qinv_fuse. }
  destruct (q_build_op Hk Ho k s1 Hq1) as (s' & Hb & Hq' & Hm).
  exists s'. rewrite Hm. split_and!; done.
Qed.

(** ** C14, C15 *)
Theorem C14_eq_thm : C14_eq_stmt keq hash ple peq.
Proof.
  intros Hk Hpeq k o1 o2 a b Ha Hb.
  apply (store_eq_ok keq hash peq Hk Hpeq); by eapply qinv_nodup.
Qed.

Theorem C15_roundtrip_thm : C15_roundtrip_stmt keq hash ple peq.
Proof.
  intros Hk Ho Hpeq k k' o s Hq. pose proof (qinv_nodup _ _ _ Hq) as Hn.
  assert (Hl : forall s' : store, smap s' = visit_list keq hash (serialize s) ->
            smap s' = smap s /\ store_eq keq hash peq s s' = true).
  { intros s' Hm. unfold serialize in Hm.
    rewrite (visit_list_id keq hash Hk (smap s) Hn) in Hm. split; [done|].
    apply (store_eq_ok keq hash peq Hk Hpeq s s'); [done|by rewrite Hm|].
    intros j. by rewrite Hm. }
  destruct k'.
  - destruct (H_pq_deserialize Hk Ho (serialize s)) as (s' & ? & ? & Hm & _).
    exists s'. destruct (Hl s' Hm). done.
  - destruct (H_dpq_deserialize Hk Ho (serialize s)) as (s' & ? & ? & Hm & _).
    exists s'. destruct (Hl s' Hm). done.
Qed.

Theorem C15_total_thm : C15_total_stmt keq hash ple.
Proof.
  intros Hk Ho k l.
  assert (Hl : forall s' : store, smap s' = visit_list keq hash l ->
            forall j, snd <$> al (smap s') j = snd <$> last_of keq l j).
  { intros s' -> j. by destruct (visit_list_ok keq hash Hk l j) as (_ & -> & _). }
  destruct k.
  - destruct (H_pq_deserialize Hk Ho l) as (s' & ? & Hq & Hm & _).
    exists s'. split_and!; [done|done|by eapply (qinv_size KPQ true)|by apply Hl].
  - destruct (H_dpq_deserialize Hk Ho l) as (s' & ? & Hq & Hm & _).
    exists s'. split_and!; [done|done|by eapply (qinv_size KDPQ true)|by apply Hl].
Qed.

(** ** C16, C17, C18 *)
Theorem C16_thm : C16_stmt keq ple.
Proof.
  intros k o s Hq. pose proof (qinv_fuse _ _ _ Hq) as Hfu.
  assert (Hwf : WF keq (clear s)).
  { split_and!; done. }
  split_and!; try done.
  destruct k; (split_and!; [done|done|]); intros _.
  - intros c xc xp _ H. done.
  - intros i c xi xc _ H. done.
Qed.

Theorem C17_thm : @C17_stmt I P alloc_limit.
Proof.
  intros s n. unfold reserve, try_reserve, shrink_to_fit.
  assert (Hc : forall c, same_but_cap s (set_cap s c)) by (intros c; by split_and!).
  split; [|split; [|split] ].
  - intros s'. destruct (decide _); intros H; simplify_eq. split; [done|]. cbn. lia.
  - by destruct (decide _).
  - destruct (decide _).
    + split; [done|]. cbn. lia.
    + split; [by split_and!|done].
  - done.
Qed.

Theorem C18_lookup_thm : @C18_lookup_stmt I P keq.
Proof.
  intros h1 h2 H1 H2 m k. by rewrite (gio_find keq h1 H1), (gio_find keq h2 H2).
Qed.

End PropProofs.

Print Assumptions C03_contents_thm.
Print Assumptions C03_push_thm.
Print Assumptions C03_change_thm.
Print Assumptions C03_change_by_thm.
Print Assumptions C03_remove_thm.
Print Assumptions C03_pop_thm.
Print Assumptions C11_thm.
Print Assumptions C12_thm.
Print Assumptions C12_get_mut_thm.
Print Assumptions C07_from_vec_thm.
Print Assumptions C07_from_iter_thm.
Print Assumptions C07_extend_thm.
Print Assumptions C07_append_thm.
Print Assumptions C07_convert_thm.
Print Assumptions C08_retain_thm.
Print Assumptions C08_pop_if_thm.
Print Assumptions C08_itermut_thm.
Print Assumptions C14_eq_thm.
Print Assumptions C15_roundtrip_thm.
Print Assumptions C15_total_thm.
Print Assumptions C16_thm.
Print Assumptions C17_thm.
Print Assumptions C18_lookup_thm.
