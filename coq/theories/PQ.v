(** * PQ: the model of src/priority_queue/mod.rs (binary max-heap) *)
From PQV Require Export Store.

Section PQ.
Context {I P : Type}.
Variable keq : I -> I -> bool.
Variable hash : I -> N.
Variable ple : P -> P -> bool.
Variable alloc_limit : N.

Notation store := (store I P).
Notation R := (res store).
Notation cmp_lt := (cmp_lt ple).

(** ** heapify (mod.rs:700).  One round: the largest of [i] and its children,
    comparing exactly as the code does ([child > largest], left first). *)
Definition pick_largest (s : store) (i : nat) : R (nat * store) :=
  pi ← prio_at s i;
  let l := left i in
  if decide (l < ssize s) then
    pl ← prio_at s l;
    '(b, s1) ← cmp_lt s pi pl;
    let '(largest, lp) := if b : bool then (l, pl) else (i, pi) in
    let r := right i in
    if decide (r < ssize s1) then
      pr ← prio_at s1 r;
      '(b2, s2) ← cmp_lt s1 lp pr;
      Ok (if b2 : bool then r else largest, s2)
    else Ok (largest, s1)
  else Ok (i, s).

Fixpoint heapify_loop (fuel : nat) (s : store) (i : nat) : R store :=
  match fuel with
  | O => Fault OutOfFuel
  | S fuel' =>
      '(largest, s1) ← pick_largest s i;
      if decide (largest = i) then Ok s1
      else s2 ← swap s1 i largest; heapify_loop fuel' s2 largest
  end.

Definition heapify (s : store) (i : nat) : R store :=
  if decide (ssize s <= 1) then Ok s else heapify_loop (S (ssize s)) s i.

(** ** bubble_up (mod.rs): moving-hole sift-up.  The hole is a drop guard
    (store.rs, [Hole]): when a comparison unwinds, the carried slot [idx] is
    written back into the vacant position first. *)
Definition fill_hole (s : store) (pos idx : nat) : store :=
  set_qp (set_heap s (<[pos := idx]> (heap s))) (<[idx := pos]> (qp s)).

Definition cmp_lt_hole (s : store) (pos idx : nat) (a b : P) : R (bool * store) :=
  match cmp_lt s a b with
  | Unwound u => Unwound (fill_hole u pos idx)
  | r => r
  end.

Fixpoint bubble_up_loop (fuel : nat) (s : store) (pos idx : nat) (p : P)
  : R (nat * store) :=
  match fuel with
  | O => Fault OutOfFuel
  | S fuel' =>
      match pos with
      | O => Ok (pos, s)
      | S _ =>
          par ← parent pos;
          pp ← prio_at s par;
          '(b, s1) ← cmp_lt_hole s pos idx pp p;
          if b : bool then
            pidx ← getu (heap s1) par;
            h ← setu (heap s1) pos pidx;
            q ← setu (qp s1) pidx pos;
            bubble_up_loop fuel' (set_qp (set_heap s1 h) q) par idx p
          else Ok (pos, s1)
      end
  end.

Definition bubble_up (s : store) (pos idx : nat) : R (nat * store) :=
  e ← unwrap (smap s !! idx);
  '(pos', s1) ← bubble_up_loop (S pos) s pos idx e.2;
  h ← setu (heap s1) pos' idx;
  q ← setu (qp s1) idx pos';
  Ok (pos', set_qp (set_heap s1 h) q).

(** ** up_heapify (mod.rs:773) *)
Definition up_heapify (s : store) (i : nat) : R store :=
  tmp ← getu (heap s) i;
  '(pos, s1) ← bubble_up s i tmp;
  heapify s1 pos.

(** ** heap_build (mod.rs:783): for i in (0..=parent(len)).rev() *)
Fixpoint heap_build_loop (s : store) (n : nat) : R store :=
  (* heapify n-1, ..., 0 *)
  match n with
  | O => Ok s
  | S k => s1 ← heapify s k; heap_build_loop s1 k
  end.

Definition heap_build (s : store) : R store :=
  if decide (ssize s = 0) then Ok s
  else top ← parent (ssize s); heap_build_loop s (S top).

(** ** public operations *)

(** peek (mod.rs:193): [heap.first().and_then(|i| map.get_index(i))] *)
Definition peek (s : store) : option (I * P) :=
  i ← heap s !! 0; smap s !! i.

(** peek_mut (mod.rs:639) *)
Definition peek_mut (s : store) (u : I -> I) : R (option (I * P) * store) :=
  if decide (ssize s = 0) then Ok (None, s)
  else
    i ← getu (heap s) 0;
    match smap s !! i with
    | None => Ok (None, s)
    | Some e => Ok (Some (u e.1, e.2), set_map s (<[i := (u e.1, e.2)]> (smap s)))
    end.

(** pop (mod.rs:297) *)
Definition pop (s : store) : R (option (I * P) * store) :=
  match ssize s with
  | 0 => Ok (None, s)
  | 1 => swap_remove s 0
  | _ => '(r, s1) ← swap_remove s 0; s2 ← heapify s1 0; Ok (r, s2)
  end.

(** pop_if (mod.rs:395) *)
Definition pop_if (s : store) (f : I -> P -> I * P * bool)
  : R (option (I * P) * store) :=
  match ssize s with
  | 0 => Ok (None, s)
  | 1 => swap_remove_if s 0 f
  | _ => '(r, s1) ← swap_remove_if s 0 f; s2 ← heapify s1 0; Ok (r, s2)
  end.

(** push (mod.rs:429).  Occupied: the priority is replaced, the stored item
    stays; Vacant: appended to the map and the tables, [size] incremented,
    then sifted up. *)
Definition push (s : store) (k : I) (p : P) : R (option P * store) :=
  match get_index_of keq hash (smap s) k with
  | Some i =>
      e ← unwrap (smap s !! i);
      let s1 := set_map s (<[i := (e.1, p)]> (smap s)) in
      pos ← getu (qp s1) i;
      s2 ← up_heapify s1 pos;
      Ok (Some e.2, s2)
  | None =>
      let s1 := set_map s (smap s ++ [(k, p)]) in
      let i := ssize s1 in
      let s2 := set_size (set_heap (set_qp s1 (qp s1 ++ [i])) (heap s1 ++ [i])) (S i) in
      '(_, s3) ← bubble_up s2 i i;
      Ok (None, s3)
  end.

(** push_increase / push_decrease (mod.rs:488, :526): [priority > *p] *)
Definition push_increase (s : store) (k : I) (p : P) : R (option P * store) :=
  match get_priority keq hash s k with
  | None => push s k p
  | Some old =>
      '(b, s1) ← cmp_lt s old p;
      if b : bool then push s1 k p else Ok (Some p, s1)
  end.

Definition push_decrease (s : store) (k : I) (p : P) : R (option P * store) :=
  match get_priority keq hash s k with
  | None => push s k p
  | Some old =>
      '(b, s1) ← cmp_lt s p old;
      if b : bool then push s1 k p else Ok (Some p, s1)
  end.

(** change_priority (mod.rs:554) *)
Definition pq_change_priority (s : store) (k : I) (p : P) : R (option P * store) :=
  '(r, s1) ← change_priority keq hash s k p;
  match r with
  | None => Ok (None, s1)
  | Some (old, pos) => s2 ← up_heapify s1 pos; Ok (Some old, s2)
  end.

(** change_priority_by (mod.rs:576) *)
Definition pq_change_priority_by (s : store) (k : I) (g : P -> P) : R (bool * store) :=
  '(r, s1) ← change_priority_by keq hash s k g;
  match r with
  | None => Ok (false, s1)
  | Some pos => s2 ← up_heapify s1 pos; Ok (true, s2)
  end.

(** remove (mod.rs:656) *)
Definition pq_remove (s : store) (k : I) : R (option (I * P) * store) :=
  '(r, s1) ← remove keq hash s k;
  match r with
  | None => Ok (None, s1)
  | Some (i, p, pos) =>
      s2 ← (if decide (pos < ssize s1) then up_heapify s1 pos else Ok s1);
      Ok (Some (i, p), s2)
  end.

(** retain / retain_mut (mod.rs:338, :359) *)
Definition pq_retain_mut (s : store) (f : I -> P -> I * P * bool) : R store :=
  s1 ← retain_mut s f; heap_build s1.

(** append (mod.rs:677); returns (self', other') *)
Definition pq_append (s o : store) : R (store * store) :=
  let '(s1, o1) := append keq hash s o in
  s2 ← heap_build s1; Ok (s2, o1).

(** From<Vec>, FromIterator, From<DoublePriorityQueue>, Deserialize *)
Definition pq_from_vec (l : list (I * P)) : R store :=
  heap_build (from_vec keq hash l).
Definition pq_from_iter (l : list (I * P)) (h : size_hint) : R store :=
  s ← from_iter keq hash alloc_limit None l h; heap_build s.
Definition pq_of_store (s : store) : R store := heap_build s.
Definition pq_deserialize (l : list (I * P)) : R store :=
  heap_build (visit_seq keq hash l).

(** into_sorted_vec (mod.rs:312) / IntoSortedIter: repeated pop *)
Fixpoint pop_all (fuel : nat) (s : store) (acc : list (I * P)) : R (list (I * P) * store) :=
  match fuel with
  | O => Fault OutOfFuel
  | S fuel' =>
      '(r, s1) ← pop s;
      match r with
      | None => Ok (acc, s1)
      | Some e => pop_all fuel' s1 (acc ++ [e])
      end
  end.
Definition into_sorted_vec (s : store) : R (list (I * P) * store) :=
  pop_all (S (ssize s)) s [].

(** ** Extend (mod.rs:884) *)

(** 64-bit unsigned saturating arithmetic *)
Definition u64_max : N := 18446744073709551615%N.
Definition sat64 (a : N) : N := N.min a u64_max.

(** better_to_rebuild (mod.rs:956) *)
Definition better_to_rebuild (len1 len2 : N) : bool :=
  if decide (len1 <= 1)%N then false
  else bool_decide (sat64 (2 * sat64 (len1 + len2)) < sat64 (len2 * N.log2 len1))%N.

Fixpoint push_all (s : store) (l : list (I * P)) : R store :=
  s1 ← cb s;
  match l with
  | [] => Ok s1
  | e :: l' => '(_, s2) ← push s1 e.1 e.2; push_all s2 l'
  end.

Definition extend_with (build : store -> R store) (pushall : store -> list (I * P) -> R store)
  (s : store) (l : list (I * P)) (h : size_hint) : R store :=
  s1 ← reserve alloc_limit s h.1;
  let rebuild :=
    match h.2 with
    | Some max => better_to_rebuild (N.of_nat (ssize s1)) max
    | None => if decide (h.1 = 0%N) then false
              else better_to_rebuild (N.of_nat (ssize s1)) h.1
    end in
  if rebuild : bool then s2 ← extend_entries keq hash s1 l; build s2
  else pushall s1 l.

Definition pq_extend := extend_with heap_build push_all.

End PQ.
