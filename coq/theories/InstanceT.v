(** * InstanceT: the instantiation that is extracted and run.
    Items are (key, payload) with Eq/Hash on the key only; priorities are
    (value, tag) ordered and compared by the value only, so that priorities
    that are equal under Ord remain distinguishable (which of two tied
    priorities an operation returns or keeps is then visible). *)
From PQV Require Export Instance AbsSpec.

Definition tprio := (Z * Z)%type.
Definition tple (a b : tprio) : bool := Z.leb a.1 b.1.
Definition tpeq (a b : tprio) : bool := Z.eqb a.1 b.1.

Definition tmachine := @machine item tprio.
Definition top := @op item tprio.
Definition tout := @out item tprio.

Definition tstep (mode : nat) : tmachine -> top -> tmachine * tout :=
  step ikeq (ihash mode) tple tpeq alloc_lim.
Definition trun (mode : nat) : tmachine -> list top -> list (tout * nat * tmachine) :=
  run ikeq (ihash mode) tple tpeq alloc_lim.
Definition tinit_machine (n : nat) : tmachine := replicate n None.

(** the instance satisfies the contracts the theorems assume *)
Lemma tple_ord_ok : ord_ok tple.
Proof.
  split.
  - intros a b. unfold tple. destruct (Z.leb_spec a.1 b.1); [by left|right].
    apply Z.leb_le. lia.
  - intros a b c. unfold tple. rewrite !Z.leb_le. lia.
Qed.
