(** * Inv: the invariants of the store and the view of a store as a list of
    entries in heap-position order, plus the pinned statements about the
    store primitives (proved in StoreProofs.v). *)
From PQV Require Export Abs Store.

Section Inv.
Context {I P : Type}.
Variable keq : I -> I -> bool.
Variable hash : I -> N.

Notation store := (store I P).
Notation R := (res store).

(** the user's Eq/Hash contract *)
Definition keq_ok : Prop :=
  (forall a, keq a a = true) /\
  (forall a b, keq a b = true -> keq b a = true) /\
  (forall a b c, keq a b = true -> keq b c = true -> keq a c = true) /\
  (forall a b, keq a b = true -> hash a = hash b).

(** [heap] and [qp] are inverse permutations of [0..n) *)
Definition tables_inv (h q : list nat) (n : nat) : Prop :=
  length h = n /\ length q = n /\
  (forall p i, h !! p = Some i -> q !! i = Some p) /\
  (forall i p, q !! i = Some p -> h !! p = Some i).

Definition nodup_keys (m : list (I * P)) : Prop :=
  forall i j ei ej, m !! i = Some ei -> m !! j = Some ej ->
    keq ei.1 ej.1 = true -> i = j.

(** what the unchecked accesses of the crate trust *)
Definition WF (s : store) : Prop :=
  length (smap s) = ssize s /\
  tables_inv (heap s) (qp s) (ssize s) /\
  nodup_keys (smap s).

(** entries in heap-position order *)
Definition eview (s : store) : list (I * P) :=
  omap (fun i => smap s !! i) (heap s).

(** only the index tables changed *)
Definition frame (s s' : store) : Prop :=
  smap s' = smap s /\ ssize s' = ssize s /\
  ticks s' = ticks s /\ fuse s' = fuse s /\ cap s' = cap s.
(** the ghost fields are untouched *)
Definition ghost_eq (s s' : store) : Prop :=
  ticks s' = ticks s /\ fuse s' = fuse s /\ cap s' = cap s.

(** the hole of the moving-hole sift-ups, filled with the carried slot *)
Definition fill (s : store) (pos idx : nat) : store :=
  set_qp (set_heap s (<[pos := idx]> (heap s))) (<[idx := pos]> (qp s)).
(** one step of such a sift-up: the slot at [from] is copied into the hole [pos] *)
Definition hole_move (s : store) (pos from : nat) (fidx : nat) : store :=
  set_qp (set_heap s (<[pos := fidx]> (heap s))) (<[fidx := pos]> (qp s)).

(** ** statements about the primitives *)

Definition eview_lookup_stmt : Prop :=
  forall s p, WF s -> eview s !! p = heap s !! p ≫= (fun i => smap s !! i).
Definition eview_length_stmt : Prop :=
  forall s, WF s -> length (eview s) = ssize s.
Definition eview_perm_stmt : Prop :=
  forall s, WF s -> eview s ≡ₚ smap s.

Definition prio_at_ok_stmt : Prop :=
  forall s pos e, WF s -> eview s !! pos = Some e -> prio_at s pos = Ok e.2.

Definition swap_ok_stmt : Prop :=
  forall s a b, WF s -> a < ssize s -> b < ssize s ->
    exists s', swap s a b = Ok s' /\ WF s' /\ frame s s' /\
               eview s' = aswap (eview s) a b.

(** the slot of the entry at heap position [pos] *)
Definition swap_remove_ok_stmt : Prop :=
  forall s pos, WF s -> pos < ssize s ->
    exists e i s', swap_remove s pos = Ok (Some e, s') /\ WF s' /\
      heap s !! pos = Some i /\ smap s !! i = Some e /\
      eview s' = aswap_remove (eview s) pos /\
      map_swap_remove_index (smap s) i = Some (e, smap s') /\
      ssize s' = ssize s - 1 /\ ghost_eq s s'.

Definition remove_ok_stmt : Prop := keq_ok ->
  forall s k, WF s ->
    match get_index_of keq hash (smap s) k with
    | None => remove keq hash s k = Ok (None, s)
    | Some i =>
        exists e pos s', remove keq hash s k = Ok (Some (e.1, e.2, pos), s') /\ WF s' /\
          smap s !! i = Some e /\ qp s !! i = Some pos /\
          eview s' = aswap_remove (eview s) pos /\
          map_swap_remove_index (smap s) i = Some (e, smap s') /\
          ssize s' = ssize s - 1 /\ ghost_eq s s'
    end.

(** rewriting the entry of slot [i] without leaving its Eq class *)
Definition set_entry_ok_stmt : Prop := keq_ok ->
  forall s i e e' pos, WF s -> smap s !! i = Some e -> qp s !! i = Some pos ->
    keq e'.1 e.1 = true ->
    let s' := set_map s (<[i := e']> (smap s)) in
    WF s' /\ eview s' = <[pos := e']> (eview s).

(** appending a fresh entry to the three collections *)
Definition push_entry_ok_stmt : Prop := keq_ok ->
  forall s e, WF s -> get_index_of keq hash (smap s) e.1 = None ->
    WF (push_entry s e) /\ eview (push_entry s e) = eview s ++ [e].

(** identity tables (after retain removed something; from_vec; ...) *)
Definition identity_ok_stmt : Prop :=
  forall s m, nodup_keys m ->
    let n := length m in
    let s' := set_qp (set_heap (set_size (set_map s m) n) (seq 0 n)) (seq 0 n) in
    WF s' /\ eview s' = m.

(** the hole: filling it gives a well-formed store; a move of the hole is a
    swap in the filled view *)
Definition hole_move_ok_stmt : Prop :=
  forall s pos from idx fidx, WF (fill s pos idx) -> pos < ssize s -> from < ssize s ->
    pos <> from -> heap s !! from = Some fidx ->
    let s1 := hole_move s pos from fidx in
    WF (fill s1 from idx) /\ frame (fill s pos idx) (fill s1 from idx) /\
    eview (fill s1 from idx) = aswap (eview (fill s pos idx)) pos from.

(** lookups agree with the map *)
Definition get_index_of_spec_stmt : Prop := keq_ok ->
  forall (m : list (I * P)) k,
    match get_index_of keq hash m k with
    | Some i => exists e, m !! i = Some e /\ keq e.1 k = true /\
                          forall j ej, j < i -> m !! j = Some ej -> keq ej.1 k = false
    | None => forall j ej, m !! j = Some ej -> keq ej.1 k = false
    end.

End Inv.
