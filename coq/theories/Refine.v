(** * Refine: proofs of RefineSpec.v — every history of the single-queue core
    refines the abstract map specification.  Corollaries of the closed
    per-operation theorems assembled in Final.v. *)
From PQV Require Export RefineSpec.
From PQV Require Import ListProofs PQOps DPQOps Final.

Section Refine.
Context {I P : Type}.
Variable keq : I -> I -> bool.
Variable hash : I -> N.
Variable ple : P -> P -> bool.

Notation store := (store I P).
Notation al := (alookup keq hash).
Notation E := (I * P)%type.
Notation qinv := (qinv keq ple).
Notation pr := (snd : I * P -> P).

Hypothesis Hk : keq_ok keq hash.
Hypothesis Ho : ord_ok ple.

Lemma qinv_nd k o (s : store) : qinv k o s -> nodup_keys keq (smap s).
Proof. destruct k; intros ((_ & _ & H) & _); exact H. Qed.

Lemma keq_refl_ i : keq i i = true.
Proof. destruct Hk as (H & _). apply H. Qed.

(** an extreme of the slot list is an extreme of the association *)
Lemma is_max_extreme (m : list E) e :
  nodup_keys keq m -> is_max pr ple m e -> al m e.1 = Some e /\ extreme ple true (al m) e.
Proof.
  intros Hn [He Hm]. split.
  - apply (proj2 (alookup_Some keq hash Hk m e.1 e Hn)). split; [done|apply keq_refl_].
  - intros j e' Hj. apply (alookup_Some_1 keq hash Hk) in Hj as [Hj _]. by apply Hm.
Qed.
Lemma is_min_extreme (m : list E) e :
  nodup_keys keq m -> is_min pr ple m e -> al m e.1 = Some e /\ extreme ple false (al m) e.
Proof.
  intros Hn [He Hm]. split.
  - apply (proj2 (alookup_Some keq hash Hk m e.1 e Hn)). split; [done|apply keq_refl_].
  - intros j e' Hj. apply (alookup_Some_1 keq hash Hk) in Hj as [Hj _]. by apply Hm.
Qed.

(** ** peek of either kind reports an extreme of its end *)
Lemma q_peek_op k mx (s : store) : qinv k true s ->
  exists r s', q_peek ple k mx s = Ok (r, s') /\ qinv k true s' /\ smap s' = smap s /\
    match r with
    | Some e => al (smap s) e.1 = Some e /\ extreme ple (end_of k mx) (al (smap s)) e
    | None => smap s = []
    end.
Proof.
  intros Hq. pose proof (qinv_nd _ _ _ Hq) as Hn. destruct k.
  - exists (peek s), s. cbn [q_peek end_of]. split_and!; [by destruct mx|done|done|].
    pose proof (F_pq_peek keq hash ple Hk Ho s Hq) as Hp.
    destruct (peek s) as [e|]; [|done]. destruct Hp as [Hp _]. by apply is_max_extreme.
  - destruct (F_dpq_peek keq hash ple Hk Ho s Hq) as [(r & Hr & Hmin) (r' & s' & Hr' & Hq' & Hs & _ & _ & _ & Hmax)].
    destruct mx; cbn [q_peek end_of].
    + exists r', s'. split_and!; [done|done|done|].
      destruct r' as [e|]; [|done]. by apply is_max_extreme.
    + exists r, s. rewrite Hr. split_and!; [done|done|done|].
      destruct r as [e|]; [|done]. destruct Hmin as [Hmin _]. by apply is_min_extreme.
Qed.

(** ** pop of either kind takes an extreme of its end *)
Lemma q_pop_extreme k mx (s : store) out s' : qinv k true s ->
  q_pop ple k mx s = Ok (out, s') ->
  match out with
  | Some e => extreme ple (end_of k mx) (al (smap s)) e
  | None => True
  end.
Proof.
  intros Hq Hrun. pose proof (qinv_nd _ _ _ Hq) as Hn. destruct k.
  - destruct (F_pq_pop keq hash ple Hk Ho true s Hq) as (out2 & s2 & Hrun2 & _ & _ & Hout & _).
    assert (Hsame : q_pop ple KPQ mx s = pop ple s) by (by destruct mx).
    rewrite Hsame, Hrun2 in Hrun. injection Hrun as <- <-.
    pose proof (F_pq_peek keq hash ple Hk Ho s Hq) as Hp. rewrite <- Hout in Hp.
    destruct out2 as [e|]; [|done]. destruct Hp as [Hp _]. cbn [end_of].
    by apply is_max_extreme.
  - destruct (F_dpq_pop keq hash ple Hk Ho mx true s Hq) as (out2 & s2 & Hrun2 & _ & _ & Hout & _).
    destruct (F_dpq_peek keq hash ple Hk Ho s Hq) as [(r & Hr & Hmin) (r' & s3 & Hr' & _ & _ & _ & _ & _ & Hmax)].
    destruct mx; cbn [q_pop end_of] in *; rewrite Hrun2 in Hrun; injection Hrun as <- <-.
    + unfold dpq_max_entry in Hout. rewrite Hr' in Hout. subst out2.
      destruct r' as [e|]; [|done]. by apply is_max_extreme.
    + unfold dpq_min_entry in Hout. rewrite Hr in Hout. subst out2.
      destruct r as [e|]; [|done]. destruct Hmin as [Hmin _]. by apply is_min_extreme.
Qed.

(** ** one call *)
Theorem refine_step_thm : refine_step_stmt keq hash ple.
Proof.
  intros _ _ k s o Hq. destruct o as [i p|dir i p|i p|i g|i|mx|mx|i|i]; cbn [q_step spec_step].
  - destruct (F_C03_push keq hash ple Hk Ho k true s i p Hq) as (out & s' & Hrun & Hq' & -> & Heff).
    eexists _, s'. rewrite Hrun. cbn. split_and!; done.
  - destruct (F_C11 keq hash ple Hk Ho k dir true s i p Hq) as (out & s' & Hrun & Hq' & Heff).
    eexists _, s'. rewrite Hrun. cbn. split_and!; [done|done|].
    destruct (al (smap s) i) as [e|].
    + destruct (if dir then alt ple e.2 p else alt ple p e.2).
      * destruct Heff as [-> Heff]. done.
      * destruct Heff as (-> & Hm & _). split; [done|]. intros j. by rewrite Hm.
    + destruct Heff as [-> Heff]. done.
  - destruct (F_C03_change keq hash ple Hk Ho k true s i p Hq) as (out & s' & Hrun & Hq' & -> & Heff).
    eexists _, s'. rewrite Hrun. cbn. split_and!; done.
  - destruct (F_C03_change_by keq hash ple Hk Ho k true s i g Hq) as (out & s' & Hrun & Hq' & -> & Heff).
    eexists _, s'. rewrite Hrun. cbn. split_and!; done.
  - destruct (F_C03_remove keq hash ple Hk Ho k true s i Hq) as (out & s' & Hrun & Hq' & -> & Heff).
    eexists _, s'. rewrite Hrun. cbn. split_and!; done.
  - destruct (F_C03_pop keq hash ple Hk Ho k mx true s Hq) as (out & s' & Hrun & Hq' & Heff).
    pose proof (q_pop_extreme k mx s out s' Hq Hrun) as Hext.
    eexists _, s'. rewrite Hrun. cbn. split_and!; [done|done|]. exists out. split; [done|].
    destruct out as [e|].
    + destruct Heff as [H1 H2]. done.
    + destruct Heff as [H1 H2]. rewrite H1, H2. done.
  - destruct (q_peek_op k mx s Hq) as (r & s' & Hrun & Hq' & Hs & Hr).
    eexists _, s'. rewrite Hrun. cbn. split_and!; [done|done|]. exists r. split; [done|].
    rewrite Hs. split; [done|]. destruct r as [e|]; [done|]. rewrite Hr. done.
  - eexists _, s. split; [done|]. split; [done|]. split; [|done]. f_equal.
  - eexists _, s. split; [done|]. split; [done|]. split; [|done]. f_equal.
Qed.

(** ** every history *)
Theorem refine_run_thm : refine_run_stmt keq hash ple.
Proof.
  intros _ _ k ops. induction ops as [|o ops IH]; intros s Hq.
  - exists [], s. split_and!; [done|done|done|constructor].
  - destruct (refine_step_thm Hk Ho k s o Hq) as (out & s1 & Hstep & Hq1 & Hspec).
    destruct (IH s1 Hq1) as (outs & s2 & Hrun & Hq2 & Hlen & Hsp).
    exists (out :: outs), s2. cbn [q_run]. rewrite Hstep. cbn. rewrite Hrun. cbn.
    split_and!; [done|done|by rewrite Hlen|]. econstructor; eauto.
Qed.

Theorem spec_pop_meaning_thm : spec_pop_meaning_stmt keq hash ple.
Proof.
  intros _ k mx m m' e (r & [= <-] & Hm & Hext & Heff). split_and!.
  - by rewrite Heff, keq_refl_.
  - intros j e' Hj Hne. by rewrite Heff, Hne.
  - intros j e' Hj. by apply (Hext j e').
Qed.

End Refine.

(** ** closed forms (the statements carry their own hypotheses) *)
Lemma refine_step_closed {I P : Type} (keq : I -> I -> bool) (hash : I -> N) (ple : P -> P -> bool) :
  refine_step_stmt keq hash ple.
Proof. intros Hk Ho. by apply refine_step_thm. Qed.
Lemma refine_run_closed {I P : Type} (keq : I -> I -> bool) (hash : I -> N) (ple : P -> P -> bool) :
  refine_run_stmt keq hash ple.
Proof. intros Hk Ho. by apply refine_run_thm. Qed.
Lemma spec_pop_meaning_closed {I P : Type} (keq : I -> I -> bool) (hash : I -> N) (ple : P -> P -> bool) :
  spec_pop_meaning_stmt keq hash ple.
Proof. intros Hk. exact (spec_pop_meaning_thm keq hash ple Hk Hk). Qed.

(** an empty queue of either kind is an admissible start *)
Lemma empty_qinv {I P : Type} (keq : I -> I -> bool) (ple : P -> P -> bool) k c :
  qinv keq ple k true (empty_store c : store I P).
Proof.
  pose proof (@PQOps.empty_store_inv I P keq ple c) as (HWF & Hf & _).
  destruct k.
  - by apply (@PQOps.empty_inv_true I P keq ple (F_eview_length keq)).
  - by apply (@DPQOps.dempty_inv_true I P keq ple (F_eview_length keq)).
Qed.
