(** * WitnessesT: the tagged run instance (InstanceT.v) meets the hypotheses
    of EqRel.v, and the statements there are not vacuous: two queues built
    by different histories, holding the same items with priorities that tie
    but carry different tags, compare equal although their contents are not
    Leibniz-equal — the case [C14_eq] (which wants [peq] to reflect [=])
    does not speak about. *)
From PQV Require Export InstanceT EqRel.
From PQV Require Import Witnesses.

Local Open Scope Z_scope.

Lemma tpeq_refl : forall x, tpeq x x = true.
Proof. intros x. apply Z.eqb_refl. Qed.
Lemma tpeq_sym : forall x y, tpeq x y = true -> tpeq y x = true.
Proof. intros x y. unfold tpeq. by rewrite Z.eqb_sym. Qed.
Lemma tpeq_trans : forall x y z, tpeq x y = true -> tpeq y z = true -> tpeq x z = true.
Proof. intros x y z. unfold tpeq. rewrite !Z.eqb_eq. congruence. Qed.

(** [tpeq] does not reflect Leibniz equality: the hypothesis of [C14_eq] fails for it *)
Example tpeq_not_leibniz : tpeq (5, 1) (5, 2) = true /\ (5, 1) <> ((5, 2) : tprio).
Proof. split; [done|]. intros [=]. Qed.

Definition thist : list top := [
  ONew KPQ 0; OPush 0 (1, 10) (5, 1); OPush 0 (2, 20) (5, 2); OPush 0 (3, 30) (7, 0);
  ONew KPQ 1; OPush 1 (3, 31) (7, 9); OPush 1 (2, 21) (5, 3); OPush 1 (1, 11) (5, 4);
  OEq 0 1; OEq 1 0; OEq 0 0;
  OChange 1 (2, 0) (6, 3); OEq 0 1 ].

Definition eq_outs : list tout :=
  omap (fun x => match x.1.1 with OutBool b => Some (OutBool b) | _ => None end)
       (trun 0 (tinit_machine 2) thist).

Example tagged_twins_equal :
  eq_outs = [OutBool true; OutBool true; OutBool true; OutBool false].
Proof. vm_compute. reflexivity. Qed.

(** the equivalence laws of [EqRel] instantiate at the run instance *)
Lemma tagged_eq_laws mode :
  C14_eq_equivalence_stmt ikeq (ihash mode) tple tpeq ->
  forall k o1 o2 o3 (a b c : store item tprio),
    qinv ikeq tple k o1 a -> qinv ikeq tple k o2 b -> qinv ikeq tple k o3 c ->
    store_eq ikeq (ihash mode) tpeq a a = true /\
    (store_eq ikeq (ihash mode) tpeq a b = true -> store_eq ikeq (ihash mode) tpeq b a = true) /\
    (store_eq ikeq (ihash mode) tpeq a b = true -> store_eq ikeq (ihash mode) tpeq b c = true ->
     store_eq ikeq (ihash mode) tpeq a c = true).
Proof.
  intros H. apply H; [apply ikeq_ok|apply tpeq_refl|apply tpeq_sym|apply tpeq_trans].
Qed.
