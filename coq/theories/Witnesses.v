(** * Witnesses: the run instance (Instance.v) satisfies the hypotheses of
    the theorems, and the theorems are not vacuous: a concrete admissible
    history, its fault-free run (also with armed fuses), and non-empty
    queues on which peek / peek_min / peek_max answer [Some _]. *)
From PQV Require Export Instance Spec PropSpec.
From PQV Require Import Final UnwindProofs.

Local Open Scope Z_scope.

(** ** the instance meets the contracts *)

Lemma ikeq_ok : forall mode, keq_ok ikeq (ihash mode).
Proof.
  intros mode. unfold keq_ok, ikeq. split_and!.
  - intros a. apply Z.eqb_refl.
  - intros a b. by rewrite Z.eqb_sym.
  - intros a b c Hab Hbc. apply Z.eqb_eq in Hab, Hbc. apply Z.eqb_eq. congruence.
  - intros a b Hab. apply Z.eqb_eq in Hab. unfold ihash. by rewrite Hab.
Qed.

Lemma zle_ord_ok : ord_ok Z.leb.
Proof.
  split.
  - intros a b. rewrite !Z.leb_le. lia.
  - intros a b c. rewrite !Z.leb_le. lia.
Qed.

Lemma zeqb_reflects : forall a b, Z.eqb a b = true <-> a = b.
Proof. exact Z.eqb_eq. Qed.

Lemma init_getreg n r : getreg (init_machine n) r = @None (kind * store item Z).
Proof.
  unfold getreg, init_machine.
  destruct (_ !! r) as [x|] eqn:E; [|done].
  apply lookup_replicate in E as [-> _]. done.
Qed.

Lemma init_good : forall n, good ikeq Z.leb (init_machine n).
Proof. intros n r ks H. by rewrite init_getreg in H. Qed.

Lemma init_safe : forall n, safe ikeq Z.leb (init_machine n).
Proof. intros n r ks H. by rewrite init_getreg in H. Qed.

(** ** a concrete history *)

(** closures of the history: a table predicate, a payload write *)
Definition keep_table : list Z := [1; 2; 3; 5].
Definition keep_pred (i : item) (p : Z) : item * Z * bool :=
  (i, p, existsb (Z.eqb i.1) keep_table).
Definition set_payload (i : item) : item := (i.1, 5).
Definition same_item (i : item) : item := i.
Definition same_prio (p : Z) : Z := p.
Definition bump_prio (p : Z) : Z := p + 100.

Definition u64max : N := 18446744073709551615%N.

Definition hist : list zop := [
  ONew KPQ 0;
  OPush 0 (1, 10) 5;
  OPush 0 (2, 20) 5;
  OPush 0 (3, 30) 7;
  OPush 0 (4, 40) 5;
  OPush 0 (1, 11) 9;                      (* present key: priority replaced, item kept *)
  OPeek 0 SMax;
  OChange 0 (2, 0) 8;
  OPop 0 SMax;
  OPushInc 0 (3, 0) 12;
  ORetain 0 keep_pred;
  OIterMut 0 ADirect
    [INext same_prio same_item; ISizeHint; INext bump_prio set_payload] EDrop;
  OExtend 0 [((5, 0), 3); ((6, 0), 3); ((2, 1), 1); ((8, 0), 7)] (0%N, Some u64max);
  ONew KPQ 1;
  OPush 1 (7, 0) 4;
  OPush 1 (2, 9) 20;
  OAppend 0 1;
  OConvert 0;
  OClone 0 2;
  OEq 0 2;
  OConvert 2;
  OPeek 0 SMin;
  OPeek 0 SMax;
  OPeek 2 SMax
].


Lemma keep_pred_ok : pred_ok ikeq keep_pred.
Proof. intros i p. unfold ikeq, keep_pred. cbn. apply Z.eqb_refl. Qed.
Lemma set_payload_ok : item_ok ikeq set_payload.
Proof. intros i. unfold ikeq, set_payload. cbn. apply Z.eqb_refl. Qed.
Lemma same_item_ok : item_ok ikeq same_item.
Proof. intros i. unfold ikeq, same_item. apply Z.eqb_refl. Qed.

(** one step of an admissible history, the next machine computed *)
Lemma adm_hist_cons (mode : nat) (q : zop -> Prop) (m m' : zmachine) o h :
  closures_ok ikeq o -> limits_ok alloc_lim m o -> no_fuse o -> q o ->
  (zstep mode m o).1 = m' ->
  adm_hist ikeq (ihash mode) Z.leb Z.eqb alloc_lim q m' h ->
  adm_hist ikeq (ihash mode) Z.leb Z.eqb alloc_lim q m (o :: h).
Proof. intros Hc Hl Hf Hq <- Hh. cbn [adm_hist]. by split_and!. Qed.

Ltac limits_tac :=
  lazymatch goal with
  | |- limits_ok _ _ (OExtend _ _ _) =>
      intros ks Hks; vm_compute in Hks; injection Hks as <-; vm_compute; discriminate
  | |- _ => exact I
  end.

Ltac closures_tac :=
  lazymatch goal with
  | |- closures_ok _ (ORetain _ _) => exact keep_pred_ok
  | |- closures_ok _ (OIterMut _ _ _ _) =>
      repeat constructor; first [exact same_item_ok | exact set_payload_ok]
  | |- _ => exact I
  end.

Ltac adm_step :=
  eapply adm_hist_cons;
    [closures_tac | limits_tac | exact I | exact I | vm_compute; reflexivity | ].

Example adm_history :
  adm_hist ikeq (ihash 0) Z.leb Z.eqb alloc_lim no_forget (init_machine 3) hist.
Proof. unfold hist. repeat adm_step. exact I. Qed.

(** the same history is admissible under the all-colliding hash *)
Example adm_history_collide :
  adm_hist ikeq (ihash 1) Z.leb Z.eqb alloc_lim no_forget (init_machine 3) hist.
Proof. unfold hist. repeat adm_step. exact I. Qed.

(** hence (and by direct computation) the run has no fault *)
Example run_history_ok :
  Forall (fun x : zout * nat * zmachine => is_fault x.1.1 = false)
         (zrun 0 (init_machine 3) hist).
Proof. vm_compute. repeat constructor. Qed.

(** ... and by the theorem: every queue of every intermediate machine is
    well-formed and ordered *)
Example run_history_good :
  Forall (fun x : zout * nat * zmachine =>
            is_fault x.1.1 = false /\ good ikeq Z.leb x.2)
         (zrun 0 (init_machine 3) hist).
Proof.
  apply (F_run_good ikeq (ihash 0) Z.leb Z.eqb alloc_lim (ikeq_ok 0) zle_ord_ok).
  - apply init_good.
  - apply adm_history.
Qed.

(** the whole history was run: one trace entry per operation *)
Example run_history_complete :
  length (zrun 0 (init_machine 3) hist) = length hist.
Proof. vm_compute. reflexivity. Qed.

(** both hash modes give the same trace (C18, concretely) *)
Example run_history_hash_indep :
  zrun 0 (init_machine 3) hist = zrun 1 (init_machine 3) hist.
Proof. vm_compute. reflexivity. Qed.

(** ** the same history with armed fuses: the k-th user callback panics *)
Definition hist_fused : list zop := [
  ONew KPQ 0;
  OPush 0 (1, 10) 5;
  OFuse 0 (OPush 0 (2, 20) 5);             (* the first comparison panics *)
  OPush 0 (2, 20) 5;
  OPush 0 (3, 30) 7;
  OFuse 1 (OPush 0 (4, 40) 5);
  OPush 0 (4, 40) 5;
  OFuse 0 (OPush 0 (1, 11) 9);             (* present key *)
  OPush 0 (1, 11) 9;
  OPeek 0 SMax;
  OFuse 1 (OChange 0 (2, 0) 8);
  OFuse 1 (OPop 0 SMax);
  OFuse 0 (OPushInc 0 (3, 0) 12);
  OFuse 2 (ORetain 0 keep_pred);           (* the third call of the predicate panics *)
  OFuse 1 (OIterMut 0 ADirect
    [INext same_prio same_item; ISizeHint; INext bump_prio set_payload] EDrop);
  OFuse 3 (OExtend 0 [((5, 0), 3); ((6, 0), 3); ((2, 1), 1); ((8, 0), 7)] (0%N, Some u64max));
  OFuse 5 (OExtend 0 [((5, 0), 3); ((6, 0), 3); ((2, 1), 1); ((8, 0), 7)] (4%N, Some 4%N));
  ONew KPQ 1;
  OPush 1 (7, 0) 4;
  OPush 1 (2, 9) 20;
  OFuse 2 (OAppend 0 1);
  OClone 0 2;
  OFuse 4 (OConvert 2);                    (* the queue is consumed by the conversion *)
  OFuse 3 (OClone 0 2);
  OClone 0 2;
  OEq 0 2;
  OConvert 0;
  OFuse 1 (OPop 0 SMin);
  OFuse 0 (OPeek 0 SMax);
  OPeek 0 SMin;
  OPeek 0 SMax;
  OPop 0 SMax;
  OPop 0 SMin;
  OPeek 2 SMax;
  OFuse 1 (OClear 2);                      (* the Drop of the first priority panics *)
  OLen 2;
  OPush 2 (9, 9) 1;
  OPeek 2 SMax
].

Example unwind_history_ok :
  Forall (fun x : zout * nat * zmachine => is_fault x.1.1 = false)
         (zrun 0 (init_machine 3) hist_fused).
Proof. vm_compute. repeat constructor. Qed.

Example unwind_history_complete :
  length (zrun 0 (init_machine 3) hist_fused) = length hist_fused.
Proof. vm_compute. reflexivity. Qed.

(** the fuses did fire: how many operations ended in a caught panic *)
Definition is_unwound (o : zout) : bool :=
  match o with OutUnwound => true | _ => false end.
Definition unwound_count : nat :=
  length (filter (fun x : zout * nat * zmachine => is_unwound x.1.1 = true)
                 (zrun 0 (init_machine 3) hist_fused)).

(** ** peek / peek_min / peek_max on non-empty queues *)
Definition final_machine : zmachine :=
  match last (zrun 0 (init_machine 3) hist) with Some x => x.2 | None => [] end.

Example peek_nonempty :
  exists sd sp : store item Z,
    getreg final_machine 0 = Some (KDPQ, sd) /\
    getreg final_machine 2 = Some (KPQ, sp) /\
    (3 <= ssize sd)%nat /\ (3 <= ssize sp)%nat /\
    peek sp = Some ((3, 5), 112) /\
    peek_min sd = Ok (Some ((2, 20), 1)) /\
    (exists s', peek_max Z.leb sd = Ok (Some ((3, 5), 112), s')).
Proof.
  eexists _, _.
  split; [vm_compute; reflexivity|].
  split; [vm_compute; reflexivity|].
  split; [cbn; lia|]. split; [cbn; lia|].
  split; [vm_compute; reflexivity|].
  split; [vm_compute; reflexivity|].
  eexists. vm_compute. reflexivity.
Qed.

(** every call of the plain history is one the API offers *)
Definition is_invalid (o : zout) : bool :=
  match o with OutInvalid => true | _ => false end.
Example run_history_all_valid :
  forallb (fun x : zout * nat * zmachine => negb (is_invalid x.1.1))
          (zrun 0 (init_machine 3) hist) = true.
Proof. vm_compute. reflexivity. Qed.

(** ** the fused history, by the C10 theorem *)
Example unwound_fires : unwound_count = 14%nat.
Proof. vm_compute. reflexivity. Qed.

Lemma adm_fuse_hist_cons (mode : nat) (m m' : zmachine) o h :
  closures_ok ikeq (strip_fuse o) -> limits_ok alloc_lim m (strip_fuse o) ->
  (zstep mode m o).1 = m' ->
  adm_fuse_hist ikeq (ihash mode) Z.leb Z.eqb alloc_lim m' h ->
  adm_fuse_hist ikeq (ihash mode) Z.leb Z.eqb alloc_lim m (o :: h).
Proof.
  intros Hc Hl <- Hh. cbn [adm_fuse_hist]. split; [|done]. split; [|done].
  by destruct o.
Qed.

Ltac adm_fuse_step :=
  eapply adm_fuse_hist_cons;
    [cbn [strip_fuse]; closures_tac | cbn [strip_fuse]; limits_tac
    | vm_compute; reflexivity | ].

Example adm_fuse_history :
  adm_fuse_hist ikeq (ihash 0) Z.leb Z.eqb alloc_lim (init_machine 3) hist_fused.
Proof. unfold hist_fused. repeat adm_fuse_step. exact I. Qed.

Example unwind_history_safe :
  Forall (fun x : zout * nat * zmachine =>
            is_fault x.1.1 = false /\ safe ikeq Z.leb x.2)
         (zrun 0 (init_machine 3) hist_fused).
Proof.
  apply (run_unwind_safe ikeq (ihash 0) Z.leb Z.eqb alloc_lim (ikeq_ok 0) zle_ord_ok).
  - apply init_safe.
  - apply adm_fuse_history.
Qed.


(** ** known finding F8 (known_findings.json): the references [iter_mut] hands
    out outlive the iterator.  [let v: Vec<_> = q.iter_mut().collect();
    *v[0].1 = 100; drop(v)] exhausts and drops the iterator (heap rebuilt) and
    writes afterwards; as a state transformer that is a second [iter_mut]
    whose first element is rewritten and which is then leaked (no rebuild).
    [peek] then reports an element that is not a maximum: C01's conclusion
    fails on this history, which is why [adm] (the premise of the order
    theorems) does not admit leaked [iter_mut]s, while the safety theorems
    (C04, C10) do. *)
Definition hist_late : list zop := [
  ONew KPQ 0;
  OPush 0 (1, 10) 1;
  OPush 0 (2, 20) 2;
  OPush 0 (3, 30) 3;
  OIterMut 0 ADirect [INext same_prio same_item; INext same_prio same_item;
                      INext same_prio same_item; INext same_prio same_item] EDrop;
  OIterMut 0 ADirect [INext (fun _ => 100) same_item] EForget;
  OPeek 0 SMax
].

Example late_write_refutes_order :
  exists x, last (zrun 0 (init_machine 1) hist_late) = Some x /\
    x.1.1 = OutOptE (Some ((3, 30), 3)) /\
    (exists s, getreg x.2 0 = Some (KPQ, s) /\ In ((1, 10), 100) (smap s)).
Proof. eexists. split; [vm_compute; reflexivity|]. split; [reflexivity|].
  eexists. split; [vm_compute; reflexivity|]. vm_compute. auto. Qed.

Example late_write_still_safe :
  Forall (fun x : zout * nat * zmachine => is_fault x.1.1 = false)
         (zrun 0 (init_machine 1) hist_late).
Proof. vm_compute. repeat constructor. Qed.

Print Assumptions ikeq_ok.
Print Assumptions adm_history.
Print Assumptions run_history_ok.
Print Assumptions run_history_good.
Print Assumptions unwind_history_ok.
Print Assumptions unwind_history_safe.
Print Assumptions peek_nonempty.
