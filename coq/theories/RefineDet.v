(** * RefineDet: the abstract map specification of RefineSpec.v is tight — its
    only freedom is the choice among entries of equal priority.  When no two
    stored entries tie, every call has exactly one allowed output and one
    allowed successor map, so (with [refine_run]) the outputs of the model are
    then a function of the abstract map alone: independent of heap
    arrangement, insertion order, hasher and capacity. *)
From PQV Require Export RefineSpec.
From PQV Require Import ListProofs.

Section RefineDet.
Context {I P : Type}.
Variable keq : I -> I -> bool.
Variable hash : I -> N.
Variable ple : P -> P -> bool.

Notation E := (I * P)%type.
Notation al := (alookup keq hash).

(** a map that is a function of the Eq class and stores items of that class *)
Definition amap_ok (m : amap (I:=I) (P:=P)) : Prop :=
  (forall j j', keq j j' = true -> m j = m j') /\
  (forall j e, m j = Some e -> keq e.1 j = true).

(** no two stored entries of different items have equivalent priorities *)
Definition no_ties (m : amap (I:=I) (P:=P)) : Prop :=
  forall j j' e e', m j = Some e -> m j' = Some e' ->
    ple e.2 e'.2 = true -> ple e'.2 e.2 = true -> keq e.1 e'.1 = true.

Definition spec_step_det_stmt : Prop := keq_ok keq hash ->
  forall k m o out1 m1 out2 m2, amap_ok m -> no_ties m ->
    spec_step keq ple k m o out1 m1 -> spec_step keq ple k m o out2 m2 ->
    out1 = out2 /\ forall j, m1 j = m2 j.

(** a history along which the specification never meets a tie *)
Inductive tie_free_run (k : kind) : amap (I:=I) (P:=P) -> list (qop (I:=I) (P:=P)) -> list (qout (I:=I) (P:=P)) -> amap (I:=I) (P:=P) -> Prop :=
  | tf_nil m : tie_free_run k m [] [] m
  | tf_cons m o out m1 ops outs m' :
      amap_ok m -> no_ties m ->
      spec_step keq ple k m o out m1 -> tie_free_run k m1 ops outs m' ->
      tie_free_run k m (o :: ops) (out :: outs) m'.

(** along such a history any other run the specification allows, from a
    pointwise equal map, returns the same outputs and ends in the same map *)
Definition spec_run_det_stmt : Prop := keq_ok keq hash ->
  forall k ops m outs m' n outs2 n',
    tie_free_run k m ops outs m' -> (forall j, m j = n j) ->
    spec_run keq ple k n ops outs2 n' ->
    outs = outs2 /\ forall j, m' j = n' j.

Definition al_amap_ok_stmt : Prop := keq_ok keq hash ->
  forall l : list E, amap_ok (al l).

Section Proofs.
Hypothesis Hk : keq_ok keq hash.

Lemma extreme_unique mx m e e' : amap_ok m -> no_ties m ->
  m e.1 = Some e -> m e'.1 = Some e' ->
  extreme ple mx m e -> extreme ple mx m e' -> e = e'.
Proof.
  intros [Hm1 Hm2] Hnt He He' Hx Hx'.
  pose proof (Hx _ _ He') as A. pose proof (Hx' _ _ He) as B.
  assert (keq e.1 e'.1 = true) as Hkk.
  { destruct mx; eapply Hnt; eauto. }
  rewrite (Hm1 _ _ Hkk) in He. congruence.
Qed.

Theorem spec_step_det_thm : spec_step_det_stmt.
Proof.
  intros _ k m o out1 m1 out2 m2 Hok Hnt H1 H2.
  destruct o as [i p|dir i p|i p|i g|i|mx|mx|i|i]; cbn [spec_step] in H1, H2.
  - destruct H1 as [-> E1], H2 as [-> E2]. split; [done|]. intros j. by rewrite E1, E2.
  - destruct (m i) as [e|].
    + destruct (if dir then alt ple e.2 p else alt ple p e.2);
        destruct H1 as [-> E1], H2 as [-> E2]; (split; [done|]); intros j; by rewrite E1, E2.
    + destruct H1 as [-> E1], H2 as [-> E2]. split; [done|]. intros j. by rewrite E1, E2.
  - destruct H1 as [-> E1], H2 as [-> E2]. split; [done|]. intros j. by rewrite E1, E2.
  - destruct H1 as [-> E1], H2 as [-> E2]. split; [done|]. intros j. by rewrite E1, E2.
  - destruct H1 as [-> E1], H2 as [-> E2]. split; [done|]. intros j. by rewrite E1, E2.
  - destruct H1 as (r1 & -> & H1), H2 as (r2 & -> & H2).
    destruct r1 as [e1|], r2 as [e2|].
    + destruct H1 as (A1 & X1 & E1), H2 as (A2 & X2 & E2).
      assert (e1 = e2) as -> by (eapply extreme_unique; eauto).
      split; [done|]. intros j. by rewrite E1, E2.
    + destruct H1 as (A1 & _), H2 as (A2 & _). rewrite A2 in A1. done.
    + destruct H1 as (A1 & _), H2 as (A2 & _). rewrite A1 in A2. done.
    + destruct H1 as (_ & E1), H2 as (_ & E2). split; [done|]. intros j. by rewrite E1, E2.
  - destruct H1 as (r1 & -> & E1 & H1), H2 as (r2 & -> & E2 & H2).
    destruct r1 as [e1|], r2 as [e2|].
    + destruct H1 as (A1 & X1), H2 as (A2 & X2).
      assert (e1 = e2) as -> by (eapply extreme_unique; eauto).
      split; [done|]. intros j. by rewrite E1, E2.
    + destruct H1 as (A1 & _). rewrite H2 in A1. done.
    + destruct H2 as (A2 & _). rewrite H1 in A2. done.
    + split; [done|]. intros j. by rewrite E1, E2.
  - destruct H1 as [-> E1], H2 as [-> E2]. split; [done|]. intros j. by rewrite E1, E2.
  - destruct H1 as [-> E1], H2 as [-> E2]. split; [done|]. intros j. by rewrite E1, E2.
Qed.

(** the specification only reads its map pointwise *)
Lemma spec_step_ext k m n o out m' :
  (forall j, m j = n j) -> spec_step keq ple k n o out m' -> spec_step keq ple k m o out m'.
Proof.
  intros Hmn H.
  destruct o as [i p|dir i p|i p|i g|i|mx|mx|i|i]; cbn [spec_step] in *.
  - rewrite Hmn. destruct H as [-> E]. split; [done|]. intros j. by rewrite E, Hmn.
  - rewrite Hmn. destruct (n i) as [e|].
    + destruct (if dir then alt ple e.2 p else alt ple p e.2);
        destruct H as [-> E]; (split; [done|]); intros j; by rewrite E, ?Hmn.
    + destruct H as [-> E]. split; [done|]. intros j. by rewrite E, Hmn.
  - rewrite Hmn. destruct H as [-> E]. split; [done|]. intros j. by rewrite E, Hmn.
  - rewrite Hmn. destruct H as [-> E]. split; [done|]. intros j. by rewrite E, Hmn.
  - rewrite Hmn. destruct H as [-> E]. split; [done|]. intros j. by rewrite E, Hmn.
  - destruct H as (r & -> & H). exists r. split; [done|]. destruct r as [e|].
    + destruct H as (A & X & E). split_and!.
      * by rewrite Hmn.
      * intros j e' Hj. apply (X j e'). by rewrite <- Hmn.
      * intros j. by rewrite E, Hmn.
    + destruct H as (A & E). split; [|done]. intros j. by rewrite Hmn.
  - destruct H as (r & -> & E & H). exists r. split; [done|]. split.
    + intros j. by rewrite E, Hmn.
    + destruct r as [e|].
      * destruct H as (A & X). split; [by rewrite Hmn|].
        intros j e' Hj. apply (X j e'). by rewrite <- Hmn.
      * intros j. by rewrite Hmn.
  - rewrite Hmn. destruct H as [-> E]. split; [done|]. intros j. by rewrite E, Hmn.
  - rewrite Hmn. destruct H as [-> E]. split; [done|]. intros j. by rewrite E, Hmn.
Qed.

Theorem spec_run_det_thm : spec_run_det_stmt.
Proof.
  intros _ k ops. induction ops as [|o ops IH]; intros m outs m' n outs2 n' Htf Hmn Hrun.
  - inversion Htf; subst. inversion Hrun; subst. done.
  - inversion Htf as [|? ? out m1 ? outs1 ? Hok Hnt Hstep Htf']; subst.
    inversion Hrun as [|? ? out2 n1 ? outs2' ? Hstep2 Hrun']; subst.
    apply (spec_step_ext k m n) in Hstep2; [|done].
    destruct (spec_step_det_thm Hk k m o out m1 out2 n1 Hok Hnt Hstep Hstep2) as [-> Hm1].
    destruct (IH m1 outs1 m' n1 outs2' n' Htf' Hm1 Hrun') as [-> ?]. done.
Qed.

Theorem al_amap_ok_thm : al_amap_ok_stmt.
Proof.
  intros _ l. split.
  - intros j j' Hjj. by apply (alookup_keq keq hash Hk).
  - intros j e Hj. by apply (alookup_Some_1 keq hash Hk) in Hj as [_ ?].
Qed.
End Proofs.

End RefineDet.

Lemma spec_step_det_closed {I P : Type} (keq : I -> I -> bool) (hash : I -> N) (ple : P -> P -> bool) :
  spec_step_det_stmt keq hash ple.
Proof. apply spec_step_det_thm. Qed.
Lemma spec_run_det_closed {I P : Type} (keq : I -> I -> bool) (hash : I -> N) (ple : P -> P -> bool) :
  spec_run_det_stmt keq hash ple.
Proof. intros Hk. exact (spec_run_det_thm keq hash ple Hk Hk). Qed.
Lemma al_amap_ok_closed {I P : Type} (keq : I -> I -> bool) (hash : I -> N) :
  @al_amap_ok_stmt I P keq hash.
Proof. intros Hk. exact (al_amap_ok_thm keq hash Hk Hk). Qed.
