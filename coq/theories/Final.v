(** * Final: the layers put together.  Every theorem proved under section
    hypotheses (statements of lower layers) is instantiated with the real
    theorems, so that nothing below depends on an assumption. *)
From PQV Require Import StoreProofs AbsPQProofs AbsDPQProofs AbsCostProofs PQOps DPQOps
  ListProofs IterProofs MachineProofs PropProofs.
From PQV Require Export PropSpec.

Section Final.
Context {I P : Type}.
Variable keq : I -> I -> bool.
Variable hash : I -> N.
Variable ple : P -> P -> bool.
Variable peq : P -> P -> bool.
Variable alloc_limit : N.

Create HintDb fin.

Lemma F_eview_lookup : @eview_lookup_stmt I P keq.
Proof. exact (StoreProofs.eview_lookup keq). Qed.
#[local] Hint Resolve F_eview_lookup : fin.

Lemma F_eview_length : @eview_length_stmt I P keq.
Proof. exact (StoreProofs.eview_length keq). Qed.
#[local] Hint Resolve F_eview_length : fin.

Lemma F_eview_perm : @eview_perm_stmt I P keq.
Proof. exact (StoreProofs.eview_perm keq). Qed.
#[local] Hint Resolve F_eview_perm : fin.

Lemma F_prio_at_ok : @prio_at_ok_stmt I P keq.
Proof. exact (StoreProofs.prio_at_ok keq). Qed.
#[local] Hint Resolve F_prio_at_ok : fin.

Lemma F_swap_ok : @swap_ok_stmt I P keq.
Proof. exact (StoreProofs.swap_ok keq). Qed.
#[local] Hint Resolve F_swap_ok : fin.

Lemma F_swap_remove_ok : @swap_remove_ok_stmt I P keq.
Proof. exact (StoreProofs.swap_remove_ok keq). Qed.
#[local] Hint Resolve F_swap_remove_ok : fin.

Lemma F_remove_ok : @remove_ok_stmt I P keq hash.
Proof. exact (StoreProofs.remove_ok keq hash). Qed.
#[local] Hint Resolve F_remove_ok : fin.

Lemma F_set_entry_ok : @set_entry_ok_stmt I P keq hash.
Proof. exact (StoreProofs.set_entry_ok keq hash). Qed.
#[local] Hint Resolve F_set_entry_ok : fin.

Lemma F_push_entry_ok : @push_entry_ok_stmt I P keq hash.
Proof. exact (StoreProofs.push_entry_ok keq hash). Qed.
#[local] Hint Resolve F_push_entry_ok : fin.

Lemma F_identity_ok : @identity_ok_stmt I P keq.
Proof. exact (StoreProofs.identity_ok keq). Qed.
#[local] Hint Resolve F_identity_ok : fin.

Lemma F_hole_move_ok : @hole_move_ok_stmt I P keq.
Proof. exact (StoreProofs.hole_move_ok keq). Qed.
#[local] Hint Resolve F_hole_move_ok : fin.

Lemma F_get_index_of_spec : @get_index_of_spec_stmt I P keq hash.
Proof. exact (StoreProofs.get_index_of_spec keq hash). Qed.
#[local] Hint Resolve F_get_index_of_spec : fin.

Lemma F_minmax_root_min : minmax_root_min_stmt (snd : I * P -> P) ple.
Proof. exact (AbsDPQProofs.minmax_root_min snd ple). Qed.
#[local] Hint Resolve F_minmax_root_min : fin.

Lemma F_afind_max_ok : afind_max_stmt (snd : I * P -> P) ple.
Proof. exact (AbsDPQProofs.afind_max_ok snd ple). Qed.
#[local] Hint Resolve F_afind_max_ok : fin.

Lemma F_adbuild_ok : adbuild_stmt (snd : I * P -> P) ple.
Proof. exact (AbsDPQProofs.adbuild_ok snd ple). Qed.
#[local] Hint Resolve F_adbuild_ok : fin.

Lemma F_a_dpush_new_ok : a_dpush_new_stmt (snd : I * P -> P) ple.
Proof. exact (AbsDPQProofs.a_dpush_new_ok snd ple). Qed.
#[local] Hint Resolve F_a_dpush_new_ok : fin.

Lemma F_a_dupdate_ok : a_dupdate_stmt (snd : I * P -> P) ple.
Proof. exact (AbsDPQProofs.a_dupdate_ok snd ple). Qed.
#[local] Hint Resolve F_a_dupdate_ok : fin.

Lemma F_a_dremove_ok : a_dremove_stmt (snd : I * P -> P) ple.
Proof. exact (AbsDPQProofs.a_dremove_ok snd ple). Qed.
#[local] Hint Resolve F_a_dremove_ok : fin.

Lemma F_a_pop_min_ok : a_pop_min_stmt (snd : I * P -> P) ple.
Proof. exact (AbsDPQProofs.a_pop_min_ok snd ple). Qed.
#[local] Hint Resolve F_a_pop_min_ok : fin.

Lemma F_a_pop_max_ok : a_pop_max_stmt (snd : I * P -> P) ple.
Proof. exact (AbsDPQProofs.a_pop_max_ok snd ple). Qed.
#[local] Hint Resolve F_a_pop_max_ok : fin.

Lemma F_a_pop_ext_if_ok : a_pop_ext_if_stmt (snd : I * P -> P) ple.
Proof. exact (AbsDPQProofs.a_pop_ext_if_ok snd ple). Qed.
#[local] Hint Resolve F_a_pop_ext_if_ok : fin.

Lemma F_a_dpop_all_ok : a_dpop_all_stmt (snd : I * P -> P) ple.
Proof. exact (AbsDPQProofs.a_dpop_all_ok snd ple). Qed.
#[local] Hint Resolve F_a_dpop_all_ok : fin.

Ltac fin := eauto 2 with fin.

Lemma F_pq_peek : pq_peek_stmt keq hash ple.
Proof. apply pq_peek_thm; fin. Qed.
#[local] Hint Resolve F_pq_peek : fin.

Lemma F_pq_push : pq_push_stmt keq hash ple.
Proof. apply pq_push_thm; fin. Qed.
#[local] Hint Resolve F_pq_push : fin.

Lemma F_pq_pop : pq_pop_stmt keq hash ple.
Proof. apply pq_pop_thm; fin. Qed.
#[local] Hint Resolve F_pq_pop : fin.

Lemma F_pq_change_priority : pq_change_priority_stmt keq hash ple.
Proof. apply pq_change_priority_thm; fin. Qed.
#[local] Hint Resolve F_pq_change_priority : fin.

Lemma F_pq_change_priority_by : pq_change_priority_by_stmt keq hash ple.
Proof. apply pq_change_priority_by_thm; fin. Qed.
#[local] Hint Resolve F_pq_change_priority_by : fin.

Lemma F_pq_remove : pq_remove_stmt keq hash ple.
Proof. apply pq_remove_thm; fin. Qed.
#[local] Hint Resolve F_pq_remove : fin.

Lemma F_pq_pop_if : pq_pop_if_stmt keq hash ple.
Proof. apply pq_pop_if_thm; fin. Qed.
#[local] Hint Resolve F_pq_pop_if : fin.

Lemma F_pq_push_dir : pq_push_dir_stmt keq hash ple.
Proof. apply pq_push_dir_thm; fin. Qed.
#[local] Hint Resolve F_pq_push_dir : fin.

Lemma F_pq_peek_mut : pq_peek_mut_stmt keq hash ple.
Proof. apply pq_peek_mut_thm; fin. Qed.
#[local] Hint Resolve F_pq_peek_mut : fin.

Lemma F_pq_build : pq_build_stmt keq hash ple.
Proof. apply pq_build_thm; fin. Qed.
#[local] Hint Resolve F_pq_build : fin.

Lemma F_pq_retain : pq_retain_stmt keq hash ple.
Proof. apply pq_retain_thm; fin. Qed.
#[local] Hint Resolve F_pq_retain : fin.

Lemma F_pq_from_vec : pq_from_vec_stmt keq hash ple.
Proof. apply pq_from_vec_thm; fin. Qed.
#[local] Hint Resolve F_pq_from_vec : fin.

Lemma F_pq_append : pq_append_stmt keq hash ple.
Proof. apply pq_append_thm; fin. Qed.
#[local] Hint Resolve F_pq_append : fin.

Lemma F_pq_deserialize : pq_deserialize_stmt keq hash ple.
Proof. apply pq_deserialize_thm; fin. Qed.
#[local] Hint Resolve F_pq_deserialize : fin.

Lemma F_pq_from_iter : pq_from_iter_stmt keq hash ple alloc_limit.
Proof. apply pq_from_iter_thm; fin. Qed.
#[local] Hint Resolve F_pq_from_iter : fin.

Lemma F_pq_extend : pq_extend_stmt keq hash ple alloc_limit.
Proof. apply pq_extend_thm; fin. Qed.
#[local] Hint Resolve F_pq_extend : fin.

Lemma F_pq_into_sorted_vec : pq_into_sorted_vec_stmt keq hash ple.
Proof. apply pq_into_sorted_vec_thm; fin. Qed.
#[local] Hint Resolve F_pq_into_sorted_vec : fin.

Lemma F_dpq_peek : dpq_peek_stmt keq hash ple.
Proof. apply dpq_peek_thm; fin. Qed.
#[local] Hint Resolve F_dpq_peek : fin.

Lemma F_dpq_push : dpq_push_stmt keq hash ple.
Proof. apply dpq_push_thm; fin. Qed.
#[local] Hint Resolve F_dpq_push : fin.

Lemma F_dpq_pop : dpq_pop_stmt keq hash ple.
Proof. apply dpq_pop_thm; fin. Qed.
#[local] Hint Resolve F_dpq_pop : fin.

Lemma F_dpq_change_priority : dpq_change_priority_stmt keq hash ple.
Proof. apply dpq_change_priority_thm; fin. Qed.
#[local] Hint Resolve F_dpq_change_priority : fin.

Lemma F_dpq_change_priority_by : dpq_change_priority_by_stmt keq hash ple.
Proof. apply dpq_change_priority_by_thm; fin. Qed.
#[local] Hint Resolve F_dpq_change_priority_by : fin.

Lemma F_dpq_remove : dpq_remove_stmt keq hash ple.
Proof. apply dpq_remove_thm; fin. Qed.
#[local] Hint Resolve F_dpq_remove : fin.

Lemma F_dpq_pop_if : dpq_pop_if_stmt keq hash ple.
Proof. apply dpq_pop_if_thm; fin. Qed.
#[local] Hint Resolve F_dpq_pop_if : fin.

Lemma F_dpq_push_dir : dpq_push_dir_stmt keq hash ple.
Proof. apply dpq_push_dir_thm; fin. Qed.
#[local] Hint Resolve F_dpq_push_dir : fin.

Lemma F_dpq_peek_mut : dpq_peek_mut_stmt keq hash ple.
Proof. apply dpq_peek_mut_thm; fin. Qed.
#[local] Hint Resolve F_dpq_peek_mut : fin.

Lemma F_dpq_build : dpq_build_stmt keq hash ple.
Proof. apply dpq_build_thm; fin. Qed.
#[local] Hint Resolve F_dpq_build : fin.

Lemma F_dpq_retain : dpq_retain_stmt keq hash ple.
Proof. apply dpq_retain_thm; fin. Qed.
#[local] Hint Resolve F_dpq_retain : fin.

Lemma F_dpq_from_vec : dpq_from_vec_stmt keq hash ple.
Proof. apply dpq_from_vec_thm; fin. Qed.
#[local] Hint Resolve F_dpq_from_vec : fin.

Lemma F_dpq_append : dpq_append_stmt keq hash ple.
Proof. apply dpq_append_thm; fin. Qed.
#[local] Hint Resolve F_dpq_append : fin.

Lemma F_dpq_deserialize : dpq_deserialize_stmt keq hash ple.
Proof. apply dpq_deserialize_thm; fin. Qed.
#[local] Hint Resolve F_dpq_deserialize : fin.

Lemma F_dpq_from_iter : dpq_from_iter_stmt keq hash ple alloc_limit.
Proof. apply dpq_from_iter_thm; fin. Qed.
#[local] Hint Resolve F_dpq_from_iter : fin.

Lemma F_dpq_extend : dpq_extend_stmt keq hash ple alloc_limit.
Proof. apply dpq_extend_thm; fin. Qed.
#[local] Hint Resolve F_dpq_extend : fin.

Lemma F_dpq_into_sorted_vec : dpq_into_sorted_vec_stmt keq hash ple.
Proof. apply dpq_into_sorted_vec_thm; fin. Qed.
#[local] Hint Resolve F_dpq_into_sorted_vec : fin.

Lemma F_extend_push_same : @extend_push_same_stmt I P keq hash.
Proof. exact (ListProofs.extend_push_same keq hash). Qed.

Lemma F_itermut_ok : @itermut_stmt I P.
Proof. apply itermut_ok. Qed.
#[local] Hint Resolve F_itermut_ok : fin.

Lemma F_itermut_wf : @itermut_wf_stmt I P keq hash.
Proof. apply itermut_wf. Qed.
#[local] Hint Resolve F_itermut_wf : fin.

Lemma F_dpq_sorted_iter : dpq_sorted_iter_stmt keq hash ple.
Proof. apply dpq_sorted_iter; fin. Qed.

Lemma F_pq_sorted_iter : pq_sorted_iter_stmt keq hash ple.
Proof. apply pq_sorted_iter; fin. Qed.

Lemma F_step_safe : step_safe_stmt keq hash ple peq alloc_limit.
Proof. apply step_safe; fin. Qed.

Lemma F_step_good : step_good_stmt keq hash ple peq alloc_limit.
Proof. apply step_good; fin. Qed.

Lemma F_run_safe : run_safe_stmt keq hash ple peq alloc_limit.
Proof. apply run_safe; fin. Qed.

Lemma F_run_good : run_good_stmt keq hash ple peq alloc_limit.
Proof. apply run_good; fin. Qed.

Lemma F_step_cost : step_cost_stmt keq hash ple peq alloc_limit.
Proof. apply step_cost; fin. Qed.

Lemma F_C03_contents : C03_contents_stmt keq hash ple.
Proof. eapply C03_contents_thm; fin. Qed.

Lemma F_C03_push : C03_push_stmt keq hash ple.
Proof. eapply C03_push_thm; fin. Qed.

Lemma F_C03_change : C03_change_stmt keq hash ple.
Proof. eapply C03_change_thm; fin. Qed.

Lemma F_C03_change_by : C03_change_by_stmt keq hash ple.
Proof. eapply C03_change_by_thm; fin. Qed.

Lemma F_C03_remove : C03_remove_stmt keq hash ple.
Proof. eapply C03_remove_thm; fin. Qed.

Lemma F_C03_pop : C03_pop_stmt keq hash ple.
Proof. eapply C03_pop_thm; fin. Qed.

Lemma F_C11 : C11_stmt keq hash ple.
Proof. eapply C11_thm; fin. Qed.

Lemma F_C12 : C12_stmt keq hash ple.
Proof. eapply C12_thm; fin. Qed.

Lemma F_C12_get_mut : C12_get_mut_stmt keq hash ple.
Proof. eapply C12_get_mut_thm; fin. Qed.

Lemma F_C07_from_vec : C07_from_vec_stmt keq hash ple.
Proof. eapply C07_from_vec_thm; fin. Qed.

Lemma F_C07_from_iter : C07_from_iter_stmt keq hash ple alloc_limit.
Proof. eapply C07_from_iter_thm; fin. Qed.

Lemma F_C07_extend : C07_extend_stmt keq hash ple alloc_limit.
Proof. eapply C07_extend_thm; fin. Qed.

Lemma F_C07_append : C07_append_stmt keq hash ple.
Proof. eapply C07_append_thm; fin. Qed.

Lemma F_C07_convert : C07_convert_stmt keq hash ple.
Proof. eapply C07_convert_thm; fin. Qed.

Lemma F_C08_retain : C08_retain_stmt keq hash ple.
Proof. eapply C08_retain_thm; fin. Qed.

Lemma F_C08_pop_if : C08_pop_if_stmt keq hash ple.
Proof. eapply C08_pop_if_thm; fin. Qed.

Lemma F_C08_itermut : C08_itermut_stmt keq hash ple.
Proof. eapply C08_itermut_thm; fin. Qed.

Lemma F_C14_eq : C14_eq_stmt keq hash ple peq.
Proof. eapply C14_eq_thm; fin. Qed.

Lemma F_C15_roundtrip : C15_roundtrip_stmt keq hash ple peq.
Proof. eapply C15_roundtrip_thm; fin. Qed.

Lemma F_C15_total : C15_total_stmt keq hash ple.
Proof. eapply C15_total_thm; fin. Qed.

Lemma F_C16 : @C16_stmt I P keq ple.
Proof. eapply C16_thm; fin. Qed.

Lemma F_C17 : @C17_stmt I P alloc_limit.
Proof. eapply C17_thm; fin. Qed.

Lemma F_C18_lookup : @C18_lookup_stmt I P keq.
Proof. eapply C18_lookup_thm; fin. Qed.

End Final.
