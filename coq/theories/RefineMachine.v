(** * RefineMachine: the bridge between RefineSpec.v and the machine that is
    extracted and run against the crate.  The refinement theorems speak about
    [q_step]; the correspondence check compares [Machine.step] with the
    implementation.  Here: on a register holding a queue of kind [k], the
    machine's step for the corresponding machine operation IS [q_step] (the
    same output, the register replaced by the same store, every other register
    untouched up to the per-step reset of the comparison counters), so every
    refinement statement transfers to the operations the traces contain. *)
From PQV Require Export RefineSpec Machine.
From PQV Require Import Refine.

Section RefineMachine.
Context {I P : Type}.
Variable keq : I -> I -> bool.
Variable hash : I -> N.
Variable ple : P -> P -> bool.
Variable peq : P -> P -> bool.
Variable alloc_limit : N.

Notation store := (store I P).
Notation machine := (@machine I P).
Notation al := (alookup keq hash).
Notation stp := (step keq hash ple peq alloc_limit).
Notation qstep := (q_step keq hash ple).

(** the machine operation of a queue call on register [r] *)
Definition side_of (k : kind) (mx : bool) : side :=
  match k with KPQ => SMax | KDPQ => if mx then SMax else SMin end.

Definition op_of (k : kind) (r : nat) (o : qop (I:=I) (P:=P)) : op (I:=I) (P:=P) :=
  match o with
  | QPush i p => OPush r i p
  | QPushDir true i p => OPushInc r i p
  | QPushDir false i p => OPushDec r i p
  | QChange i p => OChange r i p
  | QChangeBy i g => OChangeBy r i g
  | QRemove i => ORemove r i
  | QPop mx => OPop r (side_of k mx)
  | QPeek mx => OPeek r (side_of k mx)
  | QGet i => OGet r i
  | QGetPrio i => OGetPrio r i
  end.

Definition out_of (o : qout (I:=I) (P:=P)) : out (I:=I) (P:=P) :=
  match o with
  | RPrio x => OutOptP x
  | RBool b => OutBool b
  | REntry x => OutOptE x
  end.

Definition machine_step_is_q_step_stmt : Prop :=
  forall (m : machine) r k s o out s',
    getreg m r = Some (k, s) ->
    qstep k (set_ticks s 0) o = Ok (out, s') ->
    stp m (op_of k r o) = (setreg (reset_ticks m) r k s', out_of out).

Definition machine_step_refines_stmt : Prop := keq_ok keq hash -> ord_ok ple ->
  forall (m : machine) r k s o,
    getreg m r = Some (k, s) -> qinv keq ple k true s ->
    exists out s', stp m (op_of k r o) = (setreg (reset_ticks m) r k s', out_of out) /\
      qinv keq ple k true s' /\
      spec_step keq ple k (al (smap s)) o out (al (smap s')).

(** the output column of the trace the extracted machine prints for a history
    of core calls on one register is a run of the specification *)
Definition machine_run_refines_stmt : Prop := keq_ok keq hash -> ord_ok ple ->
  forall ops (m : machine) r k s,
    getreg m r = Some (k, s) -> qinv keq ple k true s ->
    exists outs s',
      map (fun t : out * nat * machine => t.1.1)
          (run keq hash ple peq alloc_limit m (map (op_of k r) ops)) = map out_of outs /\
      length outs = length ops /\
      spec_run keq ple k (al (smap s)) ops outs (al (smap s')).

Lemma getreg_reset_ (m : machine) r :
  getreg (reset_ticks m) r =
    (fun ks : kind * store => (ks.1, set_ticks ks.2 0)) <$> getreg m r.
Proof.
  unfold getreg, reset_ticks, Machine.machine in *. rewrite list_lookup_fmap.
  destruct (m !! r) as [[ks|]|]; reflexivity.
Qed.

Lemma setreg_same (m : machine) r k s : getreg m r = Some (k, s) -> setreg m r k s = m.
Proof.
  unfold getreg, setreg. intros H. destruct (m !! r) as [[ks|]|] eqn:Hr; try done.
  cbn in H. injection H as ->. by apply list_insert_id.
Qed.

Theorem machine_step_is_q_step_thm : machine_step_is_q_step_stmt.
Proof.
  intros m r k s o out s' Hreg Hq.
  assert (Hr0 : getreg (reset_ticks m) r = Some (k, set_ticks s 0)).
  { rewrite getreg_reset_, Hreg. done. }
  set (m0 := reset_ticks m) in *. set (s0 := set_ticks s 0) in *.
  destruct o as [i p|[|] i p|i p|i g|i|mx|mx|i|i];
    cbn [op_of step step1]; fold m0; rewrite Hr0; cbn [q_step] in Hq.
  - destruct k; cbn [q_push] in Hq;
      [destruct (push keq hash ple s0 i p) as [[x y]| |] | destruct (dpush keq hash ple s0 i p) as [[x y]| |]];
      cbn in Hq; try done; injection Hq as <- <-; done.
  - destruct k; cbn [q_push_dir] in Hq;
      [destruct (push_increase keq hash ple s0 i p) as [[x y]| |] | destruct (dpush_increase keq hash ple s0 i p) as [[x y]| |]];
      cbn in Hq; try done; injection Hq as <- <-; done.
  - destruct k; cbn [q_push_dir] in Hq;
      [destruct (push_decrease keq hash ple s0 i p) as [[x y]| |] | destruct (dpush_decrease keq hash ple s0 i p) as [[x y]| |]];
      cbn in Hq; try done; injection Hq as <- <-; done.
  - destruct k; cbn [q_change] in Hq;
      [destruct (pq_change_priority keq hash ple s0 i p) as [[x y]| |] | destruct (dpq_change_priority keq hash ple s0 i p) as [[x y]| |]];
      cbn in Hq; try done; injection Hq as <- <-; done.
  - destruct k; cbn [q_change_by] in Hq;
      [destruct (pq_change_priority_by keq hash ple s0 i g) as [[x y]| |] | destruct (dpq_change_priority_by keq hash ple s0 i g) as [[x y]| |]];
      cbn in Hq; try done; injection Hq as <- <-; done.
  - destruct k; cbn [q_remove] in Hq;
      [destruct (pq_remove keq hash ple s0 i) as [[x y]| |] | destruct (dpq_remove keq hash ple s0 i) as [[x y]| |]];
      cbn in Hq; try done; injection Hq as <- <-; done.
  - destruct k; [|destruct mx]; cbn [q_pop side_of] in *;
      [destruct (pop ple s0) as [[x y]| |] | destruct (pop_max ple s0) as [[x y]| |] | destruct (pop_min ple s0) as [[x y]| |]];
      cbn in Hq; try done; injection Hq as <- <-; done.
  - destruct k; [|destruct mx]; cbn [q_peek side_of] in *.
    + assert (Hq' : (peek s0, s0) = (match out with REntry x => x | _ => None end, s')).
      { destruct mx; cbn in Hq; injection Hq as <- <-; done. }
      injection Hq' as Hp <-. rewrite (setreg_same m0 r KPQ s0 Hr0).
      destruct mx; cbn in Hq; injection Hq as <-; done.
    + destruct (peek_max ple s0) as [[x y]| |]; cbn in Hq; try done; injection Hq as <- <-; done.
    + destruct (peek_min s0) as [x| |]; cbn in Hq; try done; injection Hq as <- <-; done.
  - cbn in Hq. injection Hq as <- <-. rewrite (setreg_same m0 r k s0 Hr0). done.
  - cbn in Hq. injection Hq as <- <-. rewrite (setreg_same m0 r k s0 Hr0). done.
Qed.

Theorem machine_step_refines_thm : machine_step_refines_stmt.
Proof.
  intros Hk Ho m r k s o Hreg Hq.
  assert (Hq0 : qinv keq ple k true (set_ticks s 0)) by (destruct k; exact Hq).
  destruct (refine_step_closed keq hash ple Hk Ho k (set_ticks s 0) o Hq0) as (out & s' & Hstep & Hq' & Hspec).
  exists out, s'. split_and!; [|done|done].
  by eapply machine_step_is_q_step_thm.
Qed.

Lemma getreg_setreg_reset (m : machine) r k x s1 :
  getreg m r = Some x -> getreg (setreg (reset_ticks m) r k s1) r = Some (k, s1).
Proof.
  unfold getreg, setreg. intros H.
  assert (r < length (reset_ticks m)) as Hlt.
  { unfold reset_ticks. rewrite fmap_length. apply lookup_lt_is_Some.
    destruct (m !! r) as [y|] eqn:Hr; [by eexists|done]. }
  unfold Machine.machine in *. rewrite list_lookup_insert; [done|exact Hlt].
Qed.

Theorem machine_run_refines_thm : machine_run_refines_stmt.
Proof.
  intros Hk Ho ops. induction ops as [|o ops IH]; intros m r k s Hreg Hq.
  - exists [], s. split_and!; [done|done|constructor].
  - destruct (machine_step_refines_thm Hk Ho m r k s o Hreg Hq) as (out & s1 & Hstep & Hq1 & Hspec).
    set (m1 := setreg (reset_ticks m) r k s1) in *.
    assert (Hreg1 : getreg m1 r = Some (k, s1)) by (by eapply getreg_setreg_reset).
    destruct (IH m1 r k s1 Hreg1 Hq1) as (outs & s' & Htr & Hlen & Hrun).
    exists (out :: outs), s'. split_and!.
    + cbn [map run]. rewrite Hstep.
      assert (is_fault (out_of out) = false) as -> by (by destruct out).
      cbn [map fst]. by rewrite Htr.
    + cbn [length]. by rewrite Hlen.
    + econstructor; eauto.
Qed.

End RefineMachine.
