(** * GhostIndep: the ghost fields [cap] and [ticks] never influence contents
    or results (C17 / C14 at the level of whole runs).

    [Machine.step] resets every tick counter first, so the core is
    "cap-irrelevance": a relation [ceq] between stores (all fields equal
    except [cap]), lifted to results ([rrel]) and machines ([meq]) and shown
    to be preserved by every function of Store.v / PQ.v / DPQ.v / Iter.v /
    Machine.v, function by function as in HashIndep.v.  No functional
    extensionality. *)
From PQV Require Export PropSpec.

Section GhostIndep.
Context {I P : Type}.
Variable keq : I -> I -> bool.
Variable hash : I -> N.
Variable ple : P -> P -> bool.
Variable peq : P -> P -> bool.
Variable alloc_limit : N.

Notation store := (store I P).
Notation R := (res store).

(** ** the relations *)

(** equal except for [cap] *)
Definition ceq (s s' : store) : Prop := set_cap s 0%N = set_cap s' 0%N.

Inductive rrel {A} (RA : A -> A -> Prop) : R A -> R A -> Prop :=
  | rrel_ok a a' : RA a a' -> rrel RA (Ok a) (Ok a')
  | rrel_unw s s' : ceq s s' -> rrel RA (Unwound s) (Unwound s')
  | rrel_fault f : rrel RA (Fault f) (Fault f).

Lemma ceq_refl s : ceq s s.
Proof. reflexivity. Qed.

Lemma rrel_refl {A} (RA : A -> A -> Prop) (x : R A) :
  (forall a, RA a a) -> rrel RA x x.
Proof. intros H. destruct x; constructor; [apply H|reflexivity]. Qed.

Lemma rrel_bind {A B} (RA : A -> A -> Prop) (RB : B -> B -> Prop)
    (m m' : R A) (k k' : A -> R B) :
  rrel RA m m' -> (forall a a', RA a a' -> rrel RB (k a) (k' a')) ->
  rrel RB (m ≫= k) (m' ≫= k').
Proof.
  intros [a a' Ha|s s' Hs|f] Hk; cbn [mbind res_bind rbind];
    [by apply Hk|by constructor|constructor].
Qed.

(** relations on the usual result shapes *)
Notation pR := (prod_relation (@eq _) ceq).     (* (value, store) *)
Notation pL := (prod_relation ceq (@eq _)).     (* (store, value) *)

(** ** tactics *)

Ltac fields :=
  cbn [smap heap qp ssize ticks fuse cap set_map set_heap set_qp set_size
       set_ticks set_fuse set_cap fst snd mbind res_bind rbind mret res_ret].

Ltac ceq_inv H :=
  lazymatch type of H with
  | ceq ?s ?s' =>
      destruct s, s'; unfold ceq in H;
      cbn [smap heap qp ssize ticks fuse cap set_cap] in H;
      simplify_eq
  end.

Ltac rel_intro H :=
  cbn [fst snd] in H;
  lazymatch type of H with
  | ceq _ _ => ceq_inv H
  | prod_relation _ _ ?x ?y =>
      let H1 := fresh in let H2 := fresh in
      revert H; destruct x, y; intros [H1 H2]; rel_intro H1; rel_intro H2
  | eq _ _ => simplify_eq
  | _ => idtac
  end.

Ltac rel_solve :=
  solve [ exact eq_refl | eauto with ceq | split; rel_solve ].

Ltac rstep :=
  fields;
  lazymatch goal with
  | |- rrel _ ?x ?x => apply rrel_refl; intros; rel_solve
  | |- rrel _ (Ok _) (Ok _) => apply rrel_ok; rel_solve
  | |- rrel _ (Unwound _) (Unwound _) => apply rrel_unw; rel_solve
  | |- rrel _ (Fault _) (Fault _) => apply rrel_fault
  | |- rrel _ (mbind _ ?m) (mbind _ ?m) => destruct m
  | |- rrel _ (mbind _ (match ?x with _ => _ end)) (mbind _ (match ?x with _ => _ end)) =>
      destruct x
  | |- rrel _ (mbind _ (mbind ?k ?m)) (mbind _ (mbind _ _)) =>
      let H := fresh in
      lazymatch type of (mbind k m) with
      | res _ (_ * Store.store _ _)%type =>
          eapply (rrel_bind pR); [ solve [repeat rstep] | intros ? ? H; rel_intro H ]
      | res _ (Store.store _ _) =>
          eapply (rrel_bind ceq); [ solve [repeat rstep] | intros ? ? H; rel_intro H ]
      end
  | |- rrel _ (mbind _ ?m) (mbind _ ?m') =>
      first [ let H := fresh in
              assert (H : m = m') by (solve [eauto with ceq]);
              rewrite <- H; clear H
            | eapply rrel_bind;
              [ solve [eauto with ceq]
              | let H := fresh in intros ? ? H; rel_intro H ] ]
  | |- rrel _ (match ?x with _ => _ end) (match ?x with _ => _ end) => destruct x
  | |- rrel _ (match ?x with _ => _ end) (match ?y with _ => _ end) =>
      let H := fresh in
      assert (H : x = y) by (solve [eauto with ceq]);
      rewrite <- H; clear H
  | |- rrel _ _ _ => solve [eauto with ceq]
  end.

Ltac rgo := repeat rstep.

Local Hint Extern 1 (ceq _ _) => exact eq_refl : ceq.

(** start: destruct the two related stores *)
Ltac rstart :=
  intros;
  repeat match goal with H : ceq _ _ |- _ => ceq_inv H end.

(** ** Store.v *)

Lemma cb_ceq s s' : ceq s s' -> rrel ceq (cb s) (cb s').
Proof. rstart. unfold cb. rgo. Qed.
Local Hint Resolve cb_ceq : ceq.

Lemma cmp_lt_ceq s s' a b :
  ceq s s' -> rrel pR (cmp_lt ple s a b) (cmp_lt ple s' a b).
Proof. rstart. unfold cmp_lt. rgo. Qed.
Local Hint Resolve cmp_lt_ceq : ceq.

Lemma swap_ceq s s' a b : ceq s s' -> rrel ceq (swap s a b) (swap s' a b).
Proof. rstart. unfold swap. rgo. Qed.
Local Hint Resolve swap_ceq : ceq.

Lemma swap_remove_ceq s s' pos :
  ceq s s' -> rrel pR (swap_remove s pos) (swap_remove s' pos).
Proof. rstart. unfold swap_remove. rgo. Qed.
Local Hint Resolve swap_remove_ceq : ceq.

Lemma prio_at_ceq s s' pos : ceq s s' -> prio_at s pos = prio_at s' pos.
Proof. rstart. reflexivity. Qed.
Local Hint Resolve prio_at_ceq : ceq.

Lemma swap_remove_if_ceq s s' pos f :
  ceq s s' -> rrel pR (swap_remove_if s pos f) (swap_remove_if s' pos f).
Proof. rstart. unfold swap_remove_if. rgo. Qed.
Local Hint Resolve swap_remove_if_ceq : ceq.

Lemma change_priority_ceq s s' k p :
  ceq s s' -> rrel pR (change_priority keq hash s k p) (change_priority keq hash s' k p).
Proof. rstart. unfold change_priority. rgo. Qed.
Local Hint Resolve change_priority_ceq : ceq.

Lemma change_priority_by_ceq s s' k g :
  ceq s s' -> rrel pR (change_priority_by keq hash s k g) (change_priority_by keq hash s' k g).
Proof. rstart. unfold change_priority_by. rgo. Qed.
Local Hint Resolve change_priority_by_ceq : ceq.

Lemma get_ceq s s' k : ceq s s' -> Store.get keq hash s k = Store.get keq hash s' k.
Proof. rstart. reflexivity. Qed.
Lemma get_priority_ceq s s' k :
  ceq s s' -> get_priority keq hash s k = get_priority keq hash s' k.
Proof. rstart. reflexivity. Qed.
Local Hint Resolve get_ceq get_priority_ceq : ceq.

Lemma get_mut_ceq s s' k u :
  ceq s s' -> pR (get_mut keq hash s k u) (get_mut keq hash s' k u).
Proof.
  rstart. unfold get_mut. fields.
  destruct (get_index_of _ _ _ _); [|rel_solve]. destruct (_ !! _); rel_solve.
Qed.

Lemma remove_ceq s s' k :
  ceq s s' -> rrel pR (Store.remove keq hash s k) (Store.remove keq hash s' k).
Proof. rstart. unfold Store.remove. rgo. Qed.
Local Hint Resolve remove_ceq : ceq.

Lemma realign_ceq s s' : ceq s s' -> ceq (realign s) (realign s').
Proof. rstart. unfold realign. fields. destruct (decide _); exact eq_refl. Qed.
Local Hint Resolve realign_ceq : ceq.

Lemma retain_entries_ceq f todo : forall s s' done,
  ceq s s' -> rrel pR (retain_entries f s done todo) (retain_entries f s' done todo).
Proof.
  induction todo as [|e todo IH]; intros s s' done Hs; cbn [retain_entries].
  - constructor. by split.
  - destruct (cb_ceq _ _ Hs) as [s1 s1' H1|s1 s1' H1|x].
    + destruct (f e.1 e.2) as [ [i' p'] b]. by apply IH.
    + constructor. apply realign_ceq. rstart. exact eq_refl.
    + constructor.
Qed.
Local Hint Resolve retain_entries_ceq : ceq.

Lemma retain_mut_ceq s s' f : ceq s s' -> rrel ceq (retain_mut s f) (retain_mut s' f).
Proof. rstart. unfold retain_mut. rgo. Qed.
Local Hint Resolve retain_mut_ceq : ceq.

Lemma clear_ceq s s' : ceq s s' -> ceq (clear s) (clear s').
Proof. rstart. exact eq_refl. Qed.
Local Hint Resolve clear_ceq : ceq.

Lemma push_entry_ceq s s' e : ceq s s' -> ceq (push_entry s e) (push_entry s' e).
Proof. rstart. exact eq_refl. Qed.
Local Hint Resolve push_entry_ceq : ceq.

Lemma with_ghost_of_ceq g g' c c' :
  ceq g g' -> ceq c c' -> ceq (with_ghost_of g c) (with_ghost_of g' c').
Proof. rstart. exact eq_refl. Qed.
Local Hint Resolve with_ghost_of_ceq : ceq.

Lemma append_entries_ceq l : forall s s',
  ceq s s' -> ceq (append_entries keq hash s l) (append_entries keq hash s' l).
Proof.
  induction l as [|e l IH]; intros s s' Hs; cbn [append_entries]; [done|].
  apply IH. rstart. fields. destruct (get_index_of _ _ _ _); exact eq_refl.
Qed.
Local Hint Resolve append_entries_ceq : ceq.

Lemma append_ceq s s' o o' :
  ceq s s' -> ceq o o' ->
  prod_relation ceq ceq (append keq hash s o) (append keq hash s' o').
Proof.
  rstart. unfold append. fields.
  destruct (decide _); cbn [with_ghost_of ssize smap];
    (destruct (decide _); split; cbn [fst snd]; eauto with ceq).
Qed.

Lemma from_vec_ceq l : ceq (from_vec keq hash l) (from_vec keq hash l).
Proof. reflexivity. Qed.

Lemma reserve_ceq s s' n :
  ceq s s' -> rrel ceq (reserve alloc_limit s n) (reserve alloc_limit s' n).
Proof. rstart. unfold reserve. rgo. Qed.
Local Hint Resolve reserve_ceq : ceq.

Lemma try_reserve_ceq s s' n :
  ceq s s' -> pR (try_reserve alloc_limit s n) (try_reserve alloc_limit s' n).
Proof. rstart. unfold try_reserve. fields. destruct (decide _); rel_solve. Qed.

Lemma shrink_to_fit_ceq s s' : ceq s s' -> ceq (shrink_to_fit s) (shrink_to_fit s').
Proof. rstart. exact eq_refl. Qed.

Lemma extend_one_ceq s s' e :
  ceq s s' -> ceq (extend_one keq hash s e) (extend_one keq hash s' e).
Proof.
  rstart. unfold extend_one. fields. destruct (get_index_of _ _ _ _); exact eq_refl.
Qed.
Local Hint Resolve extend_one_ceq : ceq.

Lemma extend_entries_ceq l : forall s s',
  ceq s s' -> rrel ceq (extend_entries keq hash s l) (extend_entries keq hash s' l).
Proof.
  induction l as [|e l IH]; intros s s' Hs; cbn [extend_entries]; rgo.
Qed.
Local Hint Resolve extend_entries_ceq : ceq.

Lemma store_eq_ceq a a' b b' :
  ceq a a' -> ceq b b' -> store_eq keq hash peq a b = store_eq keq hash peq a' b'.
Proof. rstart. reflexivity. Qed.

(** ** PQ.v *)

Lemma pick_largest_ceq s s' i :
  ceq s s' -> rrel pR (pick_largest ple s i) (pick_largest ple s' i).
Proof. rstart. unfold pick_largest. rgo. Qed.
Local Hint Resolve pick_largest_ceq : ceq.

Lemma heapify_loop_ceq fuel : forall s s' i,
  ceq s s' -> rrel ceq (heapify_loop ple fuel s i) (heapify_loop ple fuel s' i).
Proof. induction fuel as [|fuel IH]; intros s s' i Hs; cbn [heapify_loop]; rgo. Qed.
Local Hint Resolve heapify_loop_ceq : ceq.

Lemma heapify_ceq s s' i : ceq s s' -> rrel ceq (heapify ple s i) (heapify ple s' i).
Proof. rstart. unfold heapify. rgo. Qed.
Local Hint Resolve heapify_ceq : ceq.

Lemma fill_hole_ceq s s' pos idx : ceq s s' -> ceq (fill_hole s pos idx) (fill_hole s' pos idx).
Proof. rstart. exact eq_refl. Qed.
Local Hint Resolve fill_hole_ceq : ceq.

Lemma cmp_lt_hole_ceq s s' pos idx a b :
  ceq s s' -> rrel pR (cmp_lt_hole ple s pos idx a b) (cmp_lt_hole ple s' pos idx a b).
Proof.
  intros Hs. unfold cmp_lt_hole.
  destruct (cmp_lt_ceq _ _ a b Hs); constructor; eauto with ceq.
Qed.
Local Hint Resolve cmp_lt_hole_ceq : ceq.

Lemma bubble_up_loop_ceq fuel : forall s s' pos idx p,
  ceq s s' ->
  rrel pR (bubble_up_loop ple fuel s pos idx p) (bubble_up_loop ple fuel s' pos idx p).
Proof.
  induction fuel as [|fuel IH]; intros s s' pos idx p Hs; cbn [bubble_up_loop]; rgo.
Qed.
Local Hint Resolve bubble_up_loop_ceq : ceq.

Lemma bubble_up_ceq s s' pos idx :
  ceq s s' -> rrel pR (bubble_up ple s pos idx) (bubble_up ple s' pos idx).
Proof. rstart. unfold bubble_up. rgo. Qed.
Local Hint Resolve bubble_up_ceq : ceq.

Lemma up_heapify_ceq s s' i :
  ceq s s' -> rrel ceq (up_heapify ple s i) (up_heapify ple s' i).
Proof. rstart. unfold up_heapify. rgo. Qed.
Local Hint Resolve up_heapify_ceq : ceq.

Lemma heap_build_loop_ceq n : forall s s',
  ceq s s' -> rrel ceq (heap_build_loop ple s n) (heap_build_loop ple s' n).
Proof. induction n as [|n IH]; intros s s' Hs; cbn [heap_build_loop]; rgo. Qed.
Local Hint Resolve heap_build_loop_ceq : ceq.

Lemma heap_build_ceq s s' : ceq s s' -> rrel ceq (heap_build ple s) (heap_build ple s').
Proof. rstart. unfold heap_build. rgo. Qed.
Local Hint Resolve heap_build_ceq : ceq.

Lemma peek_ceq s s' : ceq s s' -> peek s = peek s'.
Proof. rstart. reflexivity. Qed.

Lemma peek_mut_ceq s s' u : ceq s s' -> rrel pR (peek_mut s u) (peek_mut s' u).
Proof. rstart. unfold peek_mut. rgo. Qed.
Local Hint Resolve peek_mut_ceq : ceq.

Lemma pop_ceq s s' : ceq s s' -> rrel pR (pop ple s) (pop ple s').
Proof. rstart. unfold pop. rgo. Qed.
Local Hint Resolve pop_ceq : ceq.

Lemma pop_if_ceq s s' f : ceq s s' -> rrel pR (pop_if ple s f) (pop_if ple s' f).
Proof. rstart. unfold pop_if. rgo. Qed.
Local Hint Resolve pop_if_ceq : ceq.

Lemma push_ceq s s' k p :
  ceq s s' -> rrel pR (push keq hash ple s k p) (push keq hash ple s' k p).
Proof. rstart. unfold push. rgo. Qed.
Local Hint Resolve push_ceq : ceq.

Lemma push_increase_ceq s s' k p :
  ceq s s' -> rrel pR (push_increase keq hash ple s k p) (push_increase keq hash ple s' k p).
Proof. rstart. unfold push_increase. rgo. Qed.
Lemma push_decrease_ceq s s' k p :
  ceq s s' -> rrel pR (push_decrease keq hash ple s k p) (push_decrease keq hash ple s' k p).
Proof. rstart. unfold push_decrease. rgo. Qed.
Local Hint Resolve push_increase_ceq push_decrease_ceq : ceq.

Lemma pq_change_priority_ceq s s' k p :
  ceq s s' ->
  rrel pR (pq_change_priority keq hash ple s k p) (pq_change_priority keq hash ple s' k p).
Proof. rstart. unfold pq_change_priority. rgo. Qed.
Lemma pq_change_priority_by_ceq s s' k g :
  ceq s s' ->
  rrel pR (pq_change_priority_by keq hash ple s k g) (pq_change_priority_by keq hash ple s' k g).
Proof. rstart. unfold pq_change_priority_by. rgo. Qed.
Lemma pq_remove_ceq s s' k :
  ceq s s' -> rrel pR (pq_remove keq hash ple s k) (pq_remove keq hash ple s' k).
Proof. rstart. unfold pq_remove. rgo. Qed.
Local Hint Resolve pq_change_priority_ceq pq_change_priority_by_ceq pq_remove_ceq : ceq.

Lemma pop_all_ceq fuel : forall s s' acc,
  ceq s s' -> rrel pR (pop_all ple fuel s acc) (pop_all ple fuel s' acc).
Proof. induction fuel as [|fuel IH]; intros s s' acc Hs; cbn [pop_all]; rgo. Qed.
Local Hint Resolve pop_all_ceq : ceq.

Lemma into_sorted_vec_ceq s s' :
  ceq s s' -> rrel pR (into_sorted_vec ple s) (into_sorted_vec ple s').
Proof. rstart. unfold into_sorted_vec. rgo. Qed.

Lemma push_all_ceq l : forall s s',
  ceq s s' -> rrel ceq (push_all keq hash ple s l) (push_all keq hash ple s' l).
Proof. induction l as [|e l IH]; intros s s' Hs; cbn [push_all]; rgo. Qed.
Local Hint Resolve push_all_ceq : ceq.

Lemma extend_with_ceq (build : store -> R store) (pushall : store -> list (I * P) -> R store)
    s s' l h :
  (forall s s', ceq s s' -> rrel ceq (build s) (build s')) ->
  (forall s s' l, ceq s s' -> rrel ceq (pushall s l) (pushall s' l)) ->
  ceq s s' ->
  rrel ceq (extend_with keq hash alloc_limit build pushall s l h)
           (extend_with keq hash alloc_limit build pushall s' l h).
Proof. intros Hb Hp Hs. unfold extend_with. rgo. Qed.

Lemma pq_extend_ceq s s' l h :
  ceq s s' ->
  rrel ceq (pq_extend keq hash ple alloc_limit s l h) (pq_extend keq hash ple alloc_limit s' l h).
Proof. intros. apply extend_with_ceq; eauto with ceq. Qed.
Local Hint Resolve pq_extend_ceq : ceq.

(** ** DPQ.v *)

Lemma take_present_ceq s s' l : ceq s s' -> take_present s l = take_present s' l.
Proof.
  rstart. induction l as [|p l IH]; cbn [take_present heap]; [done|]. by rewrite IH.
Qed.
Lemma candidates_ceq s s' i : ceq s s' -> candidates s i = candidates s' i.
Proof. intros. unfold candidates. by apply take_present_ceq. Qed.
Local Hint Resolve candidates_ceq : ceq.

Lemma pick_min_from_ceq l : forall s s' cur curp,
  ceq s s' -> rrel pR (pick_min_from ple s cur curp l) (pick_min_from ple s' cur curp l).
Proof. induction l as [|y l IH]; intros s s' cur curp Hs; cbn [pick_min_from]; rgo. Qed.
Lemma pick_max_from_ceq l : forall s s' cur curp,
  ceq s s' -> rrel pR (pick_max_from ple s cur curp l) (pick_max_from ple s' cur curp l).
Proof. induction l as [|y l IH]; intros s s' cur curp Hs; cbn [pick_max_from]; rgo. Qed.
Local Hint Resolve pick_min_from_ceq pick_max_from_ceq : ceq.

Lemma pick_extreme_ceq mn s s' i :
  ceq s s' -> rrel pR (pick_extreme ple mn s i) (pick_extreme ple mn s' i).
Proof. intros Hs. unfold pick_extreme. rgo. Qed.
Local Hint Resolve pick_extreme_ceq : ceq.

Lemma cmp_dir_ceq mn s s' a b :
  ceq s s' -> rrel pR (cmp_dir ple mn s a b) (cmp_dir ple mn s' a b).
Proof. intros Hs. unfold cmp_dir. rgo. Qed.
Local Hint Resolve cmp_dir_ceq : ceq.

Lemma trickle_ceq mn fuel : forall s s' i,
  ceq s s' -> rrel ceq (trickle ple mn fuel s i) (trickle ple mn fuel s' i).
Proof. induction fuel as [|fuel IH]; intros s s' i Hs; cbn [trickle]; rstart; rgo. Qed.
Local Hint Resolve trickle_ceq : ceq.

Lemma dheapify_ceq s s' i : ceq s s' -> rrel ceq (dheapify ple s i) (dheapify ple s' i).
Proof. rstart. unfold dheapify. rgo. Qed.
Local Hint Resolve dheapify_ceq : ceq.

Lemma cmp_dir_hole_ceq mn s s' pos idx a b :
  ceq s s' ->
  rrel pR (match cmp_dir ple mn s a b with
           | Unwound u => Unwound (fill_hole u pos idx) | r => r end)
          (match cmp_dir ple mn s' a b with
           | Unwound u => Unwound (fill_hole u pos idx) | r => r end).
Proof.
  intros Hs. destruct (cmp_dir_ceq mn _ _ a b Hs); constructor; eauto with ceq.
Qed.
Local Hint Resolve cmp_dir_hole_ceq : ceq.

Lemma bubble_chain_ceq mn fuel : forall s s' pos idx p,
  ceq s s' ->
  rrel pR (bubble_chain ple mn fuel s pos idx p) (bubble_chain ple mn fuel s' pos idx p).
Proof.
  induction fuel as [|fuel IH]; intros s s' pos idx p Hs; cbn [bubble_chain]; rgo.
Qed.
Local Hint Resolve bubble_chain_ceq : ceq.

Lemma dbubble_up_ceq s s' pos idx :
  ceq s s' -> rrel pR (dbubble_up ple s pos idx) (dbubble_up ple s' pos idx).
Proof. rstart. unfold dbubble_up. rgo. Qed.
Local Hint Resolve dbubble_up_ceq : ceq.

Lemma dup_heapify_ceq s s' i :
  ceq s s' -> rrel ceq (dup_heapify ple s i) (dup_heapify ple s' i).
Proof. rstart. unfold dup_heapify. rgo. Qed.
Local Hint Resolve dup_heapify_ceq : ceq.

Lemma dheap_build_loop_ceq n : forall s s',
  ceq s s' -> rrel ceq (dheap_build_loop ple s n) (dheap_build_loop ple s' n).
Proof. induction n as [|n IH]; intros s s' Hs; cbn [dheap_build_loop]; rgo. Qed.
Local Hint Resolve dheap_build_loop_ceq : ceq.

Lemma dheap_build_ceq s s' : ceq s s' -> rrel ceq (dheap_build ple s) (dheap_build ple s').
Proof. rstart. unfold dheap_build. rgo. Qed.
Local Hint Resolve dheap_build_ceq : ceq.

Lemma find_max_ceq s s' : ceq s s' -> rrel pR (find_max ple s) (find_max ple s').
Proof. rstart. unfold find_max. rgo. Qed.
Local Hint Resolve find_max_ceq : ceq.

Lemma slot_entry_ceq s s' pos : ceq s s' -> slot_entry s pos = slot_entry s' pos.
Proof. rstart. reflexivity. Qed.
Local Hint Resolve slot_entry_ceq : ceq.

Lemma peek_min_ceq s s' : ceq s s' -> peek_min s = peek_min s'.
Proof. rstart. reflexivity. Qed.
Local Hint Resolve peek_min_ceq : ceq.

Lemma peek_max_ceq s s' : ceq s s' -> rrel pR (peek_max ple s) (peek_max ple s').
Proof. intros Hs. unfold peek_max. rgo. Qed.
Local Hint Resolve peek_max_ceq : ceq.

Lemma entry_mut_ceq s s' pos u : ceq s s' -> rrel pR (entry_mut s pos u) (entry_mut s' pos u).
Proof. rstart. unfold entry_mut. rgo. Qed.
Local Hint Resolve entry_mut_ceq : ceq.

Lemma peek_min_mut_ceq s s' u : ceq s s' -> rrel pR (peek_min_mut s u) (peek_min_mut s' u).
Proof. rstart. unfold peek_min_mut, find_min. rgo. Qed.
Lemma peek_max_mut_ceq s s' u :
  ceq s s' -> rrel pR (peek_max_mut ple s u) (peek_max_mut ple s' u).
Proof. intros Hs. unfold peek_max_mut. rgo. Qed.
Local Hint Resolve peek_min_mut_ceq peek_max_mut_ceq : ceq.

Lemma pop_at_ceq s s' pos : ceq s s' -> rrel pR (pop_at ple s pos) (pop_at ple s' pos).
Proof. intros Hs. unfold pop_at. rgo. Qed.
Local Hint Resolve pop_at_ceq : ceq.

Lemma pop_min_ceq s s' : ceq s s' -> rrel pR (pop_min ple s) (pop_min ple s').
Proof. rstart. unfold pop_min, find_min. rgo. Qed.
Lemma pop_max_ceq s s' : ceq s s' -> rrel pR (pop_max ple s) (pop_max ple s').
Proof. intros Hs. unfold pop_max. rgo. Qed.
Local Hint Resolve pop_min_ceq pop_max_ceq : ceq.

Lemma pop_min_if_ceq s s' f : ceq s s' -> rrel pR (pop_min_if ple s f) (pop_min_if ple s' f).
Proof. rstart. unfold pop_min_if, find_min. rgo. Qed.
Lemma pop_max_if_ceq s s' f : ceq s s' -> rrel pR (pop_max_if ple s f) (pop_max_if ple s' f).
Proof. intros Hs. unfold pop_max_if. rgo. Qed.
Local Hint Resolve pop_min_if_ceq pop_max_if_ceq : ceq.

Lemma dpush_ceq s s' k p :
  ceq s s' -> rrel pR (dpush keq hash ple s k p) (dpush keq hash ple s' k p).
Proof. rstart. unfold dpush. rgo. Qed.
Local Hint Resolve dpush_ceq : ceq.

Lemma dpush_increase_ceq s s' k p :
  ceq s s' -> rrel pR (dpush_increase keq hash ple s k p) (dpush_increase keq hash ple s' k p).
Proof. rstart. unfold dpush_increase. rgo. Qed.
Lemma dpush_decrease_ceq s s' k p :
  ceq s s' -> rrel pR (dpush_decrease keq hash ple s k p) (dpush_decrease keq hash ple s' k p).
Proof. rstart. unfold dpush_decrease. rgo. Qed.
Local Hint Resolve dpush_increase_ceq dpush_decrease_ceq : ceq.

Lemma dpq_change_priority_ceq s s' k p :
  ceq s s' ->
  rrel pR (dpq_change_priority keq hash ple s k p) (dpq_change_priority keq hash ple s' k p).
Proof. rstart. unfold dpq_change_priority. rgo. Qed.
Lemma dpq_change_priority_by_ceq s s' k g :
  ceq s s' ->
  rrel pR (dpq_change_priority_by keq hash ple s k g) (dpq_change_priority_by keq hash ple s' k g).
Proof. rstart. unfold dpq_change_priority_by. rgo. Qed.
Lemma dpq_remove_ceq s s' k :
  ceq s s' -> rrel pR (dpq_remove keq hash ple s k) (dpq_remove keq hash ple s' k).
Proof. rstart. unfold dpq_remove. rgo. Qed.
Local Hint Resolve dpq_change_priority_ceq dpq_change_priority_by_ceq dpq_remove_ceq : ceq.

Lemma dpush_all_ceq l : forall s s',
  ceq s s' -> rrel ceq (dpush_all keq hash ple s l) (dpush_all keq hash ple s' l).
Proof. induction l as [|e l IH]; intros s s' Hs; cbn [dpush_all]; rgo. Qed.
Local Hint Resolve dpush_all_ceq : ceq.

Lemma dpq_extend_ceq s s' l h :
  ceq s s' ->
  rrel ceq (dpq_extend keq hash ple alloc_limit s l h) (dpq_extend keq hash ple alloc_limit s' l h).
Proof. intros. apply extend_with_ceq; eauto with ceq. Qed.
Local Hint Resolve dpq_extend_ceq : ceq.

Lemma dpop_all_ceq mn fuel : forall s s' acc,
  ceq s s' -> rrel pR (dpop_all ple mn fuel s acc) (dpop_all ple mn fuel s' acc).
Proof. induction fuel as [|fuel IH]; intros s s' acc Hs; cbn [dpop_all]; rgo. Qed.
Local Hint Resolve dpop_all_ceq : ceq.

Lemma into_sorted_vec_dir_ceq mn s s' :
  ceq s s' -> rrel pR (into_sorted_vec_dir ple mn s) (into_sorted_vec_dir ple mn s').
Proof. rstart. unfold into_sorted_vec_dir. rgo. Qed.

(** ** Iter.v *)

Notation oR RA := (option_Forall2 (rrel RA)).

Lemma im_yield_ceq s s' slot w u :
  ceq s s' -> pL (im_yield s slot w u) (im_yield s' slot w u).
Proof. rstart. unfold im_yield. fields. destruct (_ !! _); rel_solve. Qed.

Lemma im_step_ceq k s s' st x :
  ceq s s' ->
  option_Forall2 (prod_relation (prod_relation ceq eq) eq)
    (im_step k s st x) (im_step k s' st x).
Proof.
  intros Hs. unfold im_step.
  destruct k, x; try (constructor; rel_solve);
    try (destruct (decide _); [constructor; rel_solve|]);
    match goal with
    | |- context [im_yield s ?a ?w ?u] =>
        destruct (im_yield_ceq s s' a w u Hs) as [H1 H2];
        destruct (im_yield s a w u), (im_yield s' a w u); cbn [fst snd] in H1, H2;
        subst; constructor; rel_solve
    end.
Qed.

Lemma im_it_ceq k t t' x :
  prod_relation ceq eq t t' ->
  oR (prod_relation (prod_relation ceq eq) eq) (im_it k t x) (im_it k t' x).
Proof.
  intros [H1 H2]. unfold im_it. rewrite <- H2.
  destruct (im_step_ceq k _ _ t.2 x H1) as [ [ [a b] c] [ [a' b'] c'] H|];
    cbn [mbind option_bind]; constructor. by constructor.
Qed.

Lemma sorted_it_ceq k s s' x :
  ceq s s' -> oR pL (sorted_it ple k s x) (sorted_it ple k s' x).
Proof.
  intros Hs. unfold sorted_it. destruct k, x; constructor; try (by rgo); rstart; rgo.
Qed.

Section Generic.
Context {T : Type}.
Variable RT : T -> T -> Prop.
Variable it : T -> istep I P -> option (R (T * sout I P)).
Hypothesis Hit : forall t t' x, RT t t' ->
  oR (prod_relation RT eq) (it t x) (it t' x).

Lemma inner_hint_rel t t' : RT t t' -> oR eq (inner_hint it t) (inner_hint it t').
Proof.
  intros Ht. unfold inner_hint.
  destruct (Hit t t' ISizeHint Ht) as [r r' Hr|]; cbn [mbind option_bind]; constructor.
  destruct Hr as [ [a o] [a' o'] [H1 H2]|? ? ?|f]; cbn [mbind res_bind rbind];
    [|by constructor|by constructor].
  cbn [fst snd] in H2; subst o'. apply rrel_refl; auto.
Qed.

Notation RR3 := (prod_relation (prod_relation RT (@eq nat)) (@eq (sout I P))).
Lemma ad_step_rel a left t t' x :
  RT t t' ->
  oR RR3 (ad_step it a left t x) (ad_step it a left t' x).
Proof.
  intros Ht. unfold ad_step.
  assert (Hd : forall y left', oR RR3
            (r ← it t y; Some ('(t', o) ← r; Ok (t', left', o)))
            (r ← it t' y; Some ('(t', o) ← r; Ok (t', left', o)))).
  { intros y left'.
    destruct (Hit t t' y Ht) as [r r' Hr|]; cbn [mbind option_bind]; constructor.
    destruct Hr as [ [b o] [b' o'] [H1 H2]|? ? ?|f]; cbn [mbind res_bind rbind];
      [|by constructor|by constructor].
    cbn [fst snd] in H1, H2; subst o'. constructor. by repeat split. }
  assert (Hh : forall (k : nat * option nat -> R (T * nat * sout I P))
                      (k' : nat * option nat -> R (T * nat * sout I P)),
            (forall h, rrel RR3 (k h) (k' h)) ->
            oR RR3
              (r ← inner_hint it t; Some (h ← r; k h))
              (r ← inner_hint it t'; Some (h ← r; k' h))).
  { intros k k' Hk.
    destruct (inner_hint_rel t t' Ht) as [r r' Hr|]; cbn [mbind option_bind]; constructor.
    destruct Hr as [h h' <-|? ? ?|f]; cbn [mbind res_bind rbind];
      [|by constructor|by constructor].
    apply Hk. }
  destruct a; [apply Hd|apply Hd| |constructor].
  destruct x; [|constructor| |].
  - destruct left; [|apply Hd]. constructor. constructor. by repeat split.
  - apply Hh. intros h. constructor. by repeat split.
  - apply Hh. intros h. constructor. by repeat split.
Qed.

Lemma it_run_rel a l : forall left t t' acc,
  RT t t' -> oR (prod_relation RT eq) (it_run it a left t l acc) (it_run it a left t' l acc).
Proof.
  induction l as [|x l IH]; intros left t t' acc Ht; cbn [it_run].
  - constructor. constructor. by split.
  - destruct (ad_step_rel a left t t' x Ht) as [r r' Hr|]; [|constructor].
    destruct Hr as [ [ [b n] o] [ [b' n'] o'] [ [H1 H2] H3]|? ? ?|f];
      try (by repeat constructor).
    cbn [fst snd] in H1, H2, H3; subst. by apply IH.
Qed.

Lemma adaptor_len_rel la t t' :
  RT t t' -> oR eq (adaptor_len it la t) (adaptor_len it la t').
Proof.
  intros Ht. unfold adaptor_len.
  assert (Hh : forall (k : nat * option nat -> R (res unit nat)),
            oR eq (r ← inner_hint it t; Some (h ← r; k h))
                  (r ← inner_hint it t'; Some (h ← r; k h))).
  { intros k.
    destruct (inner_hint_rel t t' Ht) as [r r' Hr|]; cbn [mbind option_bind]; constructor.
    destruct Hr as [h h' <-|? ? ?|f]; cbn [mbind res_bind rbind];
      [|by constructor|by constructor].
    apply rrel_refl; auto. }
  assert (Hl : oR eq
            (r ← it t ILen; Some ('(_, o) ← r; match o with SLen n => Ok n | _ => Fault Panic end))
            (r ← it t' ILen; Some ('(_, o) ← r; match o with SLen n => Ok n | _ => Fault Panic end))).
  { destruct (Hit t t' ILen Ht) as [r r' Hr|]; cbn [mbind option_bind]; constructor.
    destruct Hr as [ [b o] [b' o'] [H1 H2]|? ? ?|f]; cbn [mbind res_bind rbind];
      [|by constructor|by constructor].
    cbn [fst snd] in H2; subst o'. apply rrel_refl; auto. }
  destruct la; first [apply Hh | apply Hl].
Qed.

Lemma finish_script_rel a t t' script e :
  RT t t' ->
  oR (prod_relation RT eq) (finish_script it a t script e) (finish_script it a t' script e).
Proof.
  intros Ht. unfold finish_script.
  destruct (it_run_rel a script (match a with ATake n => n | _ => 0 end) t t' [] Ht)
    as [r r' Hr|]; cbn [mbind option_bind]; [|constructor].
  destruct Hr as [ [b outs] [b' outs'] [H1 H2]|? ? ?|f]; try (by repeat constructor).
  cbn [fst snd] in H1, H2; subst outs'.
  destruct e; try (constructor; constructor; by split).
  destruct a; try constructor.
  destruct (adaptor_len_rel la b b' H1) as [r r' Hr|]; cbn [mbind option_bind]; constructor.
  destruct Hr as [n n' <-|? ? ?|f]; cbn [mbind res_bind rbind];
      [|by constructor|by constructor].
  constructor. by split.
Qed.

End Generic.

(** ** Machine.v *)

Notation machine := (@Machine.machine I P).
Notation out := (@Machine.out I P).
Notation op := (@Machine.op I P).

Definition regrel : option (kind * store) -> option (kind * store) -> Prop :=
  option_Forall2 pR.
Definition meq (m m' : machine) : Prop := Forall2 regrel m m'.
Notation mR := (prod_relation meq (@eq out)).

Lemma regrel_refl x : regrel x x.
Proof. destruct x as [ [k s]|]; constructor. by split. Qed.
Lemma meq_refl m : meq m m.
Proof. unfold meq. induction m; constructor; auto using regrel_refl. Qed.

Lemma getreg_meq m m' r : meq m m' -> regrel (getreg m r) (getreg m' r).
Proof.
  intros Hm. unfold getreg, Machine.machine. unfold meq in Hm. rewrite Forall2_lookup in Hm.
  destruct (Hm r) as [x y Hxy|]; [exact Hxy|constructor].
Qed.

Lemma setreg_meq m m' r k s s' :
  meq m m' -> ceq s s' -> meq (setreg m r k s) (setreg m' r k s').
Proof. intros Hm Hs. apply Forall2_insert; [done|]. constructor. by split. Qed.

Lemma delreg_meq (m m' : machine) (r : nat) :
  meq m m' -> meq (<[r := None]> m) (<[r := None]> m').
Proof. intros Hm. apply Forall2_insert; [done|]. constructor. Qed.
Local Hint Resolve setreg_meq delreg_meq : ceq.

Lemma fin_meq m m' r k x x' :
  meq m m' -> rrel pR x x' -> mR (Machine.fin m r k x) (Machine.fin m' r k x').
Proof.
  intros Hm [ [o s] [o' s'] [H1 H2]|s s' Hs|f]; cbn [Machine.fin]; split; cbn [fst snd] in *;
    subst; eauto with ceq.
Qed.

Lemma fin_new_meq m m' r k x x' :
  meq m m' -> rrel ceq x x' -> mR (fin_new m r k x) (fin_new m' r k x').
Proof.
  intros Hm [s s' Hs|s s' Hs|f]; cbn [fin_new]; split; cbn [fst snd]; eauto with ceq.
Qed.

Lemma optE_ceq x x' : rrel pR x x' -> rrel pR (optE x) (optE x').
Proof. intros H. unfold optE. rgo. Qed.
Lemma optP_ceq x x' : rrel pR x x' -> rrel pR (optP x) (optP x').
Proof. intros H. unfold optP. rgo. Qed.
Lemma unitS_ceq x x' : rrel ceq x x' -> rrel pR (unitS x) (unitS x').
Proof. intros H. unfold unitS. rgo. Qed.
Local Hint Resolve optE_ceq optP_ceq unitS_ceq : ceq.

Lemma build_ceq k s s' : ceq s s' -> rrel ceq (build ple k s) (build ple k s').
Proof. intros Hs. destruct k; cbn [build]; eauto with ceq. Qed.
Local Hint Resolve build_ceq : ceq.

Lemma clone_cbs_ceq n : forall s s', ceq s s' -> rrel ceq (clone_cbs s n) (clone_cbs s' n).
Proof. induction n as [|n IH]; intros s s' Hs; cbn [clone_cbs]; rgo. Qed.
Local Hint Resolve clone_cbs_ceq : ceq.

Lemma map_meq (g : store -> store) (m m' : machine) :
  (forall s s', ceq s s' -> ceq (g s) (g s')) -> meq m m' ->
  meq ((fun x : option (kind * store) =>
          (fun ks : kind * store => (ks.1, g ks.2)) <$> x) <$> m)
      ((fun x : option (kind * store) =>
          (fun ks : kind * store => (ks.1, g ks.2)) <$> x) <$> m').
Proof.
  intros Hg Hm. apply Forall2_fmap_2. eapply Forall2_impl; [exact Hm|].
  intros x y [ [k s] [k' s'] [H1 H2]|]; constructor. split; cbn [fst snd] in *; auto.
Qed.

Lemma set_ticks_ceq t s s' : ceq s s' -> ceq (set_ticks s t) (set_ticks s' t).
Proof. rstart. exact eq_refl. Qed.
Lemma set_fuse_ceq f s s' : ceq s s' -> ceq (set_fuse s f) (set_fuse s' f).
Proof. rstart. exact eq_refl. Qed.
Local Hint Resolve set_ticks_ceq set_fuse_ceq : ceq.

Lemma reset_ticks_meq m m' : meq m m' -> meq (reset_ticks m) (reset_ticks m').
Proof. apply (map_meq (fun s => set_ticks s 0)). eauto with ceq. Qed.
Lemma arm_meq n m m' : meq m m' -> meq (arm n m) (arm n m').
Proof. apply (map_meq (fun s => set_fuse s (Some n))). eauto with ceq. Qed.
Lemma disarm_meq m m' : meq m m' -> meq (disarm m) (disarm m').
Proof. apply (map_meq (fun s => set_fuse s None)). eauto with ceq. Qed.

Lemma total_ticks_meq m m' : meq m m' -> total_ticks m = total_ticks m'.
Proof.
  induction 1 as [|x y m m' Hxy Hm IH]; cbn [total_ticks foldr]; [done|].
  fold (total_ticks m) (total_ticks m'). rewrite IH.
  destruct Hxy as [ [k s] [k' s'] [H1 H2]|]; [|done]. cbn [fst snd] in *.
  f_equal. clear -H2. rstart. reflexivity.
Qed.

Local Hint Resolve get_mut_ceq try_reserve_ceq append_ceq into_sorted_vec_ceq
  into_sorted_vec_dir_ceq shrink_to_fit_ceq meq_refl : ceq.

Ltac rel_for A :=
  lazymatch A with
  | Store.store _ _ => constr:(ceq)
  | (Store.store _ _ * Store.store _ _)%type => constr:(prod_relation ceq ceq)
  | (?X * Store.store _ _)%type => constr:(prod_relation (@eq X) ceq)
  | (Store.store _ _ * ?X)%type => constr:(prod_relation ceq (@eq X))
  end.

Ltac mstep Hm :=
  fields; cbn [drain]; try unfold optE; try unfold optP; try unfold unitS;
  lazymatch goal with
  | |- mR (_, _) (_, _) =>
      split; cbn [fst snd]; [ solve [eauto with ceq] | try reflexivity ]
  | |- mR (Machine.fin _ _ _ _) (Machine.fin _ _ _ _) =>
      apply fin_meq; [ solve [eauto with ceq] | solve [rgo] ]
  | |- mR (fin_new _ _ _ _) (fin_new _ _ _ _) =>
      apply fin_new_meq; [ solve [eauto with ceq] | solve [rgo] ]
  | |- mR (match getreg ?m ?r with _ => _ end) (match getreg ?m' ?r with _ => _ end) =>
      let Hk := fresh in let Hs := fresh in
      destruct (getreg_meq m m' r Hm) as [ [? ?] [? ?] [Hk Hs]|];
      [ cbn [fst snd] in Hk, Hs; subst; ceq_inv Hs | ]
  | |- mR (match ?x with _ => _ end) (match ?x with _ => _ end) => destruct x
  | |- mR (match ?x with _ => _ end) (match ?y with _ => _ end) =>
      let H := fresh in
      lazymatch type of x with
      | res _ ?A =>
          let RA := rel_for A in
          assert (H : rrel RA x y) by (solve [eauto with ceq | rgo]);
          destruct H as [? ? H|? ? H|?]; [rel_intro H|rel_intro H|]
      | (_ * _)%type =>
          let A := type of x in
          let RA := rel_for A in
          assert (H : RA x y) by (solve [eauto with ceq]);
          rel_intro H
      end
  end.

Lemma cap_out (c : N) (n : nat) :
  bool_decide (N.of_nat n <= N.max c (N.of_nat n))%N = true.
Proof. apply bool_decide_eq_true_2. lia. Qed.

Lemma step1_meq fz (m m' : machine) (o : op) :
  meq m m' ->
  mR (step1 keq hash ple peq alloc_limit fz m o) (step1 keq hash ple peq alloc_limit fz m' o).
Proof.
  intros Hm. destruct o; unfold step1.
  all: try (solve [repeat mstep Hm]).
  - (* OIterMut *)
    repeat mstep Hm. cbn [im_new smap].
    match goal with
    | |- mR (match finish_script ?it ?a ?t ?sc ?e with _ => _ end)
            (match finish_script _ _ ?t' _ _ with _ => _ end) =>
        destruct (finish_script_rel (prod_relation ceq eq) it (im_it_ceq _) a t t' sc e)
          as [x x' Hx|]; [by split| |]
    end; repeat mstep Hm.
  - (* OIntoSortedIter *)
    repeat mstep Hm.
    match goal with
    | |- mR (match finish_script ?it ?a ?t ?sc ?e with _ => _ end)
            (match finish_script _ _ ?t' _ _ with _ => _ end) =>
        destruct (finish_script_rel ceq it (sorted_it_ceq _) a t t' sc e)
          as [x x' [p p' Hx|? ? Hx|?]|]; [exact eq_refl|rel_intro Hx| | |]
    end; repeat mstep Hm.
  - (* OCapacity *)
    repeat mstep Hm. by rewrite !cap_out.
Qed.

Lemma step_meq (m m' : machine) (o : op) :
  meq (reset_ticks m) (reset_ticks m') ->
  mR (step keq hash ple peq alloc_limit m o) (step keq hash ple peq alloc_limit m' o).
Proof.
  intros Hm. unfold step. destruct o; try (by apply step1_meq).
  destruct (step1_meq (Some n) _ _ o (arm_meq n _ _ Hm)) as [H1 H2].
  destruct (step1 _ _ _ _ _ _ (arm n (reset_ticks m)) _) as [m1 x],
           (step1 _ _ _ _ _ _ (arm n (reset_ticks m')) _) as [m1' x'].
  split; cbn [fst snd] in *; [by apply disarm_meq|done].
Qed.

(** ** [meq] and [erase_m] *)

Lemma erase_ceq s s' : ceq s s' -> erase s = erase s'.
Proof. rstart. reflexivity. Qed.

Lemma erase_m_meq (m m' : machine) : meq m m' -> erase_m m = erase_m m'.
Proof.
  induction 1 as [|x y m m' Hxy Hm IH]; [done|].
  unfold erase_m in *. rewrite !fmap_cons. f_equal; [|exact IH].
  destruct Hxy as [ [k s] [k' s'] [H1 H2]|]; [|done]. cbn [fst snd] in *. subst k'.
  cbn. by rewrite (erase_ceq _ _ H2).
Qed.

Lemma meq_of_erase (m m' : machine) :
  erase_m m = erase_m m' -> meq (reset_ticks m) (reset_ticks m').
Proof.
  revert m'. induction m as [|x m IH]; intros [|y m'] H; try done.
  - constructor.
  - unfold erase_m in H. rewrite !fmap_cons in H. injection H as Hxy H.
    unfold reset_ticks. rewrite !fmap_cons. constructor; [|by apply IH].
    destruct x as [ [k s]|], y as [ [k' s']|]; try done; [|constructor].
    destruct s as [a1 a2 a3 a4 a5 a6 a7], s' as [b1 b2 b3 b4 b5 b6 b7].
    cbv [fmap option_fmap option_map erase fst snd
         smap heap qp ssize ticks fuse cap set_cap set_ticks] in Hxy.
    injection Hxy; intros; subst.
    constructor. split; [done|]. exact eq_refl.
Qed.

Lemma meq_erase_self (m : machine) : meq (reset_ticks m) (reset_ticks (erase_m m)).
Proof.
  induction m as [|x m IH]; [constructor|].
  unfold erase_m, reset_ticks in *. rewrite !fmap_cons. constructor; [|exact IH].
  destruct x as [ [k s]|]; constructor. split; [done|]. destruct s. exact eq_refl.
Qed.

(** ** the three statements *)

Theorem ghost_indep_step : ghost_indep_step_stmt keq hash ple peq alloc_limit.
Proof.
  intros m o. destruct (step_meq m (erase_m m) o (meq_erase_self m)) as [H1 H2].
  split; [exact H2|]. split; [by apply total_ticks_meq|by apply erase_m_meq].
Qed.

Theorem ghost_indep_run : ghost_indep_run_stmt keq hash ple peq alloc_limit.
Proof.
  intros h. induction h as [|o h IH]; intros m m' He; cbn [run]; [done|].
  destruct (step_meq m m' o (meq_of_erase _ _ He)) as [H1 H2].
  destruct (step keq hash ple peq alloc_limit m o) as [m1 x],
           (step keq hash ple peq alloc_limit m' o) as [m1' x'].
  cbn [fst snd] in H1, H2. subst x'. rewrite !fmap_cons. cbn [fst snd].
  rewrite (total_ticks_meq _ _ H1), (erase_m_meq _ _ H1). f_equal.
  destruct (is_fault x); [done|]. apply IH. by apply erase_m_meq.
Qed.

(** ** the capacity operations and clone *)

Lemma erase_m_reset (m : machine) : erase_m (reset_ticks m) = erase_m m.
Proof.
  induction m as [|x m IH]; [done|].
  unfold erase_m, reset_ticks in *. rewrite !fmap_cons. f_equal; [|exact IH].
  destruct x as [ [k s]|]; [|done]. by destruct s.
Qed.

Lemma getreg_lookup (m : machine) r ks :
  getreg m r = Some ks -> m !! r = Some (Some ks).
Proof.
  unfold getreg, Machine.machine. destruct (_ !! _) as [ [x|]|]; simpl; intros; by simplify_eq.
Qed.

Lemma getreg_erase (m : machine) r k s :
  getreg m r = Some (k, s) -> getreg (erase_m m) r = Some (k, erase s).
Proof.
  intros H%getreg_lookup. unfold getreg, erase_m, Machine.machine in *.
  by rewrite list_lookup_fmap, H.
Qed.

Lemma erase_m_setreg (m : machine) r k s :
  erase_m (setreg m r k s) = <[r := Some (k, erase s)]> (erase_m m).
Proof. unfold erase_m, setreg, Machine.machine. by rewrite list_fmap_insert. Qed.

Lemma erase_m_setreg_same (m : machine) r k s s' :
  getreg m r = Some (k, s) -> erase s' = erase s ->
  erase_m (setreg m r k s') = erase_m m.
Proof.
  intros Hr He. rewrite erase_m_setreg, He. apply list_insert_id.
  apply getreg_lookup. by apply getreg_erase.
Qed.

Theorem cap_ops_invisible : cap_ops_invisible_stmt keq hash ple peq alloc_limit.
Proof.
  intros m o. destruct o; try exact Logic.I; unfold step, step1;
    rewrite <- (erase_m_reset m); generalize (reset_ticks m); clear m; intros m.
  - (* OClone *)
    destruct (getreg m src) as [ [k s]|] eqn:Hr; [|done].
    destruct (clone_cbs s (length (smap s))); [|done|done]. intros _.
    exists (k, erase s). split; [by apply getreg_erase|].
    cbn [fst]. rewrite erase_m_setreg. by destruct s.
  - (* OCloneFrom *)
    destruct (decide (src = dst)); [done|].
    destruct (getreg m src) as [ [k s]|] eqn:Hr; [|done].
    destruct (getreg m dst) as [ [k' s']|]; [|done].
    destruct (decide (k = k')); [|done].
    destruct (clone_cbs s (length (smap s))); [|done|done]. intros _.
    exists (k, erase s). split; [by apply getreg_erase|].
    cbn [fst]. rewrite erase_m_setreg. by destruct s.
  - (* OReserve *)
    destruct (getreg m r) as [ [k s]|] eqn:Hr; [|done].
    unfold reserve. destruct (decide _); cbn; [|done]. intros _.
    eapply erase_m_setreg_same; [exact Hr|]. by destruct s.
  - (* OTryReserve *)
    destruct (getreg m r) as [ [k s]|] eqn:Hr; [|done].
    unfold try_reserve. destruct (decide _); cbn [fst snd]; intros _.
    + eapply erase_m_setreg_same; [exact Hr|]. by destruct s.
    + by eapply erase_m_setreg_same.
  - (* OShrink *)
    destruct (getreg m r) as [ [k s]|] eqn:Hr; [|done]. intros _. cbn [fst].
    eapply erase_m_setreg_same; [exact Hr|]. by destruct s.
  - (* OCapacity *)
    by destruct (getreg m r) as [ [k s]|].
Qed.

End GhostIndep.

Print Assumptions cap_ops_invisible.
Print Assumptions ghost_indep_step.
Print Assumptions ghost_indep_run.
