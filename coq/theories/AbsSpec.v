(** * AbsSpec: the statements to be proved about the abstract heap
    algorithms of Abs.v, as [Prop]s, so that the proof files cannot quietly
    weaken them:  AbsPQProofs.v / AbsDPQProofs.v must contain
    [Theorem foo : foo_stmt pr ple. ... Qed.] for each. *)
From PQV Require Export Abs.
From Coq Require Export Sorted.

Section Spec.
Context {E P : Type}.
Variable pr : E -> P.
Variable ple : P -> P -> bool.

(** Rust's [Ord] contract: a total preorder (ties allowed) *)
Definition ord_ok : Prop :=
  (forall a b, ple a b = true \/ ple b a = true) /\
  (forall a b c, ple a b = true -> ple b c = true -> ple a c = true).

Definition is_max (l : list E) (x : E) : Prop :=
  x ∈ l /\ forall y, y ∈ l -> ple (pr y) (pr x) = true.
Definition is_min (l : list E) (x : E) : Prop :=
  x ∈ l /\ forall y, y ∈ l -> ple (pr x) (pr y) = true.

Notation heap_ord := (heap_ord pr ple).
Notation minmax_ord := (minmax_ord pr ple).

(** ** max-heap *)
Definition heap_root_max_stmt : Prop := ord_ok ->
  forall l x, heap_ord l -> l !! 0 = Some x -> is_max l x.

Definition abuild_stmt : Prop := ord_ok ->
  forall l, heap_ord (abuild pr ple l).1 /\ (abuild pr ple l).1 ≡ₚ l.

Definition a_push_new_stmt : Prop := ord_ok ->
  forall l e, heap_ord l ->
    heap_ord (a_push_new pr ple l e).1 /\ (a_push_new pr ple l e).1 ≡ₚ e :: l.

Definition a_update_stmt : Prop := ord_ok ->
  forall l pos e', heap_ord l -> pos < length l ->
    heap_ord (a_update pr ple l pos e').1 /\
    (a_update pr ple l pos e').1 ≡ₚ <[pos := e']> l.

Definition a_remove_stmt : Prop := ord_ok ->
  forall l pos x, heap_ord l -> l !! pos = Some x ->
    heap_ord (a_remove pr ple l pos).1 /\ l ≡ₚ x :: (a_remove pr ple l pos).1.

Definition a_pop_stmt : Prop := ord_ok ->
  forall l, heap_ord l ->
    let '(r, l', _) := a_pop pr ple l in
    heap_ord l' /\ r = l !! 0 /\
    match r with Some x => l ≡ₚ x :: l' | None => l = [] /\ l' = [] end.

(** pop_if: whatever the predicate writes and answers *)
Definition a_pop_if_stmt : Prop := ord_ok ->
  forall l f, heap_ord l ->
    let '(r, l', _) := a_pop_if pr ple l f in
    heap_ord l' /\
    match l !! 0 with
    | None => r = None /\ l' = []
    | Some e =>
        let '(e', b) := f e in
        if b : bool then r = Some e' /\ l ≡ₚ e :: l'
        else r = None /\ l' ≡ₚ <[0 := e']> l
    end.

(** heap sort: non-increasing, and a permutation *)
Definition a_pop_all_stmt : Prop := ord_ok ->
  forall l, heap_ord l ->
    let out := (a_pop_all pr ple (S (length l)) l).1 in
    out ≡ₚ l /\ Sorted (fun a b => ple (pr b) (pr a) = true) out.

(** comparison counts *)
Definition pq_cost_stmt : Prop :=
  forall l : list E,
    let n := length l in
    (forall e, (a_push_new pr ple l e).2 <= Nat.log2 (n + 1) + 1) /\
    (forall pos e', pos < n -> (a_update pr ple l pos e').2 <= 3 * Nat.log2 n + 4) /\
    (forall pos, pos < n -> (a_remove pr ple l pos).2 <= 3 * Nat.log2 n + 4) /\
    (a_pop pr ple l).2 <= 2 * Nat.log2 n + 2 /\
    (forall f, (a_pop_if pr ple l f).2 <= 2 * Nat.log2 n + 2) /\
    (abuild pr ple l).2 <= 4 * n.

(** ** min-max heap *)
Definition minmax_root_min_stmt : Prop := ord_ok ->
  forall l x, minmax_ord l -> l !! 0 = Some x -> is_min l x.

Definition afind_max_stmt : Prop := ord_ok ->
  forall l, minmax_ord l ->
    match (afind_max pr ple l).1 with
    | None => l = []
    | Some pos => exists x, l !! pos = Some x /\ is_max l x
    end.

Definition adbuild_stmt : Prop := ord_ok ->
  forall l, minmax_ord (adbuild pr ple l).1 /\ (adbuild pr ple l).1 ≡ₚ l.

Definition a_dpush_new_stmt : Prop := ord_ok ->
  forall l e, minmax_ord l ->
    minmax_ord (a_dpush_new pr ple l e).1 /\ (a_dpush_new pr ple l e).1 ≡ₚ e :: l.

Definition a_dupdate_stmt : Prop := ord_ok ->
  forall l pos e', minmax_ord l -> pos < length l ->
    minmax_ord (a_dupdate pr ple l pos e').1 /\
    (a_dupdate pr ple l pos e').1 ≡ₚ <[pos := e']> l.

Definition a_dremove_stmt : Prop := ord_ok ->
  forall l pos x, minmax_ord l -> l !! pos = Some x ->
    minmax_ord (a_dremove pr ple l pos).1 /\ l ≡ₚ x :: (a_dremove pr ple l pos).1.

Definition a_pop_min_stmt : Prop := ord_ok ->
  forall l, minmax_ord l ->
    let '(r, l', _) := a_pop_min pr ple l in
    minmax_ord l' /\
    match r with
    | Some x => is_min l x /\ l !! 0 = Some x /\ l ≡ₚ x :: l'
    | None => l = [] /\ l' = []
    end.

Definition a_pop_max_stmt : Prop := ord_ok ->
  forall l, minmax_ord l ->
    let '(r, l', _) := a_pop_max pr ple l in
    minmax_ord l' /\
    match r with
    | Some x => is_max l x /\ l ≡ₚ x :: l' /\
                exists pos, (afind_max pr ple l).1 = Some pos /\ l !! pos = Some x
    | None => l = [] /\ l' = []
    end.

Definition a_pop_ext_if_stmt : Prop := ord_ok ->
  forall mx l f, minmax_ord l ->
    let '(r, l', _) := a_pop_ext_if pr ple mx l f in
    minmax_ord l' /\
    match (if mx then (afind_max pr ple l).1 else afind_min l) with
    | None => r = None /\ l = [] /\ l' = []
    | Some pos =>
        exists e, l !! pos = Some e /\
        let '(e', b) := f e in
        if b : bool then r = Some e' /\ l ≡ₚ e :: l'
        else r = None /\ l' ≡ₚ <[pos := e']> l
    end.

(** ascending / descending heap sort *)
Definition a_dpop_all_stmt : Prop := ord_ok ->
  forall l, minmax_ord l ->
    (let out := (a_dpop_all pr ple true (S (length l)) l).1 in
     out ≡ₚ l /\ Sorted (fun a b => ple (pr a) (pr b) = true) out) /\
    (let out := (a_dpop_all pr ple false (S (length l)) l).1 in
     out ≡ₚ l /\ Sorted (fun a b => ple (pr b) (pr a) = true) out).

Definition dpq_cost_stmt : Prop :=
  forall l : list E,
    let n := length l in
    (forall e, (a_dpush_new pr ple l e).2 <= Nat.log2 (n + 1) + 2) /\
    (forall pos e', pos < n -> (a_dupdate pr ple l pos e').2 <= 9 * Nat.log2 n + 20) /\
    (forall pos, pos < n -> (a_dremove pr ple l pos).2 <= 9 * Nat.log2 n + 20) /\
    (a_pop_min pr ple l).2 <= 4 * Nat.log2 n + 8 /\
    (a_pop_max pr ple l).2 <= 4 * Nat.log2 n + 9 /\
    (forall mx f, (a_pop_ext_if pr ple mx l f).2 <= 9 * Nat.log2 n + 21) /\
    (afind_max pr ple l).2 <= 1 /\
    (adbuild pr ple l).2 <= 16 * n.

End Spec.
