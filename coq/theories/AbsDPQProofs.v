(** * AbsDPQProofs: the min-max heap order theorems of AbsSpec.v.
    Helper layers: AbsDPQLevels.v, AbsDPQTrickle.v, AbsDPQBubble.v. *)
From PQV Require Import AbsDPQLevels AbsDPQTrickle.
From Coq Require Import Lia.

Section AbsDPQProofs.
Context {E P : Type}.
Variable pr : E -> P.
Variable ple : P -> P -> bool.

Notation gord := (gord_ex pr ple (fun _ => False)).

Theorem minmax_root_min : minmax_root_min_stmt pr ple.
Proof.
  intros Hord l x Hm%gord_ex_minmax Hx; [|done]. split.
  - by eapply elem_of_list_lookup_2.
  - intros y Hy. by eapply (root_min pr ple Hord l).
Qed.

Theorem afind_max_ok : afind_max_stmt pr ple.
Proof.
  intros Hord l Hm%gord_ex_minmax; [|done].
  pose proof (afind_max_aux pr ple Hord l Hm) as H.
  destruct ((afind_max pr ple l).1); [|done]. by destruct H.
Qed.

Theorem adbuild_ok : adbuild_stmt pr ple.
Proof.
  intros Hord l. destruct (adbuild_ok_aux pr ple Hord l) as [H1 H2].
  split; [|done]. by apply gord_ex_minmax.
Qed.

Theorem a_pop_min_ok : a_pop_min_stmt pr ple.
Proof.
  intros Hord l Hm. pose proof Hm as Hg. apply gord_ex_minmax in Hg; [|done].
  unfold a_pop_min, afind_min.
  destruct l as [|x0 l0] eqn:Hl; cbn [length].
  { split; [done|]. done. }
  rewrite <- Hl in *. assert (l !! 0 = Some x0) as H0 by (by subst l).
  unfold a_pop_at.
  destruct (pop_at_ok pr ple Hord l 0 x0 Hg H0) as [Hg1 Hp1]; [lia|].
  destruct (adheapify pr ple (aswap_remove l 0) 0) as [l' t]. cbn [fst] in *.
  rewrite H0. split; [by apply gord_ex_minmax|].
  split; [|done]. by apply (minmax_root_min Hord).
Qed.

Theorem a_pop_max_ok : a_pop_max_stmt pr ple.
Proof.
  intros Hord l Hm. pose proof Hm as Hg. apply gord_ex_minmax in Hg; [|done].
  unfold a_pop_max.
  pose proof (afind_max_aux pr ple Hord l Hg) as Hf.
  destruct (afind_max pr ple l) as [ [pos|] t] eqn:Hfm; cbn [fst] in Hf.
  2:{ subst l. done. }
  destruct Hf as (Hpos & x & Hx & Hmax).
  unfold a_pop_at.
  destruct (pop_at_ok pr ple Hord l pos x Hg Hx Hpos) as [Hg1 Hp1].
  destruct (adheapify pr ple (aswap_remove l pos) pos) as [l' t']. cbn [fst] in *.
  rewrite Hx. split; [by apply gord_ex_minmax|].
  split; [done|]. split; [done|]. by exists pos.
Qed.

End AbsDPQProofs.

Print Assumptions minmax_root_min.
Print Assumptions afind_max_ok.
Print Assumptions adbuild_ok.
Print Assumptions a_pop_min_ok.
Print Assumptions a_pop_max_ok.
