(** * AbsDPQProofs: the min-max heap order theorems of AbsSpec.v.
    Helper layers: AbsDPQLevels.v, AbsDPQTrickle.v, AbsDPQBubble.v. *)
From PQV Require Import AbsDPQLevels AbsDPQTrickle AbsDPQBubble.
From Coq Require Import Lia.

Section AbsDPQProofs.
Context {E P : Type}.
Variable pr : E -> P.
Variable ple : P -> P -> bool.

Notation gord := (gord_ex pr ple (fun _ => False)).

Theorem minmax_root_min : minmax_root_min_stmt pr ple.
Proof.
  intros Hord l x Hm%gord_ex_minmax Hx; [|done]. split.
  - by eapply elem_of_list_lookup_2.
  - intros y Hy. by eapply (root_min pr ple Hord l).
Qed.

Theorem afind_max_ok : afind_max_stmt pr ple.
Proof.
  intros Hord l Hm%gord_ex_minmax; [|done].
  pose proof (afind_max_aux pr ple Hord l Hm) as H.
  destruct ((afind_max pr ple l).1); [|done]. by destruct H.
Qed.

Theorem adbuild_ok : adbuild_stmt pr ple.
Proof.
  intros Hord l. destruct (adbuild_ok_aux pr ple Hord l) as [H1 H2].
  split; [|done]. by apply gord_ex_minmax.
Qed.

Theorem a_pop_min_ok : a_pop_min_stmt pr ple.
Proof.
  intros Hord l Hm. pose proof Hm as Hg. apply gord_ex_minmax in Hg; [|done].
  unfold a_pop_min, afind_min.
  destruct l as [|x0 l0] eqn:Hl; cbn [length].
  { split; [done|]. done. }
  rewrite <- Hl in *. assert (l !! 0 = Some x0) as H0 by (by subst l).
  unfold a_pop_at.
  destruct (pop_at_ok pr ple Hord l 0 x0 Hg H0) as [Hg1 Hp1]; [lia|].
  destruct (adheapify pr ple (aswap_remove l 0) 0) as [l' t]. cbn [fst] in *.
  rewrite H0. split; [by apply gord_ex_minmax|].
  split; [|done]. by apply (minmax_root_min Hord).
Qed.

Theorem a_pop_max_ok : a_pop_max_stmt pr ple.
Proof.
  intros Hord l Hm. pose proof Hm as Hg. apply gord_ex_minmax in Hg; [|done].
  unfold a_pop_max.
  pose proof (afind_max_aux pr ple Hord l Hg) as Hf.
  destruct (afind_max pr ple l) as [ [pos|] t] eqn:Hfm; cbn [fst] in Hf.
  2:{ subst l. done. }
  destruct Hf as (Hpos & x & Hx & Hmax).
  unfold a_pop_at.
  destruct (pop_at_ok pr ple Hord l pos x Hg Hx Hpos) as [Hg1 Hp1].
  destruct (adheapify pr ple (aswap_remove l pos) pos) as [l' t']. cbn [fst] in *.
  rewrite Hx. split; [by apply gord_ex_minmax|].
  split; [done|]. split; [done|]. by exists pos.
Qed.

Theorem a_dpush_new_ok : a_dpush_new_stmt pr ple.
Proof.
  intros Hord l e Hm%gord_ex_minmax; [|done].
  destruct (a_dpush_new_aux pr ple Hord l e Hm) as [H1 H2].
  split; [|done]. by apply gord_ex_minmax.
Qed.

Theorem a_dupdate_ok : a_dupdate_stmt pr ple.
Proof.
  intros Hord l pos e' Hm%gord_ex_minmax _; [|done].
  destruct (a_dupdate_aux pr ple Hord l pos e' Hm) as [H1 H2].
  split; [|done]. by apply gord_ex_minmax.
Qed.

Theorem a_dremove_ok : a_dremove_stmt pr ple.
Proof.
  intros Hord l pos x Hm%gord_ex_minmax Hx; [|done].
  destruct (a_dremove_aux pr ple Hord l pos x Hm Hx) as [H1 H2].
  split; [|done]. by apply gord_ex_minmax.
Qed.

Theorem a_pop_ext_if_ok : a_pop_ext_if_stmt pr ple.
Proof.
  intros Hord mx l f Hm%gord_ex_minmax; [|done].
  pose proof (a_pop_ext_if_aux pr ple Hord mx l f Hm) as H.
  destruct (a_pop_ext_if pr ple mx l f) as [ [r l'] t].
  destruct H as [H1 H2]. split; [|done]. by apply gord_ex_minmax.
Qed.

Lemma dpop_all_aux (Hord : ord_ok ple) mn fuel : forall l,
  minmax_ord pr ple l -> length l < fuel ->
  (a_dpop_all pr ple mn fuel l).1 ≡ₚ l /\
  Sorted (fun a b => led ple mn (pr a) (pr b) = true) (a_dpop_all pr ple mn fuel l).1.
Proof.
  induction fuel as [|fuel IH]; intros l Hm Hlen; [lia|].
  cbn [a_dpop_all].
  assert (let '(r, l', _) := (if mn then a_pop_min pr ple l else a_pop_max pr ple l) in
    minmax_ord pr ple l' /\
    match r with
    | Some x => (forall y, y ∈ l -> led ple mn (pr x) (pr y) = true) /\ l ≡ₚ x :: l'
    | None => l = []
    end) as Hpop.
  { destruct mn.
    - pose proof (a_pop_min_ok Hord l Hm) as H.
      destruct (a_pop_min pr ple l) as [ [r l'] t]. destruct H as [H1 H2]. split; [done|].
      destruct r; [|by destruct H2]. destruct H2 as ([_ Hmin] & _ & Hp). by split.
    - pose proof (a_pop_max_ok Hord l Hm) as H.
      destruct (a_pop_max pr ple l) as [ [r l'] t]. destruct H as [H1 H2]. split; [done|].
      destruct r; [|by destruct H2]. destruct H2 as ([_ Hmax] & Hp & _). by split. }
  destruct (if mn then a_pop_min pr ple l else a_pop_max pr ple l) as [ [r l'] t].
  destruct Hpop as [Hm' Hr]. destruct r as [x|]; cbn [fst].
  2:{ subst l. split; [done|constructor]. }
  destruct Hr as [Hmin Hp].
  destruct (IH l' Hm') as [Hp' Hs'].
  { apply Permutation_length in Hp. cbn [length] in Hp. lia. }
  destruct (a_dpop_all pr ple mn fuel l') as [out t']. cbn [fst] in *.
  split; [by rewrite Hp, Hp'|].
  constructor; [done|]. destruct out as [|z out']; constructor.
  apply Hmin. rewrite Hp. right. rewrite <- Hp'. left.
Qed.

Theorem a_dpop_all_ok : a_dpop_all_stmt pr ple.
Proof.
  intros Hord l Hm. split.
  - apply (dpop_all_aux Hord true); [done|lia].
  - apply (dpop_all_aux Hord false); [done|lia].
Qed.

End AbsDPQProofs.

Print Assumptions minmax_root_min.
Print Assumptions afind_max_ok.
Print Assumptions adbuild_ok.
Print Assumptions a_pop_min_ok.
Print Assumptions a_pop_max_ok.
Print Assumptions a_dpush_new_ok.
Print Assumptions a_dupdate_ok.
Print Assumptions a_dremove_ok.
Print Assumptions a_pop_ext_if_ok.
Print Assumptions a_dpop_all_ok.
