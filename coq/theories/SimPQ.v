(** * SimPQ: on a well-formed store the routines of PQ.v compute exactly the
    list-level algorithms of Abs.v on [eview s]. *)
From PQV Require Export Inv PQ.

Arguments Nat.mul : simpl never.
Arguments Nat.add : simpl never.
Arguments Nat.div : simpl never.
Arguments Nat.sub : simpl never.

Section SimPQ.
Context {I P : Type}.
Variable keq : I -> I -> bool.
Variable hash : I -> N.
Variable ple : P -> P -> bool.

Notation store := (store I P).
Notation R := (res store).
Notation pr := (snd : I * P -> P).

(* TEMPORARY: to be replaced by the theorems of StoreProofs.v *)
Hypothesis eview_lookup : @eview_lookup_stmt I P keq.
Hypothesis eview_length : @eview_length_stmt I P keq.
Hypothesis prio_at_ok : @prio_at_ok_stmt I P keq.
Hypothesis swap_ok : @swap_ok_stmt I P keq.
Hypothesis swap_remove_ok : @swap_remove_ok_stmt I P keq.
Hypothesis remove_ok : @remove_ok_stmt I P keq hash.
Hypothesis set_entry_ok : @set_entry_ok_stmt I P keq hash.
Hypothesis push_entry_ok : @push_entry_ok_stmt I P keq hash.
Hypothesis identity_ok : @identity_ok_stmt I P keq.
Hypothesis hole_move_ok : @hole_move_ok_stmt I P keq.
Hypothesis get_index_of_spec : @get_index_of_spec_stmt I P keq hash.

Notation WF := (WF keq).

Ltac splits := repeat match goal with |- _ /\ _ => split end.

Lemma cb_nofuse (s : store) : fuse s = None -> cb s = Ok s.
Proof. unfold cb. intros ->. reflexivity. Qed.

Lemma cmp_lt_nofuse (s : store) a b :
  fuse s = None -> cmp_lt ple s a b = Ok (plt ple a b, set_ticks s (S (ticks s))).
Proof. intros H. unfold cmp_lt. rewrite cb_nofuse by done. reflexivity. Qed.

Lemma cmp_lt_hole_nofuse (s : store) pos idx a b :
  fuse s = None ->
  cmp_lt_hole ple s pos idx a b = Ok (plt ple a b, set_ticks s (S (ticks s))).
Proof. intros H. unfold cmp_lt_hole. rewrite cmp_lt_nofuse by done. reflexivity. Qed.

Lemma plt_alt a b : plt ple a b = alt ple a b.
Proof. reflexivity. Qed.


(** a result of a concrete routine: Ok with a well-formed store whose view,
    tick count and untouched parts are as given *)
Definition sim (s : store) (r : R store) (l' : list (I * P)) (t : nat) : Prop :=
  exists s', r = Ok s' /\ WF s' /\ eview s' = l' /\
    smap s' = smap s /\ ssize s' = ssize s /\
    ticks s' = ticks s + t /\ fuse s' = fuse s /\ cap s' = cap s.

Lemma sim_intro (s s' : store) r l' t :
  r = Ok s' -> WF s' -> eview s' = l' -> smap s' = smap s -> ssize s' = ssize s ->
  ticks s' = ticks s + t -> fuse s' = fuse s -> cap s' = cap s -> sim s r l' t.
Proof. intros. exists s'. repeat (split; [assumption|]). assumption. Qed.

Lemma WF_set_ticks (s : store) t : WF s -> WF (set_ticks s t).
Proof. intros H; exact H. Qed.
Lemma eview_set_ticks (s : store) t : eview (set_ticks s t) = eview s.
Proof. reflexivity. Qed.

Lemma eview_lt (s : store) p e : WF s -> eview s !! p = Some e -> p < ssize s.
Proof.
  intros H Hl. rewrite <- (eview_length s H). eapply lookup_lt_Some; eauto.
Qed.
Lemma eview_some (s : store) p : WF s -> p < ssize s -> exists e, eview s !! p = Some e.
Proof.
  intros H Hl. apply lookup_lt_is_Some. rewrite (eview_length s H). done.
Qed.

Lemma pick_largest_sim (s : store) i :
  WF s -> fuse s = None -> i < ssize s ->
  pick_largest ple s i =
    Ok ((apick pr ple (eview s) i).1, set_ticks s (ticks s + (apick pr ple (eview s) i).2)).
Proof.
  intros HWF Hf Hi. unfold pick_largest, apick.
  destruct (eview_some s i HWF Hi) as [x Hx]. rewrite Hx.
  rewrite (prio_at_ok s i x HWF Hx). cbn [mbind res_bind rbind].
  destruct (decide (left i < ssize s)) as [Hl|Hl].
  - destruct (eview_some s _ HWF Hl) as [xl Hxl]. rewrite Hxl.
    rewrite (prio_at_ok s _ xl HWF Hxl). cbn [mbind res_bind rbind].
    rewrite cmp_lt_nofuse by done. cbn [mbind res_bind rbind]. rewrite plt_alt.
    set (s1 := set_ticks s (S (ticks s))).
    assert (HWF1 : WF s1) by exact HWF.
    destruct (decide (right i < ssize s1)) as [Hr|Hr].
    + destruct (eview_some s _ HWF Hr) as [xr Hxr]. rewrite Hxr.
      destruct (alt ple x.2 xl.2) eqn:Hb; cbn [mbind res_bind rbind];
        rewrite (prio_at_ok s1 _ xr HWF1 Hxr); cbn [mbind res_bind rbind];
        rewrite cmp_lt_nofuse by done; cbn [mbind res_bind rbind]; rewrite plt_alt;
        cbn [fst snd]; do 2 f_equal; unfold s1, set_ticks; cbn; f_equal; lia.
    + assert (eview s !! right i = None) as ->.
      { apply lookup_ge_None. rewrite (eview_length s HWF). change (ssize s1) with (ssize s) in Hr. lia. }
      destruct (alt ple x.2 xl.2) eqn:Hb; cbn [fst snd]; do 2 f_equal;
        unfold s1, set_ticks; cbn; f_equal; lia.
  - assert (eview s !! left i = None) as ->.
    { apply lookup_ge_None. rewrite (eview_length s HWF). lia. }
    cbn [fst snd]. do 2 f_equal. destruct s; unfold set_ticks; cbn; f_equal; lia.
Qed.


Lemma apick_range (l : list (I * P)) i :
  (apick pr ple l i).1 = i \/
  ((apick pr ple l i).1 = left i \/ (apick pr ple l i).1 = right i) /\ (apick pr ple l i).1 < length l.
Proof.
  unfold apick. destruct (l !! i) as [x|] eqn:Hx; [|left; done].
  destruct (l !! left i) as [xl|] eqn:Hxl; [|left; done].
  pose proof (lookup_lt_Some _ _ _ Hxl).
  destruct (l !! right i) as [xr|] eqn:Hxr.
  - pose proof (lookup_lt_Some _ _ _ Hxr).
    destruct (alt ple x.2 xl.2); cbn [fst snd].
    + destruct (alt ple xl.2 xr.2); right; split; auto.
    + destruct (alt ple x.2 xr.2); [right; split; auto | left; done].
  - destruct (alt ple x.2 xl.2); cbn [fst snd]; [right; split; auto | left; done].
Qed.

Lemma sim_ticks_le (s : store) r l t : sim s r l t -> True.
Proof. done. Qed.

Lemma heapify_loop_sim (fuel : nat) : forall (s : store) i,
  WF s -> fuse s = None -> i < ssize s -> ssize s - i < fuel ->
  sim s (heapify_loop ple fuel s i)
      (asift_down pr ple fuel (eview s) i).1 (asift_down pr ple fuel (eview s) i).2.
Proof.
  induction fuel as [|fuel IH]; intros s i HWF Hf Hi Hfuel; [lia|].
  cbn [heapify_loop asift_down].
  rewrite pick_largest_sim by done. cbn [mbind res_bind rbind].
  destruct (apick pr ple (eview s) i) as [lg t] eqn:Hp. cbn [fst snd].
  pose proof (apick_range (eview s) i) as Hr. rewrite Hp in Hr. cbn [fst snd] in Hr.
  destruct (decide (lg = i)) as [->|Hne].
  - cbn [fst snd]. by apply (sim_intro s (set_ticks s (ticks s + t))).
  - destruct Hr as [?|[Hlr Hlt]]; [done|].
    rewrite (eview_length s HWF) in Hlt.
    set (s1 := set_ticks s (ticks s + t)).
    assert (HWF1 : WF s1) by exact HWF.
    destruct (swap_ok s1 i lg HWF1 Hi Hlt) as (s2 & Hsw & HWF2 & (Hm & Hsz & Htk & Hfu & Hcp) & Hev).
    rewrite Hsw. cbn [mbind res_bind rbind].
    change (eview s1) with (eview s) in Hev.
    assert (Hlg : i < lg) by (unfold left, right in Hlr; lia).
    specialize (IH s2 lg HWF2).
    rewrite Hev in IH.
    destruct (asift_down pr ple fuel (aswap (eview s) i lg) lg) as [l' t'] eqn:Hsd.
    cbn [fst snd] in IH |- *.
    destruct IH as (s3 & Hr3 & HWF3 & Hev3 & Hm3 & Hsz3 & Htk3 & Hfu3 & Hcp3).
    { rewrite Hfu. done. } { rewrite Hsz. done. } { rewrite Hsz. change (ssize s1) with (ssize s). lia. }
    apply (sim_intro s s3); try done.
    + rewrite Hm3, Hm. done.
    + rewrite Hsz3, Hsz. done.
    + rewrite Htk3, Htk. unfold s1. cbn. lia.
    + rewrite Hfu3, Hfu. done.
    + rewrite Hcp3, Hcp. done.
Qed.

Lemma heapify_sim (s : store) i :
  WF s -> fuse s = None -> (1 < ssize s -> i < ssize s) ->
  sim s (heapify ple s i) (aheapify pr ple (eview s) i).1 (aheapify pr ple (eview s) i).2.
Proof.
  intros HWF Hf Hi. unfold heapify, aheapify. rewrite (eview_length s HWF).
  destruct (decide (ssize s <= 1)).
  - cbn [fst snd]. apply (sim_intro s s); try done; lia.
  - apply heapify_loop_sim; try done; lia.
Qed.


(** ** the moving hole *)
Lemma par_S k : par (S k) = k / 2.
Proof. unfold par. replace (S k - 1) with k by lia. done. Qed.
Lemma par_lt k : par (S k) < S k.
Proof. rewrite par_S. pose proof (Nat.div_lt_upper_bound k 2 (S k)). lia. Qed.

Lemma fill_prio_at (s : store) pos idx p :
  p <> pos -> prio_at (fill s pos idx) p = prio_at s p.
Proof.
  intros Hne. unfold prio_at, fill, getu. cbn.
  rewrite list_lookup_insert_ne by done. done.
Qed.

Lemma WF_fill_facts (s : store) pos idx :
  WF (fill s pos idx) ->
  length (heap s) = ssize s /\ length (qp s) = ssize s /\ length (smap s) = ssize s.
Proof.
  intros (Hm & (Hh & Hq & _) & _). cbn in *.
  rewrite insert_length in Hh, Hq. done.
Qed.

Lemma fill_heap_lookup (s : store) pos idx p i :
  WF (fill s pos idx) -> p <> pos -> p < ssize s ->
  heap (fill s pos idx) !! p = Some i -> heap s !! p = Some i /\ i < ssize s /\ i <> idx.
Proof.
  intros HWF Hne Hp Hl.
  pose proof HWF as (Hm & (Hh & Hq & H1 & H2) & _).
  pose proof (H1 _ _ Hl) as Hqi.
  split; [|split].
  - cbn in Hl. rewrite list_lookup_insert_ne in Hl by done. done.
  - apply lookup_lt_Some in Hqi. rewrite Hq in Hqi. done.
  - intros ->. cbn in Hqi. destruct (WF_fill_facts _ _ _ HWF) as (Lh & Lq & Lm).
    assert (idx < length (qp s)) by (apply lookup_lt_Some in Hqi; rewrite insert_length in Hqi; done).
    rewrite list_lookup_insert in Hqi by done. congruence.
Qed.

Lemma eview_fill_pos (s : store) pos idx :
  WF (fill s pos idx) -> pos < ssize s -> eview (fill s pos idx) !! pos = smap s !! idx.
Proof.
  intros HWF Hp. rewrite (eview_lookup _ _ HWF).
  destruct (WF_fill_facts _ _ _ HWF) as (Lh & Lq & Lm).
  cbn. rewrite list_lookup_insert by lia. done.
Qed.

Lemma bubble_up_loop_sim (fuel : nat) : forall (s : store) pos idx e,
  WF (fill s pos idx) -> fuse s = None -> pos < ssize s -> smap s !! idx = Some e ->
  pos < fuel ->
  exists s' pos' l' t,
    asift_up pr ple fuel (eview (fill s pos idx)) pos = (l', pos', t) /\
    bubble_up_loop ple fuel s pos idx e.2 = Ok (pos', s') /\
    WF (fill s' pos' idx) /\ eview (fill s' pos' idx) = l' /\
    smap s' = smap s /\ ssize s' = ssize s /\ ticks s' = ticks s + t /\
    fuse s' = fuse s /\ cap s' = cap s /\ pos' <= pos.
Proof.
  induction fuel as [|fuel IH]; intros s pos idx e HWF Hf Hp He Hfuel; [lia|].
  cbn [bubble_up_loop asift_up].
  destruct pos as [|k].
  { exists s, 0, (eview (fill s 0 idx)), 0. splits; try done; lia. }
  rewrite par_S. cbn [parent mbind res_bind rbind]. rewrite <- (par_S k).
  set (pa := par (S k)). assert (Hpa : pa < S k) by apply par_lt.
  destruct (WF_fill_facts _ _ _ HWF) as (Lh & Lq & Lm).
  assert (Hpas : pa < ssize s) by lia.
  destruct (eview_some _ pa HWF Hpas) as [xp Hxp].
  rewrite Hxp. rewrite (eview_fill_pos s (S k) idx HWF Hp), He.
  rewrite <- (fill_prio_at s (S k) idx pa) by lia.
  rewrite (prio_at_ok _ _ _ HWF Hxp). cbn [mbind res_bind rbind].
  rewrite cmp_lt_hole_nofuse by done. cbn [mbind res_bind rbind]. change (plt ple xp.2 e.2) with (alt ple xp.2 e.2).
  set (s1 := set_ticks s (S (ticks s))).
  destruct (alt ple xp.2 e.2) eqn:Hb.
  - (* the parent moves down *)
    pose proof Hxp as Hxp'. rewrite (eview_lookup _ _ HWF) in Hxp'.
    destruct (heap (fill s (S k) idx) !! pa) as [pidx|] eqn:Hpidx; [|done].
    destruct (fill_heap_lookup s (S k) idx pa pidx HWF ltac:(lia) Hpas Hpidx) as (Hh & Hpi & Hpne).
    change (heap s1) with (heap s). change (qp s1) with (qp s).
    unfold getu. rewrite Hh. cbn [mbind res_bind rbind].
    unfold setu. rewrite decide_True by lia. cbn [mbind res_bind rbind].
    rewrite decide_True by lia. cbn [mbind res_bind rbind].
    change (set_qp (set_heap s1 (<[S k:=pidx]> (heap s))) (<[pidx:=S k]> (qp s)))
      with (hole_move s1 (S k) pa pidx).
    assert (HWF1 : WF (fill s1 (S k) idx)) by exact HWF.
    destruct (hole_move_ok s1 (S k) pa idx pidx HWF1 Hp Hpas ltac:(lia) Hh) as (HWF2 & _ & Hev2).
    set (s2 := hole_move s1 (S k) pa pidx) in *.
    destruct (IH s2 pa idx e HWF2 Hf Hpas He ltac:(lia))
      as (s' & pos' & l' & t & Hab & Hco & HWF' & Hev' & Hm' & Hsz' & Htk' & Hfu' & Hcp' & Hle).
    change (eview (fill s1 (S k) idx)) with (eview (fill s (S k) idx)) in Hev2.
    rewrite Hev2 in Hab. rewrite Hab.
    exists s', pos', l', (S t). splits; try done; try lia.
    rewrite Htk'. unfold s2, s1. cbn. lia.
  - exists s1, (S k), (eview (fill s (S k) idx)), 1.
    splits; try done; try lia. unfold s1; cbn; lia.
Qed.


Lemma bubble_up_sim (s : store) pos idx :
  WF (fill s pos idx) -> fuse s = None -> pos < ssize s -> idx < ssize s ->
  exists s' pos' l' t,
    asift_up pr ple (S pos) (eview (fill s pos idx)) pos = (l', pos', t) /\
    bubble_up ple s pos idx = Ok (pos', s') /\
    WF s' /\ eview s' = l' /\
    smap s' = smap s /\ ssize s' = ssize s /\ ticks s' = ticks s + t /\
    fuse s' = fuse s /\ cap s' = cap s /\ pos' <= pos.
Proof.
  intros HWF Hf Hp Hi.
  destruct (WF_fill_facts _ _ _ HWF) as (Lh & Lq & Lm).
  destruct (lookup_lt_is_Some_2 (smap s) idx ltac:(lia)) as [e He].
  destruct (bubble_up_loop_sim (S pos) s pos idx e HWF Hf Hp He ltac:(lia))
    as (s1 & pos' & l' & t & Hab & Hco & HWF' & Hev' & Hm' & Hsz' & Htk' & Hfu' & Hcp' & Hle).
  destruct (WF_fill_facts _ _ _ HWF') as (Lh' & Lq' & Lm').
  exists (fill s1 pos' idx), pos', l', t.
  splits; try done.
  unfold bubble_up. rewrite He. cbn [unwrap mbind res_bind rbind].
  rewrite Hco. cbn [mbind res_bind rbind].
  unfold setu. rewrite decide_True by lia. cbn [mbind res_bind rbind].
  rewrite decide_True by lia. cbn [mbind res_bind rbind]. done.
Qed.

Lemma fill_id (s : store) pos idx :
  heap s !! pos = Some idx -> qp s !! idx = Some pos -> fill s pos idx = s.
Proof.
  intros Hh Hq. unfold fill. destruct s. cbn in *.
  rewrite (list_insert_id _ _ _ Hh), (list_insert_id _ _ _ Hq). done.
Qed.

Lemma WF_heap_lookup (s : store) p :
  WF s -> p < ssize s -> exists i, heap s !! p = Some i /\ qp s !! i = Some p /\ i < ssize s.
Proof.
  intros (Hm & (Hh & Hq & H1 & H2) & _) Hp.
  destruct (lookup_lt_is_Some_2 (heap s) p ltac:(lia)) as [i Hi].
  exists i. split; [done|]. split; [eauto|].
  pose proof (H1 _ _ Hi) as Hqi. apply lookup_lt_Some in Hqi. lia.
Qed.

Lemma up_heapify_sim (s : store) i :
  WF s -> fuse s = None -> i < ssize s ->
  sim s (up_heapify ple s i) (aup_heapify pr ple (eview s) i).1 (aup_heapify pr ple (eview s) i).2.
Proof.
  intros HWF Hf Hi.
  destruct (WF_heap_lookup s i HWF Hi) as (tmp & Hh & Hq & Ht).
  unfold up_heapify, aup_heapify, getu. rewrite Hh. cbn [mbind res_bind rbind].
  pose proof (fill_id s i tmp Hh Hq) as Hfill.
  assert (HWFf : WF (fill s i tmp)) by (rewrite Hfill; done).
  destruct (bubble_up_sim s i tmp HWFf Hf Hi Ht)
    as (s1 & pos' & l' & t & Hab & Hco & HWF' & Hev' & Hm' & Hsz' & Htk' & Hfu' & Hcp' & Hle).
  rewrite Hfill in Hab. rewrite Hab, Hco. cbn [mbind res_bind rbind].
  destruct (heapify_sim s1 pos' HWF' ltac:(congruence) ltac:(lia))
    as (s2 & Hr2 & HWF2 & Hev2 & Hm2 & Hsz2 & Htk2 & Hfu2 & Hcp2).
  rewrite Hev' in Hev2, Htk2.
  destruct (aheapify pr ple l' pos') as [l2 t2] eqn:Hah. cbn [fst snd] in *.
  apply (sim_intro s s2); try congruence. lia.
Qed.

Lemma heap_build_loop_sim (n : nat) : forall (s : store),
  WF s -> fuse s = None -> n <= ssize s ->
  sim s (heap_build_loop ple s n) (abuild_loop pr ple (eview s) n).1 (abuild_loop pr ple (eview s) n).2.
Proof.
  induction n as [|k IH]; intros s HWF Hf Hn; cbn [heap_build_loop abuild_loop].
  - cbn [fst snd]. apply (sim_intro s s); try done; lia.
  - destruct (heapify_sim s k HWF Hf ltac:(lia))
      as (s1 & Hr1 & HWF1 & Hev1 & Hm1 & Hsz1 & Htk1 & Hfu1 & Hcp1).
    rewrite Hr1. cbn [mbind res_bind rbind].
    destruct (aheapify pr ple (eview s) k) as [l1 t1] eqn:Hah. cbn [fst snd] in *.
    destruct (IH s1 HWF1 ltac:(congruence) ltac:(lia))
      as (s2 & Hr2 & HWF2 & Hev2 & Hm2 & Hsz2 & Htk2 & Hfu2 & Hcp2).
    rewrite Hev1 in Hev2, Htk2.
    destruct (abuild_loop pr ple l1 k) as [l2 t2] eqn:Hbl. cbn [fst snd] in *.
    apply (sim_intro s s2); try congruence. lia.
Qed.

Lemma heap_build_sim (s : store) :
  WF s -> fuse s = None ->
  sim s (heap_build ple s) (abuild pr ple (eview s)).1 (abuild pr ple (eview s)).2.
Proof.
  intros HWF Hf. unfold heap_build, abuild. rewrite (eview_length s HWF).
  destruct (decide (ssize s = 0)).
  - cbn [fst snd]. apply (sim_intro s s); try done; lia.
  - destruct (ssize s) as [|k] eqn:Hsz; [done|].
    cbn [parent mbind res_bind rbind]. rewrite par_S.
    apply heap_build_loop_sim; try done.
    rewrite Hsz. pose proof (Nat.div_lt_upper_bound k 2 (S k)). lia.
Qed.

End SimPQ.
